(* Model/Codec.v — fat2.{AddressAmountTuple,TypedAddressAmountTuple,Transaction,
   TransactionBatch}.UnmarshalJSON with their expected-length accounting, Transaction.Validate,
   TransactionBatch.{ValidData,ValidatePegTx,Validate,ValidExtIDs}, fat103.Validate and
   factom.ValidateRCD, and the canonical encoder (MarshalJSON).  Definitions only.

   How encoding/json is mirrored (go1.23, read from decode.go):
   * every UnmarshalJSON first compacts its input; the decoders below therefore work on the
     parsed value [jv] and take raw lengths from [print] (= the compacted text of that value);
     the nested json.Unmarshal calls on json.RawMessage fields re-parse exactly [print v];
   * an object member is given to the struct field whose name equals the unquoted key, or
     else equals it under Unicode simple case folding ([fold_key]: escapes are processed first;
     ASCII case, U+017F and U+212A are the only code points folding to letters of these
     names, so ASCII folding plus these two is exact for the field names in scope); the field
     names of every struct here are pairwise different under folding, so exact-match-first
     never changes the choice;
   * a later member for the same field overwrites an earlier one (last duplicate wins); members
     that match no field are skipped; a json.RawMessage field accepts any value, null included;
   * a type error or an Unmarshaler error anywhere in the object fails the whole Unmarshal, also
     in a member that a later duplicate overwrites (this matters only for the type field of the
     typed tuple, the one field that is not a RawMessage);
   * null into uint64 / uint / FAAddress is a silent no-op (value stays 0), null into a slice
     gives the nil slice, null reaches PTicker.UnmarshalJSON as the text null;
   * numbers go through strconv.ParseUint(raw, 10, 64): digits only, at most 2^64-1. *)
From Coq Require Import String Ascii.
From Model Require Export Json.
From Model Require Import Db.
From Gen Require Import Consts.
Import ListNotations.
Open Scope list_scope.
Open Scope Z_scope.

Fixpoint bytes_of_string (s : string) : bytes :=
  match s with
  | EmptyString => []
  | String a r => Z.of_N (N_of_ascii a) :: bytes_of_string r
  end.

Definition k_address : bytes := Eval vm_compute in bytes_of_string "address".
Definition k_amount : bytes := Eval vm_compute in bytes_of_string "amount".
Definition k_type : bytes := Eval vm_compute in bytes_of_string "type".
Definition k_input : bytes := Eval vm_compute in bytes_of_string "input".
Definition k_transfers : bytes := Eval vm_compute in bytes_of_string "transfers".
Definition k_conversion : bytes := Eval vm_compute in bytes_of_string "conversion".
Definition k_metadata : bytes := Eval vm_compute in bytes_of_string "metadata".
Definition k_version : bytes := Eval vm_compute in bytes_of_string "version".
Definition k_transactions : bytes := Eval vm_compute in bytes_of_string "transactions".
Definition s_null : bytes := Eval vm_compute in bytes_of_string "null".
Definition s_invalid_token_type : bytes := Eval vm_compute in bytes_of_string "invalid token type".

(* ---- struct decoding ------------------------------------------------------- *)
Definition key_is (name raw : bytes) : bool := beq (fold_key raw) name.

(* the value the field [name] ends up with: the LAST member whose key matches *)
Fixpoint jlookup (name : bytes) (ms : list (bytes * jv)) : option jv :=
  match ms with
  | [] => None
  | (k, v) :: r =>
    match jlookup name r with
    | Some x => Some x
    | None => if key_is name k then Some v else None
    end
  end.

Definition plen (v : jv) : nat := length (print v).
Definition plen_opt (o : option jv) : nat := match o with Some v => plen v | None => 0%nat end.

(* ---- leaves ----------------------------------------------------------------- *)
Definition max_uint64 : Z := 18446744073709551615.

(* json.Unmarshal(raw, &uint64) *)
Definition decode_u64 (v : jv) : option Z :=
  match v with
  | JNull => Some 0
  | JNum raw =>
    if all_digits raw then
      let n := dec_value raw in if n <=? max_uint64 then Some n else None
    else None
  | _ => None
  end.

(* fat2.validPTickers / validPTickerStrings, from Gen/Consts.v *)
Definition ticker_table : list (Z * bytes) :=
  Eval vm_compute in map (fun p => (fst p, bytes_of_string (snd p))) ticker_names.

Fixpoint ticker_lookup (tbl : list (Z * bytes)) (name : bytes) : option Z :=
  match tbl with
  | [] => None
  | (i, n) :: r => if beq n name then Some i else ticker_lookup r name
  end.
Fixpoint ticker_name (tbl : list (Z * bytes)) (t : Z) : option bytes :=
  match tbl with
  | [] => None
  | (i, n) :: r => if i =? t then Some n else ticker_name r t
  end.

(* PTicker.String() *)
Definition ticker_string (t : Z) : bytes :=
  if (t <=? 0) || (PTickerMax <=? t) then s_invalid_token_type
  else match ticker_name ticker_table t with Some n => n | None => [] end.

(* strings.Trim(s, quote) *)
Fixpoint trim_left (s : bytes) : bytes :=
  match s with c :: r => if c =? 34 then trim_left r else s | [] => [] end.
Definition trim_quotes (s : bytes) : bytes := rev (trim_left (rev (trim_left s))).

(* PTicker.UnmarshalJSON(data), data non-empty *)
Definition pticker_unmarshal (data : bytes) : option Z :=
  let t := match data with c :: _ => if c =? 34 then trim_quotes data else data | [] => data end in
  if (length t <? 3)%nat then None else ticker_lookup ticker_table t.

(* a field tagged `json:"type,string"` of type PTicker: the value must be a JSON string (its
   UNQUOTED text is handed to UnmarshalJSON; the empty string is an error) or null (handed over
   as the text null, which UnmarshalJSON rejects) *)
Definition decode_quoted_ticker (v : jv) : option Z :=
  match v with
  | JStr raw => match unquote raw with [] => None | u => pticker_unmarshal u end
  | JNull => pticker_unmarshal s_null
  | _ => None
  end.

(* json.Unmarshal(raw, &PTicker): UnmarshalJSON gets the raw text of whatever value it is *)
Definition decode_raw_ticker (v : jv) : option Z := pticker_unmarshal (print v).

(* every member addressed to the type field must decode; the last one counts; absent = 0 *)
Fixpoint decode_type_members (ms : list (bytes * jv)) : option Z :=
  match ms with
  | [] => Some 0
  | (k, v) :: r =>
    match decode_type_members r with
    | None => None
    | Some later =>
      if key_is k_type k then
        match decode_quoted_ticker v with
        | None => None
        | Some t => if existsb (fun m => key_is k_type (fst m)) r then Some later else Some t
        end
      else Some later
    end
  end.

Record batch := { b_version : Z; b_txs : list tx }.

Section Codec.
  (* base58check: text of an FA address -> the 32 payload bytes as a big-endian integer *)
  Variable addr_of_text : bytes -> option Z.

  (* json.Unmarshal(raw, &factom.FAAddress) (an encoding.TextUnmarshaler) *)
  Definition decode_addr (v : jv) : option Z :=
    match v with
    | JNull => Some 0
    | JStr raw => addr_of_text (unquote raw)
    | _ => None
    end.

  (* AddressAmountTuple.UnmarshalJSON *)
  Definition decode_tuple (j : jv) : option transfer :=
    match j with
    | JObj ms =>
      match jlookup k_address ms, jlookup k_amount ms with
      | Some va, Some vm =>
        match decode_addr va, decode_u64 vm with
        | Some a, Some n =>
          if (plen j =? 22 + plen va + plen vm)%nat
          then Some {| tr_addr := a; tr_amt := n |} else None
        | _, _ => None
        end
      | _, _ => None
      end
    | _ => None
    end.

  (* TypedAddressAmountTuple.UnmarshalJSON: (address, amount, type) *)
  Definition decode_typed_tuple (j : jv) : option (Z * Z * Z) :=
    match j with
    | JObj ms =>
      match decode_type_members ms with
      | None => None
      | Some t =>
        match jlookup k_address ms, jlookup k_amount ms with
        | Some va, Some vm =>
          match decode_addr va, decode_u64 vm with
          | Some a, Some n =>
            if (plen j =? 32 + plen va + plen vm + length (ticker_string t))%nat
            then Some (a, n, t) else None
          | _, _ => None
          end
        | _, _ => None
        end
      end
    | _ => None
    end.

  Fixpoint decode_all {A} (f : jv -> option A) (l : list jv) : option (list A) :=
    match l with
    | [] => Some []
    | x :: r => match f x, decode_all f r with
                | Some a, Some ar => Some (a :: ar)
                | _, _ => None
                end
    end.

  (* json.Unmarshal(raw, &[]T): null gives the nil slice *)
  Definition decode_array {A} (f : jv -> option A) (v : jv) : option (list A) :=
    match v with
    | JNull => Some []
    | JArr items => decode_all f items
    | _ => None
    end.

  (* Transaction.UnmarshalJSON *)
  Definition decode_transaction (j : jv) : option tx :=
    match j with
    | JObj ms =>
      match jlookup k_input ms with
      | None => None
      | Some vi =>
        match decode_typed_tuple vi with
        | None => None
        | Some (a, n, t) =>
          let otr := jlookup k_transfers ms in
          let ocv := jlookup k_conversion ms in
          match (match otr with Some v => decode_array decode_tuple v | None => Some [] end),
                (match ocv with Some v => decode_raw_ticker v | None => Some 0 end) with
          | Some trs, Some cv =>
            let meta := match jlookup k_metadata ms with Some v => (12 + plen v)%nat | None => 0%nat end in
            let is_conv := match trs with [] => (0 <? cv) && (cv <? PTickerMax) | _ => false end in
            let expected :=
              if is_conv then (meta + 24 + plen vi + plen_opt ocv)%nat
              else (meta + 23 + plen vi + plen_opt otr)%nat in
            if (plen j =? expected)%nat
            then Some {| tx_addr := a; tx_type := t; tx_amt := n; tx_transfers := trs; tx_conv := cv |}
            else None
          | _, _ => None
          end
        end
      end
    | _ => None
    end.

  (* TransactionBatch.UnmarshalJSON on a parsed value *)
  Definition decode_batch_j (j : jv) : option batch :=
    match j with
    | JObj ms =>
      match jlookup k_version ms, jlookup k_transactions ms with
      | Some vv, Some vt =>
        match decode_u64 vv, decode_array decode_transaction vt with
        | Some ver, Some txs =>
          if (plen j =? 28 + plen vv + plen vt)%nat
          then Some {| b_version := ver; b_txs := txs |} else None
        | _, _ => None
        end
      | _, _ => None
      end
    | _ => None
    end.

  Definition decode_batch (s : bytes) : option batch :=
    match parse_json s with
    | Some j => decode_batch_j j
    | None => None
    end.
End Codec.

(* ---- validation -------------------------------------------------------------- *)
Definition is_conversion (t : tx) : bool :=
  match tx_transfers t with [] => (0 <? tx_conv t) && (tx_conv t <? PTickerMax) | _ => false end.

(* the running uint64 subtraction of Transaction.Validate: None = insufficient input *)
Fixpoint remaining_after (rem : Z) (trs : list transfer) : option Z :=
  match trs with
  | [] => Some rem
  | tr :: r => if rem <? tr_amt tr then None else remaining_after (rem - tr_amt tr) r
  end.

(* Transaction.Validate *)
Definition tx_validate (t : tx) : bool :=
  if tx_addr t =? Fat2CoinbaseAddress then false
  else if (tx_addr t =? 0) && (tx_amt t =? 0) && (tx_type t =? 0) then false
  else if (tx_type t <=? 0) || (PTickerMax <=? tx_type t) then false
  else if (match tx_transfers t with [] => tx_conv t =? 0 | _ => false end) then false
  else if (match tx_transfers t with [] => false | _ => 0 <? tx_conv t end) then false
  else
    match remaining_after (tx_amt t) (tx_transfers t) with
    | None => false
    | Some rem =>
      if negb (is_conversion t) && negb (rem =? 0) then false
      else if is_conversion t && (tx_type t =? tx_conv t) then false
      else true
    end.

(* TransactionBatch.ValidData *)
Definition valid_data (b : batch) : bool :=
  (b_version b =? 1) &&
  match b_txs b with
  | [] => false
  | t0 :: _ => forallb tx_validate (b_txs b) && forallb (fun t => tx_addr t =? tx_addr t0) (b_txs b)
  end.

(* the last loop of TransactionBatch.Validate *)
Definition inputs_within_int64 (b : batch) : bool := forallb (fun t => tx_amt t <=? max_int64) (b_txs b).

(* TransactionBatch.ValidatePegTx *)
Definition validate_peg_tx (b : batch) : bool :=
  valid_data b && forallb (fun t => negb (tx_conv t =? PTickerPEG)) (b_txs b).

(* ---- the canonical encoder (TransactionBatch.MarshalJSON on a value without metadata) ---- *)
(* decimal digits, most significant first; 20 digits cover uint64 *)
Fixpoint digits_rev (fuel : nat) (n : Z) : bytes :=
  match fuel with
  | O => []
  | S f => if n <? 10 then [48 + n] else (48 + n mod 10) :: digits_rev f (n / 10)
  end.
Definition dec_of (n : Z) : bytes := rev (digits_rev 20 n).

Section Encode.
  Variable text_of_addr : Z -> bytes.

  Definition tuple_j (tr : transfer) : jv :=
    JObj [(k_address, JStr (text_of_addr (tr_addr tr))); (k_amount, JNum (dec_of (tr_amt tr)))].
  Definition input_j (t : tx) : jv :=
    JObj [(k_address, JStr (text_of_addr (tx_addr t))); (k_amount, JNum (dec_of (tx_amt t)));
          (k_type, JStr (ticker_string (tx_type t)))].
  (* omitempty: transfers left out when empty, conversion when 0 *)
  Definition tx_j (t : tx) : jv :=
    JObj ((k_input, input_j t) ::
          (match tx_transfers t with [] => [] | trs => [(k_transfers, JArr (map tuple_j trs))] end) ++
          (if tx_conv t =? 0 then [] else [(k_conversion, JStr (ticker_string (tx_conv t)))])).
  Definition batch_j (b : batch) : jv :=
    JObj [(k_version, JNum (dec_of (b_version b))); (k_transactions, JArr (map tx_j (b_txs b)))].
  Definition encode (b : batch) : bytes := print (batch_j b).
End Encode.

(* ---- the canonical language (the property's own notion; no reference to the decoder) ---- *)
(* Tolerated variations, written into the predicates: ASCII case of the letters of a key, the
   order of the members, white space between tokens (gone after parsing), escapes inside an
   address string, and the literal null in place of an address or an amount. *)
Definition lower_key (k : bytes) : bytes := map ascii_lower k.
Definition has_key (n : bytes) (ms : list (bytes * jv)) : bool :=
  existsb (fun m => beq (lower_key (fst m)) n) ms.
(* every key is an ASCII-case variant of one of [names]; no two keys are variants of one name *)
Fixpoint canon_members (names : list bytes) (ms : list (bytes * jv)) : bool :=
  match ms with
  | [] => true
  | (k, v) :: r =>
    existsb (beq (lower_key k)) names && negb (has_key (lower_key k) r) && canon_members names r
  end.
Fixpoint jmember (n : bytes) (ms : list (bytes * jv)) : option jv :=
  match ms with
  | [] => None
  | (k, v) :: r => if beq (lower_key k) n then Some v else jmember n r
  end.

Definition canon_amount (v : jv) : bool :=
  match v with
  | JNull => true
  | JNum raw => canon_number raw && (dec_value raw <=? max_uint64)
  | _ => false
  end.
Definition canon_address (v : jv) : bool :=
  match v with JNull => true | JStr _ => true | _ => false end.
(* a string whose raw text is exactly one of the 62 ticker names *)
Definition canon_ticker (v : jv) : bool :=
  match v with
  | JStr raw => match ticker_lookup ticker_table raw with Some _ => true | None => false end
  | _ => false
  end.
Definition opt_test (f : jv -> bool) (o : option jv) : bool :=
  match o with Some v => f v | None => false end.

Definition canon_tuple (j : jv) : bool :=
  match j with
  | JObj ms =>
    canon_members [k_address; k_amount] ms &&
    opt_test canon_address (jmember k_address ms) && opt_test canon_amount (jmember k_amount ms)
  | _ => false
  end.
Definition canon_input (j : jv) : bool :=
  match j with
  | JObj ms =>
    canon_members [k_address; k_amount; k_type] ms &&
    opt_test canon_address (jmember k_address ms) && opt_test canon_amount (jmember k_amount ms) &&
    opt_test canon_ticker (jmember k_type ms)
  | _ => false
  end.
Definition canon_tx (j : jv) : bool :=
  match j with
  | JObj ms =>
    canon_members [k_input; k_transfers; k_conversion; k_metadata] ms &&
    opt_test canon_input (jmember k_input ms) &&
    match jmember k_transfers ms, jmember k_conversion ms with
    | Some (JArr (x :: xs)), None => forallb canon_tuple (x :: xs)
    | None, Some v => canon_ticker v
    | _, _ => false
    end
  | _ => false
  end.
Definition canon_batch (j : jv) : bool :=
  match j with
  | JObj ms =>
    canon_members [k_version; k_transactions] ms &&
    match jmember k_version ms, jmember k_transactions ms with
    | Some (JNum [49]), Some (JArr (x :: xs)) => forallb canon_tx (x :: xs)
    | _, _ => false
    end
  | _ => false
  end.
Definition canonical_bytes (s : bytes) : bool :=
  match parse_json s with Some j => canon_batch j | None => false end.

(* ---- fat103.Validate / factom.ValidateRCD ------------------------------------- *)
(* an entry as ValidExtIDs sees it: chain id (32 bytes), ExtIDs, content, timestamp (unix
   seconds; entry timestamps are whole minutes of a directory block) *)
Record raw_entry := { re_chain : bytes; re_extids : list bytes; re_content : bytes; re_ts : Z }.

(* strconv.ParseInt(s, 10, 64): optional sign, one or more digits, range of int64 *)
Definition parse_int64 (s : bytes) : option Z :=
  let '(neg, d) := match s with
                   | c :: r => if c =? 45 then (true, r) else if c =? 43 then (false, r) else (false, s)
                   | [] => (false, s)
                   end in
  match d with
  | [] => None
  | _ => if all_digits d then
           let v := if neg then - dec_value d else dec_value d in
           if (- two63 <=? v) && (v <=? max_int64) then Some v else None
         else None
  end.

(* strconv.FormatUint(i, 10) for the RCD/signature pair index *)
Fixpoint digits_rev_nat (fuel : nat) (n : Z) : bytes :=
  match fuel with
  | O => []
  | S f => if n <? 10 then [48 + n] else (48 + n mod 10) :: digits_rev_nat f (n / 10)
  end.
Definition dec_of_index (i : nat) : bytes := rev (digits_rev_nat (S i) (Z.of_nat i)).

(* the signed message of pair i, before sha512: index, timestamp salt, chain id, content *)
Definition signed_message (i : nat) (e : raw_entry) : bytes :=
  dec_of_index i ++ nth 0 (re_extids e) [] ++ re_chain e ++ re_content e.

Definition salt_window : Z := 43200.   (* 12 h in seconds *)

Fixpoint remove_first (x : Z) (l : list Z) : option (list Z) :=
  match l with
  | [] => None
  | y :: r => if x =? y then Some r
              else match remove_first x r with Some r' => Some (y :: r') | None => None end
  end.

Fixpoint dedup (l : list Z) : list Z :=
  match l with
  | [] => []
  | x :: r => if existsb (Z.eqb x) r then dedup r else x :: dedup r
  end.

Section ExtIDs.
  (* sig_ok type pubkey msg sig: RCD-1: ed25519.Verify(pubkey, sha512(msg), sig);
     RCD-e: secp256k1 VerifySignature(04|pubkey, sha256d(sha512(msg)), sig) — [sig] is what the
     code passes, i.e. only the first 64 of the 65 signature bytes for RCD-e *)
  Variable sig_ok : Z -> bytes -> bytes -> bytes -> bool.
  Variable rcd_hash : bytes -> Z.          (* sha256d of the RCD bytes, as an address integer *)
  Variable rcde_activation : Z.            (* fat2.Fat2RCDEActivation *)

  (* the flag of ValidExtIDs reduced to what ValidateRCD asks of it *)
  Definition rcd1_enabled (height : Z) : bool := true.
  Definition rcde_enabled (height : Z) : bool := (rcde_activation <? height) || (height <? 0).

  (* factom.ValidateRCD: the RCD hash when type, sizes and signature check out *)
  Definition validate_rcd (height : Z) (rcd sig msg : bytes) : option Z :=
    match rcd with
    | [] => None
    | ty :: pk =>
      if ty =? 1 then
        if negb (rcd1_enabled height) then None
        else if negb (length rcd =? 33)%nat then None
        else if negb (length sig =? 64)%nat then None
        else if sig_ok 1 pk msg sig then Some (rcd_hash rcd) else None
      else if ty =? 14 then
        if negb (rcde_enabled height) then None
        else if negb (length rcd =? 65)%nat then None
        else if negb (length sig =? 65)%nat then None
        else if sig_ok 14 pk msg (firstn 64 sig) then Some (rcd_hash rcd) else None
      else None
    end.

  (* the loop over the RCD/signature pairs; [expected] shrinks as hashes are matched *)
  Fixpoint validate_pairs (height : Z) (e : raw_entry) (i : nat) (pairs : list bytes)
           (expected : list Z) : bool :=
    match pairs with
    | [] => true
    | rcd :: sig :: rest =>
      match validate_rcd height rcd sig (signed_message i e) with
      | None => false
      | Some h =>
        match remove_first h expected with
        | None => false
        | Some expected' => validate_pairs height e (S i) rest expected'
        end
      end
    | _ => false
    end.

  (* TransactionBatch.ValidExtIDs (fat103.Validate with the set of input addresses) *)
  Definition valid_extids (height : Z) (inputs : list Z) (e : raw_entry) : bool :=
    let expected := dedup inputs in
    match expected with
    | [] => false
    | _ =>
      if negb (length (re_extids e) =? 2 * length expected + 1)%nat then false
      else
        match re_extids e with
        | [] => false
        | salt :: pairs =>
          match parse_int64 salt with
          | None => false
          | Some sec =>
            let diff := re_ts e - sec in
            if (diff <? - salt_window) || (salt_window <? diff) then false
            else validate_pairs height e 0 pairs expected
          end
        end
    end.

  Variable addr_of_text : bytes -> option Z.

  (* fat2.NewTransactionBatch(entry, height): UnmarshalJSON(content), then Validate(height) =
     ValidData, ValidExtIDs, int64 bound on the input amounts *)
  Definition new_transaction_batch (height : Z) (e : raw_entry) : option batch :=
    match decode_batch addr_of_text (re_content e) with
    | None => None
    | Some b =>
      if negb (valid_data b) then None
      else if negb (valid_extids height (map tx_addr (b_txs b)) e) then None
      else if negb (inputs_within_int64 b) then None
      else Some b
    end.
End ExtIDs.
