(* Model/Obs.v — the observable projection of a database (the tables named in C01's observe_at,
   row ids and wall-clock columns excluded) as rows of integers, and the runner that replays a
   chain and compares with what the real node produced.  Definitions only. *)
From Model Require Export Block.
From Gen Require Import Consts.
Open Scope Z_scope.

Definition row := list Z.

Fixpoint row_ltb (a b : row) : bool :=
  match a, b with
  | [], [] => false
  | [], _ => true
  | _, [] => false
  | x :: a', y :: b' => (x <? y) || ((x =? y) && row_ltb a' b')
  end.

Fixpoint merge_rows (l1 : list row) : list row -> list row :=
  match l1 with
  | [] => fun l2 => l2
  | x :: l1' =>
    fix inner (l2 : list row) : list row :=
      match l2 with
      | [] => l1
      | y :: l2' => if row_ltb y x then y :: inner l2' else x :: merge_rows l1' l2
      end
  end.
Fixpoint split_rows (l : list row) : list row * list row :=
  match l with
  | [] => ([], [])
  | [x] => ([x], [])
  | x :: y :: l' => let '(a, b) := split_rows l' in (x :: a, y :: b)
  end.
Fixpoint msort_fuel (fuel : nat) (l : list row) : list row :=
  match fuel with
  | O => l
  | S k => match l with
           | [] | [_] => l
           | _ => let '(a, b) := split_rows l in merge_rows (msort_fuel k a) (msort_fuel k b)
           end
  end.
Definition sort_rows (l : list row) : list row := msort_fuel (length l) l.

Definition b2z (b : bool) : Z := if b then 1 else 0.

Definition cells_rows (tag : Z) (m : gmap (addr * ticker) Z) : list row :=
  omap (fun kv => let '((a, t), v) := kv in if v =? 0 then None else Some [tag; a; t; v]) (map_to_list m).

Definition dump_db (s : db) : list row :=
  cells_rows 1 (bal s) ++ cells_rows 2 (snap_cur s) ++ cells_rows 3 (snap_past s)
  ++ flat_map (fun hr => map (fun tv => [4; fst hr; fst tv; snd tv]) (map_to_list (snd hr))) (map_to_list (rates s))
  ++ map (fun kv => let '(h, (a, u, r)) := kv in [5; h; a; u; r]) (map_to_list (bank s))
  ++ map (fun r => [6; hb_hash r; hb_height r; hb_order r; hb_ts r; hb_exec r]) (hist s)
  ++ map (fun r => [7; ht_hash r; ht_index r; ht_action r; ht_from r; ht_from_asset r; ht_from_amount r;
                    ht_to_asset r; ht_to_amount r; Z.of_nat (length (ht_outputs r))]
                   ++ flat_map (fun o => [fst o; snd o]) (ht_outputs r)) (htxs s)
  ++ map (fun k => [8; fst (fst k); snd (fst k); snd k]) (lookups s)
  ++ map (fun x => [9; e_hash (h_entry x); h_height x]) (holding s)
  ++ flat_map (fun kv => map (fun r => let '(a, idx, to, conv) := r in [10; fst kv; a; idx; b2z to; b2z conv]) (snd kv))
              (map_to_list (rel s))
  ++ map (fun w => let '(h, pos, eh, pay, _) := w in [11; h; pos; eh; pay]) (winners s)
  ++ map (fun kv => 12 :: fst kv :: snd kv) (map_to_list (grades s))
  ++ match synced s with Some h => [[13; h]] | None => [] end
  ++ map (fun kv => [14; fst kv; snd kv]) (map_to_list (versions s)).

Fixpoint rows_first_diff (a b : list row) : option (option row * option row) :=
  match a, b with
  | [], [] => None
  | x :: a', y :: b' => if list_Z_eqb x y then rows_first_diff a' b' else Some (Some x, Some y)
  | x :: _, [] => Some (Some x, None)
  | [], y :: _ => Some (None, Some y)
  end.

(* what the real node did with one block *)
Record obs := {
  o_ok : bool;                        (* the block was applied and committed *)
  o_rows : option (list row)          (* sorted dump of the database after it, when recorded *)
}.

(* mismatch report: height, kind (1 model stuck / node applied; 2 node stuck or crashed / model
   applied; 3 dumps differ; 4 oracle miss; 5 lengths), model's outcome code, first differing rows
   (model, node) *)
Definition mismatch := (Z * Z * Z * option (option row * option row))%type.

(* [keep] selects the rows that are compared (a projection of the observables) *)
Fixpoint run_chain_gen (keep : row -> bool) (c : cfg) (cm : db) (mem : avgcache) (bs : list block) (ex : list obs)
  : option mismatch :=
  match bs, ex with
  | [], _ => None
  | b :: bs', o :: ex' =>
    match step_block c cm mem b with
    | Done (s', mem') =>
      if negb (o_ok o) then Some (b_height b, 2, 0, None)
      else match o_rows o with
           | None => run_chain_gen keep c s' mem' bs' ex'
           | Some rs => match rows_first_diff (filter keep (sort_rows (dump_db s'))) (filter keep rs) with
                        | None => run_chain_gen keep c s' mem' bs' ex'
                        | Some d => Some (b_height b, 3, 0, Some d)
                        end
           end
    | Stuck code => if o_ok o then Some (b_height b, 1, code, None) else None
    | Crashed code => if o_ok o then Some (b_height b, 1, 1000 + code, None) else None
    | OracleMiss w => Some (b_height b, 4, w, None)
    end
  | _ :: _, [] => Some (0, 5, 0, None)
  end.
Definition run_chain := run_chain_gen (fun _ => true).

(* one pass giving both the first mismatch on the full dump and the first mismatch on the projection;
   [full] = the full-dump mismatch found so far *)
Fixpoint run_chain2 (keep : row -> bool) (c : cfg) (cm : db) (mem : avgcache) (bs : list block) (ex : list obs)
         (full : option mismatch) : option mismatch * option mismatch :=
  match bs, ex with
  | [], _ => (full, None)
  | b :: bs', o :: ex' =>
    let both m := (match full with Some f => Some f | None => Some m end, Some m) in
    match step_block c cm mem b with
    | Done (s', mem') =>
      if negb (o_ok o) then both (b_height b, 2, 0, None)
      else match o_rows o with
           | None => run_chain2 keep c s' mem' bs' ex' full
           | Some rs =>
             let d := sort_rows (dump_db s') in
             match rows_first_diff d rs with
             | None => run_chain2 keep c s' mem' bs' ex' full
             | Some df =>
               let full' := match full with Some f => Some f | None => Some (b_height b, 3, 0, Some df) end in
               match rows_first_diff (filter keep d) (filter keep rs) with
               | None => run_chain2 keep c s' mem' bs' ex' full'
               | Some dp => (full', Some (b_height b, 3, 0, Some dp))
               end
             end
           end
    | Stuck code => if o_ok o then both (b_height b, 1, code, None) else (full, None)
    | Crashed code => if o_ok o then both (b_height b, 1, 1000 + code, None) else (full, None)
    | OracleMiss w => both (b_height b, 4, w, None)
    end
  | _ :: _, [] => (match full with Some f => Some f | None => Some (0, 5, 0, None) end, Some (0, 5, 0, None))
  end.
Definition keep_tags (tags : list Z) (r : row) : bool :=
  match r with t :: _ => existsb (Z.eqb t) tags | [] => false end.

(* replay of a chain from a committed database and an in-memory cache: the ledger semantics *)
Fixpoint replay (c : cfg) (cm : db) (mem : avgcache) (bs : list block) : outcome (db * avgcache) :=
  match bs with
  | [] => Done (cm, mem)
  | b :: bs' =>
    match step_block c cm mem b with
    | Done (s', mem') => replay c s' mem' bs'
    | Stuck code => Stuck code
    | Crashed code => Crashed code
    | OracleMiss w => OracleMiss w
    end
  end.
Definition odb {A B} (r : outcome (A * B)) : outcome A :=
  match r with Done x => Done (fst x) | Stuck e => Stuck e | Crashed e => Crashed e | OracleMiss w => OracleMiss w end.

(* the same with the in-memory cache dropped (a restart) before every block whose height is listed *)
Fixpoint run_chain_restarts (c : cfg) (restarts : list Z) (cm : db) (mem : avgcache) (bs : list block)
  : outcome db :=
  match bs with
  | [] => Done cm
  | b :: bs' =>
    let mem0 := if existsb (Z.eqb (b_height b)) restarts then empty_cache else mem in
    match step_block c cm mem0 b with
    | Done (s', mem') => run_chain_restarts c restarts s' mem' bs'
    | Stuck code => Stuck code
    | Crashed code => Crashed code
    | OracleMiss w => OracleMiss w
    end
  end.

(* a fresh database: pegnet.Init() creates empty tables; the node starts at PegnetActivation *)
Definition genesis : db := empty_db.
