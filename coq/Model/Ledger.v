(* Model/Ledger.v — node/sync.go: transaction batches, holding, PEG requests, burns,
   rewards, snapshots, developer payouts, the one-time adjustments and SyncBlock.
   Definitions only; mirrors the Go control flow including its quirks. *)
From Model Require Export Db Avg.
From Gen Require Import Consts.
Open Scope Z_scope.

Definition is_empty_map {A} (m : gmap Z A) : bool := match map_to_list m with [] => true | _ => false end.

(* ---- fat2.Transaction predicates ------------------------------------------- *)
Definition is_conversion (t : tx) : bool :=
  match tx_transfers t with [] => valid_ticker (tx_conv t) | _ => false end.
Definition is_peg_request (t : tx) : bool :=
  match tx_transfers t with [] => tx_conv t =? PTickerPEG | _ => false end.
Definition has_conversions (b : list tx) : bool := existsb is_conversion b.
Definition has_peg_request (b : list tx) : bool := existsb is_peg_request b.

(* TransactionBatch.Validate(height) on a stored/decoded entry: the data part is height
   independent; the signature part accepts RCD-e only strictly above the activation *)
(* amounts are uint64 in the Go structures: a decoded batch never carries a negative one *)
Definition tx_nonneg_okb (t : tx) : bool :=
  (0 <=? tx_amt t) && forallb (fun tr => 0 <=? tr_amt tr) (tx_transfers t).
(* Transaction.Validate / TransactionBatch.Validate: the outputs of a transfer add up to its input EXACTLY
   (over the integers: a sum that only matches modulo 2^64 is not a match) and the input fits int64 *)
Definition tx_sum_okb (t : tx) : bool :=
  (tx_amt t <=? max_int64) &&
  match tx_transfers t with
  | [] => true
  | trs => fold_right (fun tr acc => tr_amt tr + acc) 0 trs =? tx_amt t
  end.
Definition tx_amounts_okb (t : tx) : bool := tx_nonneg_okb t && tx_sum_okb t.
Definition entry_valid_at (c : cfg) (e : entry) (h : Z) : option (list tx) :=
  match e_batch e with
  | None => None
  | Some b => if e_rcde e && negb (c_Fat2RCDEActivation c <? h) then None
              else if forallb tx_amounts_okb b then Some b else None
  end.
(* ValidatePegTx: from 2.0 on a batch with a conversion into PEG is invalid *)
Definition has_peg_conversion (b : list tx) : bool := existsb (fun t => tx_conv t =? PTickerPEG) b.

Section WithCfg.
Variable c : cfg.

Definition burn_addr (h : Z) : addr := if c_V202EnhanceActivation c <=? h then GlobalBurnAddress else 0.

(* ---- applyTransactionBatch --------------------------------------------------- *)
Inductive batch_result :=
| BApplied (s : db)          (* nil: recorded *)
| BRejected (code : Z)       (* one of the tolerated errors: -1 -3 -4 -5 *)
| BDropped                   (* nil returned before anything was written (Convert error) *)
| BFail (code : Z).          (* any other error: fails the block *)

Definition conv_of (h : Z) (rates avgs : gmap ticker Z) (t : tx) : option Z :=
  convert_h c h (tx_amt t) (rate_of rates (tx_type t)) (rate_of avgs (tx_type t))
                           (rate_of rates (tx_conv t)) (rate_of avgs (tx_conv t)).

(* first loop: per-transaction checks against the balance at the start of the batch *)
Fixpoint check_txs (h : Z) (s : db) (rates avgs : gmap ticker Z) (txs : list tx) : option batch_result :=
  match txs with
  | [] => None
  | t :: rest =>
    if get_bal (bal s) (tx_addr t) (tx_type t) <? tx_amt t then Some (BRejected (-1))
    else if is_conversion t then
      if is_empty_map rates then Some (BFail E_NORATES)
      else if (rate_of rates (tx_type t) =? 0) || (rate_of rates (tx_conv t) =? 0) then Some (BRejected (-4))
      else if (c_OneWaypFCTConversions c <=? h) && (existsb (Z.eqb (tx_conv t)) oneway_pfct_dests) then Some (BRejected (-3))
      else if (c_OneWaySmallAssetsConversions c <=? h) && (existsb (Z.eqb (tx_conv t)) oneway_small_dests) then Some (BRejected (-5))
      else match conv_of h rates avgs t with
           | None => Some BDropped
           | Some _ => check_txs h s rates avgs rest
           end
    else check_txs h s rates avgs rest
  end.

(* second loop: uint64 simulation of the whole batch on the in-memory copy of the input
   addresses' balances ([present] = the addresses that are keys of that copy) *)
Definition sim_get (m : gmap (addr * ticker) Z) a t := default 0 (m !! (a, t)).
Fixpoint sim_txs (h : Z) (present : list addr) (rates avgs : gmap ticker Z)
         (m : gmap (addr * ticker) Z) (txs : list tx) : option batch_result :=
  match txs with
  | [] => None
  | t :: rest =>
    let a := tx_addr t in
    if sim_get m a (tx_type t) <? tx_amt t then Some (BRejected (-1))
    else
      let m1 := <[(a, tx_type t) := wrap64 (sim_get m a (tx_type t) - tx_amt t)]> m in
      if is_conversion t then
        match conv_of h rates avgs t with
        | None => Some (BFail E_CONVERT)
        | Some out => sim_txs h present rates avgs
                        (<[(a, tx_conv t) := wrap64 (sim_get m1 a (tx_conv t) + wrap64 out)]> m1) rest
        end
      else
        let m2 := fold_left (fun m' tr =>
                     if existsb (Z.eqb (tr_addr tr)) present
                     then <[(tr_addr tr, tx_type t) := wrap64 (sim_get m' (tr_addr tr) (tx_type t) + tr_amt tr)]> m'
                     else m') (tx_transfers t) m1 in
        sim_txs h present rates avgs m2 rest
  end.

(* recordBatch *)
Definition credit_transfers (h : Z) (hs : hash) (idx : Z) (ty : ticker) (trs : list transfer) (s : db) : res db :=
  fold_left (fun r tr =>
      let? s' := r in
      if tr_addr tr =? burn_addr h then Ok s'
      else let? s1 := add_to_balance s' (tr_addr tr) ty (tr_amt tr) in
           Ok (insert_relation s1 (tr_addr tr) hs idx true false)) trs (Ok s).

Fixpoint record_txs (h : Z) (hs : hash) (rates avgs : gmap ticker Z) (idx : Z) (txs : list tx) (s : db) : res db :=
  match txs with
  | [] => Ok s
  | t :: rest =>
    match sub_from_balance s (tx_addr t) (tx_type t) (tx_amt t) with
    | SubFail code => Fail code
    | SubInsufficient => Fail E_UNCAUGHT
    | SubOk s1 =>
      let s2 := insert_relation s1 (tx_addr t) hs idx false (is_conversion t) in
      let s3 := set_executed s2 hs h in
      if (c_PegnetConversionLimitActivation c <=? h) && is_peg_request t then
        match conv_of h rates avgs t with
        | None => Fail E_CONVERT
        | Some _ => record_txs h hs rates avgs (idx + 1) rest s3      (* PEG outputs are handled later *)
        end
      else if is_conversion t then
        match conv_of h rates avgs t with
        | None => Fail E_CONVERT
        | Some out =>
          let s4 := set_to_amount s3 hs idx out in
          let? s5 := add_to_balance s4 (tx_addr t) (tx_conv t) (wrap64 out) in   (* uint64(outputAmount) *)
          record_txs h hs rates avgs (idx + 1) rest s5
        end
      else
        let? s4 := credit_transfers h hs idx (tx_type t) (tx_transfers t) s3 in
        record_txs h hs rates avgs (idx + 1) rest s4
    end
  end.

Definition record_batch h hs rates avgs txs s := record_txs h hs rates avgs 0 txs s.

Definition apply_batch (h : Z) (s : db) (hs : hash) (txs : list tx) (rates avgs : gmap ticker Z) : batch_result :=
  match check_txs h s rates avgs txs with
  | Some r => r
  | None =>
    match sim_txs h (map tx_addr txs) rates avgs (bal s) txs with
    | Some r => r
    | None => match record_batch h hs rates avgs txs s with
              | Ok s' => BApplied s'
              | Fail code => BFail code
              | Panic code => BFail code
              end
    end
  end.

(* ---- recordPegnetRequests ------------------------------------------------------ *)
(* one request per transaction of every listed batch (all of them, not only the PEG
   requests: that is what the code does) *)
Record peg_req := { pr_txid : txid; pr_tx : tx; pr_amt : Z }.
Fixpoint reqs_of_batch (h : Z) (rates avgs : gmap ticker Z) (hs : hash) (idx : Z) (txs : list tx) : list peg_req :=
  match txs with
  | [] => []
  | t :: rest =>
    {| pr_txid := (hs, idx); pr_tx := t;
       pr_amt := wrap64 (match conv_of h rates avgs t with Some v => v | None => 0 end) |}
    :: reqs_of_batch h rates avgs hs (idx + 1) rest
  end.

Definition pay_request (h : Z) (rates : gmap ticker Z) (reqs : list peg_req) (s : db) (p : txid * Z) : res db :=
  match find (fun r => txid_eqb (pr_txid r) (fst p)) reqs with
  | None => Ok s
  | Some r =>
    let t := pr_tx r in
    let yield := snd p in
    let rf := refund (c_PIP10AverageActivation c <=? h) (tx_amt t) yield
                     (rate_of rates (tx_type t)) (rate_of rates (tx_conv t)) in
    let s1 := set_peg_request_amounts s (fst (fst p)) (snd (fst p)) yield [(tx_addr t, rf)] in
    let? s2 := add_to_balance s1 (tx_addr t) (tx_conv t) yield in
    add_to_balance s2 (tx_addr t) (tx_type t) (wrap64 rf)                       (* uint64(refundAmt) *)
  end.

Definition has_dup_txid (l : list txid) : bool :=
  (fix go (l : list txid) := match l with [] => false | x :: r => existsb (txid_eqb x) r || go r end) l.

(* [order] enumerates the payouts map the way Go's map iteration happens to *)
Definition record_peg_requests_ord (order : list (txid * Z) -> list (txid * Z))
           (h : Z) (s : db) (batches : list (hash * list tx)) (rates avgs : gmap ticker Z)
           (bankamt : Z) (bank_height : Z) : res db :=
  let reqs := flat_map (fun b => reqs_of_batch h rates avgs (fst b) 0 (snd b)) batches in
  if has_dup_txid (map pr_txid reqs) then Fail E_DUP_TXID else
  let rs : requests := map (fun r => (pr_txid r, pr_amt r)) reqs in
  let pays := payouts bankamt rs in
  let total_paid := sum_snd pays in
  let? s1 := fold_left (fun r p => let? s' := r in pay_request h rates reqs s' p) (order pays) (Ok s) in
  if c_V4OPRUpdate c <=? bank_height
  then update_bank s1 bank_height total_paid (total_requested rs)
  else Ok s1.
Definition record_peg_requests := record_peg_requests_ord (fun l => l).

(* ---- ApplyTransactionBatchesInHolding -------------------------------------------- *)
(* one held batch; returns the new state and whether the batch joins pegConversions *)
Definition apply_held (cur : Z) (rates avgs : gmap ticker Z) (s : db) (e : entry) (held_h : Z)
  : res (db * bool) :=
  match entry_valid_at c e held_h with
  | None => Ok (s, false)            (* "failed to parse tx from database": skipped *)
  | Some txs =>
    if (c_V20HeightActivation c <=? cur) && has_peg_conversion txs then Ok (set_executed s (e_hash e) (-2), false)
    else match entry_valid_at c e cur with
    | None => Ok (set_executed s (e_hash e) (-2), false)
    | Some _ =>
      if is_replay s (e_hash e) then Ok (s, false)
      else match apply_batch cur s (e_hash e) txs rates avgs with
           | BFail code => Fail code
           | BRejected code => Ok (set_executed s (e_hash e) code, false)
           | BDropped => Ok (s, (cur <? c_V20HeightActivation c) && (c_PegnetConversionLimitActivation c <=? cur) && has_peg_request txs)
           | BApplied s' => Ok (s', (cur <? c_V20HeightActivation c) && (c_PegnetConversionLimitActivation c <=? cur) && has_peg_request txs)
           end
    end
  end.

Definition apply_held_height (cm : db) (cur : Z) (rates avgs : gmap ticker Z) (hh : Z)
           (acc : res (db * list (hash * list tx))) : res (db * list (hash * list tx)) :=
  let? st := acc in
  let '(s0, pegs0) := st in
  (* the held batches of that height are read through the pool: the committed database [cm] *)
  let? st1 := fold_left (fun r e =>
                 let? st := r in
                 let '(s, pegs) := st in
                 let? r1 := apply_held cur rates avgs s e hh in
                 let '(s', isp) := r1 in
                 Ok (s', if isp then pegs ++ [(e_hash e, default [] (e_batch e))] else pegs))
              (holding_at cm hh) (Ok (s0, pegs0)) in
  let '(s1, pegs1) := st1 in
  if (c_PegnetConversionLimitActivation c <=? cur) && (cur <? c_V4OPRUpdate c)
  then let? s2 := record_peg_requests cur s1 pegs1 rates avgs BankBaseAmount (cur - 1) in Ok (s2, [])
  else Ok (s1, pegs1).

Definition apply_holding (cm : db) (cur : Z) (s : db) (rates avgs : gmap ticker Z) : res db :=
  let from := last_rated_below s cur in
  let? st := fold_left (fun acc hh => apply_held_height cm cur rates avgs hh acc)
                       (zrange from (Z.to_nat (cur - from))) (Ok (s, [])) in
  let '(s1, pegs) := st in
  if (c_V4OPRUpdate c <=? cur) && (cur <? c_V20HeightActivation c) then
    match bank s1 !! cur with
    | None => record_peg_requests cur s1 pegs rates avgs (wrap64 (-1)) cur   (* BankAmount -1 of the "no row" entry *)
    | Some (amount, _, _) => record_peg_requests cur s1 pegs rates avgs amount cur
    end
  else Ok s1.

(* ---- ApplyTransactionBlock --------------------------------------------------------- *)
Definition history_rows_of (hs : hash) (txs : list tx) : list (htx * list addr) :=
  (fix go (idx : Z) (txs : list tx) :=
     match txs with
     | [] => []
     | t :: rest =>
       (if is_conversion t
        then ({| ht_hash := hs; ht_index := idx; ht_action := 2; ht_from := tx_addr t; ht_from_asset := tx_type t;
                 ht_from_amount := tx_amt t; ht_to_asset := tx_conv t; ht_to_amount := 0; ht_outputs := [] |},
              [tx_addr t])
        else ({| ht_hash := hs; ht_index := idx; ht_action := 1; ht_from := tx_addr t; ht_from_asset := tx_type t;
                 ht_from_amount := tx_amt t; ht_to_asset := 0; ht_to_amount := 0;
                 ht_outputs := map (fun tr => (tr_addr tr, tr_amt tr)) (tx_transfers t) |},
              tx_addr t :: map tr_addr (tx_transfers t)))
       :: go (idx + 1) rest
     end) 0 txs.

Definition insert_history (s : db) (e : entry) (order h : Z) (txs : list tx) : res db :=
  let? s1 := insert_hbatch s {| hb_hash := e_hash e; hb_height := h; hb_order := order; hb_ts := e_ts e; hb_exec := 0 |} in
  fold_left (fun r row => let? s' := r in insert_htx s' (fst row) (snd row)) (history_rows_of (e_hash e) txs) (Ok s1).

Definition apply_entry (h : Z) (s : db) (order : Z) (e : entry) : res db :=
  match entry_valid_at c e h with
  | None => Ok s                                          (* badly formatted entry: skipped *)
  | Some txs =>
    if is_replay s (e_hash e) then Ok s
    else if hist_has s (e_hash e) then Ok s               (* already recorded (pending or rejected): skipped — see known_findings, fixed *)
    else
      let? s1 := insert_history s e order h txs in
      if has_conversions txs then insert_holding s1 e h
      else match apply_batch h s1 (e_hash e) txs ∅ ∅ with
           | BApplied s2 => Ok s2
           | BRejected code => if code =? -1 then Ok (set_executed s1 (e_hash e) (-1)) else Fail (100 - code)
           | BDropped => Ok s1
           | BFail code => Fail code
           end
  end.

Definition apply_tx_block (h : Z) (s : db) (es : list entry) : res db :=
  snd (fold_left (fun acc e => let '(i, r) := acc in (i + 1, let? s' := r in apply_entry h s' i e)) es (0, Ok s)).

(* ---- ApplyFactoidBlock --------------------------------------------------------------- *)
Record ftx := {
  f_txid : hash; f_ts : Z;
  f_inputs : list (addr * Z); f_outputs : list (addr * Z); f_ecoutputs : list (Z * Z)
}.
Definition is_burn (f : ftx) : option (addr * Z) :=
  match f_ecoutputs f, f_inputs f, f_outputs f with
  | [(ec, amt)], [(a, v)], [] => if (ec =? BurnRCD) && (amt =? 0) && (0 <=? v) then Some (a, v) else None
  | _, _, _ => None
  end.
Definition apply_factoid_block (h : Z) (s : db) (fs : list ftx) : res db :=
  fold_left (fun r f =>
    let? s' := r in
    match is_burn f with
    | None => Ok s'
    | Some (a, v) =>
      let? s1 := add_to_balance s' a PTickerFCT v in
      let? s2 := insert_hbatch s1 {| hb_hash := f_txid f; hb_height := h; hb_order := -1; hb_ts := f_ts f; hb_exec := h |} in
      insert_htx s2 {| ht_hash := f_txid f; ht_index := 0; ht_action := 4; ht_from := a; ht_from_asset := -1;
                       ht_from_amount := v; ht_to_asset := PTickerFCT; ht_to_amount := v; ht_outputs := [] |} [a]
    end) fs (Ok s).

(* ---- grading verdicts (what Grade / GradeS returned) ---------------------------------- *)
Record winner := {
  w_hash : hash;             (* entry hash of the record *)
  w_addr : option addr;      (* payout address; None when the record's address string does not decode *)
  w_payout : Z;
  w_pos : Z;
  w_height : Z               (* the height the record claims (OPR.GetHeight) *)
}.
Record verdict := {
  v_winners : list winner;   (* Winners() *)
  v_graded : list winner;    (* Graded() *)
  v_short : list Z;          (* WinnersShortHashes() *)
  v_assets : list (Z * Z)    (* winners[0]'s ordered assets: (ticker of "p"+name, 1 for PEG, -k for the k-th
                                name that is no ticker ; value) *)
}.

(* pegnet.InsertGradeBlock *)
Definition insert_grade (h : Z) (s : db) (v : verdict) : res db :=
  match grades s !! h with
  | Some _ => Fail E_UNIQUE_GRADE
  | None =>
    let rows := match v_winners v with
                | [] => []
                | _ => map (fun w => (h, w_pos w, w_hash w, w_payout w, default 0 (w_addr w))) (v_graded v)
                end in
    if existsb (fun r => existsb (fun r' => (fst (fst (fst (fst r))) =? fst (fst (fst (fst r')))) &&
                                            (snd (fst (fst (fst r))) =? snd (fst (fst (fst r'))))) (winners s)) rows
    then Fail E_UNIQUE_GRADE
    else Ok (set_grades s (<[h := v_short v]> (grades s)) (winners s ++ rows))
  end.

(* pegnet.InsertRates.  phase: 1 zero, 2 equation, 3 floating *)
Fixpoint has_dup (l : list Z) : bool := match l with [] => false | x :: r => existsb (Z.eqb x) r || has_dup r end.
Definition insert_rates (committed : db) (h : Z) (s : db) (assets : list (Z * Z)) (phase : Z) : res db :=
  match rates s !! h with
  | Some _ => Fail E_UNIQUE_RATE
  | None =>
    let others := filter (fun a => negb (fst a =? PTickerPEG)) assets in
    if has_dup (map fst others) then Fail E_UNIQUE_RATE
    else if existsb (fun a => two63 <=? snd a) others then Fail E_SQLARG
    (* SelectIssuances is one SELECT of SUM(col) over every balance column: SQLite raises "integer
       overflow" as soon as one column total leaves int64 *)
    else if (phase =? 2) && existsb (fun t => max_int64 <? supply committed t) all_tickers then Fail E_OVERFLOW_CELL
    else
      let reported_peg := fold_left (fun acc a => if fst a =? PTickerPEG then snd a else acc) assets 0 in
      let peg :=
        if phase =? 1 then 0
        else if phase =? 2 then
          (* capitalisation of all other assets / PEG supply, both read through the pool:
             the committed database, i.e. the end of the previous block *)
          let cap := fold_left (fun acc a => acc + supply committed (fst a) * snd a) others 0 in
          if supply committed PTickerPEG =? 0 then 0 else wrap64 (cap / supply committed PTickerPEG)
        else reported_peg in
      if two63 <=? peg then Fail E_SQLARG
      else
        let m := fold_left (fun m a => if valid_ticker (fst a) then <[fst a := snd a]> m else m) others ∅ in
        Ok (set_rates s (<[h := <[PTickerPEG := peg]> m]> (rates s)))
  end.

(* ApplyGradedOPRBlock / ApplyGradedSPRBlock *)
Definition pay_winners (s : db) (ts : Z) (ws : list winner) : res db :=
  fold_left (fun r w =>
    let? s' := r in
    match w_addr w with
    | None => Ok s'
    | Some a =>
      let? s1 := add_to_balance s' a PTickerPEG (wrap64 (w_payout w)) in
      let? s2 := insert_hbatch s1 {| hb_hash := w_hash w; hb_height := w_height w; hb_order := 0; hb_ts := ts; hb_exec := w_height w |} in
      insert_htx s2 {| ht_hash := w_hash w; ht_index := 0; ht_action := 3; ht_from := a; ht_from_asset := 0;
                       ht_from_amount := 0; ht_to_asset := PTickerPEG; ht_to_amount := w_payout w; ht_outputs := [] |} [a]
    end) ws (Ok s).

End WithCfg.
