(* Model/Decimal.v — cmd.FactoidToFactoshi (cmd/util.go).  Strings are lists of byte codes. *)
From Model Require Export Base.

Definition is_digit (c : Z) : bool := (48 <=? c) && (c <=? 57).
Definition all_digits (s : list Z) : bool := forallb is_digit s.
Definition dot : Z := 46.

(* regexp.Split(amt, 2) on "\.": the text before the first dot, and the rest if there is a dot *)
Fixpoint split_dot (s : list Z) : list Z * option (list Z) :=
  match s with
  | [] => ([], None)
  | c :: s' => if c =? dot then ([], Some s')
               else let '(w, f) := split_dot s' in (c :: w, f)
  end.

(* numeric value of a digit string, most significant first; "" is 0 *)
Definition dec_value (s : list Z) : Z := fold_left (fun acc c => acc * 10 + (c - 48)) s 0.

(* `^([0-9]+)?(\.[0-9]+)?$` — Go's `$` without the m flag matches only at the end of the text *)
Definition amount_syntax_ok (s : list Z) : bool :=
  let '(w, f) := split_dot s in
  all_digits w && match f with None => true | Some f => all_digits f && negb (Nat.eqb (length f) 0) end.

Definition e8 : Z := 100000000.
Definition max_uint64 : Z := 18446744073709551615.

(* The function as repaired (see known_findings: it used strconv.Atoi, ignored its error and
   multiplied in uint64, so large whole parts wrapped or saturated). Now: ParseUint on the whole
   part, explicit overflow checks on the multiplication and on the final addition. *)
Definition factoid_to_factoshi (s : list Z) : option Z :=
  if negb (amount_syntax_ok s) then None else
  let '(w, f) := split_dot s in
  let whole := dec_value w in
  if max_uint64 <? whole then None                       (* ParseUint range error *)
  else if max_uint64 / e8 <? whole then None             (* whole * 1e8 would overflow *)
  else
    let total := whole * e8 in
    match f with
    | None => Some total
    | Some f =>
        if (8 <? Z.of_nat (length f)) then None
        else let frac := dec_value f * 10 ^ (8 - Z.of_nat (length f)) in
             if max_uint64 <? total + frac then None else Some (total + frac)
    end.

(* The function as it was before the repair (kept for the record of the finding and for the
   search that runs when the correspondence breaks): Atoi saturates at 2^63-1 with its error
   ignored, the products and sums wrap modulo 2^64. *)
Definition atoi_sat (s : list Z) : Z := let v := dec_value s in if v <=? max_int64 then v else max_int64.
Definition factoid_to_factoshi_legacy (s : list Z) : option Z :=
  if negb (amount_syntax_ok s) then None else
  let '(w, f) := split_dot s in
  let total := wrap64 (atoi_sat w * e8) in
  match f with
  | None => Some total
  | Some f =>
      if (8 <? Z.of_nat (length f)) then None
      else Some (wrap64 (total + dec_value f * 10 ^ (8 - Z.of_nat (length f))))
  end.

(* The exact meaning of an accepted amount string, in base units (1e-8): whole * 10^8 plus
   the fraction scaled to 8 places.  Independent of the implementation model above. *)
Definition exact_units (s : list Z) : option Z :=
  let '(w, f) := split_dot s in
  match f with
  | None => Some (dec_value w * e8)
  | Some f => if (8 <? Z.of_nat (length f)) then None
              else Some (dec_value w * e8 + dec_value f * 10 ^ (8 - Z.of_nat (length f)))
  end.
