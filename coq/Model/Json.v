(* Model/Json.v — the JSON value grammar as Go's encoding/json (go1.23 scanner) accepts it,
   over byte strings ([list Z], bytes as 0..255 like Model/Decimal.v).  Definitions only.

   In scope: objects, arrays, strings with escapes, numbers, true/false/null, white space
   between tokens, exactly one top-level value.  Strings and numbers keep their RAW text
   (the code's expected-length accounting is about raw lengths); [print] writes a value back
   without inter-token white space, which is what json.Compact / jsonlen.Compact produce.
   Out of scope (listed in the evidence): nesting deeper than 10000 (Go rejects, the model does
   not count depth); the exact code points that Go's unquote produces for non-ASCII text (see
   [unquote]). *)
From Coq Require Import ZArith List Bool.
Import ListNotations.
Open Scope Z_scope.

Definition bytes := list Z.

Inductive jv : Type :=
| JNull | JTrue | JFalse
| JNum (raw : bytes)                (* the literal as written *)
| JStr (raw : bytes)                (* the text between the quotes, escapes not processed *)
| JArr (items : list jv)
| JObj (members : list (bytes * jv)).   (* key = raw text between the quotes *)

(* ---- characters --------------------------------------------------------- *)
Definition is_ws (c : Z) : bool := (c =? 32) || (c =? 9) || (c =? 10) || (c =? 13).
Definition is_digit (c : Z) : bool := (48 <=? c) && (c <=? 57).
Definition is_digit19 (c : Z) : bool := (49 <=? c) && (c <=? 57).
Definition is_hex (c : Z) : bool :=
  is_digit c || ((97 <=? c) && (c <=? 102)) || ((65 <=? c) && (c <=? 70)).
(* the character after a backslash other than u: quote, backslash, slash, b f n r t *)
Definition is_simple_escape (e : Z) : bool :=
  (e =? 34) || (e =? 92) || (e =? 47) || (e =? 98) || (e =? 102) || (e =? 110) || (e =? 114) || (e =? 116).

Fixpoint beq (a b : bytes) : bool :=
  match a, b with
  | [], [] => true
  | x :: a', y :: b' => (x =? y) && beq a' b'
  | _, _ => false
  end.

Fixpoint skip_ws (s : bytes) : bytes :=
  match s with
  | c :: r => if is_ws c then skip_ws r else s
  | [] => []
  end.

(* ---- strings ------------------------------------------------------------ *)
(* after the opening quote: (raw body, rest after the closing quote).  Bytes below 0x20, a
   backslash followed by anything but quote, backslash, slash, b f n r t u, and a u escape
   without four hex digits are errors;
   every other byte (including invalid UTF-8) is accepted, as by Go's scanner. *)
Fixpoint scan_string (s : bytes) : option (bytes * bytes) :=
  match s with
  | [] => None
  | c :: r =>
    if c =? 34 then Some ([], r)
    else if c =? 92 then
      match r with
      | [] => None
      | e :: r1 =>
        if is_simple_escape e then
          match scan_string r1 with Some (b, rest) => Some (c :: e :: b, rest) | None => None end
        else if e =? 117 then
          match r1 with
          | h1 :: h2 :: h3 :: h4 :: r2 =>
            if is_hex h1 && is_hex h2 && is_hex h3 && is_hex h4 then
              match scan_string r2 with
              | Some (b, rest) => Some (c :: e :: h1 :: h2 :: h3 :: h4 :: b, rest)
              | None => None
              end
            else None
          | _ => None
          end
        else None
      end
    else if c <? 32 then None
    else match scan_string r with Some (b, rest) => Some (c :: b, rest) | None => None end
  end.

(* ---- numbers: optional minus; 0 or a nonzero digit followed by digits; optional fraction
   (dot, one or more digits); optional exponent (e or E, optional sign, one or more digits) *)
Fixpoint span_digits (s : bytes) : bytes * bytes :=
  match s with
  | c :: r => if is_digit c then let '(d, rest) := span_digits r in (c :: d, rest) else ([], s)
  | [] => ([], [])
  end.

Definition scan_int (s : bytes) : option (bytes * bytes) :=
  match s with
  | c :: r =>
    if c =? 48 then Some ([48], r)
    else if is_digit19 c then let '(d, rest) := span_digits r in Some (c :: d, rest)
    else None
  | [] => None
  end.

Definition scan_frac (s : bytes) : option (bytes * bytes) :=
  match s with
  | c :: r =>
    if c =? 46 then
      match span_digits r with
      | ([], _) => None
      | (d, rest) => Some (c :: d, rest)
      end
    else Some ([], s)
  | [] => Some ([], [])
  end.

Definition scan_exp (s : bytes) : option (bytes * bytes) :=
  match s with
  | c :: r =>
    if (c =? 101) || (c =? 69) then
      let '(sg, r1) := match r with
                       | g :: r' => if (g =? 43) || (g =? 45) then ([g], r') else ([], r)
                       | [] => ([], r)
                       end in
      match span_digits r1 with
      | ([], _) => None
      | (d, rest) => Some (c :: sg ++ d, rest)
      end
    else Some ([], s)
  | [] => Some ([], [])
  end.

Definition scan_number (s : bytes) : option (bytes * bytes) :=
  let '(sg, s1) := match s with
                   | c :: r => if c =? 45 then ([c], r) else ([], s)
                   | [] => ([], s)
                   end in
  match scan_int s1 with
  | None => None
  | Some (i, s2) =>
    match scan_frac s2 with
    | None => None
    | Some (f, s3) =>
      match scan_exp s3 with
      | None => None
      | Some (e, s4) => Some (sg ++ i ++ f ++ e, s4)
      end
    end
  end.

(* [s] starts with the literal [lit] *)
Fixpoint strip_prefix (lit s : bytes) : option bytes :=
  match lit, s with
  | [], _ => Some s
  | x :: lit', y :: s' => if x =? y then strip_prefix lit' s' else None
  | _ :: _, [] => None
  end.

(* ---- values -------------------------------------------------------------- *)
Fixpoint parse_value (fuel : nat) (s : bytes) : option (jv * bytes) :=
  match fuel with
  | O => None
  | S f =>
    match skip_ws s with
    | [] => None
    | c :: r =>
      if c =? 123 then                                   (* { *)
        match skip_ws r with
        | c' :: r' => if c' =? 125 then Some (JObj [], r')
                      else match parse_members f (c' :: r') with
                           | Some (ms, rest) => Some (JObj ms, rest)
                           | None => None
                           end
        | [] => None
        end
      else if c =? 91 then                               (* [ *)
        match skip_ws r with
        | c' :: r' => if c' =? 93 then Some (JArr [], r')
                      else match parse_elems f (c' :: r') with
                           | Some (vs, rest) => Some (JArr vs, rest)
                           | None => None
                           end
        | [] => None
        end
      else if c =? 34 then                               (* quote *)
        match scan_string r with Some (b, rest) => Some (JStr b, rest) | None => None end
      else if c =? 116 then                              (* true *)
        match strip_prefix [114; 117; 101] r with Some rest => Some (JTrue, rest) | None => None end
      else if c =? 102 then                              (* false *)
        match strip_prefix [97; 108; 115; 101] r with Some rest => Some (JFalse, rest) | None => None end
      else if c =? 110 then                              (* null *)
        match strip_prefix [117; 108; 108] r with Some rest => Some (JNull, rest) | None => None end
      else if (c =? 45) || is_digit c then
        match scan_number (c :: r) with Some (n, rest) => Some (JNum n, rest) | None => None end
      else None
    end
  end
(* [s] has no leading white space and is not a closing brace: key : value, more members, } *)
with parse_members (fuel : nat) (s : bytes) : option (list (bytes * jv) * bytes) :=
  match fuel with
  | O => None
  | S f =>
    match s with
    | c :: r =>
      if c =? 34 then
        match scan_string r with
        | None => None
        | Some (k, r1) =>
          match skip_ws r1 with
          | c1 :: r2 =>
            if c1 =? 58 then
              match parse_value f r2 with
              | None => None
              | Some (v, r3) =>
                match skip_ws r3 with
                | c3 :: r4 =>
                  if c3 =? 125 then Some ([(k, v)], r4)
                  else if c3 =? 44 then
                    match parse_members f (skip_ws r4) with
                    | Some (ms, rest) => Some ((k, v) :: ms, rest)
                    | None => None
                    end
                  else None
                | [] => None
                end
              end
            else None
          | [] => None
          end
        end
      else None
    | [] => None
    end
  end
(* value, more values, ] *)
with parse_elems (fuel : nat) (s : bytes) : option (list jv * bytes) :=
  match fuel with
  | O => None
  | S f =>
    match parse_value f s with
    | None => None
    | Some (v, r1) =>
      match skip_ws r1 with
      | c :: r2 =>
        if c =? 93 then Some ([v], r2)
        else if c =? 44 then
          match parse_elems f r2 with
          | Some (vs, rest) => Some (v :: vs, rest)
          | None => None
          end
        else None
      | [] => None
      end
    end
  end.

(* one value, optionally surrounded by white space; fuel = length of the input (+2: every
   recursive call is made after at least one byte was consumed) *)
Definition parse_json (s : bytes) : option jv :=
  match parse_value (S (S (length s))) s with
  | Some (v, rest) => match skip_ws rest with [] => Some v | _ => None end
  | None => None
  end.

(* ---- printing without white space ---------------------------------------- *)
Fixpoint join (l : list bytes) : bytes :=
  match l with
  | [] => []
  | x :: r => match r with [] => x | _ => x ++ 44 :: join r end
  end.

Definition print_member (pv : jv -> bytes) (m : bytes * jv) : bytes :=
  let '(k, v) := m in 34 :: k ++ 34 :: 58 :: pv v.

Fixpoint print (v : jv) : bytes :=
  match v with
  | JNull => [110; 117; 108; 108]
  | JTrue => [116; 114; 117; 101]
  | JFalse => [102; 97; 108; 115; 101]
  | JNum raw => raw
  | JStr raw => 34 :: raw ++ [34]
  | JArr items => 91 :: join (map print items) ++ [93]
  | JObj ms => 123 :: join (map (fun m => let '(k, v) := m in 34 :: k ++ 34 :: 58 :: print v) ms) ++ [125]
  end.

(* jsonlen.Compact: json.Compact into a buffer, errors ignored (an invalid text compacts to
   the empty string, which the following json.Unmarshal then rejects) *)
Definition compact (s : bytes) : option bytes :=
  match parse_json s with Some j => Some (print j) | None => None end.

(* ---- unquoting ------------------------------------------------------------ *)
Definition hexval (c : Z) : Z :=
  if is_digit c then c - 48
  else if (97 <=? c) && (c <=? 102) then c - 87
  else if (65 <=? c) && (c <=? 70) then c - 55
  else 0.
Definition esc_char (e : Z) : Z :=
  if e =? 98 then 8 else if e =? 102 then 12 else if e =? 110 then 10
  else if e =? 114 then 13 else if e =? 116 then 9 else e.
(* Code points at or above 128 matter to the code in scope only through Unicode simple case
   folding against ASCII field names: U+017F (long s) folds to s and U+212A (Kelvin) to k.
   Every other non-ASCII code point is represented by U+FFFD: no consumer in scope (field-name
   matching, ticker table lookup, base58 address text) distinguishes them, and the NUMBER of
   such code points may differ from Go's (surrogate pairs, multi-byte UTF-8 sequences). *)
Definition norm_cp (cp : Z) : Z :=
  if cp <? 128 then cp else if cp =? 383 then 383 else if cp =? 8490 then 8490 else 65533.

(* raw string body -> code points (for a body accepted by [scan_string]) *)
Fixpoint unquote (s : bytes) : bytes :=
  match s with
  | [] => []
  | c :: r =>
    if c =? 92 then
      match r with
      | [] => []
      | e :: r1 =>
        if e =? 117 then
          match r1 with
          | h1 :: h2 :: h3 :: h4 :: r2 =>
            norm_cp (hexval h1 * 4096 + hexval h2 * 256 + hexval h3 * 16 + hexval h4) :: unquote r2
          | _ => []
          end
        else esc_char e :: unquote r1
      end
    else if c <? 128 then c :: unquote r
    else
      match r with
      | c2 :: r1 =>
        if (c =? 197) && (c2 =? 191) then 383 :: unquote r1            (* C5 BF = U+017F *)
        else if (c =? 226) && (c2 =? 132) then
          match r1 with
          | c3 :: r2 => if c3 =? 170 then 8490 :: unquote r2            (* E2 84 AA = U+212A *)
                        else 65533 :: unquote r
          | [] => 65533 :: unquote r
          end
        else 65533 :: unquote r
      | [] => [65533]
      end
  end.

(* Unicode simple folding restricted to what can reach an ASCII letter *)
Definition fold_cp (c : Z) : Z :=
  if (65 <=? c) && (c <=? 90) then c + 32
  else if c =? 383 then 115 else if c =? 8490 then 107 else c.
Definition fold_key (raw : bytes) : bytes := map fold_cp (unquote raw).
Definition ascii_lower (c : Z) : Z := if (65 <=? c) && (c <=? 90) then c + 32 else c.

(* decimal value of a digit string *)
Definition dec_value (s : bytes) : Z := fold_left (fun acc c => acc * 10 + (c - 48)) s 0.
Definition all_digits (s : bytes) : bool := forallb is_digit s.

(* ---- what the parser guarantees about the raw texts it keeps (proved in Lemmas/) ---- *)
(* 0, or a non-zero digit followed by digits *)
Definition canon_number (raw : bytes) : bool :=
  all_digits raw && match raw with [] => false | [_] => true | c :: _ => negb (c =? 48) end.
(* a number literal starts with a minus sign or a digit; if it consists of digits only it has
   no leading zero *)
Definition num_ok (raw : bytes) : bool :=
  match raw with c :: _ => (c =? 45) || is_digit c | [] => false end &&
  (if all_digits raw then canon_number raw else true).
(* in a raw string body every quote character is the character after an escaping backslash *)
Fixpoint no_bare_quote (s : bytes) : bool :=
  match s with
  | [] => true
  | c :: r =>
    if c =? 34 then false
    else if c =? 92 then match r with _ :: r1 => no_bare_quote r1 | [] => false end
    else no_bare_quote r
  end.
Fixpoint wf_jv (v : jv) : bool :=
  match v with
  | JNum raw => num_ok raw
  | JStr raw => no_bare_quote raw
  | JArr items => forallb wf_jv items
  | JObj ms => forallb (fun m => wf_jv (snd m)) ms
  | _ => true
  end.
