(* Model/Forks.v — the version lock: pn_sync_version, InsertSynced, CheckHardForks, start-up.
   Definitions only (node/pegnet/admin.go, node/pegnet/metadata.go, node/node.go NewPegnetd).

   A database is reduced to the two things the lock reads and writes:
     synced   : the 'synced' row of pn_metadata (None = no such row: SelectSynced fails with
                sql.ErrNoRows, so CheckHardForks sees bs = nil and NewPegnetd starts at the
                base height config.PegnetActivation);
     versions : the rows (height, version) of pn_sync_version, PRIMARY KEY(height);
                unix_timestamp is dropped (never read by the code).
   Not modelled: the operator override app.disablehardforkcheck (NewPegnetd then only logs
   the refusal) and SQL errors other than the PRIMARY KEY conflict. *)
From Model Require Import Base.

Inductive build :=
| Untracked            (* a pegnetd that predates version tracking: bumps 'synced' only *)
| Tracked (v : Z).     (* PegnetdSyncVersion = v: InsertSynced also writes (height, v) *)

Definition build_eqb (a b : build) : bool :=
  match a, b with
  | Untracked, Untracked => true
  | Tracked x, Tracked y => x =? y
  | _, _ => false
  end.

(* the sync version a build stands for: the back-fill records an untracked build as -1 *)
Definition bver (b : build) : Z := match b with Untracked => -1 | Tracked v => v end.

Definition session := (build * nat)%type.       (* build, number of blocks it syncs *)
Definition rows := list (Z * Z).                (* (height, version) *)
Record db := mkdb { synced : option Z; versions : rows }.
Definition fresh : db := mkdb None [].

(* ---- pn_sync_version ------------------------------------------------------------- *)
Definition has_row (h : Z) (r : rows) : bool := existsb (fun x => fst x =? h) r.

(* INSERT INTO pn_sync_version: fails on a PRIMARY KEY conflict (markHeightSyncedVersion) *)
Definition insert_row (h v : Z) (r : rows) : option rows :=
  if has_row h r then None else Some ((h, v) :: r).
(* `_ = p.markHeightSyncedVersion(...)`: the error is discarded *)
Definition insert_ignore (h v : Z) (r : rows) : rows :=
  match insert_row h v r with Some r' => r' | None => r end.

Fixpoint list_min (l : list Z) : option Z :=
  match l with
  | [] => None
  | x :: t => Some (match list_min t with None => x | Some y => Z.min x y end)
  end.
Fixpoint list_max (l : list Z) : option Z :=
  match l with
  | [] => None
  | x :: t => Some (match list_max t with None => x | Some y => Z.max x y end)
  end.
Definition coalesce (o : option Z) (d : Z) : Z := match o with Some x => x | None => d end.

(* SELECT COALESCE(min(height), 0) / COALESCE(max(height), 0) FROM pn_sync_version *)
Definition lowest_synced (r : rows) : Z := coalesce (list_min (map fst r)) 0.
Definition highest_synced (r : rows) : Z := coalesce (list_max (map fst r)) 0.
(* SELECT COALESCE(MIN(version), -1) / COALESCE(MAX(version), -1) ... WHERE height >= A *)
Definition rows_from (A : Z) (r : rows) : rows := filter (fun x => A <=? fst x) r.
Definition fetch_min_version (A : Z) (r : rows) : Z := coalesce (list_min (map snd (rows_from A r))) (-1).
Definition fetch_max_version (A : Z) (r : rows) : Z := coalesce (list_max (map snd (rows_from A r))) (-1).

(* ---- CheckHardForks ---------------------------------------------------------------- *)
(* the legacy back-fill: for every fork the database is "at or past", insert (A, -1) and
   ignore the PRIMARY KEY conflict.  [reached A s] is the comparison of bs.Synced with
   event.ActivationHeight. *)
Definition backfill (reached : Z -> Z -> bool) (forks : list (Z * Z)) (s : Z) (r : rows) : rows :=
  fold_left (fun acc f => if reached (fst f) s then insert_ignore (fst f) (-1) acc else acc) forks r.

(* bs != nil && bs.Synced > minSynced: the table after the back-fill *)
Definition backfilled (reached : Z -> Z -> bool) (forks : list (Z * Z)) (d : db) : rows :=
  let r0 := versions d in
  match synced d with
  | Some s => if lowest_synced r0 <? s then backfill reached forks s r0 else r0
  | None => r0
  end.

(* the per-fork minimum check (only for forks at or below the highest recorded height) and
   the downgrade check, on the table r the back-fill left *)
Definition forks_ok (forks : list (Z * Z)) (r : rows) : bool :=
  let top := highest_synced r in
  forallb (fun f => if fst f <=? top
                    then negb (fetch_min_version (fst f) r <? snd f)
                    else true) forks.
Definition no_downgrade (cur : Z) (r : rows) : bool := negb (cur <? fetch_max_version 0 r).
Definition verdict (forks : list (Z * Z)) (cur : Z) (r : rows) : bool :=
  forks_ok forks r && no_downgrade cur r.

(* returns (accepted, database afterwards): the back-fill goes through p.DB directly, outside
   any transaction, so its rows persist also when the check then refuses *)
Definition check_gen (reached : Z -> Z -> bool) (forks : list (Z * Z)) (cur : Z) (d : db) : bool * db :=
  let r1 := backfilled reached forks d in
  (verdict forks cur r1, mkdb (synced d) r1).

Definition leb_reached (A s : Z) : bool := A <=? s.
Definition ltb_reached (A s : Z) : bool := A <? s.
(* the code as it is now: bs.Synced >= event.ActivationHeight *)
Definition check_hard_forks := check_gen leb_reached.
(* before the repair: bs.Synced > event.ActivationHeight *)
Definition check_hard_forks_legacy := check_gen ltb_reached.

(* ---- sessions ------------------------------------------------------------------------ *)
(* The model state carries, next to the database, a ghost log of which build really synced
   which height; the code keeps no such record — the property is stated against it. *)
Definition synclog := list (Z * build).
Definition state := (db * synclog)%type.

Definition next_height (base : Z) (d : db) : Z :=
  match synced d with Some s => s + 1 | None => base + 1 end.

(* one committed block: InsertSynced (tracked) or the bare REPLACE of 'synced' (untracked).
   None: MarkHeightSynced hit a PRIMARY KEY conflict, the transaction is rolled back and the
   block is retried for ever (never happens from a reachable state, see ForksLemmas). *)
Definition sync_block (base : Z) (b : build) (st : state) : option state :=
  let h := next_height base (fst st) in
  match b with
  | Untracked => Some (mkdb (Some h) (versions (fst st)), (h, b) :: snd st)
  | Tracked v =>
      match insert_row h v (versions (fst st)) with
      | Some r => Some (mkdb (Some h) r, (h, b) :: snd st)
      | None => None
      end
  end.

Fixpoint sync_blocks (base : Z) (b : build) (n : nat) (st : state) : state :=
  match n with
  | O => st
  | S n' => match sync_block base b st with
            | Some st' => sync_blocks base b n' st'
            | None => st
            end
  end.

(* a start-up of build b followed by n synced blocks.  An untracked build performs no check. *)
Definition run_session_gen reached (forks : list (Z * Z)) (base : Z) (st : state) (s : session) : state :=
  match fst s with
  | Untracked => sync_blocks base Untracked (snd s) st
  | Tracked v =>
      let c := check_gen reached forks v (fst st) in
      if fst c then sync_blocks base (Tracked v) (snd s) (snd c, snd st) else (snd c, snd st)
  end.

Definition run_history_gen reached forks base (h : list session) : state :=
  fold_left (run_session_gen reached forks base) h (fresh, []).

Definition run_session := run_session_gen leb_reached.
Definition run_history := run_history_gen leb_reached.
Definition run_history_legacy := run_history_gen ltb_reached.

(* the final start-up of build cur on the database the history left behind *)
Definition accepts forks base (h : list session) (cur : Z) : bool :=
  fst (check_hard_forks forks cur (fst (run_history forks base h))).
Definition refuses forks base h cur : bool := negb (accepts forks base h cur).
Definition accepts_legacy forks base (h : list session) (cur : Z) : bool :=
  fst (check_hard_forks_legacy forks cur (fst (run_history_legacy forks base h))).
Definition final_rows forks base h cur : rows :=
  versions (snd (check_hard_forks forks cur (fst (run_history forks base h)))).
Definition synced_log forks base (h : list session) : synclog := snd (run_history forks base h).

(* ---- the characterisation, executable ------------------------------------------------- *)
Definition below_forkb (forks : list (Z * Z)) (lg : synclog) : bool :=
  existsb (fun f => existsb (fun e => (fst f <=? fst e) && (bver (snd e) <? snd f)) lg) forks.
Definition newer_buildb (cur : Z) (lg : synclog) : bool :=
  existsb (fun e => cur <? bver (snd e)) lg.
Definition charb forks cur lg : bool := below_forkb forks lg || newer_buildb cur lg.

(* hypotheses of the theorems, executable *)
Definition forks_wfb (base : Z) (forks : list (Z * Z)) : bool :=
  forallb (fun f => (base <? fst f) || (snd f <=? -1)) forks.
Definition no_untracked_sync (h : list session) : bool :=
  forallb (fun s => match s with (Untracked, S _) => false | _ => true end) h.
(* every untracked session that syncs a block comes before every tracked start-up *)
Fixpoint untracked_first (h : list session) : bool :=
  match h with
  | [] => true
  | (Untracked, _) :: t => untracked_first t
  | (Tracked _, _) :: t => no_untracked_sync t
  end.
