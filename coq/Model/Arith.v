(* Model/Arith.v — node/conversions/{conversions,conversionlimit}.go and
   transactionid.SortTxIDS.  Definitions only (proofs are in Lemmas/). *)
From Model Require Export Base.

(* ---- conversions.Convert ------------------------------------------------ *)
(* [pip10] is [height >= config.PIP10AverageActivation].  Arguments are the Go
   argument values: amount is an int64, the four rates are uint64. *)
Definition convert (pip10 : bool) (amount fromRate fromAvg toRate toAvg : Z) : option Z :=
  if amount <? 0 then None
  else if (fromRate =? 0) || (toRate =? 0) then None
  else if pip10 && ((fromAvg =? 0) || (toAvg =? 0)) then None
  else
    let rs := if pip10 && (fromAvg <? fromRate) then fromAvg else fromRate in
    let rd := if pip10 && (toRate <? toAvg) then toAvg else toRate in
    let q := (amount * rs) / rd in
    if q <=? max_int64 then Some q else None.

Definition convert_h (c : cfg) (h : Z) := convert (c_PIP10AverageActivation c <=? h).

(* ---- conversions.Refund -------------------------------------------------- *)
(* Both Convert errors are dropped: the zero value 0 is used. int64 subtraction
   cannot wrap here (both operands are within [0, 2^63)). *)
Definition refund (pip10 : bool) (inputAmount pegYield inputRate pegRate : Z) : Z :=
  let maxPEG := match convert pip10 inputAmount inputRate inputRate pegRate pegRate with
                | Some v => v | None => 0 end in
  let refundPEG := maxPEG - pegYield in
  match convert pip10 refundPEG pegRate pegRate inputRate inputRate with
  | Some v => v | None => 0 end.

(* ---- ConversionSupplySet ------------------------------------------------- *)
(* A txid "[idx]-[hash]" is the pair (hash, idx); SortTxIDS orders by hash, then idx. *)
Definition txid := (Z * Z)%type.
Definition txid_ltb (a b : txid) : bool :=
  (fst a <? fst b) || ((fst a =? fst b) && (snd a <? snd b)).
Definition txid_eqb (a b : txid) : bool := (fst a =? fst b) && (snd a =? snd b).

(* the set's map, enumerated in the order Go's map iteration happens to take *)
Definition requests := list (txid * Z).

Definition total_requested_big (rs : requests) : Z := fold_right (fun r acc => snd r + acc) 0 rs.
(* TotalRequested(): big.Int.Uint64() keeps the low 64 bits *)
Definition total_requested (rs : requests) : Z := wrap64 (total_requested_big rs).

(* conversions.PayoutBig *)
Definition payout_big (requested bank total : Z) : Z :=
  if (requested =? 0) || (bank =? 0) || (total =? 0) then 0
  else wrap64 ((requested * bank) / total).

(* the dust recipient: highest amount, ties to the least txid *)
Definition better (a b : txid * Z) : bool :=
  (snd b <? snd a) || ((snd a =? snd b) && txid_ltb (fst a) (fst b)).
Fixpoint dust_winner (rs : requests) : option (txid * Z) :=
  match rs with
  | [] => None
  | r :: rs' => match dust_winner rs' with
                | None => Some r
                | Some w => if better r w then Some r else Some w
                end
  end.

(* Payouts(): returned as an association list in the same enumeration order *)
Definition payouts (bank : Z) (rs : requests) : list (txid * Z) :=
  match rs with
  | [] => []
  | _ =>
    let total := total_requested_big rs in
    if (total <? two64) && (total <? bank) then rs
    else
      let base := map (fun r => (fst r, payout_big (snd r) bank total)) rs in
      let paid := wrap64 (fold_right (fun r acc => snd r + acc) 0 base) in
      let dust := wrap64 (bank - paid) in
      match dust_winner rs with
      | None => base
      | Some w => map (fun r => if txid_eqb (fst r) (fst w)
                                then (fst r, wrap64 (snd r + dust)) else r) base
      end
  end.

Definition sum_snd {A} (l : list (A * Z)) : Z := fold_right (fun r acc => snd r + acc) 0 l.
Definition lookup_txid (t : txid) (l : list (txid * Z)) : option Z :=
  match find (fun r => txid_eqb (fst r) t) l with Some r => Some (snd r) | None => None end.
