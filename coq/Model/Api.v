(* Model/Api.v — the history queries behind get-transactions / get-transaction / get-transaction-status
   (node/pegnet/txhistory.go historySelectHelper, txhistory_util.go historyQueryBuilder,
   SelectTransactionHistoryStatus) as functions of the database.  Definitions only.

   pn_history_txbatch rows are [hist s] in history_id (insertion) order, pn_history_transaction rows are
   [htxs s], pn_history_lookup rows are [lookups s].  A query returns the matching actions as
   (entry hash, tx index) pairs in the order of the data query: ORDER BY batch.history_id ASC | DESC; the
   relative order of the actions of ONE batch row is not fixed by the SQL text (the model lists them in
   insertion order; the comparison with the node treats each batch's group as a set). *)
From Model Require Export Db.
Open Scope Z_scope.

Definition QueryLimit : nat := 50.

Inductive hq_field := ByHash (h : hash) | ByAddress (a : addr) | ByHeight (h : Z).

Record hq := {
  q_field : hq_field;
  q_desc : bool;
  q_actions : list Z;        (* historyActionPicker: [] = no action filter (all four flags equal) *)
  q_asset : option Z;        (* asset code as in [ht_from_asset] / [ht_to_asset] *)
  q_txindex : option Z       (* UseTxIndex / TxIndex: honoured for the entry_hash field only *)
}.

(* the conditions on the pn_history_transaction row that the builder appends *)
Definition tx_filter (q : hq) (t : htx) : bool :=
  (match q_field q, q_txindex q with ByHash _, Some i => ht_index t =? i | _, _ => true end)
  && (match q_asset q with Some a => (ht_from_asset t =? a) || (ht_to_asset t =? a) | None => true end)
  && (match q_actions q with [] => true | acts => existsb (Z.eqb (ht_action t)) acts end).

(* batch.<field> = ?   (the address field does not constrain the batch row) *)
Definition batch_selected (q : hq) (b : hbatch) : bool :=
  match q_field q with
  | ByHash h => hb_hash b =? h
  | ByHeight h => hb_height b =? h
  | ByAddress _ => true
  end.

(* the (entry hash, tx index) keys of the pn_history_lookup rows of one address *)
Definition addr_keys (s : db) (a : addr) : list (hash * Z) := map fst (filter (fun l => snd l =? a) (lookups s)).
Definition key_count (keys : list (hash * Z)) (hs : hash) (idx : Z) : nat :=
  length (filter (fun k => (fst k =? hs) && (snd k =? idx)) keys).

(* the pn_history_transaction rows that pass the conditions on tx (and, for the address field, on lookup), each
   with its multiplicity in the join with the lookup table (1 when the lookup table is not part of the query) *)
Definition candidates (s : db) (q : hq) : list (htx * nat) :=
  match q_field q with
  | ByAddress a =>
    let keys := addr_keys s a in
    omap (fun t => if tx_filter q t
                   then match key_count keys (ht_hash t) (ht_index t) with O => None | n => Some (t, n) end
                   else None) (htxs s)
  | ByHash h => omap (fun t => if (ht_hash t =? h) && tx_filter q t then Some (t, 1%nat) else None) (htxs s)
  | ByHeight _ => omap (fun t => if tx_filter q t then Some (t, 1%nat) else None) (htxs s)
  end.

(* the actions joined to one batch row: batch.entry_hash = tx.entry_hash *)
Definition batch_actions (cands : list (htx * nat)) (b : hbatch) : list (hash * Z) :=
  flat_map (fun tn => if ht_hash (fst tn) =? hb_hash b then repeat (ht_hash (fst tn), ht_index (fst tn)) (snd tn) else []) cands.

(* the data query without LIMIT / OFFSET *)
Definition query_all (s : db) (q : hq) : list (hash * Z) :=
  let cands := candidates s q in
  flat_map (fun b => if batch_selected q b then batch_actions cands b else [])
           (if q_desc q then rev (hist s) else hist s).

(* the count query *)
Definition query_count (s : db) (q : hq) : nat :=
  match q_field q, q_actions q, q_asset q with
  | ByAddress a, [], None =>
    (* SELECT COUNT( * ) FROM pn_history_lookup WHERE address = ? *)
    length (addr_keys s a)
  | ByAddress a, _, _ =>
    (* lookup joined with the transaction table (no batch table) *)
    fold_right (fun tn acc => (snd tn + acc)%nat) O (candidates s q)
  | _, _, _ => length (query_all s q)
  end.

(* one page: count = 0 -> nothing; offset > count -> "offset too big"; else LIMIT 50 OFFSET off *)
Inductive page_result := PageErr | Page (count : nat) (rows : list (hash * Z)).
Definition query_page (s : db) (q : hq) (off : nat) : page_result :=
  let n := query_count s q in
  if Nat.eqb n 0 then Page 0 []
  else if Nat.ltb n off then PageErr
  else Page n (firstn QueryLimit (skipn off (query_all s q))).

(* following the pages from offset 0 in steps of QueryLimit while the offset is below the count *)
Fixpoint walk_pages (fuel : nat) (s : db) (q : hq) (off : nat) : list (hash * Z) :=
  match fuel with
  | O => []
  | S k => match query_page s q off with
           | PageErr => []
           | Page n rows => rows ++ (if Nat.ltb (off + QueryLimit) n then walk_pages k s q (off + QueryLimit) else [])
           end
  end.

(* SelectTransactionHistoryStatus: the first pn_history_txbatch row with that hash (QueryRow) *)
Definition query_status (s : db) (hs : hash) : Z * Z :=
  match find (fun b => hb_hash b =? hs) (hist s) with
  | Some b => (hb_height b, hb_exec b)
  | None => (0, 0)
  end.

(* ---- well-formedness of the history tables (what the schema and the writers maintain) ---- *)
Definition htx_key (t : htx) : hash * Z := (ht_hash t, ht_index t).
Record hist_wf (s : db) : Prop := {
  wf_batch_once : NoDup (map hb_hash (hist s));                       (* one batch row per hash *)
  wf_tx_pk : NoDup (map htx_key (htxs s));                            (* PRIMARY KEY(entry_hash, tx_index) *)
  wf_lookup_pk : NoDup (lookups s);                                   (* PRIMARY KEY(entry_hash, tx_index, address) *)
  wf_lookup_fk : forall l, In l (lookups s) -> In (fst l) (map htx_key (htxs s));
  wf_tx_fk : forall t, In t (htxs s) -> In (ht_hash t) (map hb_hash (hist s))
}.
