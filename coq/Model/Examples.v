(* Model/Examples.v — a small concrete configuration and chain used by the non-vacuity Examples of
   the property files.  Definitions only. *)
From Model Require Export Obs.
From Gen Require Import Consts.
Open Scope Z_scope.

(* every activation early, in mainnet order; averaging period 4 *)
Definition ex_cfg : cfg := {|
  c_PegnetActivation := 100; c_GradingV2Activation := 100; c_TransactionConversionActivation := 100;
  c_PEGPricingActivation := 100; c_OneWaypFCTConversions := 100; c_PegnetConversionLimitActivation := 200;
  c_PEGFreeFloatingPriceActivation := 200; c_V4OPRUpdate := 300; c_V20HeightActivation := 400;
  c_V20DevRewardsHeightActivation := 500; c_SprSignatureActivation := 500; c_OneWaySmallAssetsConversions := 600;
  c_V202EnhanceActivation := 600; c_V204EnhanceActivation := 700; c_V204BurnMintedTokenActivation := 800;
  c_PIP10AverageActivation := 900; c_Fat2RCDEActivation := 300; c_AveragePeriod := 4 |}.

Definition alice : addr := 7.
Definition bob : addr := 8.

Definition ex_burn (txid amount : Z) : ftx :=
  {| f_txid := txid; f_ts := 1000; f_inputs := [(alice, amount)]; f_outputs := []; f_ecoutputs := [(BurnRCD, 0)] |}.
Definition ex_transfer (hs amount : Z) : entry :=
  {| e_hash := hs; e_ts := 2000;
     e_batch := Some [{| tx_addr := alice; tx_type := PTickerFCT; tx_amt := amount;
                         tx_transfers := [{| tr_addr := bob; tr_amt := amount |}]; tx_conv := 0 |}];
     e_rcde := false |}.
Definition ex_conversion (hs amount : Z) : entry :=
  {| e_hash := hs; e_ts := 2000;
     e_batch := Some [{| tx_addr := alice; tx_type := PTickerFCT; tx_amt := amount;
                         tx_transfers := []; tx_conv := PTickerUSD |}];
     e_rcde := false |}.
(* one graded OPR block: a single winner paid 5, rates pFCT = 4e8, pUSD = 1e8, PEG reported 2e8 *)
Definition ex_verdict (h : Z) : verdict :=
  {| v_winners := [{| w_hash := 9000 + h; w_addr := Some bob; w_payout := 5; w_pos := 0; w_height := h |}];
     v_graded := [{| w_hash := 9000 + h; w_addr := Some bob; w_payout := 5; w_pos := 0; w_height := h |}];
     v_short := [h];
     v_assets := [(PTickerPEG, 200000000); (PTickerUSD, 100000000); (PTickerFCT, 400000000)] |}.
Definition ex_opr (h : Z) (prev : option (list Z)) : option opr_in :=
  Some {| oi_alts := [(2, prev, Some (ex_verdict h))] |}.

Definition ex_block (h : Z) (opr : option opr_in) (txs : option (list entry)) (fs : list ftx) : block :=
  {| b_height := h; b_ts := 1000 + h; b_opr := opr; b_spr := None; b_tx := txs; b_factoid := fs |}.

(* 101: alice burns 100 FCT; 102: transfers 30 to bob, asks to convert 20 pFCT -> pUSD (held), the same
   transfer entry repeated; 103: a block without rates (the conversion stays in holding), an overdraft
   attempt; 104: graded block: the conversion executes at its rates *)
Definition ex_chain : list block :=
  [ ex_block 101 None None [ex_burn 501 100];
    ex_block 102 None (Some [ex_transfer 601 30; ex_conversion 602 20; ex_transfer 601 30]) [];
    ex_block 103 None (Some [ex_transfer 603 1000]) [];
    ex_block 104 (ex_opr 104 None) None [] ].
