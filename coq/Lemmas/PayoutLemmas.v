(* Lemmas/PayoutLemmas.v — C14 / C16 / C01: the proportional payout with dust is a function of
   the request SET (not of the order Go's map iteration happens to take), pays out exactly the
   bank when the requests reach it, and the staking stake / order facts. *)
From Model Require Import Block.
From Lemmas Require Import ArithLemmas DbLemmas.
From Gen Require Import Consts.
From Coq Require Import Lia Permutation Sorting.Sorted.
Open Scope Z_scope.

(* ---- order independence (C01) --------------------------------------------------------- *)
Lemma total_requested_big_perm (a b : requests) : Permutation a b -> total_requested_big a = total_requested_big b.
Proof. unfold total_requested_big. induction 1; cbn [fold_right]; lia. Qed.

(* [better] is a strict total order on requests with distinct txids: the dust winner is the
   maximum, hence the same for every enumeration of the map *)
Lemma txid_ltb_irrefl a : txid_ltb a a = false.
Proof. unfold txid_ltb. rewrite !Z.ltb_irrefl, Z.eqb_refl. reflexivity. Qed.

Definition best (w : txid * Z) (rs : requests) : Prop :=
  In w rs /\ forall r, In r rs -> r = w \/ better w r = true.

Lemma better_iff (a b : txid * Z) :
  better a b = true <->
  snd b < snd a \/ (snd a = snd b /\ (fst (fst a) < fst (fst b) \/ (fst (fst a) = fst (fst b) /\ snd (fst a) < snd (fst b)))).
Proof.
  unfold better, txid_ltb. rewrite orb_true_iff, andb_true_iff, orb_true_iff, andb_true_iff.
  rewrite !Z.ltb_lt, !Z.eqb_eq. tauto.
Qed.
Lemma better_total (a b : txid * Z) : fst a <> fst b -> better a b = true \/ better b a = true.
Proof.
  intros N. rewrite !better_iff. destruct a as [[ah ai] av], b as [[bh bi] bv]; cbn in *.
  assert (ah <> bh \/ ai <> bi) by (destruct (Z.eq_dec ah bh), (Z.eq_dec ai bi); subst; auto; exfalso; apply N; reflexivity).
  lia.
Qed.
Lemma better_trans (a b d : txid * Z) : better a b = true -> better b d = true -> better a d = true.
Proof. rewrite !better_iff. lia. Qed.
Lemma better_asym (a b : txid * Z) : better a b = true -> better b a = true -> False.
Proof. rewrite !better_iff. lia. Qed.

Lemma dust_winner_best rs : NoDup (map fst rs) -> forall w, dust_winner rs = Some w -> best w rs.
Proof.
  induction rs as [|r rs IH]; intros ND w H; cbn [dust_winner] in H; [discriminate|].
  inversion ND as [|? ? Hnin ND']; subst.
  destruct (dust_winner rs) as [w0|] eqn:E.
  - specialize (IH ND' w0 eq_refl). destruct IH as [Hin Hall].
    assert (Hne : fst r <> fst w0) by (intros Heq; apply Hnin; rewrite Heq; apply in_map; exact Hin).
    destruct (better r w0) eqn:Eb; injection H as Hw; subst w.
    + split; [left; reflexivity|]. intros x [<-|Hx]; [left; reflexivity|]. right.
      destruct (Hall x Hx) as [->|Hb]; [exact Eb|eapply better_trans; eauto].
    + split; [right; exact Hin|]. intros x [Hx|Hx]; [|apply Hall; exact Hx]. subst x. right.
      destruct (better_total r w0 Hne) as [Hb|Hb]; [congruence|exact Hb].
  - inversion H; subst. destruct rs; [|cbn in E; destruct (dust_winner rs); try destruct (better _ _); discriminate].
    split; [left; reflexivity|]. intros x [<-|[]]. left; reflexivity.
Qed.

Lemma best_unique rs w1 w2 : NoDup (map fst rs) -> best w1 rs -> best w2 rs -> w1 = w2.
Proof.
  intros ND [I1 A1] [I2 A2]. destruct (A1 w2 I2) as [->|B1]; [reflexivity|].
  destruct (A2 w1 I1) as [->|B2]; [reflexivity|]. exfalso. eapply better_asym; eauto.
Qed.

Lemma best_perm a b w : Permutation a b -> best w a -> best w b.
Proof.
  intros P [I A]. split; [eapply Permutation_in; eauto|].
  intros r Hr. apply A. eapply Permutation_in; [apply Permutation_sym; exact P|exact Hr].
Qed.

Theorem dust_winner_perm a b : Permutation a b -> NoDup (map fst a) -> dust_winner a = dust_winner b.
Proof.
  intros P ND.
  assert (NDb : NoDup (map fst b)) by (eapply Permutation_NoDup; [apply Permutation_map; exact P|exact ND]).
  destruct (dust_winner a) as [wa|] eqn:Ea; destruct (dust_winner b) as [wb|] eqn:Eb.
  - f_equal. eapply (best_unique b); [exact NDb| |apply dust_winner_best; assumption].
    eapply best_perm; [exact P|apply dust_winner_best; assumption].
  - destruct b; [|cbn in Eb; destruct (dust_winner b); try destruct (better _ _); discriminate].
    apply Permutation_sym, Permutation_nil in P. subst. discriminate.
  - destruct a; [|cbn in Ea; destruct (dust_winner a); try destruct (better _ _); discriminate].
    apply Permutation_nil in P. subst. discriminate.
  - reflexivity.
Qed.

(* Payouts as a function of the request set: any two enumerations of the same map give every
   txid the same payout *)
Theorem payouts_perm bank (a b : requests) :
  Permutation a b -> NoDup (map fst a) -> Permutation (payouts bank a) (payouts bank b).
Proof.
  intros P ND. unfold payouts.
  destruct a as [|a0 a'] eqn:Ea; [apply Permutation_nil in P; subst; constructor|]. rewrite <- Ea in *.
  destruct b as [|b0 b'] eqn:Eb; [apply Permutation_sym, Permutation_nil in P; subst; discriminate|]. rewrite <- Eb in *.
  rewrite <- (total_requested_big_perm a b P).
  destruct (_ && _); [exact P|].
  set (tot := total_requested_big a).
  set (f := fun r : txid * Z => (fst r, payout_big (snd r) bank tot)).
  assert (Pb : Permutation (map f a) (map f b)) by (apply Permutation_map; exact P).
  assert (Hsum : fold_right (fun r acc => snd r + acc) 0 (map f a) = fold_right (fun r acc => snd r + acc) 0 (map f b)).
  { clear -Pb. induction Pb; cbn [fold_right]; lia. }
  rewrite <- Hsum. rewrite <- (dust_winner_perm a b P ND).
  destruct (dust_winner a); [apply Permutation_map; exact Pb|exact Pb].
Qed.

(* ---- totals (C14, C16) ------------------------------------------------------------------ *)
Theorem payouts_never_exceed_bank bank (rs : requests) :
  reqs_ok rs -> txids_nodup rs -> 0 <= bank < two64 ->
  sum_snd (payouts bank rs) <= bank /\
  (bank <= total_requested_big rs -> rs <> [] -> sum_snd (payouts bank rs) = bank) /\
  (total_requested_big rs < bank -> payouts bank rs = rs).
Proof.
  intros Hok ND Hb. destruct rs as [|r0 rs0] eqn:E.
  - cbn. split; [lia|]. split; [intros _ H; congruence|reflexivity].
  - rewrite <- E in *. assert (Hne : rs <> []) by (rewrite E; discriminate).
    pose proof (payouts_total bank rs Hok ND Hb Hne) as T.
    pose proof (total_nonneg rs Hok) as T0.
    destruct (Z.ltb_spec (total_requested_big rs) bank) as [Hlt|Hge].
    + split; [lia|]. split; [intros; lia|]. intros _. unfold payouts.
      assert (A1 : total_requested_big rs <? two64 = true) by (apply Z.ltb_lt; lia).
      assert (A2 : total_requested_big rs <? bank = true) by (apply Z.ltb_lt; lia).
      clear E T. destruct rs; [congruence|]. rewrite A1, A2. reflexivity.
    + split; [lia|]. split; [intros; exact T|intros; lia].
Qed.

(* ---- the staking stake (C14) ---------------------------------------------------------------- *)
Section Stake.
Variable c : cfg.

Definition stake_step (h : Z) (rates : gmap ticker Z) (past cur : gmap (addr * ticker) Z) (a : addr)
           (acc : option Z) (t : Z) : option Z :=
  match acc with
  | None => None
  | Some tot =>
    if t =? PTickerPEG then Some tot
    else
      let b := Z.min (get_bal cur a t) (get_bal past a t) in
      if b =? 0 then Some tot
      else if ((rate_of rates t =? 0) || (rate_of rates PTickerUSD =? 0)) && (c_V202EnhanceActivation c <=? h) then Some tot
      else match convert_h c h b (rate_of rates t) (rate_of rates t) (rate_of rates PTickerUSD) (rate_of rates PTickerUSD) with
           | None => None
           | Some v => Some (tot + v)
           end
  end.
Lemma stake_of_fold h rates past cur a : stake_of c h rates past cur a = fold_left (stake_step h rates past cur a) all_tickers (Some 0).
Proof. reflexivity. Qed.

(* the stake of an address depends on the two snapshots only through the per-asset minimum: funds
   that arrived after the previous snapshot (or left before this one) earn nothing *)
Theorem stake_depends_on_minimum_only h rates past cur past' cur' a :
  (forall t, Z.min (get_bal cur a t) (get_bal past a t) = Z.min (get_bal cur' a t) (get_bal past' a t)) ->
  stake_of c h rates past cur a = stake_of c h rates past' cur' a.
Proof.
  intros Hm. rewrite !stake_of_fold. generalize (Some 0) as acc. generalize all_tickers as l.
  induction l as [|t l IH]; intros acc; cbn [fold_left]; [reflexivity|].
  rewrite <- IH. f_equal. unfold stake_step. destruct acc; [|reflexivity]. rewrite (Hm t). reflexivity.
Qed.

(* an address absent from the previous snapshot (or holding nothing in it) has no stake *)
Theorem stake_absent_is_zero h rates past cur a :
  (forall t, get_bal past a t = 0) -> (forall t, 0 <= get_bal cur a t) -> stake_of c h rates past cur a = Some 0.
Proof.
  intros Hp Hc. rewrite stake_of_fold. generalize all_tickers as l.
  induction l as [|t l IH]; cbn [fold_left]; [reflexivity|].
  assert (stake_step h rates past cur a (Some 0) t = Some 0) as ->; [|exact IH].
  unfold stake_step. destruct (t =? PTickerPEG); [reflexivity|].
  rewrite Hp. specialize (Hc t). rewrite Z.min_r by lia. reflexivity.
Qed.
End Stake.

(* the mock txids of a staking payout are distinct: the index is the position in the sorted list *)
Lemma index_from_fst {A} (l : list A) : forall i, map fst (index_from i l) = zrange i (length l).
Proof. induction l as [|x l IH]; intros i; cbn; [reflexivity|]. rewrite IH. reflexivity. Qed.
Lemma zrange_nodup n : forall lo, NoDup (zrange lo n).
Proof.
  induction n as [|n IH]; intros lo; cbn; constructor; [|apply IH].
  intros Hin. assert (forall k m lo', In k (zrange lo' m) -> lo' <= k) as G.
  { clear. intros k m. induction m as [|m IHm]; intros lo' H; cbn in H; [contradiction|]. destruct H as [<-|H]; [lia|]. apply IHm in H. lia. }
  apply G in Hin. lia.
Qed.
Lemma staking_txids_distinct (txh : Z) (lst : list (addr * Z)) :
  NoDup (map fst (map (fun x : Z * (addr * Z) => ((txh, fst x), snd (snd x))) (index_from 0 lst))).
Proof.
  rewrite map_map. cbn [fst].
  assert (E : map (fun x : Z * (addr * Z) => (txh, fst x)) (index_from 0 lst) = map (fun i => (txh, i)) (zrange 0 (length lst))).
  { rewrite <- (index_from_fst lst 0). rewrite map_map. reflexivity. }
  rewrite E. apply FinFun.Injective_map_NoDup; [intros x y H; inversion H; reflexivity|apply zrange_nodup].
Qed.

(* ---- the staking order is a function of the stake set (C01) ------------------------------------- *)
(* equal stakes are ordered by address (the repair): (stake, address) is a strict total order on
   distinct addresses, so the sorted list — whose positions become the payout txids — is the same
   for every enumeration of the map *)
Lemma stake_before_iff (x y : addr * Z) :
  stake_before x y = true <-> snd x < snd y \/ (snd x = snd y /\ fst x < fst y).
Proof.
  unfold stake_before. rewrite orb_true_iff, andb_true_iff, !Z.ltb_lt, Z.eqb_eq. tauto.
Qed.

Inductive sorted_stakes : list (addr * Z) -> Prop :=
| ss_nil : sorted_stakes []
| ss_cons x l : (forall y, In y l -> stake_before x y = true) -> sorted_stakes l -> sorted_stakes (x :: l).

Lemma insert_stake_perm x l : Permutation (x :: l) (insert_stake x l).
Proof.
  induction l as [|y l IH]; cbn [insert_stake]; [constructor; constructor|].
  destruct (stake_before x y); [apply Permutation_refl|].
  eapply perm_trans; [apply perm_swap|]. constructor. exact IH.
Qed.
Lemma sort_stakes_perm l : Permutation l (sort_stakes l).
Proof.
  induction l as [|x l IH]; cbn [sort_stakes fold_right]; [constructor|].
  eapply perm_trans; [constructor; exact IH|apply insert_stake_perm].
Qed.

Lemma insert_stake_sorted x l :
  (forall y, In y l -> fst y <> fst x) -> sorted_stakes l -> sorted_stakes (insert_stake x l).
Proof.
  intros Hne S. induction S as [|y l Hall S IH]; cbn [insert_stake].
  - constructor; [intros ? []|constructor].
  - destruct (stake_before x y) eqn:E.
    + constructor; [|constructor; assumption].
      intros z [<-|Hz]; [exact E|]. apply stake_before_iff. apply stake_before_iff in E. specialize (Hall z Hz). apply stake_before_iff in Hall. lia.
    + constructor.
      * intros z Hz. apply (Permutation_in _ (Permutation_sym (insert_stake_perm x l))) in Hz. destruct Hz as [<-|Hz]; [|apply Hall; exact Hz].
        assert (N : fst y <> fst x) by (apply Hne; left; reflexivity).
        apply stake_before_iff. assert (~ (snd x < snd y \/ (snd x = snd y /\ fst x < fst y))) by (rewrite <- stake_before_iff; congruence). lia.
      * apply IH. intros z Hz. apply Hne. right; exact Hz.
Qed.
Lemma sort_stakes_sorted l : NoDup (map fst l) -> sorted_stakes (sort_stakes l).
Proof.
  induction l as [|x l IH]; intros ND; cbn [sort_stakes fold_right]; [constructor|].
  inversion ND as [|? ? Hnin ND']; subst. apply insert_stake_sorted; [|apply IH; exact ND'].
  intros y Hy Heq. apply Hnin. rewrite <- Heq. apply in_map.
  eapply Permutation_in; [apply Permutation_sym, sort_stakes_perm|exact Hy].
Qed.

Lemma sorted_stakes_unique a : forall b, sorted_stakes a -> sorted_stakes b -> Permutation a b -> a = b.
Proof.
  induction a as [|x a IH]; intros b Sa Sb P.
  - apply Permutation_nil in P. subst; reflexivity.
  - destruct b as [|y b]; [apply Permutation_sym, Permutation_nil in P; discriminate|].
    inversion Sa as [|? ? Ha Sa']; inversion Sb as [|? ? Hb Sb']; subst.
    assert (x = y).
    { assert (Ix : In x (y :: b)) by (eapply Permutation_in; [exact P|left; reflexivity]).
      assert (Iy : In y (x :: a)) by (eapply Permutation_in; [apply Permutation_sym; exact P|left; reflexivity]).
      destruct Ix as [->|Ix]; [reflexivity|]. destruct Iy as [->|Iy]; [reflexivity|].
      specialize (Ha y Iy). specialize (Hb x Ix). apply stake_before_iff in Ha, Hb. lia. }
    subst y. f_equal. apply IH; [assumption|assumption|]. eapply Permutation_cons_inv; exact P.
Qed.

Theorem sort_stakes_order_independent a b :
  Permutation a b -> NoDup (map fst a) -> sort_stakes a = sort_stakes b.
Proof.
  intros P ND.
  assert (NDb : NoDup (map fst b)) by (eapply Permutation_NoDup; [apply Permutation_map; exact P|exact ND]).
  apply sorted_stakes_unique; [apply sort_stakes_sorted; exact ND|apply sort_stakes_sorted; exact NDb|].
  eapply perm_trans; [apply Permutation_sym, sort_stakes_perm|]. eapply perm_trans; [exact P|apply sort_stakes_perm].
Qed.
