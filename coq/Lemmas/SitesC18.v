(* Obligations over the regenerated tables of Gen/Sites.v, by [vm_compute] over the whole (finite) table.
   One file per property, so that a table that no longer matches breaks only the property it belongs to. *)
From Coq Require Import String List Bool Arith.
From Gen Require Import Sites.
From Model Require Import SitesSpec.
Import ListNotations.
Open Scope string_scope.
From Lemmas Require Export SitesRoots.

(* ------------------------------------------------------------------ roots *)
Lemma api_roots_expected : check_api_roots = true.
Proof. vm_compute; reflexivity. Qed.

(* ------------------------------------------------------------------ C18 *)

Lemma api_never_writes : forallb is_read api_effective_sql = true.
Proof. vm_compute; reflexivity. Qed.

Lemma api_never_writes_forall : forall r, In r api_effective_sql -> eff_rw r = "R".
Proof.
  intros r Hin. pose proof api_never_writes as H. rewrite forallb_forall in H.
  apply H in Hin. apply String.eqb_eq. exact Hin.
Qed.

Lemma api_reads_pool_only : forallb on_pool api_effective_sql = true.
Proof. vm_compute; reflexivity. Qed.

Lemma api_reads_pool_only_forall : forall r, In r api_effective_sql -> eff_handle r = "pool".
Proof.
  intros r Hin. pose proof api_reads_pool_only as H. rewrite forallb_forall in H.
  apply H in Hin. apply String.eqb_eq. exact Hin.
Qed.

Lemma api_nil_calls_expected : check_api_nil_calls = true.
Proof. vm_compute; reflexivity. Qed.

(* ------------------------------------------------------------------ C18: shared fields *)

(* the fields of Pegnetd / BlockSync written from the sync loop are exactly
   { Sync.Synced, LastAverages, LastAveragesData, LastAveragesHeight } *)
Lemma shared_fields_expected : check_sync_written_fields = true.
Proof. vm_compute; reflexivity. Qed.

Lemma shared_fields_no_other_writes : check_no_other_shared_writes = true.
Proof. vm_compute; reflexivity. Qed.

(* which of them the API also writes (the average cache, through get-rich-list / get-global-rich-list) *)
Lemma shared_fields_api_writes : check_api_written_fields = true.
Proof. vm_compute; reflexivity. Qed.

(* ... and reads (all four) *)
Lemma shared_fields_api_reads : check_api_read_sync_written = true.
Proof. vm_compute; reflexivity. Qed.

(* the locking discipline: no field is in an unprotected conflict between the sync loop and the API *)
Lemma shared_fields_conflicts : check_conflicting_fields = true.
Proof. vm_compute; reflexivity. Qed.

