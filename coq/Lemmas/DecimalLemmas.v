(* Lemmas/DecimalLemmas.v — FactoidToFactoshi converts exactly or rejects. *)
From Coq Require Import ZArith List Bool Lia.
From Model Require Import Base Decimal.
Import ListNotations.
Open Scope Z_scope.

Lemma dec_value_fold_nonneg s acc : forallb is_digit s = true -> 0 <= acc ->
  0 <= fold_left (fun a c => a * 10 + (c - 48)) s acc.
Proof.
  revert acc; induction s as [|c s IH]; cbn [fold_left forallb]; intros acc H Ha; [lia|].
  apply andb_true_iff in H as [Hc Hs]. apply IH; [exact Hs|].
  unfold is_digit in Hc. apply andb_true_iff in Hc as [H1 H2].
  apply Z.leb_le in H1, H2. lia.
Qed.

Lemma dec_value_nonneg s : all_digits s = true -> 0 <= dec_value s.
Proof. intros H. apply dec_value_fold_nonneg; [exact H|lia]. Qed.

Theorem factoshi_sound s v :
  factoid_to_factoshi s = Some v ->
  amount_syntax_ok s = true /\ exact_units s = Some v /\ 0 <= v <= max_uint64.
Proof.
  unfold factoid_to_factoshi, exact_units.
  destruct (amount_syntax_ok s) eqn:Hsyn; cbn [negb]; [|discriminate].
  unfold amount_syntax_ok in Hsyn.
  destruct (split_dot s) as [w f].
  apply andb_true_iff in Hsyn as [Hw Hf].
  pose proof (dec_value_nonneg w Hw) as Hw0.
  destruct (Z.ltb_spec max_uint64 (dec_value w)); [discriminate|].
  destruct (Z.ltb_spec (max_uint64 / e8) (dec_value w)) as [|Hle]; [discriminate|].
  assert (Hmul : dec_value w * e8 <= max_uint64).
  { transitivity ((max_uint64 / e8) * e8).
    - apply Z.mul_le_mono_nonneg_r; [unfold e8; lia | exact Hle].
    - rewrite Z.mul_comm. apply Z.mul_div_le. unfold e8; lia. }
  destruct f as [f|].
  - apply andb_true_iff in Hf as [Hfd _].
    destruct (Z.ltb_spec 8 (Z.of_nat (length f))); [discriminate|].
    set (frac := dec_value f * 10 ^ (8 - Z.of_nat (length f))).
    assert (0 <= frac).
    { unfold frac. apply Z.mul_nonneg_nonneg; [apply dec_value_nonneg; exact Hfd|].
      apply Z.pow_nonneg; lia. }
    destruct (Z.ltb_spec max_uint64 (dec_value w * e8 + frac)); [discriminate|].
    intros [= <-]. repeat split; unfold e8 in *; lia.
  - intros [= <-]. repeat split; unfold e8 in *; lia.
Qed.

Theorem factoshi_complete s v :
  amount_syntax_ok s = true -> exact_units s = Some v -> v <= max_uint64 ->
  factoid_to_factoshi s = Some v.
Proof.
  unfold factoid_to_factoshi, exact_units. intros Hsyn. rewrite Hsyn; cbn [negb].
  unfold amount_syntax_ok in Hsyn.
  destruct (split_dot s) as [w f].
  apply andb_true_iff in Hsyn as [Hw Hf].
  pose proof (dec_value_nonneg w Hw) as Hw0.
  assert (Hkey : forall frac, 0 <= frac -> dec_value w * e8 + frac <= max_uint64 ->
            (max_uint64 <? dec_value w) = false /\ (max_uint64 / e8 <? dec_value w) = false).
  { intros frac Hfr Hle. split; apply Z.ltb_ge.
    - unfold e8 in *. lia.
    - apply Z.div_le_lower_bound; [unfold e8; lia|]. unfold e8 in *. lia. }
  destruct f as [f|].
  - apply andb_true_iff in Hf as [Hfd _].
    destruct (Z.ltb_spec 8 (Z.of_nat (length f))); [discriminate|].
    set (frac := dec_value f * 10 ^ (8 - Z.of_nat (length f))).
    assert (0 <= frac).
    { unfold frac. apply Z.mul_nonneg_nonneg; [apply dec_value_nonneg; exact Hfd|].
      apply Z.pow_nonneg; lia. }
    intros [= <-] Hv. destruct (Hkey frac ltac:(assumption) Hv) as [-> ->].
    destruct (Z.ltb_spec max_uint64 (dec_value w * e8 + frac)); [lia|reflexivity].
  - intros [= <-] Hv. destruct (Hkey 0 ltac:(lia) ltac:(lia)) as [-> ->]. reflexivity.
Qed.

(* the behaviour before the repair really did alter amounts: the witness of the finding *)
Definition legacy_witness : list Z := [49;56;52;52;54;55;52;52;48;55;51;56].  (* "184467440738" *)
Lemma factoshi_legacy_refuted :
  exists s v, factoid_to_factoshi_legacy s = Some v /\ exact_units s <> Some v.
Proof.
  exists legacy_witness, 90448384. split; [vm_compute; reflexivity | vm_compute; discriminate].
Qed.
