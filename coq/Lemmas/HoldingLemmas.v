(* Lemmas/HoldingLemmas.v — C07 / C12 at chain level: conversions wait in holding, they are only
   looked at by a block that has rates; what the rate selection records. *)
From Model Require Import Block.
From Lemmas Require Import DbLemmas LedgerLemmas BlockLemmas.
From Gen Require Import Consts.
From Coq Require Import Lia.
Open Scope Z_scope.

Section WithCfg.
Variable c : cfg.

(* a valid batch that contains a conversion is never applied by the block it arrives in: it gets
   its history rows (status pending) and a holding row at that height; no balance moves *)
Theorem conversion_waits_in_holding h s order e txs s' :
  entry_valid_at c e h = Some txs -> has_conversions txs = true ->
  is_replay s (e_hash e) = false -> hist_has s (e_hash e) = false ->
  apply_entry c h s order e = Ok s' ->
  bal s' = bal s /\ holding s' = holding s ++ [{| h_entry := e; h_height := h |}] /\
  exists s1, insert_history s e order h txs = Ok s1.
Proof.
  intros Hv Hc Hr Hh H. unfold apply_entry in H. rewrite Hv, Hr, Hh in H.
  apply rbind_ok in H as (s1 & H1 & H2). rewrite Hc in H2.
  pose proof (insert_history_bal _ _ _ _ _ _ H1) as E1.
  unfold insert_holding in H2. destruct (holding_has s1 (e_hash e)); [discriminate|]. inversion H2; subst. cbn.
  split; [exact E1|]. split; [|eexists; exact H1].
  f_equal. clear -H1. unfold insert_history in H1. apply rbind_ok in H1 as (s0 & Ha & Hb).
  assert (holding s0 = holding s) by (unfold insert_hbatch in Ha; destruct (hist_has_at _ _ _); [discriminate|]; inversion Ha; reflexivity).
  rewrite <- H. clear Ha H. revert Hb. generalize (history_rows_of (e_hash e) txs). intros l. revert s0.
  induction l as [|r l IH]; intros s0 Hb; cbn [fold_left] in Hb; [inversion Hb; reflexivity|].
  cbn [rbind] in Hb. destruct (insert_htx s0 (fst r) (snd r)) as [s2|?|?] eqn:E;
    [|exfalso; eapply fold_res_fail; exact Hb|exfalso; eapply fold_res_panic; exact Hb].
  assert (holding s2 = holding s0) by (unfold insert_htx in E; destruct (htx_has _ _ _); [discriminate|]; inversion E; reflexivity).
  rewrite <- H. eapply IH; exact Hb.
Qed.

(* the rate selection from 2.0 on: what is recorded when only one side has winners *)
Lemma select_rates_only_opr h o : o <> [] -> select_rates c h o [] = RSel o.
Proof. destruct o; [congruence|reflexivity]. Qed.
Lemma select_rates_only_spr h s : s <> [] -> select_rates c h [] s = RSel s.
Proof. destruct s; [congruence|reflexivity]. Qed.
Lemma select_rates_none h : select_rates c h [] [] = RErr.
Proof. reflexivity. Qed.
(* both sides: one asset, the three regimes *)
Lemma band_one_asset h n ov sv :
  band_filter c h (h <? c_V20DevRewardsHeightActivation c) [(n, ov)] [(n, sv)] =
    let v0 := h <? c_V20DevRewardsHeightActivation c in
    let tol := if v0 then (if 100000 <=? sv then tol_01 else tol_1)
               else (if c_V202EnhanceActivation c <=? h then tol_25 else tol_10) in
    if in_band tol ov sv then RSel [(n, ov)]                              (* inside the band: the OPR value *)
    else if negb v0 && (c_V202EnhanceActivation c <=? h) then RSel [(n, 0)]   (* outside, from 2.0.2: rate 0 *)
    else RErr.                                                            (* outside, before: no rates for the block *)
Proof. cbn [band_filter]. rewrite Z.eqb_refl. cbv zeta. destruct (in_band _ ov sv); [reflexivity|]. destruct (_ && _); reflexivity. Qed.

(* ---- the holding window (C06: a held batch is considered exactly once) -------------------------- *)
Lemma in_zrange_iff k : forall n lo, In k (zrange lo n) <-> lo <= k < lo + Z.of_nat n.
Proof.
  induction n as [|n IH]; intros lo; cbn [zrange]; [split; [contradiction|lia]|].
  split.
  - intros [<-|H]; [lia|]. apply IH in H. lia.
  - intros H. destruct (Z.eq_dec lo k) as [->|N]; [left; reflexivity|right; apply IH; lia].
Qed.

(* the heights a rated block [cur] looks at: from the most recent rated height below it up to cur-1 *)
Definition window (s : db) (cur : Z) : list Z :=
  zrange (last_rated_below s cur) (Z.to_nat (cur - last_rated_below s cur)).

Lemma window_spec s cur g : In g (window s cur) <-> last_rated_below s cur <= g < cur.
Proof. unfold window. rewrite in_zrange_iff. lia. Qed.

(* last_rated_below is the maximum of the rated heights below h *)
Lemma last_rated_below_ge s h k m : rates s !! k = Some m -> 0 <= k < h -> k <= last_rated_below s h.
Proof.
  unfold last_rated_below.
  apply (map_fold_ind (fun r (mm : gmap Z (gmap ticker Z)) => forall k m, mm !! k = Some m -> 0 <= k < h -> k <= r)).
  - intros k' m' H. rewrite lookup_empty in H. discriminate.
  - intros i x mm r Hnone IH k' m' H Hk.
    destruct (Z.eq_dec i k') as [->|N].
    + destruct (Z.ltb_spec k' h); cbn [andb]; [|lia]. destruct (Z.ltb_spec r k'); lia.
    + rewrite lookup_insert_ne in H by exact N. specialize (IH _ _ H Hk).
      destruct ((i <? h) && (r <? i)) eqn:E; [|exact IH]. apply andb_prop in E as [_ E]. apply Z.ltb_lt in E. lia.
Qed.

(* once a rated height c1 lies between a held height g and a later block c2, c2 does not look at g:
   the batch held at g was looked at by (at most) the first rated block after g and by no later one *)
Theorem held_height_not_revisited s2 c1 c2 g m :
  rates s2 !! c1 = Some m -> 0 <= c1 < c2 -> g < c1 -> ~ In g (window s2 c2).
Proof.
  intros Hr Hc Hg Hin. apply window_spec in Hin. pose proof (last_rated_below_ge s2 c2 c1 m Hr Hc). lia.
Qed.

(* ... and the first rated block after g does look at it (when g is not below the previous rated height) *)
Theorem held_height_visited s cur g : 0 < cur -> last_rated_below s cur <= g < cur -> In g (window s cur).
Proof. intros _ H. apply window_spec. exact H. Qed.

(* apply_holding iterates exactly over this window *)
Lemma apply_holding_uses_window cm cur s rates avgs :
  apply_holding c cm cur s rates avgs =
  (let? st := fold_left (fun acc hh => apply_held_height c cm cur rates avgs hh acc) (window s cur) (Ok (s, [])) in
   let '(s1, pegs) := st in
   if (c_V4OPRUpdate c <=? cur) && (cur <? c_V20HeightActivation c) then
     match bank s1 !! cur with
     | None => record_peg_requests c cur s1 pegs rates avgs (wrap64 (-1)) cur
     | Some (amount, _, _) => record_peg_requests c cur s1 pegs rates avgs amount cur
     end
   else Ok s1).
Proof. reflexivity. Qed.
End WithCfg.
