(* Lemmas/RoundTripLemmas2.v — C20 (b): decode (encode b) = Some b.
   Tree level (decode_batch_j (batch_j b) = Some b), then the composition with the parser round
   trip of Lemmas/RoundTripLemmas.v.  Nothing is assumed. *)
From Coq Require Import ZArith List Bool Lia ZifyBool.
From Model Require Import Codec Db.
From Lemmas Require Import CodecLemmas RoundTripLemmas.
From Gen Require Import Consts.
Import ListNotations.
Open Scope list_scope.
Open Scope Z_scope.

(* ================================================================================== *)
(* 1. tickers: String() and UnmarshalJSON are inverse on 1 .. PTickerMax-1             *)
(* ================================================================================== *)
Definition tk (t : Z) : bool := (0 <? t) && (t <? PTickerMax).

Definition ticker_range : list Z := map Z.of_nat (seq 1 (Z.to_nat (PTickerMax - 1))).

Definition opt_is (o : option Z) (t : Z) : bool := match o with Some t' => t' =? t | None => false end.

Lemma ticker_facts :
  forallb (fun t => clean_str (ticker_string t)
                    && opt_is (decode_quoted_ticker (JStr (ticker_string t))) t
                    && opt_is (decode_raw_ticker (JStr (ticker_string t))) t) ticker_range = true.
Proof. vm_compute. reflexivity. Qed.

Lemma opt_is_eq o t : opt_is o t = true -> o = Some t.
Proof. destruct o as [t'|]; cbn [opt_is]; [|discriminate]. intros H. f_equal. lia. Qed.

Lemma tk_in_range t : tk t = true -> In t ticker_range.
Proof.
  unfold tk, ticker_range, PTickerMax. intros H.
  assert (E : t = Z.of_nat (Z.to_nat t)) by lia. rewrite E. apply in_map. apply in_seq. lia.
Qed.

Theorem ticker_roundtrip t : tk t = true ->
  clean_str (ticker_string t) = true /\
  decode_quoted_ticker (JStr (ticker_string t)) = Some t /\
  decode_raw_ticker (JStr (ticker_string t)) = Some t.
Proof.
  intros H. pose proof ticker_facts as F. rewrite forallb_forall in F.
  specialize (F t (tk_in_range t H)).
  apply andb_true_iff in F as [F F3]. apply andb_true_iff in F as [F1 F2].
  split; [exact F1|]. split; apply opt_is_eq; assumption.
Qed.

(* ================================================================================== *)
(* 2. the decoders on the object shapes the encoder builds                             *)
(* ================================================================================== *)
Lemma plen_str s : plen (JStr s) = (length s + 2)%nat.
Proof. unfold plen. cbn [print length]. rewrite app_length. cbn [length]. lia. Qed.

Lemma decode_all_map {A} (f : jv -> option A) (g : A -> jv) l :
  (forall x, In x l -> f (g x) = Some x) -> decode_all f (map g l) = Some l.
Proof.
  induction l as [|x r IH]; intros H; [reflexivity|]. cbn [map decode_all].
  rewrite (H x (or_introl eq_refl)). rewrite IH; [reflexivity|]. intros y I. apply H. right. exact I.
Qed.

Section Shapes.
  Variable addr_of_text : bytes -> option Z.

  Lemma tuple_shape va vm a n :
    decode_addr addr_of_text va = Some a -> decode_u64 vm = Some n ->
    decode_tuple addr_of_text (JObj [(k_address, va); (k_amount, vm)]) = Some {| tr_addr := a; tr_amt := n |}.
  Proof.
    intros Da Dn. unfold decode_tuple.
    assert (E1 : jlookup k_address [(k_address, va); (k_amount, vm)] = Some va) by reflexivity.
    assert (E2 : jlookup k_amount [(k_address, va); (k_amount, vm)] = Some vm) by reflexivity.
    rewrite E1, E2, Da, Dn. rewrite plen_obj. unfold wsum, mweight.
    cbn [map list_sum fold_right fst snd k_address k_amount length].
    destruct (Nat.eqb_spec (1 + (7 + 4 + plen va + (6 + 4 + plen vm + 0))) (22 + plen va + plen vm)) as [_|N];
      [reflexivity|lia].
  Qed.

  Lemma typed_shape va vm a n t :
    decode_addr addr_of_text va = Some a -> decode_u64 vm = Some n -> tk t = true ->
    decode_typed_tuple addr_of_text
      (JObj [(k_address, va); (k_amount, vm); (k_type, JStr (ticker_string t))]) = Some (a, n, t).
  Proof.
    intros Da Dn T. destruct (ticker_roundtrip t T) as (_ & Dq & _).
    unfold decode_typed_tuple.
    set (vt := JStr (ticker_string t)) in *.
    assert (E0 : decode_type_members [(k_address, va); (k_amount, vm); (k_type, vt)] = Some t).
    { cbn [decode_type_members].
      assert (K1 : key_is k_type k_type = true) by reflexivity.
      assert (K2 : key_is k_type k_amount = false) by reflexivity.
      assert (K3 : key_is k_type k_address = false) by reflexivity.
      rewrite K1, K2, K3, Dq. reflexivity. }
    assert (E1 : jlookup k_address [(k_address, va); (k_amount, vm); (k_type, vt)] = Some va) by reflexivity.
    assert (E2 : jlookup k_amount [(k_address, va); (k_amount, vm); (k_type, vt)] = Some vm) by reflexivity.
    rewrite E0, E1, E2, Da, Dn. rewrite plen_obj. unfold wsum, mweight.
    cbn [map list_sum fold_right fst snd k_address k_amount k_type length].
    unfold vt. rewrite plen_str.
    match goal with |- (if (?x =? ?y)%nat then _ else _) = _ => destruct (Nat.eqb_spec x y) as [_|N] end;
      [reflexivity|lia].
  Qed.

  Lemma tx_conv_shape vi a n t cv :
    decode_typed_tuple addr_of_text vi = Some (a, n, t) -> tk cv = true ->
    decode_transaction addr_of_text (JObj [(k_input, vi); (k_conversion, JStr (ticker_string cv))]) =
    Some {| tx_addr := a; tx_type := t; tx_amt := n; tx_transfers := []; tx_conv := cv |}.
  Proof.
    intros Di T. destruct (ticker_roundtrip cv T) as (_ & _ & Dr).
    set (vc := JStr (ticker_string cv)) in *.
    unfold decode_transaction. cbv zeta.
    assert (E1 : jlookup k_input [(k_input, vi); (k_conversion, vc)] = Some vi) by reflexivity.
    assert (E2 : jlookup k_transfers [(k_input, vi); (k_conversion, vc)] = None) by reflexivity.
    assert (E3 : jlookup k_conversion [(k_input, vi); (k_conversion, vc)] = Some vc) by reflexivity.
    assert (E4 : jlookup k_metadata [(k_input, vi); (k_conversion, vc)] = None) by reflexivity.
    rewrite E1, E2, E3, E4, Di, Dr. unfold tk in T.
    assert (E5 : (0 <? cv) && (cv <? PTickerMax) = true) by exact T. rewrite E5.
    rewrite plen_obj. unfold wsum, mweight, plen_opt.
    cbn [map list_sum fold_right fst snd k_input k_conversion length].
    match goal with |- (if (?x =? ?y)%nat then _ else _) = _ => destruct (Nat.eqb_spec x y) as [_|N] end;
      [reflexivity|lia].
  Qed.

  Lemma tx_transfers_shape vi vt a n t tr trs :
    decode_typed_tuple addr_of_text vi = Some (a, n, t) ->
    decode_array (decode_tuple addr_of_text) vt = Some (tr :: trs) ->
    decode_transaction addr_of_text (JObj [(k_input, vi); (k_transfers, vt)]) =
    Some {| tx_addr := a; tx_type := t; tx_amt := n; tx_transfers := tr :: trs; tx_conv := 0 |}.
  Proof.
    intros Di Dt. unfold decode_transaction. cbv zeta.
    assert (E1 : jlookup k_input [(k_input, vi); (k_transfers, vt)] = Some vi) by reflexivity.
    assert (E2 : jlookup k_transfers [(k_input, vi); (k_transfers, vt)] = Some vt) by reflexivity.
    assert (E3 : jlookup k_conversion [(k_input, vi); (k_transfers, vt)] = None) by reflexivity.
    assert (E4 : jlookup k_metadata [(k_input, vi); (k_transfers, vt)] = None) by reflexivity.
    rewrite E1, E2, E3, E4, Di, Dt.
    rewrite plen_obj. unfold wsum, mweight, plen_opt.
    cbn [map list_sum fold_right fst snd k_input k_transfers length].
    match goal with |- (if (?x =? ?y)%nat then _ else _) = _ => destruct (Nat.eqb_spec x y) as [_|N] end;
      [reflexivity|lia].
  Qed.

  Lemma batch_shape vv vt ver txs :
    decode_u64 vv = Some ver -> decode_array (decode_transaction addr_of_text) vt = Some txs ->
    decode_batch_j addr_of_text (JObj [(k_version, vv); (k_transactions, vt)]) =
    Some {| b_version := ver; b_txs := txs |}.
  Proof.
    intros Dv Dt. unfold decode_batch_j.
    assert (E1 : jlookup k_version [(k_version, vv); (k_transactions, vt)] = Some vv) by reflexivity.
    assert (E2 : jlookup k_transactions [(k_version, vv); (k_transactions, vt)] = Some vt) by reflexivity.
    rewrite E1, E2, Dv, Dt. rewrite plen_obj. unfold wsum, mweight.
    cbn [map list_sum fold_right fst snd k_version k_transactions length].
    match goal with |- (if (?x =? ?y)%nat then _ else _) = _ => destruct (Nat.eqb_spec x y) as [_|N] end;
      [reflexivity|lia].
  Qed.
End Shapes.

(* ================================================================================== *)
(* 3. which batches the encoder can express                                            *)
(* ================================================================================== *)
(* input type is a ticker; amounts are uint64; exactly one of: transfers (non-empty, conversion
   field 0) or a conversion ticker (no transfers) *)
Definition tx_encodable (t : tx) : bool :=
  tk (tx_type t) && u64 (tx_amt t) && forallb (fun tr => u64 (tr_amt tr)) (tx_transfers t) &&
  match tx_transfers t with [] => tk (tx_conv t) | _ => tx_conv t =? 0 end.
Definition batch_encodable (b : batch) : bool :=
  u64 (b_version b) && forallb tx_encodable (b_txs b).

(* every address the batch mentions: inputs and transfer targets *)
Definition tx_addrs (t : tx) : list Z := tx_addr t :: map tr_addr (tx_transfers t).
Definition batch_addrs (b : batch) : list Z := flat_map tx_addrs (b_txs b).

Section RoundTrip.
  Variable text_of_addr : Z -> bytes.
  Variable addr_of_text : bytes -> option Z.

  (* the address codec decodes its own output, and the text needs no JSON escaping *)
  Definition addr_ok (a : Z) : Prop :=
    addr_of_text (text_of_addr a) = Some a /\ clean_str (text_of_addr a) = true.

  Lemma decode_addr_rt a : addr_ok a -> decode_addr addr_of_text (JStr (text_of_addr a)) = Some a.
  Proof. intros [H C]. cbn [decode_addr]. rewrite (unquote_clean _ C). exact H. Qed.

  Lemma decode_tuple_rt tr : addr_ok (tr_addr tr) -> u64 (tr_amt tr) = true ->
    decode_tuple addr_of_text (tuple_j text_of_addr tr) = Some tr.
  Proof.
    intros A U. unfold tuple_j.
    rewrite (tuple_shape addr_of_text _ _ _ _ (decode_addr_rt _ A) (decode_u64_dec_of _ U)).
    destruct tr; reflexivity.
  Qed.

  Lemma decode_input_rt t : addr_ok (tx_addr t) -> u64 (tx_amt t) = true -> tk (tx_type t) = true ->
    decode_typed_tuple addr_of_text (input_j text_of_addr t) = Some (tx_addr t, tx_amt t, tx_type t).
  Proof.
    intros A U T. unfold input_j.
    exact (typed_shape addr_of_text _ _ _ _ _ (decode_addr_rt _ A) (decode_u64_dec_of _ U) T).
  Qed.

  Theorem decode_transaction_rt t : (forall a, In a (tx_addrs t) -> addr_ok a) -> tx_encodable t = true ->
    decode_transaction addr_of_text (tx_j text_of_addr t) = Some t.
  Proof.
    intros A E. unfold tx_encodable in E.
    apply andb_true_iff in E as [E E4]. apply andb_true_iff in E as [E E3]. apply andb_true_iff in E as [E1 E2].
    pose proof (decode_input_rt t (A _ (or_introl eq_refl)) E2 E1) as Di.
    unfold tx_j. destruct t as [a ty n trs cv]. cbn [tx_addr tx_type tx_amt tx_transfers tx_conv tx_addrs] in *.
    destruct trs as [|tr trs].
    - unfold tk in E4. destruct (Z.eqb_spec cv 0) as [->|N]; [discriminate|]. cbn [app].
      exact (tx_conv_shape addr_of_text _ _ _ _ _ Di E4).
    - apply Z.eqb_eq in E4. subst cv. cbn [Z.eqb app].
      refine (tx_transfers_shape addr_of_text _ _ _ _ _ _ _ Di _).
      cbn [decode_array]. apply decode_all_map. intros x Ix. apply decode_tuple_rt.
      + apply A. right. apply in_map. exact Ix.
      + rewrite forallb_forall in E3. apply E3. exact Ix.
  Qed.

  (* (2) the tree-level round trip *)
  Theorem decode_batch_j_rt b : (forall a, In a (batch_addrs b) -> addr_ok a) -> batch_encodable b = true ->
    decode_batch_j addr_of_text (batch_j text_of_addr b) = Some b.
  Proof.
    intros A E. unfold batch_encodable in E. apply andb_true_iff in E as [Ev Et].
    unfold batch_j.
    rewrite (batch_shape addr_of_text _ _ (b_version b) (b_txs b) (decode_u64_dec_of _ Ev)).
    - destruct b; reflexivity.
    - cbn [decode_array]. apply decode_all_map. intros t It. apply decode_transaction_rt.
      + intros a Ia. apply A. unfold batch_addrs. apply in_flat_map. exists t. split; assumption.
      + rewrite forallb_forall in Et. apply Et. exact It.
  Qed.

  (* ---- what the encoder builds is printable ------------------------------------------ *)
  Lemma pr_tuple_j tr : addr_ok (tr_addr tr) -> u64 (tr_amt tr) = true ->
    pr_jv (tuple_j text_of_addr tr) = true.
  Proof.
    intros [_ C] U. unfold tuple_j. cbn [pr_jv forallb fst snd]. rewrite C, (dec_of_canon _ U). reflexivity.
  Qed.

  Lemma pr_tx_j t : (forall a, In a (tx_addrs t) -> addr_ok a) -> tx_encodable t = true ->
    pr_jv (tx_j text_of_addr t) = true.
  Proof.
    intros A E. unfold tx_encodable in E.
    apply andb_true_iff in E as [E E4]. apply andb_true_iff in E as [E E3]. apply andb_true_iff in E as [E1 E2].
    destruct (A _ (or_introl eq_refl)) as [_ Ca].
    destruct (ticker_roundtrip _ E1) as [Ct _].
    assert (Pi : pr_jv (input_j text_of_addr t) = true).
    { unfold input_j. cbn [pr_jv forallb fst snd]. rewrite Ca, (dec_of_canon _ E2), Ct. reflexivity. }
    unfold tx_j. destruct t as [a ty n trs cv]. cbn [tx_addr tx_type tx_amt tx_transfers tx_conv tx_addrs] in *.
    destruct trs as [|tr trs].
    - destruct (ticker_roundtrip _ E4) as [Cc _]. unfold tk in E4.
      destruct (Z.eqb_spec cv 0) as [->|N]; [discriminate|]. cbn [app].
      cbn [pr_jv forallb fst snd] in *. rewrite Pi, Cc. reflexivity.
    - apply Z.eqb_eq in E4. subst cv. cbn [Z.eqb app].
      assert (Pt : forallb pr_jv (map (tuple_j text_of_addr) (tr :: trs)) = true).
      { apply forallb_forall. intros x Ix. apply in_map_iff in Ix as (y & <- & Iy). apply pr_tuple_j.
        - apply A. right. apply in_map. exact Iy.
        - rewrite forallb_forall in E3. apply E3. exact Iy. }
      cbn [pr_jv forallb fst snd] in *. rewrite Pi. cbn [andb].
      rewrite Pt. reflexivity.
  Qed.

  Theorem pr_batch_j b : (forall a, In a (batch_addrs b) -> addr_ok a) -> batch_encodable b = true ->
    pr_jv (batch_j text_of_addr b) = true.
  Proof.
    intros A E. unfold batch_encodable in E. apply andb_true_iff in E as [Ev Et].
    unfold batch_j. cbn [pr_jv forallb fst snd]. rewrite (dec_of_canon _ Ev).
    assert (Pt : forallb pr_jv (map (tx_j text_of_addr) (b_txs b)) = true).
    { apply forallb_forall. intros x Ix. apply in_map_iff in Ix as (t & <- & It). apply pr_tx_j.
      - intros a Ia. apply A. unfold batch_addrs. apply in_flat_map. exists t. split; assumption.
      - rewrite forallb_forall in Et. apply Et. exact It. }
    rewrite Pt. reflexivity.
  Qed.

  (* (4) bytes level: the decoder accepts the encoder's output and returns the batch *)
  Theorem decode_encode_encodable b :
    (forall a, In a (batch_addrs b) -> addr_ok a) -> batch_encodable b = true ->
    decode_batch addr_of_text (Codec.encode text_of_addr b) = Some b.
  Proof.
    intros A E. unfold decode_batch, Codec.encode.
    rewrite (parse_print _ (pr_batch_j b A E)). exact (decode_batch_j_rt b A E).
  Qed.
End RoundTrip.

(* ================================================================================== *)
(* 4. the statement for batches that ValidData accepts                                 *)
(* ================================================================================== *)
(* the fields have their Go types: amounts are uint64, the conversion field is 0 or a ticker
   (ValidData itself allows an out-of-range conversion next to a zero input amount, and a negative
   one next to transfers; the model's amounts are unbounded integers) *)
Definition tx_in_range (t : tx) : bool :=
  u64 (tx_amt t) && forallb (fun tr => u64 (tr_amt tr)) (tx_transfers t) &&
  (0 <=? tx_conv t) && (tx_conv t <? PTickerMax).
Definition batch_in_range (b : batch) : bool := forallb tx_in_range (b_txs b).

Lemma valid_tx_encodable t : tx_validate t = true -> tx_in_range t = true -> tx_encodable t = true.
Proof.
  intros V R. unfold tx_in_range in R.
  apply andb_true_iff in R as [R R4]. apply andb_true_iff in R as [R R3]. apply andb_true_iff in R as [R1 R2].
  destruct (tx_validate_spec t V) as (_ & Ht & Hc).
  unfold tx_encodable. rewrite R1, R2. unfold tk at 1.
  assert (E : (0 <? tx_type t) && (tx_type t <? PTickerMax) = true) by lia. rewrite E. cbn [andb].
  destruct Hc as [(N & C & _)|(Z0 & C & _)].
  - destruct (tx_transfers t); [congruence|]. lia.
  - rewrite Z0. unfold tk. lia.
Qed.

Lemma valid_batch_encodable b : valid_data b = true -> batch_in_range b = true -> batch_encodable b = true.
Proof.
  intros V R. destruct (valid_data_spec b V) as (Hv & _ & Ht & _).
  unfold batch_encodable. rewrite Hv. cbn [u64 andb]. apply andb_true_iff. split; [reflexivity|].
  apply forallb_forall. intros t It. unfold batch_in_range in R. rewrite forallb_forall in R.
  rewrite Forall_forall in Ht. apply valid_tx_encodable; [apply Ht|apply R]; exact It.
Qed.

(* C20 (b): decode . encode = id on valid batches *)
Theorem decode_encode_roundtrip :
  forall (text_of_addr : Z -> bytes) (addr_of_text : bytes -> option Z) (b : batch),
  (forall a, In a (batch_addrs b) ->
     addr_of_text (text_of_addr a) = Some a /\ clean_str (text_of_addr a) = true) ->
  valid_data b = true -> batch_in_range b = true ->
  decode_batch addr_of_text (Codec.encode text_of_addr b) = Some b.
Proof.
  intros toa aot b A V R.
  exact (decode_encode_encodable toa aot b A (valid_batch_encodable b V R)).
Qed.

(* the same with the address hypothesis as a computable check *)
Definition addr_ok_b (text_of_addr : Z -> bytes) (addr_of_text : bytes -> option Z) (a : Z) : bool :=
  opt_is (addr_of_text (text_of_addr a)) a && clean_str (text_of_addr a).
Definition addrs_ok_b text_of_addr addr_of_text (b : batch) : bool :=
  forallb (addr_ok_b text_of_addr addr_of_text) (batch_addrs b).

Corollary decode_encode_roundtrip_b text_of_addr addr_of_text b :
  addrs_ok_b text_of_addr addr_of_text b = true -> valid_data b = true -> batch_in_range b = true ->
  decode_batch addr_of_text (Codec.encode text_of_addr b) = Some b.
Proof.
  intros A. apply decode_encode_roundtrip. intros a Ia. unfold addrs_ok_b in A.
  rewrite forallb_forall in A. specialize (A a Ia). unfold addr_ok_b in A.
  apply andb_true_iff in A as [A1 A2]. split; [apply opt_is_eq; exact A1|exact A2].
Qed.

(* the encoder's output is canonical in the sense of C20 (a) *)
Corollary encode_canonical text_of_addr addr_of_text b :
  (forall a, In a (batch_addrs b) ->
     addr_of_text (text_of_addr a) = Some a /\ clean_str (text_of_addr a) = true) ->
  valid_data b = true -> batch_in_range b = true ->
  canonical_bytes (Codec.encode text_of_addr b) = true.
Proof.
  intros A V R. apply (accepted_is_canonical addr_of_text _ b); [|exact V].
  apply decode_encode_roundtrip; assumption.
Qed.

(* re-encoding what was decoded from the encoder's output gives the same bytes *)
Corollary encode_decode_encode text_of_addr addr_of_text b :
  (forall a, In a (batch_addrs b) ->
     addr_of_text (text_of_addr a) = Some a /\ clean_str (text_of_addr a) = true) ->
  valid_data b = true -> batch_in_range b = true ->
  option_map (Codec.encode text_of_addr) (decode_batch addr_of_text (Codec.encode text_of_addr b)) =
  Some (Codec.encode text_of_addr b).
Proof. intros A V R. rewrite (decode_encode_roundtrip _ _ b A V R). reflexivity. Qed.

(* ================================================================================== *)
(* 5. whatever the decoder returns is in range: accepted batches survive re-encoding     *)
(* ================================================================================== *)
Lemma dec_value_nonneg raw : all_digits raw = true -> 0 <= dec_value raw.
Proof. intros D. unfold dec_value. apply (dec_fold_mono raw 0 D). lia. Qed.

Lemma decode_u64_range v n : decode_u64 v = Some n -> u64 n = true.
Proof.
  destruct v as [| | |raw| | |]; try discriminate; cbn [decode_u64].
  - intros [= <-]. reflexivity.
  - destruct (all_digits raw) eqn:D; [|discriminate].
    destruct (Z.leb_spec (dec_value raw) max_uint64); [|discriminate]. intros [= <-].
    pose proof (dec_value_nonneg raw D). unfold u64. lia.
Qed.

Lemma pticker_range data t : pticker_unmarshal data = Some t -> tk t = true.
Proof.
  unfold pticker_unmarshal. cbv zeta.
  match goal with |- (if ?c then _ else _) = _ -> _ => destruct c end; [discriminate|].
  intros L. apply ticker_lookup_spec in L as (_ & R & _). unfold tk. lia.
Qed.

Lemma decode_all_forall {A} (f : jv -> option A) (Q : A -> Prop) items : forall l,
  (forall x a, f x = Some a -> Q a) -> decode_all f items = Some l -> Forall Q l.
Proof.
  induction items as [|x r IH]; intros l HQ; cbn [decode_all].
  - intros [= <-]. constructor.
  - destruct (f x) as [a|] eqn:Fx; [|discriminate]. destruct (decode_all f r) as [ar|] eqn:Dr; [|discriminate].
    intros [= <-]. constructor; [exact (HQ x a Fx)|exact (IH ar HQ eq_refl)].
Qed.

Section Accepted.
  Variable addr_of_text : bytes -> option Z.

  Lemma decode_tuple_range j tr : decode_tuple addr_of_text j = Some tr -> u64 (tr_amt tr) = true.
  Proof.
    destruct j as [| | | | | |ms]; try discriminate. unfold decode_tuple.
    destruct (jlookup k_address ms) as [va|]; [|discriminate].
    destruct (jlookup k_amount ms) as [vm|]; [|discriminate].
    destruct (decode_addr addr_of_text va) as [a|]; [|discriminate].
    destruct (decode_u64 vm) as [n|] eqn:Dn; [|discriminate].
    match goal with |- (if ?c then _ else _) = _ -> _ => destruct c end; [|discriminate].
    intros [= <-]. exact (decode_u64_range _ _ Dn).
  Qed.

  Lemma decode_typed_tuple_range j a n t : decode_typed_tuple addr_of_text j = Some (a, n, t) -> u64 n = true.
  Proof.
    destruct j as [| | | | | |ms]; try discriminate. unfold decode_typed_tuple.
    destruct (decode_type_members ms) as [t'|]; [|discriminate].
    destruct (jlookup k_address ms) as [va|]; [|discriminate].
    destruct (jlookup k_amount ms) as [vm|]; [|discriminate].
    destruct (decode_addr addr_of_text va) as [a'|]; [|discriminate].
    destruct (decode_u64 vm) as [n'|] eqn:Dn; [|discriminate].
    match goal with |- (if ?c then _ else _) = _ -> _ => destruct c end; [|discriminate].
    intros [= _ <- _]. exact (decode_u64_range _ _ Dn).
  Qed.

  Lemma decode_transaction_range j t : decode_transaction addr_of_text j = Some t -> tx_in_range t = true.
  Proof.
    destruct j as [| | | | | |ms]; try discriminate. unfold decode_transaction.
    destruct (jlookup k_input ms) as [vi|]; [|discriminate].
    destruct (decode_typed_tuple addr_of_text vi) as [[[a n] ty]|] eqn:Di; [|discriminate].
    destruct (match jlookup k_transfers ms with Some v => decode_array (decode_tuple addr_of_text) v | None => Some [] end)
      as [trs|] eqn:Dt; [|discriminate].
    destruct (match jlookup k_conversion ms with Some v => decode_raw_ticker v | None => Some 0 end)
      as [cv|] eqn:Dc; [|discriminate].
    cbv zeta. match goal with |- (if ?c then _ else _) = _ -> _ => destruct c end; [|discriminate].
    intros [= <-]. unfold tx_in_range. cbn [tx_amt tx_transfers tx_conv].
    rewrite (decode_typed_tuple_range _ _ _ _ Di). cbn [andb].
    assert (Ht : forallb (fun tr => u64 (tr_amt tr)) trs = true).
    { destruct (jlookup k_transfers ms) as [vt|]; [|injection Dt as <-; reflexivity].
      destruct vt as [| | | | |items|]; try discriminate; cbn [decode_array] in Dt; [injection Dt as <-; reflexivity|].
      apply forallb_forall. apply Forall_forall.
      exact (decode_all_forall _ (fun tr => u64 (tr_amt tr) = true) items trs decode_tuple_range Dt). }
    rewrite Ht. cbn [andb].
    assert (Hc : 0 <= cv < PTickerMax).
    { destruct (jlookup k_conversion ms) as [vc|]; [|injection Dc as <-; unfold PTickerMax; lia].
      unfold decode_raw_ticker in Dc. apply pticker_range in Dc. unfold tk in Dc. lia. }
    lia.
  Qed.

  Theorem decode_batch_j_range j b : decode_batch_j addr_of_text j = Some b -> batch_in_range b = true.
  Proof.
    destruct j as [| | | | | |ms]; try discriminate. unfold decode_batch_j.
    destruct (jlookup k_version ms) as [vv|]; [|discriminate].
    destruct (jlookup k_transactions ms) as [vt|]; [|discriminate].
    destruct (decode_u64 vv) as [ver|]; [|discriminate].
    destruct (decode_array (decode_transaction addr_of_text) vt) as [txs|] eqn:Dt; [|discriminate].
    match goal with |- (if ?c then _ else _) = _ -> _ => destruct c end; [|discriminate].
    intros [= <-]. unfold batch_in_range. cbn [b_txs].
    destruct vt as [| | | | |items|]; try discriminate; cbn [decode_array] in Dt; [injection Dt as <-; reflexivity|].
    apply forallb_forall. apply Forall_forall.
    exact (decode_all_forall _ (fun t => tx_in_range t = true) items txs decode_transaction_range Dt).
  Qed.

  Theorem decode_batch_range s b : decode_batch addr_of_text s = Some b -> batch_in_range b = true.
  Proof.
    unfold decode_batch. destruct (parse_json s) as [j|]; [|discriminate]. apply decode_batch_j_range.
  Qed.

  (* decode . encode . decode = decode on accepted contents: whatever UnmarshalJSON + ValidData
     accept, its canonical re-encoding is accepted again and gives the same batch *)
  Theorem reencode_accepted text_of_addr s b :
    decode_batch addr_of_text s = Some b -> valid_data b = true ->
    (forall a, In a (batch_addrs b) ->
       addr_of_text (text_of_addr a) = Some a /\ clean_str (text_of_addr a) = true) ->
    decode_batch addr_of_text (Codec.encode text_of_addr b) = Some b /\
    canonical_bytes (Codec.encode text_of_addr b) = true.
  Proof.
    intros D V A. pose proof (decode_batch_range s b D) as R. split.
    - apply decode_encode_roundtrip; assumption.
    - apply (encode_canonical text_of_addr addr_of_text); assumption.
  Qed.
End Accepted.

(* two valid in-range batches with the same encoding are the same batch *)
Corollary encode_injective text_of_addr addr_of_text b1 b2 :
  (forall a, In a (batch_addrs b1 ++ batch_addrs b2) ->
     addr_of_text (text_of_addr a) = Some a /\ clean_str (text_of_addr a) = true) ->
  valid_data b1 = true -> batch_in_range b1 = true -> valid_data b2 = true -> batch_in_range b2 = true ->
  Codec.encode text_of_addr b1 = Codec.encode text_of_addr b2 -> b1 = b2.
Proof.
  intros A V1 R1 V2 R2 E.
  assert (D1 := decode_encode_roundtrip text_of_addr addr_of_text b1
                  (fun a I => A a (in_or_app _ _ a (or_introl I))) V1 R1).
  assert (D2 := decode_encode_roundtrip text_of_addr addr_of_text b2
                  (fun a I => A a (in_or_app _ _ a (or_intror I))) V2 R2).
  rewrite E in D1. rewrite D1 in D2. injection D2 as ->. reflexivity.
Qed.

(* ================================================================================== *)
(* 6. examples                                                                         *)
(* ================================================================================== *)
(* a toy address codec: the decimal text of the number *)
Definition ex_toa (a : Z) : bytes := dec_of a.
Definition ex_aot (s : bytes) : option Z := if canon_number s then Some (dec_value s) else None.

(* two transactions from address 77: 10 pUSD split 4 + 6 to addresses 5 and 123456789, and a
   conversion of 250 pUSD to PEG *)
Definition ex_batch : batch :=
  {| b_version := 1;
     b_txs := [ {| tx_addr := 77; tx_type := 2; tx_amt := 10;
                   tx_transfers := [ {| tr_addr := 5; tr_amt := 4 |}; {| tr_addr := 123456789; tr_amt := 6 |} ];
                   tx_conv := 0 |};
                {| tx_addr := 77; tx_type := 2; tx_amt := 250; tx_transfers := []; tx_conv := 1 |} ] |}.

(* {"version":1,"transactions":[{"input":{"address":"77","amount":10,"type":"pUSD"},"transfers":[{"address":"5","amount":4},{"address":"123456789","amount":6}]},{"input":{"address":"77","amount":250,"type":"pUSD"},"conversion":"PEG"}]} *)
Definition ex_batch_text : bytes := [123; 34; 118; 101; 114; 115; 105; 111; 110; 34; 58; 49; 44; 34; 116; 114; 97; 110; 115; 97; 99; 116; 105; 111; 110; 115; 34; 58; 91; 123; 34; 105; 110; 112; 117; 116; 34; 58; 123; 34; 97; 100; 100; 114; 101; 115; 115; 34; 58; 34; 55; 55; 34; 44; 34; 97; 109; 111; 117; 110; 116; 34; 58; 49; 48; 44; 34; 116; 121; 112; 101; 34; 58; 34; 112; 85; 83; 68; 34; 125; 44; 34; 116; 114; 97; 110; 115; 102; 101; 114; 115; 34; 58; 91; 123; 34; 97; 100; 100; 114; 101; 115; 115; 34; 58; 34; 53; 34; 44; 34; 97; 109; 111; 117; 110; 116; 34; 58; 52; 125; 44; 123; 34; 97; 100; 100; 114; 101; 115; 115; 34; 58; 34; 49; 50; 51; 52; 53; 54; 55; 56; 57; 34; 44; 34; 97; 109; 111; 117; 110; 116; 34; 58; 54; 125; 93; 125; 44; 123; 34; 105; 110; 112; 117; 116; 34; 58; 123; 34; 97; 100; 100; 114; 101; 115; 115; 34; 58; 34; 55; 55; 34; 44; 34; 97; 109; 111; 117; 110; 116; 34; 58; 50; 53; 48; 44; 34; 116; 121; 112; 101; 34; 58; 34; 112; 85; 83; 68; 34; 125; 44; 34; 99; 111; 110; 118; 101; 114; 115; 105; 111; 110; 34; 58; 34; 80; 69; 71; 34; 125; 93; 125].

Example roundtrip_hypotheses_satisfiable :
  addrs_ok_b ex_toa ex_aot ex_batch = true /\ valid_data ex_batch = true /\ batch_in_range ex_batch = true /\
  Codec.encode ex_toa ex_batch = ex_batch_text /\
  decode_batch ex_aot (Codec.encode ex_toa ex_batch) = Some ex_batch.
Proof. vm_compute. repeat split; reflexivity. Qed.

(* the theorem applied to it (not by computation) *)
Example roundtrip_instance : decode_batch ex_aot ex_batch_text = Some ex_batch.
Proof.
  assert (E : ex_batch_text = Codec.encode ex_toa ex_batch) by (vm_compute; reflexivity). rewrite E.
  apply decode_encode_roundtrip_b; vm_compute; reflexivity.
Qed.

(* ---- each hypothesis is needed ------------------------------------------------------- *)
(* (i) neither transfers nor conversion: the encoder writes {"input":{...}} and the decoder's
   length check expects the transfers member; ValidData refuses this transaction too *)
Definition ex_empty_tx : batch :=
  {| b_version := 1;
     b_txs := [ {| tx_addr := 77; tx_type := 2; tx_amt := 0; tx_transfers := []; tx_conv := 0 |} ] |}.
Example no_roundtrip_without_transfers_and_conversion :
  valid_data ex_empty_tx = false /\ batch_in_range ex_empty_tx = true /\
  addrs_ok_b ex_toa ex_aot ex_empty_tx = true /\
  decode_batch ex_aot (Codec.encode ex_toa ex_empty_tx) = None.
Proof. vm_compute. repeat split; reflexivity. Qed.

(* (ii) ValidData accepts a conversion field outside the ticker range when there are no
   transfers and the input amount is 0; [encode] then writes "invalid token type" and the decoder
   refuses it (Go: PTicker.MarshalJSON returns an error instead, so json.Marshal fails) *)
Definition ex_conv_out_of_range (cv : Z) : batch :=
  {| b_version := 1;
     b_txs := [ {| tx_addr := 77; tx_type := 2; tx_amt := 0; tx_transfers := []; tx_conv := cv |} ] |}.
Example no_roundtrip_conversion_out_of_range :
  valid_data (ex_conv_out_of_range 63) = true /\ valid_data (ex_conv_out_of_range (-1)) = true /\
  batch_in_range (ex_conv_out_of_range 63) = false /\ batch_in_range (ex_conv_out_of_range (-1)) = false /\
  decode_batch ex_aot (Codec.encode ex_toa (ex_conv_out_of_range 63)) = None /\
  decode_batch ex_aot (Codec.encode ex_toa (ex_conv_out_of_range (-1))) = None.
Proof. vm_compute. repeat split; reflexivity. Qed.

(* (iii) ValidData accepts a NEGATIVE conversion field next to transfers *)
Definition ex_transfers_and_negative_conv : batch :=
  {| b_version := 1;
     b_txs := [ {| tx_addr := 77; tx_type := 2; tx_amt := 4;
                   tx_transfers := [ {| tr_addr := 5; tr_amt := 4 |} ]; tx_conv := -1 |} ] |}.
Example no_roundtrip_transfers_with_negative_conversion :
  valid_data ex_transfers_and_negative_conv = true /\ batch_in_range ex_transfers_and_negative_conv = false /\
  decode_batch ex_aot (Codec.encode ex_toa ex_transfers_and_negative_conv) = None.
Proof. vm_compute. repeat split; reflexivity. Qed.

(* (iv) amounts are unbounded integers in the model: 2^64 and -4 pass ValidData but are not uint64 *)
Definition ex_amount (n : Z) : batch :=
  {| b_version := 1;
     b_txs := [ {| tx_addr := 77; tx_type := 2; tx_amt := n;
                   tx_transfers := [ {| tr_addr := 5; tr_amt := n |} ]; tx_conv := 0 |} ] |}.
Example no_roundtrip_amount_not_uint64 :
  valid_data (ex_amount 18446744073709551616) = true /\ valid_data (ex_amount (-4)) = true /\
  decode_batch ex_aot (Codec.encode ex_toa (ex_amount 18446744073709551616)) = None /\
  decode_batch ex_aot (Codec.encode ex_toa (ex_amount (-4))) = None /\
  decode_batch ex_aot (Codec.encode ex_toa (ex_amount 18446744073709551615)) = Some (ex_amount 18446744073709551615).
Proof. vm_compute. repeat split; reflexivity. Qed.

(* (v) an address text that needs escaping: [print] does not escape, so a quote inside the text
   ends the string early *)
Definition ex_toa_quote (a : Z) : bytes := 34 :: dec_of a.
Definition ex_aot_quote (s : bytes) : option Z := match s with 34 :: r => ex_aot r | _ => None end.
Example no_roundtrip_unclean_address_text :
  opt_is (ex_aot_quote (ex_toa_quote 77)) 77 = true /\ clean_str (ex_toa_quote 77) = false /\
  valid_data ex_batch = true /\ batch_in_range ex_batch = true /\
  decode_batch ex_aot_quote (Codec.encode ex_toa_quote ex_batch) = None.
Proof. vm_compute. repeat split; reflexivity. Qed.

(* (vi) ValidData is stronger than needed: the version may be any uint64 and the list of
   transactions may be empty; such batches round-trip without being valid *)
Example roundtrip_without_validity :
  let b := {| b_version := 7; b_txs := [] |} in
  valid_data b = false /\ batch_encodable b = true /\
  decode_batch ex_aot (Codec.encode ex_toa b) = Some b.
Proof. vm_compute. repeat split; reflexivity. Qed.

Print Assumptions decode_encode_roundtrip.
Print Assumptions reencode_accepted.
Print Assumptions encode_injective.
Print Assumptions decode_encode_encodable.
Print Assumptions decode_batch_j_rt.
Print Assumptions parse_print.
Print Assumptions dec_value_dec_of.
Print Assumptions roundtrip_hypotheses_satisfiable.
