(* Lemmas/TotalityCodes.v — C08 (sync liveness): the exact exceptions of the arrival path, with NO
   hypothesis about the entries.  From a [hist_closed] state, whatever the entries of a transaction
   block are, ApplyTransactionBlock never panics and can only fail with one of four codes:

     E_BADCOLUMN      excluded by [entry_wf] (input ticker is a ticker)
     E_UNCAUGHT       excluded by [entry_wf] (the signer is not the burn address)
     E_SQLARG,
     E_OVERFLOW_CELL  excluded by [bal_room]

   In particular never E_UNIQUE_HIST / E_UNIQUE_HOLDING (repeated, conflicting entries), never
   E_NORATES / E_CONVERT, never [Fail (100 - code)] of a rejection other than -1. *)
From Model Require Import Block.
From Lemmas Require Import ArithLemmas DbLemmas LedgerLemmas TotalityLemmas TotalityInvariant.
From Gen Require Import Consts.
From Coq Require Import Lia ZifyBool.
Open Scope Z_scope.
Open Scope list_scope.

Definition balance_codes : list Z := [E_BADCOLUMN; E_SQLARG; E_OVERFLOW_CELL].
Definition arrival_codes : list Z := E_UNCAUGHT :: balance_codes.

(* a result that is Ok, or Fail with a code of the list *)
Definition fails_within {A} (codes : list Z) (r : res A) : Prop :=
  match r with Ok _ => True | Fail code => In code codes | Panic _ => False end.

Lemma fold_res_stays_fail {S X} (f : S -> X -> res S) (l : list X) code :
  fold_left (fun r x => let? s := r in f s x) l (Fail code) = Fail code.
Proof. induction l as [|y l IH]; cbn; auto. Qed.

Lemma fold_res_within {S X} (codes : list Z) (f : S -> X -> res S) (l : list X) :
  (forall s x, fails_within codes (f s x)) ->
  forall s0, fails_within codes (fold_left (fun r x => let? s := r in f s x) l (Ok s0)).
Proof.
  intros Hf. induction l as [|x l IH]; intros s0; cbn [fold_left]; [exact I|].
  cbn [rbind]. pose proof (Hf s0 x) as H. destruct (f s0 x) as [s1|code|code]; [apply IH| |destruct H].
  rewrite fold_res_stays_fail. exact H.
Qed.

Lemma add_to_balance_within s a t v : fails_within balance_codes (add_to_balance s a t v).
Proof.
  unfold add_to_balance, balance_codes. destruct (negb _); [left; reflexivity|].
  destruct (_ <=? v); [right; left; reflexivity|]. destruct (_ <? _); [right; right; left; reflexivity|exact I].
Qed.

Lemma sub_from_balance_within s a t v code :
  sub_from_balance s a t v = SubFail code -> In code balance_codes.
Proof.
  unfold sub_from_balance. destruct (v =? 0).
  - pose proof (add_to_balance_within s a t 0) as H. destruct (add_to_balance s a t 0); intros E; inversion E; subst; [exact H|destruct H].
  - destruct (negb _); [intros E; inversion E; left; reflexivity|].
    destruct (_ <? v); [discriminate|]. destruct (_ <=? v); [intros E; inversion E; right; left; reflexivity|discriminate].
Qed.

Section WithCfg.
Variable c : cfg.

Lemma credit_transfers_within h hs idx ty trs s : fails_within balance_codes (credit_transfers c h hs idx ty trs s).
Proof.
  unfold credit_transfers. apply fold_res_within. intros s0 tr.
  destruct (tr_addr tr =? burn_addr c h); [exact I|].
  pose proof (add_to_balance_within s0 (tr_addr tr) ty (tr_amt tr)) as H.
  destruct (add_to_balance s0 (tr_addr tr) ty (tr_amt tr)); cbn [rbind]; auto.
Qed.

Lemma within_weaken {A} (r : res A) : fails_within balance_codes r -> fails_within arrival_codes r.
Proof. destruct r; cbn; auto. Qed.

Lemma record_txs_within h hs rates avgs txs : forall idx s,
  has_conversions txs = false -> fails_within arrival_codes (record_txs c h hs rates avgs idx txs s).
Proof.
  induction txs as [|t txs IH]; intros idx s Hc; cbn [record_txs]; [exact I|].
  apply has_conversions_cons in Hc as [Hc1 Hc2].
  destruct (sub_from_balance s (tx_addr t) (tx_type t) (tx_amt t)) as [s1| |code] eqn:Es.
  - assert (Hp : is_peg_request t = false).
    { destruct (is_peg_request t) eqn:E; [|reflexivity]. apply is_peg_request_conversion in E. congruence. }
    rewrite Hp, Hc1, andb_false_r.
    set (s3 := set_executed _ hs h).
    pose proof (credit_transfers_within h hs idx (tx_type t) (tx_transfers t) s3) as H.
    destruct (credit_transfers c h hs idx (tx_type t) (tx_transfers t) s3) as [s4|code|code]; cbn [rbind].
    + apply IH; exact Hc2.
    + right; exact H.
    + destruct H.
  - left; reflexivity.
  - right. eapply sub_from_balance_within; exact Es.
Qed.

Lemma sim_txs_arrival h present rates avgs txs : forall m,
  has_conversions txs = false ->
  sim_txs c h present rates avgs m txs = None \/ sim_txs c h present rates avgs m txs = Some (BRejected (-1)).
Proof.
  intros m Hc. apply sim_txs_cases. clear m. induction txs as [|t txs IH]; constructor.
  - apply has_conversions_cons in Hc as [Hc1 _]. intros K; congruence.
  - apply IH. apply has_conversions_cons in Hc. apply Hc.
Qed.

(* applyTransactionBatch on a batch without conversions *)
Lemma apply_batch_arrival h s hs txs rates avgs :
  has_conversions txs = false ->
  match apply_batch c h s hs txs rates avgs with
  | BApplied _ => True
  | BRejected code => code = -1
  | BDropped => False
  | BFail code => In code arrival_codes
  end.
Proof.
  intros Hc. unfold apply_batch.
  destruct (check_txs c h s rates avgs txs) as [r|] eqn:E1.
  { destruct r as [s'|code| |code]; [exact I|eapply check_txs_arrival; eauto| |].
    - eapply check_txs_arrival_not_dropped; eauto.
    - exfalso. eapply check_txs_no_fail; [right; exact Hc|exact E1]. }
  destruct (sim_txs_arrival h (map tx_addr txs) rates avgs txs (bal s) Hc) as [E2|E2]; rewrite E2; [|reflexivity].
  unfold record_batch. pose proof (record_txs_within h hs rates avgs txs 0 s Hc) as H.
  destruct (record_txs c h hs rates avgs 0 txs s); [exact I|exact H|destruct H].
Qed.

(* one entry, any entry *)
Theorem apply_entry_failures h s order e :
  hist_closed s -> fails_within arrival_codes (apply_entry c h s order e).
Proof.
  intros Hcl. unfold apply_entry.
  destruct (entry_valid_at c e h) as [txs|]; [|exact I].
  destruct (is_replay s (e_hash e)); [exact I|].
  destruct (hist_has s (e_hash e)) eqn:Eh; [exact I|].
  destruct (insert_history_total s e order h txs Hcl Eh) as (s1 & I1 & I2 & I3 & I4 & I5 & I6).
  rewrite I1. cbn [rbind].
  destruct (has_conversions txs) eqn:Hc.
  - destruct (insert_holding_total s1 e h) as (s2 & J1 & _); [|rewrite J1; exact I].
    unfold hold_keys. rewrite I4. intros K. apply hist_has_false in Eh. apply Eh. apply Hcl. exact K.
  - pose proof (apply_batch_arrival h s1 (e_hash e) txs ∅ ∅ Hc) as T.
    destruct (apply_batch c h s1 (e_hash e) txs ∅ ∅) as [s2|code| |code]; [exact I| |exact I|exact T].
    rewrite T. cbn [Z.eqb Pos.eqb]. exact I.
Qed.

(* a whole block, any entries: repeated hashes, garbage, conflicting, oversized *)
Theorem apply_tx_block_failures h es : forall s,
  hist_closed s -> fails_within arrival_codes (apply_tx_block c h s es).
Proof.
  unfold apply_tx_block. intros s.
  assert (G : forall i s, hist_closed s ->
    fails_within arrival_codes
      (snd (fold_left (fun acc e => let '(i, r) := acc in (i + 1, let? s' := r in apply_entry c h s' i e)) es (i, Ok s)))).
  { clear s. induction es as [|e es IH]; intros i s Hcl; cbn [fold_left snd]; [exact I|].
    cbn [rbind]. pose proof (apply_entry_failures h s i e Hcl) as H.
    destruct (apply_entry c h s i e) as [s1|code|code] eqn:E.
    - apply IH. eapply apply_entry_closed; eauto.
    - assert (K : forall j, snd (fold_left (fun acc e => let '(i, r) := acc in (i + 1, let? s' := r in apply_entry c h s' i e)) es (j, Fail code)) = Fail code).
      { clear. induction es as [|y l IHl]; intros j; cbn [fold_left snd]; [reflexivity|]. cbn [rbind]. apply IHl. }
      rewrite K. exact H.
    - destruct H. }
  apply G.
Qed.
End WithCfg.

Print Assumptions apply_entry_failures.
Print Assumptions apply_tx_block_failures.
