(* Lemmas/NoWinnersStatus.v — C12 / C07: a block without winners executes no pending conversion.  In such a block the
   batch-status table (pn_history_txbatch) only GROWS: every row recorded before the block is still there, unchanged,
   in the same place -- so a batch that was pending before the block is pending after it, whatever the block contains.
   (The holding pass is the only code that changes the status of an earlier batch, and it runs only when the block
   recorded rates.) *)
From Model Require Import Block.
From Lemmas Require Import DbLemmas LedgerLemmas BlockLemmas FrameLemmas ChainLemmas HistoryLemmas NoWinners.
From Gen Require Import Consts.
From Coq Require Import RelationClasses Lia.
Open Scope Z_scope.

Definition hist_prefix (l l' : list hbatch) : Prop := exists ext, l' = l ++ ext.
Global Instance hist_prefix_po : PreOrder hist_prefix.
Proof.
  split.
  - intros l. exists []. rewrite app_nil_r. reflexivity.
  - intros a b d [e1 ->] [e2 ->]. exists (e1 ++ e2). rewrite app_assoc. reflexivity.
Qed.

(* hypotheses of the preservation scheme for the operations that append to, or do not touch, the table *)
Ltac grows :=
  intros;
  try match goal with H : insert_hbatch _ _ = Ok _ |- _ => apply insert_hbatch_shape in H; subst; eexists; reflexivity end;
  try match goal with H : insert_htx _ _ _ = Ok _ |- _ => apply insert_htx_shape in H as (? & ? & ->) end;
  try match goal with H : insert_holding _ _ _ = Ok _ |- _ => apply insert_holding_shape in H as (? & ->) end;
  try match goal with H : insert_bank _ _ _ = Ok _ |- _ => apply insert_bank_shape in H as (? & ->) end;
  try match goal with H : update_bank _ _ _ _ = Ok _ |- _ => apply update_bank_shape in H as (? & ->) end;
  try match goal with H : insert_grade _ _ _ = Ok _ |- _ => apply insert_grade_shape in H as (? & ? & ->) end;
  try match goal with H : insert_synced _ _ = Ok _ |- _ => apply insert_synced_shape in H as (? & ->) end;
  try match goal with |- context [insert_relation ?s ?a ?hs ?i ?t ?cv] =>
        destruct (insert_relation_shape s a hs i t cv) as [-> | ->] end;
  try reflexivity.

Section WithCfg.
Variable c : cfg.

Ltac done_step H x Hx := apply obind_done in H as (x & Hx & H).

(* recordBatch: the only status it writes is that of its own entry hash *)
Lemma record_txs_hist h hs rates avgs txs : forall idx s s',
  record_txs c h hs rates avgs idx txs s = Ok s' ->
  hist s' = match txs with [] => hist s | _ => mark_exec hs h (hist s) end.
Proof.
  induction txs as [|t txs IH]; intros idx s s' H; cbn [record_txs] in H; [inversion H; reflexivity|].
  destruct (sub_from_balance s (tx_addr t) (tx_type t) (tx_amt t)) as [s1| |code] eqn:Es; try discriminate.
  apply sub_from_balance_ok in Es as (_ & _ & _ & ->).
  set (s1 := set_bal s _) in *.
  set (s2 := insert_relation s1 (tx_addr t) hs idx false (is_conversion t)) in *.
  set (s3 := set_executed s2 hs h) in *.
  assert (E3 : hist s3 = mark_exec hs h (hist s)).
  { unfold s3. rewrite hist_set_executed. f_equal. unfold s2.
    destruct (insert_relation_shape s1 (tx_addr t) hs idx false (is_conversion t)) as [-> | ->]; reflexivity. }
  assert (Hnext : forall sx, hist sx = hist s3 -> forall j, record_txs c h hs rates avgs j txs sx = Ok s' -> hist s' = mark_exec hs h (hist s)).
  { intros sx Ex j Hr. rewrite (IH _ _ _ Hr), Ex, E3. destruct txs; [reflexivity|apply mark_exec_idem]. }
  destruct ((c_PegnetConversionLimitActivation c <=? h) && is_peg_request t).
  - destruct (conv_of c h rates avgs t); [|discriminate]. exact (Hnext s3 eq_refl _ H).
  - destruct (is_conversion t).
    + destruct (conv_of c h rates avgs t) as [out|]; [|discriminate].
      apply rbind_ok in H as (s5 & H5 & H). apply add_to_balance_ok in H5 as (_ & _ & ->). refine (Hnext _ _ _ H). reflexivity.
    + apply rbind_ok in H as (s4 & H4 & H). refine (Hnext s4 _ _ H). symmetry.
      eapply (pr_credit_transfers (fun s : db => hist s) (@eq _)); try (untouched; fail). exact H4.
Qed.

(* an arriving entry: rows of earlier entries are never touched *)
Lemma apply_entry_hist_prefix h s order e s' : apply_entry c h s order e = Ok s' -> hist_prefix (hist s) (hist s').
Proof.
  unfold apply_entry. destruct (entry_valid_at c e h) as [txs|]; [|intros H; inversion H; reflexivity].
  destruct (is_replay s (e_hash e)); [intros H; inversion H; reflexivity|].
  destruct (hist_has s (e_hash e)) eqn:Hh; [intros H; inversion H; reflexivity|].
  intros H. apply rbind_ok in H as (s1 & H1 & H).
  apply insert_history_ok in H1 as (E1 & _).
  set (row0 := {| hb_hash := e_hash e; hb_height := h; hb_order := order; hb_ts := e_ts e; hb_exec := 0 |}) in *.
  assert (Hm : forall code sx, hist sx = hist s1 \/ hist sx = mark_exec (e_hash e) code (hist s1) -> hist_prefix (hist s) (hist sx)).
  { intros code sx [-> | ->]; rewrite E1.
    - eexists; reflexivity.
    - rewrite mark_exec_app, (mark_exec_fresh _ _ _ Hh). eexists; reflexivity. }
  destruct (has_conversions txs).
  - apply insert_holding_shape in H as (v & ->). apply (Hm 0). left; reflexivity.
  - destruct (apply_batch c h s1 (e_hash e) txs ∅ ∅) as [s2|code| |code] eqn:Eb.
    + inversion H; subst s'. apply apply_batch_applied_is_record in Eb. unfold record_batch in Eb.
      apply record_txs_hist in Eb. apply (Hm h). destruct txs; [left|right]; exact Eb.
    + destruct (code =? -1); [|discriminate]. inversion H; subst s'. apply (Hm (-1)). right. apply hist_set_executed.
    + inversion H; subst s'. apply (Hm 0). left; reflexivity.
    + discriminate.
Qed.

Lemma apply_tx_block_hist_prefix h s es s' : apply_tx_block c h s es = Ok s' -> hist_prefix (hist s) (hist s').
Proof.
  unfold apply_tx_block.
  assert (G : forall es i r s', snd (fold_left (fun acc e => let '(i, r) := acc in (i + 1, let? s0 := r in apply_entry c h s0 i e)) es (i, r)) = Ok s' ->
              exists s0, r = Ok s0 /\ hist_prefix (hist s0) (hist s')).
  { clear. induction es as [|e es IH]; intros i r s' H; cbn [fold_left snd] in H.
    - exists s'. split; [exact H|reflexivity].
    - destruct (IH _ _ _ H) as (s1 & E1 & P1). destruct r as [s0|x|x]; cbn [rbind] in E1; try discriminate.
      exists s0. split; [reflexivity|]. etransitivity; [eapply apply_entry_hist_prefix; exact E1|exact P1]. }
  intros H. destruct (G es 0 (Ok s) s' H) as (s0 & E & P). inversion E; subst. exact P.
Qed.

Local Ltac gr L H := (eapply (L (fun s : db => hist s) hist_prefix); try (grows; fail); exact H).

Lemma sync_block_no_winners_status cm mem b s s' mem' :
  sync_block c cm mem b s = Done (s', mem') ->
  (forall g, grade_opr c cm b = Done g -> no_winners g) ->
  (c_V20HeightActivation c <= b_height b -> forall g, grade_spr c cm b = Done g -> no_winners g) ->
  hist_prefix (hist s) (hist s').
Proof.
  intros H Ho Hs. unfold sync_block in H. cbv zeta in H.
  done_step H s1 H1. apply of_res_done in H1.
  assert (E1 : hist_prefix (hist s) (hist s1)).
  { destruct (_ =? c_V204EnhanceActivation c); [|inversion H1; subst; reflexivity].
    eapply (pr_mint_tokens (fun s : db => hist s) hist_prefix); try (grows; fail); exact H1. }
  clear H1. done_step H s2 H2. apply of_res_done in H2.
  assert (E2 : hist_prefix (hist s) (hist s2)).
  { etransitivity; [exact E1|]. destruct (_ =? c_V204BurnMintedTokenActivation c); [|inversion H2; subst; reflexivity].
    eapply (pr_nullify_minted (fun s : db => hist s) hist_prefix); try (grows; fail); exact H2. }
  clear H2 E1 s1. done_step H graded Hg. done_step H gradedS HgS.
  pose proof (Ho _ Hg) as Nw.
  done_step H st Hst. destruct st as [[s3 is_rates] ended].
  assert (E3 : hist_prefix (hist s) (hist s3) /\ is_rates = false /\ ended = false).
  { destruct (Z.ltb_spec (b_height b) (c_V20HeightActivation c)) as [Hlt|Hge].
    - destruct graded as [v|]; [|inversion Hst; subst; auto].
      done_step Hst s4 H4. apply of_res_done in H4. apply insert_grade_shape in H4 as (g & w & ->).
      cbn in Nw. rewrite Nw in Hst. inversion Hst; subst. auto.
    - assert (NwS : no_winners gradedS).
      { destruct (Z.leb_spec (c_V20HeightActivation c) (b_height b)) as [Hle|Hgt]; [|lia].
        exact (Hs Hle _ HgS). }
      destruct (grade_spr_err c cm b); [discriminate|].
      done_step Hst s4 H4.
      assert (E4 : hist s4 = hist s2).
      { destruct graded as [v|]; [apply of_res_done in H4; apply insert_grade_shape in H4 as (g & w & ->); reflexivity|inversion H4; subst; reflexivity]. }
      rewrite (no_winners_first_assets _ Nw), (no_winners_first_assets _ NwS) in Hst.
      inversion Hst; subst. split; [rewrite E4; exact E2|auto]. }
  destruct E3 as (E3 & -> & ->). clear Hst E2 s2.
  done_step H st2 Hst2. destruct st2 as [s4 mem4].
  assert (E4 : hist_prefix (hist s) (hist s4)).
  { etransitivity; [exact E3|]. destruct (c_TransactionConversionActivation c <=? _); [|inversion Hst2; subst; reflexivity].
    done_step Hst2 st Hs1. destruct st as [s5 rates1].
    assert (E5 : hist_prefix (hist s3) (hist s5)).
    { destruct ((c_V20HeightActivation c <=? _) && _); [|inversion Hs1; subst; reflexivity].
      done_step Hs1 s6 H6. apply of_res_done in H6. inversion Hs1; subst.
      eapply (pr_snapshot_payouts (fun s : db => hist s) hist_prefix); try (grows; fail); exact H6. }
    done_step Hst2 st Hs2. destruct st as [s6 mem6]. inversion Hs2; subst s6 mem6.
    done_step Hst2 s7 H7. inversion Hst2; subst. etransitivity; [exact E5|].
    destruct (b_tx b); [apply of_res_done in H7|inversion H7; subst; reflexivity].
    eapply apply_tx_block_hist_prefix; exact H7. }
  clear Hst2 E3 s3. done_step H s5 H5.
  assert (E5 : hist_prefix (hist s) (hist s5)).
  { etransitivity; [exact E4|]. destruct (_ <? c_V20HeightActivation c); [apply of_res_done in H5|inversion H5; subst; reflexivity].
    eapply (pr_apply_factoid_block (fun s : db => hist s) hist_prefix); try (grows; fail); exact H5. }
  done_step H s6 H6.
  assert (E6 : hist_prefix (hist s) (hist s6)).
  { etransitivity; [exact E5|]. destruct graded; [apply of_res_done in H6|inversion H6; subst; reflexivity].
    eapply (pr_pay_winners (fun s : db => hist s) hist_prefix); try (grows; fail); exact H6. }
  done_step H s7 H7.
  assert (E7 : hist_prefix (hist s) (hist s7)).
  { etransitivity; [exact E6|]. destruct (c_V20HeightActivation c <=? _); [|inversion H7; subst; reflexivity].
    destruct gradedS; [apply of_res_done in H7|inversion H7; subst; reflexivity].
    eapply (pr_pay_winners (fun s : db => hist s) hist_prefix); try (grows; fail); exact H7. }
  done_step H s8 H8. inversion H; subst. etransitivity; [exact E7|].
  destruct ((c_V20DevRewardsHeightActivation c <=? _) && _); [apply of_res_done in H8|inversion H8; subst; reflexivity].
  eapply (pr_developers_payouts (fun s : db => hist s) hist_prefix); try (grows; fail); exact H8.
Qed.

Theorem no_winners_no_status_change cm mem b s' mem' :
  step_block c cm mem b = Done (s', mem') ->
  (forall g, grade_opr c cm b = Done g -> no_winners g) ->
  (c_V20HeightActivation c <= b_height b -> forall g, grade_spr c cm b = Done g -> no_winners g) ->
  hist_prefix (hist cm) (hist s').
Proof.
  intros H Ho Hs. unfold step_block in H. cbv zeta in H.
  done_step H r Hr. destruct r as [s1 mem1]. done_step H s2 H2. apply of_res_done in H2. inversion H; subst.
  apply insert_synced_shape in H2 as (v & ->). cbn [hist set_synced].
  etransitivity; [|exact (sync_block_no_winners_status _ _ _ _ _ _ Hr Ho Hs)].
  assert (Hn : forall h ts s, hist_prefix (hist s) (hist (nullify_burn c cm h ts s))).
  { intros h ts s. eapply (pr_nullify_burn (fun s : db => hist s) hist_prefix); try (grows; fail). }
  destruct (_ =? c_V202EnhanceActivation c); destruct (_ =? c_V20DevRewardsHeightActivation c); try reflexivity; try apply Hn.
  etransitivity; apply Hn.
Qed.

(* what it means for a batch: its status after the block is its status before *)
Corollary no_winners_pending_stays_pending cm mem b s' mem' r :
  step_block c cm mem b = Done (s', mem') ->
  (forall g, grade_opr c cm b = Done g -> no_winners g) ->
  (c_V20HeightActivation c <= b_height b -> forall g, grade_spr c cm b = Done g -> no_winners g) ->
  In r (hist cm) -> In r (hist s').
Proof.
  intros H Ho Hs Hin. destruct (no_winners_no_status_change _ _ _ _ _ H Ho Hs) as [ext ->]. apply in_or_app. left; exact Hin.
Qed.

End WithCfg.

(* non-vacuity: in the example chain the conversion entered at 102 is pending before the unrated block 103 and after it *)
From Model Require Import Examples.
Example no_winners_status_example :
  match replay ex_cfg genesis empty_cache (firstn 2 ex_chain) with
  | Done (s2, m2) =>
    existsb (fun r => (hb_hash r =? 602) && (hb_exec r =? 0)) (hist s2) = true /\
    match step_block ex_cfg s2 m2 (nth 2 ex_chain (ex_block 0 None None [])) with
    | Done (s3, _) => firstn (length (hist s2)) (hist s3) = hist s2 /\ (length (hist s2) < length (hist s3))%nat
    | _ => False
    end
  | _ => False
  end.
Proof. vm_compute. split; [reflexivity|]. split; [reflexivity|]. lia. Qed.
