(* Lemmas/BankLemmas.v — the legacy PEG bank at the level of the LEDGER (recordPegnetRequests), not only of the
   payout arithmetic: the PEG that one bank pass creates is the sum of the yields, which never exceeds the bank
   (and exhausts it when the requests reach it); the bank row records amount / used / requested.  For entries
   that consist of PEG requests only (what [apply_held] queues outside the recorded mixed-batch finding). *)
From Model Require Import Obs Examples.
From Lemmas Require Import ArithLemmas DbLemmas LedgerLemmas PayoutLemmas SupplyLemmas HistoryLemmas4.
From Gen Require Import Consts.
From Coq Require Import Lia ZifyBool.
Open Scope Z_scope.
Open Scope list_scope.

Section Bank.
Variable c : cfg.

Definition peg_req_tx (t : tx) : Prop := tx_conv t = PTickerPEG /\ tx_type t <> PTickerPEG.
Definition pure_peg_batches (batches : list (hash * list tx)) : Prop :=
  Forall (fun b => Forall peg_req_tx (snd b)) batches.

Lemma reqs_of_batch_txs h rates avgs hs txs : forall i r,
  In r (reqs_of_batch c h rates avgs hs i txs) -> In (pr_tx r) txs /\ 0 <= pr_amt r < two64.
Proof.
  induction txs as [|t txs IH]; intros i r Hin; cbn [reqs_of_batch] in Hin; [contradiction|].
  destruct Hin as [<-|Hin]; cbn [pr_tx pr_amt].
  - split; [left; reflexivity|]. unfold wrap64. apply Z.mod_pos_bound. reflexivity.
  - destruct (IH _ _ Hin) as [H1 H2]. split; [right; exact H1|exact H2].
Qed.

Lemma reqs_of_pure h rates avgs batches r :
  pure_peg_batches batches -> In r (reqs_of c h rates avgs batches) -> peg_req_tx (pr_tx r) /\ 0 <= pr_amt r < two64.
Proof.
  intros Hp Hin. unfold reqs_of in Hin. apply in_flat_map in Hin as (b & Hb & Hin).
  destruct (reqs_of_batch_txs _ _ _ _ _ _ _ Hin) as [H1 H2]. split; [|exact H2].
  unfold pure_peg_batches in Hp. rewrite Forall_forall in Hp. specialize (Hp b Hb). rewrite Forall_forall in Hp. apply Hp; exact H1.
Qed.

Lemma supply_set_peg_request_amounts s hs i amt out t : supply (set_peg_request_amounts s hs i amt out) t = supply s t.
Proof. reflexivity. Qed.
Lemma bank_set_peg_request_amounts s hs i amt out : bank (set_peg_request_amounts s hs i amt out) = bank s.
Proof. reflexivity. Qed.

(* one payment: the PEG supply grows by exactly the yield; the refund is in another asset; the bank table is not touched *)
Lemma pay_request_peg h rates (reqs : list peg_req) s p s' :
  (forall r, In r reqs -> peg_req_tx (pr_tx r)) ->
  In (fst p) (map pr_txid reqs) ->
  pay_request c h rates reqs s p = Ok s' ->
  supply s' PTickerPEG = supply s PTickerPEG + snd p /\ bank s' = bank s.
Proof.
  intros Hp Hk H. unfold pay_request in H.
  destruct (find (fun r => txid_eqb (pr_txid r) (fst p)) reqs) as [r|] eqn:Ef.
  - apply find_some in Ef as [Hin _]. destruct (Hp r Hin) as [Ec Et]. cbv zeta in H.
    apply rbind_ok in H as (s2 & H2 & H3).
    pose proof (supply_add _ _ _ _ _ PTickerPEG H2) as S2. pose proof (supply_add _ _ _ _ _ PTickerPEG H3) as S3.
    apply add_to_balance_ok in H2 as (_ & _ & E2). apply add_to_balance_ok in H3 as (_ & _ & E3).
    rewrite supply_set_peg_request_amounts in S2. rewrite Ec, Z.eqb_refl in S2.
    destruct (Z.eqb_spec (tx_type (pr_tx r)) PTickerPEG) as [E|_]; [contradiction|].
    split; [lia|]. rewrite E3, E2. reflexivity.
  - exfalso. apply in_map_iff in Hk as (r & Er & Hin). pose proof (find_none _ _ Ef r Hin) as Hn. cbn beta in Hn.
    rewrite Er, txid_eqb_refl in Hn. discriminate.
Qed.

Lemma pay_fold_peg h rates (reqs : list peg_req) :
  (forall r, In r reqs -> peg_req_tx (pr_tx r)) ->
  forall ps s s', (forall p, In p ps -> In (fst p) (map pr_txid reqs)) ->
  fold_left (fun r p => let? s0 := r in pay_request c h rates reqs s0 p) ps (Ok s) = Ok s' ->
  supply s' PTickerPEG = supply s PTickerPEG + sum_snd ps /\ bank s' = bank s.
Proof.
  intros Hp. induction ps as [|p ps IH]; intros s s' Hk H; cbn [fold_left] in H.
  - inversion H; subst. cbn. split; [lia|reflexivity].
  - cbn [rbind] in H. destruct (pay_request c h rates reqs s p) as [s1|e|e] eqn:E1.
    + destruct (pay_request_peg _ _ _ _ _ _ Hp (Hk p (or_introl eq_refl)) E1) as [A1 B1].
      destruct (IH s1 s' (fun q Hq => Hk q (or_intror Hq)) H) as [A2 B2].
      split; [|congruence]. change (sum_snd (p :: ps)) with (snd p + sum_snd ps). lia.
    + exfalso. eapply fold_res_fail; exact H.
    + exfalso. eapply fold_res_panic; exact H.
Qed.

(* THE ledger-level statement of the bank limit *)
Theorem peg_created_within_bank h s batches rates avgs bankamt bh s' :
  pure_peg_batches batches -> 0 <= bankamt < two64 ->
  record_peg_requests c h s batches rates avgs bankamt bh = Ok s' ->
  let rs := map (fun r => (pr_txid r, pr_amt r)) (reqs_of c h rates avgs batches) in
  (* the PEG created by this pass is the sum of the yields ... *)
  supply s' PTickerPEG = supply s PTickerPEG + sum_snd (payouts bankamt rs) /\
  (* ... which never exceeds the bank, exhausts it when the requests reach it, and is everything asked for below it *)
  sum_snd (payouts bankamt rs) <= bankamt /\
  (bankamt <= total_requested_big rs -> rs <> [] -> sum_snd (payouts bankamt rs) = bankamt) /\
  (total_requested_big rs < bankamt -> payouts bankamt rs = rs) /\
  (* the bank row (from V4OPRUpdate on): amount kept, used = PEG created, requested = what was asked for *)
  (c_V4OPRUpdate c <= bh -> exists amount u q, bank s !! bh = Some (amount, u, q) /\
      bank s' = <[bh := (amount, sum_snd (payouts bankamt rs), total_requested rs)]> (bank s)) /\
  (bh < c_V4OPRUpdate c -> bank s' = bank s).
Proof.
  intros Hpure Hb H rs. unfold record_peg_requests, record_peg_requests_ord in H.
  fold (reqs_of c h rates avgs batches) in H.
  destruct (has_dup_txid (map pr_txid (reqs_of c h rates avgs batches))) eqn:Ed; [discriminate|]. cbv zeta in H.
  fold rs in H. apply rbind_ok in H as (s1 & H1 & H2).
  assert (Hreqs : forall r, In r (reqs_of c h rates avgs batches) -> peg_req_tx (pr_tx r)).
  { intros r Hin. exact (proj1 (reqs_of_pure _ _ _ _ _ Hpure Hin)). }
  assert (Hkeys : forall p, In p (payouts bankamt rs) -> In (fst p) (map pr_txid (reqs_of c h rates avgs batches))).
  { intros p Hin. apply (in_map fst) in Hin. rewrite payouts_keys in Hin. unfold rs in Hin. rewrite map_map in Hin. exact Hin. }
  destruct (pay_fold_peg h rates _ Hreqs _ _ _ Hkeys H1) as [A1 B1].
  assert (Hok : reqs_ok rs).
  { unfold reqs_ok, rs. rewrite Forall_map, Forall_forall. intros r Hin. cbn [snd]. exact (proj2 (reqs_of_pure _ _ _ _ _ Hpure Hin)). }
  assert (Hnd : txids_nodup rs).
  { unfold txids_nodup, rs. rewrite map_map. cbn [fst]. apply has_dup_txid_nodup. exact Ed. }
  destruct (payouts_never_exceed_bank bankamt rs Hok Hnd Hb) as (P1 & P2 & P3).
  assert (Hsup : supply s' PTickerPEG = supply s1 PTickerPEG /\
                 (c_V4OPRUpdate c <= bh -> exists amount u q, bank s1 !! bh = Some (amount, u, q) /\
                    bank s' = <[bh := (amount, sum_snd (payouts bankamt rs), total_requested rs)]> (bank s1)) /\
                 (bh < c_V4OPRUpdate c -> bank s' = bank s1)).
  { destruct (Z.leb_spec (c_V4OPRUpdate c) bh) as [Hv|Hv].
    - unfold update_bank in H2. destruct (bank s1 !! bh) as [[[amount u] q]|] eqn:Eb; [|discriminate].
      inversion H2; subst s'. split; [reflexivity|]. split; [|intros; lia].
      intros _. exists amount, u, q. split; [reflexivity|]. reflexivity.
    - inversion H2; subst s'. split; [reflexivity|]. split; [intros; lia|reflexivity]. }
  destruct Hsup as (U1 & U2 & U3). rewrite B1 in U2, U3.
  split; [lia|]. split; [exact P1|]. split; [exact P2|]. split; [exact P3|]. split; [exact U2|exact U3].
Qed.

End Bank.

(* non-vacuity: two requests above a 5000-PEG bank, on the example configuration *)
Definition bx_cfg : cfg := ex_cfg.
Definition bx_tx (a amt : Z) : tx := {| tx_addr := a; tx_type := PTickerFCT; tx_amt := amt; tx_transfers := []; tx_conv := PTickerPEG |}.
Definition bx_rates : gmap ticker Z := {[ PTickerFCT := 400000000; PTickerPEG := 5000000; PTickerUSD := 100000000 ]}.
Definition bx_batches : list (hash * list tx) := [(701, [bx_tx alice 4000000000; bx_tx alice 3]); (702, [bx_tx bob 6000000000])].
Example peg_created_within_bank_hyps :
  pure_peg_batches bx_batches /\
  exists s', record_peg_requests bx_cfg 50 genesis bx_batches bx_rates bx_rates BankBaseAmount 49 = Ok s' /\
             supply s' PTickerPEG = BankBaseAmount.
Proof.
  split.
  - repeat constructor; cbn; discriminate.
  - vm_compute. eexists. split; reflexivity.
Qed.
