(* Lemmas/TotalityExamples.v — the hypotheses of the totality theorems are satisfiable on a
   non-trivial state (the state after the example chain), and each of them is necessary in the
   model: without it the ledger functions do return [Fail].  Everything by vm_compute. *)
From Model Require Import Examples.
From Lemmas Require Import DbLemmas LedgerLemmas TotalityLemmas TotalityHolding.
From Gen Require Import Consts.
Open Scope Z_scope.
Open Scope list_scope.

(* the state after the four blocks of the example chain: balances of alice and bob in pFCT, pUSD and
   PEG, five history batches, the held conversion 602, relation rows *)
Definition ex_state : db :=
  match replay ex_cfg genesis empty_cache ex_chain with Done (s, _) => s | _ => empty_db end.

Example ex_state_nontrivial :
  length (hist ex_state) = 5%nat /\ length (htxs ex_state) = 5%nat /\ length (holding ex_state) = 1%nat /\
  get_bal (bal ex_state) alice PTickerFCT = 50 /\ get_bal (bal ex_state) bob PTickerFCT = 30.
Proof. vm_compute. repeat split. Qed.

Example ex_state_closed : hist_closed ex_state.
Proof. apply hist_closedb_spec. vm_compute. reflexivity. Qed.

(* ---- L2 ---------------------------------------------------------------------------------------------- *)
Definition ex_two_transfers (hs : hash) : entry :=
  {| e_hash := hs; e_ts := 3000;
     e_batch := Some [{| tx_addr := alice; tx_type := PTickerFCT; tx_amt := 10;
                         tx_transfers := [{| tr_addr := bob; tr_amt := 4 |}; {| tr_addr := alice; tr_amt := 6 |}]; tx_conv := 0 |};
                      {| tx_addr := alice; tx_type := PTickerUSD; tx_amt := 0;
                         tx_transfers := [{| tr_addr := bob; tr_amt := 0 |}]; tx_conv := 0 |}];
     e_rcde := false |}.

Example apply_entry_total_hyps :
  hist_closed ex_state /\ entry_wf ex_cfg 105 (ex_two_transfers 700) = true /\
  arrival_credit ex_cfg 105 (ex_two_transfers 700) = 10 /\
  bal_room ex_state (arrival_credit ex_cfg 105 (ex_two_transfers 700) + 0).
Proof.
  split; [exact ex_state_closed|]. split; [vm_compute; reflexivity|]. split; [vm_compute; reflexivity|].
  apply bal_roomb_spec. vm_compute. reflexivity.
Qed.
Example apply_entry_total_instance :
  exists s', apply_entry ex_cfg 105 ex_state 0 (ex_two_transfers 700) = Ok s' /\ hist_closed s' /\ bal_room s' 0.
Proof.
  destruct apply_entry_total_hyps as (H1 & H2 & _ & H4). apply apply_entry_total; auto. reflexivity.
Qed.

(* ---- L3: repeated hashes, garbage, a conversion, an old hash, an overdraft, a negative amount ----------------- *)
Definition ex_garbage (hs : hash) : entry := {| e_hash := hs; e_ts := 0; e_batch := None; e_rcde := false |}.
Definition ex_negative (hs : hash) : entry :=
  {| e_hash := hs; e_ts := 3000;
     e_batch := Some [{| tx_addr := alice; tx_type := PTickerFCT; tx_amt := -5;
                         tx_transfers := [{| tr_addr := bob; tr_amt := -5 |}]; tx_conv := 0 |}];
     e_rcde := false |}.
Definition ex_block_entries : list entry :=
  [ ex_two_transfers 700; ex_two_transfers 700; ex_garbage 701; ex_garbage 700; ex_conversion 702 5; ex_conversion 702 5;
    ex_transfer 601 30; ex_transfer 602 1; ex_transfer 703 100000; ex_negative 704; ex_transfer 705 7; ex_transfer 703 1 ].

Example apply_tx_block_total_hyps :
  hist_closed ex_state /\ Forall (fun e => entry_wf ex_cfg 105 e = true) ex_block_entries /\
  block_credit ex_cfg 105 ex_block_entries = 100059 /\
  bal_room ex_state (block_credit ex_cfg 105 ex_block_entries + 0).
Proof.
  split; [exact ex_state_closed|]. split; [repeat constructor|]. split; [vm_compute; reflexivity|].
  apply bal_roomb_spec. vm_compute. reflexivity.
Qed.
Example apply_tx_block_total_instance :
  exists s', apply_tx_block ex_cfg 105 ex_state ex_block_entries = Ok s' /\ hist_closed s' /\ bal_room s' 0.
Proof.
  destruct apply_tx_block_total_hyps as (H1 & H2 & _ & H4). apply apply_tx_block_total; auto. reflexivity.
Qed.
(* ... and what that block does: 700 and 705 executed, 702 held, 703 rejected, the rest skipped *)
Example apply_tx_block_total_effect :
  match apply_tx_block ex_cfg 105 ex_state ex_block_entries with
  | Ok s' => get_bal (bal s') alice PTickerFCT = 39 /\ get_bal (bal s') bob PTickerFCT = 41 /\
             map (fun r => (hb_hash r, hb_exec r)) (skipn 5 (hist s')) = [(700, 105); (702, 0); (703, -1); (705, 105)] /\
             hold_keys s' = [602; 702]
  | _ => False
  end.
Proof. vm_compute. repeat split. Qed.

(* ---- L4: a rated block after 2.0 with a held conversion, a held PEG conversion and a repeated hash --------------- *)
Definition ex_rates : gmap ticker Z := <[PTickerPEG := 200000000]> (<[PTickerUSD := 100000000]> (<[PTickerFCT := 400000000]> ∅)).
Definition ex_to_peg (hs : hash) (amount : Z) : entry :=
  {| e_hash := hs; e_ts := 2000;
     e_batch := Some [{| tx_addr := alice; tx_type := PTickerFCT; tx_amt := amount; tx_transfers := []; tx_conv := PTickerPEG |}];
     e_rcde := false |}.
(* committed database: blocks 405 and 406 (unrated) brought three held batches *)
Definition ex_cm : db :=
  match apply_tx_block ex_cfg 405 ex_state [ex_conversion 800 8; ex_to_peg 801 3] with
  | Ok s1 => match apply_tx_block ex_cfg 406 s1 [ex_conversion 802 100; ex_conversion 800 8] with Ok s2 => s2 | _ => empty_db end
  | _ => empty_db
  end.
(* pending state of block 407 once its rates are inserted *)
Definition ex_pending : db := set_rates ex_cm (<[407 := ex_rates]> (rates ex_cm)).

Example apply_holding_total_hyps :
  outside_bank_era ex_cfg 407 /\ is_empty_map ex_rates = false /\ rates_nonneg ex_rates /\
  length (holding_window ex_pending 407) = 303%nat /\ hold_keys ex_cm = [602; 800; 801; 802] /\
  holding_wf_basic ex_cfg ex_cm 407 (holding_window ex_pending 407) = true /\
  holding_credit ex_cfg ex_cm 407 ex_rates ex_rates (holding_window ex_pending 407) = 438 /\
  bal_room ex_pending (holding_credit ex_cfg ex_cm 407 ex_rates ex_rates (holding_window ex_pending 407) + 0).
Proof.
  split; [left; vm_compute; discriminate|]. split; [vm_compute; reflexivity|]. split; [apply rates_nonnegb_spec; vm_compute; reflexivity|].
  split; [vm_compute; reflexivity|]. split; [vm_compute; reflexivity|]. split; [vm_compute; reflexivity|].
  split; [vm_compute; reflexivity|]. apply bal_roomb_spec. vm_compute. reflexivity.
Qed.
Example apply_holding_total_instance :
  exists s', apply_holding ex_cfg ex_cm 407 ex_pending ex_rates ex_rates = Ok s' /\ keys s' = keys ex_pending /\ bal_room s' 0.
Proof.
  destruct apply_holding_total_hyps as (H1 & H2 & H3 & _ & _ & H6 & _ & H8).
  apply apply_holding_total_outside_bank_era; auto. reflexivity.
Qed.
(* 800 executed (8 pFCT -> 32 pUSD), 801 refused (-2: PEG conversion after 2.0), 802 rejected (-1: 100 pFCT asked, 42 there) *)
Example apply_holding_total_effect :
  match apply_holding ex_cfg ex_cm 407 ex_pending ex_rates ex_rates with
  | Ok s' => get_bal (bal s') alice PTickerFCT = 42 /\ get_bal (bal s') alice PTickerUSD - get_bal (bal ex_cm) alice PTickerUSD = 32 /\
             map (fun r => (hb_hash r, hb_exec r)) (skipn 5 (hist s')) = [(800, 407); (801, -2); (802, -1)]
  | _ => False
  end.
Proof. vm_compute. repeat split. Qed.

(* before the conversion limit: block 104 of the example chain (the held conversion 602 executes) and a
   held conversion into PEG, which is an ordinary conversion there *)
Definition ex_cm3 : db :=
  match replay ex_cfg genesis empty_cache (firstn 3 ex_chain) with
  | Done (s, _) => match apply_tx_block ex_cfg 103 s [ex_to_peg 604 4] with Ok s1 => s1 | _ => empty_db end
  | _ => empty_db
  end.
Definition ex_pending3 : db := set_rates ex_cm3 (<[104 := ex_rates]> (rates ex_cm3)).
Example apply_holding_total_prelimit :
  outside_bank_era ex_cfg 104 /\ hold_keys ex_cm3 = [602; 604] /\
  holding_wf_basic ex_cfg ex_cm3 104 (holding_window ex_pending3 104) = true /\
  bal_room ex_pending3 (holding_credit ex_cfg ex_cm3 104 ex_rates ex_rates (holding_window ex_pending3 104) + 0) /\
  match apply_holding ex_cfg ex_cm3 104 ex_pending3 ex_rates ex_rates with
  | Ok s' => get_bal (bal s') alice PTickerUSD = 80 /\ get_bal (bal s') alice PTickerPEG = 8
  | _ => False
  end.
Proof.
  split; [right; vm_compute; split; reflexivity|]. split; [vm_compute; reflexivity|]. split; [vm_compute; reflexivity|].
  split; [apply bal_roomb_spec; vm_compute; reflexivity|]. vm_compute. split; reflexivity.
Qed.

Example holding_then_block_total_instance :
  exists s1 s2, apply_holding ex_cfg ex_cm 407 ex_pending ex_rates ex_rates = Ok s1 /\
                apply_tx_block ex_cfg 407 s1 ex_block_entries = Ok s2 /\ hist_closed s2 /\ bal_room s2 0.
Proof.
  destruct apply_holding_total_hyps as (H1 & H2 & H3 & _ & _ & H6 & _ & _).
  assert (Hc : hist_closed ex_pending) by (apply hist_closedb_spec; vm_compute; reflexivity).
  assert (Hw : holding_wf ex_cfg ex_cm 407 (holding_window ex_pending 407) = true) by (apply holding_wf_basic_outside; assumption).
  assert (Hb : bank_row_ready ex_cfg 407 ex_pending) by (intros E; vm_compute in E; discriminate E).
  assert (He : Forall (fun e => entry_wf ex_cfg 407 e = true) ex_block_entries) by (repeat constructor).
  assert (Hr : bal_room ex_pending (holding_credit ex_cfg ex_cm 407 ex_rates ex_rates (holding_window ex_pending 407) + block_credit ex_cfg 407 ex_block_entries))
    by (apply bal_roomb_spec; vm_compute; reflexivity).
  exact (holding_then_block_total ex_cfg 407 ex_rates ex_rates ex_cm ex_pending ex_block_entries H2 H3 H3 Hc Hw Hb He Hr).
Qed.

(* inside the bank era (V4 <= 350 < 2.0): held batches without a PEG request are applied, the bank row of the
   block (written by sync_block before) is updated with "nothing requested" *)
Definition ex_cm350 : db :=
  match apply_tx_block ex_cfg 349 ex_state [ex_conversion 810 8; ex_conversion 811 1000] with Ok s1 => s1 | _ => empty_db end.
Definition ex_pending350 : db :=
  match insert_bank (set_rates ex_cm350 (<[350 := ex_rates]> (rates ex_cm350))) 350 BankBaseAmount with Ok s1 => s1 | _ => empty_db end.
Example apply_holding_total_bank_era :
  in_bank_era ex_cfg 350 = true /\ hold_keys ex_cm350 = [602; 810; 811] /\
  holding_wf ex_cfg ex_cm350 350 (holding_window ex_pending350 350) = true /\ bank_row_ready ex_cfg 350 ex_pending350 /\
  bal_room ex_pending350 (holding_credit ex_cfg ex_cm350 350 ex_rates ex_rates (holding_window ex_pending350 350) + 0) /\
  exists s', apply_holding ex_cfg ex_cm350 350 ex_pending350 ex_rates ex_rates = Ok s' /\ keys s' = keys ex_pending350 /\ bal_room s' 0.
Proof.
  assert (Hw : holding_wf ex_cfg ex_cm350 350 (holding_window ex_pending350 350) = true) by (vm_compute; reflexivity).
  assert (Hb : bank_row_ready ex_cfg 350 ex_pending350) by (intros _; vm_compute; discriminate).
  assert (Hr : bal_room ex_pending350 (holding_credit ex_cfg ex_cm350 350 ex_rates ex_rates (holding_window ex_pending350 350) + 0))
    by (apply bal_roomb_spec; vm_compute; reflexivity).
  split; [vm_compute; reflexivity|]. split; [vm_compute; reflexivity|]. split; [exact Hw|]. split; [exact Hb|]. split; [exact Hr|].
  assert (Hne : is_empty_map ex_rates = false) by (vm_compute; reflexivity).
  assert (Hrn : rates_nonneg ex_rates) by (apply rates_nonnegb_spec; vm_compute; reflexivity).
  exact (apply_holding_total ex_cfg 350 ex_rates ex_rates Hne Hrn Hrn ex_cm350 ex_pending350 0 Hw Hb (Z.le_refl 0) Hr).
Qed.

(* the exact exception (the recorded finding): a bank-era batch that mixes a PEG request with spends of PEG.
   bob holds 5 PEG and 30 pFCT: 4 pFCT -> PEG (deferred to the bank, but credited 8 PEG by the simulation), then
   5 PEG to alice twice: each passes the per-transaction check, the simulation says 5 + 8 - 5 - 5 >= 0,
   recordBatch runs out of PEG at the third transaction *)
Definition ex_mixed : entry :=
  {| e_hash := 812; e_ts := 2000;
     e_batch := Some [{| tx_addr := bob; tx_type := PTickerFCT; tx_amt := 4; tx_transfers := []; tx_conv := PTickerPEG |};
                      {| tx_addr := bob; tx_type := PTickerPEG; tx_amt := 5; tx_transfers := [{| tr_addr := alice; tr_amt := 5 |}]; tx_conv := 0 |};
                      {| tx_addr := bob; tx_type := PTickerPEG; tx_amt := 5; tx_transfers := [{| tr_addr := alice; tr_amt := 5 |}]; tx_conv := 0 |}];
     e_rcde := false |}.
Definition ex_cm350m : db :=
  match apply_tx_block ex_cfg 349 ex_state [ex_mixed] with Ok s1 => s1 | _ => empty_db end.
Definition ex_pending350m : db :=
  match insert_bank (set_rates ex_cm350m (<[350 := ex_rates]> (rates ex_cm350m))) 350 BankBaseAmount with Ok s1 => s1 | _ => empty_db end.
Example bank_era_mixed_batch_fails :
  hold_keys ex_cm350m = [602; 812] /\
  holding_wf ex_cfg ex_cm350m 350 (holding_window ex_pending350m 350) = false /\
  apply_holding ex_cfg ex_cm350m 350 ex_pending350m ex_rates ex_rates = Fail E_UNCAUGHT.
Proof. vm_compute. repeat split; reflexivity. Qed.

(* ---- each hypothesis is necessary in the model: the exact exceptions ------------------------------------------------ *)
Definition one_tx (hs : hash) (a : addr) (ty amt : Z) (trs : list transfer) : entry :=
  {| e_hash := hs; e_ts := 0; e_batch := Some [{| tx_addr := a; tx_type := ty; tx_amt := amt; tx_transfers := trs; tx_conv := 0 |}];
     e_rcde := false |}.

(* entry_wf, ticker part: a zero-amount transaction on "ticker 0" reaches AddToBalance with no column
   (fat2's Transaction.Validate refuses such a ticker: Model/Codec.v tx_validate) *)
Example no_ticker_fails :
  entry_wf ex_cfg 105 (one_tx 900 alice 0 0 [{| tr_addr := bob; tr_amt := 0 |}]) = false /\
  apply_entry ex_cfg 105 ex_state 0 (one_tx 900 alice 0 0 [{| tr_addr := bob; tr_amt := 0 |}]) = Fail E_BADCOLUMN.
Proof. vm_compute. split; reflexivity. Qed.

(* entry_wf, signer part: if the burn address could sign.  It holds 10 pFCT (credited before 2.0.2, or a
   miner's payout address), spends them, is "credited" 10 by alice — which recordBatch skips but the
   simulation counts — and spends them again: "uncaught: insufficient balance", the block fails for ever.
   Needs a signature of the burn address: not realisable. *)
Definition ex_burn_state : db := set_bal ex_state (<[(GlobalBurnAddress, PTickerFCT) := 10]> (bal ex_state)).
Definition ex_burn_batch : entry :=
  {| e_hash := 901; e_ts := 0;
     e_batch := Some [{| tx_addr := GlobalBurnAddress; tx_type := PTickerFCT; tx_amt := 10; tx_transfers := [{| tr_addr := bob; tr_amt := 10 |}]; tx_conv := 0 |};
                      {| tx_addr := alice; tx_type := PTickerFCT; tx_amt := 10; tx_transfers := [{| tr_addr := GlobalBurnAddress; tr_amt := 10 |}]; tx_conv := 0 |};
                      {| tx_addr := GlobalBurnAddress; tx_type := PTickerFCT; tx_amt := 10; tx_transfers := [{| tr_addr := bob; tr_amt := 10 |}]; tx_conv := 0 |}];
     e_rcde := false |}.
Example burn_signer_fails :
  hist_closedb ex_burn_state = true /\ bal_roomb ex_burn_state 30 = true /\ entry_wf ex_cfg 601 ex_burn_batch = false /\
  apply_entry ex_cfg 601 ex_burn_state 0 ex_burn_batch = Fail E_UNCAUGHT.
Proof. vm_compute. repeat split; reflexivity. Qed.

(* bal_room: a cell at max_int64 that is credited 1; a transfer amount with the high bit set *)
Definition ex_full_state : db := set_bal ex_state (<[(bob, PTickerFCT) := max_int64]> (bal ex_state)).
Example full_cell_fails :
  bal_roomb ex_full_state 0 = true /\ bal_roomb ex_full_state 1 = false /\
  apply_entry ex_cfg 105 ex_full_state 0 (ex_transfer 902 1) = Fail E_OVERFLOW_CELL.
Proof. vm_compute. repeat split; reflexivity. Qed.
(* (since entry_valid_at also asks that the outputs add up to the input and that the input fits int64, as
   fat2's Validate does, such an entry no longer validates and is skipped) *)
Example huge_transfer_is_skipped :
  apply_entry ex_cfg 105 ex_state 0 (one_tx 903 alice PTickerFCT 0 [{| tr_addr := bob; tr_amt := two63 |}]) = Ok ex_state.
Proof. vm_compute. reflexivity. Qed.

(* hist_closed: a transaction row, or a held batch, whose hash has no batch row *)
Definition ex_orphan_row : db :=
  set_htxs ex_state (htxs ex_state ++ [{| ht_hash := 904; ht_index := 0; ht_action := 1; ht_from := alice; ht_from_asset := 2;
     ht_from_amount := 0; ht_to_asset := 0; ht_to_amount := 0; ht_outputs := [] |}]) (lookups ex_state).
Example orphan_row_fails :
  hist_closedb ex_orphan_row = false /\ apply_entry ex_cfg 105 ex_orphan_row 0 (ex_transfer 904 1) = Fail E_UNIQUE_HIST.
Proof. vm_compute. split; reflexivity. Qed.
Definition ex_orphan_held : db :=
  set_holding ex_state (holding ex_state ++ [{| h_entry := ex_conversion 905 1; h_height := 104 |}]).
Example orphan_held_fails :
  hist_closedb ex_orphan_held = false /\ apply_entry ex_cfg 105 ex_orphan_held 0 (ex_conversion 905 1) = Fail E_UNIQUE_HOLDING.
Proof. vm_compute. split; reflexivity. Qed.

(* L4: without rates the first loop fails the block ("rates must exist ...") *)
Example no_rates_fails :
  apply_holding ex_cfg ex_cm 407 ex_pending ∅ ∅ = Fail E_NORATES.
Proof. vm_compute. reflexivity. Qed.

Print Assumptions insert_history_total.
Print Assumptions insert_holding_total.
Print Assumptions apply_entry_total.
Print Assumptions apply_tx_block_total.
Print Assumptions apply_holding_total.
Print Assumptions holding_then_block_total.
