(* Lemmas/ExtIDsLemmas.v — proofs about valid_extids (fat103.Validate / factom.ValidateRCD), C05. *)
From Coq Require Import ZArith List Bool Lia.
From Model Require Import Codec Db.
From Lemmas Require Import CodecLemmas.
Import ListNotations.
Open Scope list_scope.
Open Scope Z_scope.

(* ---- the timestamp salt as strconv.ParseInt accepts it ------------------------ *)
Definition salt_syntax (s : bytes) : Prop :=
  exists sg d, s = sg ++ d /\ (sg = [] \/ sg = [43] \/ sg = [45]) /\ d <> [] /\ all_digits d = true.

Lemma parse_int64_syntax s v : parse_int64 s = Some v -> salt_syntax s.
Proof.
  unfold parse_int64, salt_syntax.
  destruct s as [|c r]; [discriminate|].
  destruct (c =? 45) eqn:E45; cbv beta iota.
  - apply Z.eqb_eq in E45. subst c.
    destruct r as [|c' r']; [discriminate|]. destruct (all_digits (c' :: r')) eqn:D; [|discriminate].
    destruct (_ && _); [|discriminate]. intros _. exists [45], (c' :: r'). repeat split; auto; try discriminate.
  - destruct (c =? 43) eqn:E43; cbv beta iota.
    + apply Z.eqb_eq in E43. subst c.
      destruct r as [|c' r']; [discriminate|]. destruct (all_digits (c' :: r')) eqn:D; [|discriminate].
      destruct (_ && _); [|discriminate]. intros _. exists [43], (c' :: r'). repeat split; auto; try discriminate.
    + destruct (all_digits (c :: r)) eqn:D; [|discriminate].
      destruct (_ && _); [|discriminate]. intros _. exists [], (c :: r). repeat split; auto; try discriminate.
Qed.

(* digits followed by something that does not start with a digit split in one way only *)
Lemma digits_split_unique d : forall d' x x',
  all_digits d = true -> all_digits d' = true ->
  (forall c r, x = c :: r -> is_digit c = false) -> x <> [] ->
  (forall c r, x' = c :: r -> is_digit c = false) -> x' <> [] ->
  d ++ x = d' ++ x' -> d = d' /\ x = x'.
Proof.
  induction d as [|c d IH]; intros d' x x' D D' Hx Nx Hx' Nx' E.
  - destruct d' as [|c' d']; [split; [reflexivity|exact E]|].
    cbn [app] in E. exfalso. cbn [all_digits forallb] in D'. apply andb_true_iff in D' as [Dc _].
    destruct x as [|cx rx]; [congruence|]. injection E as -> _. rewrite (Hx _ _ eq_refl) in Dc. discriminate.
  - destruct d' as [|c' d'].
    + cbn [app] in E. exfalso. cbn [all_digits forallb] in D. apply andb_true_iff in D as [Dc _].
      destruct x' as [|cx rx]; [congruence|]. injection E as <- _. rewrite (Hx' _ _ eq_refl) in Dc. discriminate.
    + cbn [app] in E. injection E as <- E.
      cbn [all_digits forallb] in D, D'. apply andb_true_iff in D as [_ D]. apply andb_true_iff in D' as [_ D'].
      destruct (IH d' x x' D D' Hx Nx Hx' Nx' E) as [E1 E2]. subst. split; reflexivity.
Qed.

Lemma app_same_length (a : bytes) : forall a' b b', length a = length a' -> a ++ b = a' ++ b' -> a = a' /\ b = b'.
Proof.
  induction a as [|x a IH]; intros [|x' a'] b b' L E; cbn [length] in L; try lia.
  - split; [reflexivity|exact E].
  - cbn [app] in E. injection E as Ex E. subst x'. destruct (IH a' b b' ltac:(lia) E) as [E1 E2]. subst. split; reflexivity.
Qed.

Lemma sign_not_digit sg : sg = [] \/ sg = [43] \/ sg = [45] -> forall c r, sg = c :: r -> is_digit c = false /\ r = [].
Proof. intros [H|[H|H]] c r E; subst sg; try discriminate; injection E as E1 E2; subst; split; reflexivity. Qed.

(* The signed message of pair 0 (the only pair of a batch that passed ValidData) is
   0 | salt | chain id | content.  With chain ids of 32 bytes whose first byte is not a digit
   (true of the transaction chain: Gen.Consts.TransactionChainFirstByte), it determines the
   salt, the chain id and the content. *)
Theorem message_injective salt chain content salt' chain' content' :
  salt_syntax salt -> salt_syntax salt' ->
  length chain = 32%nat -> length chain' = 32%nat ->
  (forall c r, chain = c :: r -> is_digit c = false) ->
  (forall c r, chain' = c :: r -> is_digit c = false) ->
  [48] ++ salt ++ chain ++ content = [48] ++ salt' ++ chain' ++ content' ->
  salt = salt' /\ chain = chain' /\ content = content'.
Proof.
  intros (sg & d & -> & Hsg & Nd & D) (sg' & d' & -> & Hsg' & Nd' & D') L L' H H' E.
  cbn [app] in E. injection E as E. rewrite <- !app_assoc in E.
  assert (Hx : forall c r, chain ++ content = c :: r -> is_digit c = false).
  { intros c r Ex. destruct chain as [|c0 r0]; [discriminate|]. injection Ex as <- _. apply (H _ _ eq_refl). }
  assert (Hx' : forall c r, chain' ++ content' = c :: r -> is_digit c = false).
  { intros c r Ex. destruct chain' as [|c0 r0]; [discriminate|]. injection Ex as <- _. apply (H' _ _ eq_refl). }
  assert (Nx : chain ++ content <> []) by (destruct chain; [discriminate|discriminate]).
  assert (Nx' : chain' ++ content' <> []) by (destruct chain'; [discriminate|discriminate]).
  assert (Esg : sg = sg' /\ d ++ chain ++ content = d' ++ chain' ++ content').
  { destruct d as [|cd rd]; [congruence|]. destruct d' as [|cd' rd']; [congruence|].
    cbn [all_digits forallb] in D, D'.
    apply andb_true_iff in D as [Dc D]. apply andb_true_iff in D' as [Dc' D'].
    destruct sg as [|s1 sr]; destruct sg' as [|s1' sr'].
    - split; [reflexivity|exact E].
    - exfalso. destruct (sign_not_digit _ Hsg' _ _ eq_refl) as [Nd1 _].
      cbn [app] in E. injection E as <- _. congruence.
    - exfalso. destruct (sign_not_digit _ Hsg _ _ eq_refl) as [Nd1 _].
      cbn [app] in E. injection E as -> _. congruence.
    - destruct (sign_not_digit _ Hsg _ _ eq_refl) as [_ Es1].
      destruct (sign_not_digit _ Hsg' _ _ eq_refl) as [_ Es2]. subst sr sr'.
      cbn [app] in E. injection E as Es E E'. subst. split; [reflexivity|cbn [app]; rewrite E'; reflexivity]. }
  destruct Esg as [Esg E2]. subst sg'.
  destruct (digits_split_unique d d' _ _ D D' Hx Nx Hx' Nx' E2) as [E2' E3]. subst d'.
  split; [reflexivity|].
  assert (E4 : chain = chain' /\ content = content') by (apply app_same_length; [congruence|exact E3]).
  exact E4.
Qed.

Section ExtIDsFacts.
  Variable sig_ok : Z -> bytes -> bytes -> bytes -> bool.
  Variable rcd_hash : bytes -> Z.
  Variable act : Z.

  Notation valid_extids := (valid_extids sig_ok rcd_hash act).
  Notation validate_rcd := (validate_rcd sig_ok rcd_hash act).

  Lemma dedup_all_same a l : l <> [] -> Forall (fun x => x = a) l -> dedup l = [a].
  Proof.
    induction l as [|x l IH]; [congruence|]. intros _ F. inversion F as [|? ? -> F']; subst.
    cbn [dedup]. destruct l as [|y l'].
    - reflexivity.
    - assert (N : y :: l' <> []) by discriminate. specialize (IH N F').
      inversion F' as [|? ? -> _]; subst. cbn [existsb]. rewrite Z.eqb_refl. cbn [orb]. exact IH.
  Qed.

  (* what an accepted RCD/signature pair is *)
  Lemma validate_rcd_spec h rcd sig msg hh : validate_rcd h rcd sig msg = Some hh ->
    hh = rcd_hash rcd /\
    ( (exists pk, rcd = 1 :: pk /\ length pk = 32%nat /\ length sig = 64%nat /\ sig_ok 1 pk msg sig = true)
      \/ (exists pk, rcd = 14 :: pk /\ rcde_enabled act h = true /\ length pk = 64%nat /\
                     length sig = 65%nat /\ sig_ok 14 pk msg (firstn 64 sig) = true) ).
  Proof.
    unfold Codec.validate_rcd. destruct rcd as [|ty pk]; [discriminate|].
    destruct (Z.eqb_spec ty 1) as [->|N1].
    - cbn [rcd1_enabled negb]. destruct (Nat.eqb_spec (length (1 :: pk)) 33) as [L|]; [|discriminate].
      destruct (Nat.eqb_spec (length sig) 64) as [L2|]; [|discriminate]. cbn [negb].
      destruct (sig_ok 1 pk msg sig) eqn:S; [|discriminate]. intros [= <-]. split; [reflexivity|].
      left. exists pk. cbn [length] in L. repeat split; auto; lia.
    - destruct (Z.eqb_spec ty 14) as [->|N14]; [|discriminate].
      destruct (rcde_enabled act h) eqn:En; [|discriminate]. cbn [negb].
      destruct (Nat.eqb_spec (length (14 :: pk)) 65) as [L|]; [|discriminate].
      destruct (Nat.eqb_spec (length sig) 65) as [L2|]; [|discriminate]. cbn [negb].
      destruct (sig_ok 14 pk msg (firstn 64 sig)) eqn:S; [|discriminate]. intros [= <-]. split; [reflexivity|].
      right. exists pk. cbn [length] in L. repeat split; auto; lia.
  Qed.

  (* the accepted shape for a batch with the single input address a (what ValidData leaves) *)
  Theorem valid_extids_single_spec h inputs a e :
    inputs <> [] -> Forall (fun x => x = a) inputs ->
    valid_extids h inputs e = true ->
    exists salt rcd sig sec,
      re_extids e = [salt; rcd; sig] /\
      parse_int64 salt = Some sec /\ - salt_window <= re_ts e - sec <= salt_window /\
      rcd_hash rcd = a /\
      ( (exists pk, rcd = 1 :: pk /\ length pk = 32%nat /\ length sig = 64%nat /\
                    sig_ok 1 pk (signed_message 0 e) sig = true)
        \/ (exists pk, rcd = 14 :: pk /\ rcde_enabled act h = true /\ length pk = 64%nat /\
                       length sig = 65%nat /\ sig_ok 14 pk (signed_message 0 e) (firstn 64 sig) = true) ).
  Proof.
    intros N F. unfold Codec.valid_extids. rewrite (dedup_all_same a inputs N F).
    destruct (Nat.eqb_spec (length (re_extids e)) (2 * length [a] + 1)) as [L|]; [|discriminate].
    cbn [negb length] in *. destruct (re_extids e) as [|salt [|rcd [|sig [|x r]]]] eqn:Ex; cbn [length] in L; try lia.
    destruct (parse_int64 salt) as [sec|] eqn:P; [|discriminate].
    destruct (Z.ltb_spec (re_ts e - sec) (- salt_window)) as [|W1]; [discriminate|].
    destruct (Z.ltb_spec salt_window (re_ts e - sec)) as [|W2]; [discriminate|]. cbn [orb].
    cbn [validate_pairs].
    destruct (validate_rcd h rcd sig (signed_message 0 e)) as [hh|] eqn:V; [|discriminate].
    destruct (validate_rcd_spec _ _ _ _ _ V) as [Ehh Hsh]. subst hh.
    cbn [remove_first]. destruct (Z.eqb_spec (rcd_hash rcd) a) as [Eh|]; [|discriminate].
    intros _. exists salt, rcd, sig, sec. repeat split; auto; lia.
  Qed.

  (* each structural failure class is rejected *)
  Theorem invalid_extids_rejected h inputs a e :
    inputs <> [] -> Forall (fun x => x = a) inputs ->
    ( length (re_extids e) <> 3%nat
      \/ (forall salt, nth_error (re_extids e) 0 = Some salt -> parse_int64 salt = None)
      \/ (exists salt sec, nth_error (re_extids e) 0 = Some salt /\ parse_int64 salt = Some sec /\
                           salt_window < Z.abs (re_ts e - sec))
      \/ (exists rcd, nth_error (re_extids e) 1 = Some rcd /\
                      (rcd = [] \/ (exists ty pk, rcd = ty :: pk /\ ty <> 1 /\ ty <> 14)
                       \/ (exists pk, rcd = 1 :: pk /\ length pk <> 32%nat)
                       \/ (exists pk, rcd = 14 :: pk /\ (length pk <> 64%nat \/ rcde_enabled act h = false))
                       \/ rcd_hash rcd <> a))
      \/ (exists rcd sig, nth_error (re_extids e) 1 = Some rcd /\ nth_error (re_extids e) 2 = Some sig /\
                          ( (exists pk, rcd = 1 :: pk /\ (length sig <> 64%nat \/ sig_ok 1 pk (signed_message 0 e) sig = false))
                            \/ (exists pk, rcd = 14 :: pk /\ (length sig <> 65%nat \/
                                  sig_ok 14 pk (signed_message 0 e) (firstn 64 sig) = false)))) ) ->
    valid_extids h inputs e = false.
  Proof.
    intros N F Bad. destruct (valid_extids h inputs e) eqn:V; [|reflexivity]. exfalso.
    destruct (valid_extids_single_spec h inputs a e N F V) as (salt & rcd & sig & sec & Ex & P & W & Hh & Sh).
    rewrite Ex in Bad. cbn [length nth_error] in Bad.
    destruct Bad as [B|[B|[B|[B|B]]]].
    - congruence.
    - specialize (B salt eq_refl). congruence.
    - destruct B as (s & sec' & [= <-] & P' & W'). rewrite P in P'. injection P' as <-. lia.
    - destruct B as (r & [= <-] & [B|[B|[B|[B|B]]]]).
      + subst rcd. destruct Sh as [(pk & E & _)|(pk & E & _)]; discriminate.
      + destruct B as (ty & pk & -> & N1 & N14). destruct Sh as [(pk' & E & _)|(pk' & E & _)]; injection E; congruence.
      + destruct B as (pk & -> & NL). destruct Sh as [(pk' & E & L & _)|(pk' & E & _)]; [injection E as <-; congruence|discriminate].
      + destruct B as (pk & -> & NL). destruct Sh as [(pk' & E & _)|(pk' & E & En & L & _)]; [discriminate|].
        injection E as <-. destruct NL; congruence.
      + congruence.
    - destruct B as (r & g & [= <-] & [= <-] & [(pk & -> & B)|(pk & -> & B)]).
      + destruct Sh as [(pk' & E & _ & L & S)|(pk' & E & _)]; [|discriminate]. injection E as <-. destruct B; congruence.
      + destruct Sh as [(pk' & E & _)|(pk' & E & _ & _ & L & S)]; [discriminate|]. injection E as <-. destruct B; congruence.
  Qed.

  (* the salt window: accepted => |entry timestamp - salt| <= 12 h, both ends included *)
  Theorem salt_window_accepted h inputs a e :
    inputs <> [] -> Forall (fun x => x = a) inputs -> valid_extids h inputs e = true ->
    exists salt sec, nth_error (re_extids e) 0 = Some salt /\ parse_int64 salt = Some sec /\
                     Z.abs (re_ts e - sec) <= 43200.
  Proof.
    intros N F V.
    destruct (valid_extids_single_spec h inputs a e N F V) as (salt & rcd & sig & sec & Ex & P & W & _).
    exists salt, sec. rewrite Ex. unfold salt_window in W. repeat split; auto. lia.
  Qed.

  (* RCD-e is not accepted at heights 0..activation (it is above it, and at negative heights) *)
  Theorem rcde_not_before_activation h inputs a e :
    inputs <> [] -> Forall (fun x => x = a) inputs ->
    0 <= h <= act -> valid_extids h inputs e = true ->
    exists salt pk sig, re_extids e = [salt; 1 :: pk; sig].
  Proof.
    intros N F Hh V.
    destruct (valid_extids_single_spec h inputs a e N F V) as (salt & rcd & sig & sec & Ex & _ & _ & _ & Sh).
    destruct Sh as [(pk & -> & _)|(pk & -> & En & _)]; [exists salt, pk, sig; exact Ex|].
    unfold rcde_enabled in En. apply orb_true_iff in En as [En|En]; apply Z.ltb_lt in En; lia.
  Qed.

  (* for RCD-1 the verified triple (public key, message, signature) determines every byte of
     the ExtIDs, the chain id and the content *)
  Theorem rcd1_triple_determines_entry h inputs a e e' pk sig :
    inputs <> [] -> Forall (fun x => x = a) inputs ->
    valid_extids h inputs e = true -> valid_extids h inputs e' = true ->
    nth_error (re_extids e) 1 = Some (1 :: pk) -> nth_error (re_extids e') 1 = Some (1 :: pk) ->
    nth_error (re_extids e) 2 = Some sig -> nth_error (re_extids e') 2 = Some sig ->
    signed_message 0 e = signed_message 0 e' ->
    length (re_chain e) = 32%nat -> length (re_chain e') = 32%nat ->
    (forall c r, re_chain e = c :: r -> is_digit c = false) ->
    (forall c r, re_chain e' = c :: r -> is_digit c = false) ->
    re_extids e = re_extids e' /\ re_chain e = re_chain e' /\ re_content e = re_content e'.
  Proof.
    intros N F V V' R R' S S' M L L' C C'.
    destruct (valid_extids_single_spec h inputs a e N F V) as (salt & rcd & sg & sec & Ex & P & _).
    destruct (valid_extids_single_spec h inputs a e' N F V') as (salt' & rcd' & sg' & sec' & Ex' & P' & _).
    rewrite Ex in R, S. rewrite Ex' in R', S'. cbn [nth_error] in *.
    injection R as ->. injection R' as ->. injection S as ->. injection S' as ->.
    unfold signed_message in M. rewrite Ex, Ex' in M. cbn [nth] in M.
    change (dec_of_index 0) with [48] in M.
    destruct (message_injective _ _ _ _ _ _ (parse_int64_syntax _ _ P) (parse_int64_syntax _ _ P') L L' C C' M)
      as (Es & Ec & Ect). subst salt'.
    rewrite Ex, Ex'. repeat split; auto.
  Qed.
End ExtIDsFacts.
