(* Lemmas/HistoryLemmas.v — C17 (second sentence) and the block-level form of C04: the history
   tables written by the ledger functions account exactly for the balance changes they make.

   Part 1 (T1): transaction batches — record_txs / record_batch / apply_batch, and the two callers
   apply_entry (a transfer-only batch applied in the block it arrives in) and apply_held (a held
   batch executed by a rated block).
   Part 2 (T2): the coinbase-style writers — pay_winners, apply_factoid_block, developers_payouts,
   snapshot_payouts.
   Part 3 (towards T3): preservation lemmas for the chain-level accounting predicate. *)
From Model Require Import Block Examples.
From Lemmas Require Import ArithLemmas DbLemmas LedgerLemmas BlockLemmas RewardLemmas StatusLemmas.
From Gen Require Import Consts.
From Coq Require Import Lia ZifyBool.
Open Scope Z_scope.
Open Scope list_scope.

(* ---- what a history row stands for ------------------------------------------------------------ *)
Definition cell := (addr * ticker)%type.

(* the balance deltas an EXECUTED pn_history_transaction row stands for.  [burn] is the burn address
   in force at the height the batch was executed at (Ledger.burn_addr).
     1 transfer   : -from_amount on (from, from_asset); +amount on (output, from_asset) for every
                    output whose address is not the burn address
     2 conversion : -from_amount on (from, from_asset); +to_amount on (from, to_asset); and + every
                    recorded output on (output, from_asset) — the refund of a bank-era PEG request
                    (set_peg_request_amounts); the rows written by insert_history have no outputs
     3 coinbase, 4 burn : +to_amount on (from, to_asset)
   This is the row-by-row meaning used by the oracle Corr.Chain.history_balances. *)
Definition row_effect (burn : addr) (r : htx) : list (cell * Z) :=
  if ht_action r =? 1 then
    ((ht_from r, ht_from_asset r), - ht_from_amount r)
    :: map (fun o => ((fst o, ht_from_asset r), snd o)) (filter (fun o => negb (fst o =? burn)) (ht_outputs r))
  else if ht_action r =? 2 then
    ((ht_from r, ht_from_asset r), - ht_from_amount r)
    :: ((ht_from r, ht_to_asset r), ht_to_amount r)
    :: map (fun o => ((fst o, ht_from_asset r), snd o)) (ht_outputs r)
  else [((ht_from r, ht_to_asset r), ht_to_amount r)].

(* the part of a list of deltas that lands on cell (a, t) *)
Definition effect_on (a : addr) (t : ticker) (l : list (cell * Z)) : Z :=
  fold_right (fun e acc => (if (fst (fst e) =? a) && (snd (fst e) =? t) then snd e else 0) + acc) 0 l.

(* ... summed over rows *)
Definition rows_effect (burn : addr) (a : addr) (t : ticker) (rows : list htx) : Z :=
  fold_right (fun r acc => effect_on a t (row_effect burn r) + acc) 0 rows.

(* the rows of one entry hash / of all other hashes, in table order *)
Definition rows_of (hs : hash) (l : list htx) : list htx := filter (fun r => ht_hash r =? hs) l.
Definition rows_not (hs : hash) (l : list htx) : list htx := filter (fun r => negb (ht_hash r =? hs)) l.

(* UPDATE pn_history_txbatch SET executed = code WHERE entry_hash = hs, on the list *)
Definition mark_exec (hs : hash) (code : Z) (l : list hbatch) : list hbatch :=
  map (fun r => if hb_hash r =? hs
                then {| hb_hash := hb_hash r; hb_height := hb_height r; hb_order := hb_order r;
                        hb_ts := hb_ts r; hb_exec := code |}
                else r) l.

Lemma hist_set_executed s hs code : hist (set_executed s hs code) = mark_exec hs code (hist s).
Proof. reflexivity. Qed.
Lemma htxs_set_executed s hs code : htxs (set_executed s hs code) = htxs s.
Proof. reflexivity. Qed.

Lemma mark_exec_idem hs code code' l : mark_exec hs code (mark_exec hs code' l) = mark_exec hs code l.
Proof.
  unfold mark_exec. rewrite map_map. apply map_ext. intros r.
  destruct (hb_hash r =? hs) eqn:E; cbn [hb_hash]; rewrite E; reflexivity.
Qed.

Lemma mark_exec_hashes hs code l : map hb_hash (mark_exec hs code l) = map hb_hash l.
Proof. unfold mark_exec. rewrite map_map. apply map_ext. intros r. destruct (hb_hash r =? hs); reflexivity. Qed.

Lemma status_mark_exec hs code l :
  map hb_exec (filter (fun r => hb_hash r =? hs) (mark_exec hs code l)) =
  map (fun _ => code) (filter (fun r => hb_hash r =? hs) l).
Proof.
  induction l as [|r l IH]; [reflexivity|]. cbn [mark_exec map filter].
  destruct (hb_hash r =? hs) eqn:E; cbn [hb_hash]; rewrite E; cbn [map hb_exec]; [f_equal|]; exact IH.
Qed.

(* ---- sums ---------------------------------------------------------------------------------------- *)
Lemma effect_on_cons a t e l :
  effect_on a t (e :: l) = (if (fst (fst e) =? a) && (snd (fst e) =? t) then snd e else 0) + effect_on a t l.
Proof. reflexivity. Qed.
Lemma effect_on_nil a t : effect_on a t [] = 0.
Proof. reflexivity. Qed.
Lemma effect_on_app a t l1 l2 : effect_on a t (l1 ++ l2) = effect_on a t l1 + effect_on a t l2.
Proof. induction l1 as [|e l1 IH]; [reflexivity|]. rewrite <- app_comm_cons, !effect_on_cons, IH. lia. Qed.

Lemma rows_effect_cons burn a t r l :
  rows_effect burn a t (r :: l) = effect_on a t (row_effect burn r) + rows_effect burn a t l.
Proof. reflexivity. Qed.
Lemma rows_effect_nil burn a t : rows_effect burn a t [] = 0.
Proof. reflexivity. Qed.
Lemma rows_effect_app burn a t l1 l2 :
  rows_effect burn a t (l1 ++ l2) = rows_effect burn a t l1 + rows_effect burn a t l2.
Proof. induction l1 as [|e l1 IH]; [reflexivity|]. rewrite <- app_comm_cons, !rows_effect_cons, IH. lia. Qed.

(* a sum over the table splits into the rows of one hash and the others *)
Lemma rows_effect_split burn a t hs l :
  rows_effect burn a t l = rows_effect burn a t (rows_of hs l) + rows_effect burn a t (rows_not hs l).
Proof.
  induction l as [|r l IH]; [reflexivity|]. unfold rows_of, rows_not in *. cbn [filter].
  destruct (ht_hash r =? hs); cbn [negb]; rewrite !rows_effect_cons, IH; lia.
Qed.

Lemma rows_of_app hs l1 l2 : rows_of hs (l1 ++ l2) = rows_of hs l1 ++ rows_of hs l2.
Proof. unfold rows_of. apply filter_app. Qed.
Lemma rows_not_app hs l1 l2 : rows_not hs (l1 ++ l2) = rows_not hs l1 ++ rows_not hs l2.
Proof. unfold rows_not. apply filter_app. Qed.

(* ---- balance getters under the two balance operations --------------------------------------------- *)
Lemma get_bal_sub s a t v s' a' t' :
  sub_from_balance s a t v = SubOk s' ->
  get_bal (bal s') a' t' = get_bal (bal s) a' t' - (if (a =? a') && (t =? t') then v else 0).
Proof.
  intros H. apply sub_from_balance_ok in H as (_ & _ & _ & ->). cbn. rewrite get_bal_insert.
  destruct (decide ((a, t) = (a', t'))) as [E|N].
  - inversion E; subst. rewrite !Z.eqb_refl. cbn. lia.
  - destruct (Z.eqb_spec a a'), (Z.eqb_spec t t'); cbn; try lia. subst. contradiction.
Qed.

Lemma add_to_balance_tables s a t v s' :
  add_to_balance s a t v = Ok s' -> htxs s' = htxs s /\ hist s' = hist s /\ rel s' = rel s /\ holding s' = holding s.
Proof. intros H. apply add_to_balance_ok in H as (_ & _ & ->). auto. Qed.
Lemma sub_from_balance_tables s a t v s' :
  sub_from_balance s a t v = SubOk s' -> htxs s' = htxs s /\ hist s' = hist s /\ rel s' = rel s /\ holding s' = holding s.
Proof. intros H. apply sub_from_balance_ok in H as (_ & _ & _ & ->). auto. Qed.

Lemma htxs_insert_relation s a hs i t cv : htxs (insert_relation s a hs i t cv) = htxs s.
Proof. unfold insert_relation. destruct (existsb _ _); reflexivity. Qed.
Lemma hist_insert_relation s a hs i t cv : hist (insert_relation s a hs i t cv) = hist s.
Proof. unfold insert_relation. destruct (existsb _ _); reflexivity. Qed.

(* ---- the rows of a batch: as inserted (pending) and as left by recordBatch (executed) ------------- *)
Definition pend_row (hs : hash) (idx : Z) (t : tx) : htx :=
  if is_conversion t
  then {| ht_hash := hs; ht_index := idx; ht_action := 2; ht_from := tx_addr t; ht_from_asset := tx_type t;
          ht_from_amount := tx_amt t; ht_to_asset := tx_conv t; ht_to_amount := 0; ht_outputs := [] |}
  else {| ht_hash := hs; ht_index := idx; ht_action := 1; ht_from := tx_addr t; ht_from_asset := tx_type t;
          ht_from_amount := tx_amt t; ht_to_asset := 0; ht_to_amount := 0;
          ht_outputs := map (fun tr => (tr_addr tr, tr_amt tr)) (tx_transfers t) |}.
Fixpoint pend_rows (hs : hash) (idx : Z) (txs : list tx) : list htx :=
  match txs with [] => [] | t :: rest => pend_row hs idx t :: pend_rows hs (idx + 1) rest end.

Lemma history_rows_of_pend hs txs : map fst (history_rows_of hs txs) = pend_rows hs 0 txs.
Proof.
  unfold history_rows_of.
  match goal with |- map fst (?g 0 txs) = _ => set (go := g) end.
  assert (G : forall l idx, map fst (go idx l) = pend_rows hs idx l).
  { induction l as [|t l IH]; intros idx; [reflexivity|].
    cbn [go map pend_rows]. fold go. rewrite IH. f_equal. unfold pend_row. destruct (is_conversion t); reflexivity. }
  apply G.
Qed.

Lemma pend_rows_hash hs txs : forall idx, Forall (fun r => ht_hash r = hs) (pend_rows hs idx txs).
Proof.
  induction txs as [|t txs IH]; intros idx; cbn [pend_rows]; constructor; [|apply IH].
  unfold pend_row. destruct (is_conversion t); reflexivity.
Qed.
Lemma pend_rows_index hs txs : forall idx, Forall (fun r => idx <= ht_index r) (pend_rows hs idx txs).
Proof.
  induction txs as [|t txs IH]; intros idx; cbn [pend_rows]; constructor.
  - unfold pend_row. destruct (is_conversion t); cbn; lia.
  - eapply Forall_impl; [|apply IH]. cbn. intros r Hr. lia.
Qed.

Section WithCfg.
Variable c : cfg.

(* the amount Convert gives for a conversion (0 when it fails: such a batch is never recorded) *)
Definition conv_out (h : Z) (rates avgs : gmap ticker Z) (t : tx) : Z :=
  match conv_of c h rates avgs t with Some out => out | None => 0 end.

Definition exec_row (h : Z) (rates avgs : gmap ticker Z) (hs : hash) (idx : Z) (t : tx) : htx :=
  if is_conversion t
  then {| ht_hash := hs; ht_index := idx; ht_action := 2; ht_from := tx_addr t; ht_from_asset := tx_type t;
          ht_from_amount := tx_amt t; ht_to_asset := tx_conv t; ht_to_amount := conv_out h rates avgs t;
          ht_outputs := [] |}
  else pend_row hs idx t.
Fixpoint exec_rows (h : Z) (rates avgs : gmap ticker Z) (hs : hash) (idx : Z) (txs : list tx) : list htx :=
  match txs with [] => [] | t :: rest => exec_row h rates avgs hs idx t :: exec_rows h rates avgs hs (idx + 1) rest end.

(* side conditions, as booleans *)
(* no transaction of the batch is a PEG request whose output is deferred to recordPegnetRequests *)
Definition no_deferred (h : Z) (txs : list tx) : bool :=
  negb ((c_PegnetConversionLimitActivation c <=? h) && existsb is_peg_request txs).
(* the converted amounts survive the cast uint64(outputAmount) *)
Definition convs_fit (h : Z) (rates avgs : gmap ticker Z) (txs : list tx) : bool :=
  forallb (fun t => negb (is_conversion t) ||
                    match conv_of c h rates avgs t with Some out => wrap64 out =? out | None => true end) txs.

(* with non-negative rates and averages (what pn_rate holds: uint64 columns) the side condition holds *)
Lemma convs_fit_nonneg_rates h rates avgs txs :
  (forall t, 0 <= rate_of rates t) -> (forall t, 0 <= rate_of avgs t) -> convs_fit h rates avgs txs = true.
Proof.
  intros Hr Ha. unfold convs_fit. apply forallb_forall. intros t _.
  destruct (is_conversion t); cbn [negb orb]; [|reflexivity].
  destruct (conv_of c h rates avgs t) as [out|] eqn:E; [|reflexivity].
  unfold conv_of, convert_h in E. apply convert_range in E; auto.
  apply Z.eqb_eq. apply wrap64_small. unfold max_int64, two64 in *. lia.
Qed.
Lemma convs_fit_no_conversions h rates avgs txs : has_conversions txs = false -> convs_fit h rates avgs txs = true.
Proof.
  unfold has_conversions, convs_fit. intros H. apply forallb_forall. intros t Hin.
  destruct (is_conversion t) eqn:E; [|reflexivity].
  exfalso. assert (existsb is_conversion txs = true) by (apply existsb_exists; eauto). congruence.
Qed.
Lemma is_peg_request_is_conversion t : is_peg_request t = true -> is_conversion t = true.
Proof.
  unfold is_peg_request, is_conversion. destruct (tx_transfers t); [|discriminate].
  intros H. apply Z.eqb_eq in H. rewrite H. reflexivity.
Qed.
Lemma no_deferred_no_conversions h txs : has_conversions txs = false -> no_deferred h txs = true.
Proof.
  unfold has_conversions, no_deferred. intros H.
  destruct (existsb is_peg_request txs) eqn:E; [|rewrite andb_false_r; reflexivity].
  exfalso. apply existsb_exists in E as (t & Hin & Ht). apply is_peg_request_is_conversion in Ht.
  assert (existsb is_conversion txs = true) by (apply existsb_exists; eauto). congruence.
Qed.

(* ---- credit_transfers ----------------------------------------------------------------------------- *)
Definition transfer_credits (burn : addr) (ty : ticker) (trs : list transfer) : list (cell * Z) :=
  map (fun o => ((fst o, ty), snd o))
      (filter (fun o => negb (fst o =? burn)) (map (fun tr => (tr_addr tr, tr_amt tr)) trs)).

Lemma credit_transfers_effect h hs idx ty trs : forall s s',
  credit_transfers c h hs idx ty trs s = Ok s' ->
  htxs s' = htxs s /\ hist s' = hist s /\
  forall a t, get_bal (bal s') a t = get_bal (bal s) a t + effect_on a t (transfer_credits (burn_addr c h) ty trs).
Proof.
  unfold credit_transfers.
  induction trs as [|tr trs IH]; intros s s' H; cbn [fold_left] in H.
  - inversion H; subst. repeat split. intros a t. cbn. lia.
  - cbn [rbind] in H. unfold transfer_credits. cbn [map filter fst].
    destruct (tr_addr tr =? burn_addr c h) eqn:Eb; cbn [negb].
    + exact (IH _ _ H).
    + destruct (add_to_balance s (tr_addr tr) ty (tr_amt tr)) as [s1|e|e] eqn:Ea; cbn [rbind] in H;
        [|exfalso; eapply fold_res_fail; exact H|exfalso; eapply fold_res_panic; exact H].
      destruct (IH _ _ H) as (E1 & E2 & E3). destruct (add_to_balance_tables _ _ _ _ _ Ea) as (T1 & T2 & _).
      rewrite htxs_insert_relation in E1. rewrite hist_insert_relation in E2.
      split; [congruence|]. split; [congruence|]. intros a t.
      rewrite E3, bal_insert_relation, (get_bal_add _ _ _ _ _ a t Ea).
      cbn [map]. rewrite effect_on_cons. cbn [fst snd]. fold (transfer_credits (burn_addr c h) ty trs). lia.
Qed.

(* ---- UPDATE ... SET to_amount on the rows of one hash --------------------------------------------- *)
Lemma rows_of_upd hs i (f : htx -> htx) l :
  (forall r, ht_hash (f r) = ht_hash r) ->
  rows_of hs (map (fun r => if (ht_hash r =? hs) && (ht_index r =? i) then f r else r) l) =
  map (fun r => if ht_index r =? i then f r else r) (rows_of hs l).
Proof.
  intros Hf. unfold rows_of. induction l as [|r l IH]; [reflexivity|]. cbn [map filter].
  destruct (ht_hash r =? hs) eqn:E; cbn [andb].
  - destruct (ht_index r =? i) eqn:Ei; [rewrite Hf|]; rewrite E; cbn [map]; rewrite Ei, IH; reflexivity.
  - rewrite E. exact IH.
Qed.
Lemma rows_not_upd hs i (f : htx -> htx) l :
  (forall r, ht_hash (f r) = ht_hash r) ->
  rows_not hs (map (fun r => if (ht_hash r =? hs) && (ht_index r =? i) then f r else r) l) = rows_not hs l.
Proof.
  intros Hf. unfold rows_not. induction l as [|r l IH]; [reflexivity|]. cbn [map filter].
  destruct (ht_hash r =? hs) eqn:E; cbn [andb negb]; [|rewrite E; cbn [negb]; rewrite IH; reflexivity].
  destruct (ht_index r =? i); [rewrite Hf|]; rewrite E; cbn [negb]; exact IH.
Qed.

Lemma map_upd_skip i (f : htx -> htx) l :
  Forall (fun r => ht_index r <> i) l -> map (fun r => if ht_index r =? i then f r else r) l = l.
Proof.
  induction 1 as [|r l Hr _ IH]; [reflexivity|]. cbn [map]. rewrite IH.
  destruct (Z.eqb_spec (ht_index r) i); [contradiction|reflexivity].
Qed.

(* ---- the meaning of the rows the ledger writes ------------------------------------------------------ *)
Lemma row_effect_exec_conv burn h rates avgs hs idx t :
  is_conversion t = true ->
  row_effect burn (exec_row h rates avgs hs idx t) =
  [((tx_addr t, tx_type t), - tx_amt t); ((tx_addr t, tx_conv t), conv_out h rates avgs t)].
Proof. intros E. unfold exec_row. rewrite E. reflexivity. Qed.
Lemma row_effect_exec_transfer burn h rates avgs hs idx t :
  is_conversion t = false ->
  row_effect burn (exec_row h rates avgs hs idx t) =
  ((tx_addr t, tx_type t), - tx_amt t) :: transfer_credits burn (tx_type t) (tx_transfers t).
Proof. intros E. unfold exec_row, pend_row. rewrite E. reflexivity. Qed.
Lemma row_effect_coinbase burn hs i a asset amt : row_effect burn (coinbase_row hs i a asset amt) = [((a, asset), amt)].
Proof. reflexivity. Qed.

Lemma exec_rows_hash h rates avgs hs txs : forall idx, Forall (fun r => ht_hash r = hs) (exec_rows h rates avgs hs idx txs).
Proof.
  induction txs as [|t txs IH]; intros idx; cbn [exec_rows]; constructor; [|apply IH].
  unfold exec_row, pend_row. destruct (is_conversion t); reflexivity.
Qed.
Lemma exec_rows_length h rates avgs hs txs : forall idx, length (exec_rows h rates avgs hs idx txs) = length txs.
Proof. induction txs as [|t txs IH]; intros idx; cbn [exec_rows length]; [reflexivity|]. rewrite IH. reflexivity. Qed.

(* ---- T1: recordBatch -------------------------------------------------------------------------------- *)
(* [pre]: the rows of the batch that are already done (indices below idx) *)
Lemma record_txs_history h hs rates avgs txs : forall idx s s' pre,
  record_txs c h hs rates avgs idx txs s = Ok s' ->
  no_deferred h txs = true ->
  convs_fit h rates avgs txs = true ->
  rows_of hs (htxs s) = pre ++ pend_rows hs idx txs ->
  Forall (fun r => ht_index r < idx) pre ->
  rows_of hs (htxs s') = pre ++ exec_rows h rates avgs hs idx txs /\
  rows_not hs (htxs s') = rows_not hs (htxs s) /\
  hist s' = match txs with [] => hist s | _ => mark_exec hs h (hist s) end /\
  (forall a t, get_bal (bal s') a t =
               get_bal (bal s) a t + rows_effect (burn_addr c h) a t (exec_rows h rates avgs hs idx txs)).
Proof.
  induction txs as [|t txs IH]; intros idx s s' pre H Hnd Hfit Hrows Hpre; cbn [record_txs] in H.
  - inversion H; subst. cbn [exec_rows pend_rows] in *. repeat split; auto. intros a t. rewrite rows_effect_nil. lia.
  - destruct (sub_from_balance s (tx_addr t) (tx_type t) (tx_amt t)) as [s1| |code] eqn:Es; try discriminate.
    destruct (sub_from_balance_tables _ _ _ _ _ Es) as (T1 & T2 & _).
    set (s3 := set_executed (insert_relation s1 (tx_addr t) hs idx false (is_conversion t)) hs h) in *.
    assert (X3 : htxs s3 = htxs s) by (unfold s3; rewrite htxs_set_executed, htxs_insert_relation; exact T1).
    assert (Y3 : hist s3 = mark_exec hs h (hist s)) by (unfold s3; rewrite hist_set_executed, hist_insert_relation, T2; reflexivity).
    assert (B3 : forall a t', get_bal (bal s3) a t' =
                   get_bal (bal s) a t' - (if (tx_addr t =? a) && (tx_type t =? t') then tx_amt t else 0)).
    { intros a t'. unfold s3. rewrite bal_set_executed, bal_insert_relation. exact (get_bal_sub _ _ _ _ _ a t' Es). }
    assert (Hd : ((c_PegnetConversionLimitActivation c <=? h) && is_peg_request t = false) /\ no_deferred h txs = true).
    { unfold no_deferred in *. cbn [existsb] in Hnd. destruct (c_PegnetConversionLimitActivation c <=? h); cbn [andb negb] in *; [|auto].
      apply negb_true_iff, orb_false_iff in Hnd as [-> ->]. auto. }
    destruct Hd as [Hd1 Hd2]. rewrite Hd1 in H.
    unfold convs_fit in Hfit. cbn [forallb] in Hfit. apply andb_prop in Hfit as [Hf1 Hf2]. fold (convs_fit h rates avgs txs) in Hf2.
    cbn [pend_rows] in Hrows. cbn [exec_rows].
    assert (Hpre' : forall r0, ht_index r0 = idx -> Forall (fun r => ht_index r < idx + 1) (pre ++ [r0])).
    { intros r0 Hr0. apply Forall_app. split; [eapply Forall_impl; [|exact Hpre]; cbn; intros; lia|].
      constructor; [lia|constructor]. }
    destruct (is_conversion t) eqn:Ec.
    + destruct (conv_of c h rates avgs t) as [out|] eqn:Eo; [|discriminate].
      cbn [negb orb] in Hf1. apply Z.eqb_eq in Hf1.
      apply rbind_ok in H as (s5 & Hadd & Hrest).
      destruct (add_to_balance_tables _ _ _ _ _ Hadd) as (U1 & U2 & _).
      assert (Erow : exec_row h rates avgs hs idx t =
                     {| ht_hash := hs; ht_index := idx; ht_action := 2; ht_from := tx_addr t; ht_from_asset := tx_type t;
                        ht_from_amount := tx_amt t; ht_to_asset := tx_conv t; ht_to_amount := out; ht_outputs := [] |}).
      { unfold exec_row, conv_out. rewrite Ec, Eo. reflexivity. }
      assert (X5 : rows_of hs (htxs s5) = (pre ++ [exec_row h rates avgs hs idx t]) ++ pend_rows hs (idx + 1) txs).
      { rewrite U1. unfold set_to_amount, upd_htx. cbn [htxs set_htxs]. rewrite rows_of_upd by reflexivity.
        rewrite X3, Hrows, map_app. cbn [map]. rewrite <- app_assoc. cbn [app].
        rewrite map_upd_skip by (eapply Forall_impl; [|exact Hpre]; cbn; intros; lia).
        rewrite map_upd_skip by (eapply Forall_impl; [|apply pend_rows_index]; cbn; intros; lia).
        f_equal. f_equal. rewrite Erow. unfold pend_row. rewrite Ec. cbn [ht_index]. rewrite Z.eqb_refl. reflexivity. }
      assert (N5 : rows_not hs (htxs s5) = rows_not hs (htxs s)).
      { rewrite U1. unfold set_to_amount, upd_htx. cbn [htxs set_htxs]. rewrite rows_not_upd by reflexivity. rewrite X3. reflexivity. }
      assert (Ei : ht_index (exec_row h rates avgs hs idx t) = idx) by (rewrite Erow; reflexivity).
      destruct (IH _ _ _ _ Hrest Hd2 Hf2 X5 (Hpre' _ Ei)) as (R1 & R2 & R3 & R4).
      split; [rewrite R1, <- app_assoc; reflexivity|]. split; [congruence|].
      split.
      { rewrite R3, U2. unfold set_to_amount, upd_htx. cbn [hist set_htxs]. rewrite Y3.
        destruct txs; [reflexivity|apply mark_exec_idem]. }
      intros a t'. rewrite R4, rows_effect_cons, (row_effect_exec_conv _ _ _ _ _ _ _ Ec).
      rewrite (get_bal_add _ _ _ _ _ a t' Hadd), bal_set_to_amount, B3, Hf1.
      rewrite !effect_on_cons, effect_on_nil. cbn [fst snd]. unfold conv_out. rewrite Eo.
      unfold ticker, addr in *. destruct ((tx_addr t =? a) && (tx_type t =? t')), ((tx_addr t =? a) && (tx_conv t =? t')); lia.
    + apply rbind_ok in H as (s4 & Hc & Hrest).
      destruct (credit_transfers_effect _ _ _ _ _ _ _ Hc) as (U1 & U2 & U3).
      assert (Erow : exec_row h rates avgs hs idx t = pend_row hs idx t) by (unfold exec_row; rewrite Ec; reflexivity).
      assert (X4 : rows_of hs (htxs s4) = (pre ++ [exec_row h rates avgs hs idx t]) ++ pend_rows hs (idx + 1) txs).
      { rewrite U1, X3, Hrows, Erow, <- app_assoc. reflexivity. }
      assert (Ei : ht_index (exec_row h rates avgs hs idx t) = idx) by (rewrite Erow; unfold pend_row; rewrite Ec; reflexivity).
      destruct (IH _ _ _ _ Hrest Hd2 Hf2 X4 (Hpre' _ Ei)) as (R1 & R2 & R3 & R4).
      split; [rewrite R1, <- app_assoc; reflexivity|]. split; [congruence|].
      split.
      { rewrite R3, U2, Y3. destruct txs; [reflexivity|apply mark_exec_idem]. }
      intros a t'. rewrite R4, rows_effect_cons, (row_effect_exec_transfer _ _ _ _ _ _ _ Ec).
      rewrite U3, B3, effect_on_cons. cbn [fst snd].
      unfold ticker, addr in *. destruct ((tx_addr t =? a) && (tx_type t =? t')); lia.
Qed.

(* the statement for a whole batch, from the rows exactly as insert_history leaves them *)
Theorem record_batch_history h hs rates avgs txs s s' :
  record_batch c h hs rates avgs txs s = Ok s' ->
  no_deferred h txs = true ->
  convs_fit h rates avgs txs = true ->
  rows_of hs (htxs s) = map fst (history_rows_of hs txs) ->
  (* the rows of the batch now carry the converted amounts, nothing else in the table moved *)
  rows_of hs (htxs s') = exec_rows h rates avgs hs 0 txs /\
  rows_not hs (htxs s') = rows_not hs (htxs s) /\
  (* every batch row of that hash is marked executed at h (when there is a transaction at all) *)
  hist s' = match txs with [] => hist s | _ => mark_exec hs h (hist s) end /\
  (* and every cell moved by exactly what those rows stand for *)
  (forall a t, get_bal (bal s') a t =
               get_bal (bal s) a t + rows_effect (burn_addr c h) a t (rows_of hs (htxs s'))).
Proof.
  intros H Hnd Hfit Hrows. rewrite history_rows_of_pend in Hrows.
  destruct (record_txs_history h hs rates avgs txs 0 s s' [] H Hnd Hfit Hrows (Forall_nil _)) as (R1 & R2 & R3 & R4).
  cbn [app] in R1. rewrite R1. auto.
Qed.

Corollary apply_batch_history h hs rates avgs txs s s' :
  apply_batch c h s hs txs rates avgs = BApplied s' ->
  no_deferred h txs = true ->
  convs_fit h rates avgs txs = true ->
  rows_of hs (htxs s) = map fst (history_rows_of hs txs) ->
  rows_of hs (htxs s') = exec_rows h rates avgs hs 0 txs /\
  rows_not hs (htxs s') = rows_not hs (htxs s) /\
  hist s' = match txs with [] => hist s | _ => mark_exec hs h (hist s) end /\
  (forall a t, get_bal (bal s') a t =
               get_bal (bal s) a t + rows_effect (burn_addr c h) a t (rows_of hs (htxs s'))).
Proof. intros H. apply apply_batch_applied_is_record in H. apply record_batch_history; exact H. Qed.

(* the status column after the batch: every row of that hash says h *)
Corollary record_batch_status h hs rates avgs txs s s' :
  record_batch c h hs rates avgs txs s = Ok s' ->
  no_deferred h txs = true -> convs_fit h rates avgs txs = true ->
  rows_of hs (htxs s) = map fst (history_rows_of hs txs) ->
  txs <> [] -> Forall (fun e => e = h) (status_of s' hs).
Proof.
  intros H Hnd Hfit Hrows Hne. destruct (record_batch_history _ _ _ _ _ _ _ H Hnd Hfit Hrows) as (_ & _ & R3 & _).
  unfold status_of. rewrite R3. destruct txs; [congruence|]. rewrite status_mark_exec.
  apply Forall_forall. intros e He. apply in_map_iff in He as (? & <- & _). reflexivity.
Qed.

(* ---- inserting the history rows of an entry ------------------------------------------------------------ *)
Lemma insert_hbatch_ok s r s' :
  insert_hbatch s r = Ok s' ->
  hist s' = hist s ++ [r] /\ htxs s' = htxs s /\ bal s' = bal s /\ rel s' = rel s /\ holding s' = holding s.
Proof. unfold insert_hbatch. destruct (hist_has_at _ _ _); [discriminate|]. intros H; inversion H; subst; auto. Qed.
Lemma insert_htx_ok s r lk s' :
  insert_htx s r lk = Ok s' ->
  htx_has s (ht_hash r) (ht_index r) = false /\
  htxs s' = htxs s ++ [r] /\ hist s' = hist s /\ bal s' = bal s /\ rel s' = rel s /\ holding s' = holding s.
Proof. unfold insert_htx. destruct (htx_has _ _ _); [discriminate|]. intros H; inversion H; subst; repeat split; reflexivity. Qed.

Lemma insert_htx_fold_ok (l : list (htx * list addr)) : forall s s',
  fold_left (fun r row => let? s0 := r in insert_htx s0 (fst row) (snd row)) l (Ok s) = Ok s' ->
  htxs s' = htxs s ++ map fst l /\ hist s' = hist s /\ bal s' = bal s /\ rel s' = rel s /\ holding s' = holding s.
Proof.
  induction l as [|x l IH]; intros s s' H; cbn [fold_left] in H.
  - inversion H; subst. cbn [map]. rewrite app_nil_r. auto.
  - cbn [rbind] in H. destruct (insert_htx s (fst x) (snd x)) as [s1|e|e] eqn:E;
      [|exfalso; eapply fold_res_fail; exact H|exfalso; eapply fold_res_panic; exact H].
    apply insert_htx_ok in E as (_ & E1 & E2 & E3 & E4 & E5). destruct (IH _ _ H) as (I1 & I2 & I3 & I4 & I5).
    cbn [map]. rewrite I1, E1, <- app_assoc. cbn [app]. repeat split; congruence.
Qed.

Lemma insert_history_ok s e order h txs s1 :
  insert_history s e order h txs = Ok s1 ->
  hist s1 = hist s ++ [{| hb_hash := e_hash e; hb_height := h; hb_order := order; hb_ts := e_ts e; hb_exec := 0 |}] /\
  htxs s1 = htxs s ++ pend_rows (e_hash e) 0 txs /\ bal s1 = bal s /\ rel s1 = rel s /\ holding s1 = holding s.
Proof.
  unfold insert_history. intros H. apply rbind_ok in H as (s0 & H0 & H1).
  apply insert_hbatch_ok in H0 as (A1 & A2 & A3 & A4 & A5). apply insert_htx_fold_ok in H1 as (B1 & B2 & B3 & B4 & B5).
  rewrite history_rows_of_pend in B1. repeat split; congruence.
Qed.

Lemma rows_of_all hs l : Forall (fun r => ht_hash r = hs) l -> rows_of hs l = l /\ rows_not hs l = [].
Proof.
  unfold rows_of, rows_not. induction 1 as [|r l Hr _ [IH1 IH2]]; [auto|]. cbn [filter].
  apply Z.eqb_eq in Hr. rewrite Hr. cbn [negb]. rewrite IH1, IH2. auto.
Qed.
Lemma rows_of_none hs l : Forall (fun r => ht_hash r <> hs) l -> rows_of hs l = [] /\ rows_not hs l = l.
Proof.
  unfold rows_of, rows_not. induction 1 as [|r l Hr _ [IH1 IH2]]; [auto|]. cbn [filter].
  apply Z.eqb_neq in Hr. rewrite Hr. cbn [negb]. rewrite IH1, IH2. auto.
Qed.

Lemma mark_exec_fresh hs code l : existsb (fun r => hb_hash r =? hs) l = false -> mark_exec hs code l = l.
Proof.
  induction l as [|r l IH]; [reflexivity|]. cbn [existsb mark_exec map]. intros H. apply orb_false_iff in H as [H1 H2].
  rewrite H1. f_equal. apply IH; exact H2.
Qed.
Lemma mark_exec_app hs code l1 l2 : mark_exec hs code (l1 ++ l2) = mark_exec hs code l1 ++ mark_exec hs code l2.
Proof. unfold mark_exec. apply map_app. Qed.

(* the tolerated errors of applyTransactionBatch are negative status codes *)
Lemma check_txs_rejected_neg h s rates avgs txs code : check_txs c h s rates avgs txs = Some (BRejected code) -> code < 0.
Proof.
  induction txs as [|t txs IH]; cbn [check_txs]; [discriminate|].
  repeat match goal with |- (if ?b then _ else _) = _ -> _ => destruct b end;
    try (intros H; inversion H; lia); try exact IH; try discriminate.
Qed.
Lemma sim_txs_rejected_neg h present rates avgs txs code : forall m,
  sim_txs c h present rates avgs m txs = Some (BRejected code) -> code < 0.
Proof.
  induction txs as [|t txs IH]; intros m; cbn [sim_txs]; [discriminate|].
  destruct (_ <? _); [intros H; inversion H; lia|]. destruct (is_conversion t).
  - destruct (conv_of c h rates avgs t); [apply IH|discriminate].
  - apply IH.
Qed.
Lemma apply_batch_rejected_neg h s hs txs rates avgs code :
  apply_batch c h s hs txs rates avgs = BRejected code -> code < 0.
Proof.
  unfold apply_batch.
  destruct (check_txs c h s rates avgs txs) eqn:E1; [intros ->; eapply check_txs_rejected_neg; exact E1|].
  destruct (sim_txs c h _ rates avgs (bal s) txs) eqn:E2; [intros ->; eapply sim_txs_rejected_neg; exact E2|].
  destruct (record_batch c h hs rates avgs txs s); discriminate.
Qed.

(* ---- T1, arrival path: a transfer-only batch applied in the block it arrives in ------------------------- *)
Definition batch_row (e : entry) (h order code : Z) : hbatch :=
  {| hb_hash := e_hash e; hb_height := h; hb_order := order; hb_ts := e_ts e; hb_exec := code |}.

Theorem apply_entry_history h s order e txs s' :
  apply_entry c h s order e = Ok s' ->
  entry_valid_at c e h = Some txs ->
  is_replay s (e_hash e) = false ->
  hist_has s (e_hash e) = false ->               (* the entry hash is not recorded *)
  has_conversions txs = false ->                 (* transfer-only: applied directly *)
  rows_of (e_hash e) (htxs s) = [] ->            (* no stale transaction rows under that hash *)
  rows_not (e_hash e) (htxs s') = rows_not (e_hash e) (htxs s) /\
  ( (* executed: rows recorded, batch row marked executed at h, every cell moved by what the rows stand for *)
    ( txs <> [] /\
      rows_of (e_hash e) (htxs s') = exec_rows h ∅ ∅ (e_hash e) 0 txs /\
      hist s' = hist s ++ [batch_row e h order h] /\
      forall a t, get_bal (bal s') a t =
                  get_bal (bal s) a t + rows_effect (burn_addr c h) a t (rows_of (e_hash e) (htxs s')) )
    \/
    (* not executed: the rows stay as inserted, the batch row says pending (0) or rejected (-1), no cell moved *)
    ( rows_of (e_hash e) (htxs s') = pend_rows (e_hash e) 0 txs /\ bal s' = bal s /\
      (hist s' = hist s ++ [batch_row e h order 0] \/ hist s' = hist s ++ [batch_row e h order (-1)]) ) ).
Proof.
  intros H Hv Hr Hh Hc Hrows. unfold apply_entry in H. rewrite Hv, Hr, Hh in H.
  apply rbind_ok in H as (s1 & H1 & H2). rewrite Hc in H2.
  apply insert_history_ok in H1 as (A1 & A2 & A3 & A4 & A5).
  destruct (rows_of_all (e_hash e) _ (pend_rows_hash (e_hash e) txs 0)) as [P1 P2].
  assert (X1 : rows_of (e_hash e) (htxs s1) = pend_rows (e_hash e) 0 txs) by (rewrite A2, rows_of_app, Hrows, P1; reflexivity).
  assert (N1 : rows_not (e_hash e) (htxs s1) = rows_not (e_hash e) (htxs s)) by (rewrite A2, rows_not_app, P2, app_nil_r; reflexivity).
  unfold hist_has in Hh.
  assert (M : forall code, mark_exec (e_hash e) code (hist s1) = hist s ++ [batch_row e h order code]).
  { intros code. rewrite A1, mark_exec_app, (mark_exec_fresh _ _ _ Hh). cbn [mark_exec map hb_hash]. rewrite Z.eqb_refl. reflexivity. }
  destruct (apply_batch c h s1 (e_hash e) txs ∅ ∅) as [s2|code| |code] eqn:Eb.
  - inversion H2; subst s2.
    assert (X1' : rows_of (e_hash e) (htxs s1) = map fst (history_rows_of (e_hash e) txs)) by (rewrite history_rows_of_pend; exact X1).
    destruct (apply_batch_history _ _ _ _ _ _ _ Eb (no_deferred_no_conversions h txs Hc)
                (convs_fit_no_conversions h ∅ ∅ txs Hc) X1') as (R1 & R2 & R3 & R4).
    split; [congruence|].
    destruct txs as [|t0 txs0] eqn:Et.
    + right. rewrite R3, A1, R1. cbn [exec_rows pend_rows]. split; [reflexivity|]. split; [|left; reflexivity].
      apply apply_batch_applied_is_record in Eb. cbn in Eb. inversion Eb; subst. exact A3.
    + left. split; [discriminate|]. split; [exact R1|]. split; [rewrite R3; apply M|].
      intros a t. rewrite R4, A3. reflexivity.
  - destruct (code =? -1) eqn:Ecode; [|discriminate]. inversion H2; subst s'. apply Z.eqb_eq in Ecode. subst code.
    split; [rewrite htxs_set_executed; exact N1|]. right.
    rewrite htxs_set_executed, bal_set_executed, hist_set_executed. split; [exact X1|]. split; [exact A3|].
    right. apply M.
  - inversion H2; subst s'. split; [exact N1|]. right. split; [exact X1|]. split; [exact A3|]. left. rewrite A1. reflexivity.
  - discriminate.
Qed.

(* ---- T1, holding path: a held batch looked at by a rated block ------------------------------------------- *)
Theorem apply_held_history cur rates avgs s e hh s' isp txs :
  apply_held c cur rates avgs s e hh = Ok (s', isp) ->
  entry_valid_at c e hh = Some txs ->
  no_deferred cur txs = true ->
  convs_fit cur rates avgs txs = true ->
  rows_of (e_hash e) (htxs s) = map fst (history_rows_of (e_hash e) txs) ->
  isp = false /\
  ( (* executed by this block *)
    ( apply_batch c cur s (e_hash e) txs rates avgs = BApplied s' /\
      rows_of (e_hash e) (htxs s') = exec_rows cur rates avgs (e_hash e) 0 txs /\
      rows_not (e_hash e) (htxs s') = rows_not (e_hash e) (htxs s) /\
      hist s' = match txs with [] => hist s | _ => mark_exec (e_hash e) cur (hist s) end /\
      forall a t, get_bal (bal s') a t =
                  get_bal (bal s) a t + rows_effect (burn_addr c cur) a t (rows_of (e_hash e) (htxs s')) )
    \/
    (* not executed: no row and no cell moved; the status is untouched or a negative code *)
    ( htxs s' = htxs s /\ bal s' = bal s /\
      (hist s' = hist s \/ exists code, code < 0 /\ hist s' = mark_exec (e_hash e) code (hist s)) ) ).
Proof.
  intros H Hv Hnd Hfit Hrows. unfold apply_held in H. rewrite Hv in H.
  assert (Hisp : (cur <? c_V20HeightActivation c) && (c_PegnetConversionLimitActivation c <=? cur) && has_peg_request txs = false).
  { unfold no_deferred in Hnd. unfold has_peg_request. apply negb_true_iff in Hnd.
    destruct (cur <? c_V20HeightActivation c); cbn [andb]; [exact Hnd|reflexivity]. }
  rewrite Hisp in H.
  assert (Hrej : forall code, code < 0 ->
            htxs (set_executed s (e_hash e) code) = htxs s /\ bal (set_executed s (e_hash e) code) = bal s /\
            (hist (set_executed s (e_hash e) code) = hist s \/
             exists code0, code0 < 0 /\ hist (set_executed s (e_hash e) code) = mark_exec (e_hash e) code0 (hist s))).
  { intros code Hcode. split; [reflexivity|]. split; [reflexivity|]. right. exists code. split; [exact Hcode|reflexivity]. }
  destruct (_ && has_peg_conversion txs).
  { inversion H; subst. split; [reflexivity|]. right. apply Hrej. lia. }
  destruct (entry_valid_at c e cur).
  2:{ inversion H; subst. split; [reflexivity|]. right. apply Hrej. lia. }
  destruct (is_replay s (e_hash e)).
  { inversion H; subst. split; [reflexivity|]. right. auto. }
  destruct (apply_batch c cur s (e_hash e) txs rates avgs) as [s2|code| |code] eqn:Eb; try discriminate; inversion H; subst.
  - split; [reflexivity|]. left. split; [reflexivity|]. exact (apply_batch_history _ _ _ _ _ _ _ Eb Hnd Hfit Hrows).
  - split; [reflexivity|]. right. apply Hrej. eapply apply_batch_rejected_neg; exact Eb.
  - split; [reflexivity|]. right. auto.
Qed.

(* ==== Part 2 (T2): the coinbase-style writers ============================================================== *)

(* credit, batch row, transaction row: the three statements every coinbase-style writer issues *)
Lemma coinbase_step s a t v hb r lk s' :
  (let? s1 := add_to_balance s a t v in let? s2 := insert_hbatch s1 hb in insert_htx s2 r lk) = Ok s' ->
  htxs s' = htxs s ++ [r] /\ hist s' = hist s ++ [hb] /\
  forall a' t', get_bal (bal s') a' t' = get_bal (bal s) a' t' + (if (a =? a') && (t =? t') then v else 0).
Proof.
  intros H. apply rbind_ok in H as (s1 & H1 & H). apply rbind_ok in H as (s2 & H2 & H3).
  destruct (add_to_balance_tables _ _ _ _ _ H1) as (A1 & A2 & _).
  apply insert_hbatch_ok in H2 as (B1 & B2 & B3 & _). apply insert_htx_ok in H3 as (_ & C1 & C2 & C3 & _).
  split; [congruence|]. split; [congruence|]. intros a' t'. rewrite C3, B3. exact (get_bal_add _ _ _ _ _ a' t' H1).
Qed.

(* a fold of writers each of which appends rows that account for its own balance change *)
Lemma fold_writer {X} (f : db -> X -> res db) (R : X -> list htx) (B : X -> list hbatch) (burn : addr) (l : list X) :
  (forall s x s', In x l -> f s x = Ok s' ->
     htxs s' = htxs s ++ R x /\ hist s' = hist s ++ B x /\
     forall a t, get_bal (bal s') a t = get_bal (bal s) a t + rows_effect burn a t (R x)) ->
  forall s s', fold_left (fun r x => let? s0 := r in f s0 x) l (Ok s) = Ok s' ->
  htxs s' = htxs s ++ flat_map R l /\ hist s' = hist s ++ flat_map B l /\
  forall a t, get_bal (bal s') a t = get_bal (bal s) a t + rows_effect burn a t (flat_map R l).
Proof.
  induction l as [|x l IH]; intros Hstep s s' H; cbn [fold_left] in H.
  - inversion H; subst. cbn [flat_map]. rewrite !app_nil_r. repeat split. intros a t. rewrite rows_effect_nil. lia.
  - cbn [rbind] in H. destruct (f s x) as [s1|e|e] eqn:E;
      [|exfalso; eapply fold_res_fail; exact H|exfalso; eapply fold_res_panic; exact H].
    destruct (Hstep _ _ _ (or_introl eq_refl) E) as (E1 & E2 & E3).
    destruct (IH (fun s0 x0 s2 Hin => Hstep s0 x0 s2 (or_intror Hin)) _ _ H) as (I1 & I2 & I3).
    cbn [flat_map]. rewrite I1, I2, E1, E2, <- !app_assoc. repeat split. intros a t.
    rewrite I3, E3, rows_effect_app. lia.
Qed.

(* ---- ApplyGradedOPRBlock / ApplyGradedSPRBlock --------------------------------------------------------------- *)
Definition winner_rows (ws : list winner) : list htx :=
  flat_map (fun w => match w_addr w with
                     | Some a => [coinbase_row (w_hash w) 0 a PTickerPEG (w_payout w)]
                     | None => [] end) ws.
Definition winner_batches (ts : Z) (ws : list winner) : list hbatch :=
  flat_map (fun w => match w_addr w with
                     | Some _ => [{| hb_hash := w_hash w; hb_height := w_height w; hb_order := 0; hb_ts := ts; hb_exec := w_height w |}]
                     | None => [] end) ws.
(* the code credits uint64(payout) and records payout: they agree when the payout is a uint64 *)
Definition payouts_fit (ws : list winner) : bool :=
  forallb (fun w => match w_addr w with Some _ => wrap64 (w_payout w) =? w_payout w | None => true end) ws.

Theorem pay_winners_history s ts ws s' :
  pay_winners s ts ws = Ok s' ->
  payouts_fit ws = true ->
  htxs s' = htxs s ++ winner_rows ws /\
  hist s' = hist s ++ winner_batches ts ws /\
  forall burn a t, get_bal (bal s') a t = get_bal (bal s) a t + rows_effect burn a t (winner_rows ws).
Proof.
  intros H Hfit. unfold payouts_fit in Hfit. rewrite forallb_forall in Hfit.
  assert (G : forall burn,
    htxs s' = htxs s ++ winner_rows ws /\ hist s' = hist s ++ winner_batches ts ws /\
    forall a t, get_bal (bal s') a t = get_bal (bal s) a t + rows_effect burn a t (winner_rows ws)).
  { intros burn. unfold pay_winners in H.
    refine (fold_writer (fun s' w => match w_addr w with None => Ok s' | Some a => _ end) _ _ burn ws _ s s' H).
    intros s0 w s1 Hin Hs. specialize (Hfit w Hin). destruct (w_addr w) as [a|].
    - apply Z.eqb_eq in Hfit. apply coinbase_step in Hs as (E1 & E2 & E3). split; [exact E1|]. split; [exact E2|].
      intros a' t'. rewrite E3, Hfit, rows_effect_cons, rows_effect_nil, row_effect_coinbase, effect_on_cons, effect_on_nil.
      cbn [fst snd]. lia.
    - inversion Hs; subst. rewrite !app_nil_r. repeat split. intros a' t'. rewrite rows_effect_nil. lia. }
  destruct (G 0) as (G1 & G2 & _). split; [exact G1|]. split; [exact G2|]. intros burn. apply (G burn).
Qed.

(* ---- ApplyFactoidBlock ------------------------------------------------------------------------------------------ *)
Definition burn_row (f : ftx) (a : addr) (v : Z) : htx :=
  {| ht_hash := f_txid f; ht_index := 0; ht_action := 4; ht_from := a; ht_from_asset := -1;
     ht_from_amount := v; ht_to_asset := PTickerFCT; ht_to_amount := v; ht_outputs := [] |}.
Definition burn_rows (fs : list ftx) : list htx :=
  flat_map (fun f => match is_burn f with Some (a, v) => [burn_row f a v] | None => [] end) fs.
Definition burn_batches (h : Z) (fs : list ftx) : list hbatch :=
  flat_map (fun f => match is_burn f with
                     | Some _ => [{| hb_hash := f_txid f; hb_height := h; hb_order := -1; hb_ts := f_ts f; hb_exec := h |}]
                     | None => [] end) fs.

Theorem apply_factoid_block_history h s fs s' :
  apply_factoid_block h s fs = Ok s' ->
  htxs s' = htxs s ++ burn_rows fs /\
  hist s' = hist s ++ burn_batches h fs /\
  forall burn a t, get_bal (bal s') a t = get_bal (bal s) a t + rows_effect burn a t (burn_rows fs).
Proof.
  intros H.
  assert (G : forall burn,
    htxs s' = htxs s ++ burn_rows fs /\ hist s' = hist s ++ burn_batches h fs /\
    forall a t, get_bal (bal s') a t = get_bal (bal s) a t + rows_effect burn a t (burn_rows fs)).
  { intros burn. unfold apply_factoid_block in H.
    refine (fold_writer (fun s' f => match is_burn f with None => Ok s' | Some (a, v) => _ end) _ _ burn fs _ s s' H).
    intros s0 f s1 Hin Hs. destruct (is_burn f) as [[a v]|].
    - apply coinbase_step in Hs as (E1 & E2 & E3). split; [exact E1|]. split; [exact E2|].
      intros a' t'. rewrite E3, rows_effect_cons, rows_effect_nil. unfold burn_row, row_effect. cbn [ht_action ht_from ht_to_asset ht_to_amount].
      change (4 =? 1) with false. change (4 =? 2) with false. cbv iota. rewrite effect_on_cons, effect_on_nil. cbn [fst snd]. lia.
    - inversion Hs; subst. rewrite !app_nil_r. repeat split. intros a' t'. rewrite rows_effect_nil. lia. }
  destruct (G 0) as (G1 & G2 & _). split; [exact G1|]. split; [exact G2|]. intros burn. apply (G burn).
Qed.

(* ---- developer rewards ---------------------------------------------------------------------------------------------- *)
Fixpoint dev_rows_from (after : bool) (h i j : Z) (l : list (Z * Z * Z * Z)) : list htx :=
  match l with
  | [] => []
  | (a, _, pre, post) :: l' =>
    coinbase_row (mock_hash_dev j h) i a PTickerPEG (if after then post else pre)
    :: dev_rows_from after h (if 9 <? i + 1 then 0 else i + 1) (j + 1) l'
  end.
Fixpoint dev_batches_from (h ts j : Z) (l : list (Z * Z * Z * Z)) : list hbatch :=
  match l with
  | [] => []
  | _ :: l' => {| hb_hash := mock_hash_dev j h; hb_height := h; hb_order := 0; hb_ts := ts; hb_exec := h |}
               :: dev_batches_from h ts (j + 1) l'
  end.
Definition dev_rows (h : Z) : list htx := dev_rows_from (c_V202EnhanceActivation c <=? h) h 0 1 dev_rewards.
Definition dev_batches (h ts : Z) : list hbatch := dev_batches_from h ts 1 dev_rewards.

Theorem developers_payouts_history h ts s s' :
  fst (developers_payouts c h ts s) = Ok s' ->
  htxs s' = htxs s ++ dev_rows h /\
  hist s' = hist s ++ dev_batches h ts /\
  forall burn a t, get_bal (bal s') a t = get_bal (bal s) a t + rows_effect burn a t (dev_rows h).
Proof.
  unfold developers_payouts, dev_rows, dev_batches. cbv zeta. generalize dev_rewards as l. intros l.
  set (step := fun (acc : Z * Z * (res db * db)) (d : Z * Z * Z * Z) => _).
  set (after := c_V202EnhanceActivation c <=? h).
  assert (G0 : forall l0 ij r reached s1, (forall s0, r <> Ok s0) -> fst (snd (fold_left step l0 (ij, (r, reached)))) <> Ok s1).
  { induction l0 as [|d l0 IH]; intros [i j] r reached s1 Hr; cbn [fold_left snd fst]; [apply Hr|].
    unfold step at 2. destruct r as [s0|e|e]; [exfalso; eapply Hr; reflexivity| |]; apply IH; exact Hr. }
  assert (G : forall l0 i j s0 reached s1,
             fst (snd (fold_left step l0 ((i, j), (Ok s0, reached)))) = Ok s1 ->
             htxs s1 = htxs s0 ++ dev_rows_from after h i j l0 /\
             hist s1 = hist s0 ++ dev_batches_from h ts j l0 /\
             forall burn a t, get_bal (bal s1) a t = get_bal (bal s0) a t + rows_effect burn a t (dev_rows_from after h i j l0)).
  { induction l0 as [|d l0 IH]; intros i j s0 reached s1 H; cbn [fold_left snd fst] in H.
    - inversion H; subst. cbn [dev_rows_from dev_batches_from]. rewrite !app_nil_r. repeat split. intros. rewrite rows_effect_nil. lia.
    - unfold step at 2 in H. destruct d as [[[a bits] pre] post]. fold after in H.
      destruct (add_to_balance s0 a PTickerPEG _) as [s2|e|e] eqn:Ea;
        try (exfalso; eapply G0; [|exact H]; intros ? HH; discriminate).
      destruct (insert_hbatch s2 _) as [s3|e|e] eqn:Eb;
        try (exfalso; eapply G0; [|exact H]; intros ? HH; discriminate).
      destruct (insert_htx s3 _ _) as [s4|e|e] eqn:Ec;
        try (exfalso; eapply G0; [|exact H]; intros ? HH; discriminate).
      destruct (IH _ _ _ _ _ H) as (I1 & I2 & I3).
      destruct (add_to_balance_tables _ _ _ _ _ Ea) as (A1 & A2 & _).
      apply insert_hbatch_ok in Eb as (B1 & B2 & B3 & _). apply insert_htx_ok in Ec as (_ & C1 & C2 & C3 & _).
      cbn [dev_rows_from dev_batches_from].
      split; [rewrite I1, C1, B2, A1, <- app_assoc; reflexivity|].
      split; [rewrite I2, C2, B1, A2, <- app_assoc; reflexivity|].
      intros burn a' t'. rewrite (I3 burn), C3, B3, (get_bal_add _ _ _ _ _ a' t' Ea).
      rewrite rows_effect_cons, row_effect_coinbase, effect_on_cons, effect_on_nil. cbn [fst snd]. lia. }
  intros H. exact (G l 0 1 s s s' H).
Qed.

(* ---- snapshot and staking payouts --------------------------------------------------------------------------------------- *)
Lemma snapshot_rows_fold (row : txid * Z -> htx) (lk : txid * Z -> list addr) (pays : list (txid * Z)) : forall s s',
  fold_left (fun r p => let? s0 := r in if two63 <=? snd p then Fail E_SQLARG else insert_htx s0 (row p) (lk p)) pays (Ok s) = Ok s' ->
  htxs s' = htxs s ++ map row pays /\ hist s' = hist s /\ bal s' = bal s.
Proof.
  induction pays as [|p pays IH]; intros s s' H; cbn [fold_left] in H.
  - inversion H; subst. cbn [map]. rewrite app_nil_r. auto.
  - cbn [rbind] in H. destruct (two63 <=? snd p); [exfalso; eapply fold_res_fail; exact H|].
    destruct (insert_htx s (row p) (lk p)) as [s1|e|e] eqn:E;
      [|exfalso; eapply fold_res_fail; exact H|exfalso; eapply fold_res_panic; exact H].
    apply insert_htx_ok in E as (_ & E1 & E2 & E3 & _). destruct (IH _ _ H) as (I1 & I2 & I3).
    cbn [map]. rewrite I1, E1, <- app_assoc. cbn [app]. repeat split; congruence.
Qed.
Lemma snapshot_credits_fold (ad : txid * Z -> addr) (row : txid * Z -> htx) burn (pays : list (txid * Z)) :
  (forall p, row_effect burn (row p) = [((ad p, PTickerPEG), snd p)]) ->
  forall s s',
  fold_left (fun r p => let? s0 := r in add_to_balance s0 (ad p) PTickerPEG (snd p)) pays (Ok s) = Ok s' ->
  htxs s' = htxs s /\ hist s' = hist s /\
  forall a t, get_bal (bal s') a t = get_bal (bal s) a t + rows_effect burn a t (map row pays).
Proof.
  intros Hrow. induction pays as [|p pays IH]; intros s s' H; cbn [fold_left] in H.
  - inversion H; subst. repeat split. intros. cbn [map]. rewrite rows_effect_nil. lia.
  - cbn [rbind] in H. destruct (add_to_balance s (ad p) PTickerPEG (snd p)) as [s1|e|e] eqn:E;
      [|exfalso; eapply fold_res_fail; exact H|exfalso; eapply fold_res_panic; exact H].
    destruct (add_to_balance_tables _ _ _ _ _ E) as (A1 & A2 & _). destruct (IH _ _ H) as (I1 & I2 & I3).
    split; [congruence|]. split; [congruence|]. intros a t. cbn [map].
    rewrite I3, (get_bal_add _ _ _ _ _ a t E), rows_effect_cons, Hrow, effect_on_cons, effect_on_nil. cbn [fst snd]. lia.
Qed.

Theorem snapshot_payouts_history h ts rates s s' :
  snapshot_payouts c h ts rates s = Ok s' ->
  exists rows,
    htxs s' = htxs s ++ rows /\
    Forall (fun r => ht_hash r = mock_hash h /\ ht_action r = 3 /\ ht_to_asset r = PTickerPEG) rows /\
    (hist s' = hist s \/
     hist s' = hist s ++ [{| hb_hash := mock_hash h; hb_height := h; hb_order := 0; hb_ts := ts; hb_exec := h |}]) /\
    (rows <> [] -> hist s' = hist s ++ [{| hb_hash := mock_hash h; hb_height := h; hb_order := 0; hb_ts := ts; hb_exec := h |}]) /\
    forall burn a t, get_bal (bal s') a t = get_bal (bal s) a t + rows_effect burn a t rows.
Proof.
  intros H. unfold snapshot_payouts in H. cbv zeta in H.
  destruct (existsb _ _); [discriminate|]. destruct (existsb _ _); [discriminate|].
  set (s1 := set_snaps s (bal s) (snap_cur s)) in *.
  match type of H with match ?l with [] => _ | _ => _ end = _ => destruct l as [|x0 lst0] end.
  { inversion H; subst. exists []. rewrite app_nil_r. split; [reflexivity|]. split; [constructor|]. split; [left; reflexivity|].
    split; [congruence|]. intros. rewrite rows_effect_nil. unfold s1. cbn [bal set_snaps]. lia. }
  apply rbind_ok in H as (s2 & H1 & H). apply rbind_ok in H as (s3 & H2 & H3).
  apply insert_hbatch_ok in H1 as (B1 & B2 & B3 & _).
  match type of H2 with fold_left _ ?pp _ = _ => set (pays := pp) in * end.
  set (addr_of := fun i : Z => match find (fun x : Z * (addr * Z) => fst x =? i) (index_from 0 (x0 :: lst0)) with
                              | Some x => fst (snd x) | None => 0 end).
  set (row := fun p : txid * Z => coinbase_row (mock_hash h) (snd (fst p)) (addr_of (snd (fst p))) PTickerPEG (snd p)).
  destruct (snapshot_rows_fold row (fun p => [addr_of (snd (fst p))]) pays _ _ H2) as (R1 & R2 & R3).
  exists (map row pays).
  assert (Hs1 : htxs s1 = htxs s /\ hist s1 = hist s /\ bal s1 = bal s) by (unfold s1; auto).
  destruct Hs1 as (S1 & S2 & S3).
  assert (G : forall burn, htxs s' = htxs s3 /\ hist s' = hist s3 /\
              forall a t, get_bal (bal s') a t = get_bal (bal s3) a t + rows_effect burn a t (map row pays)).
  { intros burn. exact (snapshot_credits_fold (fun p => addr_of (snd (fst p))) row burn pays (fun p => eq_refl) _ _ H3). }
  destruct (G 0) as (G1 & G2 & _).
  split; [congruence|]. split.
  { apply Forall_forall. intros r Hr. apply in_map_iff in Hr as (p & <- & _). repeat split. }
  split; [right; congruence|]. split; [intros _; congruence|].
  intros burn a t. destruct (G burn) as (_ & _ & G3). rewrite G3, R3, B3, S3. reflexivity.
Qed.
End WithCfg.

(* ==== non-vacuity: the hypotheses of each theorem hold on concrete, non-trivial states ======================== *)
(* states of the example chain (Model/Examples.v): after block 101 alice holds 100 pFCT; after 103 she has
   transferred 30 to bob and her conversion 602 (20 pFCT -> pUSD) waits in holding with its rows pending *)
Definition ex_rates : gmap ticker Z :=
  <[PTickerPEG := 200000000]> (<[PTickerUSD := 100000000]> (<[PTickerFCT := 400000000]> ∅)).
Definition ex_conv_txs : list tx :=
  [{| tx_addr := alice; tx_type := PTickerFCT; tx_amt := 20; tx_transfers := []; tx_conv := PTickerUSD |}].
Definition ex_transfer_txs : list tx :=
  [{| tx_addr := alice; tx_type := PTickerFCT; tx_amt := 30;
      tx_transfers := [{| tr_addr := bob; tr_amt := 30 |}]; tx_conv := 0 |}].
Definition ex_state (n : nat) : option db :=
  match replay ex_cfg genesis empty_cache (firstn n ex_chain) with Done (s, _) => Some s | _ => None end.

(* record_batch_history / record_batch_status: the held conversion recorded at height 104 at the example rates *)
Example record_batch_history_hyps :
  match ex_state 3 with
  | Some s =>
    match record_batch ex_cfg 104 602 ex_rates ex_rates ex_conv_txs s with
    | Ok s' =>
      no_deferred ex_cfg 104 ex_conv_txs = true /\
      convs_fit ex_cfg 104 ex_rates ex_rates ex_conv_txs = true /\
      rows_of 602 (htxs s) = map fst (history_rows_of 602 ex_conv_txs) /\
      ex_conv_txs <> [] /\
      (* and what the theorem then says, on this instance *)
      map ht_to_amount (rows_of 602 (htxs s')) = [80] /\
      get_bal (bal s) alice PTickerFCT = 70 /\ get_bal (bal s') alice PTickerFCT = 50 /\
      rows_effect (burn_addr ex_cfg 104) alice PTickerFCT (rows_of 602 (htxs s')) = -20 /\
      get_bal (bal s) alice PTickerUSD = 0 /\ get_bal (bal s') alice PTickerUSD = 80 /\
      rows_effect (burn_addr ex_cfg 104) alice PTickerUSD (rows_of 602 (htxs s')) = 80 /\
      status_of s 602 = [0] /\ status_of s' 602 = [104]
    | _ => False
    end
  | None => False
  end.
Proof. vm_compute. repeat split; try reflexivity. discriminate. Qed.

(* apply_batch_history: the same batch through applyTransactionBatch *)
Example apply_batch_history_hyps :
  match ex_state 3 with
  | Some s =>
    match apply_batch ex_cfg 104 s 602 ex_conv_txs ex_rates ex_rates with
    | BApplied s' =>
      no_deferred ex_cfg 104 ex_conv_txs = true /\
      convs_fit ex_cfg 104 ex_rates ex_rates ex_conv_txs = true /\
      rows_of 602 (htxs s) = map fst (history_rows_of 602 ex_conv_txs) /\
      get_bal (bal s') alice PTickerUSD = 80
    | _ => False
    end
  | None => False
  end.
Proof. vm_compute. repeat split; reflexivity. Qed.

(* apply_entry_history: the transfer 601 arriving in block 102 (executed branch) *)
Example apply_entry_history_hyps :
  match ex_state 1 with
  | Some s =>
    match apply_entry ex_cfg 102 s 0 (ex_transfer 601 30) with
    | Ok s' =>
      entry_valid_at ex_cfg (ex_transfer 601 30) 102 = Some ex_transfer_txs /\
      is_replay s 601 = false /\ hist_has s 601 = false /\
      has_conversions ex_transfer_txs = false /\ rows_of 601 (htxs s) = [] /\
      (* executed *)
      hist s' = hist s ++ [batch_row (ex_transfer 601 30) 102 0 102] /\
      get_bal (bal s) alice PTickerFCT = 100 /\ get_bal (bal s') alice PTickerFCT = 70 /\
      get_bal (bal s') bob PTickerFCT = 30 /\
      rows_effect (burn_addr ex_cfg 102) bob PTickerFCT (rows_of 601 (htxs s')) = 30
    | _ => False
    end
  | None => False
  end.
Proof. vm_compute. repeat split; reflexivity. Qed.
(* ... and the rejected branch: the overdraft 603 arriving in block 103 *)
Example apply_entry_history_rejected :
  match ex_state 2 with
  | Some s =>
    match apply_entry ex_cfg 103 s 0 (ex_transfer 603 1000) with
    | Ok s' =>
      is_replay s 603 = false /\ hist_has s 603 = false /\ rows_of 603 (htxs s) = [] /\
      bal s' = bal s /\ hist s' = hist s ++ [batch_row (ex_transfer 603 1000) 103 0 (-1)]
    | _ => False
    end
  | None => False
  end.
Proof. vm_compute. repeat split; reflexivity. Qed.

(* apply_held_history: the held conversion 602 looked at by the rated block 104 *)
Example apply_held_history_hyps :
  match ex_state 3 with
  | Some s =>
    match apply_held ex_cfg 104 ex_rates ex_rates s (ex_conversion 602 20) 102 with
    | Ok (s', isp) =>
      entry_valid_at ex_cfg (ex_conversion 602 20) 102 = Some ex_conv_txs /\
      no_deferred ex_cfg 104 ex_conv_txs = true /\
      convs_fit ex_cfg 104 ex_rates ex_rates ex_conv_txs = true /\
      rows_of 602 (htxs s) = map fst (history_rows_of 602 ex_conv_txs) /\
      isp = false /\ apply_batch ex_cfg 104 s 602 ex_conv_txs ex_rates ex_rates = BApplied s' /\
      get_bal (bal s') alice PTickerUSD = 80 /\ status_of s' 602 = [104]
    | _ => False
    end
  | None => False
  end.
Proof. vm_compute. repeat split; reflexivity. Qed.

(* pay_winners_history: the winner of block 104 paid on the state after 103 *)
Example pay_winners_history_hyps :
  match ex_state 3 with
  | Some s =>
    match pay_winners s 1104 (v_winners (ex_verdict 104)) with
    | Ok s' =>
      payouts_fit (v_winners (ex_verdict 104)) = true /\
      length (winner_rows (v_winners (ex_verdict 104))) = 1%nat /\
      get_bal (bal s) bob PTickerPEG = 0 /\ get_bal (bal s') bob PTickerPEG = 5 /\
      rows_effect 0 bob PTickerPEG (winner_rows (v_winners (ex_verdict 104))) = 5
    | _ => False
    end
  | None => False
  end.
Proof. vm_compute. repeat split; reflexivity. Qed.

(* apply_factoid_block_history: alice burns 100 FCT in block 101 *)
Example apply_factoid_block_history_hyps :
  match apply_factoid_block 101 genesis [ex_burn 501 100] with
  | Ok s' =>
    length (burn_rows [ex_burn 501 100]) = 1%nat /\
    get_bal (bal s') alice PTickerFCT = 100 /\
    rows_effect 0 alice PTickerFCT (burn_rows [ex_burn 501 100]) = 100
  | _ => False
  end.
Proof. vm_compute. repeat split; reflexivity. Qed.

(* developers_payouts_history: the developer rewards of a payout height *)
Example developers_payouts_history_hyps :
  match fst (developers_payouts ex_cfg 576 1576 genesis) with
  | Ok s' =>
    (0 <? Z.of_nat (length (dev_rows ex_cfg 576))) = true /\
    length (htxs s') = length (dev_rows ex_cfg 576) /\
    (0 <? fold_right (fun r acc => ht_to_amount r + acc) 0 (dev_rows ex_cfg 576)) = true
  | _ => False
  end.
Proof. vm_compute. repeat split; reflexivity. Qed.

(* snapshot_payouts_history: two snapshots in a row on the final state of the example chain; the second one
   finds alice and bob in both snapshots and pays them *)
Example snapshot_payouts_history_hyps :
  match ex_state 4 with
  | Some s =>
    match snapshot_payouts ex_cfg 400 1400 ex_rates s with
    | Ok s1 =>
      match snapshot_payouts ex_cfg 401 1401 ex_rates s1 with
      | Ok s2 =>
        htxs s1 = htxs s /\ length (htxs s2) = S (S (length (htxs s1))) /\
        (get_bal (bal s1) alice PTickerPEG <? get_bal (bal s2) alice PTickerPEG) = true /\
        get_bal (bal s2) alice PTickerPEG - get_bal (bal s1) alice PTickerPEG =
          rows_effect 0 alice PTickerPEG (skipn (length (htxs s1)) (htxs s2))
      | _ => False
      end
    | _ => False
    end
  | None => False
  end.
Proof. vm_compute. repeat split; reflexivity. Qed.

Print Assumptions record_batch_history.
Print Assumptions apply_batch_history.
Print Assumptions record_batch_status.
Print Assumptions apply_entry_history.
Print Assumptions apply_held_history.
Print Assumptions pay_winners_history.
Print Assumptions apply_factoid_block_history.
Print Assumptions developers_payouts_history.
Print Assumptions snapshot_payouts_history.
