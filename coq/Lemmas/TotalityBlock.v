(* Lemmas/TotalityBlock.v — C08 (sync liveness): totality of the WHOLE block function in the live era.

   [step_block_total]: for a block at a height h >= V202EnhanceActivation (and past the transaction, 2.0 and
   developer-reward activations) — the one-time activation heights of that era included: NullifyBurnAddress, the
   mint, the burn of the minted tokens — from a committed state satisfying [hist_closed] and [bal_room _ 0], with
   the tables fresh at h, when the grader oracles answer, the selected rates are well-formed, the stakes of a
   snapshot height fit, decoded batches are what the decoder lets through, the synthetic and winners' hashes are
   fresh, and there is room for everything the block credits:

        step_block c cm mem b = Done (s', mem')        — never Stuck, never Crashed, no OracleMiss

   and the invariants hold again in s'.  Every hypothesis is a named definition over (c, cm, mem, b);
   TotalityBlockExamples.v shows by vm_compute that they hold on the example chain and that the model
   really is Stuck in each excluded case. *)
From Model Require Import Block Obs.
From Lemmas Require Import ArithLemmas DbLemmas LedgerLemmas BlockLemmas FrameLemmas ChainLemmas PayoutLemmas
     HistoryLemmas3 TotalityLemmas TotalityInvariant TotalityBlockParts TotalityAdjust TotalityHolding.
From Gen Require Import Consts.
From Coq Require Import Lia ZifyBool.
Open Scope Z_scope.
Open Scope list_scope.

(* ---- the hypotheses, as named definitions ---------------------------------------------------------------------- *)
(* the live era: transactions, PegNet 2.0, developer rewards and 2.0.2 are active *)
Definition live_era (c : cfg) (h : Z) : Prop :=
  c_TransactionConversionActivation c <= h /\ c_V20HeightActivation c <= h /\
  c_V20DevRewardsHeightActivation c <= h /\ c_V202EnhanceActivation c <= h.
(* not a height with a one-time adjustment (NullifyBurnAddress twice, mint, burn of the minted tokens): no longer a
   hypothesis of the theorem, kept to name those heights *)
Definition plain_height (c : cfg) (h : Z) : Prop :=
  h <> c_V20DevRewardsHeightActivation c /\ h <> c_V202EnhanceActivation c /\
  h <> c_V204EnhanceActivation c /\ h <> c_V204BurnMintedTokenActivation c.
(* nothing recorded for this height yet (true when heights only grow: tables_below) *)
Definition fresh_at (h : Z) (cm : db) : Prop :=
  grades cm !! h = None /\ rates cm !! h = None /\ versions cm !! h = None /\ winner_rows_fresh h cm = true.
(* the grader libraries answer: the alternative the model asks for is present, NewGrader did not fail *)
Definition graders_answer (c : cfg) (cm : db) (b : block) : Prop :=
  (exists g, grade_opr c cm b = Done g) /\ (exists g, grade_spr c cm b = Done g) /\ grade_spr_err c cm b = false.

Definition winners_of (g : option verdict) : list winner := match g with Some v => v_winners v | None => [] end.
Definition entries_of (b : block) : list entry := match b_tx b with Some es => es | None => [] end.
Definition snap_due (h : Z) : bool := h mod SnapshotRate =? 0.

Section Plan.
Variables (c : cfg) (cm : db) (mem : avgcache) (b : block).
Let h := b_height b.

(* the state SyncBlock starts from (NullifyBurnAddress at its two activation heights) and the state after the mint /
   the burn of the minted tokens: they differ from cm in balances only *)
Definition res_or {A} (d : A) (r : res A) : A := match r with Ok a => a | _ => d end.
Definition pending : db :=
  let s := if h =? c_V20DevRewardsHeightActivation c then nullify_burn c cm h (b_ts b) cm else cm in
  if h =? c_V202EnhanceActivation c then nullify_burn c cm h (b_ts b) s else s.
Definition adj_of (s0 : db) : db :=
  let s1 := if h =? c_V204EnhanceActivation c then res_or s0 (mint_tokens s0) else s0 in
  if h =? c_V204BurnMintedTokenActivation c then res_or s1 (nullify_minted cm s1) else s1.
Definition adjusted : db := adj_of pending.
Definition mint_room : Prop := h = c_V204EnhanceActivation c -> bal_room pending mint_total.

Definition plan_g : option verdict := match grade_opr c cm b with Done g => g | _ => None end.
Definition plan_gS : option verdict := match grade_spr c cm b with Done g => g | _ => None end.
(* None: no rates this block; Some RErr: SyncBlock returns early (successfully); Some (RSel l): l is recorded *)
Definition sel_of (g gS : option verdict) : option rate_sel :=
  match first_assets g, first_assets gS with
  | [], [] => None
  | o, sp => Some (select_rates c h o sp)
  end.
Definition rated_of (g gS : option verdict) : option (list (Z * Z)) :=
  match sel_of g gS with Some (RSel l) => Some l | _ => None end.
Definition plan_rated : option (list (Z * Z)) := rated_of plan_g plan_gS.
(* the rates the snapshot and the held batches see *)
Definition rates1_of (r : option (list (Z * Z))) : gmap ticker Z :=
  match r with Some l => rate_map_of l | None => default ∅ (rates cm !! last_rated_below cm h) end.
Definition plan_avgs : gmap ticker Z := fst (get_averages cm (c_AveragePeriod c) mem (last_rated_below cm h)).

Definition sel_wf : bool := match plan_rated with Some l => assets_wfb l | None => true end.
Definition snapshot_ok : bool :=
  if snap_due h then stakes_fit c h (rates1_of plan_rated) (snap_cur cm) (bal adjusted) else true.
Definition held_batches_ok : bool :=
  match plan_rated with Some _ => holding_wf_basic c cm h (holding_window cm h) | None => true end.
Definition entries_ok : bool := forallb (entry_wf c h) (entries_of b).

(* the batch-row hashes the block writes by itself, in the order it writes them *)
Definition coinbase_of (g gS : option verdict) : list Z :=
  (if snap_due h then [mock_hash h] else []) ++ winner_hashes (winners_of g) ++ winner_hashes (winners_of gS) ++
  (if snap_due h then dev_hashes h else []).
Definition coinbase_fresh : Prop :=
  NoDup (coinbase_of plan_g plan_gS) /\
  forall x, In x (coinbase_of plan_g plan_gS) -> ~ In x (hist_keys cm) /\ ~ In x (map e_hash (entries_of b)).

(* everything the block can credit to one cell *)
Definition credit_of (g gS : option verdict) : Z :=
  (if snap_due h then snapshot_bank else 0) +
  match rated_of g gS with Some l => holding_credit c cm h (rate_map_of l) plan_avgs (holding_window cm h) | None => 0 end +
  block_credit c h (entries_of b) + winners_credit (winners_of g) + winners_credit (winners_of gS) +
  (if snap_due h then dev_credit c h else 0).
Definition block_room : Prop := bal_room adjusted (credit_of plan_g plan_gS).

Definition block_hyps : Prop :=
  live_era c h /\ mint_room /\ fresh_at h cm /\ cache_nonneg mem /\ graders_answer c cm b /\
  sel_wf = true /\ snapshot_ok = true /\ held_batches_ok = true /\ entries_ok = true /\ coinbase_fresh /\ block_room.
End Plan.

Lemma is_empty_map_empty : is_empty_map (∅ : gmap ticker Z) = true.
Proof. unfold is_empty_map. rewrite map_to_list_empty. reflexivity. Qed.

Lemma nodup_app_r {A} (l k : list A) : NoDup (l ++ k) -> NoDup k.
Proof. induction l as [|x l IH]; cbn [app]; intros H; [exact H|]. inversion H; subst. apply IH; assumption. Qed.

Lemma fresh_step (K E A B ks : list Z) x :
  incl ks (K ++ E ++ A) -> NoDup (A ++ B) -> In x B -> ~ In x K -> ~ In x E -> ~ In x ks.
Proof.
  intros Hi Hnd HB HK HE Hin. apply Hi in Hin. apply in_app_or in Hin as [Hin|Hin]; [contradiction|].
  apply in_app_or in Hin as [Hin|Hin]; [contradiction|]. exact (nodup_app_disjoint _ _ x Hnd Hin HB).
Qed.

Lemma rate_match_eq {A} c h (o sp : list (Z * Z)) (a : A) (f : list (Z * Z) -> A) (e : A) :
  match o with
  | [] => match sp with [] => a | _ :: _ => match select_rates c h o sp with RSel l => f l | RErr => e end end
  | _ :: _ => match select_rates c h o sp with RSel l => f l | RErr => e end
  end = match (match o, sp with [], [] => None | _, _ => Some (select_rates c h o sp) end) with
        | None => a | Some (RSel l) => f l | Some RErr => e end.
Proof. destruct o, sp; reflexivity. Qed.

Ltac zs := let h1 := ident:(HSB) in let h2 := ident:(HHC) in let h3 := ident:(HBC) in let h4 := ident:(HWC) in let h5 := ident:(HWSC) in let h6 := ident:(HDC) in clear -h1 h2 h3 h4 h5 h6; lia.
(* pn_grade and pn_winners: only InsertGradeBlock writes them *)
Definition GW (s : db) := (grades s, winners s).
Ltac gw L H := symmetry; eapply (L _ GW eq _); [..|exact H]; untouched.

Ltac room H := eapply bal_room_weaken; [|exact H]; zs.

Section Walk.
Variables (c : cfg) (cm : db) (mem : avgcache) (b : block).
Let h := b_height b.

Lemma sync_block_total g gS s0 :
  live_era c h -> only_bal cm s0 -> bal_room s0 0 -> nonneg cm ->
  (h = c_V204EnhanceActivation c -> bal_room s0 mint_total) ->
  hist_closed cm -> fresh_at h cm -> cache_nonneg mem ->
  grade_opr c cm b = Done g -> grade_spr c cm b = Done gS -> grade_spr_err c cm b = false ->
  match rated_of c b g gS with Some l => assets_wfb l | None => true end = true ->
  (if snap_due h then stakes_fit c h (rates1_of cm b (rated_of c b g gS)) (snap_cur cm) (bal (adj_of c cm b s0)) else true) = true ->
  match rated_of c b g gS with Some _ => holding_wf_basic c cm h (holding_window cm h) | None => true end = true ->
  entries_ok c b = true ->
  NoDup (coinbase_of b g gS) ->
  (forall x, In x (coinbase_of b g gS) -> ~ In x (hist_keys cm) /\ ~ In x (map e_hash (entries_of b))) ->
  bal_room (adj_of c cm b s0) (credit_of c cm mem b g gS) ->
  exists s' mem', sync_block c cm mem b s0 = Done (s', mem') /\ hist_closed s' /\ bal_room s' 0 /\ cache_nonneg mem' /\
    (forall k, k <> h -> grades s' !! k = grades cm !! k) /\
    (forall r, In r (winners s') -> In r (winners cm) \/ fst (fst (fst (fst r))) = h).
Proof.
  intros (Ltx & L20 & Ldev & L202) Hob0 Hr00 Hnn Hmint Hcl (Fg & Fr & Fv & Fw) Hmem Hg HgS Herr Hsel Hsnap Hheld Hent Hnd Hfresh Hroom.
  unfold sync_block. cbv zeta. fold h.
  assert (E3 : (c_V20HeightActivation c <=? h) = true) by lia.
  assert (E4 : (h <? c_V20HeightActivation c) = false) by lia.
  (* the mint and the burn of the minted tokens *)
  unfold adj_of in Hsnap, Hroom. fold h in Hsnap, Hroom. cbv zeta in Hsnap, Hroom.
  match goal with |- exists s' mem', obind (of_res ?X) _ = _ /\ _ =>
    assert (HM : exists s1, X = Ok s1 /\ only_bal s0 s1 /\ bal_room s1 0 /\
                            s1 = (if h =? c_V204EnhanceActivation c then res_or s0 (mint_tokens s0) else s0)) end.
  { destruct (Z.eqb_spec h (c_V204EnhanceActivation c)) as [Em|Em].
    - destruct (mint_tokens_total s0 0) as (s1 & M1 & M2 & M3); [lia|eapply bal_room_weaken; [|exact (Hmint Em)]; lia|].
      exists s1. rewrite M1. cbn [res_or]. auto.
    - exists s0. split; [reflexivity|]. split; [apply only_bal_refl|]. split; [exact Hr00|reflexivity]. }
  destruct HM as (sm & EM & Hobm & Hrm & Esm). rewrite EM. cbn [of_res obind]. rewrite <- Esm in Hsnap, Hroom. clear EM Esm.
  match goal with |- exists s' mem', obind (of_res ?X) _ = _ /\ _ =>
    assert (HN : exists s2, X = Ok s2 /\ only_bal sm s2 /\ bal_room s2 0 /\
                            s2 = (if h =? c_V204BurnMintedTokenActivation c then res_or sm (nullify_minted cm sm) else sm)) end.
  { destruct (Z.eqb_spec h (c_V204BurnMintedTokenActivation c)) as [Em|Em].
    - destruct (nullify_minted_total cm sm Hnn Hrm) as (s2 & N1 & N2 & N3).
      exists s2. rewrite N1. cbn [res_or]. split; [reflexivity|]. split; [exact N2|]. split; [|reflexivity].
      eapply shrunk_room; [split; [exact N2|exact N3]|exact Hrm].
    - exists sm. split; [reflexivity|]. split; [apply only_bal_refl|]. split; [exact Hrm|reflexivity]. }
  destruct HN as (sp & EN & Hobp & Hrp & Esp). rewrite EN. cbn [of_res obind]. rewrite <- Esp in Hsnap, Hroom. clear EN Esp.
  assert (Hob : only_bal cm sp) by (eapply only_bal_trans; [exact Hob0|]; eapply only_bal_trans; eauto).
  assert (Kp : keys sp = keys cm) by (apply only_bal_keys; exact Hob).
  assert (Rp : rates sp = rates cm) by (rewrite Hob; reflexivity).
  assert (Gp : grades sp = grades cm) by (rewrite Hob; reflexivity).
  assert (Wp : winners sp = winners cm) by (rewrite Hob; reflexivity).
  assert (Sp : snap_cur sp = snap_cur cm) by (rewrite Hob; reflexivity).
  clear Hob0 Hobm Hobp Hrm Hr00 Hmint sm.
  rewrite Hg. cbn [obind]. rewrite E3, HgS. cbn [obind]. rewrite E4, Herr.
  match goal with |- exists s' mem', obind ?ST ?K = _ /\ _ => set (K0 := K) end.
  (* abbreviations for the credits and the coinbase hashes *)
  unfold credit_of in Hroom. fold h in Hroom.
  set (SB := if snap_due h then snapshot_bank else 0) in *.
  set (HC := match rated_of c b g gS with Some l => holding_credit c cm h (rate_map_of l) (plan_avgs c cm mem b) (holding_window cm h) | None => 0 end) in *.
  set (BC := block_credit c h (entries_of b)) in *.
  set (WC := winners_credit (winners_of g)) in *. set (WSC := winners_credit (winners_of gS)) in *.
  set (DC := if snap_due h then dev_credit c h else 0) in *.
  unfold coinbase_of in Hnd, Hfresh. fold h in Hnd, Hfresh.
  set (SL := if snap_due h then [mock_hash h] else []) in *.
  set (WL := winner_hashes (winners_of g)) in *. set (WSL := winner_hashes (winners_of gS)) in *.
  set (DL := if snap_due h then dev_hashes h else []) in *.
  set (EL := map e_hash (entries_of b)) in *.
  pose proof (get_averages_nonneg cm (c_AveragePeriod c) mem (last_rated_below cm h)) as Havg0.
  destruct (get_averages cm (c_AveragePeriod c) mem (last_rated_below cm h)) as [avgs0 mem0] eqn:Eavg.
  destruct (Havg0 avgs0 mem0 Hmem eq_refl) as [Havg Hmem0]. clear Havg0.
  assert (Epa : plan_avgs c cm mem b = avgs0) by (unfold plan_avgs; fold h; rewrite Eavg; reflexivity).
  assert (HSB : 0 <= SB) by (unfold SB; destruct (snap_due h); [apply snapshot_bank_nonneg|lia]).
  assert (HHC : 0 <= HC).
  { unfold HC. destruct (rated_of c b g gS) as [l|] eqn:Er; [|lia]. rewrite Epa.
    apply holding_credit_nonneg; [apply rate_map_of_nonempty|exact (rate_map_of_nonneg l Hsel)|exact Havg]. }
  assert (HBC : 0 <= BC) by apply block_credit_nonneg.
  assert (HWC : 0 <= WC) by apply winners_credit_nonneg. assert (HWSC : 0 <= WSC) by apply winners_credit_nonneg.
  assert (HDC : 0 <= DC).
  { unfold DC. destruct (snap_due h); [|lia]. apply dev_credit_of_nonneg. intros d Hd. apply dev_rewards_reward_nonneg; exact Hd. }
  (* what is known about the state after the rate phase *)
  pose (Fr3 := fun (s3 : db) (isr : bool) =>
     bal s3 = bal sp /\ keys s3 = keys cm /\ snap_cur s3 = snap_cur cm /\
     rates s3 = match rated_of c b g gS with Some l => <[h := rate_map_of l]> (rates cm) | None => rates cm end /\
     isr = match rated_of c b g gS with Some _ => true | None => false end).
  assert (Cont : forall s3 isr, Fr3 s3 isr ->
            exists s' mem', K0 (s3, isr, false) = Done (s', mem') /\ hist_closed s' /\ bal_room s' 0 /\ cache_nonneg mem' /\ GW s' = GW s3).
  { intros s3 isr (F1 & F2 & F3 & F4 & F5). unfold K0. cbv beta iota.
    assert (Etx : (c_TransactionConversionActivation c <=? h) = true) by (clear -Ltx; lia). rewrite Etx.
    assert (Hcl3 : hist_closed s3) by (eapply hist_closed_keys; [exact F2|exact Hcl]).
    assert (Hr3 : bal_room s3 (SB + HC + BC + WC + WSC + DC)) by (eapply bal_room_eq; [exact F1|exact Hroom]).
    assert (Hk3 : hist_keys s3 = hist_keys cm) by (apply keys_hist_keys; exact F2).
    (* rates at h as the rest of the block sees them *)
    assert (Hr0 : forall l, rated_of c b g gS = Some l -> default ∅ (rates s3 !! h) = rate_map_of l).
    { intros l El. rewrite F4, El, lookup_insert. reflexivity. }
    assert (Hlrb : last_rated_below s3 h = last_rated_below cm h).
    { destruct (rated_of c b g gS) as [l|] eqn:Er.
      - eapply last_rated_below_insert; [exact Fr|exact F4].
      - unfold last_rated_below. rewrite F4. reflexivity. }
    (* ---- snapshot ---- *)
    match goal with |- context [obind (if true && (h mod SnapshotRate =? 0) then ?A else ?B)] =>
      set (SN := if true && (h mod SnapshotRate =? 0) then A else B) end.
    assert (HSN : exists s5 r1, SN = Done (s5, r1) /\ hist_closed s5 /\ bal_room s5 (HC + BC + WC + WSC + DC) /\
                                incl (hist_keys s5) (hist_keys cm ++ EL ++ SL) /\ rates s5 = rates s3 /\
                                (forall l, rated_of c b g gS = Some l -> r1 = rate_map_of l) /\ GW s5 = GW s3).
    { unfold SN. cbn [andb]. fold (snap_due h). unfold SL, SB in *. destruct (snap_due h) eqn:Esd.
      - match goal with |- context [snapshot_payouts c h (b_ts b) ?R s3] =>
          assert (Er1 : R = rates1_of cm b (rated_of c b g gS)) end.
        { unfold rates1_of. fold h. destruct (rated_of c b g gS) as [l|] eqn:Er.
          - match goal with |- context [is_empty_map ?m] => replace (is_empty_map m) with false end.
            + cbn [andb]. rewrite F4, lookup_insert. reflexivity.
            + symmetry. rewrite F4, lookup_insert. cbn [from_option id]. apply rate_map_of_nonempty.
          - match goal with |- context [is_empty_map ?m] => replace (is_empty_map m) with true end.
            + assert (E202 : (c_V202EnhanceActivation c <=? h) = true) by (clear -L202; lia). rewrite E202. cbn [andb].
              unfold last_rated_below. rewrite F4. reflexivity.
            + symmetry. rewrite F4. unfold ticker in *. rewrite Fr. cbn [from_option id]. apply is_empty_map_empty. }
        rewrite Er1.
        destruct (snapshot_payouts_total c h (b_ts b) (rates1_of cm b (rated_of c b g gS)) s3 (HC + BC + WC + WSC + DC)) as (s5 & S1 & S2 & S3 & S4).
        { rewrite F3, F1. exact Hsnap. }
        { exact Hcl3. }
        { zs. }
        { eapply bal_room_weaken; [|exact Hr3]. zs. }
        { rewrite Hk3. apply (Hfresh (mock_hash h)). left. reflexivity. }
        rewrite S1. cbn [of_res obind]. exists s5, (rates1_of cm b (rated_of c b g gS)). split; [reflexivity|].
        split; [exact S2|]. split; [exact S3|].
        split; [intros x Hx; apply S4 in Hx; rewrite Hk3 in Hx; rewrite !in_app_iff in *; tauto|].
        split; [symmetry; exact (frB_snapshot c _ _ _ _ _ S1)|]. split; [intros l El; rewrite El; reflexivity|].
        gw @pr_snapshot_payouts S1.
      - exists s3, (default ∅ (rates s3 !! h)). split; [reflexivity|]. split; [exact Hcl3|].
        split; [eapply bal_room_weaken; [|exact Hr3]; zs|]. split; [rewrite Hk3; apply incl_appl, incl_refl|].
        split; [reflexivity|]. split; [exact Hr0|reflexivity]. }
    destruct HSN as (s5 & r1 & ES & Hcl5 & Hr5 & Hk5 & Hrt5 & Hr1 & Gw5). rewrite ES. clear ES. clearbody SN. clear SN. cbn [obind]. cbv beta iota.
    (* ---- held batches ---- *)
    match goal with |- exists s' mem', obind (obind ?X _) _ = _ /\ _ => set (HO := X) end.
    assert (HHO : exists s6 mem6, HO = Done (s6, mem6) /\ hist_closed s6 /\ bal_room s6 (BC + WC + WSC + DC) /\
                                  incl (hist_keys s6) (hist_keys cm ++ EL ++ SL) /\ cache_nonneg mem6 /\ GW s6 = GW s5).
    { unfold HO. rewrite F5. unfold HC in Hr5. destruct (rated_of c b g gS) as [l|] eqn:Er.
      - rewrite andb_false_r. cbn [of_res obind].
        assert (Hl5 : last_rated_below s5 h = last_rated_below cm h) by (unfold last_rated_below in *; rewrite Hrt5; exact Hlrb).
        rewrite Hl5, Eavg. rewrite Epa in Hr5.
        destruct (apply_holding_total_outside_bank_era c h (rate_map_of l) avgs0 cm s5 (BC + WC + WSC + DC)) as (s6 & A1 & A2 & A3).
        + left. exact L20.
        + apply rate_map_of_nonempty.
        + exact (rate_map_of_nonneg l Hsel).
        + exact Havg.
        + unfold holding_window. rewrite Hl5. exact Hheld.
        + zs.
        + unfold holding_window. rewrite Hl5. fold (holding_window cm h). eapply bal_room_weaken; [|exact Hr5]. zs.
        + rewrite (Hr1 l eq_refl), A1. cbn [of_res obind]. exists s6, mem0. split; [reflexivity|].
          split; [eapply hist_closed_keys; [exact A2|exact Hcl5]|]. split; [exact A3|].
          split; [rewrite (keys_hist_keys _ _ A2); exact Hk5|]. split; [exact Hmem0|].
          gw @pr_apply_holding A1.
      - exists s5, mem. split; [reflexivity|]. split; [exact Hcl5|]. split; [eapply bal_room_weaken; [|exact Hr5]; zs|].
        split; [exact Hk5|]. split; [exact Hmem|reflexivity]. }
    destruct HHO as (s6 & mem6 & EH & Hcl6 & Hr6 & Hk6 & Hm6 & Gw6). rewrite EH. clear EH. clearbody HO. clear HO. cbn [obind]. cbv beta iota.
    (* ---- the block's own entries ---- *)
    match goal with |- exists s' mem', obind (obind ?X _) _ = _ /\ _ => set (TX := X) end.
    assert (HTX : exists s7, TX = Done s7 /\ hist_closed s7 /\ bal_room s7 (WC + WSC + DC) /\
                             incl (hist_keys s7) (hist_keys cm ++ EL ++ SL) /\ GW s7 = GW s6).
    { unfold TX, BC, EL, entries_ok, entries_of in *. destruct (b_tx b) as [es|].
      - destruct (apply_tx_block_total c h s6 es (WC + WSC + DC)) as (s7 & T1 & T2 & T3);
          [exact Hcl6|apply Forall_forall; intros e He; rewrite forallb_forall in Hent; apply Hent; exact He|zs|room Hr6|].
        exists s7. rewrite T1. split; [reflexivity|]. split; [exact T2|]. split; [exact T3|]. split.
        + intros x Hx. apply (apply_tx_block_hist_keys c h es s6 s7 T1) in Hx. apply in_app_or in Hx as [Hx|Hx]; [apply Hk6; exact Hx|].
          apply in_or_app. right. apply in_or_app. left. exact Hx.
        + gw @pr_apply_tx_block T1.
      - exists s6. split; [reflexivity|]. split; [exact Hcl6|]. split; [eapply bal_room_weaken; [|exact Hr6]; cbn [block_credit fold_right]; zs|]. split; [exact Hk6|reflexivity]. }
    destruct HTX as (s7 & ET & Hcl7 & Hr7 & Hk7 & Gw7). rewrite ET. clear ET. clearbody TX. clear TX. cbn [obind]. cbv beta iota. cbn [obind].
    (* ---- miners ---- *)
    assert (HfK : forall x, In x (SL ++ WL ++ WSL ++ DL) -> ~ In x (hist_keys cm)) by (intros x Hx; apply (Hfresh x Hx)).
    assert (HfE : forall x, In x (SL ++ WL ++ WSL ++ DL) -> ~ In x EL) by (intros x Hx; apply (Hfresh x Hx)).
    match goal with |- exists s' mem', obind ?X _ = _ /\ _ => set (PW := X) end.
    assert (HPW : exists s8, PW = Done s8 /\ hist_closed s8 /\ bal_room s8 (WSC + DC) /\
                             incl (hist_keys s8) (hist_keys cm ++ EL ++ (SL ++ WL)) /\ GW s8 = GW s7).
    { unfold PW. unfold WC in Hr7. unfold WL in *. destruct g as [v|]; cbn [winners_of] in *.
      - destruct (pay_winners_total (b_ts b) (v_winners v) s7 (WSC + DC) Hcl7) as (s8 & P1 & P2 & P3 & P4); [zs|room Hr7| | |].
        + exact (nodup_app_l _ _ (nodup_app_r _ _ Hnd)).
        + intros x Hx. apply (fresh_step (hist_keys cm) EL SL (winner_hashes (v_winners v) ++ WSL ++ DL) _ x Hk7 Hnd);
            [apply in_or_app; left; exact Hx|apply HfK|apply HfE]; apply in_or_app; right; apply in_or_app; left; exact Hx.
        + exists s8. rewrite P1. split; [reflexivity|]. split; [exact P2|]. split; [exact P3|]. split.
          * rewrite P4. intros x Hx. apply in_app_or in Hx as [Hx|Hx]; [apply Hk7 in Hx|]; rewrite !in_app_iff in *; tauto.
          * gw @pr_pay_winners P1.
      - exists s7. split; [reflexivity|]. split; [exact Hcl7|]. split; [eapply bal_room_weaken; [|exact Hr7]; cbn; zs|].
        split; [|reflexivity]. cbn [winner_hashes flat_map]. rewrite app_nil_r. exact Hk7. }
    destruct HPW as (s8 & EP & Hcl8 & Hr8 & Hk8 & Gw8). rewrite EP. clear EP. clearbody PW. clear PW. cbn [obind].
    (* ---- stakers ---- *)
    cbv beta iota.
    match goal with |- exists s' mem', obind ?X _ = _ /\ _ => set (PS := X) end.
    assert (Hnd2 : NoDup ((SL ++ WL) ++ WSL ++ DL)) by (rewrite <- app_assoc; exact Hnd).
    assert (HPS : exists s9, PS = Done s9 /\ hist_closed s9 /\ bal_room s9 DC /\
                             incl (hist_keys s9) (hist_keys cm ++ EL ++ ((SL ++ WL) ++ WSL)) /\ GW s9 = GW s8).
    { unfold PS. unfold WSC in Hr8. unfold WSL in *. destruct gS as [v|]; cbn [winners_of] in *.
      - destruct (pay_winners_total (b_ts b) (v_winners v) s8 DC Hcl8) as (s9 & P1 & P2 & P3 & P4); [zs|room Hr8| | |].
        + exact (nodup_app_l _ _ (nodup_app_r _ _ Hnd2)).
        + intros x Hx. apply (fresh_step (hist_keys cm) EL (SL ++ WL) (winner_hashes (v_winners v) ++ DL) _ x Hk8 Hnd2);
            [apply in_or_app; left; exact Hx|apply HfK|apply HfE]; apply in_or_app; right; apply in_or_app; right; apply in_or_app; left; exact Hx.
        + exists s9. rewrite P1. split; [reflexivity|]. split; [exact P2|]. split; [exact P3|]. split.
          * rewrite P4. intros x Hx. apply in_app_or in Hx as [Hx|Hx]; [apply Hk8 in Hx|]; rewrite !in_app_iff in *; tauto.
          * gw @pr_pay_winners P1.
      - exists s8. split; [reflexivity|]. split; [exact Hcl8|]. split; [eapply bal_room_weaken; [|exact Hr8]; cbn; zs|].
        split; [|reflexivity]. cbn [winner_hashes flat_map]. rewrite app_nil_r. exact Hk8. }
    destruct HPS as (s9 & EPS & Hcl9 & Hr9 & Hk9 & Gw9). rewrite EPS. clear EPS. clearbody PS. clear PS. cbn [obind].
    (* ---- developers ---- *)
    assert (Edev : (c_V20DevRewardsHeightActivation c <=? h) = true) by (clear -Ldev; lia). rewrite Edev. cbn [andb]. fold (snap_due h).
    assert (Hnd3 : NoDup (((SL ++ WL) ++ WSL) ++ DL)) by (rewrite <- !app_assoc; exact Hnd).
    unfold DC in Hr9. unfold DL in *. destruct (snap_due h) eqn:Esd.
    + destruct (developers_payouts_total c h (b_ts b) s9 0 Hcl9) as (s10 & D1 & D2 & D3 & _); [zs|room Hr9|exact (nodup_app_r _ _ Hnd3)| |].
      * intros x Hx. apply (fresh_step (hist_keys cm) EL ((SL ++ WL) ++ WSL) (dev_hashes h) _ x Hk9 Hnd3 Hx);
          [apply HfK|apply HfE]; apply in_or_app; right; apply in_or_app; right; apply in_or_app; right; exact Hx.
      * rewrite D1. cbn [of_res obind]. exists s10, mem6. split; [reflexivity|]. split; [exact D2|]. split; [exact D3|]. split; [exact Hm6|].
        assert (Gw10 : GW s10 = GW s9) by (gw @pr_developers_payouts D1).
        congruence.
    + cbn [obind]. exists s9, mem6. split; [reflexivity|]. split; [exact Hcl9|]. split; [eapply bal_room_weaken; [|exact Hr9]; zs|].
      split; [exact Hm6|congruence]. }
  (* ---- the rate phase ---- *)
  match goal with |- exists s' mem', obind (obind ?X _) _ = _ /\ _ => set (GR := X) end.
  assert (HGR : exists s1, GR = Done s1 /\ bal s1 = bal sp /\ keys s1 = keys cm /\ snap_cur s1 = snap_cur cm /\ rates s1 = rates cm /\
                           (forall k, k <> h -> grades s1 !! k = grades cm !! k) /\
                           (forall r, In r (winners s1) -> In r (winners cm) \/ fst (fst (fst (fst r))) = h)).
  { unfold GR. destruct g as [v|].
    - destruct (insert_grade_total h sp v) as (w0 & EG & Hw0); [rewrite Gp; exact Fg|unfold winner_rows_fresh; rewrite Wp; exact Fw|].
      rewrite EG. eexists. split; [reflexivity|].
      split; [reflexivity|]. split; [exact Kp|]. split; [exact Sp|]. split; [exact Rp|]. split.
      + intros k Hk. cbn [grades set_grades]. rewrite Gp. apply lookup_insert_ne. auto.
      + intros r Hr. cbn [winners set_grades] in Hr. rewrite Wp in Hr. apply in_app_or in Hr as [Hr|Hr]; [left; exact Hr|right].
        rewrite Forall_forall in Hw0. exact (Hw0 r Hr).
    - exists sp. split; [reflexivity|]. split; [reflexivity|]. split; [exact Kp|]. split; [exact Sp|]. split; [exact Rp|].
      split; [intros k _; rewrite Gp; reflexivity|intros r Hr; rewrite Wp in Hr; left; exact Hr]. }
  destruct HGR as (s1 & EG & G1 & G2 & G3 & G4 & G5 & G6).
  assert (Fin : forall s' s3, GW s' = GW s3 -> GW s3 = GW s1 ->
            (forall k, k <> h -> grades s' !! k = grades cm !! k) /\
            (forall r, In r (winners s') -> In r (winners cm) \/ fst (fst (fst (fst r))) = h)).
  { intros s' s3 Ea Eb. assert (Ec : GW s' = GW s1) by congruence. unfold GW in Ec. inversion Ec as [[Eg Ew]].
    rewrite Eg, Ew. split; assumption. } rewrite EG. clear EG. clearbody GR. clear GR. cbn [obind].
  rewrite rate_match_eq.
  match goal with |- exists s' mem', obind (match ?M with Some _ => _ | None => _ end) _ = _ /\ _ =>
    assert (Esel : M = sel_of c b g gS) by (unfold sel_of; fold h; destruct (first_assets g), (first_assets gS); reflexivity);
    rewrite Esel; clear Esel end.
  assert (Hcl1 : hist_closed s1) by (eapply hist_closed_keys; [exact G2|exact Hcl]).
  unfold HC in *. clear HC. unfold rated_of in *. destruct (sel_of c b g gS) as [[l|]|] eqn:Es.
  - (* rates are recorded *)
    rewrite (insert_rates_total cm h s1 l); [|rewrite G4; exact Fr|exact Hsel]. cbn [of_res obind].
    destruct (Cont (set_rates s1 (<[h := rate_map_of l]> (rates s1))) true) as (s' & mem' & C1 & C2 & C3 & C4 & C5).
    { unfold Fr3. split; [exact G1|]. split; [exact G2|]. split; [exact G3|]. split; [cbn [rates set_rates]; rewrite G4; reflexivity|reflexivity]. }
    exists s', mem'. split; [exact C1|]. split; [exact C2|]. split; [exact C3|]. split; [exact C4|]. exact (Fin _ _ C5 eq_refl).
  - (* the rate selection fails: SyncBlock returns nil here *)
    cbn [obind]. unfold K0. cbv beta iota. exists s1, mem. split; [reflexivity|]. split; [exact Hcl1|].
    split; [eapply bal_room_eq; [exact G1|]; eapply bal_room_weaken; [|exact Hroom]; zs|]. split; [exact Hmem|]. split; assumption.
  - (* no rates *)
    cbn [obind]. destruct (Cont s1 false) as (s' & mem' & C1 & C2 & C3 & C4 & C5).
    { unfold Fr3. split; [exact G1|]. split; [exact G2|]. split; [exact G3|]. split; [exact G4|reflexivity]. }
    exists s', mem'. split; [exact C1|]. split; [exact C2|]. split; [exact C3|]. split; [exact C4|]. exact (Fin _ _ C5 eq_refl).
Qed.
End Walk.

(* ---- the loop body ---------------------------------------------------------------------------------------------------- *)
Theorem step_block_total c cm mem b :
  hist_closed cm -> bal_room cm 0 -> block_hyps c cm mem b ->
  exists s' mem', step_block c cm mem b = Done (s', mem') /\ hist_closed s' /\ bal_room s' 0 /\ cache_nonneg mem' /\
    (forall k, k <> b_height b -> grades s' !! k = grades cm !! k) /\
    (forall r, In r (winners s') -> In r (winners cm) \/ fst (fst (fst (fst r))) = b_height b).
Proof.
  intros Hcl Hr0 (Hlive & Hmint & Hfr & Hmem & ((g & Hg) & (gS & HgS) & Herr) & Hsel & Hsnap & Hheld & Hent & [Hnd Hfresh] & Hroom).
  assert (Pg : plan_g c cm b = g) by (unfold plan_g; rewrite Hg; reflexivity).
  assert (PgS : plan_gS c cm b = gS) by (unfold plan_gS; rewrite HgS; reflexivity).
  unfold sel_wf, snapshot_ok, held_batches_ok, block_room, plan_rated, mint_room, adjusted in *. rewrite Pg, PgS in *.
  pose proof (bal_room_nonneg cm 0 Hr0) as Hnn.
  (* NullifyBurnAddress, at its activation heights, only lowers balances of the burn address *)
  assert (Hsh : shrunk cm (pending c cm b)).
  { destruct Hlive as (_ & _ & _ & L202). unfold pending.
    destruct (b_height b =? c_V20DevRewardsHeightActivation c); destruct (b_height b =? c_V202EnhanceActivation c).
    - eapply shrunk_trans; [apply (nullify_burn_new_era c cm (b_height b) (b_ts b) cm L202 Hnn Hr0)|].
      apply nullify_burn_new_era; [exact L202|exact Hnn|]. eapply shrunk_room; [|exact Hr0]. apply nullify_burn_new_era; assumption.
    - apply nullify_burn_new_era; assumption.
    - apply nullify_burn_new_era; assumption.
    - apply shrunk_refl. }
  destruct (sync_block_total c cm mem b g gS (pending c cm b) Hlive (proj1 Hsh) (shrunk_room _ _ _ Hsh Hr0) Hnn Hmint Hcl Hfr Hmem
              Hg HgS Herr Hsel Hsnap Hheld Hent Hnd Hfresh Hroom)
    as (s1 & mem1 & HS & Hc1 & Hr1 & Hm1 & Hg1 & Hw1).
  unfold step_block. cbv zeta. destruct Hfr as (_ & _ & Fv & _).
  match goal with |- context [sync_block c cm mem b ?X] => change X with (pending c cm b) end.
  rewrite HS. cbn [obind].
  (* the sync height: pn_sync_version is not touched by SyncBlock *)
  assert (Ev : versions s1 = versions cm).
  { assert (Hgr : forall h0 s0 v s4, insert_grade h0 s0 v = Ok s4 -> versions s0 = versions s4).
    { intros h0 s0 v s4 Hi. apply insert_grade_shape in Hi as (? & ? & ->). reflexivity. }
    assert (Hrt : forall cm0 h0 s0 a ph s4, True -> insert_rates cm0 h0 s0 a ph = Ok s4 -> versions s0 = versions s4).
    { intros cm0 h0 s0 a ph s4 _ Hi. apply insert_rates_shape in Hi as (_ & m & ->). reflexivity. }
    transitivity (versions (pending c cm b)); [|rewrite (proj1 Hsh); reflexivity].
    symmetry. refine (pr_sync_block versions eq _ _ _ _ _ _ _ _ _ _ c _ Hgr (fun _ => True) Hrt cm mem b (pending c cm b) s1 mem1 I HS); untouched. }
  destruct (insert_synced_total s1 (b_height b)) as (s2 & I1 & I2 & I3); [rewrite Ev; exact Fv|].
  rewrite I1. cbn [of_res obind]. exists s2, mem1. split; [reflexivity|].
  split; [eapply hist_closed_keys; [exact I2|exact Hc1]|]. split; [eapply bal_room_eq; [exact I3|exact Hr1]|]. split; [exact Hm1|].
  unfold insert_synced in I1. destruct (versions s1 !! b_height b); [discriminate|]. inversion I1; subst s2. cbn [grades winners set_synced].
  split; assumption.
Qed.

(* ---- the hypotheses as one boolean, for computation --------------------------------------------------------------------- *)
Definition nonep {A} (o : option A) : bool := match o with None => true | Some _ => false end.
Definition is_done {A} (o : outcome A) : bool := match o with Done _ => true | _ => false end.
Definition live_erab (c : cfg) (h : Z) : bool :=
  (c_TransactionConversionActivation c <=? h) && (c_V20HeightActivation c <=? h) &&
  (c_V20DevRewardsHeightActivation c <=? h) && (c_V202EnhanceActivation c <=? h).
Definition plain_heightb (c : cfg) (h : Z) : bool :=
  negb (h =? c_V20DevRewardsHeightActivation c) && negb (h =? c_V202EnhanceActivation c) &&
  negb (h =? c_V204EnhanceActivation c) && negb (h =? c_V204BurnMintedTokenActivation c).
Definition fresh_atb (h : Z) (cm : db) : bool :=
  nonep (grades cm !! h) && nonep (rates cm !! h) && nonep (versions cm !! h) && winner_rows_fresh h cm.
Definition graders_answerb (c : cfg) (cm : db) (b : block) : bool :=
  is_done (grade_opr c cm b) && is_done (grade_spr c cm b) && negb (grade_spr_err c cm b).
Definition coinbase_freshb (c : cfg) (cm : db) (b : block) : bool :=
  let L := coinbase_of b (plan_g c cm b) (plan_gS c cm b) in
  negb (has_dup L) &&
  forallb (fun x => negb (existsb (Z.eqb x) (hist_keys cm)) && negb (existsb (Z.eqb x) (map e_hash (entries_of b)))) L.
Definition block_hypsb (c : cfg) (cm : db) (mem : avgcache) (b : block) : bool :=
  live_erab c (b_height b) &&
  (if b_height b =? c_V204EnhanceActivation c then bal_roomb (pending c cm b) mint_total else true) &&
  fresh_atb (b_height b) cm && rates_nonnegb (ac_avgs mem) &&
  graders_answerb c cm b && sel_wf c cm b && snapshot_ok c cm b && held_batches_ok c cm b && entries_ok c b &&
  coinbase_freshb c cm b && bal_roomb (adjusted c cm b) (credit_of c cm mem b (plan_g c cm b) (plan_gS c cm b)).

Lemma has_dup_false_nodup l : has_dup l = false -> NoDup l.
Proof.
  induction l as [|x l IH]; cbn [has_dup]; intros H; [constructor|]. apply orb_false_elim in H as [H1 H2].
  constructor; [|apply IH; exact H2]. intros Hin. apply existsb_eqb_in in Hin. congruence.
Qed.
Lemma nonep_spec {A} (o : option A) : nonep o = true -> o = None.
Proof. destruct o; [discriminate|reflexivity]. Qed.
Lemma is_done_spec {A} (o : outcome A) : is_done o = true -> exists a, o = Done a.
Proof. destruct o; try discriminate. eauto. Qed.

Lemma block_hypsb_spec c cm mem b : block_hypsb c cm mem b = true -> block_hyps c cm mem b.
Proof.
  unfold block_hypsb, block_hyps. intros H.
  repeat match type of H with (_ && _) = true => let H' := fresh "B" in apply andb_prop in H as [H H'] end.
  split; [unfold live_erab in H; unfold live_era; lia|].
  split.
  { unfold mint_room. intros Em. apply Z.eqb_eq in Em. rewrite Em in B8. apply bal_roomb_spec. exact B8. }
  split.
  { unfold fresh_atb in B7. apply andb_prop in B7 as [B7 W]. apply andb_prop in B7 as [B7 V]. apply andb_prop in B7 as [G R].
    split; [apply nonep_spec; exact G|]. split; [apply nonep_spec; exact R|]. split; [apply nonep_spec; exact V|exact W]. }
  split; [exact (rates_nonnegb_spec _ B6)|].
  split.
  { unfold graders_answerb in B5. apply andb_prop in B5 as [B5 E]. apply andb_prop in B5 as [O S].
    split; [apply is_done_spec; exact O|]. split; [apply is_done_spec; exact S|]. apply negb_true_iff. exact E. }
  split; [exact B4|]. split; [exact B3|]. split; [exact B2|]. split; [exact B1|].
  split.
  { unfold coinbase_freshb in B0. cbv zeta in B0. apply andb_prop in B0 as [N F]. split.
    - apply has_dup_false_nodup. apply negb_true_iff. exact N.
    - intros x Hx. rewrite forallb_forall in F. specialize (F x Hx). apply andb_prop in F as [F1 F2].
      split; intros K; apply existsb_eqb_in in K; [rewrite K in F1|rewrite K in F2]; discriminate. }
  apply bal_roomb_spec. exact B.
Qed.

(* ---- [sel_wf] from the well-formedness of the winning records ---------------------------------------------------------- *)
(* If the asset lists of both winning records have distinct names and values that fit a SQL argument, so has whatever
   the rate selection makes of them (it keeps a sub-list of the OPR names, with the OPR value or 0). *)
Definition assets_wfP (l : list (Z * Z)) : Prop := NoDup (map fst l) /\ Forall (fun a => 0 <= snd a < two63) l.
Lemma has_dup_nodup l : has_dup l = false <-> NoDup l.
Proof.
  split; [apply has_dup_false_nodup|]. induction 1 as [|x l Hx _ IH]; [reflexivity|]. cbn [has_dup]. rewrite IH, orb_false_r.
  apply not_true_is_false. intros K. apply existsb_eqb_in in K. contradiction.
Qed.
Lemma assets_wfb_P l : assets_wfb l = true <-> assets_wfP l.
Proof.
  unfold assets_wfb, assets_wfP. rewrite andb_true_iff, negb_true_iff, has_dup_nodup, forallb_forall, Forall_forall.
  split; intros [H1 H2]; (split; [exact H1|]); intros a Ha; specialize (H2 a Ha); lia.
Qed.

Lemma band_filter_wf c h v0 o : forall sp l,
  assets_wfP o -> band_filter c h v0 o sp = RSel l ->
  assets_wfP l /\ (forall x, In x (map fst l) -> In x (map fst o)).
Proof.
  induction o as [|[on ov] o IH]; intros sp l [Hn Hv] H; cbn [band_filter] in H.
  - inversion H; subst. split; [split; constructor|intros x []].
  - destruct sp as [|[sn sv] sp]; [inversion H; subst; split; [split; constructor|intros x []]|].
    cbn [map] in Hn. apply NoDup_cons_iff in Hn as [Hn1 Hn2]. inversion Hv as [|? ? Hov Hv']; subst. cbn [snd] in Hov.
    assert (Ho' : assets_wfP o) by (split; assumption).
    assert (Cons : forall val l0, 0 <= val < two63 -> band_filter c h v0 o sp = RSel l0 ->
              assets_wfP ((on, val) :: l0) /\ (forall x, In x (map fst ((on, val) :: l0)) -> In x (map fst ((on, ov) :: o)))).
    { intros val l0 Hval E. destruct (IH sp l0 Ho' E) as [[W1 W2] W3]. split.
      - split; [cbn [map fst]; constructor; [intros K; apply Hn1; apply W3; exact K|exact W1]|constructor; [exact Hval|exact W2]].
      - intros x [<-|Hx]; [left; reflexivity|right; apply W3; exact Hx]. }
    destruct (Z.eqb_spec on sn) as [->|Hne].
    + destruct (in_band _ ov sv).
      * destruct (band_filter c h v0 o sp) as [l0|] eqn:E; [|discriminate]. inversion H; subst. apply Cons; [exact Hov|reflexivity].
      * destruct (_ && _); [|discriminate]. destruct (band_filter c h v0 o sp) as [l0|] eqn:E; [|discriminate]. inversion H; subst.
        apply Cons; [unfold two63; lia|reflexivity].
    + destruct (IH sp l Ho' H) as [W W3]. split; [exact W|]. intros x Hx. right. apply W3. exact Hx.
Qed.

Lemma select_rates_wf c h o sp l :
  assets_wfb o = true -> assets_wfb sp = true -> select_rates c h o sp = RSel l -> assets_wfb l = true.
Proof.
  intros Ho Hs H. unfold select_rates in H. destruct o as [|o0 o']; destruct sp as [|s0 s''].
  - discriminate.
  - inversion H; subst; exact Hs.
  - inversion H; subst; exact Ho.
  - destruct (Nat.eqb _ _); [|discriminate]. apply assets_wfb_P. apply assets_wfb_P in Ho.
    exact (proj1 (band_filter_wf _ _ _ _ _ _ Ho H)).
Qed.

(* the records the graders hand over *)
Definition verdicts_wf (c : cfg) (cm : db) (b : block) : bool :=
  assets_wfb (first_assets (plan_g c cm b)) && assets_wfb (first_assets (plan_gS c cm b)).
Lemma sel_wf_from_verdicts c cm b : verdicts_wf c cm b = true -> sel_wf c cm b = true.
Proof.
  unfold verdicts_wf, sel_wf, plan_rated, rated_of, sel_of. intros H. apply andb_prop in H as [Ho Hs].
  destruct (first_assets (plan_g c cm b)) as [|o0 o] eqn:Eo; destruct (first_assets (plan_gS c cm b)) as [|p0 p] eqn:Ep; try reflexivity;
    (destruct (select_rates c (b_height b) _ _) as [l|] eqn:E; [|reflexivity]; eapply select_rates_wf; [| |exact E]; assumption).
Qed.

Print Assumptions step_block_total.
