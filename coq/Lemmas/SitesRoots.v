(* Obligations over the regenerated tables of Gen/Sites.v, by [vm_compute] over the whole (finite) table.
   One file per property, so that a table that no longer matches breaks only the property it belongs to. *)
From Coq Require Import String List Bool Arith.
From Gen Require Import Sites.
From Model Require Import SitesSpec.
Import ListNotations.
Open Scope string_scope.

(* ------------------------------------------------------------------ roots *)

Lemma sync_roots_expected : check_sync_roots = true.
Proof. vm_compute; reflexivity. Qed.

