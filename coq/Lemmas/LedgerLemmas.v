(* Lemmas/LedgerLemmas.v — invariants of the transaction-processing part of the ledger model
   (Model/Ledger.v): balances never negative, rejected batches inert. *)
From Model Require Import Ledger.
From Lemmas Require Import ArithLemmas DbLemmas.
From Gen Require Import Consts.
From Coq Require Import Lia.
Open Scope Z_scope.

Definition tx_amounts_ok (t : tx) : Prop :=
  0 <= tx_amt t /\ Forall (fun tr => 0 <= tr_amt tr) (tx_transfers t).
Definition txs_ok (txs : list tx) : Prop := Forall tx_amounts_ok txs.

Section WithCfg.
Variable c : cfg.

Lemma credit_transfers_nonneg h hs idx ty trs s s' :
  nonneg s -> Forall (fun tr => 0 <= tr_amt tr) trs ->
  credit_transfers c h hs idx ty trs s = Ok s' -> nonneg s'.
Proof.
  intros Hn Hf H. unfold credit_transfers in H.
  eapply (fold_res_inv_in nonneg
            (fun s' tr => if tr_addr tr =? burn_addr c h then Ok s'
                          else let? s1 := add_to_balance s' (tr_addr tr) ty (tr_amt tr) in
                               Ok (insert_relation s1 (tr_addr tr) hs idx true false))); [|exact Hn|exact H].
  intros s0 tr s1 Hin Hn0 Hs. destruct (tr_addr tr =? burn_addr c h).
  - inversion Hs; subst; exact Hn0.
  - apply rbind_ok in Hs as (s2 & Ha & Hr). inversion Hr; subst.
    unfold nonneg. rewrite bal_insert_relation. eapply add_to_balance_nonneg; [exact Hn0| |exact Ha].
    rewrite Forall_forall in Hf. apply Hf; exact Hin.
Qed.

Lemma record_txs_nonneg h hs rates avgs txs : forall idx s s',
  nonneg s -> txs_ok txs -> record_txs c h hs rates avgs idx txs s = Ok s' -> nonneg s'.
Proof.
  induction txs as [|t txs IH]; intros idx s s' Hn Hok H; cbn [record_txs] in H.
  - inversion H; subst; exact Hn.
  - inversion Hok as [|? ? [Ha Htr] Hok']; subst.
    destruct (sub_from_balance s (tx_addr t) (tx_type t) (tx_amt t)) as [s1| |code] eqn:Es; try discriminate.
    assert (Hn1 : nonneg s1) by (eapply sub_from_balance_nonneg; eauto).
    set (s3 := set_executed (insert_relation s1 (tx_addr t) hs idx false (is_conversion t)) hs h) in *.
    assert (Hn3 : nonneg s3) by (unfold nonneg, s3; rewrite bal_set_executed, bal_insert_relation; exact Hn1).
    destruct ((c_PegnetConversionLimitActivation c <=? h) && is_peg_request t).
    + destruct (conv_of c h rates avgs t); [|discriminate]. eapply IH; eauto.
    + destruct (is_conversion t).
      * destruct (conv_of c h rates avgs t) as [out|]; [|discriminate].
        apply rbind_ok in H as (s5 & Hadd & Hrest).
        eapply IH; [|exact Hok'|exact Hrest].
        eapply add_to_balance_nonneg; [|apply wrap64_nonneg|exact Hadd].
        unfold nonneg. rewrite bal_set_to_amount. exact Hn3.
      * apply rbind_ok in H as (s4 & Hc & Hrest).
        eapply IH; [|exact Hok'|exact Hrest]. eapply credit_transfers_nonneg; eauto.
Qed.

Lemma check_txs_not_applied h s rates avgs txs s' : check_txs c h s rates avgs txs <> Some (BApplied s').
Proof.
  induction txs as [|t txs IH]; cbn [check_txs]; [discriminate|].
  repeat match goal with |- (if ?b then _ else _) <> _ => destruct b; try discriminate end; try exact IH.
Qed.
Lemma sim_txs_not_applied h present rates avgs txs s' : forall m,
  sim_txs c h present rates avgs m txs <> Some (BApplied s').
Proof.
  induction txs as [|t txs IH]; intros m; cbn [sim_txs]; [discriminate|].
  destruct (_ <? _); [discriminate|]. destruct (is_conversion t).
  - destruct (conv_of c h rates avgs t); [apply IH|discriminate].
  - apply IH.
Qed.

Lemma apply_batch_nonneg h s hs txs rates avgs s' :
  nonneg s -> txs_ok txs -> apply_batch c h s hs txs rates avgs = BApplied s' -> nonneg s'.
Proof.
  intros Hn Hok H. unfold apply_batch in H.
  destruct (check_txs c h s rates avgs txs) eqn:E1; [subst; exfalso; eapply check_txs_not_applied; eauto|].
  destruct (sim_txs c h _ rates avgs (bal s) txs) eqn:E2; [subst; exfalso; eapply sim_txs_not_applied; eauto|].
  unfold record_batch in H. destruct (record_txs c h hs rates avgs 0 txs s) eqn:E; try discriminate.
  inversion H; subst. eapply record_txs_nonneg; eauto.
Qed.

Lemma payout_big_nonneg r b t : 0 <= payout_big r b t.
Proof. unfold payout_big. destruct (_ || _); [lia|apply wrap64_nonneg]. Qed.

Lemma payouts_nonneg bank (rs : requests) :
  Forall (fun r => 0 <= snd r) rs -> Forall (fun r => 0 <= snd r) (payouts bank rs).
Proof.
  intros Hf. unfold payouts. destruct rs as [|r0 rs0] eqn:Ers; [constructor|]. rewrite <- Ers in *. clear Ers.
  destruct (_ && _); [exact Hf|].
  set (base := map (fun r => (fst r, payout_big (snd r) bank (total_requested_big rs))) rs).
  assert (Hb : Forall (fun r : txid * Z => 0 <= snd r) base).
  { unfold base. apply Forall_forall. intros x Hx. apply in_map_iff in Hx as (y & <- & _). cbn. apply payout_big_nonneg. }
  destruct (dust_winner rs); [|exact Hb].
  apply Forall_forall. intros x Hx. apply in_map_iff in Hx as (y & <- & Hy).
  destruct (txid_eqb _ _); cbn; [apply wrap64_nonneg|].
  rewrite Forall_forall in Hb. apply Hb; exact Hy.
Qed.

Lemma pay_request_nonneg h rates reqs s p s' :
  nonneg s -> 0 <= snd p -> pay_request c h rates reqs s p = Ok s' -> nonneg s'.
Proof.
  intros Hn Hp H. unfold pay_request in H. destruct (find _ reqs) as [r|]; [|inversion H; subst; exact Hn].
  apply rbind_ok in H as (s2 & H1 & H2).
  eapply add_to_balance_nonneg; [|apply wrap64_nonneg|exact H2].
  eapply add_to_balance_nonneg; [|exact Hp|exact H1].
  unfold nonneg. rewrite bal_set_peg_request_amounts. exact Hn.
Qed.

Lemma reqs_of_batch_nonneg h rates avgs hs txs : forall idx,
  Forall (fun r => 0 <= pr_amt r) (reqs_of_batch c h rates avgs hs idx txs).
Proof. induction txs as [|t txs IH]; intros idx; cbn [reqs_of_batch]; constructor; [apply wrap64_nonneg|apply IH]. Qed.

Lemma record_peg_requests_nonneg h s batches rates avgs bankamt bh s' :
  nonneg s -> record_peg_requests c h s batches rates avgs bankamt bh = Ok s' -> nonneg s'.
Proof.
  intros Hn H. unfold record_peg_requests, record_peg_requests_ord in H.
  set (reqs := flat_map _ batches) in *.
  destruct (has_dup_txid _); [discriminate|].
  set (rs := map (fun r => (pr_txid r, pr_amt r)) reqs) in *.
  apply rbind_ok in H as (s1 & H1 & H2).
  assert (Hn1 : nonneg s1).
  { eapply (fold_res_inv_in nonneg (fun s' p => pay_request c h rates reqs s' p)); [|exact Hn|exact H1].
    intros s0 p s2 Hin Hn0 Hp. eapply pay_request_nonneg; [exact Hn0| |exact Hp].
    assert (Hrs : Forall (fun r : txid * Z => 0 <= snd r) rs).
    { unfold rs. apply Forall_forall. intros x Hx. apply in_map_iff in Hx as (y & <- & Hy). cbn.
      unfold reqs in Hy. apply in_flat_map in Hy as (b & _ & Hy).
      pose proof (reqs_of_batch_nonneg h rates avgs (fst b) (snd b) 0) as F. rewrite Forall_forall in F. apply F; exact Hy. }
    pose proof (payouts_nonneg bankamt rs Hrs) as F. rewrite Forall_forall in F. apply F; exact Hin. }
  destruct (_ <=? bh).
  - unfold nonneg. erewrite bal_update_bank; [exact Hn1|exact H2].
  - inversion H2; subst; exact Hn1.
Qed.

Lemma tx_amounts_okb_ok t : tx_amounts_okb t = true -> tx_amounts_ok t.
Proof.
  unfold tx_amounts_okb, tx_nonneg_okb, tx_amounts_ok. intros H. apply andb_prop in H as [H _]. apply andb_prop in H as [H1 H2]. split; [lia|].
  apply Forall_forall. intros tr Hin. rewrite forallb_forall in H2. specialize (H2 tr Hin). lia.
Qed.
Lemma entry_valid_at_ok e h txs : entry_valid_at c e h = Some txs -> txs_ok txs.
Proof.
  unfold entry_valid_at. destruct (e_batch e) as [b|]; [|discriminate].
  destruct (_ && _); [discriminate|]. destruct (forallb tx_amounts_okb b) eqn:E; [|discriminate].
  intros H; inversion H; subst. apply Forall_forall. intros t Hin. apply tx_amounts_okb_ok.
  rewrite forallb_forall in E. apply E; exact Hin.
Qed.

Lemma apply_held_nonneg cur rates avgs s e hh s' isp :
  nonneg s -> apply_held c cur rates avgs s e hh = Ok (s', isp) -> nonneg s'.
Proof.
  intros Hn H. unfold apply_held in H.
  destruct (entry_valid_at c e hh) as [txs|] eqn:Ev; [|inversion H; subst; exact Hn].
  destruct (_ && has_peg_conversion txs); [inversion H; subst; exact Hn|].
  destruct (entry_valid_at c e cur); [|inversion H; subst; exact Hn].
  destruct (is_replay s (e_hash e)); [inversion H; subst; exact Hn|].
  destruct (apply_batch c cur s (e_hash e) txs rates avgs) as [s2|code| |code] eqn:Eb; try discriminate;
    inversion H; subst; try exact Hn.
  eapply apply_batch_nonneg; [exact Hn|eapply entry_valid_at_ok; exact Ev|exact Eb].
Qed.

Lemma apply_held_height_nonneg cm cur rates avgs hh s pegs s' pegs' :
  nonneg s -> apply_held_height c cm cur rates avgs hh (Ok (s, pegs)) = Ok (s', pegs') -> nonneg s'.
Proof.
  intros Hn H. unfold apply_held_height in H. cbn [rbind] in H.
  apply rbind_ok in H as ([s1 pegs1] & H1 & H2).
  assert (Hn1 : nonneg s1).
  { pose (f := fun (st : db * list (hash * list tx)) (e : entry) =>
                 let '(s, pegs) := st in
                 let? r1 := apply_held c cur rates avgs s e hh in
                 let '(s', isp) := r1 in
                 Ok (s', if isp then pegs ++ [(e_hash e, default [] (e_batch e))] else pegs)).
    assert (Hstep : forall st e st', nonneg (fst st) -> f st e = Ok st' -> nonneg (fst st')).
    { intros [s0 p0] e [s2 p2] Hn0 Hs. cbn [fst] in *. unfold f in Hs.
      apply rbind_ok in Hs as ([s3 isp] & Ha & Hr). inversion Hr; subst.
      eapply apply_held_nonneg; eauto. }
    exact (fold_res_inv (fun st => nonneg (fst st)) f _ Hstep (s, pegs) (s1, pegs1) Hn H1). }
  destruct (_ && _).
  - apply rbind_ok in H2 as (s2 & Hr & Hk). inversion Hk; subst.
    eapply record_peg_requests_nonneg; eauto.
  - inversion H2; subst; exact Hn1.
Qed.

Lemma apply_holding_nonneg cm cur s rates avgs s' :
  nonneg s -> apply_holding c cm cur s rates avgs = Ok s' -> nonneg s'.
Proof.
  intros Hn H. unfold apply_holding in H.
  apply rbind_ok in H as ([s1 pegs] & H1 & H2).
  assert (Hn1 : nonneg s1).
  { clear H2. cbv zeta in H1.
    match type of H1 with fold_left _ ?l _ = _ => remember l as hs eqn:Ehs; clear Ehs end.
    revert s Hn H1. generalize (@nil (hash * list tx)) as p0.
    induction hs as [|hh l IH]; intros p0 s Hn H1; cbn [fold_left] in H1.
    - inversion H1; subst; exact Hn.
    - destruct (apply_held_height c cm cur rates avgs hh (Ok (s, p0))) as [[s2 p2]|code|code] eqn:E.
      + eapply IH; [|exact H1]. eapply apply_held_height_nonneg; eauto.
      + exfalso. clear -H1. induction l as [|y l IHl]; cbn in H1; [discriminate|auto].
      + exfalso. clear -H1. induction l as [|y l IHl]; cbn in H1; [discriminate|auto]. }
  destruct (_ && _).
  - destruct (bank s1 !! cur) as [[[am ?] ?]|]; eapply record_peg_requests_nonneg; eauto.
  - inversion H2; subst; exact Hn1.
Qed.

Lemma insert_history_bal s e order h txs s' : insert_history s e order h txs = Ok s' -> bal s' = bal s.
Proof.
  unfold insert_history. intros H. apply rbind_ok in H as (s1 & H1 & H2).
  apply bal_insert_hbatch in H1. rewrite <- H1.
  exact (fold_res_inv (fun x => bal x = bal s1) (fun s' row => insert_htx s' (fst row) (snd row)) _
           (fun s0 x s2 Hb Hi => eq_trans (bal_insert_htx _ _ _ _ Hi) Hb) s1 s' eq_refl H2).
Qed.

Lemma apply_entry_nonneg h s order e s' :
  nonneg s -> apply_entry c h s order e = Ok s' -> nonneg s'.
Proof.
  intros Hn H. unfold apply_entry in H.
  destruct (entry_valid_at c e h) as [txs|] eqn:Ev; [|inversion H; subst; exact Hn].
  destruct (is_replay s (e_hash e)); [inversion H; subst; exact Hn|].
  destruct (hist_has s (e_hash e)); [inversion H; subst; exact Hn|].
  apply rbind_ok in H as (s1 & H1 & H2).
  assert (Hn1 : nonneg s1) by (unfold nonneg; erewrite insert_history_bal; eauto).
  destruct (has_conversions txs).
  - unfold nonneg. erewrite bal_insert_holding; eauto.
  - destruct (apply_batch c h s1 (e_hash e) txs ∅ ∅) as [s2|code| |code] eqn:Eb.
    + inversion H2; subst. eapply apply_batch_nonneg; [exact Hn1|eapply entry_valid_at_ok; exact Ev|exact Eb].
    + destruct (code =? -1); inversion H2; subst. exact Hn1.
    + inversion H2; subst; exact Hn1.
    + discriminate.
Qed.

Lemma apply_tx_block_nonneg h s es s' :
  nonneg s -> apply_tx_block c h s es = Ok s' -> nonneg s'.
Proof.
  unfold apply_tx_block. generalize 0 as i. revert s.
  induction es as [|e es IH]; intros s i Hn H; cbn [fold_left snd] in H.
  - inversion H; subst; exact Hn.
  - cbn [rbind] in H. destruct (apply_entry c h s i e) as [s1|code|code] eqn:E.
    + eapply IH; [|exact H]. eapply apply_entry_nonneg; eauto.
    + exfalso. clear -H. revert H. generalize (i + 1). induction es as [|y l IHl]; intros j H; cbn in H; [discriminate|eauto].
    + exfalso. clear -H. revert H. generalize (i + 1). induction es as [|y l IHl]; intros j H; cbn in H; [discriminate|eauto].
Qed.

Lemma is_burn_nonneg f a v : is_burn f = Some (a, v) -> 0 <= v.
Proof.
  unfold is_burn. destruct (f_ecoutputs f) as [|[ec amt] [|? ?]]; try discriminate.
  destruct (f_inputs f) as [|[a' v'] [|? ?]]; try discriminate.
  destruct (f_outputs f); try discriminate.
  destruct ((ec =? BurnRCD) && (amt =? 0) && (0 <=? v')) eqn:E; [|discriminate].
  intros H; inversion H; subst. apply andb_prop in E as [_ E]. lia.
Qed.

Lemma apply_factoid_block_nonneg h s fs s' :
  nonneg s -> apply_factoid_block h s fs = Ok s' -> nonneg s'.
Proof.
  intros Hn H. unfold apply_factoid_block in H.
  refine (fold_res_inv nonneg (fun s' f => match is_burn f with None => Ok s' | Some (a, v) => _ end) fs _ s s' Hn H).
  intros s0 f s2 Hn0 Hs. destruct (is_burn f) as [[a v]|] eqn:Eb; [|inversion Hs; subst; exact Hn0].
  apply rbind_ok in Hs as (s3 & H1 & Hs). apply rbind_ok in Hs as (s4 & H2 & H3).
  unfold nonneg. erewrite bal_insert_htx; [|exact H3]. erewrite bal_insert_hbatch; [|exact H2].
  eapply add_to_balance_nonneg; [exact Hn0|eapply is_burn_nonneg; exact Eb|exact H1].
Qed.

Lemma pay_winners_nonneg s ts ws s' : nonneg s -> pay_winners s ts ws = Ok s' -> nonneg s'.
Proof.
  intros Hn H. unfold pay_winners in H.
  refine (fold_res_inv nonneg (fun s' w => match w_addr w with None => Ok s' | Some a => _ end) ws _ s s' Hn H).
  intros s0 w s2 Hn0 Hs. destruct (w_addr w) as [a|]; [|inversion Hs; subst; exact Hn0].
  apply rbind_ok in Hs as (s3 & H1 & Hs). apply rbind_ok in Hs as (s4 & H2 & H3).
  unfold nonneg. erewrite bal_insert_htx; [|exact H3]. erewrite bal_insert_hbatch; [|exact H2].
  eapply add_to_balance_nonneg; [exact Hn0|apply wrap64_nonneg|exact H1].
Qed.

(* ---- all or nothing ------------------------------------------------------------------ *)
(* a batch that is not applied returns no state at all: whatever the caller then does to the
   history status, the balances are the ones before the batch *)
Lemma apply_batch_applied_is_record h s hs txs rates avgs s' :
  apply_batch c h s hs txs rates avgs = BApplied s' -> record_batch c h hs rates avgs txs s = Ok s'.
Proof.
  unfold apply_batch.
  destruct (check_txs c h s rates avgs txs) eqn:E1; [intros ->; exfalso; eapply check_txs_not_applied; eauto|].
  destruct (sim_txs c h _ rates avgs (bal s) txs) eqn:E2; [intros ->; exfalso; eapply sim_txs_not_applied; eauto|].
  destruct (record_batch c h hs rates avgs txs s); intros H; inversion H; reflexivity.
Qed.

(* a held batch: either no balance changes at all (skipped, invalid, replay, rejected with any code,
   dropped), or the complete batch was recorded *)
Lemma apply_held_all_or_nothing cur rates avgs s e hh s' isp :
  apply_held c cur rates avgs s e hh = Ok (s', isp) ->
  bal s' = bal s \/
  exists txs, entry_valid_at c e hh = Some txs /\ record_batch c cur (e_hash e) rates avgs txs s = Ok s'.
Proof.
  unfold apply_held. intros H.
  destruct (entry_valid_at c e hh) as [txs|] eqn:Ev; [|inversion H; auto].
  destruct (_ && has_peg_conversion txs); [inversion H; auto|].
  destruct (entry_valid_at c e cur); [|inversion H; auto].
  destruct (is_replay s (e_hash e)); [inversion H; auto|].
  destruct (apply_batch c cur s (e_hash e) txs rates avgs) as [s2|code| |code] eqn:Eb; try discriminate;
    inversion H; subst; auto.
  right. exists txs. split; [reflexivity|]. apply apply_batch_applied_is_record; exact Eb.
Qed.

(* the same for an entry arriving in a block: history rows are inserted (no balance involved), then
   either nothing, or holding, or the complete batch *)
Lemma apply_entry_all_or_nothing h s order e s' :
  apply_entry c h s order e = Ok s' ->
  bal s' = bal s \/
  exists txs s1, entry_valid_at c e h = Some txs /\ has_conversions txs = false /\ bal s1 = bal s /\
                 record_batch c h (e_hash e) ∅ ∅ txs s1 = Ok s'.
Proof.
  unfold apply_entry. intros H.
  destruct (entry_valid_at c e h) as [txs|] eqn:Ev; [|inversion H; auto].
  destruct (is_replay s (e_hash e)); [inversion H; auto|].
  destruct (hist_has s (e_hash e)); [inversion H; auto|].
  apply rbind_ok in H as (s1 & H1 & H2). pose proof (insert_history_bal _ _ _ _ _ _ H1) as E1.
  destruct (has_conversions txs) eqn:Hc; [left; rewrite (bal_insert_holding _ _ _ _ H2); exact E1|].
  destruct (apply_batch c h s1 (e_hash e) txs ∅ ∅) as [s2|code| |code] eqn:Eb.
  - inversion H2; subst. right. exists txs, s1. repeat split; auto. apply apply_batch_applied_is_record; exact Eb.
  - destruct (code =? -1); inversion H2; subst. left. exact E1.
  - inversion H2; subst. left; exact E1.
  - discriminate.
Qed.

(* every debit of a recorded batch was covered by the balance at that very moment *)
Lemma record_txs_first_debit_covered h hs rates avgs idx t txs s s' :
  record_txs c h hs rates avgs idx (t :: txs) s = Ok s' ->
  tx_amt t = 0 \/ tx_amt t < 0 \/ 0 < tx_amt t <= get_bal (bal s) (tx_addr t) (tx_type t).
Proof.
  cbn [record_txs]. destruct (sub_from_balance s (tx_addr t) (tx_type t) (tx_amt t)) as [s1| |code] eqn:Es; try discriminate.
  intros _. apply sub_from_balance_ok in Es as (_ & Hr & _). tauto.
Qed.
End WithCfg.
