(* Lemmas/IssuanceLedger.v — the scheduled issuance at the level of the LEDGER: what the writers of Model/Block.v do
   to the per-asset supply (SUM over pn_addresses), tied to the regenerated tables.
     developers_payouts : PEG supply + the listed amounts (2000 PEG x 144 from 2.0.2, 2000 PEG before), nothing else
     mint_tokens        : every asset's supply + exactly what the mint list says for it
     snapshot_payouts   : the snapshots rotate (past := current, current := the balances of this moment), only PEG is
                          created, by exactly the sum of the payouts, which is at most 4500 PEG x 144 and equal to it
                          when the stakes reach it *)
From Model Require Import Obs Examples.
From Lemmas Require Import ArithLemmas DbLemmas LedgerLemmas BlockLemmas ChainLemmas PayoutLemmas SupplyLemmas IssuanceLemmas.
From Gen Require Import Consts.
From Coq Require Import Lia ZifyBool.
Open Scope Z_scope.
Open Scope list_scope.

Lemma supply_set_hist s v t : supply (set_hist s v) t = supply s t.  Proof. reflexivity. Qed.
Lemma supply_set_htxs s v l t : supply (set_htxs s v l) t = supply s t.  Proof. reflexivity. Qed.
Lemma supply_set_snaps s a b t : supply (set_snaps s a b) t = supply s t.  Proof. reflexivity. Qed.
Lemma supply_insert_hbatch s r s' t : insert_hbatch s r = Ok s' -> supply s' t = supply s t.
Proof. intros H. apply insert_hbatch_shape in H as ->. reflexivity. Qed.
Lemma supply_insert_htx s r lk s' t : insert_htx s r lk = Ok s' -> supply s' t = supply s t.
Proof. intros H. apply insert_htx_shape in H as (v & l & ->). reflexivity. Qed.

Section WithCfg.
Variable c : cfg.

(* ---- developer rewards ------------------------------------------------------------------------------- *)
Definition dev_amount (after : bool) (d : Z * Z * Z * Z) : Z := if after then dev_post d else dev_pre d.
Definition dev_sum (after : bool) (l : list (Z * Z * Z * Z)) : Z := fold_right (fun d acc => dev_amount after d + acc) 0 l.

Theorem developers_payouts_supply h ts s s' :
  fst (developers_payouts c h ts s) = Ok s' ->
  forall t, supply s' t = supply s t + (if t =? PTickerPEG then dev_sum (c_V202EnhanceActivation c <=? h) dev_rewards else 0).
Proof.
  unfold developers_payouts. cbv zeta. generalize dev_rewards as l. intros l.
  set (after := c_V202EnhanceActivation c <=? h).
  set (step := fun (acc : Z * Z * (res db * db)) (d : Z * Z * Z * Z) => _).
  assert (G : forall l0 ij r reached s1,
             fst (snd (fold_left step l0 (ij, (r, reached)))) = Ok s1 ->
             exists s0, r = Ok s0 /\
               forall t, supply s1 t = supply s0 t + (if t =? PTickerPEG then dev_sum after l0 else 0)).
  { induction l0 as [|d l0 IH]; intros [i j] r reached s1 H; cbn [fold_left snd fst] in H.
    - exists s1. split; [exact H|]. intros t. cbn. destruct (t =? PTickerPEG); lia.
    - unfold step at 2 in H. destruct r as [s0|e|e].
      + destruct d as [[[a bits] pre] post].
        destruct (add_to_balance s0 a PTickerPEG _) as [s2|e|e] eqn:Ea;
          try (destruct (IH _ _ _ _ H) as (? & HH & _); discriminate).
        destruct (insert_hbatch s2 _) as [s3|e|e] eqn:Eb;
          try (destruct (IH _ _ _ _ H) as (? & HH & _); discriminate).
        destruct (insert_htx s3 _ _) as [s4|e|e] eqn:Ec;
          try (destruct (IH _ _ _ _ H) as (? & HH & _); discriminate).
        destruct (IH _ _ _ _ H) as (s5 & HH & Hs). inversion HH; subst s5.
        exists s0. split; [reflexivity|]. intros t. rewrite (Hs t).
        rewrite (supply_insert_htx _ _ _ _ t Ec), (supply_insert_hbatch _ _ _ t Eb), (supply_add _ _ _ _ _ t Ea).
        change (dev_sum after ((a, bits, pre, post) :: l0)) with (dev_amount after (a, bits, pre, post) + dev_sum after l0).
        unfold dev_amount, dev_post, dev_pre. fold after.
        rewrite (Z.eqb_sym PTickerPEG t). destruct (t =? PTickerPEG); destruct after; lia.
      + destruct (IH _ _ _ _ H) as (? & HH & _); discriminate.
      + destruct (IH _ _ _ _ H) as (? & HH & _); discriminate. }
  intros H. destruct (G l (0, 1) (Ok s) s s' H) as (s0 & E & Hs). inversion E; subst s0. exact Hs.
Qed.

(* with the regenerated table: exactly 2000 PEG x 144 from 2.0.2 on, 2000 PEG before *)
Corollary developers_payouts_total h ts s s' :
  fst (developers_payouts c h ts s) = Ok s' ->
  supply s' PTickerPEG = supply s PTickerPEG +
    (if c_V202EnhanceActivation c <=? h then PerBlockDevelopers * SnapshotRate else PerBlockDevelopers) /\
  forall t, t <> PTickerPEG -> supply s' t = supply s t.
Proof.
  intros H. pose proof (developers_payouts_supply h ts s s' H) as Hs. split.
  - rewrite (Hs PTickerPEG), Z.eqb_refl. unfold dev_sum, dev_amount.
    destruct (c_V202EnhanceActivation c <=? h); [rewrite <- dev_total_post|rewrite <- dev_total_pre]; reflexivity.
  - intros t Ht. rewrite (Hs t). destruct (Z.eqb_spec t PTickerPEG); [contradiction|lia].
Qed.

(* ---- the 2.0.4 mint --------------------------------------------------------------------------------------- *)
Definition listed (t : ticker) (l : list (Z * Z)) : Z := fold_right (fun m acc => (if fst m =? t then snd m else 0) + acc) 0 l.

Theorem mint_tokens_supply s s' : mint_tokens s = Ok s' -> forall t, supply s' t = supply s t + listed t mint_list.
Proof.
  unfold mint_tokens. generalize mint_list as l. intros l. revert s.
  induction l as [|m l IH]; intros s H t; cbn [fold_left] in H.
  - inversion H; subst. cbn. lia.
  - cbn [rbind] in H. match type of H with context [add_to_balance s ?a ?b ?v] => destruct (add_to_balance s a b v) as [s1|e|e] eqn:E end.
    + rewrite (IH s1 H t), (supply_add _ _ _ _ _ t E).
      change (listed t (m :: l)) with ((if fst m =? t then snd m else 0) + listed t l). unfold ticker, addr in *. lia.
    + exfalso. eapply fold_res_fail; exact H.
    + exfalso. eapply fold_res_panic; exact H.
Qed.
(* ... and all of it sits on the mint address *)
Theorem mint_tokens_only_mint_address s s' a t :
  mint_tokens s = Ok s' -> a <> GlobalMintAddress -> get_bal (bal s') a t = get_bal (bal s) a t.
Proof.
  unfold mint_tokens. generalize mint_list as l. intros l. revert s.
  induction l as [|m l IH]; intros s H Ha; cbn [fold_left] in H.
  - inversion H; subst. reflexivity.
  - cbn [rbind] in H. match type of H with context [add_to_balance s ?a ?b ?v] => destruct (add_to_balance s a b v) as [s1|e|e] eqn:E end.
    + rewrite (IH s1 H Ha). apply add_to_balance_ok in E as (_ & _ & ->). cbn. unfold get_bal.
      rewrite lookup_insert_ne; [reflexivity|]. intros Heq. inversion Heq. congruence.
    + exfalso. eapply fold_res_fail; exact H.
    + exfalso. eapply fold_res_panic; exact H.
Qed.

(* ---- staking snapshot and payouts ----------------------------------------------------------------------------- *)
Definition staking_cap : Z := PerBlockAssetHolders * SnapshotRate.

(* the requests the payout step is run on: positive stakes, sorted, indexed *)
Definition snapshot_reqs (h : Z) (rates : gmap ticker Z) (s : db) : requests :=
  let past := snap_cur s in let cur := bal s in
  let stakes' := map (fun x => (fst x, default 0 (snd x))) (map (fun a => (a, stake_of c h rates past cur a)) (addrs_of cur)) in
  let lst := sort_stakes (filter (fun x => 0 <? snd x) stakes') in
  map (fun x : Z * (addr * Z) => ((mock_hash h, fst x), snd (snd x))) (index_from 0 lst).

Lemma add_fold_supply (f : txid * Z -> addr) : forall (pays : list (txid * Z)) s s',
  fold_left (fun r p => let? s0 := r in add_to_balance s0 (f p) PTickerPEG (snd p)) pays (Ok s) = Ok s' ->
  forall t, supply s' t = supply s t + (if t =? PTickerPEG then sum_snd pays else 0).
Proof.
  induction pays as [|p pays IH]; intros s s' H t; cbn [fold_left] in H.
  - inversion H; subst. cbn. destruct (t =? PTickerPEG); lia.
  - cbn [rbind] in H. match type of H with context [add_to_balance s ?a ?b ?v] => destruct (add_to_balance s a b v) as [s1|e|e] eqn:E end.
    + rewrite (IH s1 s' H t), (supply_add _ _ _ _ _ t E). change (sum_snd (p :: pays)) with (snd p + sum_snd pays).
      rewrite (Z.eqb_sym PTickerPEG t). destruct (t =? PTickerPEG); lia.
    + exfalso. eapply fold_res_fail; exact H.
    + exfalso. eapply fold_res_panic; exact H.
Qed.


Theorem snapshot_payouts_ledger h ts rates s s' :
  snapshot_payouts c h ts rates s = Ok s' ->
  let rs := snapshot_reqs h rates s in
  (* the snapshots rotate: the current one is the ledger of this moment, the past one what was current *)
  snap_cur s' = bal s /\ snap_past s' = snap_cur s /\
  (* only PEG is created, and exactly the payouts *)
  (forall t, supply s' t = supply s t + (if t =? PTickerPEG then sum_snd (payouts staking_cap rs) else 0)) /\
  (* never more than 4500 PEG x 144, exactly that when the stakes reach it, exactly the stakes below it *)
  sum_snd (payouts staking_cap rs) <= staking_cap /\
  (staking_cap <= total_requested_big rs -> rs <> [] -> sum_snd (payouts staking_cap rs) = staking_cap) /\
  (total_requested_big rs < staking_cap -> payouts staking_cap rs = rs).
Proof.
  intros H rs. unfold snapshot_payouts in H. cbv zeta in H.
  destruct (existsb _ _) eqn:Enone; [discriminate|].
  destruct (existsb (fun x : addr * Z => two64 <=? snd x) _) eqn:Ebig; [discriminate|].
  set (s1 := set_snaps s (bal s) (snap_cur s)) in *.
  (* the arithmetic facts *)
  assert (Hok : reqs_ok rs).
  { unfold reqs_ok, rs, snapshot_reqs. cbv zeta. rewrite Forall_map, Forall_forall. intros x Hx. cbn [snd].
    apply index_from_in in Hx. apply sort_stakes_in in Hx. apply filter_In in Hx as [Hx Hpos].
    split; [lia|].
    destruct (Z.ltb_spec (snd (snd x)) two64) as [Hlt|Hge]; [exact Hlt|].
    exfalso. rewrite <- not_true_iff_false in Ebig. apply Ebig. apply existsb_exists. exists (snd x). split; [exact Hx|lia]. }
  assert (Hnd : txids_nodup rs) by (unfold txids_nodup, rs, snapshot_reqs; cbv zeta; apply staking_txids_distinct).
  assert (Hcap : 0 <= staking_cap < two64) by (vm_compute; split; [discriminate|reflexivity]).
  destruct (payouts_never_exceed_bank staking_cap rs Hok Hnd Hcap) as (P1 & P2 & P3).
  assert (Hcore : snap_cur s' = bal s /\ snap_past s' = snap_cur s /\
                  forall t, supply s' t = supply s t + (if t =? PTickerPEG then sum_snd (payouts staking_cap rs) else 0)).
  { match type of H with match ?l with [] => _ | _ => _ end = _ => destruct l as [|x0 lst0] eqn:El end.
    - assert (Ers : rs = []).
      { unfold rs, snapshot_reqs. cbv zeta.
        change (map (fun x : Z * (addr * Z) => (mock_hash h, fst x, snd (snd x))) (index_from 0 []) = []) in |- *
          || (etransitivity; [apply (f_equal (fun l => map (fun x : Z * (addr * Z) => (mock_hash h, fst x, snd (snd x))) (index_from 0 l))); exact El|reflexivity]). }
      inversion H; subst s'. split; [reflexivity|]. split; [reflexivity|]. intros t. rewrite Ers. change (sum_snd (payouts staking_cap [])) with 0. unfold s1. rewrite supply_set_snaps. destruct (t =? PTickerPEG); lia.
    - assert (Ers : rs = map (fun x : Z * (addr * Z) => (mock_hash h, fst x, snd (snd x))) (index_from 0 (x0 :: lst0))).
      { unfold rs, snapshot_reqs. cbv zeta.
        apply (f_equal (fun l => map (fun x : Z * (addr * Z) => (mock_hash h, fst x, snd (snd x))) (index_from 0 l))). exact El. }
      apply rbind_ok in H as (s2 & H1 & H). apply rbind_ok in H as (s3 & H2 & H3).
      apply insert_hbatch_shape in H1 as E2.
      assert (E3 : snap_cur s3 = snap_cur s2 /\ snap_past s3 = snap_past s2 /\ forall t, supply s3 t = supply s2 t).
      { revert H2. apply (fold_res_inv (fun x => snap_cur x = snap_cur s2 /\ snap_past x = snap_past s2 /\ forall t, supply x t = supply s2 t));
          [|repeat split; reflexivity].
        intros sa p sb (A1 & A2 & A3) Hs. destruct (two63 <=? snd p); [discriminate|].
        apply insert_htx_shape in Hs as (v & l & ->). repeat split; assumption. }
      destruct E3 as (E3a & E3b & E3c).
      assert (E4 : snap_cur s' = snap_cur s3 /\ snap_past s' = snap_past s3).
      { revert H3. apply (fold_res_inv (fun x => snap_cur x = snap_cur s3 /\ snap_past x = snap_past s3)); [|split; reflexivity].
        intros sa p sb (A1 & A2) Hs. apply add_to_balance_ok in Hs as (_ & _ & ->). split; assumption. }
      destruct E4 as (E4a & E4b).
      split; [rewrite E4a, E3a, E2; reflexivity|]. split; [rewrite E4b, E3b, E2; reflexivity|].
      intros t. rewrite (add_fold_supply _ _ _ _ H3 t), (E3c t), E2, Ers. reflexivity. }
  destruct Hcore as (C1 & C2 & C3).
  split; [exact C1|]. split; [exact C2|]. split; [exact C3|]. split; [exact P1|]. split; [exact P2|exact P3].
Qed.

End WithCfg.

(* non-vacuity on the example configuration *)
Example developers_payouts_total_example :
  match fst (developers_payouts ex_cfg 576 1576 genesis) with
  | Ok s' => supply s' PTickerPEG = (if c_V202EnhanceActivation ex_cfg <=? 576 then PerBlockDevelopers * SnapshotRate else PerBlockDevelopers) /\ 0 < supply s' PTickerPEG
  | _ => False
  end.
Proof. vm_compute. split; reflexivity. Qed.
Example mint_tokens_supply_example :
  match mint_tokens genesis with Ok s' => supply s' PTickerUSD = listed PTickerUSD mint_list /\ 0 < listed PTickerUSD mint_list | _ => False end.
Proof. vm_compute. split; reflexivity. Qed.
(* a holder with 300 pUSD at the previous snapshot and 500 now is paid for 300 (1:1 below the cap); the snapshots rotate *)
Example snapshot_payouts_ledger_example :
  let s := set_snaps (set_bal empty_db {[ (alice, PTickerUSD) := 500 ]}) {[ (alice, PTickerUSD) := 300 ]} ∅ in
  match snapshot_payouts ex_cfg 288 1000 {[ PTickerUSD := 100000000 ]} s with
  | Ok s' => supply s' PTickerPEG = 300 /\ snap_cur s' = bal s /\ snap_past s' = snap_cur s
  | _ => False
  end.
Proof. vm_compute. repeat split; reflexivity. Qed.
