(* Lemmas/ChainLemmas.v — facts about whole blocks and chains, obtained by instantiating the
   preservation scheme of FrameLemmas.v: recorded rates never change and appear only at the
   block's own height, relation rows are never deleted (replay protection is monotone), the
   sync-version table gains exactly the block's height; replay over a chain. *)
From Model Require Import Obs.
From Lemmas Require Import DbLemmas LedgerLemmas BlockLemmas FrameLemmas.
From Gen Require Import Consts.
From Coq Require Import Lia RelationClasses.
Open Scope Z_scope.

(* ---- what each storage operation does to the record ---------------------------------- *)
Lemma insert_hbatch_shape s r s' : insert_hbatch s r = Ok s' -> s' = set_hist s (hist s ++ [r]).
Proof. unfold insert_hbatch. destruct (hist_has_at _ _ _); [discriminate|]. intros H; inversion H; reflexivity. Qed.
Lemma insert_htx_shape s r lk s' : insert_htx s r lk = Ok s' -> exists v l, s' = set_htxs s v l.
Proof. unfold insert_htx. destruct (htx_has _ _ _); [discriminate|]. intros H; inversion H; eauto. Qed.
Lemma insert_holding_shape s e h s' : insert_holding s e h = Ok s' -> exists v, s' = set_holding s v.
Proof. unfold insert_holding. destruct (holding_has _ _); [discriminate|]. intros H; inversion H; eauto. Qed.
Lemma insert_bank_shape s h a s' : insert_bank s h a = Ok s' -> exists v, s' = set_bank s v.
Proof. unfold insert_bank. destruct (bank s !! h); [discriminate|]. intros H; inversion H; eauto. Qed.
Lemma update_bank_shape s h u r s' : update_bank s h u r = Ok s' -> exists v, s' = set_bank s v.
Proof. unfold update_bank. destruct (bank s !! h) as [[[? ?] ?]|]; [|discriminate]. intros H; inversion H; eauto. Qed.
Lemma insert_grade_shape h s v s' : insert_grade h s v = Ok s' -> exists g w, s' = set_grades s g w.
Proof.
  unfold insert_grade. destruct (grades s !! h); [discriminate|].
  destruct (existsb _ _); [discriminate|]. intros H; inversion H; eauto.
Qed.
Lemma insert_rates_shape cm h s a ph s' :
  insert_rates cm h s a ph = Ok s' -> rates s !! h = None /\ exists m, s' = set_rates s (<[h := m]> (rates s)).
Proof.
  unfold insert_rates. destruct (rates s !! h); [discriminate|].
  destruct (has_dup _); [discriminate|]. destruct (existsb _ _); [discriminate|].
  repeat match goal with |- (if ?b then _ else _) = _ -> _ => destruct b; [discriminate|] end.
  intros H; inversion H; eauto.
Qed.
Lemma insert_synced_shape s h s' :
  insert_synced s h = Ok s' -> versions s !! h = None /\ s' = set_synced s (Some h) (<[h := PegnetdSyncVersion]> (versions s)).
Proof. unfold insert_synced. destruct (versions s !! h); [discriminate|]. intros H; inversion H; auto. Qed.
Lemma insert_relation_shape s a hs i t cv :
  insert_relation s a hs i t cv = s \/
  insert_relation s a hs i t cv = set_rel s (<[hs := default [] (rel s !! hs) ++ [(a, i, t || cv, cv)]]> (rel s)).
Proof. unfold insert_relation. destruct (existsb _ _); auto. Qed.

(* solves the hypotheses of the preservation scheme for a projection that the operation at hand
   does not touch *)
Ltac untouched :=
  intros;
  try match goal with H : insert_hbatch _ _ = Ok _ |- _ => apply insert_hbatch_shape in H; subst end;
  try match goal with H : insert_htx _ _ _ = Ok _ |- _ => apply insert_htx_shape in H as (? & ? & ->) end;
  try match goal with H : insert_holding _ _ _ = Ok _ |- _ => apply insert_holding_shape in H as (? & ->) end;
  try match goal with H : insert_bank _ _ _ = Ok _ |- _ => apply insert_bank_shape in H as (? & ->) end;
  try match goal with H : update_bank _ _ _ _ = Ok _ |- _ => apply update_bank_shape in H as (? & ->) end;
  try match goal with H : insert_grade _ _ _ = Ok _ |- _ => apply insert_grade_shape in H as (? & ? & ->) end;
  try match goal with H : insert_rates _ _ _ _ _ = Ok _ |- _ => apply insert_rates_shape in H as (? & ? & ->) end;
  try match goal with H : insert_synced _ _ = Ok _ |- _ => apply insert_synced_shape in H as (? & ->) end;
  try match goal with |- context [insert_relation ?s ?a ?hs ?i ?t ?cv] =>
        destruct (insert_relation_shape s a hs i t cv) as [-> | ->] end;
  try reflexivity.

Section WithCfg.
Variable c : cfg.

(* ---- pn_rate -------------------------------------------------------------------------- *)
(* C12: rates once recorded for a height never change; a block adds rates for no other height
   than its own *)
Definition rates_ext (m m' : gmap Z (gmap ticker Z)) : Prop := forall k v, m !! k = Some v -> m' !! k = Some v.
Global Instance rates_ext_po : PreOrder rates_ext.
Proof. split; [intros m k v H; exact H|intros a b d H1 H2 k v H; apply H2, H1, H]. Qed.

Theorem step_block_rates_immutable cm mem b s' mem' :
  step_block c cm mem b = Done (s', mem') -> rates_ext (rates cm) (rates s').
Proof.
  intros H.
  refine (pr_step_block rates rates_ext _ _ _ _ _ _ _ _ _ _ c _ _ (fun _ => True) _ _ cm mem b s' mem' I H); try (untouched; fail).
  intros cm0 h s a ph s0 _ Hi. apply insert_rates_shape in Hi as (Hn & m & ->). cbn.
  intros k v Hk. destruct (Z.eq_dec k h) as [->|Hne]; [congruence|]. rewrite lookup_insert_ne by auto. exact Hk.
Qed.

Theorem step_block_rates_only_own_height cm mem b s' mem' k :
  k <> b_height b -> step_block c cm mem b = Done (s', mem') -> rates s' !! k = rates cm !! k.
Proof.
  intros Hk H. symmetry.
  refine (pr_step_block (fun s => rates s !! k) eq _ _ _ _ _ _ _ _ _ _ c _ _ (fun h => h = b_height b) _ _ cm mem b s' mem' eq_refl H); try (untouched; fail).
  intros cm0 h s a ph s0 -> Hi. apply insert_rates_shape in Hi as (Hn & m & ->). cbn.
  rewrite lookup_insert_ne by auto. reflexivity.
Qed.

(* ---- pn_address_transactions ------------------------------------------------------------ *)
(* C06: a relation row is never deleted: once an entry hash counts as executed it does so for ever *)
Definition replayed (m : gmap hash (list (addr * Z * bool * bool))) (hs : hash) : Prop :=
  match m !! hs with Some (_ :: _) => True | _ => False end.
Definition rel_ext (m m' : gmap hash (list (addr * Z * bool * bool))) : Prop := forall hs, replayed m hs -> replayed m' hs.
Global Instance rel_ext_po : PreOrder rel_ext.
Proof. split; [intros m hs H; exact H|intros a b d H1 H2 hs H; apply H2, H1, H]. Qed.

Theorem step_block_replay_monotone cm mem b s' mem' :
  step_block c cm mem b = Done (s', mem') -> rel_ext (rel cm) (rel s').
Proof.
  intros H.
  refine (pr_step_block rel rel_ext _ _ _ _ _ _ _ _ _ _ c _ _ (fun _ => True) _ _ cm mem b s' mem' I H); try (untouched; fail).
  intros s a hs i t cv. destruct (insert_relation_shape s a hs i t cv) as [-> | ->]; [reflexivity|]. cbn.
  intros hs' Hr. unfold replayed in *. destruct (Z.eq_dec hs' hs) as [->|Hne].
  - rewrite lookup_insert. destruct (default [] (rel s !! hs)); exact I.
  - rewrite lookup_insert_ne by auto. exact Hr.
Qed.

Lemma is_replay_replayed s hs : is_replay s hs = true <-> replayed (rel s) hs.
Proof. unfold is_replay, replayed. destruct (rel s !! hs) as [[|? ?]|]; split; intros H; try discriminate; try contradiction; auto. Qed.

(* ---- pn_sync_version / synced ------------------------------------------------------------ *)
Theorem step_block_synced cm mem b s' mem' :
  step_block c cm mem b = Done (s', mem') ->
  synced s' = Some (b_height b) /\ versions cm !! (b_height b) = None /\
  versions s' = <[b_height b := PegnetdSyncVersion]> (versions cm).
Proof.
  intros H.
  assert (F : forall s, (synced s, versions s) = (synced cm, versions cm) -> True) by auto.
  unfold step_block in H. cbv zeta in H.
  apply obind_done in H as ([s1 mem1] & Hr & H). apply obind_done in H as (s2 & H2 & H). apply of_res_done in H2. inversion H; subst.
  apply insert_synced_shape in H2 as (Hn & ->). cbn.
  assert (E : (synced s1, versions s1) = (synced cm, versions cm)).
  { symmetry. etransitivity; [|refine (pr_sync_block (fun s => (synced s, versions s)) eq _ _ _ _ _ _ _ _ _ _ c _ _ (fun _ => True) _ cm mem b _ s1 _ I Hr); try (untouched; fail)].
    destruct (_ =? c_V202EnhanceActivation c); destruct (_ =? c_V20DevRewardsHeightActivation c); try reflexivity.
    - etransitivity; refine (pr_nullify_burn (fun s => (synced s, versions s)) eq _ _ _ c cm _ _ _); untouched.
    - refine (pr_nullify_burn (fun s => (synced s, versions s)) eq _ _ _ c cm _ _ _); untouched.
    - refine (pr_nullify_burn (fun s => (synced s, versions s)) eq _ _ _ c cm _ _ _); untouched. }
  inversion E as [[E1 E2]]. rewrite E2 in *. auto.
Qed.

(* ---- chains ---------------------------------------------------------------------------------- *)
Lemma replay_cons cm mem b bs r :
  replay c cm mem (b :: bs) = Done r ->
  exists s1 m1, step_block c cm mem b = Done (s1, m1) /\ replay c s1 m1 bs = Done r.
Proof. cbn [replay]. destruct (step_block c cm mem b) as [[s1 m1]| | |]; try discriminate. eauto. Qed.

(* an invariant of every block is an invariant of every chain *)
Lemma replay_inv (P : db -> Prop) :
  (forall cm mem b s' mem', P cm -> step_block c cm mem b = Done (s', mem') -> P s') ->
  forall bs cm mem s m, P cm -> replay c cm mem bs = Done (s, m) -> P s.
Proof.
  intros Hstep. induction bs as [|b bs IH]; intros cm mem s m HP H.
  - inversion H; subst; exact HP.
  - apply replay_cons in H as (s1 & m1 & H1 & H2). eapply IH; [|exact H2]. eapply Hstep; eauto.
Qed.

Lemma nonneg_genesis : nonneg genesis.
Proof. unfold nonneg, genesis, empty_db; cbn. apply nonneg_empty. Qed.

(* C03: in every state reachable by replay no balance is negative *)
Theorem replay_nonneg bs s m : replay c genesis empty_cache bs = Done (s, m) -> nonneg s.
Proof. apply (replay_inv nonneg); [intros; eapply step_block_nonneg; eauto|apply nonneg_genesis]. Qed.
End WithCfg.
