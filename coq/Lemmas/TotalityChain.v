(* Lemmas/TotalityChain.v — C08 (sync liveness): the chain-level corollary of [step_block_total].

   [tables_below h s]: nothing is recorded in pn_grade, pn_winners, pn_rate, pn_sync_version for a height >= h.
   It is an invariant along a chain of strictly increasing heights (a block at height h turns tables_below h
   into tables_below (h+1)), and it gives the freshness hypothesis [fresh_at] of every block.

   [replay_total]: a chain of live-era blocks (activation heights included) with strictly increasing heights, each satisfying the
   per-block hypotheses in the state it meets, is applied to its end: replay = Done. *)
From Model Require Import Block Obs.
From Lemmas Require Import DbLemmas LedgerLemmas BlockLemmas ChainLemmas HistoryLemmas3
     TotalityLemmas TotalityInvariant TotalityRange TotalityBlockParts TotalityHolding TotalityBlock.
From Gen Require Import Consts.
From Coq Require Import Lia ZifyBool.
Open Scope Z_scope.
Open Scope list_scope.

Definition tables_below (h : Z) (s : db) : Prop :=
  (forall k, h <= k -> grades s !! k = None) /\ (forall k, h <= k -> rates s !! k = None) /\
  (forall k, h <= k -> versions s !! k = None) /\
  Forall (fun r => fst (fst (fst (fst r))) < h) (winners s).

Lemma tables_below_genesis h : tables_below h genesis.
Proof. unfold tables_below, genesis, empty_db. cbn. repeat split; try (intros; apply lookup_empty). constructor. Qed.

Lemma tables_below_fresh h s k : tables_below h s -> h <= k -> fresh_at k s.
Proof.
  intros (Hg & Hr & Hv & Hw) Hk. split; [apply Hg; exact Hk|]. split; [apply Hr; exact Hk|]. split; [apply Hv; exact Hk|].
  unfold winner_rows_fresh. apply forallb_forall. intros r Hin. rewrite Forall_forall in Hw. specialize (Hw r Hin). cbv beta in Hw. lia.
Qed.

Section WithCfg.
Variable c : cfg.

(* one block: the tables stay below the next height *)
Theorem step_block_total_below cm mem b h :
  hist_closed cm -> bal_room cm 0 -> tables_below h cm -> h <= b_height b ->
  (fresh_at (b_height b) cm -> block_hyps c cm mem b) ->
  exists s' mem', step_block c cm mem b = Done (s', mem') /\ hist_closed s' /\ bal_room s' 0 /\ cache_nonneg mem' /\
                  tables_below (b_height b + 1) s'.
Proof.
  intros Hcl Hr0 Hb Hh Hyp. pose proof (tables_below_fresh h cm (b_height b) Hb Hh) as Hf.
  destruct (step_block_total c cm mem b Hcl Hr0 (Hyp Hf)) as (s' & mem' & H1 & H2 & H3 & H4 & H5 & H6).
  exists s', mem'. split; [exact H1|]. split; [exact H2|]. split; [exact H3|]. split; [exact H4|].
  destruct Hb as (Bg & Br & Bv & Bw). split; [|split; [|split]].
  - intros k Hk. rewrite H5 by lia. apply Bg. lia.
  - intros k Hk. rewrite (step_block_rates_only_own_height c cm mem b s' mem' k ltac:(lia) H1). apply Br. lia.
  - intros k Hk. destruct (step_block_synced c cm mem b s' mem' H1) as (_ & _ & Ev). rewrite Ev.
    rewrite lookup_insert_ne by lia. apply Bv. lia.
  - apply Forall_forall. intros r Hr. apply H6 in Hr as [Hr|Hr]; [|lia]. rewrite Forall_forall in Bw. specialize (Bw r Hr). cbv beta in Bw. lia.
Qed.

(* the per-block hypotheses along the chain, each stated in the state the block meets *)
Fixpoint chain_hyps (cm : db) (mem : avgcache) (bs : list block) : Prop :=
  match bs with
  | [] => True
  | b :: bs' =>
    (fresh_at (b_height b) cm -> block_hyps c cm mem b) /\
    forall s' mem', step_block c cm mem b = Done (s', mem') -> chain_hyps s' mem' bs'
  end.
Fixpoint increasing_from (h : Z) (bs : list block) : Prop :=
  match bs with [] => True | b :: bs' => h <= b_height b /\ increasing_from (b_height b + 1) bs' end.

Theorem replay_total bs : forall cm mem h,
  hist_closed cm -> bal_room cm 0 -> tables_below h cm -> increasing_from h bs -> chain_hyps cm mem bs ->
  exists s m, replay c cm mem bs = Done (s, m) /\ hist_closed s /\ bal_room s 0.
Proof.
  induction bs as [|b bs IH]; intros cm mem h Hcl Hr0 Hb Hinc Hch.
  - exists cm, mem. split; [reflexivity|]. split; assumption.
  - destruct Hinc as [Hh Hinc']. destruct Hch as [Hb1 Hnext].
    destruct (step_block_total_below cm mem b h Hcl Hr0 Hb Hh Hb1) as (s1 & m1 & S1 & S2 & S3 & S4 & S5).
    cbn [replay]. rewrite S1. exact (IH s1 m1 (b_height b + 1) S2 S3 S5 Hinc' (Hnext s1 m1 S1)).
Qed.

(* from the fresh database *)
Corollary replay_total_genesis bs h :
  increasing_from h bs -> chain_hyps genesis empty_cache bs ->
  exists s m, replay c genesis empty_cache bs = Done (s, m) /\ hist_closed s /\ bal_room s 0.
Proof.
  intros Hinc Hch. apply (replay_total bs genesis empty_cache h); auto.
  - apply hist_closed_genesis.
  - apply in_range_room. apply in_range_genesis.
  - apply tables_below_genesis.
Qed.

(* ---- boolean forms, for computation ---------------------------------------------------------------------------------- *)
Fixpoint chain_hypsb (cm : db) (mem : avgcache) (bs : list block) : bool :=
  match bs with
  | [] => true
  | b :: bs' =>
    block_hypsb c cm mem b &&
    match step_block c cm mem b with Done (s', mem') => chain_hypsb s' mem' bs' | _ => false end
  end.
Lemma chain_hypsb_spec bs : forall cm mem, chain_hypsb cm mem bs = true -> chain_hyps cm mem bs.
Proof.
  induction bs as [|b bs IH]; intros cm mem H; cbn [chain_hypsb chain_hyps] in *; [exact I|].
  apply andb_prop in H as [H1 H2]. split; [intros _; apply block_hypsb_spec; exact H1|].
  intros s' mem' E. rewrite E in H2. apply IH. exact H2.
Qed.
Fixpoint increasing_fromb (h : Z) (bs : list block) : bool :=
  match bs with [] => true | b :: bs' => (h <=? b_height b) && increasing_fromb (b_height b + 1) bs' end.
Lemma increasing_fromb_spec bs : forall h, increasing_fromb h bs = true -> increasing_from h bs.
Proof.
  induction bs as [|b bs IH]; intros h H; cbn [increasing_fromb increasing_from] in *; [exact I|].
  apply andb_prop in H as [H1 H2]. split; [lia|apply IH; exact H2].
Qed.
End WithCfg.

Definition tables_belowb (h : Z) (s : db) : bool :=
  forallb (fun kv => fst kv <? h) (map_to_list (grades s)) && forallb (fun kv => fst kv <? h) (map_to_list (rates s)) &&
  forallb (fun kv => fst kv <? h) (map_to_list (versions s)) && forallb (fun r => fst (fst (fst (fst r))) <? h) (winners s).
Lemma keys_below_spec {A} (m : gmap Z A) h :
  forallb (fun kv => fst kv <? h) (map_to_list m) = true -> forall k, h <= k -> m !! k = None.
Proof.
  intros H k Hk. rewrite forallb_forall in H. destruct (m !! k) as [v|] eqn:E; [|reflexivity].
  apply elem_of_map_to_list in E. apply elem_of_list_In in E. specialize (H _ E). cbn [fst] in H. lia.
Qed.
Lemma tables_belowb_spec h s : tables_belowb h s = true -> tables_below h s.
Proof.
  unfold tables_belowb, tables_below. intros H. apply andb_prop in H as [H Hw]. apply andb_prop in H as [H Hv]. apply andb_prop in H as [Hg Hr].
  split; [apply keys_below_spec; exact Hg|]. split; [apply keys_below_spec; exact Hr|]. split; [apply keys_below_spec; exact Hv|].
  apply Forall_forall. intros r Hin. rewrite forallb_forall in Hw. specialize (Hw r Hin). lia.
Qed.

Print Assumptions replay_total.
