(* Lemmas/FrameLemmas.v — the transaction machinery of Model/Ledger.v only writes the balance,
   relation, history, holding and bank tables: every projection of the database that is invariant
   under those writes is invariant under the whole machinery.  Instantiated with pn_rate,
   pn_grade/pn_winners, the snapshots, the sync height and pn_sync_version. *)
From Model Require Import Ledger.
From Lemmas Require Import DbLemmas LedgerLemmas.
From Gen Require Import Consts.
Open Scope Z_scope.

Section Frame.
Context {A : Type} (π : db -> A).
Hypothesis π_bal : forall s v, π (set_bal s v) = π s.
Hypothesis π_rel : forall s v, π (set_rel s v) = π s.
Hypothesis π_hist : forall s v, π (set_hist s v) = π s.
Hypothesis π_htxs : forall s v l, π (set_htxs s v l) = π s.
Hypothesis π_holding : forall s v, π (set_holding s v) = π s.
Hypothesis π_bank : forall s v, π (set_bank s v) = π s.

Lemma fr_add s a t v s' : add_to_balance s a t v = Ok s' -> π s' = π s.
Proof. intros H. apply add_to_balance_ok in H as (_ & _ & ->). apply π_bal. Qed.
Lemma fr_sub s a t v s' : sub_from_balance s a t v = SubOk s' -> π s' = π s.
Proof. intros H. apply sub_from_balance_ok in H as (_ & _ & _ & ->). apply π_bal. Qed.
Lemma fr_insert_relation s a hs i t cv : π (insert_relation s a hs i t cv) = π s.
Proof. unfold insert_relation. destruct (existsb _ _); [reflexivity|apply π_rel]. Qed.
Lemma fr_set_executed s hs code : π (set_executed s hs code) = π s.
Proof. apply π_hist. Qed.
Lemma fr_set_to_amount s hs i amt : π (set_to_amount s hs i amt) = π s.
Proof. apply π_htxs. Qed.
Lemma fr_set_peg_request_amounts s hs i amt o : π (set_peg_request_amounts s hs i amt o) = π s.
Proof. apply π_htxs. Qed.
Lemma fr_insert_hbatch s r s' : insert_hbatch s r = Ok s' -> π s' = π s.
Proof. unfold insert_hbatch. destruct (hist_has_at _ _ _); [discriminate|]. intros H; inversion H; apply π_hist. Qed.
Lemma fr_insert_htx s r lk s' : insert_htx s r lk = Ok s' -> π s' = π s.
Proof. unfold insert_htx. destruct (htx_has _ _ _); [discriminate|]. intros H; inversion H; apply π_htxs. Qed.
Lemma fr_insert_holding s e h s' : insert_holding s e h = Ok s' -> π s' = π s.
Proof. unfold insert_holding. destruct (holding_has _ _); [discriminate|]. intros H; inversion H; apply π_holding. Qed.
Lemma fr_insert_bank s h a s' : insert_bank s h a = Ok s' -> π s' = π s.
Proof. unfold insert_bank. destruct (bank s !! h); [discriminate|]. intros H; inversion H; apply π_bank. Qed.
Lemma fr_update_bank s h u r s' : update_bank s h u r = Ok s' -> π s' = π s.
Proof. unfold update_bank. destruct (bank s !! h) as [[[? ?] ?]|]; [|discriminate]. intros H; inversion H; apply π_bank. Qed.

(* a fold of steps each preserving π preserves π *)
Lemma fr_fold {X} (f : db -> X -> res db) (l : list X) :
  (forall s x s', f s x = Ok s' -> π s' = π s) ->
  forall s s', fold_left (fun r x => let? s0 := r in f s0 x) l (Ok s) = Ok s' -> π s' = π s.
Proof.
  intros Hf s s' H.
  exact (fold_res_inv (fun x => π x = π s) f l (fun s0 x s1 Hp Hs => eq_trans (Hf _ _ _ Hs) Hp) s s' eq_refl H).
Qed.

Section WithCfg.
Variable c : cfg.

Lemma fr_credit_transfers h hs idx ty trs s s' : credit_transfers c h hs idx ty trs s = Ok s' -> π s' = π s.
Proof.
  unfold credit_transfers. apply fr_fold. intros s0 tr s1 H.
  destruct (tr_addr tr =? burn_addr c h); [inversion H; reflexivity|].
  apply rbind_ok in H as (s2 & Ha & Hr). inversion Hr; subst. rewrite fr_insert_relation. eapply fr_add; exact Ha.
Qed.

Lemma fr_record_txs h hs rates avgs txs : forall idx s s',
  record_txs c h hs rates avgs idx txs s = Ok s' -> π s' = π s.
Proof.
  induction txs as [|t txs IH]; intros idx s s' H; cbn [record_txs] in H; [inversion H; reflexivity|].
  destruct (sub_from_balance s (tx_addr t) (tx_type t) (tx_amt t)) as [s1| |code] eqn:Es; try discriminate.
  pose proof (fr_sub _ _ _ _ _ Es) as E1.
  set (s3 := set_executed (insert_relation s1 (tx_addr t) hs idx false (is_conversion t)) hs h) in *.
  assert (E3 : π s3 = π s) by (unfold s3; rewrite fr_set_executed, fr_insert_relation; exact E1).
  destruct ((c_PegnetConversionLimitActivation c <=? h) && is_peg_request t).
  - destruct (conv_of c h rates avgs t); [|discriminate]. rewrite (IH _ _ _ H). exact E3.
  - destruct (is_conversion t).
    + destruct (conv_of c h rates avgs t) as [out|]; [|discriminate].
      apply rbind_ok in H as (s5 & Hadd & Hrest). rewrite (IH _ _ _ Hrest), (fr_add _ _ _ _ _ Hadd), fr_set_to_amount. exact E3.
    + apply rbind_ok in H as (s4 & Hc & Hrest). rewrite (IH _ _ _ Hrest), (fr_credit_transfers _ _ _ _ _ _ _ Hc). exact E3.
Qed.

Lemma fr_apply_batch h s hs txs rates avgs s' : apply_batch c h s hs txs rates avgs = BApplied s' -> π s' = π s.
Proof.
  unfold apply_batch.
  destruct (check_txs c h s rates avgs txs) as [r|] eqn:E1.
  { intros ->. exfalso. eapply check_txs_not_applied; exact E1. }
  destruct (sim_txs c h _ rates avgs (bal s) txs) as [r|] eqn:E2.
  { intros ->. exfalso. eapply sim_txs_not_applied; exact E2. }
  unfold record_batch. destruct (record_txs c h hs rates avgs 0 txs s) eqn:E; try discriminate.
  intros H; inversion H; subst. eapply fr_record_txs; exact E.
Qed.

Lemma fr_pay_request h rates reqs s p s' : pay_request c h rates reqs s p = Ok s' -> π s' = π s.
Proof.
  unfold pay_request. destruct (find _ reqs); [|intros H; inversion H; reflexivity].
  intros H. apply rbind_ok in H as (s2 & H1 & H2).
  rewrite (fr_add _ _ _ _ _ H2), (fr_add _ _ _ _ _ H1). apply fr_set_peg_request_amounts.
Qed.

Lemma fr_record_peg_requests h s batches rates avgs bankamt bh s' :
  record_peg_requests c h s batches rates avgs bankamt bh = Ok s' -> π s' = π s.
Proof.
  unfold record_peg_requests, record_peg_requests_ord. cbv zeta.
  destruct (has_dup_txid _); [discriminate|]. intros H.
  apply rbind_ok in H as (s1 & H1 & H2).
  assert (E1 : π s1 = π s) by (revert H1; apply fr_fold; intros; eapply fr_pay_request; eauto).
  destruct (_ <=? bh); [rewrite (fr_update_bank _ _ _ _ _ H2); exact E1|inversion H2; subst; exact E1].
Qed.

Lemma fr_apply_held cur rates avgs s e hh s' isp : apply_held c cur rates avgs s e hh = Ok (s', isp) -> π s' = π s.
Proof.
  unfold apply_held. intros H.
  destruct (entry_valid_at c e hh) as [txs|]; [|inversion H; reflexivity].
  destruct (_ && has_peg_conversion txs); [inversion H; apply fr_set_executed|].
  destruct (entry_valid_at c e cur); [|inversion H; apply fr_set_executed].
  destruct (is_replay s (e_hash e)); [inversion H; reflexivity|].
  destruct (apply_batch c cur s (e_hash e) txs rates avgs) as [s2|code| |code] eqn:Eb; try discriminate;
    inversion H; subst; try reflexivity; [eapply fr_apply_batch; exact Eb|apply fr_set_executed].
Qed.

Lemma fr_apply_held_height cm cur rates avgs hh s pegs s' pegs' :
  apply_held_height c cm cur rates avgs hh (Ok (s, pegs)) = Ok (s', pegs') -> π s' = π s.
Proof.
  unfold apply_held_height. cbn [rbind]. intros H.
  apply rbind_ok in H as ([s1 pegs1] & H1 & H2).
  assert (E1 : π s1 = π s).
  { pose (f := fun (st : db * list (hash * list tx)) (e : entry) =>
                 let '(s, pegs) := st in
                 let? r1 := apply_held c cur rates avgs s e hh in
                 let '(s', isp) := r1 in
                 Ok (s', if isp then pegs ++ [(e_hash e, default [] (e_batch e))] else pegs)).
    assert (Hstep : forall st e st', π (fst st) = π s -> f st e = Ok st' -> π (fst st') = π s).
    { intros [s0 p0] e [s2 p2] Hp Hs. cbn [fst] in *. unfold f in Hs.
      apply rbind_ok in Hs as ([s3 isp] & Ha & Hr). inversion Hr; subst.
      rewrite (fr_apply_held _ _ _ _ _ _ _ _ Ha). exact Hp. }
    exact (fold_res_inv (fun st => π (fst st) = π s) f _ Hstep (s, pegs) (s1, pegs1) eq_refl H1). }
  destruct (_ && _).
  - apply rbind_ok in H2 as (s2 & Hr & Hk). inversion Hk; subst. rewrite (fr_record_peg_requests _ _ _ _ _ _ _ _ Hr). exact E1.
  - inversion H2; subst; exact E1.
Qed.

Lemma fr_apply_holding cm cur s rates avgs s' : apply_holding c cm cur s rates avgs = Ok s' -> π s' = π s.
Proof.
  unfold apply_holding. intros H. cbv zeta in H.
  apply rbind_ok in H as ([s1 pegs] & H1 & H2).
  assert (E1 : π s1 = π s).
  { clear H2.
    match type of H1 with fold_left _ ?l _ = _ => remember l as hs eqn:Ehs; clear Ehs end.
    assert (G : forall hs0 p0 s0, π s0 = π s ->
                fold_left (fun acc hh => apply_held_height c cm cur rates avgs hh acc) hs0 (Ok (s0, p0)) = Ok (s1, pegs) -> π s1 = π s).
    { induction hs0 as [|hh l IH]; intros p0 s0 Hp HF; cbn [fold_left] in HF; [inversion HF; subst; exact Hp|].
      destruct (apply_held_height c cm cur rates avgs hh (Ok (s0, p0))) as [[s2 p2]|code|code] eqn:E.
      - eapply IH; [|exact HF]. rewrite (fr_apply_held_height _ _ _ _ _ _ _ _ _ E). exact Hp.
      - exfalso. clear -HF. induction l as [|y l IHl]; cbn in HF; [discriminate|auto].
      - exfalso. clear -HF. induction l as [|y l IHl]; cbn in HF; [discriminate|auto]. }
    eapply G; [reflexivity|exact H1]. }
  destruct (_ && _).
  - destruct (bank s1 !! cur) as [[[am ?] ?]|]; rewrite (fr_record_peg_requests _ _ _ _ _ _ _ _ H2); exact E1.
  - inversion H2; subst; exact E1.
Qed.

Lemma fr_insert_history s e order h txs s' : insert_history s e order h txs = Ok s' -> π s' = π s.
Proof.
  unfold insert_history. intros H. apply rbind_ok in H as (s1 & H1 & H2).
  rewrite <- (fr_insert_hbatch _ _ _ H1). revert H2. apply fr_fold. intros; eapply fr_insert_htx; eauto.
Qed.

Lemma fr_apply_entry h s order e s' : apply_entry c h s order e = Ok s' -> π s' = π s.
Proof.
  unfold apply_entry. intros H.
  destruct (entry_valid_at c e h) as [txs|]; [|inversion H; reflexivity].
  destruct (is_replay s (e_hash e)); [inversion H; reflexivity|].
  destruct (hist_has s (e_hash e)); [inversion H; reflexivity|].
  apply rbind_ok in H as (s1 & H1 & H2). pose proof (fr_insert_history _ _ _ _ _ _ H1) as E1.
  destruct (has_conversions txs); [rewrite (fr_insert_holding _ _ _ _ H2); exact E1|].
  destruct (apply_batch c h s1 (e_hash e) txs ∅ ∅) as [s2|code| |code] eqn:Eb.
  - inversion H2; subst. rewrite (fr_apply_batch _ _ _ _ _ _ _ Eb). exact E1.
  - destruct (code =? -1); inversion H2; subst. rewrite fr_set_executed. exact E1.
  - inversion H2; subst; exact E1.
  - discriminate.
Qed.

Lemma fr_apply_tx_block h s es s' : apply_tx_block c h s es = Ok s' -> π s' = π s.
Proof.
  unfold apply_tx_block. generalize 0 as i.
  assert (G : forall es0 i s0, π s0 = π s ->
     snd (fold_left (fun acc e => let '(i, r) := acc in (i + 1, let? s' := r in apply_entry c h s' i e)) es0 (i, Ok s0)) = Ok s' -> π s' = π s).
  { induction es0 as [|e l IH]; intros i s0 Hp H; cbn [fold_left snd] in H; [inversion H; subst; exact Hp|].
    cbn [rbind] in H. destruct (apply_entry c h s0 i e) as [s1|code|code] eqn:E.
    - eapply IH; [|exact H]. rewrite (fr_apply_entry _ _ _ _ _ E). exact Hp.
    - exfalso. clear -H. revert H. generalize (i + 1). induction l as [|y l IHl]; intros j H; cbn in H; [discriminate|eauto].
    - exfalso. clear -H. revert H. generalize (i + 1). induction l as [|y l IHl]; intros j H; cbn in H; [discriminate|eauto]. }
  intros i H. eapply G; [reflexivity|exact H].
Qed.
End WithCfg.

Lemma fr_apply_factoid_block h s fs s' : apply_factoid_block h s fs = Ok s' -> π s' = π s.
Proof.
  unfold apply_factoid_block. apply fr_fold. intros s0 f s1 H.
  destruct (is_burn f) as [[a v]|]; [|inversion H; reflexivity].
  apply rbind_ok in H as (s3 & H1 & H). apply rbind_ok in H as (s4 & H2 & H3).
  rewrite (fr_insert_htx _ _ _ _ H3), (fr_insert_hbatch _ _ _ H2). eapply fr_add; exact H1.
Qed.

Lemma fr_pay_winners s ts ws s' : pay_winners s ts ws = Ok s' -> π s' = π s.
Proof.
  unfold pay_winners. apply fr_fold. intros s0 w s1 H.
  destruct (w_addr w) as [a|]; [|inversion H; reflexivity].
  apply rbind_ok in H as (s3 & H1 & H). apply rbind_ok in H as (s4 & H2 & H3).
  rewrite (fr_insert_htx _ _ _ _ H3), (fr_insert_hbatch _ _ _ H2). eapply fr_add; exact H1.
Qed.
End Frame.
