(* Lemmas/FrameLemmas.v — every change the model makes to the database goes through a small
   set of storage operations.  If a projection π of the database moves along a preorder R under
   each of those operations, it moves along R under the whole transaction machinery
   (Model/Ledger.v) and under a whole block (Model/Block.v).  With R := eq this gives frame
   properties (what a block does not touch); with an inclusion order it gives monotonicity
   (rows are never deleted, recorded rates never change). *)
From Model Require Import Block.
From Lemmas Require Import DbLemmas LedgerLemmas BlockLemmas.
From Gen Require Import Consts.
From Coq Require Import RelationClasses.
Open Scope Z_scope.

Section Pres.
Context {A : Type} (π : db -> A) (R : A -> A -> Prop) {PO : PreOrder R}.
Hypothesis Hbal : forall s v, R (π s) (π (set_bal s v)).
Hypothesis Hrel : forall s a hs i t cv, R (π s) (π (insert_relation s a hs i t cv)).
Hypothesis Hexec : forall s hs code, R (π s) (π (set_executed s hs code)).
Hypothesis Hhb : forall s r s', insert_hbatch s r = Ok s' -> R (π s) (π s').
Hypothesis Hamt : forall s hs i amt, R (π s) (π (set_to_amount s hs i amt)).
Hypothesis Hpeg : forall s hs i amt o, R (π s) (π (set_peg_request_amounts s hs i amt o)).
Hypothesis Hhtx : forall s r lk s', insert_htx s r lk = Ok s' -> R (π s) (π s').
Hypothesis Hhold : forall s e h s', insert_holding s e h = Ok s' -> R (π s) (π s').
Hypothesis Hbank : forall s h a s', insert_bank s h a = Ok s' -> R (π s) (π s').
Hypothesis Hubank : forall s h u r s', update_bank s h u r = Ok s' -> R (π s) (π s').

Local Ltac tr x := transitivity (π x).

Lemma pr_add s a t v s' : add_to_balance s a t v = Ok s' -> R (π s) (π s').
Proof. intros H. apply add_to_balance_ok in H as (_ & _ & ->). apply Hbal. Qed.
Lemma pr_sub s a t v s' : sub_from_balance s a t v = SubOk s' -> R (π s) (π s').
Proof. intros H. apply sub_from_balance_ok in H as (_ & _ & _ & ->). apply Hbal. Qed.

Lemma pr_fold {X} (f : db -> X -> res db) (l : list X) :
  (forall s x s', f s x = Ok s' -> R (π s) (π s')) ->
  forall s s', fold_left (fun r x => let? s0 := r in f s0 x) l (Ok s) = Ok s' -> R (π s) (π s').
Proof.
  intros Hf s s' H.
  refine (fold_res_inv (fun x => R (π s) (π x)) f l _ s s' _ H); [|reflexivity].
  intros s0 x s1 Hp Hs. etransitivity; [exact Hp|eapply Hf; exact Hs].
Qed.

Section WithCfg.
Variable c : cfg.

Lemma pr_credit_transfers h hs idx ty trs s s' : credit_transfers c h hs idx ty trs s = Ok s' -> R (π s) (π s').
Proof.
  unfold credit_transfers. apply pr_fold. intros s0 tr s1 H.
  destruct (tr_addr tr =? burn_addr c h); [inversion H; reflexivity|].
  apply rbind_ok in H as (s2 & Ha & Hr). inversion Hr; subst. tr s2; [eapply pr_add; exact Ha|apply Hrel].
Qed.

Lemma pr_record_txs h hs rates avgs txs : forall idx s s',
  record_txs c h hs rates avgs idx txs s = Ok s' -> R (π s) (π s').
Proof.
  induction txs as [|t txs IH]; intros idx s s' H; cbn [record_txs] in H; [inversion H; reflexivity|].
  destruct (sub_from_balance s (tx_addr t) (tx_type t) (tx_amt t)) as [s1| |code] eqn:Es; try discriminate.
  pose proof (pr_sub _ _ _ _ _ Es) as E1.
  set (s2 := insert_relation s1 (tx_addr t) hs idx false (is_conversion t)) in *.
  set (s3 := set_executed s2 hs h) in *.
  assert (E3 : R (π s) (π s3)) by (tr s1; [exact E1|]; tr s2; [apply Hrel|apply Hexec]).
  destruct ((c_PegnetConversionLimitActivation c <=? h) && is_peg_request t).
  - destruct (conv_of c h rates avgs t); [|discriminate]. tr s3; [exact E3|eapply IH; exact H].
  - destruct (is_conversion t).
    + destruct (conv_of c h rates avgs t) as [out|]; [|discriminate].
      apply rbind_ok in H as (s5 & Hadd & Hrest).
      tr s3; [exact E3|]. tr (set_to_amount s3 hs idx out); [apply Hamt|]. tr s5; [eapply pr_add; exact Hadd|eapply IH; exact Hrest].
    + apply rbind_ok in H as (s4 & Hc & Hrest).
      tr s3; [exact E3|]. tr s4; [eapply pr_credit_transfers; exact Hc|eapply IH; exact Hrest].
Qed.

Lemma pr_apply_batch h s hs txs rates avgs s' : apply_batch c h s hs txs rates avgs = BApplied s' -> R (π s) (π s').
Proof.
  unfold apply_batch.
  destruct (check_txs c h s rates avgs txs) as [r|] eqn:E1.
  { intros ->. exfalso. eapply check_txs_not_applied; exact E1. }
  destruct (sim_txs c h _ rates avgs (bal s) txs) as [r|] eqn:E2.
  { intros ->. exfalso. eapply sim_txs_not_applied; exact E2. }
  unfold record_batch. destruct (record_txs c h hs rates avgs 0 txs s) eqn:E; try discriminate.
  intros H; inversion H; subst. eapply pr_record_txs; exact E.
Qed.

Lemma pr_pay_request h rates reqs s p s' : pay_request c h rates reqs s p = Ok s' -> R (π s) (π s').
Proof.
  unfold pay_request. destruct (find _ reqs); [|intros H; inversion H; reflexivity].
  intros H. apply rbind_ok in H as (s2 & H1 & H2).
  etransitivity; [apply Hpeg|]. tr s2; [eapply pr_add; exact H1|eapply pr_add; exact H2].
Qed.

Lemma pr_record_peg_requests h s batches rates avgs bankamt bh s' :
  record_peg_requests c h s batches rates avgs bankamt bh = Ok s' -> R (π s) (π s').
Proof.
  unfold record_peg_requests, record_peg_requests_ord. cbv zeta.
  destruct (has_dup_txid _); [discriminate|]. intros H.
  apply rbind_ok in H as (s1 & H1 & H2).
  assert (E1 : R (π s) (π s1)) by (revert H1; apply pr_fold; intros; eapply pr_pay_request; eauto).
  destruct (_ <=? bh); [tr s1; [exact E1|eapply Hubank; exact H2]|inversion H2; subst; exact E1].
Qed.

Lemma pr_apply_held cur rates avgs s e hh s' isp : apply_held c cur rates avgs s e hh = Ok (s', isp) -> R (π s) (π s').
Proof.
  unfold apply_held. intros H.
  destruct (entry_valid_at c e hh) as [txs|]; [|inversion H; reflexivity].
  destruct (_ && has_peg_conversion txs); [inversion H; apply Hexec|].
  destruct (entry_valid_at c e cur); [|inversion H; apply Hexec].
  destruct (is_replay s (e_hash e)); [inversion H; reflexivity|].
  destruct (apply_batch c cur s (e_hash e) txs rates avgs) as [s2|code| |code] eqn:Eb; try discriminate;
    inversion H; subst; try reflexivity; [eapply pr_apply_batch; exact Eb|apply Hexec].
Qed.

Lemma pr_apply_held_height cm cur rates avgs hh s pegs s' pegs' :
  apply_held_height c cm cur rates avgs hh (Ok (s, pegs)) = Ok (s', pegs') -> R (π s) (π s').
Proof.
  unfold apply_held_height. cbn [rbind]. intros H.
  apply rbind_ok in H as ([s1 pegs1] & H1 & H2).
  assert (E1 : R (π s) (π s1)).
  { pose (f := fun (st : db * list (hash * list tx)) (e : entry) =>
                 let '(s, pegs) := st in
                 let? r1 := apply_held c cur rates avgs s e hh in
                 let '(s', isp) := r1 in
                 Ok (s', if isp then pegs ++ [(e_hash e, default [] (e_batch e))] else pegs)).
    assert (Hstep : forall st e st', R (π s) (π (fst st)) -> f st e = Ok st' -> R (π s) (π (fst st'))).
    { intros [s0 p0] e [s2 p2] Hp Hs. cbn [fst] in *. unfold f in Hs.
      apply rbind_ok in Hs as ([s3 isp] & Ha & Hr). inversion Hr; subst.
      etransitivity; [exact Hp|eapply pr_apply_held; exact Ha]. }
    refine (fold_res_inv (fun st => R (π s) (π (fst st))) f _ Hstep (s, pegs) (s1, pegs1) _ H1). cbn. reflexivity. }
  destruct (_ && _).
  - apply rbind_ok in H2 as (s2 & Hr & Hk). inversion Hk; subst. tr s1; [exact E1|eapply pr_record_peg_requests; exact Hr].
  - inversion H2; subst; exact E1.
Qed.

Lemma pr_apply_holding cm cur s rates avgs s' : apply_holding c cm cur s rates avgs = Ok s' -> R (π s) (π s').
Proof.
  unfold apply_holding. intros H. cbv zeta in H.
  apply rbind_ok in H as ([s1 pegs] & H1 & H2).
  assert (E1 : R (π s) (π s1)).
  { clear H2.
    match type of H1 with fold_left _ ?l _ = _ => remember l as hs eqn:Ehs; clear Ehs end.
    assert (G : forall hs0 p0 s0, R (π s) (π s0) ->
                fold_left (fun acc hh => apply_held_height c cm cur rates avgs hh acc) hs0 (Ok (s0, p0)) = Ok (s1, pegs) -> R (π s) (π s1)).
    { induction hs0 as [|hh l IH]; intros p0 s0 Hp HF; cbn [fold_left] in HF; [inversion HF; subst; exact Hp|].
      destruct (apply_held_height c cm cur rates avgs hh (Ok (s0, p0))) as [[s2 p2]|code|code] eqn:E.
      - eapply IH; [|exact HF]. etransitivity; [exact Hp|eapply pr_apply_held_height; exact E].
      - exfalso. clear -HF. induction l as [|y l IHl]; cbn in HF; [discriminate|auto].
      - exfalso. clear -HF. induction l as [|y l IHl]; cbn in HF; [discriminate|auto]. }
    eapply G; [reflexivity|exact H1]. }
  destruct (_ && _).
  - destruct (bank s1 !! cur) as [[[am ?] ?]|]; (tr s1; [exact E1|eapply pr_record_peg_requests; exact H2]).
  - inversion H2; subst; exact E1.
Qed.

Lemma pr_insert_history s e order h txs s' : insert_history s e order h txs = Ok s' -> R (π s) (π s').
Proof.
  unfold insert_history. intros H. apply rbind_ok in H as (s1 & H1 & H2).
  tr s1; [eapply Hhb; exact H1|]. revert H2. apply pr_fold. intros; eapply Hhtx; eauto.
Qed.

Lemma pr_apply_entry h s order e s' : apply_entry c h s order e = Ok s' -> R (π s) (π s').
Proof.
  unfold apply_entry. intros H.
  destruct (entry_valid_at c e h) as [txs|]; [|inversion H; reflexivity].
  destruct (is_replay s (e_hash e)); [inversion H; reflexivity|].
  destruct (hist_has s (e_hash e)); [inversion H; reflexivity|].
  apply rbind_ok in H as (s1 & H1 & H2). pose proof (pr_insert_history _ _ _ _ _ _ H1) as E1.
  destruct (has_conversions txs); [tr s1; [exact E1|eapply Hhold; exact H2]|].
  destruct (apply_batch c h s1 (e_hash e) txs ∅ ∅) as [s2|code| |code] eqn:Eb.
  - inversion H2; subst. tr s1; [exact E1|eapply pr_apply_batch; exact Eb].
  - destruct (code =? -1); inversion H2; subst. tr s1; [exact E1|apply Hexec].
  - inversion H2; subst; exact E1.
  - discriminate.
Qed.

Lemma pr_apply_tx_block h s es s' : apply_tx_block c h s es = Ok s' -> R (π s) (π s').
Proof.
  unfold apply_tx_block. generalize 0 as i.
  assert (G : forall es0 i s0, R (π s) (π s0) ->
     snd (fold_left (fun acc e => let '(i, r) := acc in (i + 1, let? s' := r in apply_entry c h s' i e)) es0 (i, Ok s0)) = Ok s' -> R (π s) (π s')).
  { induction es0 as [|e l IH]; intros i s0 Hp H; cbn [fold_left snd] in H; [inversion H; subst; exact Hp|].
    cbn [rbind] in H. destruct (apply_entry c h s0 i e) as [s1|code|code] eqn:E.
    - eapply IH; [|exact H]. etransitivity; [exact Hp|eapply pr_apply_entry; exact E].
    - exfalso. clear -H. revert H. generalize (i + 1). induction l as [|y l IHl]; intros j H; cbn in H; [discriminate|eauto].
    - exfalso. clear -H. revert H. generalize (i + 1). induction l as [|y l IHl]; intros j H; cbn in H; [discriminate|eauto]. }
  intros i H. eapply G; [reflexivity|exact H].
Qed.

Lemma pr_apply_factoid_block h s fs s' : apply_factoid_block h s fs = Ok s' -> R (π s) (π s').
Proof.
  unfold apply_factoid_block. apply pr_fold. intros s0 f s1 H.
  destruct (is_burn f) as [[a v]|]; [|inversion H; reflexivity].
  apply rbind_ok in H as (s3 & H1 & H). apply rbind_ok in H as (s4 & H2 & H3).
  tr s3; [eapply pr_add; exact H1|]. tr s4; [eapply Hhb; exact H2|eapply Hhtx; exact H3].
Qed.

Lemma pr_pay_winners s ts ws s' : pay_winners s ts ws = Ok s' -> R (π s) (π s').
Proof.
  unfold pay_winners. apply pr_fold. intros s0 w s1 H.
  destruct (w_addr w) as [a|]; [|inversion H; reflexivity].
  apply rbind_ok in H as (s3 & H1 & H). apply rbind_ok in H as (s4 & H2 & H3).
  tr s3; [eapply pr_add; exact H1|]. tr s4; [eapply Hhb; exact H2|eapply Hhtx; exact H3].
Qed.

(* ---- block level ------------------------------------------------------------------------ *)
Hypothesis Hsnaps : forall s cu pa, R (π s) (π (set_snaps s cu pa)).
Hypothesis Hgrade : forall h s v s', insert_grade h s v = Ok s' -> R (π s) (π s').
Variable Ph : Z -> Prop.   (* the heights at which rates may be inserted *)
Hypothesis Hrates : forall cm h s a ph s', Ph h -> insert_rates cm h s a ph = Ok s' -> R (π s) (π s').
Hypothesis Hsynced : forall s h s', insert_synced s h = Ok s' -> R (π s) (π s').

Lemma pr_mint_tokens s s' : mint_tokens s = Ok s' -> R (π s) (π s').
Proof. unfold mint_tokens. generalize mint_list as l. intros l. apply pr_fold. intros; eapply pr_add; eauto. Qed.

Lemma pr_sub_ignoring s a t v s' : sub_ignoring_txerr s a t v = Ok s' -> R (π s) (π s').
Proof.
  unfold sub_ignoring_txerr. destruct (sub_from_balance s a t v) eqn:E; intros H; inversion H; subst; [|reflexivity].
  eapply pr_sub; exact E.
Qed.

Lemma pr_nullify_minted cm s s' : nullify_minted cm s = Ok s' -> R (π s) (π s').
Proof. unfold nullify_minted. generalize mint_list as l. intros l. apply pr_fold. intros; eapply pr_sub_ignoring; eauto. Qed.

Lemma pr_nullify_burn cm h ts s : R (π s) (π (nullify_burn c cm h ts s)).
Proof.
  unfold nullify_burn.
  set (step := fun (acc : Z * Z * (bool * db)) (t : Z) => _).
  generalize (0, (if c_V202EnhanceActivation c <=? h then 50 else 0)) as ij.
  generalize true as live. generalize all_tickers as l.
  assert (G : forall l live ij s0, R (π s) (π s0) -> R (π s) (π (snd (snd (fold_left step l (ij, (live, s0))))))).
  { induction l as [|t l IH]; intros live ij s0 Hp; cbn [fold_left]; [exact Hp|].
    destruct ij as [i j]. unfold step at 2. destruct live; cbn [negb]; [|apply IH; exact Hp].
    set (a := if c_V202EnhanceActivation c <=? h then GlobalBurnAddress else GlobalOldBurnAddress).
    set (s1 := match sub_ignoring_txerr s0 a t (get_bal (bal cm) a t) with Ok s' => s' | _ => s0 end).
    assert (Hp1 : R (π s) (π s1)).
    { unfold s1. destruct (sub_ignoring_txerr s0 a t (get_bal (bal cm) a t)) eqn:E; try exact Hp.
      etransitivity; [exact Hp|eapply pr_sub_ignoring; exact E]. }
    destruct (c_V202EnhanceActivation c <=? h); [apply IH; exact Hp1|].
    destruct (insert_hbatch s1 _) as [s2|?|?] eqn:E2; try (apply IH; exact Hp1).
    assert (Hp2 : R (π s) (π s2)) by (etransitivity; [exact Hp1|eapply Hhb; exact E2]).
    destruct (0 <? _); [apply IH; exact Hp2|].
    destruct (insert_htx s2 _ _) as [s3|?|?] eqn:E3; try (apply IH; exact Hp2).
    apply IH. etransitivity; [exact Hp2|eapply Hhtx; exact E3]. }
  intros l live ij. apply G. reflexivity.
Qed.

Lemma pr_snapshot_payouts h ts rates s s' : snapshot_payouts c h ts rates s = Ok s' -> R (π s) (π s').
Proof.
  intros H. unfold snapshot_payouts in H. cbv zeta in H.
  destruct (existsb _ _); [discriminate|]. destruct (existsb _ _); [discriminate|].
  set (s1 := set_snaps s (bal s) (snap_cur s)) in *.
  assert (E1 : R (π s) (π s1)) by apply Hsnaps.
  match type of H with match ?l with [] => _ | _ => _ end = _ => destruct l as [|x0 lst0] end;
    [inversion H; subst; exact E1|].
  apply rbind_ok in H as (s2 & H1 & H). apply rbind_ok in H as (s3 & H2 & H3).
  tr s1; [exact E1|]. tr s2; [eapply Hhb; exact H1|]. tr s3.
  - revert H2. apply pr_fold. intros s0 p s4 Hs. destruct (two63 <=? snd p); [discriminate|]. eapply Hhtx; exact Hs.
  - revert H3. apply pr_fold. intros; eapply pr_add; eauto.
Qed.

Lemma pr_developers_payouts h ts s s' : fst (developers_payouts c h ts s) = Ok s' -> R (π s) (π s').
Proof.
  unfold developers_payouts. cbv zeta. generalize dev_rewards as l. intros l.
  set (step := fun (acc : Z * Z * (res db * db)) (d : Z * Z * Z * Z) => _).
  assert (G : forall l0 ij r reached,
             (forall s0, r = Ok s0 -> R (π s) (π s0)) ->
             forall s1, fst (snd (fold_left step l0 (ij, (r, reached)))) = Ok s1 -> R (π s) (π s1)).
  { induction l0 as [|d l0 IH]; intros [i j] r reached Hr s1 H; cbn [fold_left snd fst] in H; [apply Hr; exact H|].
    unfold step at 2 in H. destruct r as [s0|e|e].
    - destruct d as [[[a bits] pre] post].
      destruct (add_to_balance s0 a PTickerPEG _) as [s2|e|e] eqn:Ea;
        try (eapply IH; [|exact H]; intros ? HH; discriminate).
      assert (Hp2 : R (π s) (π s2)) by (etransitivity; [apply Hr; reflexivity|eapply pr_add; exact Ea]).
      destruct (insert_hbatch s2 _) as [s3|e|e] eqn:Eb;
        try (eapply IH; [|exact H]; intros ? HH; discriminate).
      assert (Hp3 : R (π s) (π s3)) by (etransitivity; [exact Hp2|eapply Hhb; exact Eb]).
      destruct (insert_htx s3 _ _) as [s4|e|e] eqn:Ec;
        try (eapply IH; [|exact H]; intros ? HH; discriminate).
      eapply IH; [|exact H]. intros s5 HH; inversion HH; subst. etransitivity; [exact Hp3|eapply Hhtx; exact Ec].
    - eapply IH; [|exact H]. intros ? HH; discriminate.
    - eapply IH; [|exact H]. intros ? HH; discriminate. }
  intros H. eapply (G l (0, 1) (Ok s) s); [|exact H]. intros s0 HH; inversion HH; subst; reflexivity.
Qed.

Ltac done_step H x Hx := apply obind_done in H as (x & Hx & H).

Lemma pr_sync_block cm mem b s s' mem' : Ph (b_height b) -> sync_block c cm mem b s = Done (s', mem') -> R (π s) (π s').
Proof.
  intros HP H. unfold sync_block in H. cbv zeta in H.
  done_step H s1 H1. apply of_res_done in H1.
  assert (E1 : R (π s) (π s1)).
  { destruct (_ =? c_V204EnhanceActivation c); [exact (pr_mint_tokens _ _ H1)|inversion H1; subst; reflexivity]. }
  clear H1. done_step H s2 H2. apply of_res_done in H2.
  assert (E2 : R (π s) (π s2)).
  { tr s1; [exact E1|]. destruct (_ =? c_V204BurnMintedTokenActivation c); [exact (pr_nullify_minted _ _ _ H2)|inversion H2; subst; reflexivity]. }
  clear H2 E1 s1. done_step H graded Hg. done_step H gradedS HgS.
  done_step H st Hst. destruct st as [[s3 is_rates] ended].
  assert (E3 : R (π s) (π s3)).
  { tr s2; [exact E2|]. destruct (_ <? c_V20HeightActivation c).
    - destruct graded as [v|]; [|inversion Hst; subst; reflexivity].
      done_step Hst s4 H4. apply of_res_done in H4.
      assert (E4 : R (π s2) (π s4)) by (eapply Hgrade; exact H4).
      destruct (v_winners v); [inversion Hst; subst; exact E4|].
      done_step Hst s5 H5. apply of_res_done in H5. inversion Hst; subst.
      tr s4; [exact E4|eapply Hrates; [exact HP|exact H5]].
    - destruct (grade_spr_err c cm b); [discriminate|].
      done_step Hst s4 H4.
      assert (E4 : R (π s2) (π s4)).
      { destruct graded as [v|]; [apply of_res_done in H4; eapply Hgrade; exact H4|inversion H4; subst; reflexivity]. }
      destruct (first_assets graded) as [|o0 o]; destruct (first_assets gradedS) as [|p0 p];
        try (inversion Hst; subst; exact E4);
        (destruct (select_rates c _ _ _); [|inversion Hst; subst; exact E4];
         done_step Hst s5 H5; apply of_res_done in H5; inversion Hst; subst;
         tr s4; [exact E4|eapply Hrates; [exact HP|exact H5]]). }
  clear Hst E2 s2. destruct ended; [inversion H; subst; exact E3|].
  done_step H st2 Hst2. destruct st2 as [s4 mem4].
  assert (E4 : R (π s) (π s4)).
  { tr s3; [exact E3|]. destruct (c_TransactionConversionActivation c <=? _); [|inversion Hst2; subst; reflexivity].
    done_step Hst2 st Hs. destruct st as [s5 rates1].
    assert (E5 : R (π s3) (π s5)).
    { destruct ((c_V20HeightActivation c <=? _) && _); [|inversion Hs; subst; reflexivity].
      done_step Hs s6 H6. apply of_res_done in H6. inversion Hs; subst. exact (pr_snapshot_payouts _ _ _ _ _ H6). }
    done_step Hst2 st Hs2. destruct st as [s6 mem6].
    assert (E6 : R (π s3) (π s6)).
    { tr s5; [exact E5|]. destruct is_rates; [|inversion Hs2; subst; reflexivity].
      done_step Hs2 s7 H7. apply of_res_done in H7.
      assert (E7 : R (π s5) (π s7)).
      { destruct ((c_V4OPRUpdate c <=? _) && _); [eapply Hbank; exact H7|inversion H7; subst; reflexivity]. }
      destruct (get_averages cm _ mem _) as [avgs mem'']. done_step Hs2 s8 H8. apply of_res_done in H8.
      inversion Hs2; subst. tr s7; [exact E7|exact (pr_apply_holding _ _ _ _ _ _ H8)]. }
    done_step Hst2 s7 H7. inversion Hst2; subst. tr s6; [exact E6|].
    destruct (b_tx b); [apply of_res_done in H7; exact (pr_apply_tx_block _ _ _ _ H7)|inversion H7; subst; reflexivity]. }
  clear Hst2 E3 s3. done_step H s5 H5.
  assert (E5 : R (π s) (π s5)).
  { tr s4; [exact E4|]. destruct (_ <? c_V20HeightActivation c); [apply of_res_done in H5; exact (pr_apply_factoid_block _ _ _ _ H5)|inversion H5; subst; reflexivity]. }
  done_step H s6 H6.
  assert (E6 : R (π s) (π s6)).
  { tr s5; [exact E5|]. destruct graded; [apply of_res_done in H6; exact (pr_pay_winners _ _ _ _ H6)|inversion H6; subst; reflexivity]. }
  done_step H s7 H7.
  assert (E7 : R (π s) (π s7)).
  { tr s6; [exact E6|]. destruct (c_V20HeightActivation c <=? _); [|inversion H7; subst; reflexivity].
    destruct gradedS; [apply of_res_done in H7; exact (pr_pay_winners _ _ _ _ H7)|inversion H7; subst; reflexivity]. }
  done_step H s8 H8. inversion H; subst. tr s7; [exact E7|].
  destruct ((c_V20DevRewardsHeightActivation c <=? _) && _); [apply of_res_done in H8; exact (pr_developers_payouts _ _ _ _ H8)|inversion H8; subst; reflexivity].
Qed.

Theorem pr_step_block cm mem b s' mem' : Ph (b_height b) -> step_block c cm mem b = Done (s', mem') -> R (π cm) (π s').
Proof.
  intros HP H. unfold step_block in H. cbv zeta in H.
  done_step H r Hr. destruct r as [s1 mem1]. done_step H s2 H2. apply of_res_done in H2. inversion H; subst.
  tr s1; [|eapply Hsynced; exact H2].
  etransitivity; [|eapply pr_sync_block; [exact HP|exact Hr]].
  destruct (_ =? c_V202EnhanceActivation c); destruct (_ =? c_V20DevRewardsHeightActivation c);
    try reflexivity; try apply pr_nullify_burn.
  etransitivity; apply pr_nullify_burn.
Qed.
End WithCfg.
End Pres.
