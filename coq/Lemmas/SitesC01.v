(* Obligations over the regenerated tables of Gen/Sites.v, by [vm_compute] over the whole (finite) table.
   One file per property, so that a table that no longer matches breaks only the property it belongs to. *)
From Coq Require Import String List Bool Arith.
From Gen Require Import Sites.
From Model Require Import SitesSpec.
Import ListNotations.
Open Scope string_scope.
From Lemmas Require Export SitesRoots.

(* ------------------------------------------------------------------ C01 *)

Lemma map_ranges_expected :
  forallb (fun k => mem2 k expected_map_ranges) map_range_keys = true.
Proof. vm_compute; reflexivity. Qed.

Lemma map_ranges_expected_forall :
  forall f t c x, In (f, t, c, x) map_ranges -> In (f, c) expected_map_ranges.
Proof.
  intros f t c x Hin.
  pose proof map_ranges_expected as H. rewrite forallb_forall in H.
  assert (Hk : In (f, c) map_range_keys).
  { unfold map_range_keys.
    change (f, c) with ((fun r : string * string * string * string => match r with (f, _, c, _) => (f, c) end) (f, t, c, x)).
    apply in_map. exact Hin. }
  apply H in Hk. unfold mem2 in Hk. apply existsb_exists in Hk.
  destruct Hk as [[f' c'] [Hx Heq]]. unfold eqb2 in Heq. simpl in Heq.
  apply andb_true_iff in Heq. destruct Heq as [H1 H2].
  apply String.eqb_eq in H1. apply String.eqb_eq in H2. subst. exact Hx.
Qed.

Lemma map_ranges_present :
  forallb (fun k => mem2 k map_range_keys) expected_map_ranges = true.
Proof. vm_compute; reflexivity. Qed.

Lemma sort_calls_expected :
  forallb (fun k => mem2 k expected_sort_calls) sort_call_keys = true.
Proof. vm_compute; reflexivity. Qed.

Lemma sort_calls_present :
  forallb (fun k => mem2 k sort_call_keys) expected_sort_calls = true.
Proof. vm_compute; reflexivity. Qed.

