(* Lemmas/RoundTripLemmas.v — C20 (b): the parser round trip  parse_json (print v) = Some v,
   for exactly the values v for which it holds ([gp_jv]; every value the parser returns is one,
   so json.Compact is idempotent), for the simpler class [pr_jv] that the encoder stays in, and
   what the tree-level round trip (Lemmas/RoundTripLemmas2.v) needs about numbers and strings.
   Nothing is assumed. *)
From Coq Require Import ZArith List Bool Lia ZifyBool.
From Model Require Import Codec Db.
From Lemmas Require Import CodecLemmas RoundTripScan.
From Gen Require Import Consts.
Import ListNotations.
Open Scope list_scope.
Open Scope Z_scope.

(* ================================================================================== *)
(* 1. decimal numbers: dec_of / dec_value                                              *)
(* ================================================================================== *)
Lemma dec_value_snoc l d : dec_value (l ++ [d]) = dec_value l * 10 + (d - 48).
Proof. unfold dec_value. rewrite fold_left_app. reflexivity. Qed.

Lemma all_digits_snoc l d : all_digits (l ++ [d]) = all_digits l && is_digit d.
Proof. unfold all_digits. rewrite forallb_app. cbn [forallb]. rewrite andb_true_r. reflexivity. Qed.

Lemma is_digit_range d : 48 <= d <= 57 -> is_digit d = true.
Proof. unfold is_digit. lia. Qed.

Lemma digits_rev_S f n :
  digits_rev (S f) n = if n <? 10 then [48 + n] else (48 + n mod 10) :: digits_rev f (n / 10).
Proof. reflexivity. Qed.

(* value and digit-ness, for 0 <= n < 10^fuel *)
Lemma digits_rev_spec : forall f n, 0 <= n < 10 ^ Z.of_nat f ->
  all_digits (rev (digits_rev f n)) = true /\ dec_value (rev (digits_rev f n)) = n.
Proof.
  induction f as [|f IH]; intros n Hn.
  - change (10 ^ Z.of_nat 0) with 1 in Hn. assert (n = 0) by lia. subst n. split; reflexivity.
  - rewrite digits_rev_S. destruct (Z.ltb_spec n 10) as [L|L].
    + cbn [rev app]. split.
      * unfold all_digits. cbn [forallb]. rewrite is_digit_range by lia. reflexivity.
      * unfold dec_value. cbn [fold_left]. lia.
    + assert (Hp : 10 ^ Z.of_nat (S f) = 10 * 10 ^ Z.of_nat f).
      { rewrite Nat2Z.inj_succ, Z.pow_succ_r by lia. reflexivity. }
      assert (Hq : 0 <= n / 10 < 10 ^ Z.of_nat f).
      { split; [apply Z.div_pos; lia|]. apply Z.div_lt_upper_bound; lia. }
      destruct (IH (n / 10) Hq) as [D V].
      cbn [rev]. rewrite all_digits_snoc, dec_value_snoc, D, V.
      pose proof (Z.mod_pos_bound n 10 ltac:(lia)) as Hm.
      split; [rewrite is_digit_range by lia; reflexivity|].
      pose proof (Z.div_mod n 10 ltac:(lia)). lia.
Qed.

(* the most significant digit of a positive number is not 0 *)
Lemma digits_rev_head : forall f n, 1 <= n < 10 ^ Z.of_nat f ->
  exists d rest, rev (digits_rev f n) = d :: rest /\ 49 <= d <= 57.
Proof.
  induction f as [|f IH]; intros n Hn.
  - change (10 ^ Z.of_nat 0) with 1 in Hn. lia.
  - rewrite digits_rev_S. destruct (Z.ltb_spec n 10) as [L|L].
    + exists (48 + n), []. split; [reflexivity|lia].
    + assert (Hp : 10 ^ Z.of_nat (S f) = 10 * 10 ^ Z.of_nat f).
      { rewrite Nat2Z.inj_succ, Z.pow_succ_r by lia. reflexivity. }
      assert (Hq : 1 <= n / 10 < 10 ^ Z.of_nat f).
      { split; [apply Z.div_le_lower_bound; lia|]. apply Z.div_lt_upper_bound; lia. }
      destruct (IH (n / 10) Hq) as (d & rest & E & R).
      exists d, (rest ++ [48 + n mod 10]). cbn [rev]. rewrite E. split; [reflexivity|exact R].
Qed.

Definition u64 (n : Z) : bool := (0 <=? n) && (n <=? max_uint64).

Lemma u64_pow n : u64 n = true -> 0 <= n < 10 ^ Z.of_nat 20.
Proof.
  unfold u64, max_uint64. intros H.
  assert (E : 10 ^ Z.of_nat 20 = 100000000000000000000) by reflexivity. rewrite E. lia.
Qed.

Theorem dec_of_digits n : u64 n = true -> all_digits (dec_of n) = true.
Proof. intros H. unfold dec_of. apply digits_rev_spec. apply u64_pow. exact H. Qed.

Theorem dec_value_dec_of n : u64 n = true -> dec_value (dec_of n) = n.
Proof. intros H. unfold dec_of. apply digits_rev_spec. apply u64_pow. exact H. Qed.

Theorem dec_of_canon n : u64 n = true -> canon_number (dec_of n) = true.
Proof.
  intros H. unfold canon_number. rewrite (dec_of_digits n H). cbn [andb].
  pose proof (u64_pow n H) as R.
  destruct (Z.eq_dec n 0) as [->|N]; [reflexivity|].
  destruct (digits_rev_head 20 n ltac:(lia)) as (d & rest & E & Rd).
  unfold dec_of. rewrite E. destruct rest; [reflexivity|]. lia.
Qed.

Theorem decode_u64_dec_of n : u64 n = true -> decode_u64 (JNum (dec_of n)) = Some n.
Proof.
  intros H. cbn [decode_u64]. rewrite (dec_of_digits n H), (dec_value_dec_of n H).
  unfold u64 in H. destruct (Z.leb_spec n max_uint64); [reflexivity|lia].
Qed.

(* ================================================================================== *)
(* 2. clean strings                                                                    *)
(* ================================================================================== *)
(* a byte that the string scanner copies verbatim and that unquote leaves alone:
   printable ASCII except the quote and the backslash *)
Definition str_char (c : Z) : bool := (32 <=? c) && (c <? 128) && negb (c =? 34) && negb (c =? 92).
Definition clean_str (s : bytes) : bool := forallb str_char s.

Lemma scan_string_clean s : clean_str s = true -> forall rest,
  scan_string (s ++ 34 :: rest) = Some (s, rest).
Proof.
  induction s as [|c s IH]; intros C rest.
  - reflexivity.
  - unfold clean_str in C. cbn [forallb] in C. apply andb_true_iff in C as [Cc Cs].
    unfold str_char in Cc. cbn [app scan_string].
    destruct (Z.eqb_spec c 34); [lia|]. destruct (Z.eqb_spec c 92); [lia|].
    destruct (Z.ltb_spec c 32); [lia|]. rewrite (IH Cs rest). reflexivity.
Qed.

Lemma unquote_clean s : clean_str s = true -> unquote s = s.
Proof.
  induction s as [|c s IH]; intros C; [reflexivity|].
  unfold clean_str in C. cbn [forallb] in C. apply andb_true_iff in C as [Cc Cs].
  unfold str_char in Cc. cbn [unquote].
  destruct (Z.eqb_spec c 92); [lia|]. destruct (Z.ltb_spec c 128); [|lia]. rewrite (IH Cs). reflexivity.
Qed.

(* ================================================================================== *)
(* 3. scanning a canonical number followed by a delimiter                              *)
(* ================================================================================== *)
(* [stop rest] (Lemmas/RoundTripScan.v): the first byte of [rest] cannot continue a number *)
Lemma span_digits_stop d : all_digits d = true -> forall rest, stop rest = true ->
  span_digits (d ++ rest) = (d, rest).
Proof.
  induction d as [|c d IH]; intros D rest S.
  - cbn [app]. destruct rest as [|x r]; [reflexivity|]. cbn [span_digits]. cbn [stop] in S.
    destruct (is_digit x); [discriminate|reflexivity].
  - unfold all_digits in D. cbn [forallb] in D. apply andb_true_iff in D as [Dc Dd].
    cbn [app span_digits]. rewrite Dc. rewrite (IH Dd rest S). reflexivity.
Qed.

Lemma scan_frac_stop rest : stop rest = true -> scan_frac rest = Some ([], rest).
Proof.
  destruct rest as [|c r]; [reflexivity|]. cbn [stop scan_frac]. intros S.
  destruct (Z.eqb_spec c 46); [|reflexivity]. subst c. discriminate.
Qed.

Lemma scan_exp_stop rest : stop rest = true -> scan_exp rest = Some ([], rest).
Proof.
  destruct rest as [|c r]; [reflexivity|]. cbn [stop scan_exp]. intros S.
  destruct ((c =? 101) || (c =? 69)) eqn:E; [|reflexivity].
  exfalso. destruct (is_digit c); cbn [orb negb] in S; [discriminate|].
  destruct (c =? 46); cbn [orb negb] in S; [discriminate|].
  destruct (c =? 101); cbn [orb negb] in S; [discriminate|].
  destruct (c =? 69); cbn [orb negb] in S; discriminate.
Qed.

Lemma canon_number_shape raw : canon_number raw = true ->
  raw = [48] \/ exists c d, raw = c :: d /\ is_digit19 c = true /\ all_digits d = true.
Proof.
  unfold canon_number, all_digits. intros H. apply andb_true_iff in H as [D H].
  destruct raw as [|c d]; [discriminate|]. cbn [forallb] in D. apply andb_true_iff in D as [Dc Dd].
  destruct (Z.eq_dec c 48) as [->|N].
  - destruct d; [left; reflexivity|discriminate].
  - right. exists c, d. split; [reflexivity|]. split; [|exact Dd].
    unfold is_digit in Dc. unfold is_digit19. lia.
Qed.

Lemma scan_number_canon raw rest : canon_number raw = true -> stop rest = true ->
  scan_number (raw ++ rest) = Some (raw, rest).
Proof.
  intros C S. destruct (canon_number_shape raw C) as [->|(c & d & -> & D19 & Dd)].
  - cbn [app]. unfold scan_number. cbn [Z.eqb Pos.eqb scan_int].
    rewrite (scan_frac_stop rest S), (scan_exp_stop rest S). reflexivity.
  - cbn [app]. unfold scan_number. unfold is_digit19 in D19.
    destruct (Z.eqb_spec c 45); [lia|]. cbn [scan_int].
    destruct (Z.eqb_spec c 48); [lia|]. unfold is_digit19.
    destruct ((49 <=? c) && (c <=? 57)) eqn:E; [|lia].
    rewrite (span_digits_stop d Dd rest S).
    rewrite (scan_frac_stop rest S), (scan_exp_stop rest S). cbn [app]. rewrite !app_nil_r. reflexivity.
Qed.

(* ================================================================================== *)
(* 4. printable values and the parser round trip                                       *)
(* ================================================================================== *)
(* [raw] is exactly one JSON string body / exactly one JSON number literal *)
Definition str_lit (raw : bytes) : bool :=
  match scan_string (raw ++ [34]) with Some (_, []) => true | _ => false end.
Definition num_lit (raw : bytes) : bool :=
  match scan_number raw with Some (_, []) => true | _ => false end.

Lemma scan_string_lit raw : str_lit raw = true -> forall rest,
  scan_string (raw ++ 34 :: rest) = Some (raw, rest).
Proof.
  unfold str_lit. destruct (scan_string (raw ++ [34])) as [[b [|x r]]|] eqn:S; try discriminate. intros _.
  destruct (scan_string_replay _ _ _ S) as [E Rp]. apply app_inj_tail in E as [E _]. subst b. exact Rp.
Qed.

Lemma scan_number_lit raw : num_lit raw = true ->
  (exists c t, raw = c :: t /\ ((c =? 45) || is_digit c) = true) /\
  forall rest, stop rest = true -> scan_number (raw ++ rest) = Some (raw, rest).
Proof.
  unfold num_lit. destruct (scan_number raw) as [[n [|x r]]|] eqn:S; try discriminate. intros _.
  destruct (scan_number_replay _ _ _ S) as (E & H & Rp). rewrite app_nil_r in E. subst n. split; assumption.
Qed.

Lemma str_lit_of_scan s b rest : scan_string s = Some (b, rest) -> str_lit b = true.
Proof.
  intros S. destruct (scan_string_replay _ _ _ S) as [_ Rp]. unfold str_lit. rewrite (Rp []). reflexivity.
Qed.

Lemma num_lit_of_scan s n rest : scan_number s = Some (n, rest) -> num_lit n = true.
Proof.
  intros S. destruct (scan_number_replay _ _ _ S) as (_ & _ & Rp). unfold num_lit.
  pose proof (Rp [] eq_refl) as R. rewrite app_nil_r in R. rewrite R. reflexivity.
Qed.

Lemma clean_str_lit s : clean_str s = true -> str_lit s = true.
Proof. intros C. unfold str_lit. rewrite (scan_string_clean s C []). reflexivity. Qed.

Lemma canon_num_lit raw : canon_number raw = true -> num_lit raw = true.
Proof.
  intros C. unfold num_lit. pose proof (scan_number_canon raw [] C eq_refl) as R.
  rewrite app_nil_r in R. rewrite R. reflexivity.
Qed.

(* the values whose compact text parses back to themselves *)
Fixpoint gp_jv (v : jv) : bool :=
  match v with
  | JNum raw => num_lit raw
  | JStr raw => str_lit raw
  | JArr items => forallb gp_jv items
  | JObj ms => forallb (fun m => str_lit (fst m) && gp_jv (snd m)) ms
  | _ => true
  end.

(* the class the encoder stays in: numbers are canonical unsigned integers, strings and keys are
   clean (no escapes needed, none present) *)
Fixpoint pr_jv (v : jv) : bool :=
  match v with
  | JNum raw => canon_number raw
  | JStr raw => clean_str raw
  | JArr items => forallb pr_jv items
  | JObj ms => forallb (fun m => clean_str (fst m) && pr_jv (snd m)) ms
  | _ => true
  end.

(* fuel that suffices for [parse_value] on [print v] *)
Fixpoint size (v : jv) : nat :=
  match v with
  | JArr items => S (list_sum (map (fun x => S (size x)) items))
  | JObj ms => S (list_sum (map (fun m => S (size (snd m))) ms))
  | _ => 1
  end.

Section JvInd.
  Variable P : jv -> Prop.
  Hypothesis Hnull : P JNull.
  Hypothesis Htrue : P JTrue.
  Hypothesis Hfalse : P JFalse.
  Hypothesis Hnum : forall raw, P (JNum raw).
  Hypothesis Hstr : forall raw, P (JStr raw).
  Hypothesis Harr : forall items, Forall P items -> P (JArr items).
  Hypothesis Hobj : forall ms, Forall (fun m => P (snd m)) ms -> P (JObj ms).
  Fixpoint jv_ind' (v : jv) : P v :=
    match v with
    | JNull => Hnull
    | JTrue => Htrue
    | JFalse => Hfalse
    | JNum raw => Hnum raw
    | JStr raw => Hstr raw
    | JArr items =>
      Harr items ((fix go (l : list jv) : Forall P l :=
                     match l with
                     | [] => @Forall_nil _ P
                     | x :: r => @Forall_cons _ P x r (jv_ind' x) (go r)
                     end) items)
    | JObj ms =>
      Hobj ms ((fix go (l : list (bytes * jv)) : Forall (fun m => P (snd m)) l :=
                  match l with
                  | [] => @Forall_nil _ (fun m => P (snd m))
                  | m :: r => @Forall_cons _ (fun m => P (snd m)) m r (jv_ind' (snd m)) (go r)
                  end) ms)
    end.
End JvInd.

Lemma pr_gp : forall v, pr_jv v = true -> gp_jv v = true.
Proof.
  induction v as [| | |raw|raw|items IH|ms IH] using jv_ind'; cbn [pr_jv gp_jv]; intros P; try reflexivity.
  - apply canon_num_lit. exact P.
  - apply clean_str_lit. exact P.
  - apply forallb_forall. intros x Ix. rewrite Forall_forall in IH. rewrite forallb_forall in P. auto.
  - apply forallb_forall. intros x Ix. rewrite Forall_forall in IH. rewrite forallb_forall in P.
    specialize (P x Ix). apply andb_true_iff in P as [P1 P2].
    rewrite (clean_str_lit _ P1), (IH x Ix P2). reflexivity.
Qed.

(* ---- one-step unfoldings of the parser ---------------------------------------------- *)
Lemma skip_ws_nonws c r : is_ws c = false -> skip_ws (c :: r) = c :: r.
Proof. intros H. cbn [skip_ws]. rewrite H. reflexivity. Qed.

Lemma pv_null f rest : parse_value (S f) (110 :: 117 :: 108 :: 108 :: rest) = Some (JNull, rest).
Proof. reflexivity. Qed.
Lemma pv_true f rest : parse_value (S f) (116 :: 114 :: 117 :: 101 :: rest) = Some (JTrue, rest).
Proof. reflexivity. Qed.
Lemma pv_false f rest : parse_value (S f) (102 :: 97 :: 108 :: 115 :: 101 :: rest) = Some (JFalse, rest).
Proof. reflexivity. Qed.
Lemma pv_str f r : parse_value (S f) (34 :: r) =
  match scan_string r with Some (b, rest) => Some (JStr b, rest) | None => None end.
Proof. reflexivity. Qed.
Lemma pv_arr f r : parse_value (S f) (91 :: r) =
  match skip_ws r with
  | c' :: r' => if c' =? 93 then Some (JArr [], r')
                else match parse_elems f (c' :: r') with
                     | Some (vs, rest) => Some (JArr vs, rest)
                     | None => None
                     end
  | [] => None
  end.
Proof. reflexivity. Qed.
Lemma pv_obj f r : parse_value (S f) (123 :: r) =
  match skip_ws r with
  | c' :: r' => if c' =? 125 then Some (JObj [], r')
                else match parse_members f (c' :: r') with
                     | Some (ms, rest) => Some (JObj ms, rest)
                     | None => None
                     end
  | [] => None
  end.
Proof. reflexivity. Qed.
Lemma pv_num f c r : ((c =? 45) || is_digit c) = true -> parse_value (S f) (c :: r) =
  match scan_number (c :: r) with Some (n, rest) => Some (JNum n, rest) | None => None end.
Proof.
  intros D. unfold is_digit in D. cbn [parse_value skip_ws].
  assert (W : is_ws c = false) by (unfold is_ws; lia). rewrite W.
  destruct (Z.eqb_spec c 123); [lia|]. destruct (Z.eqb_spec c 91); [lia|].
  destruct (Z.eqb_spec c 34); [lia|]. destruct (Z.eqb_spec c 116); [lia|].
  destruct (Z.eqb_spec c 102); [lia|]. destruct (Z.eqb_spec c 110); [lia|].
  assert (E : (c =? 45) || is_digit c = true) by (unfold is_digit; lia). rewrite E. reflexivity.
Qed.
Lemma pe_S f s : parse_elems (S f) s =
  match parse_value f s with
  | None => None
  | Some (v, r1) =>
    match skip_ws r1 with
    | c :: r2 =>
      if c =? 93 then Some ([v], r2)
      else if c =? 44 then
        match parse_elems f r2 with
        | Some (vs, rest) => Some (v :: vs, rest)
        | None => None
        end
      else None
    | [] => None
    end
  end.
Proof. reflexivity. Qed.
Lemma pm_S f r : parse_members (S f) (34 :: r) =
  match scan_string r with
  | None => None
  | Some (k, r1) =>
    match skip_ws r1 with
    | c1 :: r2 =>
      if c1 =? 58 then
        match parse_value f r2 with
        | None => None
        | Some (v, r3) =>
          match skip_ws r3 with
          | c3 :: r4 =>
            if c3 =? 125 then Some ([(k, v)], r4)
            else if c3 =? 44 then
              match parse_members f (skip_ws r4) with
              | Some (ms, rest) => Some ((k, v) :: ms, rest)
              | None => None
              end
            else None
          | [] => None
          end
        end
      else None
    | [] => None
    end
  end.
Proof. reflexivity. Qed.

(* ---- the first byte of a printed value ------------------------------------------------ *)
Lemma print_head v : gp_jv v = true ->
  exists c t, print v = c :: t /\ is_ws c = false /\ (c =? 93) = false.
Proof.
  destruct v as [| | |raw|raw|items|ms]; cbn [gp_jv print]; intros H;
    try (eexists; eexists; split; [reflexivity|split; reflexivity]).
  destruct (scan_number_lit raw H) as [(c & t & -> & D) _].
  exists c, t. split; [reflexivity|]. unfold is_digit in D. unfold is_ws. split; lia.
Qed.

Definition print_m (m : bytes * jv) : bytes := let '(k, v) := m in 34 :: k ++ 34 :: 58 :: print v.

Lemma print_obj ms : print (JObj ms) = 123 :: Json.join (map print_m ms) ++ [125].
Proof. reflexivity. Qed.
Lemma print_arr items : print (JArr items) = 91 :: Json.join (map print items) ++ [93].
Proof. reflexivity. Qed.

Lemma join_cons2 x y l : Json.join (x :: y :: l) = x ++ 44 :: Json.join (y :: l).
Proof. reflexivity. Qed.

Definition pv_ok (v : jv) : Prop :=
  gp_jv v = true -> forall f rest, (size v <= f)%nat -> stop rest = true ->
  parse_value f (print v ++ rest) = Some (v, rest).

Lemma parse_elems_print items : Forall pv_ok items -> forallb gp_jv items = true -> items <> [] ->
  forall f rest, (list_sum (map (fun x => S (size x)) items) <= f)%nat ->
  parse_elems f (Json.join (map print items) ++ 93 :: rest) = Some (items, rest).
Proof.
  induction items as [|v vs IH]; intros F P NE f rest L; [congruence|].
  inversion F as [|? ? Fv Fvs]; subst. cbn [forallb] in P. apply andb_true_iff in P as [Pv Pvs].
  cbn [map list_sum fold_right] in L. fold (list_sum (map (fun x => S (size x)) vs)) in L.
  destruct f as [|f]; [lia|]. rewrite pe_S.
  destruct vs as [|v2 vs'].
  - cbn [map Json.join].
    rewrite (Fv Pv f (93 :: rest) ltac:(cbn [map list_sum fold_right] in L; lia) eq_refl).
    reflexivity.
  - cbn [map]. rewrite join_cons2. rewrite <- app_assoc. cbn [app].
    rewrite (Fv Pv f (44 :: _) ltac:(lia) eq_refl).
    rewrite skip_ws_nonws by reflexivity. cbv beta iota.
    change (44 =? 93) with false. change (44 =? 44) with true. cbv beta iota.
    change (print v2 :: map print vs') with (map print (v2 :: vs')).
    rewrite (IH Fvs Pvs ltac:(discriminate) f rest ltac:(lia)). reflexivity.
Qed.

Lemma join_print_m_head ms : ms <> [] -> exists t, Json.join (map print_m ms) = 34 :: t.
Proof.
  destruct ms as [|[k v] r]; [congruence|]. intros _. destruct r as [|m2 r].
  - eexists. reflexivity.
  - cbn [map]. rewrite join_cons2. eexists. reflexivity.
Qed.

Lemma parse_members_print ms : Forall (fun m => pv_ok (snd m)) ms ->
  forallb (fun m => str_lit (fst m) && gp_jv (snd m)) ms = true -> ms <> [] ->
  forall f rest, (list_sum (map (fun m => S (size (snd m))) ms) <= f)%nat ->
  parse_members f (Json.join (map print_m ms) ++ 125 :: rest) = Some (ms, rest).
Proof.
  induction ms as [|[k v] r IH]; intros F P NE f rest L; [congruence|].
  inversion F as [|? ? Fv Fr]; subst. cbn [snd] in Fv.
  cbn [forallb fst snd] in P. apply andb_true_iff in P as [Pm Pr]. apply andb_true_iff in Pm as [Pk Pv].
  cbn [map list_sum fold_right snd] in L. fold (list_sum (map (fun m => S (size (snd m))) r)) in L.
  destruct f as [|f]; [lia|].
  destruct r as [|m2 r'].
  - cbn [map Json.join print_m]. cbn [app]. rewrite pm_S.
    rewrite <- app_assoc. cbn [app]. rewrite (scan_string_lit k Pk).
    rewrite skip_ws_nonws by reflexivity. cbv beta iota. change (58 =? 58) with true. cbv beta iota.
    rewrite (Fv Pv f (125 :: rest) ltac:(cbn [map list_sum fold_right] in L; lia) eq_refl).
    reflexivity.
  - cbn [map]. rewrite join_cons2. cbn [print_m]. cbn [app]. rewrite pm_S.
    rewrite <- !app_assoc. cbn [app]. rewrite (scan_string_lit k Pk).
    rewrite skip_ws_nonws by reflexivity. cbv beta iota. change (58 =? 58) with true. cbv beta iota.
    rewrite (Fv Pv f (44 :: _) ltac:(lia) eq_refl).
    rewrite skip_ws_nonws by reflexivity. cbv beta iota.
    change (44 =? 125) with false. change (44 =? 44) with true. cbv beta iota.
    change (print_m m2 :: map print_m r') with (map print_m (m2 :: r')).
    destruct (join_print_m_head (m2 :: r') ltac:(discriminate)) as [t Et].
    assert (Es : skip_ws (Json.join (map print_m (m2 :: r')) ++ 125 :: rest) =
                 Json.join (map print_m (m2 :: r')) ++ 125 :: rest).
    { rewrite Et. reflexivity. }
    rewrite Es.
    rewrite (IH Fr Pr ltac:(discriminate) f rest ltac:(lia)). reflexivity.
Qed.

Theorem parse_value_print : forall v, pv_ok v.
Proof.
  induction v as [| | |raw|raw|items IH|ms IH] using jv_ind'; unfold pv_ok; intros P f rest L S;
    cbn [size] in L; (destruct f as [|f]; [lia|]).
  - apply pv_null.
  - apply pv_true.
  - apply pv_false.
  - cbn [gp_jv print] in *. destruct (scan_number_lit raw P) as [(c & t & E & D) Rp].
    pose proof (Rp rest S) as Sn. subst raw. cbn [app] in *. rewrite (pv_num f c _ D), Sn. reflexivity.
  - cbn [gp_jv print] in *. cbn [app]. rewrite pv_str. rewrite <- app_assoc. cbn [app].
    rewrite (scan_string_lit raw P). reflexivity.
  - cbn [gp_jv] in P. rewrite print_arr. cbn [app]. rewrite pv_arr. rewrite <- app_assoc. cbn [app].
    destruct items as [|v vs]; [reflexivity|].
    assert (Pv : gp_jv v = true) by (cbn [forallb] in P; apply andb_true_iff in P as [P1 _]; exact P1).
    destruct (print_head v Pv) as (c & t & Ec & Wc & Nc).
    assert (Ej : exists t', Json.join (map print (v :: vs)) = c :: t').
    { destruct vs as [|v2 vs']; [cbn [map Json.join]; eauto|].
      cbn [map]. rewrite join_cons2. rewrite Ec. cbn [app]. eauto. }
    destruct Ej as [t' Ej].
    pose proof (parse_elems_print (v :: vs) IH P ltac:(discriminate) f rest ltac:(lia)) as Pe.
    rewrite Ej in *. cbn [app] in *. rewrite skip_ws_nonws by exact Wc. rewrite Nc. rewrite Pe. reflexivity.
  - cbn [gp_jv] in P. rewrite print_obj. cbn [app]. rewrite pv_obj. rewrite <- app_assoc. cbn [app].
    destruct ms as [|m r]; [reflexivity|].
    destruct (join_print_m_head (m :: r) ltac:(discriminate)) as [t' Ej].
    pose proof (parse_members_print (m :: r) IH P ltac:(discriminate) f rest ltac:(lia)) as Pm.
    rewrite Ej in *. cbn [app] in *. rewrite skip_ws_nonws by reflexivity.
    change (34 =? 125) with false. cbv beta iota. rewrite Pm. reflexivity.
Qed.

(* ---- the fuel of parse_json suffices ---------------------------------------------------- *)
Lemma list_sum_le {A} (g h : A -> nat) l : Forall (fun x => (g x <= h x)%nat) l ->
  (list_sum (map g l) <= list_sum (map h l))%nat.
Proof.
  induction 1 as [|x l Hx Hl IH]; cbn [map list_sum fold_right]; [lia|].
  fold (list_sum (map g l)). fold (list_sum (map h l)). lia.
Qed.

Lemma size_le_plen : forall v, gp_jv v = true -> (size v <= plen v)%nat.
Proof.
  induction v as [| | |raw|raw|items IH|ms IH] using jv_ind'; intros P; unfold plen; cbn [size];
    try (cbn [print length]; lia).
  - cbn [gp_jv print] in *. destruct (scan_number_lit raw P) as [(c & t & -> & _) _]. cbn [length]. lia.
  - cbn [gp_jv] in P. rewrite print_arr. cbn [length]. rewrite app_length. cbn [length].
    destruct items as [|v vs]; [cbn; lia|].
    pose proof (join_length (map print (v :: vs)) ltac:(discriminate)) as J. rewrite map_map in J.
    assert (Le : (list_sum (map (fun x => S (size x)) (v :: vs)) <=
                  list_sum (map (fun x => length (print x) + 1) (v :: vs)))%nat).
    { apply list_sum_le. rewrite Forall_forall in *. intros x Ix. rewrite forallb_forall in P.
      specialize (IH x Ix (P x Ix)). unfold plen in IH. lia. }
    lia.
  - cbn [gp_jv] in P. rewrite print_obj. cbn [length]. rewrite app_length. cbn [length].
    destruct ms as [|m r]; [cbn; lia|].
    pose proof (join_length (map print_m (m :: r)) ltac:(discriminate)) as J. rewrite map_map in J.
    assert (Le : (list_sum (map (fun m => S (size (snd m))) (m :: r)) <=
                  list_sum (map (fun x => length (print_m x) + 1) (m :: r)))%nat).
    { apply list_sum_le. rewrite Forall_forall in *. intros x Ix. rewrite forallb_forall in P.
      specialize (P x Ix). apply andb_true_iff in P as [_ Px].
      specialize (IH x Ix Px). unfold plen in IH. destruct x as [k v]. cbn [print_m snd length] in *.
      rewrite app_length. cbn [length]. lia. }
    lia.
Qed.

(* (3) the parser round trip, general form *)
Theorem parse_print_gp v : gp_jv v = true -> parse_json (print v) = Some v.
Proof.
  intros P. unfold parse_json.
  pose proof (size_le_plen v P) as L. unfold plen in L.
  pose proof (parse_value_print v P (S (S (length (print v)))) [] ltac:(lia) eq_refl) as H.
  rewrite app_nil_r in H. rewrite H. reflexivity.
Qed.

(* (3) for the encoder's class *)
Theorem parse_print v : pr_jv v = true -> parse_json (print v) = Some v.
Proof. intros P. apply parse_print_gp. apply pr_gp. exact P. Qed.

Corollary compact_print v : pr_jv v = true -> compact (print v) = Some (print v).
Proof. intros P. unfold compact. rewrite (parse_print v P). reflexivity. Qed.

(* ---- every value the parser returns is printable: json.Compact is idempotent ----------------- *)
Lemma parse_gp_fuel : forall f,
  (forall s v rest, parse_value f s = Some (v, rest) -> gp_jv v = true) /\
  (forall s ms rest, parse_members f s = Some (ms, rest) ->
                     forallb (fun m => str_lit (fst m) && gp_jv (snd m)) ms = true) /\
  (forall s vs rest, parse_elems f s = Some (vs, rest) -> forallb gp_jv vs = true).
Proof.
  induction f as [|f (IHv & IHm & IHe)]; [repeat split; intros; discriminate|].
  repeat split.
  - intros s v rest. cbn [parse_value]. destruct (skip_ws s) as [|c r]; [discriminate|].
    destruct (c =? 123).
    { destruct (skip_ws r) as [|c' r']; [discriminate|]. destruct (c' =? 125); [intros [= <- _]; reflexivity|].
      destruct (parse_members f (c' :: r')) as [[ms rest']|] eqn:Pm; [|discriminate]. intros [= <- _].
      cbn [gp_jv]. apply (IHm _ _ _ Pm). }
    destruct (c =? 91).
    { destruct (skip_ws r) as [|c' r']; [discriminate|]. destruct (c' =? 93); [intros [= <- _]; reflexivity|].
      destruct (parse_elems f (c' :: r')) as [[vs rest']|] eqn:Pe; [|discriminate]. intros [= <- _].
      cbn [gp_jv]. apply (IHe _ _ _ Pe). }
    destruct (c =? 34).
    { destruct (scan_string r) as [[b rest']|] eqn:Ss; [|discriminate]. intros [= <- _].
      cbn [gp_jv]. apply (str_lit_of_scan _ _ _ Ss). }
    destruct (c =? 116); [match goal with |- context [Json.strip_prefix ?l r] => destruct (Json.strip_prefix l r) end; [intros [= <- _]; reflexivity|discriminate]|].
    destruct (c =? 102); [match goal with |- context [Json.strip_prefix ?l r] => destruct (Json.strip_prefix l r) end; [intros [= <- _]; reflexivity|discriminate]|].
    destruct (c =? 110); [match goal with |- context [Json.strip_prefix ?l r] => destruct (Json.strip_prefix l r) end; [intros [= <- _]; reflexivity|discriminate]|].
    destruct ((c =? 45) || is_digit c); [|discriminate].
    destruct (scan_number (c :: r)) as [[n rest']|] eqn:Sn; [|discriminate]. intros [= <- _].
    cbn [gp_jv]. apply (num_lit_of_scan _ _ _ Sn).
  - intros s ms rest. cbn [parse_members]. destruct s as [|c r]; [discriminate|].
    destruct (c =? 34); [|discriminate].
    destruct (scan_string r) as [[k r1]|] eqn:Sk; [|discriminate].
    pose proof (str_lit_of_scan _ _ _ Sk) as Lk.
    destruct (skip_ws r1) as [|c1 r2]; [discriminate|]. destruct (c1 =? 58); [|discriminate].
    destruct (parse_value f r2) as [[v r3]|] eqn:Pv; [|discriminate].
    destruct (skip_ws r3) as [|c3 r4]; [discriminate|].
    destruct (c3 =? 125).
    { intros [= <- _]. cbn [forallb fst snd]. rewrite Lk, (IHv _ _ _ Pv). reflexivity. }
    destruct (c3 =? 44); [|discriminate].
    destruct (parse_members f (skip_ws r4)) as [[ms' rest']|] eqn:Pm; [|discriminate]. intros [= <- _].
    cbn [forallb fst snd]. rewrite Lk, (IHv _ _ _ Pv), (IHm _ _ _ Pm). reflexivity.
  - intros s vs rest. cbn [parse_elems].
    destruct (parse_value f s) as [[v r1]|] eqn:Pv; [|discriminate].
    destruct (skip_ws r1) as [|c r2]; [discriminate|].
    destruct (c =? 93).
    { intros [= <- _]. cbn [forallb]. rewrite (IHv _ _ _ Pv). reflexivity. }
    destruct (c =? 44); [|discriminate].
    destruct (parse_elems f r2) as [[vs' rest']|] eqn:Pe; [|discriminate]. intros [= <- _].
    cbn [forallb]. rewrite (IHv _ _ _ Pv), (IHe _ _ _ Pe). reflexivity.
Qed.

Theorem parse_json_gp s v : parse_json s = Some v -> gp_jv v = true.
Proof.
  unfold parse_json. destruct (parse_value (S (S (length s))) s) as [[v' rest]|] eqn:P; [|discriminate].
  destruct (skip_ws rest); [|discriminate]. intros [= <-].
  destruct (parse_gp_fuel (S (S (length s)))) as [H _]. apply (H _ _ _ P).
Qed.

(* [gp_jv] is exactly the class of values for which the round trip holds *)
Theorem gp_jv_iff v : gp_jv v = true <-> parse_json (print v) = Some v.
Proof. split; [apply parse_print_gp|apply parse_json_gp]. Qed.

(* re-parsing the compacted text of a parsed value gives the same value: what Model/Codec.v
   assumes when it lets the nested json.Unmarshal calls work on [print v] *)
Theorem parse_print_parse s v : parse_json s = Some v -> parse_json (print v) = Some v.
Proof. intros H. apply parse_print_gp. apply (parse_json_gp s). exact H. Qed.

Theorem compact_idempotent s c : compact s = Some c -> compact c = Some c.
Proof.
  unfold compact. destruct (parse_json s) as [v|] eqn:P; [|discriminate]. intros [= <-].
  rewrite (parse_print_parse s v P). reflexivity.
Qed.

(* ---- why the class is not [wf_jv] --------------------------------------------------------- *)
(* [wf_jv] (what Lemmas/CodecLemmas.v proves about the raw texts the parser keeps) does not imply
   that the printed text parses back: a lone minus sign is [num_ok], a raw control byte is
   [no_bare_quote], keys are not constrained at all.  (None of these trees is ever produced by
   [parse_json]: see [parse_json_gp].) *)
Example wf_jv_is_not_enough :
  wf_jv (JNum [45]) = true /\ parse_json (print (JNum [45])) = None /\
  wf_jv (JStr [10]) = true /\ parse_json (print (JStr [10])) = None /\
  wf_jv (JObj [([34], JNull)]) = true /\ parse_json (print (JObj [([34], JNull)])) = None /\
  wf_jv (JNum [49; 32]) = true /\ parse_json (print (JNum [49; 32])) = Some (JNum [49]).
Proof. vm_compute. repeat split; reflexivity. Qed.

Print Assumptions parse_print_gp.
Print Assumptions parse_print.
Print Assumptions compact_idempotent.
