(* Lemmas/TotalityMain.v — C08 (sync liveness): the headline statements of the totality development,
   in the form Props/C08.v can take them ([exact] of a lemma), and the chain-level corollaries.

     TotalityLemmas.v     L1-L3: insert_history_total, insert_holding_total, apply_entry_total, apply_tx_block_total
     TotalityHolding.v    L4: apply_holding_total (+ _outside_bank_era), holding_then_block_total
     TotalityInvariant.v  hist_closed is an invariant of step_block / replay
     TotalityRange.v      bal_room _ 0 is an invariant of step_block / replay
     TotalityCodes.v      with no hypothesis on the entries: only four failure codes are possible
     TotalityExamples.v   hypotheses satisfiable on the example chain; each hypothesis necessary *)
From Model Require Import Block Obs.
From Lemmas Require Import DbLemmas LedgerLemmas ChainLemmas
     TotalityLemmas TotalityHolding TotalityInvariant TotalityRange TotalityCodes.
Open Scope Z_scope.
Open Scope list_scope.

(* both state hypotheses hold in every state reached from the fresh database *)
Theorem reachable_state_ok c bs s m :
  replay c genesis empty_cache bs = Done (s, m) -> hist_closed s /\ bal_room s 0.
Proof. intros H. split; [eapply replay_closed; exact H|eapply replay_range; exact H]. Qed.

(* the room hypothesis over a state whose cells are known to be in range: only the upper bound is left *)
Lemma bal_room_from_range s n :
  bal_room s 0 -> (forall a t, get_bal (bal s) a t + n <= max_int64) -> bal_room s n.
Proof. intros H0 Hn a t. split; [apply H0|apply Hn]. Qed.

(* C08, transaction chain: on any reachable state, a transaction block of arbitrary entries — garbage,
   repeated, conflicting, overdrawing — is applied, provided decoded batches are what the decoder and the
   signature check let through ([entry_wf]) and no balance cell is within the block's total transfers of
   2^63 ([block_credit]) *)
Theorem C08_tx_block_applies c bs s m h es :
  replay c genesis empty_cache bs = Done (s, m) ->
  Forall (fun e => entry_wf c h e = true) es ->
  (forall a t, get_bal (bal s) a t + block_credit c h es <= max_int64) ->
  exists s', apply_tx_block c h s es = Ok s' /\ hist_closed s' /\ bal_room s' 0.
Proof.
  intros Hr Hwf Hroom. destruct (reachable_state_ok c bs s m Hr) as [Hc H0].
  apply apply_tx_block_total; auto; [lia|].
  apply bal_room_from_range; [exact H0|]. intros a t. specialize (Hroom a t). lia.
Qed.

(* the same with no hypothesis at all about the entries: never a panic, never a uniqueness violation, only
   the four codes that [entry_wf] and the room exclude *)
Theorem C08_tx_block_failure_codes c bs s m h es :
  replay c genesis empty_cache bs = Done (s, m) ->
  fails_within [E_UNCAUGHT; E_BADCOLUMN; E_SQLARG; E_OVERFLOW_CELL] (apply_tx_block c h s es).
Proof. intros Hr. apply apply_tx_block_failures. eapply replay_closed; exact Hr. Qed.

Print Assumptions reachable_state_ok.
Print Assumptions C08_tx_block_applies.
Print Assumptions C08_tx_block_failure_codes.
Print Assumptions apply_holding_total.
Print Assumptions apply_holding_total_outside_bank_era.
Print Assumptions holding_then_block_total.
