(* Lemmas/ApiReflect.v — an executable test of [hist_wf] and its soundness: when [hist_wfb s] evaluates to true the
   history tables of [s] are well formed, so the API theorems of Lemmas/ApiLemmas.v apply to that state.  The chain
   correspondence evaluates it on the final state of every chain it runs (Corr/Api.v). *)
From Model Require Import Api.
From Lemmas Require Import ApiLemmas.
Open Scope Z_scope.

Definition hist_wfb (s : db) : bool :=
  bool_decide (base.NoDup (map hb_hash (hist s)))
  && bool_decide (base.NoDup (map htx_key (htxs s)))
  && bool_decide (base.NoDup (lookups s))
  && forallb (fun l => bool_decide (fst l ∈ map htx_key (htxs s))) (lookups s)
  && forallb (fun t => bool_decide (ht_hash t ∈ map hb_hash (hist s))) (htxs s).

Lemma hist_wfb_spec s : hist_wfb s = true -> hist_wf s.
Proof.
  unfold hist_wfb. intros H.
  apply andb_prop in H as [H H5]. apply andb_prop in H as [H H4]. apply andb_prop in H as [H H3].
  apply andb_prop in H as [H1 H2].
  apply bool_decide_eq_true in H1, H2, H3.
  constructor.
  - apply NoDup_ListNoDup. exact H1.
  - apply NoDup_ListNoDup. exact H2.
  - apply NoDup_ListNoDup. exact H3.
  - intros l Hl. rewrite forallb_forall in H4. specialize (H4 l Hl). apply bool_decide_eq_true in H4.
    apply elem_of_list_In. exact H4.
  - intros t Ht. rewrite forallb_forall in H5. specialize (H5 t Ht). apply bool_decide_eq_true in H5.
    apply elem_of_list_In. exact H5.
Qed.
Print Assumptions hist_wfb_spec.

(* so: on any state that passes the test, the count the API reports is the number of matching actions and the page walk
   returns each of them exactly once *)
Corollary api_walk_on_tested_state s q fuel :
  hist_wfb s = true -> (S (length (query_all s q)) <= fuel)%nat ->
  query_count s q = length (query_all s q) /\ walk_pages fuel s q 0 = query_all s q.
Proof. intros H Hf. apply hist_wfb_spec in H. split; [apply count_is_length; exact H | apply walk_pages_all_wf; assumption]. Qed.

Example hist_wfb_example : hist_wfb ex_api_db = true.
Proof. vm_compute. reflexivity. Qed.
