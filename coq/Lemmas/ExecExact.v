(* Lemmas/ExecExact.v — C07 / C13: a conversion that the admission rule lets through is executed
   exactly: one debit of the input, one credit of floor(input x src / dst) computed from the rates and
   averages handed to applyTransactionBatch, nobody else's balance moves.
     (1) batch level      : single_conversion_executes_exactly  (+ the room conditions are necessary)
     (2) holding path     : held_conversion_executes_exactly (one held entry), apply_holding_single_conversion
                            (the whole holding pass over a holding table with that one entry)
     (3) block level      : sync_block_rated_dichotomy / sync_block_holding_uses_own_rates:
                            the rates handed to apply_holding are the ones THIS block inserted. *)
From Model Require Import Block Examples.
From Lemmas Require Import ArithLemmas DbLemmas LedgerLemmas BlockLemmas RewardLemmas StatusLemmas
     AdmissionLemmas HistoryLemmas HoldingLemmas FrameLemmas ChainLemmas NoWinners TotalityBlockParts.
From Gen Require Import Consts.
From Coq Require Import Lia ZifyBool RelationClasses.
Open Scope Z_scope.
Open Scope list_scope.

(* ---- the two balance statements succeed as soon as the cell they touch has room ----------------- *)
Lemma sub_total_cell s a t v :
  valid_ticker t = true -> 0 <= v <= get_bal (bal s) a t -> v < two63 ->
  (v = 0 -> get_bal (bal s) a t <= max_int64) ->
  sub_from_balance s a t v = SubOk (set_bal s (<[(a, t) := get_bal (bal s) a t - v]> (bal s))).
Proof.
  intros Hv Hr Hlt Hm. unfold sub_from_balance, add_to_balance. rewrite Hv. cbn [negb].
  destruct (Z.eqb_spec v 0) as [->|Hne].
  - destruct (Z.leb_spec two63 0) as [Hx|_]; [unfold two63 in Hx; lia|].
    specialize (Hm eq_refl).
    destruct (Z.ltb_spec max_int64 (get_bal (bal s) a t + 0)) as [Hx|_]; [lia|].
    rewrite Z.add_0_r, Z.sub_0_r. reflexivity.
  - destruct (Z.ltb_spec (get_bal (bal s) a t) v) as [Hx|_]; [lia|].
    destruct (Z.leb_spec two63 v) as [Hx|_]; [lia|]. reflexivity.
Qed.

Lemma add_total_cell s a t v :
  valid_ticker t = true -> v < two63 -> get_bal (bal s) a t + v <= max_int64 ->
  add_to_balance s a t v = Ok (set_bal s (<[(a, t) := get_bal (bal s) a t + v]> (bal s))).
Proof.
  intros Hv Hlt Hm. unfold add_to_balance. rewrite Hv. cbn [negb].
  destruct (Z.leb_spec two63 v) as [Hx|_]; [lia|].
  destruct (Z.ltb_spec max_int64 (get_bal (bal s) a t + v)) as [Hx|_]; [lia|]. reflexivity.
Qed.

(* the relation row written by recordBatch makes the entry hash a replay from then on *)
Lemma existsb_default_nonempty {X} (o : option (list X)) f :
  existsb f (default [] o) = true -> match o with Some (_ :: _) => true | _ => false end = true.
Proof. destruct o as [[|x l]|]; cbn; auto. Qed.

Lemma is_replay_insert_relation s a hs i t cv : is_replay (insert_relation s a hs i t cv) hs = true.
Proof.
  unfold insert_relation. destruct (existsb _ _) eqn:Eex.
  - unfold is_replay. exact (existsb_default_nonempty _ _ Eex).
  - unfold is_replay. cbn [rel set_rel]. rewrite lookup_insert.
    destruct (default [] _); reflexivity.
Qed.

Lemma is_conversion_valid_conv t : is_conversion t = true -> valid_ticker (tx_conv t) = true.
Proof. unfold is_conversion. destruct (tx_transfers t); [auto|discriminate]. Qed.

Lemma get_bal_insert_eqb m a t v a' t' :
  get_bal (<[(a, t) := v]> m) a' t' = if (a =? a') && (t =? t') then v else get_bal m a' t'.
Proof.
  rewrite get_bal_insert. destruct (decide _) as [E|N].
  - inversion E; subst. rewrite !Z.eqb_refl. reflexivity.
  - destruct (Z.eqb_spec a a'), (Z.eqb_spec t t'); cbn [andb]; try reflexivity. subst. contradiction.
Qed.

Section WithCfg.
Variable c : cfg.

(* what the first pass says about a single conversion it lets through *)
Lemma check_single_none h s rates avgs t :
  is_conversion t = true -> check_txs c h s rates avgs [t] = None ->
  tx_amt t <= get_bal (bal s) (tx_addr t) (tx_type t) /\ is_empty_map rates = false /\
  rate_of rates (tx_type t) <> 0 /\ rate_of rates (tx_conv t) <> 0 /\
  oneway_pfct c h t = false /\ oneway_small c h t = false /\
  exists out, conv_of c h rates avgs t = Some out.
Proof.
  intros Hc H. cbn [check_txs] in H. rewrite Hc in H.
  destruct (Z.ltb_spec (get_bal (bal s) (tx_addr t) (tx_type t)) (tx_amt t)) as [|Hf]; [discriminate|].
  destruct (is_empty_map rates); [discriminate|].
  destruct (Z.eqb_spec (rate_of rates (tx_type t)) 0) as [|N1]; [discriminate|].
  destruct (Z.eqb_spec (rate_of rates (tx_conv t)) 0) as [|N2]; [discriminate|]. cbn [orb] in H.
  unfold oneway_pfct, oneway_small.
  destruct (_ && _); [discriminate|]. destruct (_ && _); [discriminate|].
  destruct (conv_of c h rates avgs t) as [out|]; [|discriminate].
  split; [lia|]. split; [reflexivity|]. split; [exact N1|]. split; [exact N2|].
  split; [reflexivity|]. split; [reflexivity|]. eexists; reflexivity.
Qed.

(* ---- (1) ------------------------------------------------------------------------------------------ *)
(* The room a single conversion needs, cell by cell (nothing is asked of any other cell, nor of the
   column sums: AddToBalance / SubFromBalance only look at the cell they update):
     - the input column exists (SelectPendingBalance / the upsert would fail otherwise);
     - the input amount can be bound as a SQL argument (always true of a decoded batch: Validate
       bounds it by MaxInt64);
     - a zero-amount debit is the upsert "col = col + 0": the cell must be inside int64;
     - the credited cell — after the debit when source and destination are the same column — plus the
       converted amount stays inside int64. *)
Definition conv_room (s : db) (t : tx) (out : Z) : Prop :=
  valid_ticker (tx_type t) = true /\
  tx_amt t < two63 /\
  (tx_amt t = 0 -> get_bal (bal s) (tx_addr t) (tx_type t) <= max_int64) /\
  get_bal (bal s) (tx_addr t) (tx_conv t) - (if tx_conv t =? tx_type t then tx_amt t else 0) + out <= max_int64.

(* a simpler sufficient condition: both cells below 2^63, the credited one with room for [out] *)
Lemma conv_room_of_cells s t out :
  valid_ticker (tx_type t) = true ->
  0 <= tx_amt t <= get_bal (bal s) (tx_addr t) (tx_type t) ->
  get_bal (bal s) (tx_addr t) (tx_type t) <= max_int64 ->
  get_bal (bal s) (tx_addr t) (tx_conv t) + out <= max_int64 ->
  conv_room s t out.
Proof.
  intros Hv Ha Hm Hc. unfold conv_room. repeat split; auto.
  - unfold two63, max_int64 in *. lia.
  - destruct (tx_conv t =? tx_type t); lia.
Qed.

(* the floor characterisation, with the rates and averages of the arguments *)
Definition conv_floor_spec (h : Z) (rates avgs : gmap ticker Z) (t : tx) (out : Z) : Prop :=
  let pip10 := c_PIP10AverageActivation c <=? h in
  let rs := rate_src pip10 (rate_of rates (tx_type t)) (rate_of avgs (tx_type t)) in
  let rd := rate_dst pip10 (rate_of rates (tx_conv t)) (rate_of avgs (tx_conv t)) in
  out = tx_amt t * rs / rd /\ 0 < rd /\
  out * rd <= tx_amt t * rs < (out + 1) * rd /\
  0 <= out <= max_int64 /\ 0 <= tx_amt t.

Lemma conv_of_floor h rates avgs t out :
  0 <= rate_of rates (tx_type t) -> 0 <= rate_of avgs (tx_type t) ->
  0 <= rate_of rates (tx_conv t) -> 0 <= rate_of avgs (tx_conv t) ->
  conv_of c h rates avgs t = Some out -> conv_floor_spec h rates avgs t out.
Proof.
  intros R1 R2 R3 R4 H. unfold conv_of, convert_h in H. unfold conv_floor_spec. cbv zeta.
  pose proof (convert_floor _ _ _ _ _ _ _ R1 R2 R3 R4 H) as F. cbv zeta in F.
  pose proof (convert_range _ _ _ _ _ _ _ R1 R2 R3 R4 H) as G.
  destruct (convert_some_inv _ _ _ _ _ _ _ R1 R2 R3 R4 H) as [(Ha & Hf & Ht & Hp & Hq) E].
  split; [exact E|]. split; [|auto].
  unfold rate_dst. destruct (c_PIP10AverageActivation c <=? h); lia.
Qed.

(* the state recordBatch leaves for the one-conversion batch *)
Definition conv_result (h : Z) (s : db) (hs : hash) (t : tx) (out : Z) : db :=
  let s1 := set_bal s (<[(tx_addr t, tx_type t) := get_bal (bal s) (tx_addr t) (tx_type t) - tx_amt t]> (bal s)) in
  let s4 := set_to_amount (set_executed (insert_relation s1 (tx_addr t) hs 0 false true) hs h) hs 0 out in
  set_bal s4 (<[(tx_addr t, tx_conv t) := get_bal (bal s4) (tx_addr t) (tx_conv t) + out]> (bal s4)).

Lemma conv_result_bal h s hs t out a ty :
  get_bal (bal (conv_result h s hs t out)) a ty =
    get_bal (bal s) a ty
    - (if (a =? tx_addr t) && (ty =? tx_type t) then tx_amt t else 0)
    + (if (a =? tx_addr t) && (ty =? tx_conv t) then out else 0).
Proof.
  unfold conv_result. cbv zeta. cbn [bal set_bal]. rewrite bal_set_to_amount, bal_set_executed, bal_insert_relation.
  cbn [bal set_bal]. rewrite !get_bal_insert_eqb.
  rewrite (Z.eqb_sym a (tx_addr t)), (Z.eqb_sym ty (tx_type t)), (Z.eqb_sym ty (tx_conv t)).
  rewrite Z.eqb_refl. cbn [andb].
  unfold ticker, addr in *.
  destruct (Z.eqb_spec (tx_addr t) a) as [<-|Na]; cbn [andb]; [|lia].
  destruct (Z.eqb_spec (tx_type t) (tx_conv t)) as [E1|N1];
  destruct (Z.eqb_spec (tx_conv t) ty) as [E2|N2];
  destruct (Z.eqb_spec (tx_type t) ty) as [E3|N3]; try lia; try congruence;
  try (rewrite <- E1 in * ); try (rewrite <- E2 in * ); try (rewrite <- E3 in * ); try lia; try congruence.
Qed.

Lemma conv_result_tables h s hs t out :
  hist (conv_result h s hs t out) = mark_exec hs h (hist s) /\
  htxs (conv_result h s hs t out) = htxs (set_to_amount s hs 0 out) /\
  rates (conv_result h s hs t out) = rates s /\
  holding (conv_result h s hs t out) = holding s /\
  is_replay (conv_result h s hs t out) hs = true /\
  bank (conv_result h s hs t out) = bank s.
Proof.
  unfold conv_result. cbv zeta.
  set (s1 := set_bal s _).
  repeat split.
  - cbn [hist set_bal set_to_amount upd_htx set_htxs]. rewrite hist_set_executed, hist_insert_relation. reflexivity.
  - cbn [htxs set_bal set_to_amount upd_htx set_htxs]. rewrite htxs_set_executed, htxs_insert_relation. reflexivity.
  - cbn [rates set_bal set_to_amount upd_htx set_htxs set_executed set_hist].
    destruct (insert_relation_shape s1 (tx_addr t) hs 0 false true) as [-> | ->]; reflexivity.
  - cbn [holding set_bal set_to_amount upd_htx set_htxs set_executed set_hist].
    destruct (insert_relation_shape s1 (tx_addr t) hs 0 false true) as [-> | ->]; reflexivity.
  - pose proof (is_replay_insert_relation s1 (tx_addr t) hs 0 false true) as R.
    unfold is_replay in *. exact R.
  - cbn [bank set_bal set_to_amount upd_htx set_htxs set_executed set_hist].
    destruct (insert_relation_shape s1 (tx_addr t) hs 0 false true) as [-> | ->]; reflexivity.
Qed.

(* the one-conversion batch through recordBatch *)
Lemma record_single_conversion h s hs rates avgs t out :
  is_conversion t = true ->
  (c_PegnetConversionLimitActivation c <=? h) && is_peg_request t = false ->
  0 <= tx_amt t <= get_bal (bal s) (tx_addr t) (tx_type t) ->
  conv_of c h rates avgs t = Some out -> 0 <= out <= max_int64 ->
  conv_room s t out ->
  record_batch c h hs rates avgs [t] s = Ok (conv_result h s hs t out).
Proof.
  intros Hc Hnd Hf Hconv Ho (Rv & Rlt & Rz & Rc).
  unfold record_batch. cbn [record_txs].
  rewrite (sub_total_cell s (tx_addr t) (tx_type t) (tx_amt t) Rv Hf Rlt Rz).
  rewrite Hnd, Hc, Hconv.
  rewrite (wrap64_small out) by (unfold max_int64, two64 in *; lia).
  set (s1 := set_bal s _).
  set (s4 := set_to_amount _ hs 0 out).
  assert (B4 : bal s4 = bal s1).
  { unfold s4. rewrite bal_set_to_amount, bal_set_executed, bal_insert_relation. reflexivity. }
  rewrite (add_total_cell s4 (tx_addr t) (tx_conv t) out).
  - cbn [rbind]. reflexivity.
  - apply is_conversion_valid_conv; exact Hc.
  - unfold two63, max_int64 in *. lia.
  - rewrite B4. unfold s1. cbn [bal set_bal]. rewrite get_bal_insert.
    destruct (decide ((tx_addr t, tx_type t) = (tx_addr t, tx_conv t))) as [E|N].
    + inversion E as [E']. rewrite <- E' in Rc. rewrite Z.eqb_refl in Rc. lia.
    + destruct (Z.eqb_spec (tx_conv t) (tx_type t)) as [E|_]; [exfalso; apply N; rewrite E; reflexivity|]. lia.
Qed.

Theorem single_conversion_executes_exactly h s hs rates avgs t out :
  is_conversion t = true ->
  (c_PegnetConversionLimitActivation c <=? h) && is_peg_request t = false ->   (* not deferred to the PEG bank *)
  check_txs c h s rates avgs [t] = None ->                                       (* the admission rule lets it through *)
  conv_of c h rates avgs t = Some out ->
  (* the two rates and two averages used are uint64 values *)
  0 <= rate_of rates (tx_type t) -> 0 <= rate_of avgs (tx_type t) ->
  0 <= rate_of rates (tx_conv t) -> 0 <= rate_of avgs (tx_conv t) ->
  conv_room s t out ->
  exists s',
    apply_batch c h s hs [t] rates avgs = BApplied s' /\
    (* exactly one debit, exactly one credit, nobody else's balance changes *)
    (forall a ty, get_bal (bal s') a ty =
        get_bal (bal s) a ty
        - (if (a =? tx_addr t) && (ty =? tx_type t) then tx_amt t else 0)
        + (if (a =? tx_addr t) && (ty =? tx_conv t) then out else 0)) /\
    (* the credited amount is the floor, at the rates / averages of the arguments *)
    conv_floor_spec h rates avgs t out /\
    (* status, recorded amount, replay protection; pn_rate and the holding table untouched *)
    hist s' = mark_exec hs h (hist s) /\
    htxs s' = htxs (set_to_amount s hs 0 out) /\
    Db.rates s' = Db.rates s /\ holding s' = holding s /\ is_replay s' hs = true /\ bank s' = bank s.
Proof.
  intros Hc Hnd Hchk Hconv R1 R2 R3 R4 Hroom.
  pose proof (conv_of_floor _ _ _ _ _ R1 R2 R3 R4 Hconv) as F.
  destruct (check_single_none _ _ _ _ _ Hc Hchk) as (Hf & _).
  assert (Ho : 0 <= out <= max_int64 /\ 0 <= tx_amt t) by (unfold conv_floor_spec in F; cbv zeta in F; tauto).
  exists (conv_result h s hs t out).
  split.
  { rewrite (accepted_conversion_is_recorded c h s hs rates avgs t Hc Hchk).
    rewrite (record_single_conversion h s hs rates avgs t out Hc Hnd ltac:(lia) Hconv ltac:(tauto) Hroom). reflexivity. }
  split; [intros a ty; apply conv_result_bal|]. split; [exact F|].
  destruct (conv_result_tables h s hs t out) as (T1 & T2 & T3 & T4 & T5 & T6). auto 10.
Qed.

(* the room conditions are not only sufficient: a let-through conversion is applied ONLY IF they hold
   (so [conv_room] is the weakest side condition) *)
Theorem single_conversion_room_necessary h s hs rates avgs t out s' :
  is_conversion t = true ->
  (c_PegnetConversionLimitActivation c <=? h) && is_peg_request t = false ->
  check_txs c h s rates avgs [t] = None ->
  conv_of c h rates avgs t = Some out ->
  0 <= rate_of rates (tx_type t) -> 0 <= rate_of avgs (tx_type t) ->
  0 <= rate_of rates (tx_conv t) -> 0 <= rate_of avgs (tx_conv t) ->
  apply_batch c h s hs [t] rates avgs = BApplied s' ->
  conv_room s t out.
Proof.
  intros Hc Hnd Hchk Hconv R1 R2 R3 R4 H.
  pose proof (conv_of_floor _ _ _ _ _ R1 R2 R3 R4 Hconv) as F.
  assert (Ho : 0 <= out <= max_int64 /\ 0 <= tx_amt t) by (unfold conv_floor_spec in F; cbv zeta in F; tauto).
  destruct Ho as [Ho Ha].
  apply apply_batch_applied_is_record in H. unfold record_batch in H. cbn [record_txs] in H.
  destruct (sub_from_balance s (tx_addr t) (tx_type t) (tx_amt t)) as [s1| |code] eqn:Es; try discriminate.
  rewrite Hnd, Hc, Hconv in H.
  apply rbind_ok in H as (s5 & Hadd & _).
  rewrite (wrap64_small out) in Hadd by (unfold max_int64, two64 in *; lia).
  pose proof (get_bal_sub _ _ _ _ _ (tx_addr t) (tx_conv t) Es) as B1.
  assert (Hz : tx_amt t = 0 -> get_bal (bal s) (tx_addr t) (tx_type t) <= max_int64).
  { intros Z0. unfold sub_from_balance in Es. rewrite Z0 in Es. cbn [Z.eqb] in Es.
    unfold add_to_balance in Es. destruct (negb (valid_ticker (tx_type t))); [discriminate|].
    destruct (two63 <=? 0); [discriminate|].
    destruct (Z.ltb_spec max_int64 (get_bal (bal s) (tx_addr t) (tx_type t) + 0)); [discriminate|]. lia. }
  apply sub_from_balance_ok in Es as (Hv & _ & Hlt & _).
  unfold add_to_balance in Hadd.
  destruct (negb (valid_ticker (tx_conv t))); [discriminate|].
  destruct (two63 <=? out); [discriminate|].
  rewrite bal_set_to_amount, bal_set_executed, bal_insert_relation in Hadd.
  destruct (Z.ltb_spec max_int64 (get_bal (bal s1) (tx_addr t) (tx_conv t) + out)) as [|Hroom]; [discriminate|].
  unfold conv_room. repeat split; auto.
  rewrite B1 in Hroom. rewrite Z.eqb_refl in Hroom. cbn [andb] in Hroom.
  rewrite (Z.eqb_sym (tx_conv t) (tx_type t)). unfold ticker in *.
  destruct (tx_type t =? tx_conv t); lia.
Qed.

(* ---- (2) the holding path ---------------------------------------------------------------------------- *)
Lemma entry_valid_single_bound e hh t : entry_valid_at c e hh = Some [t] -> 0 <= tx_amt t <= max_int64.
Proof.
  unfold entry_valid_at. destruct (e_batch e) as [b|]; [|discriminate].
  destruct (_ && _); [discriminate|]. destruct (forallb tx_amounts_okb b) eqn:E; [|discriminate].
  intros H; inversion H; subst. cbn [forallb] in E. apply andb_prop in E as [E _].
  unfold tx_amounts_okb, tx_nonneg_okb, tx_sum_okb in E.
  apply andb_prop in E as [E1 E2]. apply andb_prop in E1 as [E1 _]. apply andb_prop in E2 as [E2 _]. lia.
Qed.

Theorem held_conversion_executes_exactly cur rates avgs s e hh t out :
  entry_valid_at c e hh = Some [t] ->                               (* the held batch is the single transaction t *)
  (exists txs, entry_valid_at c e cur = Some txs) ->                (* still valid at the executing height *)
  is_replay s (e_hash e) = false ->                                 (* not a replay *)
  (c_V20HeightActivation c <=? cur) && has_peg_conversion [t] = false ->   (* no conversion into PEG from 2.0 on *)
  is_conversion t = true ->
  (c_PegnetConversionLimitActivation c <=? cur) && is_peg_request t = false ->
  check_txs c cur s rates avgs [t] = None ->
  conv_of c cur rates avgs t = Some out ->
  0 <= rate_of rates (tx_type t) -> 0 <= rate_of avgs (tx_type t) ->
  0 <= rate_of rates (tx_conv t) -> 0 <= rate_of avgs (tx_conv t) ->
  (* room: [tx_amt t < 2^63] comes from the validity of the entry *)
  valid_ticker (tx_type t) = true ->
  (tx_amt t = 0 -> get_bal (bal s) (tx_addr t) (tx_type t) <= max_int64) ->
  get_bal (bal s) (tx_addr t) (tx_conv t) - (if tx_conv t =? tx_type t then tx_amt t else 0) + out <= max_int64 ->
  exists s',
    apply_held c cur rates avgs s e hh = Ok (s', false) /\
    (forall a ty, get_bal (bal s') a ty =
        get_bal (bal s) a ty
        - (if (a =? tx_addr t) && (ty =? tx_type t) then tx_amt t else 0)
        + (if (a =? tx_addr t) && (ty =? tx_conv t) then out else 0)) /\
    conv_floor_spec cur rates avgs t out /\
    (* every batch row of the entry says "executed at cur" *)
    hist s' = mark_exec (e_hash e) cur (hist s) /\
    Forall (fun x => x = cur) (status_of s' (e_hash e)) /\
    (* the transaction row (entry hash, index 0) carries the converted amount *)
    htxs s' = htxs (set_to_amount s (e_hash e) 0 out) /\
    (forall r, In r (htxs s') -> ht_hash r = e_hash e -> ht_index r = 0 -> ht_to_amount r = out) /\
    Db.rates s' = Db.rates s /\ holding s' = holding s /\ is_replay s' (e_hash e) = true /\ bank s' = bank s.
Proof.
  intros Hv [txs Hcur] Hrep Hpeg Hc Hnd Hchk Hconv R1 R2 R3 R4 Rv Rz Rc.
  pose proof (entry_valid_single_bound _ _ _ Hv) as Hb.
  assert (Hroom : conv_room s t out).
  { unfold conv_room. repeat split; auto. unfold two63, max_int64 in *. lia. }
  destruct (single_conversion_executes_exactly cur s (e_hash e) rates avgs t out Hc Hnd Hchk Hconv R1 R2 R3 R4 Hroom)
    as (s' & Hap & Hbal & Hfl & Hh & Hx & Hr & Hho & Hrp & Hbk).
  exists s'. split.
  { unfold apply_held. rewrite Hv, Hpeg, Hcur, Hrep, Hap. f_equal. f_equal.
    unfold has_peg_request. cbn [existsb]. rewrite orb_false_r.
    destruct (cur <? c_V20HeightActivation c); cbn [andb]; [exact Hnd|reflexivity]. }
  split; [exact Hbal|]. split; [exact Hfl|]. split; [exact Hh|].
  split.
  { unfold status_of. rewrite Hh, status_mark_exec. apply Forall_forall. intros x Hx'.
    apply in_map_iff in Hx' as (? & <- & _). reflexivity. }
  split; [exact Hx|]. split; [|auto].
  intros r Hin Hhash Hidx. rewrite Hx in Hin. unfold set_to_amount, upd_htx in Hin. cbn [htxs set_htxs] in Hin.
  apply in_map_iff in Hin as (r0 & <- & _).
  destruct ((ht_hash r0 =? e_hash e) && (ht_index r0 =? 0)) eqn:E; [reflexivity|].
  apply andb_false_iff in E as [E|E]; lia.
Qed.


(* ---- (2'), the whole holding pass: one held conversion in the window -------------------------------- *)
Lemma rpr_nil h s rates avgs bankamt bh :
  record_peg_requests c h s [] rates avgs bankamt bh =
  if c_V4OPRUpdate c <=? bh then update_bank s bh 0 0 else Ok s.
Proof. reflexivity. Qed.

Lemma holding_at_single cm e g hh :
  holding cm = [{| h_entry := e; h_height := g |}] -> holding_at cm hh = if g =? hh then [e] else [].
Proof. intros H. unfold holding_at. rewrite H. cbn [filter h_height]. destruct (g =? hh); reflexivity. Qed.

Lemma apply_held_height_empty cm cur rates avgs hh s0 :
  holding_at cm hh = [] ->
  apply_held_height c cm cur rates avgs hh (Ok (s0, [])) = Ok (s0, []).
Proof.
  intros He. unfold apply_held_height. cbn [rbind]. rewrite He. cbn [fold_left rbind].
  destruct ((c_PegnetConversionLimitActivation c <=? cur) && (cur <? c_V4OPRUpdate c)) eqn:Era; [|reflexivity].
  rewrite rpr_nil. apply andb_prop in Era as [_ Era].
  destruct (Z.leb_spec (c_V4OPRUpdate c) (cur - 1)) as [Hx|_]; [lia|]. reflexivity.
Qed.

Lemma apply_held_height_single cm cur rates avgs hh s0 e s1 :
  holding_at cm hh = [e] ->
  apply_held c cur rates avgs s0 e hh = Ok (s1, false) ->
  apply_held_height c cm cur rates avgs hh (Ok (s0, [])) = Ok (s1, []).
Proof.
  intros He Ha. unfold apply_held_height. cbn [rbind]. rewrite He. cbn [fold_left rbind]. rewrite Ha. cbn [rbind].
  destruct ((c_PegnetConversionLimitActivation c <=? cur) && (cur <? c_V4OPRUpdate c)) eqn:Era; [|reflexivity].
  rewrite rpr_nil. apply andb_prop in Era as [_ Era].
  destruct (Z.leb_spec (c_V4OPRUpdate c) (cur - 1)) as [Hx|_]; [lia|]. reflexivity.
Qed.

Lemma held_fold_skip cm cur rates avgs e g s0 :
  holding cm = [{| h_entry := e; h_height := g |}] ->
  forall n lo, ~ (lo <= g < lo + Z.of_nat n) ->
  fold_left (fun acc hh => apply_held_height c cm cur rates avgs hh acc) (zrange lo n) (Ok (s0, [])) = Ok (s0, []).
Proof.
  intros Hh. induction n as [|n IH]; intros lo Hout; cbn [zrange fold_left]; [reflexivity|].
  rewrite apply_held_height_empty.
  - apply IH. lia.
  - rewrite (holding_at_single _ _ _ _ Hh). destruct (Z.eqb_spec g lo) as [E|_]; [lia|reflexivity].
Qed.

Lemma held_fold_hit cm cur rates avgs e g s0 s1 :
  holding cm = [{| h_entry := e; h_height := g |}] ->
  apply_held c cur rates avgs s0 e g = Ok (s1, false) ->
  forall n lo, lo <= g < lo + Z.of_nat n ->
  fold_left (fun acc hh => apply_held_height c cm cur rates avgs hh acc) (zrange lo n) (Ok (s0, [])) = Ok (s1, []).
Proof.
  intros Hh Ha. induction n as [|n IH]; intros lo Hin; [lia|]. cbn [zrange fold_left].
  destruct (Z.eq_dec lo g) as [->|Hne].
  - rewrite (apply_held_height_single cm cur rates avgs g s0 e s1); [|rewrite (holding_at_single _ _ _ _ Hh), Z.eqb_refl; reflexivity|exact Ha].
    apply (held_fold_skip cm cur rates avgs e g s1 Hh). lia.
  - rewrite apply_held_height_empty.
    + apply IH. lia.
    + rewrite (holding_at_single _ _ _ _ Hh). destruct (Z.eqb_spec g lo) as [E|_]; [lia|reflexivity].
Qed.

(* The holding pass of a rated block [cur] over a holding table that contains one batch — the single
   conversion [t], held at a height [g] of the window (no rated height in between): the pass succeeds and
   its whole effect on the balances is that conversion, at the rates / averages the pass was given. *)
Theorem apply_holding_single_conversion cm cur s rates avgs e g t out :
  holding cm = [{| h_entry := e; h_height := g |}] ->
  last_rated_below s cur <= g < cur ->
  (* in the V4 bank era the block's bank row exists (SyncBank ran) *)
  ((c_V4OPRUpdate c <=? cur) && (cur <? c_V20HeightActivation c) = true -> exists row, bank s !! cur = Some row) ->
  entry_valid_at c e g = Some [t] ->
  (exists txs, entry_valid_at c e cur = Some txs) ->
  is_replay s (e_hash e) = false ->
  (c_V20HeightActivation c <=? cur) && has_peg_conversion [t] = false ->
  is_conversion t = true ->
  (c_PegnetConversionLimitActivation c <=? cur) && is_peg_request t = false ->
  check_txs c cur s rates avgs [t] = None ->
  conv_of c cur rates avgs t = Some out ->
  0 <= rate_of rates (tx_type t) -> 0 <= rate_of avgs (tx_type t) ->
  0 <= rate_of rates (tx_conv t) -> 0 <= rate_of avgs (tx_conv t) ->
  valid_ticker (tx_type t) = true ->
  (tx_amt t = 0 -> get_bal (bal s) (tx_addr t) (tx_type t) <= max_int64) ->
  get_bal (bal s) (tx_addr t) (tx_conv t) - (if tx_conv t =? tx_type t then tx_amt t else 0) + out <= max_int64 ->
  exists s2,
    apply_holding c cm cur s rates avgs = Ok s2 /\
    (forall a ty, get_bal (bal s2) a ty =
        get_bal (bal s) a ty
        - (if (a =? tx_addr t) && (ty =? tx_type t) then tx_amt t else 0)
        + (if (a =? tx_addr t) && (ty =? tx_conv t) then out else 0)) /\
    conv_floor_spec cur rates avgs t out /\
    hist s2 = mark_exec (e_hash e) cur (hist s) /\
    Forall (fun x => x = cur) (status_of s2 (e_hash e)) /\
    htxs s2 = htxs (set_to_amount s (e_hash e) 0 out) /\
    is_replay s2 (e_hash e) = true.
Proof.
  intros Hh Hwin Hbank Hv Hcur Hrep Hpeg Hc Hnd Hchk Hconv R1 R2 R3 R4 Rv Rz Rc.
  destruct (held_conversion_executes_exactly cur rates avgs s e g t out Hv Hcur Hrep Hpeg Hc Hnd Hchk Hconv R1 R2 R3 R4 Rv Rz Rc)
    as (s1 & Hap & Hbal & Hfl & Hhist & Hst & Hx & Hto & Hr & Hho & Hrp & Hbk).
  unfold apply_holding. cbv zeta.
  rewrite (held_fold_hit cm cur rates avgs e g s s1 Hh Hap).
  2:{ rewrite Z2Nat.id by lia. lia. }
  cbn [rbind].
  destruct ((c_V4OPRUpdate c <=? cur) && (cur <? c_V20HeightActivation c)) eqn:Era.
  - destruct (Hbank eq_refl) as ([[amount used] req] & Hrow). rewrite Hbk, Hrow. rewrite rpr_nil.
    apply andb_prop in Era as [Era _]. rewrite Era.
    unfold update_bank. rewrite Hbk, Hrow. eexists. split; [reflexivity|].
    cbn [bal hist htxs set_bank]. split; [exact Hbal|]. split; [exact Hfl|]. split; [exact Hhist|].
    split; [exact Hst|]. split; [exact Hx|exact Hrp].
  - exists s1. split; [reflexivity|]. auto 10.
Qed.

(* ---- (3) block level: the rates handed to the holding pass are the block's own --------------------- *)
Lemma is_empty_map_insert {A} (m : gmap Z A) k v : is_empty_map (<[k := v]> m) = false.
Proof.
  unfold is_empty_map. destruct (map_to_list (<[k := v]> m)) eqn:E; [|reflexivity].
  apply map_to_list_empty_iff in E. exfalso. exact (insert_non_empty _ _ _ E).
Qed.

(* InsertRates always writes the PEG row: the map it records is never empty *)
Lemma insert_rates_nonempty cm h s a ph s' :
  insert_rates cm h s a ph = Ok s' ->
  Db.rates s !! h = None /\ exists m, s' = set_rates s (<[h := m]> (Db.rates s)) /\ is_empty_map m = false.
Proof.
  unfold insert_rates. destruct (Db.rates s !! h); [discriminate|].
  destruct (has_dup _); [discriminate|]. destruct (existsb _ _); [discriminate|].
  repeat match goal with |- (if ?b then _ else _) = _ -> _ => destruct b; [discriminate|] end.
  intros H; inversion H. split; [reflexivity|]. eexists. split; [reflexivity|]. apply is_empty_map_insert.
Qed.

(* "this block records rates", read off the grading verdicts:
   before 2.0 — the OPR verdict has a winner;
   from 2.0 on — at least one of the two verdicts offers assets and the band selection succeeds. *)
Definition block_rated (cm : db) (b : block) : Prop :=
  if b_height b <? c_V20HeightActivation c then
    exists v, grade_opr c cm b = Done (Some v) /\ v_winners v <> []
  else
    exists g gS l, grade_opr c cm b = Done g /\ grade_spr c cm b = Done gS /\
      (first_assets g <> [] \/ first_assets gS <> []) /\
      select_rates c (b_height b) (first_assets g) (first_assets gS) = RSel l.

Local Ltac done_step H x Hx := apply obind_done in H as (x & Hx & H).
Local Tactic Notation "rates_eq" uconstr(L) hyp(H) :=
  (eapply (L (fun s : db => Db.rates s) (@eq _)); try (untouched; fail); try (typeclasses eauto); exact H).

(* Walking through SyncBlock (as Lemmas/NoWinners.v does): for a block at or above the activation of
   conversions that ends successfully, either it is not a rated block and pn_rate is untouched, or it is,
   and then: the height was unrated, one map [m] is inserted for it (never empty), the holding pass runs
   exactly once, on a state [s1] whose pn_rate is the old one plus [m], with rates = [m] — the snapshot
   fall-back to the previous rated height is dead code here because [m] is never empty — and with the
   averages of the last rated height BEFORE the block; nothing after it touches pn_rate. *)
Theorem sync_block_rated_dichotomy cm mem b s s' mem' :
  sync_block c cm mem b s = Done (s', mem') ->
  c_TransactionConversionActivation c <= b_height b ->
  (~ block_rated cm b /\ Db.rates s' = Db.rates s)
  \/
  (block_rated cm b /\ Db.rates s !! b_height b = None /\
   exists m s1 s2,
     is_empty_map m = false /\
     Db.rates s1 = <[b_height b := m]> (Db.rates s) /\
     apply_holding c cm (b_height b) s1 m
        (fst (get_averages cm (c_AveragePeriod c) mem (last_rated_below s1 (b_height b)))) = Ok s2 /\
     mem' = snd (get_averages cm (c_AveragePeriod c) mem (last_rated_below s1 (b_height b))) /\
     last_rated_below s1 (b_height b) = last_rated_below s (b_height b) /\
     Db.rates s2 = Db.rates s1 /\ Db.rates s' = Db.rates s1).
Proof.
  intros H Htca. unfold sync_block in H. cbv zeta in H.
  done_step H s1 H1. apply of_res_done in H1.
  assert (E1 : Db.rates s = Db.rates s1).
  { destruct (_ =? c_V204EnhanceActivation c); [|inversion H1; subst; reflexivity].
    rates_eq pr_mint_tokens H1. }
  clear H1. done_step H s2 H2. apply of_res_done in H2.
  assert (E2 : Db.rates s = Db.rates s2).
  { rewrite E1. destruct (_ =? c_V204BurnMintedTokenActivation c); [|inversion H2; subst; reflexivity].
    rates_eq pr_nullify_minted H2. }
  clear H2 E1 s1. done_step H graded Hg. done_step H gradedS HgS.
  done_step H st Hst. destruct st as [[s3 is_rates] ended].
  assert (E3 : (is_rates = false /\ Db.rates s3 = Db.rates s /\ ~ block_rated cm b) \/
               (is_rates = true /\ ended = false /\ block_rated cm b /\ Db.rates s !! b_height b = None /\
                exists m, is_empty_map m = false /\ Db.rates s3 = <[b_height b := m]> (Db.rates s))).
  { unfold block_rated.
    destruct (Z.ltb_spec (b_height b) (c_V20HeightActivation c)) as [Hlt|Hge].
    - destruct graded as [v|].
      2:{ inversion Hst; subst. left. split; [reflexivity|]. split; [symmetry; exact E2|].
          intros (v & Hv & _). rewrite Hg in Hv. discriminate. }
      done_step Hst s4 H4. apply of_res_done in H4. apply insert_grade_shape in H4 as (g & w & ->).
      destruct (v_winners v) as [|w0 ws] eqn:Ew.
      + inversion Hst; subst. left. split; [reflexivity|]. split; [symmetry; exact E2|].
        intros (v' & Hv & Hw). rewrite Hg in Hv. inversion Hv; subst. congruence.
      + done_step Hst s5 H5. apply of_res_done in H5. inversion Hst; subst.
        apply insert_rates_nonempty in H5 as (Hn & m & -> & Hm). cbn [Db.rates set_rates set_grades] in *.
        right. split; [reflexivity|]. split; [reflexivity|].
        split; [exists v; split; [exact Hg|congruence]|].
        split; [rewrite E2; exact Hn|]. exists m. split; [exact Hm|]. rewrite E2. reflexivity.
    - assert (Hle : (c_V20HeightActivation c <=? b_height b) = true) by lia. rewrite Hle in HgS.
      destruct (grade_spr_err c cm b); [discriminate|].
      done_step Hst s4 H4.
      assert (E4 : Db.rates s2 = Db.rates s4).
      { destruct graded as [v|]; [apply of_res_done in H4; apply insert_grade_shape in H4 as (g & w & ->); reflexivity
                                 |inversion H4; subst; reflexivity]. }
      destruct (first_assets graded) as [|o0 o] eqn:Eo; destruct (first_assets gradedS) as [|p0 p] eqn:Ep.
      { inversion Hst; subst. left. split; [reflexivity|]. split; [congruence|].
        intros (g & gS & l & Hg' & HgS' & Hne & _). rewrite Hg in Hg'. rewrite HgS in HgS'.
        inversion Hg'; inversion HgS'; subst. destruct Hne as [N|N]; congruence. }
      all: destruct (select_rates c _ _ _) as [l|] eqn:Esel;
        [ done_step Hst s5 H5; apply of_res_done in H5; inversion Hst; subst;
          apply insert_rates_nonempty in H5 as (Hn & m & -> & Hm); cbn [Db.rates set_rates] in *;
          right; split; [reflexivity|]; split; [reflexivity|];
          split; [exists graded, gradedS, l; split; [exact Hg|]; split; [exact HgS|];
                  rewrite Eo, Ep; split; [|exact Esel]; (left; discriminate) || (right; discriminate)|];
          split; [rewrite E2, E4; exact Hn|]; exists m; split; [exact Hm|]; rewrite E2, E4; reflexivity
        | inversion Hst; subst; left; split; [reflexivity|]; split; [congruence|];
          intros (g & gS & l & Hg' & HgS' & _ & Hsel); rewrite Hg in Hg'; rewrite HgS in HgS';
          inversion Hg'; inversion HgS'; subst; rewrite Eo, Ep in Hsel; congruence ]. }
  clear Hst E2 s2.
  (* a block that "ends here" recorded nothing *)
  destruct ended.
  { destruct E3 as [(-> & E3 & NB)|(_ & K & _)]; [|discriminate].
    inversion H; subst. left. split; [exact NB|exact E3]. }
  done_step H st2 Hst2. destruct st2 as [s4 mem4].
  assert (E4 : Db.rates s4 = Db.rates s3 /\
               (is_rates = false -> mem4 = mem) /\
               (is_rates = true -> forall m, Db.rates s3 !! b_height b = Some m -> is_empty_map m = false ->
                  exists sa sb, Db.rates sa = Db.rates s3 /\
                    apply_holding c cm (b_height b) sa m
                      (fst (get_averages cm (c_AveragePeriod c) mem (last_rated_below sa (b_height b)))) = Ok sb /\
                    mem4 = snd (get_averages cm (c_AveragePeriod c) mem (last_rated_below sa (b_height b))) /\
                    Db.rates sb = Db.rates sa)).
  { destruct (Z.leb_spec (c_TransactionConversionActivation c) (b_height b)) as [_|Hx]; [|lia].
    done_step Hst2 st Hs1. destruct st as [s5 rates1].
    assert (E5 : Db.rates s3 = Db.rates s5 /\
                 (forall m, Db.rates s3 !! b_height b = Some m -> is_empty_map m = false -> rates1 = m)).
    { destruct ((c_V20HeightActivation c <=? _) && _).
      - done_step Hs1 s6 H6. apply of_res_done in H6. inversion Hs1; subst.
        split; [rates_eq pr_snapshot_payouts H6|].
        intros m Hm He. rewrite Hm. cbn [default from_option id]. rewrite He. reflexivity.
      - inversion Hs1; subst. split; [reflexivity|]. intros m Hm _. rewrite Hm. reflexivity. }
    destruct E5 as [E5 Er1].
    done_step Hst2 st Hs2. destruct st as [s6 mem6].
    assert (E6 : Db.rates s5 = Db.rates s6 /\ (is_rates = false -> mem6 = mem) /\
                 (is_rates = true -> exists sa, Db.rates sa = Db.rates s5 /\
                    apply_holding c cm (b_height b) sa rates1
                      (fst (get_averages cm (c_AveragePeriod c) mem (last_rated_below sa (b_height b)))) = Ok s6 /\
                    mem6 = snd (get_averages cm (c_AveragePeriod c) mem (last_rated_below sa (b_height b))))).
    { destruct is_rates.
      - done_step Hs2 s7 H7. apply of_res_done in H7.
        assert (E7 : Db.rates s5 = Db.rates s7).
        { destruct ((c_V4OPRUpdate c <=? _) && _); [apply insert_bank_shape in H7 as (v & ->); reflexivity
                                                    |inversion H7; subst; reflexivity]. }
        destruct (get_averages cm _ mem _) as [avgs mem''] eqn:Eg.
        done_step Hs2 s8 H8. apply of_res_done in H8. inversion Hs2; subst.
        assert (E8 : Db.rates s7 = Db.rates s6) by (rates_eq pr_apply_holding H8).
        split; [congruence|]. split; [discriminate|]. intros _. exists s7.
        rewrite Eg. cbn [fst snd]. split; [congruence|]. split; [exact H8|reflexivity].
      - inversion Hs2; subst. split; [reflexivity|]. split; [reflexivity|discriminate]. }
    destruct E6 as (E6 & Em & Eh).
    done_step Hst2 s7 H7. inversion Hst2; subst.
    assert (E7 : Db.rates s6 = Db.rates s4).
    { destruct (b_tx b); [apply of_res_done in H7|inversion H7; subst; reflexivity].
      rates_eq pr_apply_tx_block H7. }
    split; [congruence|]. split; [exact Em|].
    intros Hr m Hm He. destruct (Eh Hr) as (sa & Ea & Hap & Hmem).
    exists sa, s6. rewrite <- (Er1 m Hm He). split; [congruence|]. split; [exact Hap|]. split; [exact Hmem|]. congruence. }
  clear Hst2. done_step H s5 H5.
  assert (E5 : Db.rates s4 = Db.rates s5).
  { destruct (_ <? c_V20HeightActivation c); [apply of_res_done in H5|inversion H5; subst; reflexivity].
    rates_eq pr_apply_factoid_block H5. }
  done_step H s6 H6.
  assert (E6 : Db.rates s4 = Db.rates s6).
  { rewrite E5. destruct graded; [apply of_res_done in H6|inversion H6; subst; reflexivity].
    rates_eq pr_pay_winners H6. }
  done_step H s7 H7.
  assert (E7 : Db.rates s4 = Db.rates s7).
  { rewrite E6. destruct (c_V20HeightActivation c <=? _); [|inversion H7; subst; reflexivity].
    destruct gradedS; [apply of_res_done in H7|inversion H7; subst; reflexivity].
    rates_eq pr_pay_winners H7. }
  done_step H s8 H8. inversion H; subst.
  assert (E8 : Db.rates s4 = Db.rates s').
  { rewrite E7. destruct ((c_V20DevRewardsHeightActivation c <=? _) && _); [apply of_res_done in H8|inversion H8; subst; reflexivity].
    rates_eq pr_developers_payouts H8. }
  destruct E4 as (E4 & Em & Eh).
  destruct E3 as [(-> & E3 & NB)|(-> & _ & BR & Hn & m & Hm & E3)].
  - left. split; [exact NB|congruence].
  - right. split; [exact BR|]. split; [exact Hn|].
    assert (Hl : Db.rates s3 !! b_height b = Some m) by (rewrite E3; apply lookup_insert).
    destruct (Eh eq_refl m Hl Hm) as (sa & sb & Ea & Hap & Hmem & Eb).
    exists m, sa, sb. split; [exact Hm|]. split; [congruence|]. split; [exact Hap|]. split; [exact Hmem|].
    split; [apply (last_rated_below_insert s sa (b_height b) m Hn); rewrite Ea; exact E3|]. split; [exact Eb|congruence].
Qed.

(* (3) in the form asked for: the block recorded rates (seen from outside: the height was unrated before
   and carries the map [m] afterwards).  Then [m] is what the holding pass was given. *)
Theorem sync_block_holding_uses_own_rates cm mem b s s' mem' m :
  sync_block c cm mem b s = Done (s', mem') ->
  c_TransactionConversionActivation c <= b_height b ->
  Db.rates s !! b_height b = None -> Db.rates s' !! b_height b = Some m ->
  block_rated cm b /\ is_empty_map m = false /\
  exists s1 s2,
    let h := b_height b in
    let avgs := fst (get_averages cm (c_AveragePeriod c) mem (last_rated_below s1 h)) in
    Db.rates s1 !! h = Some m /\                                   (* the map this block inserted ... *)
    Db.rates s1 = <[h := m]> (Db.rates s) /\
    apply_holding c cm h s1 m avgs = Ok s2 /\                      (* ... is the [rates] argument of the holding pass *)
    last_rated_below s1 h = last_rated_below s h /\                (* averages: of the last rated height before the block *)
    mem' = snd (get_averages cm (c_AveragePeriod c) mem (last_rated_below s1 h)) /\
    Db.rates s2 = Db.rates s1 /\ Db.rates s' = Db.rates s1.       (* recorded rates survive to the end of the block *)
Proof.
  intros H Htca Hn Hs'.
  destruct (sync_block_rated_dichotomy _ _ _ _ _ _ H Htca) as [(_ & E)|(BR & _ & m0 & s1 & s2 & Hm & E1 & Hap & Hmem & Hl & E2 & E3)].
  - rewrite E in Hs'.
    assert (X : Some m = None) by (transitivity (Db.rates s !! b_height b); [symmetry; exact Hs'|exact Hn]).
    discriminate.
  - assert (m0 = m).
    { rewrite E3, E1, lookup_insert in Hs'. inversion Hs'; reflexivity. }
    subst m0. split; [exact BR|]. split; [exact Hm|]. exists s1, s2. cbv zeta.
    split; [rewrite E1; apply lookup_insert|]. auto 10.
Qed.

(* the same from the verdicts: a rated block does record a map for its height and runs the holding pass on it *)
Theorem sync_block_rated_runs_holding cm mem b s s' mem' :
  sync_block c cm mem b s = Done (s', mem') ->
  c_TransactionConversionActivation c <= b_height b ->
  block_rated cm b ->
  Db.rates s !! b_height b = None /\
  exists m s1 s2,
    Db.rates s' !! b_height b = Some m /\ is_empty_map m = false /\
    Db.rates s1 = <[b_height b := m]> (Db.rates s) /\
    apply_holding c cm (b_height b) s1 m
       (fst (get_averages cm (c_AveragePeriod c) mem (last_rated_below s (b_height b)))) = Ok s2 /\
    Db.rates s' = Db.rates s1.
Proof.
  intros H Htca BR.
  destruct (sync_block_rated_dichotomy _ _ _ _ _ _ H Htca) as [(NB & _)|(_ & Hn & m & s1 & s2 & Hm & E1 & Hap & Hmem & Hl & E2 & E3)].
  - contradiction.
  - split; [exact Hn|]. exists m, s1, s2. split; [rewrite E3, E1; apply lookup_insert|].
    split; [exact Hm|]. split; [exact E1|]. split; [rewrite <- Hl; exact Hap|exact E3].
Qed.

(* ... and an unrated block never runs it: pn_rate is as before (Lemmas/NoWinners.v gives the status side) *)
Corollary sync_block_unrated_no_rates cm mem b s s' mem' :
  sync_block c cm mem b s = Done (s', mem') ->
  c_TransactionConversionActivation c <= b_height b ->
  ~ block_rated cm b -> Db.rates s' = Db.rates s.
Proof.
  intros H Htca NB.
  destruct (sync_block_rated_dichotomy _ _ _ _ _ _ H Htca) as [(_ & E)|(BR & _)]; [exact E|contradiction].
Qed.

End WithCfg.

Print Assumptions single_conversion_executes_exactly.
Print Assumptions single_conversion_room_necessary.
Print Assumptions held_conversion_executes_exactly.
Print Assumptions apply_holding_single_conversion.
Print Assumptions sync_block_rated_dichotomy.
Print Assumptions sync_block_holding_uses_own_rates.
Print Assumptions sync_block_rated_runs_holding.

(* ---- non-vacuity ------------------------------------------------------------------------------------- *)
(* (1): alice holds 100 pUSD and converts 10 pUSD into pFCT at height 99 of the example schedule
   (pUSD = 1e8, pFCT = 4e8): every hypothesis of the theorem holds, with out = floor(10 x 1e8 / 4e8) = 2 *)
Definition ex1_t : tx := {| tx_addr := alice; tx_type := PTickerUSD; tx_amt := 10; tx_transfers := []; tx_conv := PTickerFCT |}.
Definition ex1_s : db := set_bal empty_db {[ (alice, PTickerUSD) := 100 ]}.
Definition ex1_rates : gmap ticker Z := {[ PTickerUSD := 100000000; PTickerFCT := 400000000 ]}.

Example single_conversion_hyps_satisfiable :
  is_conversion ex1_t = true /\
  (c_PegnetConversionLimitActivation ex_cfg <=? 99) && is_peg_request ex1_t = false /\
  check_txs ex_cfg 99 ex1_s ex1_rates ex1_rates [ex1_t] = None /\
  conv_of ex_cfg 99 ex1_rates ex1_rates ex1_t = Some 2 /\
  0 <= rate_of ex1_rates (tx_type ex1_t) /\ 0 <= rate_of ex1_rates (tx_conv ex1_t) /\
  conv_room ex1_s ex1_t 2.
Proof.
  unfold conv_room.
  repeat split; try (vm_compute; reflexivity); try (vm_compute; discriminate).
Qed.

(* ... and the theorem applied to it: 10 pUSD leave, 2 pFCT arrive, bob is not concerned *)
Example single_conversion_example :
  exists s', apply_batch ex_cfg 99 ex1_s 777 [ex1_t] ex1_rates ex1_rates = BApplied s' /\
             get_bal (bal s') alice PTickerUSD = 90 /\ get_bal (bal s') alice PTickerFCT = 2 /\
             get_bal (bal s') bob PTickerUSD = 0 /\ is_replay s' 777 = true.
Proof.
  destruct single_conversion_hyps_satisfiable as (H1 & H2 & H3 & H4 & H5 & H6 & H7).
  destruct (single_conversion_executes_exactly ex_cfg 99 ex1_s 777 ex1_rates ex1_rates ex1_t 2 H1 H2 H3 H4 H5 H5 H6 H6 H7)
    as (s' & Hap & Hbal & _ & _ & _ & _ & _ & Hrep & _).
  exists s'. split; [exact Hap|]. rewrite !Hbal. repeat split; try (vm_compute; reflexivity). exact Hrep.
Qed.

(* (2): the held conversion of the example chain (entry 602: alice converts 20 pFCT into pUSD, held at 102)
   looked at by a block at height 104 with pFCT = 4e8, pUSD = 1e8: 80 pUSD *)
Definition ex2_s : db := set_bal empty_db {[ (alice, PTickerFCT) := 70 ]}.
Definition ex2_t : tx := {| tx_addr := alice; tx_type := PTickerFCT; tx_amt := 20; tx_transfers := []; tx_conv := PTickerUSD |}.
Example held_conversion_hyps_satisfiable :
  entry_valid_at ex_cfg (ex_conversion 602 20) 102 = Some [ex2_t] /\
  entry_valid_at ex_cfg (ex_conversion 602 20) 104 = Some [ex2_t] /\
  is_replay ex2_s 602 = false /\
  (c_V20HeightActivation ex_cfg <=? 104) && has_peg_conversion [ex2_t] = false /\
  is_conversion ex2_t = true /\
  (c_PegnetConversionLimitActivation ex_cfg <=? 104) && is_peg_request ex2_t = false /\
  check_txs ex_cfg 104 ex2_s ex1_rates ex1_rates [ex2_t] = None /\
  conv_of ex_cfg 104 ex1_rates ex1_rates ex2_t = Some 80 /\
  0 <= rate_of ex1_rates (tx_type ex2_t) /\ 0 <= rate_of ex1_rates (tx_conv ex2_t) /\
  valid_ticker (tx_type ex2_t) = true /\
  (tx_amt ex2_t = 0 -> get_bal (bal ex2_s) (tx_addr ex2_t) (tx_type ex2_t) <= max_int64) /\
  get_bal (bal ex2_s) (tx_addr ex2_t) (tx_conv ex2_t) - (if tx_conv ex2_t =? tx_type ex2_t then tx_amt ex2_t else 0) + 80 <= max_int64.
Proof.
  repeat split; try (vm_compute; reflexivity); try (vm_compute; discriminate).
Qed.

Example held_conversion_example :
  exists s', apply_held ex_cfg 104 ex1_rates ex1_rates ex2_s (ex_conversion 602 20) 102 = Ok (s', false) /\
             get_bal (bal s') alice PTickerFCT = 50 /\ get_bal (bal s') alice PTickerUSD = 80 /\
             Forall (fun x => x = 104) (status_of s' 602).
Proof.
  destruct held_conversion_hyps_satisfiable as (H1 & H2 & H3 & H4 & H5 & H6 & H7 & H8 & H9 & H10 & H11 & H12 & H13).
  destruct (held_conversion_executes_exactly ex_cfg 104 ex1_rates ex1_rates ex2_s (ex_conversion 602 20) 102 ex2_t 80
              H1 (ex_intro _ _ H2) H3 H4 H5 H6 H7 H8 H9 H9 H10 H10 H11 H12 H13)
    as (s' & Hap & Hbal & _ & _ & Hst & _).
  exists s'. split; [exact Hap|]. rewrite !Hbal. repeat split; try (vm_compute; reflexivity). exact Hst.
Qed.

(* (3): block 104 of the example chain is a rated block: its height is unrated before, rated after, and the
   theorem's hypotheses hold for it *)
Example sync_block_rated_example :
  match replay ex_cfg genesis empty_cache (firstn 3 ex_chain) with
  | Done (s3, m3) =>
    let b := nth 3 ex_chain (ex_block 0 None None []) in
    (c_TransactionConversionActivation ex_cfg <=? b_height b) = true /\
    Db.rates s3 !! b_height b = None /\
    match sync_block ex_cfg s3 m3 b s3 with
    | Done (s4, _) => match Db.rates s4 !! b_height b with Some m => rate_of m PTickerFCT = 400000000 | None => False end
    | _ => False
    end
  | _ => False
  end.
Proof. vm_compute. repeat split; reflexivity. Qed.
