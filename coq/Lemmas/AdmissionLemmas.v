(* Lemmas/AdmissionLemmas.v — C13: which conversions are executed at which height. *)
From Model Require Import Block.
From Lemmas Require Import DbLemmas LedgerLemmas ArithLemmas.
From Gen Require Import Consts.
From Coq Require Import Lia.
Open Scope Z_scope.

Section WithCfg.
Variable c : cfg.

(* the protocol rule for a conversion t at height h, written from the property *)
Definition zero_rate (rates : gmap ticker Z) (t : tx) : bool := (rate_of rates (tx_type t) =? 0) || (rate_of rates (tx_conv t) =? 0).
Definition oneway_pfct (h : Z) (t : tx) : bool := (c_OneWaypFCTConversions c <=? h) && existsb (Z.eqb (tx_conv t)) oneway_pfct_dests.
Definition oneway_small (h : Z) (t : tx) : bool := (c_OneWaySmallAssetsConversions c <=? h) && existsb (Z.eqb (tx_conv t)) oneway_small_dests.

(* the decision of the first pass for a batch made of one conversion *)
Theorem admission_rule h s rates avgs t :
  is_conversion t = true -> is_empty_map rates = false ->
  check_txs c h s rates avgs [t] =
    if get_bal (bal s) (tx_addr t) (tx_type t) <? tx_amt t then Some (BRejected (-1))      (* insufficient funds *)
    else if zero_rate rates t then Some (BRejected (-4))                                    (* a rate is zero *)
    else if oneway_pfct h t then Some (BRejected (-3))                                      (* into pFCT, one-way *)
    else if oneway_small h t then Some (BRejected (-5))                                     (* into PEG / a small-cap asset, one-way *)
    else match conv_of c h rates avgs t with
         | None => Some BDropped          (* average unavailable from PIP-10 on, or the amount does not fit int64 *)
         | Some _ => None                 (* let through *)
         end.
Proof.
  intros Hc Hr. cbn [check_txs]. rewrite Hc, Hr. unfold zero_rate, oneway_pfct, oneway_small.
  destruct (_ <? tx_amt t); [reflexivity|]. destruct (_ || _); [reflexivity|].
  destruct (_ && _); [reflexivity|]. destruct (_ && _); [reflexivity|].
  destruct (conv_of c h rates avgs t); reflexivity.
Qed.

(* from 2.0 on a held batch with a conversion into PEG is refused (-2) and touches no balance *)
Theorem peg_conversion_refused_from_v20 cur rates avgs s e hh txs :
  entry_valid_at c e hh = Some txs -> c_V20HeightActivation c <= cur -> has_peg_conversion txs = true ->
  apply_held c cur rates avgs s e hh = Ok (set_executed s (e_hash e) (-2), false).
Proof.
  intros Hv Hh Hp. unfold apply_held. rewrite Hv, Hp.
  destruct (Z.leb_spec (c_V20HeightActivation c) cur); [reflexivity|lia].
Qed.

(* a single conversion that passes the first pass always reaches the recording step: it is never rejected or
   dropped; it is applied unless a storage statement fails (amounts outside the int64 domain) *)
Theorem accepted_conversion_is_recorded h s hs rates avgs t :
  is_conversion t = true -> check_txs c h s rates avgs [t] = None ->
  apply_batch c h s hs [t] rates avgs =
    match record_batch c h hs rates avgs [t] s with Ok s' => BApplied s' | Fail code => BFail code | Panic code => BFail code end.
Proof.
  intros Hc Hchk. unfold apply_batch. rewrite Hchk.
  cbn [check_txs] in Hchk. rewrite Hc in Hchk.
  destruct (Z.ltb_spec (get_bal (bal s) (tx_addr t) (tx_type t)) (tx_amt t)) as [|Hfund]; [discriminate|].
  destruct (is_empty_map rates); [discriminate|]. destruct (_ || _); [discriminate|].
  destruct (_ && _); [discriminate|]. destruct (_ && _); [discriminate|].
  destruct (conv_of c h rates avgs t) as [out|] eqn:Hconv; [|discriminate].
  cbn [sim_txs map]. unfold sim_get. fold (get_bal (bal s) (tx_addr t) (tx_type t)).
  destruct (Z.ltb_spec (get_bal (bal s) (tx_addr t) (tx_type t)) (tx_amt t)); [lia|].
  rewrite Hc, Hconv. reflexivity.
Qed.
End WithCfg.
