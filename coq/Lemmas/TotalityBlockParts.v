(* Lemmas/TotalityBlockParts.v — C08 (sync liveness), totality of the writers of SyncBlock other than the
   transaction machinery: coinbase-style payouts (miners, stakers, developers, snapshot), the grading and
   rate tables, the sync-height bump.  Each lemma: from a [hist_closed] state with room for what is
   credited and fresh hashes, the function returns [Ok], keeps the invariants and says which batch-row
   hashes it added.  Used by TotalityBlock.v. *)
From Model Require Import Block.
From Lemmas Require Import ArithLemmas DbLemmas LedgerLemmas BlockLemmas PayoutLemmas ChainLemmas
     TotalityLemmas TotalityInvariant.
From Gen Require Import Consts.
From Coq Require Import Lia ZifyBool.
Open Scope Z_scope.
Open Scope list_scope.

Lemma keys_hist_keys s s' : keys s' = keys s -> hist_keys s' = hist_keys s.
Proof. unfold keys. congruence. Qed.

(* ---- the two history inserts on fresh keys ------------------------------------------------------------------ *)
Lemma insert_hbatch_fresh s hb :
  ~ In (hb_hash hb) (hist_keys s) -> insert_hbatch s hb = Ok (set_hist s (hist s ++ [hb])).
Proof.
  intros Hf. unfold insert_hbatch. destruct (hist_has_at s (hb_hash hb) (hb_height hb)) eqn:E; [|reflexivity].
  exfalso. apply Hf. apply hist_has_in. eapply hist_has_at_has; exact E.
Qed.
Lemma insert_htx_fresh s r lk :
  htx_has s (ht_hash r) (ht_index r) = false ->
  exists s', insert_htx s r lk = Ok s' /\ hist s' = hist s /\ htxs s' = htxs s ++ [r] /\ holding s' = holding s /\ bal s' = bal s.
Proof. intros Hf. unfold insert_htx. rewrite Hf. eexists. split; [reflexivity|]. repeat split. Qed.
Lemma htx_has_fresh s x i : ~ In x (htx_keys s) -> htx_has s x i = false.
Proof. intros Hf. destruct (htx_has s x i) eqn:E; [|reflexivity]. exfalso. apply Hf. eapply htx_has_in; exact E. Qed.

(* AddToBalance, then the batch row, then the transaction row of a fresh hash *)
Lemma coinbase_step_total s a t v hb r lk n :
  hist_closed s -> valid_ticker t = true -> 0 <= v -> 0 <= n -> bal_room s (v + n) ->
  ~ In (hb_hash hb) (hist_keys s) -> ht_hash r = hb_hash hb ->
  exists s1 s2 s3, add_to_balance s a t v = Ok s1 /\ insert_hbatch s1 hb = Ok s2 /\ insert_htx s2 r lk = Ok s3 /\
                   hist_closed s3 /\ bal_room s3 n /\ hist_keys s3 = hist_keys s ++ [hb_hash hb].
Proof.
  intros Hcl Ht Hv Hn Hr Hf Hh.
  destruct (add_to_balance_total s a t v n Ht Hv Hn Hr) as (s1 & A1 & A2 & A3 & A4).
  assert (K1 : hist_keys s1 = hist_keys s /\ htx_keys s1 = htx_keys s /\ hold_keys s1 = hold_keys s).
  { unfold keys in A2. inversion A2. auto. }
  destruct K1 as (K1 & K2 & K3).
  assert (Hf1 : ~ In (hb_hash hb) (hist_keys s1)) by (rewrite K1; exact Hf).
  pose proof (insert_hbatch_fresh s1 hb Hf1) as B1. set (s2 := set_hist s1 (hist s1 ++ [hb])) in *.
  assert (Hf2 : htx_has s2 (ht_hash r) (ht_index r) = false).
  { apply htx_has_fresh. change (htx_keys s2) with (htx_keys s1). rewrite K2, Hh. intros K. apply Hf. apply (proj1 Hcl). exact K. }
  destruct (insert_htx_fresh s2 r lk Hf2) as (s3 & C1 & C2 & C3 & C4 & C5).
  exists s1, s2, s3. split; [exact A1|]. split; [exact B1|]. split; [exact C1|].
  assert (Hk3 : hist_keys s3 = hist_keys s ++ [hb_hash hb]).
  { unfold hist_keys. rewrite C2. unfold s2. cbn [hist set_hist]. rewrite map_app. fold (hist_keys s1). rewrite K1. reflexivity. }
  split; [|split; [|exact Hk3]].
  - destruct Hcl as [H1 H2]. split.
    + unfold htx_keys. rewrite C3, map_app. intros x Hx. rewrite Hk3. apply in_or_app.
      apply in_app_or in Hx as [Hx|[<-|[]]]; [left; apply H1; change (In x (htx_keys s2)) in Hx|right; left; symmetry; exact Hh].
      change (htx_keys s2) with (htx_keys s1) in Hx. rewrite K2 in Hx. exact Hx.
    + unfold hold_keys. rewrite C4. change (holding s2) with (holding s1). fold (hold_keys s1). rewrite K3, Hk3.
      intros x Hx. apply in_or_app. left. apply H2. exact Hx.
  - eapply bal_room_eq; [rewrite C5; reflexivity|exact A3].
Qed.

(* ---- ApplyGradedOPRBlock / ApplyGradedSPRBlock ----------------------------------------------------------------- *)
Definition winner_hashes (ws : list winner) : list Z :=
  flat_map (fun w => match w_addr w with Some _ => [w_hash w] | None => [] end) ws.
Definition winners_credit (ws : list winner) : Z :=
  fold_right (fun w acc => match w_addr w with Some _ => wrap64 (w_payout w) | None => 0 end + acc) 0 ws.
Lemma winners_credit_nonneg ws : 0 <= winners_credit ws.
Proof.
  induction ws as [|w ws IH]; cbn [winners_credit fold_right]; [lia|]. fold (winners_credit ws).
  destruct (w_addr w); [pose proof (wrap64_nonneg (w_payout w))|]; lia.
Qed.

Lemma valid_peg : valid_ticker PTickerPEG = true.  Proof. reflexivity. Qed.

Lemma pay_winners_total ts : forall ws s n,
  hist_closed s -> 0 <= n -> bal_room s (winners_credit ws + n) ->
  NoDup (winner_hashes ws) -> (forall x, In x (winner_hashes ws) -> ~ In x (hist_keys s)) ->
  exists s', pay_winners s ts ws = Ok s' /\ hist_closed s' /\ bal_room s' n /\ hist_keys s' = hist_keys s ++ winner_hashes ws.
Proof.
  unfold pay_winners. induction ws as [|w ws IH]; intros s n Hcl Hn Hr Hnd Hf; cbn [fold_left].
  - exists s. split; [reflexivity|]. split; [exact Hcl|]. split; [|cbn; rewrite app_nil_r; reflexivity].
    eapply bal_room_weaken; [|exact Hr]. cbn [winners_credit fold_right]. lia.
  - cbn [rbind]. cbn [winners_credit fold_right] in Hr. fold (winners_credit ws) in Hr.
    pose proof (winners_credit_nonneg ws) as Hw. cbn [winner_hashes flat_map] in Hnd, Hf. fold (winner_hashes ws) in Hnd, Hf.
    destruct (w_addr w) as [a|] eqn:Ea.
    + cbn [app] in Hnd, Hf. inversion Hnd as [|? ? Hn1 Hnd']; subst.
      destruct (coinbase_step_total s a PTickerPEG (wrap64 (w_payout w))
                  {| hb_hash := w_hash w; hb_height := w_height w; hb_order := 0; hb_ts := ts; hb_exec := w_height w |}
                  {| ht_hash := w_hash w; ht_index := 0; ht_action := 3; ht_from := a; ht_from_asset := 0;
                     ht_from_amount := 0; ht_to_asset := PTickerPEG; ht_to_amount := w_payout w; ht_outputs := [] |} [a]
                  (winners_credit ws + n) Hcl valid_peg (wrap64_nonneg _)) as (s1 & s2 & s3 & A1 & A2 & A3 & A4 & A5 & A6);
        [lia|eapply bal_room_weaken; [|exact Hr]; lia|apply Hf; left; reflexivity|reflexivity|].
      rewrite A1. cbn [rbind]. rewrite A2. cbn [rbind]. rewrite A3.
      destruct (IH s3 n A4 Hn A5 Hnd') as (s' & B1 & B2 & B3 & B4).
      { intros x Hx. rewrite A6. intros K. apply in_app_or in K as [K|[<-|[]]]; [apply (Hf x); [right; exact Hx|exact K]|contradiction]. }
      exists s'. split; [exact B1|]. split; [exact B2|]. split; [exact B3|]. rewrite B4, A6, <- app_assoc.
      cbn [winner_hashes flat_map hb_hash]. rewrite Ea. reflexivity.
    + cbn [app] in Hnd, Hf. cbn [winner_hashes flat_map]. rewrite Ea. cbn [app]. apply IH; auto.
Qed.

(* ---- DevelopersPayouts ---------------------------------------------------------------------------------------------- *)
Fixpoint dev_hashes_from (h j : Z) (l : list (Z * Z * Z * Z)) : list Z :=
  match l with [] => [] | _ :: l' => mock_hash_dev j h :: dev_hashes_from h (j + 1) l' end.
Definition dev_hashes (h : Z) : list Z := dev_hashes_from h 1 dev_rewards.
Definition dev_reward (after : bool) (d : Z * Z * Z * Z) : Z := let '(_, _, pre, post) := d in if after then post else pre.
Definition dev_credit_of (after : bool) (l : list (Z * Z * Z * Z)) : Z := fold_right (fun d acc => dev_reward after d + acc) 0 l.

Section WithCfg.
Variable c : cfg.

Definition dev_credit (h : Z) : Z := dev_credit_of (c_V202EnhanceActivation c <=? h) dev_rewards.

Lemma dev_credit_of_nonneg after l :
  (forall d, In d l -> 0 <= dev_reward after d) -> 0 <= dev_credit_of after l.
Proof.
  induction l as [|d l IH]; intros H; cbn [dev_credit_of fold_right]; [lia|]. fold (dev_credit_of after l).
  pose proof (H d (or_introl eq_refl)). assert (0 <= dev_credit_of after l) by (apply IH; intros; apply H; right; assumption). lia.
Qed.
Lemma dev_rewards_reward_nonneg after d : In d dev_rewards -> 0 <= dev_reward after d.
Proof.
  intros Hin. pose proof dev_rewards_nonneg as T. rewrite forallb_forall in T. specialize (T d Hin).
  destruct d as [[[a bits] pre] post]. cbv beta iota in T. cbn [dev_reward]. destruct after; lia.
Qed.

Lemma developers_payouts_total h ts s n :
  hist_closed s -> 0 <= n -> bal_room s (dev_credit h + n) ->
  NoDup (dev_hashes h) -> (forall x, In x (dev_hashes h) -> ~ In x (hist_keys s)) ->
  exists s', fst (developers_payouts c h ts s) = Ok s' /\ hist_closed s' /\ bal_room s' n /\
             hist_keys s' = hist_keys s ++ dev_hashes h.
Proof.
  unfold developers_payouts, dev_credit, dev_hashes. cbv zeta.
  pose proof (dev_rewards_reward_nonneg (c_V202EnhanceActivation c <=? h)) as T. revert T.
  generalize dev_rewards as l0. intros l0 T.
  set (step := fun (acc : Z * Z * (res db * db)) (d : Z * Z * Z * Z) => _).
  assert (G : forall l i j s1 reached n1,
             (forall d, In d l -> 0 <= dev_reward (c_V202EnhanceActivation c <=? h) d) ->
             hist_closed s1 -> 0 <= n1 -> bal_room s1 (dev_credit_of (c_V202EnhanceActivation c <=? h) l + n1) ->
             NoDup (dev_hashes_from h j l) -> (forall x, In x (dev_hashes_from h j l) -> ~ In x (hist_keys s1)) ->
             exists s', fst (snd (fold_left step l ((i, j), (Ok s1, reached)))) = Ok s' /\ hist_closed s' /\ bal_room s' n1 /\
                        hist_keys s' = hist_keys s1 ++ dev_hashes_from h j l).
  { clear. induction l as [|d l IH]; intros i j s n reached0 T Hcl Hn Hr Hnd Hf; cbn [fold_left snd fst].
    - exists s. split; [reflexivity|]. split; [exact Hcl|]. split; [|cbn; rewrite app_nil_r; reflexivity].
      eapply bal_room_weaken; [|exact Hr]. cbn [dev_credit_of fold_right]. lia.
    - cbn [dev_credit_of fold_right] in Hr. fold (dev_credit_of (c_V202EnhanceActivation c <=? h) l) in Hr.
      assert (Hl : 0 <= dev_credit_of (c_V202EnhanceActivation c <=? h) l) by (apply dev_credit_of_nonneg; intros; apply T; right; assumption).
      pose proof (T d (or_introl eq_refl)) as Hd.
      cbn [dev_hashes_from] in Hnd, Hf. inversion Hnd as [|? ? Hn1 Hnd']; subst.
      unfold step at 2. destruct d as [[[a bits] pre] post]. cbn [dev_reward] in Hd, Hr.
      destruct (coinbase_step_total s a PTickerPEG (if c_V202EnhanceActivation c <=? h then post else pre)
                  {| hb_hash := mock_hash_dev j h; hb_height := h; hb_order := 0; hb_ts := ts; hb_exec := h |}
                  (coinbase_row (mock_hash_dev j h) i a PTickerPEG (if c_V202EnhanceActivation c <=? h then post else pre)) [a]
                  (dev_credit_of (c_V202EnhanceActivation c <=? h) l + reached0) Hcl valid_peg Hd) as (s1 & s2 & s3 & A1 & A2 & A3 & A4 & A5 & A6);
        [lia|eapply bal_room_weaken; [|exact Hr]; lia|apply Hf; left; reflexivity|reflexivity|].
      rewrite A1, A2, A3.
      destruct (IH (if 9 <? i + 1 then 0 else i + 1) (j + 1) s3 s3 reached0 (fun d0 H0 => T d0 (or_intror H0)) A4 Hn A5 Hnd') as (s' & B1 & B2 & B3 & B4).
      { intros x Hx. rewrite A6. intros K. apply in_app_or in K as [K|[<-|[]]]; [apply (Hf x); [right; exact Hx|exact K]|contradiction]. }
      exists s'. split; [exact B1|]. split; [exact B2|]. split; [exact B3|]. rewrite B4, A6, <- app_assoc. reflexivity. }
  intros Hcl Hn Hr Hnd Hf. exact (G l0 0 1 s s n T Hcl Hn Hr Hnd Hf).
Qed.

(* ---- SnapshotPayouts --------------------------------------------------------------------------------------------------- *)
Definition snapshot_bank : Z := PerBlockAssetHolders * SnapshotRate.
Lemma snapshot_bank_nonneg : 0 <= snapshot_bank.
Proof. vm_compute. discriminate. Qed.

(* the two tests of the stake computation: every Convert succeeds, every total is a uint64 *)
Definition stakes_fit (h : Z) (rates : gmap ticker Z) (past cur : gmap (addr * ticker) Z) : bool :=
  forallb (fun a => match stake_of c h rates past cur a with Some v => v <? two64 | None => false end) (addrs_of cur).

Lemma payouts_fst bank rs : map fst (payouts bank rs) = map fst rs.
Proof.
  unfold payouts. destruct rs as [|r0 rs0] eqn:E; [reflexivity|]. rewrite <- E. clear E.
  destruct (_ && _); [reflexivity|]. destruct (dust_winner rs).
  - rewrite !map_map. apply map_ext. intros r. cbn [fst]. destruct (txid_eqb _ _); reflexivity.
  - rewrite map_map. reflexivity.
Qed.

Lemma sum_snd_ge_each_nonneg (l : list (txid * Z)) : Forall (fun r => 0 <= snd r) l -> forall r, In r l -> snd r <= sum_snd l.
Proof.
  induction 1 as [|x l Hx Hl IH]; intros r Hin; [contradiction|]. rewrite sum_snd_cons.
  assert (0 <= sum_snd l). { clear -Hl. induction Hl; [cbn; lia|rewrite sum_snd_cons; lia]. }
  destruct Hin as [<-|Hin]; [lia|]. specialize (IH r Hin). lia.
Qed.

(* the transaction rows of the payout batch: one per payout, indexed by the position in the sorted stake list *)
Lemma snapshot_rows_total txh (ad : Z -> addr) : forall (pays : list (txid * Z)) s,
  NoDup (map fst pays) -> (forall p, In p pays -> fst (fst p) = txh /\ snd p < two63) ->
  (forall r, In r (htxs s) -> ht_hash r = txh -> ~ In (txh, ht_index r) (map fst pays)) ->
  exists s', fold_left (fun r p => let? s' := r in
                          let i := snd (fst p) in
                          if two63 <=? snd p then Fail E_SQLARG
                          else insert_htx s' (coinbase_row txh i (ad i) PTickerPEG (snd p)) [ad i]) pays (Ok s) = Ok s' /\
             hist s' = hist s /\ holding s' = holding s /\ bal s' = bal s /\
             (forall x, In x (htx_keys s') -> In x (htx_keys s) \/ x = txh).
Proof.
  induction pays as [|p pays IH]; intros s Hnd Hp Hno; cbn [fold_left].
  - exists s. repeat split; auto.
  - cbv beta zeta. cbn [rbind]. cbv beta. destruct (Hp p (or_introl eq_refl)) as [Hp1 Hp2]. unfold txid in *.
    match goal with |- context [fold_left _ pays (if ?b then _ else _)] => destruct b eqn:E end; [exfalso; lia|].
    cbn [map] in Hnd. apply NoDup_cons_iff in Hnd as [Hn1 Hnd'].
    assert (Hf : htx_has s (ht_hash (coinbase_row txh (snd (fst p)) (ad (snd (fst p))) PTickerPEG (snd p)))
                           (ht_index (coinbase_row txh (snd (fst p)) (ad (snd (fst p))) PTickerPEG (snd p))) = false).
    { cbn [coinbase_row ht_hash ht_index]. unfold htx_has. apply not_true_is_false. intros K.
      apply existsb_exists in K as (r & Hin & He). apply (Hno r Hin); [lia|]. left.
      destruct (fst p) as [ph pi] eqn:Efp. cbn [fst snd] in *. f_equal; lia. }
    destruct (insert_htx_fresh s _ [ad (snd (fst p))] Hf) as (s1 & C1 & C2 & C3 & C4 & C5). rewrite C1.
    destruct (IH s1 Hnd' (fun q Hq => Hp q (or_intror Hq))) as (s' & F1 & F2 & F3 & F4 & F5).
    { intros r Hin Hr. rewrite C3 in Hin. apply in_app_or in Hin as [Hin|[<-|[]]].
      - intros K. apply (Hno r Hin Hr). right. exact K.
      - cbn [coinbase_row ht_index]. intros K. apply Hn1.
        destruct (fst p) as [ph pi] eqn:Efp. cbn [fst snd] in *. subst ph. exact K. }
    exists s'. split; [exact F1|]. split; [rewrite F2; exact C2|]. split; [rewrite F3; exact C4|]. split; [rewrite F4; exact C5|].
    intros x Hx. apply F5 in Hx as [Hx|Hx]; [|right; exact Hx].
    unfold htx_keys in Hx. rewrite C3, map_app in Hx. apply in_app_or in Hx as [Hx|[<-|[]]]; [left; exact Hx|right; reflexivity].
Qed.

Lemma snapshot_credits_total (ad : Z -> addr) : forall (pays : list (txid * Z)) s n,
  Forall (fun p => 0 <= snd p) pays -> 0 <= n -> bal_room s (sum_snd pays + n) ->
  exists s', fold_left (fun r p => let? s' := r in add_to_balance s' (ad (snd (fst p))) PTickerPEG (snd p)) pays (Ok s) = Ok s' /\
             keys s' = keys s /\ bal_room s' n.
Proof.
  induction pays as [|p pays IH]; intros s n Hf Hn Hr; cbn [fold_left].
  - exists s. split; [reflexivity|]. split; [reflexivity|]. eapply bal_room_weaken; [|exact Hr]. cbn. lia.
  - inversion Hf as [|? ? Hp Hf']; subst. rewrite sum_snd_cons in Hr. cbv beta. cbn [rbind]. cbv beta. unfold txid in *.
    assert (Hs : 0 <= sum_snd pays). { clear -Hf'. induction Hf'; [cbn; lia|rewrite sum_snd_cons; lia]. }
    destruct (add_to_balance_total s (ad (snd (fst p))) PTickerPEG (snd p) (sum_snd pays + n) valid_peg Hp) as (s1 & A1 & A2 & A3 & _);
      [lia|eapply bal_room_weaken; [|exact Hr]; lia|].
    rewrite A1. destruct (IH s1 n Hf' Hn A3) as (s' & B1 & B2 & B3).
    exists s'. split; [exact B1|]. split; [rewrite B2; exact A2|exact B3].
Qed.

Lemma snapshot_payouts_total h ts rates s n :
  stakes_fit h rates (snap_cur s) (bal s) = true ->
  hist_closed s -> 0 <= n -> bal_room s (snapshot_bank + n) -> ~ In (mock_hash h) (hist_keys s) ->
  exists s', snapshot_payouts c h ts rates s = Ok s' /\ hist_closed s' /\ bal_room s' n /\
             incl (hist_keys s') (hist_keys s ++ [mock_hash h]).
Proof.
  intros Hfit Hcl Hn Hr Hfresh. unfold snapshot_payouts. cbv zeta.
  set (s1 := set_snaps s (bal s) (snap_cur s)).
  change (snap_past s1) with (snap_cur s). change (snap_cur s1) with (bal s).
  set (stakes := map (fun a => (a, stake_of c h rates (snap_cur s) (bal s) a)) (addrs_of (bal s))).
  unfold stakes_fit in Hfit. rewrite forallb_forall in Hfit.
  assert (E1 : existsb (fun x : addr * option Z => match snd x with None => true | Some _ => false end) stakes = false).
  { apply not_true_is_false. intros K. apply existsb_exists in K as (x & Hin & Hx). unfold stakes in Hin.
    apply in_map_iff in Hin as (a & <- & Ha). specialize (Hfit a Ha). cbn [snd] in Hx. destruct (stake_of c h rates _ _ a); discriminate. }
  rewrite E1.
  set (stakes' := map (fun x : addr * option Z => (fst x, default 0 (snd x))) stakes).
  assert (E2 : existsb (fun x : addr * Z => two64 <=? snd x) stakes' = false).
  { apply not_true_is_false. intros K. apply existsb_exists in K as (x & Hin & Hx). unfold stakes' in Hin.
    apply in_map_iff in Hin as (y & <- & Hy). unfold stakes in Hy. apply in_map_iff in Hy as (a & <- & Ha).
    specialize (Hfit a Ha). cbn [fst snd] in Hx. destruct (stake_of c h rates _ _ a); cbn [from_option id] in Hx; [|discriminate]. lia. }
  rewrite E2.
  assert (Hcl1 : hist_closed s1) by exact Hcl.
  assert (Hr1 : bal_room s1 (snapshot_bank + n)) by exact Hr.
  remember (sort_stakes (filter (fun x : addr * Z => 0 <? snd x) stakes')) as lst eqn:El.
  assert (Hlst : forall x, In x lst -> 0 < snd x < two64).
  { intros x Hx. rewrite El in Hx. apply sort_stakes_in in Hx. apply filter_In in Hx as [Hx Hpos].
    assert (Hlt : (two64 <=? snd x) = false).
    { apply not_true_is_false. intros K. assert (T : existsb (fun x : addr * Z => two64 <=? snd x) stakes' = true) by (apply existsb_exists; exists x; auto). congruence. }
    lia. }
  clear El. destruct lst as [|x0 lst0] eqn:E0.
  { exists s1. split; [reflexivity|]. split; [exact Hcl1|]. split; [eapply bal_room_weaken; [|exact Hr1]; pose proof snapshot_bank_nonneg; lia|].
    intros x Hx. apply in_or_app. left. exact Hx. }
  rewrite <- E0 in *. assert (Hne : lst <> []) by (rewrite E0; discriminate). clear E0 x0 lst0.
  set (txh := mock_hash h). set (indexed := index_from 0 lst).
  set (reqs := map (fun x : Z * (addr * Z) => ((txh, fst x), snd (snd x))) indexed).
  set (pays := payouts (PerBlockAssetHolders * SnapshotRate) reqs).
  assert (Hreq : reqs_ok reqs).
  { unfold reqs_ok, reqs. apply Forall_forall. intros r Hin. apply in_map_iff in Hin as (y & <- & Hy). cbn [snd].
    apply index_from_in in Hy. specialize (Hlst _ Hy). lia. }
  assert (Hnd : txids_nodup reqs) by (apply staking_txids_distinct).
  assert (Hbank : 0 <= PerBlockAssetHolders * SnapshotRate < two64) by (vm_compute; split; [discriminate|reflexivity]).
  assert (Hnn : Forall (fun r : txid * Z => 0 <= snd r) pays).
  { apply payouts_nonneg. eapply Forall_impl; [|exact Hreq]. cbn. intros; lia. }
  destruct (payouts_never_exceed_bank _ reqs Hreq Hnd Hbank) as (Hsum & _ & _). fold pays in Hsum.
  assert (Hfst : map fst pays = map fst reqs) by apply payouts_fst.
  (* the batch row *)
  pose proof (insert_hbatch_fresh s1 {| hb_hash := txh; hb_height := h; hb_order := 0; hb_ts := ts; hb_exec := h |} Hfresh) as B1.
  rewrite B1. cbn [rbind]. set (s2 := set_hist s1 _).
  (* the transaction rows *)
  set (ad := fun i => match find (fun x : Z * (addr * Z) => fst x =? i) indexed with Some x => fst (snd x) | None => 0 end).
  destruct (snapshot_rows_total txh ad pays s2) as (s3 & R1 & R2 & R3 & R4 & R5).
  { rewrite Hfst. exact Hnd. }
  { intros p Hp. split.
    - assert (K : In (fst p) (map fst reqs)) by (rewrite <- Hfst; apply in_map; exact Hp).
      unfold reqs in K. rewrite map_map in K. apply in_map_iff in K as (y & <- & _). reflexivity.
    - pose proof (sum_snd_ge_each_nonneg pays Hnn p Hp). rewrite Forall_forall in Hnn. specialize (Hnn p Hp).
      assert (PerBlockAssetHolders * SnapshotRate < two63) by (vm_compute; reflexivity). lia. }
  { intros r Hin Hr0. exfalso. apply Hfresh. apply (proj1 Hcl). unfold htx_keys. apply in_map_iff. exists r. split; [exact Hr0|exact Hin]. }
  unfold ad in R1. cbv beta zeta in R1. rewrite R1. cbn [rbind].
  (* the credits *)
  destruct (snapshot_credits_total ad pays s3 n Hnn Hn) as (s4 & C1 & C2 & C3).
  { eapply bal_room_eq; [rewrite R4; reflexivity|]. eapply bal_room_weaken; [|exact Hr1]. unfold snapshot_bank. lia. }
  unfold ad in C1. cbv beta in C1. exists s4. split; [exact C1|].
  assert (K4 : hist_keys s4 = hist_keys s ++ [txh]).
  { rewrite (keys_hist_keys _ _ C2). unfold hist_keys. rewrite R2. unfold s2. cbn [hist set_hist]. rewrite map_app. reflexivity. }
  split; [|split; [exact C3|rewrite K4; apply incl_refl]].
  eapply hist_closed_keys; [exact C2|]. destruct Hcl as [H1 H2]. split.
  - intros x Hx. apply R5 in Hx. unfold hist_keys. rewrite R2. unfold s2. cbn [hist set_hist]. rewrite map_app. apply in_or_app.
    destruct Hx as [Hx| ->]; [left; apply H1; exact Hx|right; left; reflexivity].
  - unfold hold_keys, hist_keys. rewrite R3, R2. unfold s2. cbn [hist holding set_hist]. rewrite map_app.
    intros x Hx. apply in_or_app. left. apply H2. exact Hx.
Qed.

(* ---- pn_grade / pn_winners, pn_rate, pn_sync_version --------------------------------------------------------------- *)
Definition winner_rows_fresh (h : Z) (s : db) : bool :=
  forallb (fun r' => negb (fst (fst (fst (fst r'))) =? h)) (winners s).

Lemma insert_grade_total h s v :
  grades s !! h = None -> winner_rows_fresh h s = true ->
  exists w, insert_grade h s v = Ok (set_grades s (<[h := v_short v]> (grades s)) (winners s ++ w)) /\
            Forall (fun r => fst (fst (fst (fst r))) = h) w.
Proof.
  intros Hg Hw. unfold insert_grade. rewrite Hg.
  set (rows := match v_winners v with [] => [] | _ :: _ => map (fun w0 : winner => (h, w_pos w0, w_hash w0, w_payout w0, default 0 (w_addr w0))) (v_graded v) end).
  assert (Hrows : Forall (fun r : Z * Z * hash * Z * addr => fst (fst (fst (fst r))) = h) rows).
  { unfold rows. destruct (v_winners v); [constructor|]. apply Forall_forall. intros r Hin. apply in_map_iff in Hin as (w0 & <- & _). reflexivity. }
  match goal with |- context [existsb ?f rows] => assert (E : existsb f rows = false) end.
  { apply not_true_is_false. intros K. apply existsb_exists in K as (r & Hin & K). apply existsb_exists in K as (r' & Hin' & K).
    unfold winner_rows_fresh in Hw. rewrite forallb_forall in Hw. specialize (Hw r' Hin').
    rewrite Forall_forall in Hrows. specialize (Hrows r Hin). cbv beta in *. unfold hash, addr in *. lia. }
  rewrite E. exists rows. split; [reflexivity|exact Hrows].
Qed.

(* what InsertRates is handed: distinct names, values that fit a SQL argument *)
Definition assets_wfb (l : list (Z * Z)) : bool :=
  negb (has_dup (map fst l)) && forallb (fun a => (0 <=? snd a) && (snd a <? two63)) l.
(* the map InsertRates writes in the floating phase *)
Definition rate_map_of (l : list (Z * Z)) : gmap ticker Z :=
  <[PTickerPEG := fold_left (fun acc a => if fst a =? PTickerPEG then snd a else acc) l 0]>
    (fold_left (fun m a => if valid_ticker (fst a) then <[fst a := snd a]> m else m)
               (filter (fun a => negb (fst a =? PTickerPEG)) l) ∅).

Lemma has_dup_false_filter (p : Z * Z -> bool) l : has_dup (map fst l) = false -> has_dup (map fst (filter p l)) = false.
Proof.
  induction l as [|a l IH]; [reflexivity|]. cbn [map has_dup filter]. intros H. apply orb_false_elim in H as [H1 H2].
  destruct (p a); [|apply IH; exact H2]. cbn [map has_dup]. rewrite (IH H2), orb_false_r.
  apply not_true_is_false. intros K. apply existsb_exists in K as (x & Hin & Hx).
  assert (T : existsb (Z.eqb (fst a)) (map fst l) = true).
  { apply existsb_exists. exists x. split; [|exact Hx]. apply in_map_iff in Hin as (y & <- & Hy). apply filter_In in Hy as [Hy _]. apply in_map; exact Hy. }
  congruence.
Qed.

Lemma insert_rates_total cm h s l :
  rates s !! h = None -> assets_wfb l = true ->
  insert_rates cm h s l 3 = Ok (set_rates s (<[h := rate_map_of l]> (rates s))).
Proof.
  intros Hr Hw. unfold insert_rates. rewrite Hr. unfold assets_wfb in Hw. apply andb_prop in Hw as [Hd Hv].
  apply negb_true_iff in Hd. rewrite forallb_forall in Hv.
  rewrite (has_dup_false_filter _ l Hd).
  match goal with |- context [existsb ?f ?rows] => assert (E : existsb f rows = false) end.
  { apply not_true_is_false. intros K. apply existsb_exists in K as (a & Hin & K). apply filter_In in Hin as [Hin _]. specialize (Hv a Hin). lia. }
  rewrite E. cbn [Z.eqb Pos.eqb andb]. cbv zeta.
  assert (Hpeg : forall l0 acc, (forall a, In a l0 -> snd a < two63) -> acc < two63 ->
            fold_left (fun acc0 (a : Z * Z) => if fst a =? PTickerPEG then snd a else acc0) l0 acc < two63).
  { induction l0 as [|a l0 IH]; intros acc Hl Ha; cbn [fold_left]; [exact Ha|]. apply IH; [intros; apply Hl; right; assumption|].
    destruct (_ =? PTickerPEG); [apply Hl; left; reflexivity|exact Ha]. }
  assert (E2 : (two63 <=? fold_left (fun acc (a : Z * Z) => if fst a =? PTickerPEG then snd a else acc) l 0) = false).
  { specialize (Hpeg l 0). assert (0 < two63) by (unfold two63; lia).
    assert (forall a, In a l -> snd a < two63) by (intros a Ha; specialize (Hv a Ha); lia). specialize (Hpeg H0 H). lia. }
  rewrite E2. reflexivity.
Qed.

Lemma rate_map_of_nonempty l : is_empty_map (rate_map_of l) = false.
Proof.
  unfold is_empty_map, rate_map_of. destruct (map_to_list _) eqn:E; [|reflexivity].
  apply map_to_list_empty_iff in E. exfalso. apply (f_equal (fun m : gmap ticker Z => m !! PTickerPEG)) in E. cbv beta in E.
  rewrite lookup_insert, lookup_empty in E. discriminate.
Qed.
Lemma rate_map_of_nonneg l : assets_wfb l = true -> forall t, 0 <= rate_of (rate_map_of l) t.
Proof.
  intros Hw. unfold assets_wfb in Hw. apply andb_prop in Hw as [_ Hv]. rewrite forallb_forall in Hv.
  assert (Hins : forall (m : gmap ticker Z) k v, (forall t, 0 <= rate_of m t) -> 0 <= v -> forall t, 0 <= rate_of (<[k := v]> m) t).
  { intros m k v Hm Hv0 t. unfold rate_of. destruct (Z.eq_dec k t) as [->|N]; [rewrite lookup_insert; cbn; exact Hv0|].
    rewrite lookup_insert_ne by exact N. apply Hm. }
  unfold rate_map_of. apply Hins.
  - assert (G : forall l0 (m0 : gmap ticker Z), (forall a, In a l0 -> 0 <= snd a) -> (forall t, 0 <= rate_of m0 t) ->
               forall t, 0 <= rate_of (fold_left (fun m (a : Z * Z) => if valid_ticker (fst a) then <[fst a := snd a]> m else m) l0 m0) t).
    { induction l0 as [|a l0 IH]; intros m0 Hl Hm0; cbn [fold_left]; [exact Hm0|]. apply IH; [intros; apply Hl; right; assumption|].
      destruct (valid_ticker _); [apply Hins; [exact Hm0|apply Hl; left; reflexivity]|exact Hm0]. }
    apply G.
    + intros a Ha. apply filter_In in Ha as [Ha _]. specialize (Hv a Ha). lia.
    + intros t. unfold rate_of. rewrite lookup_empty. cbn. lia.
  - assert (G : forall l0 acc, (forall a, In a l0 -> 0 <= snd a) -> 0 <= acc ->
               0 <= fold_left (fun acc0 (a : Z * Z) => if fst a =? PTickerPEG then snd a else acc0) l0 acc).
    { induction l0 as [|a l0 IH]; intros acc Hl Ha; cbn [fold_left]; [exact Ha|]. apply IH; [intros; apply Hl; right; assumption|].
      destruct (_ =? PTickerPEG); [apply Hl; left; reflexivity|exact Ha]. }
    apply G; [|lia]. intros a Ha. specialize (Hv a Ha). lia.
Qed.

(* SELECT MAX(height) FROM pn_rate WHERE height < h does not see the row of h itself *)
Lemma last_rated_below_insert s s' h m :
  rates s !! h = None -> rates s' = <[h := m]> (rates s) -> last_rated_below s' h = last_rated_below s h.
Proof.
  intros Hn E. unfold last_rated_below. rewrite E.
  rewrite (map_fold_insert_L (fun k (_ : gmap ticker Z) acc => if (k <? h) && (acc <? k) then k else acc) 0 h m (rates s));
    [|intros j1 j2 z1 z2 y _ _ _; destruct ((j2 <? h) && (y <? j2)) eqn:E2; destruct ((j1 <? h) && (y <? j1)) eqn:E1;
      repeat (match goal with |- context [if ?b then _ else _] => let E := fresh in destruct b eqn:E end); lia|exact Hn].
  assert (K : (h <? h) = false) by lia. rewrite K. reflexivity.
Qed.

Lemma insert_synced_total s h : versions s !! h = None -> exists s', insert_synced s h = Ok s' /\ keys s' = keys s /\ bal s' = bal s.
Proof. intros H. unfold insert_synced. rewrite H. eexists. split; [reflexivity|]. split; reflexivity. Qed.

(* the batch rows a transaction block can add are those of its entries *)
Lemma apply_entry_hist_keys h s order e s' :
  apply_entry c h s order e = Ok s' -> incl (hist_keys s') (hist_keys s ++ [e_hash e]).
Proof.
  intros H. unfold apply_entry in H.
  assert (Hsame : forall x, keys x = keys s -> incl (hist_keys x) (hist_keys s ++ [e_hash e])).
  { intros x K. rewrite (keys_hist_keys _ _ K). apply incl_appl, incl_refl. }
  destruct (entry_valid_at c e h) as [txs|]; [|inversion H; subst; apply Hsame; reflexivity].
  destruct (is_replay s (e_hash e)); [inversion H; subst; apply Hsame; reflexivity|].
  destruct (hist_has s (e_hash e)) eqn:Eh; [inversion H; subst; apply Hsame; reflexivity|].
  apply rbind_ok in H as (s1 & H1 & H2).
  assert (K1 : hist_keys s1 = hist_keys s ++ [e_hash e]).
  { unfold insert_history in H1. apply rbind_ok in H1 as (s0 & H0 & H1). pose proof (insert_hbatch_shape _ _ _ H0) as E0.
    assert (G : hist s1 = hist s0).
    { refine (fold_res_inv (fun x => hist x = hist s0) (fun s' row => insert_htx s' (fst row) (snd row)) _ _ s0 s1 eq_refl H1).
      intros s2 row s3 Hp Hi. apply insert_htx_shape in Hi as (? & ? & ->). exact Hp. }
    unfold hist_keys. rewrite G, E0. cbn [hist set_hist]. rewrite map_app. reflexivity. }
  assert (Hsame1 : forall x, hist_keys x = hist_keys s1 -> incl (hist_keys x) (hist_keys s ++ [e_hash e])).
  { intros x K2. rewrite K2, K1. apply incl_refl. }
  destruct (has_conversions txs).
  - apply insert_holding_shape in H2 as (v & ->). apply Hsame1. reflexivity.
  - destruct (apply_batch c h s1 (e_hash e) txs ∅ ∅) as [s2|code| |code] eqn:Eb.
    + inversion H2; subst. apply Hsame1. apply keys_hist_keys. eapply keys_apply_batch; exact Eb.
    + destruct (code =? -1); inversion H2; subst. apply Hsame1. apply keys_hist_keys. apply keys_set_executed.
    + inversion H2; subst. apply Hsame1. reflexivity.
    + discriminate.
Qed.

Lemma apply_tx_block_hist_keys h es : forall s s',
  apply_tx_block c h s es = Ok s' -> incl (hist_keys s') (hist_keys s ++ map e_hash es).
Proof.
  unfold apply_tx_block. generalize 0 as i.
  induction es as [|e es IH]; intros i s s' H; cbn [fold_left snd] in H.
  - inversion H; subst. cbn [map]. rewrite app_nil_r. apply incl_refl.
  - cbn [rbind] in H. destruct (apply_entry c h s i e) as [s1|code|code] eqn:E.
    + apply IH in H. pose proof (apply_entry_hist_keys _ _ _ _ _ E) as K. cbn [map].
      intros x Hx. apply H in Hx. apply in_app_or in Hx as [Hx|Hx].
      * apply K in Hx. apply in_app_or in Hx as [Hx|[<-|[]]]; apply in_or_app; [left; exact Hx|right; left; reflexivity].
      * apply in_or_app. right. right. exact Hx.
    + exfalso. clear -H. revert H. generalize (i + 1). induction es as [|y l IHl]; intros j H; cbn in H; [discriminate|eauto].
    + exfalso. clear -H. revert H. generalize (i + 1). induction es as [|y l IHl]; intros j H; cbn in H; [discriminate|eauto].
Qed.
End WithCfg.
