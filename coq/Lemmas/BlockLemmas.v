(* Lemmas/BlockLemmas.v — block-level invariants of Model/Block.v: balances never negative
   across SyncBlock and the loop body. *)
From Model Require Import Block.
From Lemmas Require Import ArithLemmas DbLemmas LedgerLemmas.
From Gen Require Import Consts.
From Coq Require Import Lia ZifyBool.
Open Scope Z_scope.

Lemma obind_done {A B} (r : outcome A) (f : A -> outcome B) b :
  obind r f = Done b -> exists a, r = Done a /\ f a = Done b.
Proof. destruct r; cbn; intros H; try discriminate. eauto. Qed.
Lemma of_res_done {A} (r : res A) a : of_res r = Done a -> r = Ok a.
Proof. destruct r; cbn; intros H; inversion H; reflexivity. Qed.

(* facts about the generated tables, by computation over the whole table *)
Lemma dev_rewards_nonneg : forallb (fun d => let '(_, _, pre, post) := d in (0 <=? pre) && (0 <=? post)) dev_rewards = true.
Proof. vm_compute. reflexivity. Qed.
Lemma mint_list_nonneg : forallb (fun m => 0 <=? snd m) mint_list = true.
Proof. vm_compute. reflexivity. Qed.

Lemma bal_insert_grade h s v s' : insert_grade h s v = Ok s' -> bal s' = bal s.
Proof.
  unfold insert_grade. destruct (grades s !! h); [discriminate|].
  destruct (existsb _ _); [discriminate|]. intros H; inversion H; reflexivity.
Qed.
Lemma bal_insert_rates cm h s a ph s' : insert_rates cm h s a ph = Ok s' -> bal s' = bal s.
Proof.
  unfold insert_rates. destruct (rates s !! h); [discriminate|].
  destruct (has_dup _); [discriminate|]. destruct (existsb _ _); [discriminate|].
  repeat match goal with |- (if ?b then _ else _) = _ -> _ => destruct b; [discriminate|] end.
  intros H; inversion H; reflexivity.
Qed.

Section WithCfg.
Variable c : cfg.

Lemma mint_fold_nonneg (l : list (Z * Z)) s s' :
  (forall m, In m l -> 0 <= snd m) -> nonneg s ->
  fold_left (fun r m => let? s' := r in add_to_balance s' GlobalMintAddress (fst m) (snd m)) l (Ok s) = Ok s' ->
  nonneg s'.
Proof.
  intros Hl Hn H.
  refine (fold_res_inv_in nonneg (fun s' m => add_to_balance s' GlobalMintAddress (fst m) (snd m)) l _ s s' Hn H).
  intros s0 m s2 Hin Hn0 Hs. eapply add_to_balance_nonneg; [exact Hn0|apply Hl; exact Hin|exact Hs].
Qed.
Lemma mint_list_nonneg' : forall m, In m mint_list -> 0 <= snd m.
Proof. intros m Hin. pose proof mint_list_nonneg as F. rewrite forallb_forall in F. specialize (F m Hin). apply Z.leb_le in F. exact F. Qed.
Lemma mint_tokens_nonneg s s' : nonneg s -> mint_tokens s = Ok s' -> nonneg s'.
Proof. unfold mint_tokens. generalize mint_list_nonneg'. generalize mint_list. intros l Hl Hn H. exact (mint_fold_nonneg l s s' Hl Hn H). Qed.

Lemma sub_ignoring_txerr_nonneg s a t v s' :
  nonneg s -> 0 <= v -> sub_ignoring_txerr s a t v = Ok s' -> nonneg s'.
Proof.
  intros Hn Hv H. unfold sub_ignoring_txerr in H.
  destruct (sub_from_balance s a t v) eqn:E; inversion H; subst; [|exact Hn].
  eapply sub_from_balance_nonneg; eauto.
Qed.

Lemma nullify_fold_nonneg (l : list (Z * Z)) cm s s' : nonneg cm -> nonneg s ->
  fold_left (fun r m => let? s' := r in sub_ignoring_txerr s' GlobalMintAddress (fst m) (get_bal (bal cm) GlobalMintAddress (fst m))) l (Ok s) = Ok s' ->
  nonneg s'.
Proof.
  intros Hc Hn H.
  refine (fold_res_inv nonneg (fun s' m => sub_ignoring_txerr s' GlobalMintAddress (fst m) (get_bal (bal cm) GlobalMintAddress (fst m))) l _ s s' Hn H).
  intros s0 m s2 Hn0 Hs. eapply sub_ignoring_txerr_nonneg; [exact Hn0|apply Hc|exact Hs].
Qed.
Lemma nullify_minted_nonneg cm s s' : nonneg cm -> nonneg s -> nullify_minted cm s = Ok s' -> nonneg s'.
Proof. unfold nullify_minted. generalize mint_list. intros l Hc Hn H. exact (nullify_fold_nonneg l cm s s' Hc Hn H). Qed.

Lemma nullify_burn_nonneg cm h ts s : nonneg cm -> nonneg s -> nonneg (nullify_burn c cm h ts s).
Proof.
  intros Hc Hn. unfold nullify_burn.
  set (step := fun (acc : Z * Z * (bool * db)) (t : Z) => _).
  generalize (0, (if c_V202EnhanceActivation c <=? h then 50 else 0)) as ij.
  generalize true as live. revert s Hn. generalize all_tickers as l.
  induction l as [|t l IH]; intros s Hn live ij; cbn [fold_left]; [exact Hn|].
  destruct ij as [i j]. unfold step at 2. destruct live; cbn [negb]; [|apply IH; exact Hn].
  set (a := if c_V202EnhanceActivation c <=? h then GlobalBurnAddress else GlobalOldBurnAddress).
  assert (Hn1 : nonneg (match sub_ignoring_txerr s a t (get_bal (bal cm) a t) with Ok s' => s' | _ => s end)).
  { destruct (sub_ignoring_txerr s a t (get_bal (bal cm) a t)) eqn:E; try exact Hn.
    eapply sub_ignoring_txerr_nonneg; [exact Hn|apply Hc|exact E]. }
  destruct (c_V202EnhanceActivation c <=? h); [apply IH; exact Hn1|].
  destruct (insert_hbatch _ _) as [s2|?|?] eqn:E2; try (apply IH; exact Hn1).
  assert (Hn2 : nonneg s2) by (unfold nonneg; erewrite bal_insert_hbatch; eauto).
  destruct (0 <? _); [apply IH; exact Hn2|].
  destruct (insert_htx s2 _ _) as [s3|?|?] eqn:E3; try (apply IH; exact Hn2).
  apply IH. unfold nonneg. erewrite bal_insert_htx; eauto.
Qed.

Lemma insert_stake_in x l y : In y (insert_stake x l) -> y = x \/ In y l.
Proof.
  induction l as [|z l IH]; cbn [insert_stake]; intros H.
  - destruct H as [<-|[]]. left; reflexivity.
  - destruct (stake_before x z).
    + destruct H as [<-|H]; [left; reflexivity|right; exact H].
    + destruct H as [<-|H]; [right; left; reflexivity|]. destruct (IH H) as [->|H']; [left; reflexivity|right; right; exact H'].
Qed.
Lemma sort_stakes_in l y : In y (sort_stakes l) -> In y l.
Proof.
  induction l as [|x l IH]; cbn [sort_stakes fold_right]; intros H; [exact H|].
  apply insert_stake_in in H as [->|H]; [left; reflexivity|right; apply IH; exact H].
Qed.
Lemma index_from_in {A} (l : list A) : forall i p, In p (index_from i l) -> In (snd p) l.
Proof.
  induction l as [|x l IH]; intros i p H; cbn [index_from] in H; [exact H|].
  destruct H as [<-|H]; [left; reflexivity|right; eapply IH; exact H].
Qed.

Lemma snapshot_payouts_nonneg h ts rates s s' :
  nonneg s -> snapshot_payouts c h ts rates s = Ok s' -> nonneg s'.
Proof.
  intros Hn H. unfold snapshot_payouts in H. cbv zeta in H.
  destruct (existsb _ _); [discriminate|]. destruct (existsb _ _); [discriminate|].
  match type of H with match ?l with [] => _ | _ => _ end = _ => remember l as lst eqn:El end.
  assert (Hpos : forall x, In x lst -> 0 <= snd x).
  { intros x Hx. rewrite El in Hx. apply sort_stakes_in in Hx. apply filter_In in Hx as [_ Hx]. lia. }
  clear El. destruct lst as [|x0 lst0] eqn:E0; [inversion H; subst; exact Hn|]. rewrite <- E0 in *. clear E0.
  apply rbind_ok in H as (s2 & H1 & H). apply rbind_ok in H as (s3 & H2 & H3).
  assert (Hn2 : nonneg s2) by (unfold nonneg; rewrite (bal_insert_hbatch _ _ _ H1); exact Hn).
  assert (Hn3 : nonneg s3).
  { refine (fold_res_inv nonneg _ _ _ s2 s3 Hn2 H2).
    intros s0 p s4 Hn0 Hs. destruct (two63 <=? snd p); [discriminate|].
    unfold nonneg. erewrite bal_insert_htx; [exact Hn0|exact Hs]. }
  refine (fold_res_inv_in nonneg _ _ _ s3 s' Hn3 H3).
  intros s0 p s4 Hin Hn0 Hs. eapply add_to_balance_nonneg; [exact Hn0| |exact Hs].
  match type of Hin with In p (payouts ?b ?rs) => assert (F : Forall (fun r : txid * Z => 0 <= snd r) (payouts b rs)) end.
  { apply payouts_nonneg. apply Forall_forall. intros r Hr. apply in_map_iff in Hr as (y & <- & Hy). cbn [snd].
    apply Hpos. eapply index_from_in. exact Hy. }
  rewrite Forall_forall in F. apply F; exact Hin.
Qed.

Lemma developers_payouts_nonneg h ts s s' :
  nonneg s -> fst (developers_payouts c h ts s) = Ok s' -> nonneg s'.
Proof.
  unfold developers_payouts. cbv zeta.
  pose proof dev_rewards_nonneg as T. rewrite forallb_forall in T. revert T.
  generalize dev_rewards as l. intros l T Hn.
  set (step := fun (acc : Z * Z * (res db * db)) (d : Z * Z * Z * Z) => _).
  assert (G : forall l0 ij r reached, (forall d, In d l0 -> In d l) ->
             (forall s0, r = Ok s0 -> nonneg s0) ->
             forall s1, fst (snd (fold_left step l0 (ij, (r, reached)))) = Ok s1 -> nonneg s1).
  { induction l0 as [|d l0 IH]; intros [i j] r reached Hsub Hr s1 H; cbn [fold_left snd fst] in H.
    - apply Hr; exact H.
    - assert (Hd : In d l) by (apply Hsub; left; reflexivity).
      assert (Hsub' : forall d0, In d0 l0 -> In d0 l) by (intros; apply Hsub; right; assumption).
      unfold step at 2 in H. destruct r as [s0|e|e].
      + destruct d as [[[a bits] pre] post]. specialize (T _ Hd). cbv beta iota in T.
        apply andb_prop in T as [T1 T2]. apply Z.leb_le in T1, T2.
        assert (Hrew : 0 <= (if c_V202EnhanceActivation c <=? h then post else pre)) by (destruct (_ <=? h); assumption).
        destruct (add_to_balance s0 a PTickerPEG _) as [s2|e|e] eqn:Ea;
          try (eapply IH; [exact Hsub'| |exact H]; intros ? HH; discriminate).
        assert (Hn2 : nonneg s2) by (eapply add_to_balance_nonneg; [apply Hr; reflexivity|exact Hrew|exact Ea]).
        destruct (insert_hbatch s2 _) as [s3|e|e] eqn:Eb;
          try (eapply IH; [exact Hsub'| |exact H]; intros ? HH; discriminate).
        assert (Hn3 : nonneg s3) by (unfold nonneg; erewrite bal_insert_hbatch; [exact Hn2|exact Eb]).
        destruct (insert_htx s3 _ _) as [s4|e|e] eqn:Ec;
          try (eapply IH; [exact Hsub'| |exact H]; intros ? HH; discriminate).
        eapply IH; [exact Hsub'| |exact H]. intros s5 HH; inversion HH; subst.
        unfold nonneg. erewrite bal_insert_htx; [exact Hn3|exact Ec].
      + eapply IH; [exact Hsub'| |exact H]. intros ? HH; discriminate.
      + eapply IH; [exact Hsub'| |exact H]. intros ? HH; discriminate. }
  intros H. eapply (G l (0, 1) (Ok s) s); [auto| |exact H]. intros s0 HH; inversion HH; subst; exact Hn.
Qed.

Ltac done_step H x Hx := apply obind_done in H as (x & Hx & H).

Lemma sync_block_nonneg cm mem b s s' mem' :
  nonneg cm -> nonneg s -> sync_block c cm mem b s = Done (s', mem') -> nonneg s'.
Proof.
  intros Hc Hn H. unfold sync_block in H. cbv zeta in H.
  done_step H s1 H1. apply of_res_done in H1.
  assert (Hn1 : nonneg s1).
  { destruct (_ =? c_V204EnhanceActivation c); [exact (mint_tokens_nonneg _ _ Hn H1)|inversion H1; subst; exact Hn]. }
  clear H1 Hn s. done_step H s2 H2. apply of_res_done in H2.
  assert (Hn2 : nonneg s2).
  { destruct (_ =? c_V204BurnMintedTokenActivation c); [exact (nullify_minted_nonneg _ _ _ Hc Hn1 H2)|inversion H2; subst; exact Hn1]. }
  clear H2 Hn1 s1. done_step H graded Hg. done_step H gradedS HgS.
  done_step H st Hst. destruct st as [[s3 is_rates] ended].
  assert (Hn3 : nonneg s3).
  { destruct (_ <? c_V20HeightActivation c).
    - destruct graded as [v|]; [|inversion Hst; subst; exact Hn2].
      done_step Hst s4 H4. apply of_res_done in H4.
      assert (Hn4 : nonneg s4) by (unfold nonneg; rewrite (bal_insert_grade _ _ _ _ H4); exact Hn2).
      destruct (v_winners v); [inversion Hst; subst; exact Hn4|].
      done_step Hst s5 H5. apply of_res_done in H5. inversion Hst; subst.
      unfold nonneg. rewrite (bal_insert_rates _ _ _ _ _ _ H5); exact Hn4.
    - destruct (grade_spr_err c cm b); [discriminate|].
      done_step Hst s4 H4.
      assert (Hn4 : nonneg s4).
      { destruct graded as [v|]; [apply of_res_done in H4; unfold nonneg; rewrite (bal_insert_grade _ _ _ _ H4); exact Hn2|inversion H4; subst; exact Hn2]. }
      destruct (first_assets graded) as [|o0 o]; destruct (first_assets gradedS) as [|p0 p];
        try (inversion Hst; subst; exact Hn4);
        (destruct (select_rates c _ _ _); [|inversion Hst; subst; exact Hn4];
         done_step Hst s5 H5; apply of_res_done in H5; inversion Hst; subst;
         unfold nonneg; rewrite (bal_insert_rates _ _ _ _ _ _ H5); exact Hn4). }
  clear Hst Hn2 s2. destruct ended; [inversion H; subst; exact Hn3|].
  done_step H st2 Hst2. destruct st2 as [s4 mem4].
  assert (Hn4 : nonneg s4).
  { destruct (c_TransactionConversionActivation c <=? _); [|inversion Hst2; subst; exact Hn3].
    done_step Hst2 st Hs. destruct st as [s5 rates1].
    assert (Hn5 : nonneg s5).
    { destruct ((c_V20HeightActivation c <=? _) && _); [|inversion Hs; subst; exact Hn3].
      done_step Hs s6 H6. apply of_res_done in H6. inversion Hs; subst. exact (snapshot_payouts_nonneg _ _ _ _ _ Hn3 H6). }
    done_step Hst2 st Hs2. destruct st as [s6 mem6].
    assert (Hn6 : nonneg s6).
    { destruct is_rates; [|inversion Hs2; subst; exact Hn5].
      done_step Hs2 s7 H7. apply of_res_done in H7.
      assert (Hn7 : nonneg s7).
      { destruct ((c_V4OPRUpdate c <=? _) && _); [unfold nonneg; rewrite (bal_insert_bank _ _ _ _ H7); exact Hn5|inversion H7; subst; exact Hn5]. }
      destruct (get_averages cm _ mem _) as [avgs mem'']. done_step Hs2 s8 H8. apply of_res_done in H8.
      inversion Hs2; subst. exact (apply_holding_nonneg _ _ _ _ _ _ _ Hn7 H8). }
    done_step Hst2 s7 H7. inversion Hst2; subst.
    destruct (b_tx b); [apply of_res_done in H7; exact (apply_tx_block_nonneg _ _ _ _ _ Hn6 H7)|inversion H7; subst; exact Hn6]. }
  clear Hst2 Hn3 s3. done_step H s5 H5.
  assert (Hn5 : nonneg s5).
  { destruct (_ <? c_V20HeightActivation c); [apply of_res_done in H5; exact (apply_factoid_block_nonneg _ _ _ _ Hn4 H5)|inversion H5; subst; exact Hn4]. }
  done_step H s6 H6.
  assert (Hn6 : nonneg s6).
  { destruct graded; [apply of_res_done in H6; exact (pay_winners_nonneg _ _ _ _ Hn5 H6)|inversion H6; subst; exact Hn5]. }
  done_step H s7 H7.
  assert (Hn7 : nonneg s7).
  { destruct (c_V20HeightActivation c <=? _); [|inversion H7; subst; exact Hn6].
    destruct gradedS; [apply of_res_done in H7; exact (pay_winners_nonneg _ _ _ _ Hn6 H7)|inversion H7; subst; exact Hn6]. }
  done_step H s8 H8. inversion H; subst.
  destruct ((c_V20DevRewardsHeightActivation c <=? _) && _); [apply of_res_done in H8; exact (developers_payouts_nonneg _ _ _ _ Hn7 H8)|inversion H8; subst; exact Hn7].
Qed.

Lemma bal_insert_synced s h s' : insert_synced s h = Ok s' -> bal s' = bal s.
Proof. unfold insert_synced. destruct (versions s !! h); [discriminate|]. intros H; inversion H; reflexivity. Qed.

(* C03, first half: no block ever makes a balance negative *)
Theorem step_block_nonneg cm mem b s' mem' :
  nonneg cm -> step_block c cm mem b = Done (s', mem') -> nonneg s'.
Proof.
  intros Hc H. unfold step_block in H. cbv zeta in H.
  done_step H r Hr. destruct r as [s1 mem1]. done_step H s2 H2. apply of_res_done in H2. inversion H; subst.
  unfold nonneg. erewrite bal_insert_synced; [|exact H2].
  eapply sync_block_nonneg; [exact Hc| |exact Hr].
  destruct (_ =? c_V202EnhanceActivation c); destruct (_ =? c_V20DevRewardsHeightActivation c);
    repeat apply nullify_burn_nonneg; assumption.
Qed.
End WithCfg.
