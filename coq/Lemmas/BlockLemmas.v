(* Lemmas/BlockLemmas.v — block-level invariants of Model/Block.v: balances never negative
   across SyncBlock and the loop body. *)
From Model Require Import Block.
From Lemmas Require Import ArithLemmas DbLemmas LedgerLemmas.
From Gen Require Import Consts.
From Coq Require Import Lia ZifyBool.
Open Scope Z_scope.

Lemma obind_done {A B} (r : outcome A) (f : A -> outcome B) b :
  obind r f = Done b -> exists a, r = Done a /\ f a = Done b.
Proof. destruct r; cbn; intros H; try discriminate. eauto. Qed.
Lemma of_res_done {A} (r : res A) a : of_res r = Done a -> r = Ok a.
Proof. destruct r; cbn; intros H; inversion H; reflexivity. Qed.

(* facts about the generated tables, by computation over the whole table *)
Lemma dev_rewards_nonneg : forallb (fun d => let '(_, _, pre, post) := d in (0 <=? pre) && (0 <=? post)) dev_rewards = true.
Proof. vm_compute. reflexivity. Qed.
Lemma mint_list_nonneg : forallb (fun m => 0 <=? snd m) mint_list = true.
Proof. vm_compute. reflexivity. Qed.

Lemma bal_insert_grade h s v s' : insert_grade h s v = Ok s' -> bal s' = bal s.
Proof.
  unfold insert_grade. destruct (grades s !! h); [discriminate|].
  destruct (existsb _ _); [discriminate|]. intros H; inversion H; reflexivity.
Qed.
Lemma bal_insert_rates cm h s a ph s' : insert_rates cm h s a ph = Ok s' -> bal s' = bal s.
Proof.
  unfold insert_rates. destruct (rates s !! h); [discriminate|].
  destruct (has_dup _); [discriminate|]. destruct (existsb _ _); [discriminate|].
  match goal with |- (if ?b then _ else _) = _ -> _ => destruct b; [discriminate|] end.
  intros H; inversion H; reflexivity.
Qed.

Section WithCfg.
Variable c : cfg.

Lemma mint_fold_nonneg (l : list (Z * Z)) s s' :
  (forall m, In m l -> 0 <= snd m) -> nonneg s ->
  fold_left (fun r m => let? s' := r in add_to_balance s' GlobalMintAddress (fst m) (snd m)) l (Ok s) = Ok s' ->
  nonneg s'.
Proof.
  intros Hl Hn H.
  refine (fold_res_inv_in nonneg (fun s' m => add_to_balance s' GlobalMintAddress (fst m) (snd m)) l _ s s' Hn H).
  intros s0 m s2 Hin Hn0 Hs. eapply add_to_balance_nonneg; [exact Hn0|apply Hl; exact Hin|exact Hs].
Qed.
Lemma mint_list_nonneg' : forall m, In m mint_list -> 0 <= snd m.
Proof. intros m Hin. pose proof mint_list_nonneg as F. rewrite forallb_forall in F. specialize (F m Hin). apply Z.leb_le in F. exact F. Qed.
Lemma mint_tokens_nonneg s s' : nonneg s -> mint_tokens s = Ok s' -> nonneg s'.
Proof. unfold mint_tokens. generalize mint_list_nonneg'. generalize mint_list. intros l Hl Hn H. exact (mint_fold_nonneg l s s' Hl Hn H). Qed.

Lemma sub_ignoring_txerr_nonneg s a t v s' :
  nonneg s -> 0 <= v -> sub_ignoring_txerr s a t v = Ok s' -> nonneg s'.
Proof.
  intros Hn Hv H. unfold sub_ignoring_txerr in H.
  destruct (sub_from_balance s a t v) eqn:E; inversion H; subst; [|exact Hn].
  eapply sub_from_balance_nonneg; eauto.
Qed.

Lemma nullify_fold_nonneg (l : list (Z * Z)) cm s s' : nonneg cm -> nonneg s ->
  fold_left (fun r m => let? s' := r in sub_ignoring_txerr s' GlobalMintAddress (fst m) (get_bal (bal cm) GlobalMintAddress (fst m))) l (Ok s) = Ok s' ->
  nonneg s'.
Proof.
  intros Hc Hn H.
  refine (fold_res_inv nonneg (fun s' m => sub_ignoring_txerr s' GlobalMintAddress (fst m) (get_bal (bal cm) GlobalMintAddress (fst m))) l _ s s' Hn H).
  intros s0 m s2 Hn0 Hs. eapply sub_ignoring_txerr_nonneg; [exact Hn0|apply Hc|exact Hs].
Qed.
Lemma nullify_minted_nonneg cm s s' : nonneg cm -> nonneg s -> nullify_minted cm s = Ok s' -> nonneg s'.
Proof. unfold nullify_minted. generalize mint_list. intros l Hc Hn H. exact (nullify_fold_nonneg l cm s s' Hc Hn H). Qed.

Lemma nullify_burn_nonneg cm h ts s : nonneg cm -> nonneg s -> nonneg (nullify_burn c cm h ts s).
Proof.
  intros Hc Hn. unfold nullify_burn.
  set (step := fun (acc : Z * Z * (bool * db)) (t : Z) => _).
  generalize (0, (if c_V202EnhanceActivation c <=? h then 50 else 0)) as ij.
  generalize true as live. revert s Hn. generalize all_tickers as l.
  induction l as [|t l IH]; intros s Hn live ij; cbn [fold_left]; [exact Hn|].
  destruct ij as [i j]. unfold step at 2. destruct live; cbn [negb]; [|apply IH; exact Hn].
  set (a := if c_V202EnhanceActivation c <=? h then GlobalBurnAddress else GlobalOldBurnAddress).
  assert (Hn1 : nonneg (match sub_ignoring_txerr s a t (get_bal (bal cm) a t) with Ok s' => s' | _ => s end)).
  { destruct (sub_ignoring_txerr s a t (get_bal (bal cm) a t)) eqn:E; try exact Hn.
    eapply sub_ignoring_txerr_nonneg; [exact Hn|apply Hc|exact E]. }
  destruct (c_V202EnhanceActivation c <=? h); [apply IH; exact Hn1|].
  destruct (insert_hbatch _ _) as [s2|?|?] eqn:E2; try (apply IH; exact Hn1).
  assert (Hn2 : nonneg s2) by (unfold nonneg; erewrite bal_insert_hbatch; eauto).
  destruct (0 <? _); [apply IH; exact Hn2|].
  destruct (insert_htx s2 _ _) as [s3|?|?] eqn:E3; try (apply IH; exact Hn2).
  apply IH. unfold nonneg. erewrite bal_insert_htx; eauto.
Qed.
End WithCfg.
