(* Lemmas/DbLemmas.v — facts about the storage layer model (Model/Db.v). *)
From Model Require Import Db.
From Coq Require Import Lia.
Open Scope Z_scope.

Lemma rbind_ok {A B} (r : res A) (f : A -> res B) b :
  rbind r f = Ok b -> exists a, r = Ok a /\ f a = Ok b.
Proof. destruct r; cbn; intros H; try discriminate. eauto. Qed.

(* folds in the error monad preserve an invariant that every successful step preserves *)
Lemma fold_res_inv {S X} (P : S -> Prop) (f : S -> X -> res S) (l : list X) :
  (forall s x s', P s -> f s x = Ok s' -> P s') ->
  forall s0 s', P s0 ->
  fold_left (fun r x => let? s := r in f s x) l (Ok s0) = Ok s' -> P s'.
Proof.
  intros Hstep. induction l as [|x l IH]; cbn [fold_left]; intros s0 s' H0 HF.
  - inversion HF; subst; exact H0.
  - cbn [rbind] in HF. destruct (f s0 x) as [s1|c|c] eqn:E.
    + eapply IH; [|exact HF]. eapply Hstep; eauto.
    + exfalso. clear -HF. induction l as [|y l IH]; cbn in HF; [discriminate|auto].
    + exfalso. clear -HF. induction l as [|y l IH]; cbn in HF; [discriminate|auto].
Qed.

Lemma fold_res_fail {S X} (f : S -> X -> res S) (l : list X) c s' :
  fold_left (fun r x => let? s := r in f s x) l (Fail c) = Ok s' -> False.
Proof. induction l as [|y l IH]; cbn; [discriminate|auto]. Qed.
Lemma fold_res_panic {S X} (f : S -> X -> res S) (l : list X) c s' :
  fold_left (fun r x => let? s := r in f s x) l (Panic c) = Ok s' -> False.
Proof. induction l as [|y l IH]; cbn; [discriminate|auto]. Qed.

(* ---- balances --------------------------------------------------------------------- *)
Definition nonneg_map (m : gmap (addr * ticker) Z) : Prop := forall a t, 0 <= get_bal m a t.
Definition nonneg (s : db) : Prop := nonneg_map (bal s).

Lemma get_bal_insert m a t v a' t' :
  get_bal (<[(a, t) := v]> m) a' t' = if decide ((a, t) = (a', t')) then v else get_bal m a' t'.
Proof.
  unfold get_bal. destruct (decide ((a, t) = (a', t'))) as [->|N].
  - rewrite lookup_insert. reflexivity.
  - rewrite lookup_insert_ne by exact N. reflexivity.
Qed.

Lemma nonneg_insert m a t v : nonneg_map m -> 0 <= v -> nonneg_map (<[(a, t) := v]> m).
Proof. intros H Hv a' t'. rewrite get_bal_insert. destruct (decide _); auto. Qed.

Lemma nonneg_empty : nonneg_map ∅.
Proof. intros a t. unfold get_bal. rewrite lookup_empty. cbn. lia. Qed.

Lemma add_to_balance_ok s a t v s' :
  add_to_balance s a t v = Ok s' ->
  valid_ticker t = true /\ v < two63 /\ s' = set_bal s (<[(a, t) := get_bal (bal s) a t + v]> (bal s)).
Proof.
  unfold add_to_balance. destruct (valid_ticker t); cbn [negb]; [|discriminate].
  destruct (Z.leb_spec two63 v) as [Hx|Hx]; [discriminate|].
  destruct (max_int64 <? _); [discriminate|]. intros HH; inversion HH; subst. auto.
Qed.

Lemma add_to_balance_nonneg s a t v s' :
  nonneg s -> 0 <= v -> add_to_balance s a t v = Ok s' -> nonneg s'.
Proof.
  intros Hn Hv H. apply add_to_balance_ok in H as (_ & _ & ->). unfold nonneg; cbn.
  apply nonneg_insert; [exact Hn|]. specialize (Hn a t). lia.
Qed.

Lemma sub_from_balance_ok s a t v s' :
  sub_from_balance s a t v = SubOk s' ->
  valid_ticker t = true /\ (v = 0 \/ 0 < v <= get_bal (bal s) a t \/ v < 0) /\ v < two63 /\
  s' = set_bal s (<[(a, t) := get_bal (bal s) a t - v]> (bal s)).
Proof.
  unfold sub_from_balance. destruct (Z.eqb_spec v 0) as [->|Hv].
  - destruct (add_to_balance s a t 0) eqn:E; try discriminate. intros H; inversion H; subst.
    apply add_to_balance_ok in E as (Ht & _ & ->). rewrite Z.add_0_r, Z.sub_0_r.
    repeat split; auto.
  - destruct (valid_ticker t); cbn [negb]; [|discriminate].
    destruct (Z.ltb_spec (get_bal (bal s) a t) v) as [Hy|Hy]; [discriminate|].
    destruct (Z.leb_spec two63 v) as [Hx|Hx]; [discriminate|]. intros H'; inversion H'; subst.
    repeat split; auto. lia.
Qed.

Lemma sub_from_balance_nonneg s a t v s' :
  nonneg s -> 0 <= v -> sub_from_balance s a t v = SubOk s' -> nonneg s'.
Proof.
  intros Hn Hv H. apply sub_from_balance_ok in H as (_ & Hr & _ & ->). unfold nonneg; cbn.
  apply nonneg_insert; [exact Hn|]. specialize (Hn a t). lia.
Qed.

(* setters that do not touch the balances *)
Lemma bal_set_executed s hs code : bal (set_executed s hs code) = bal s.  Proof. reflexivity. Qed.
Lemma bal_insert_relation s a hs i t cv : bal (insert_relation s a hs i t cv) = bal s.
Proof. unfold insert_relation. destruct (existsb _ _); reflexivity. Qed.
Lemma bal_set_to_amount s hs i amt : bal (set_to_amount s hs i amt) = bal s.  Proof. reflexivity. Qed.
Lemma bal_set_peg_request_amounts s hs i amt o : bal (set_peg_request_amounts s hs i amt o) = bal s.
Proof. reflexivity. Qed.
Lemma bal_insert_hbatch s r s' : insert_hbatch s r = Ok s' -> bal s' = bal s.
Proof. unfold insert_hbatch. destruct (hist_has_at _ _ _); [discriminate|]. intros H; inversion H; reflexivity. Qed.
Lemma bal_insert_htx s r lk s' : insert_htx s r lk = Ok s' -> bal s' = bal s.
Proof. unfold insert_htx. destruct (htx_has _ _ _); [discriminate|]. intros H; inversion H; reflexivity. Qed.
Lemma bal_insert_holding s e h s' : insert_holding s e h = Ok s' -> bal s' = bal s.
Proof. unfold insert_holding. destruct (holding_has _ _); [discriminate|]. intros H; inversion H; reflexivity. Qed.
Lemma bal_insert_bank s h a s' : insert_bank s h a = Ok s' -> bal s' = bal s.
Proof. unfold insert_bank. destruct (bank s !! h); [discriminate|]. intros H; inversion H; reflexivity. Qed.
Lemma bal_update_bank s h u r s' : update_bank s h u r = Ok s' -> bal s' = bal s.
Proof. unfold update_bank. destruct (bank s !! h) as [[[? ?] ?]|]; [|discriminate]. intros H; inversion H; reflexivity. Qed.

Lemma fold_res_inv_in {S X} (P : S -> Prop) (f : S -> X -> res S) (l : list X) :
  (forall s x s', In x l -> P s -> f s x = Ok s' -> P s') ->
  forall s0 s', P s0 ->
  fold_left (fun r x => let? s := r in f s x) l (Ok s0) = Ok s' -> P s'.
Proof.
  induction l as [|x l IH]; cbn [fold_left]; intros Hstep s0 s' H0 HF.
  - inversion HF; subst; exact H0.
  - cbn [rbind] in HF. destruct (f s0 x) as [s1|c|c] eqn:E.
    + eapply IH; [|eapply Hstep; [left; reflexivity|exact H0|exact E]|exact HF].
      intros; eapply Hstep; eauto. right; assumption.
    + exfalso. eapply fold_res_fail; exact HF.
    + exfalso. eapply fold_res_panic; exact HF.
Qed.

Lemma wrap64_nonneg x : 0 <= wrap64 x.
Proof. unfold wrap64, two64. apply Z.mod_pos_bound. lia. Qed.
Lemma wrap64_lt x : wrap64 x < two64.
Proof. unfold wrap64, two64. apply Z.mod_pos_bound. lia. Qed.
