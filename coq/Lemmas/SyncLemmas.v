(* Lemmas/SyncLemmas.v — C02 / C09 / C10 / C18 at the level of the sync loop: whatever faults,
   crashes, restarts and API requests happen, the committed database is always the replay of a
   prefix of the chain — nothing of a later block, nothing missing from an earlier one. *)
From Model Require Import Sync.
From Lemmas Require Import DbLemmas BlockLemmas ChainLemmas RestartLemmas.
From Coq Require Import Lia.
Open Scope Z_scope.

Section Loop.
Variable c : cfg.

Lemma cache_ok_mono cm mem h1 h2 : h1 <= h2 -> cache_ok c cm mem h1 -> cache_ok c cm mem h2.
Proof. intros Hle [Ha Hh]. split; [exact Ha|lia]. Qed.

Lemma cache_from_ok cm mem' hn : 0 < hn -> cache_from c cm mem' hn -> cache_ok c cm mem' hn.
Proof.
  intros Hpos [->|(hq & Hq & ->)]; [apply empty_cache_ok; exact Hpos|].
  split; cbn [ac_avgs ac_height]; [reflexivity|exact Hq].
Qed.

Lemma heights_from_app : forall a b h, heights_from h (a ++ b) ->
  heights_from h a /\ exists h', h <= h' /\ heights_from h' b /\ (forall x, In x a -> b_height x < h').
Proof.
  induction a as [|x a IH]; intros b h H; cbn [app heights_from] in *.
  - split; [exact I|]. exists h. split; [lia|]. split; [exact H|intros ? []].
  - destruct H as [Hle Hr]. destruct (IH b _ Hr) as (Ha & h' & Hh' & Hb & Hall).
    split; [split; assumption|]. exists h'. split; [lia|]. split; [exact Hb|].
    intros y [<-|Hy]; [lia|apply Hall; exact Hy].
Qed.
Lemma heights_from_weaken : forall bs h1 h2, h1 <= h2 -> heights_from h2 bs -> heights_from h1 bs.
Proof. destruct bs as [|b bs]; intros h1 h2 Hle H; cbn in *; [exact I|]. destruct H; split; [lia|assumption]. Qed.

Lemma replay_app : forall bs1 bs2 cm mem,
  replay c cm mem (bs1 ++ bs2) =
  match replay c cm mem bs1 with Done (s, m) => replay c s m bs2 | Stuck e => Stuck e | Crashed e => Crashed e | OracleMiss w => OracleMiss w end.
Proof.
  induction bs1 as [|b bs1 IH]; intros bs2 cm mem; cbn [app replay]; [reflexivity|].
  destruct (step_block c cm mem b) as [[s1 m1]| | |]; [apply IH|reflexivity..].
Qed.

(* an uninterrupted replay keeps its cache sound *)
Lemma replay_cache_ok : forall bs cm mem h0 s m,
  0 < h0 -> cache_ok c cm mem h0 -> heights_from h0 bs -> replay c cm mem bs = Done (s, m) ->
  exists h1, h0 <= h1 /\ cache_ok c s m h1 /\ (forall b, In b bs -> b_height b < h1) /\ (bs = [] -> h1 = h0).
Proof.
  induction bs as [|b bs IH]; intros cm mem h0 s m H0 C0 Hh HR; cbn [replay] in HR.
  - inversion HR; subst. exists h0. split; [lia|]. split; [exact C0|]. split; [intros ? []|reflexivity].
  - destruct Hh as [Hle Hrest]. destruct (step_block c cm mem b) as [[s2 m2]| | |] eqn:E; try discriminate.
    assert (C2 : cache_ok c s2 m2 (b_height b + 1)) by (eapply step_block_cache_ok; [exact C0|exact Hle|lia|exact E]).
    destruct (IH s2 m2 (b_height b + 1) s m ltac:(lia) C2 Hrest HR) as (h1 & Hh1 & C1 & Hall & _).
    exists h1. split; [lia|]. split; [exact C1|]. split; [|discriminate].
    intros b2 [<-|Hin]; [lia|apply Hall; exact Hin].
Qed.

(* [applied bs s]: s is reached from the empty ledger by committing the blocks of bs, each attempt
   starting from SOME sound cache (whatever faults, restarts and API requests left in memory) *)
Inductive applied : list block -> db -> Prop :=
| ap_nil : applied [] genesis
| ap_snoc bs cm b mem s' mem' :
    applied bs cm -> cache_ok c cm mem (b_height b) -> step_block c cm mem b = Done (s', mem') ->
    applied (bs ++ [b]) s'.

(* ... and that is exactly the uninterrupted replay *)
Lemma applied_is_replay : forall bs s h0, 0 < h0 -> heights_from h0 bs -> applied bs s ->
  exists m, replay c genesis empty_cache bs = Done (s, m).
Proof.
  intros bs s h0 H0 Hh A. revert Hh. induction A as [|bs cm b mem s' mem' A IH Cm Hs]; intros Hh.
  - exists empty_cache. reflexivity.
  - destruct (heights_from_app _ _ _ Hh) as (Hbs & h' & Hh' & Hb & Hall).
    destruct (IH Hbs) as (m0 & HR). rewrite replay_app, HR. cbn [replay].
    destruct (replay_cache_ok bs genesis empty_cache h0 cm m0 H0 (empty_cache_ok c genesis h0 H0) Hbs HR) as (h1 & Hh1 & C1 & Hall1 & Hnil).
    cbn [heights_from] in Hb. destruct Hb as [Hb _].
    assert (C1' : cache_ok c cm m0 (b_height b)).
    { destruct C1 as [Ca Ch]. split; [exact Ca|].
      destruct bs as [|b0 bs0]; [rewrite (Hnil eq_refl) in Ch; lia|].
      (* the cache of an uninterrupted replay points below the last applied height + 1 *)
      clear -HR H0 Hbs Hall Hb Hh'. 
      assert (G : forall bs1 cm1 mem1 hh s1 m1, 0 < hh -> cache_ok c cm1 mem1 hh -> heights_from hh bs1 ->
                   replay c cm1 mem1 bs1 = Done (s1, m1) -> forall top, hh <= top -> (forall x, In x bs1 -> b_height x < top) -> ac_height m1 < top).
      { induction bs1 as [|x bs1 IH1]; intros cm1 mem1 hh s1 m1 Hp C Hf R top Ht Hall'; cbn [replay] in R.
        - inversion R; subst. destruct C; lia.
        - destruct Hf as [Hle Hrest]. destruct (step_block c cm1 mem1 x) as [[s2 m2]| | |] eqn:E; try discriminate.
          eapply (IH1 s2 m2 (b_height x + 1)); [lia|eapply step_block_cache_ok; [exact C|exact Hle|lia|exact E]|exact Hrest|exact R| |].
          + specialize (Hall' x (or_introl eq_refl)). lia.
          + intros y Hy. apply Hall'. right; exact Hy. }
      eapply (G _ _ _ h0 _ _ H0 (empty_cache_ok c genesis h0 H0) Hbs HR (b_height b)); [lia|].
      intros x Hx. specialize (Hall x Hx). lia. }
    pose proof (step_block_mem_irrelevant c cm m0 mem (b_height b) b C1' Cm) as E.
    rewrite Hs in E. destruct (step_block c cm m0 b) as [[s2 m2]| | |]; cbn [odb fst] in E; try discriminate.
    inversion E; subst. exists m2. reflexivity.
Qed.

(* the loop invariant *)
Definition inv (chain : list block) (x : node * list block) : Prop :=
  exists done_, chain = done_ ++ snd x /\ applied done_ (n_db (fst x)) /\
    match snd x with
    | [] => True
    | b :: _ => cache_ok c (n_db (fst x)) (n_mem (fst x)) (b_height b)
    end.

Lemma trans_inv chain h0 x y : 0 < h0 -> heights_from h0 chain -> inv chain x -> trans c x y -> inv chain y.
Proof.
  intros H0 Hh (dn & Hc & A & Hok) T.
  destruct T as [n b rest s' mem' Hs|n b rest mem' Hm|n todo|n b rest mem' Hm]; cbn [fst snd n_db n_mem] in *.
  - (* commit *)
    exists (dn ++ [b]). cbn [fst snd n_db n_mem]. split; [rewrite <- app_assoc; exact Hc|]. split; [econstructor; eauto|].
    destruct rest as [|b2 rest2]; [exact I|].
    rewrite Hc in Hh. destruct (heights_from_app _ _ _ Hh) as (_ & h' & Hh' & Hb & _).
    cbn [heights_from] in Hb. destruct Hb as (Hb1 & Hb2 & _). assert (0 < b_height b) by lia.
    apply (cache_ok_mono _ _ (b_height b + 1)); [lia|].
    apply (step_block_cache_ok c (n_db n) (n_mem n) (b_height b) b s' mem' Hok); [lia|lia|exact Hs].
  - (* rollback *)
    exists dn. cbn [fst snd n_db n_mem]. split; [exact Hc|]. split; [exact A|].
    destruct Hm as [->|Hm]; [exact Hok|]. apply cache_from_ok; [|exact Hm].
    rewrite Hc in Hh. destruct (heights_from_app _ _ _ Hh) as (_ & h' & Hh' & Hb & _). cbn in Hb. lia.
  - (* crash and restart *)
    exists dn. cbn [fst snd n_db n_mem]. split; [exact Hc|]. split; [exact A|].
    destruct todo as [|b rest]; [exact I|]. apply empty_cache_ok.
    rewrite Hc in Hh. destruct (heights_from_app _ _ _ Hh) as (_ & h' & Hh' & Hb & _). cbn in Hb. lia.
  - (* API request *)
    exists dn. cbn [fst snd n_db n_mem]. split; [exact Hc|]. split; [exact A|].
    apply cache_from_ok; [|exact Hm].
    rewrite Hc in Hh. destruct (heights_from_app _ _ _ Hh) as (_ & h' & Hh' & Hb & _). cbn in Hb. lia.
Qed.

(* C02 + C09 + C10 + C18: whatever happens between commits, the committed database is the
   uninterrupted replay of the applied prefix of the chain; the rest of the chain is still to do *)
Theorem loop_consistent chain h0 n todo :
  0 < h0 -> heights_from h0 chain ->
  reach c ({| n_db := genesis; n_mem := empty_cache |}, chain) (n, todo) ->
  exists done_ m, chain = done_ ++ todo /\ replay c genesis empty_cache done_ = Done (n_db n, m).
Proof.
  intros H0 Hh R.
  assert (I : inv chain (n, todo)).
  { remember ({| n_db := genesis; n_mem := empty_cache |}, chain) as x0 eqn:E0.
    induction R as [x|x y z R IH T].
    - subst x. exists []. cbn [fst snd n_db n_mem app]. split; [reflexivity|]. split; [constructor|].
      destruct chain as [|b rest]; [exact I|]. apply empty_cache_ok. cbn in Hh. lia.
    - eapply trans_inv; [exact H0|exact Hh|apply IH; exact E0|exact T]. }
  destruct I as (dn & Hc & A & _). cbn [fst snd] in *.
  assert (Hd : heights_from h0 dn) by (rewrite Hc in Hh; apply (heights_from_app _ _ _ Hh)).
  destruct (applied_is_replay dn (n_db n) h0 H0 Hd A) as (m & HR). exists dn, m. split; assumption.
Qed.
End Loop.
