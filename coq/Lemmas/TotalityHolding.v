(* Lemmas/TotalityHolding.v — C08 (sync liveness), totality half, L4: ApplyTransactionBatchesInHolding
   cannot fail, whatever the held batches are, with one exact exception: a held batch that contains a
   PEG request while the PEG bank exists (PegnetConversionLimitActivation <= height < V20HeightActivation).
   In particular it cannot fail from PegNet 2.0 on (apply_holding_total_outside_bank_era).

   Failure codes of the holding path and what becomes of them:
     E_NORATES         only with an empty rate map: apply_holding is only called on a rated block, whose
                       pn_rate rows always contain PEG (hypothesis [is_empty_map rates = false])
     E_CONVERT         first loop: the Convert error returns nil, the batch is left alone (BDropped);
                       second loop and recordBatch: same arguments as in the first loop, so it cannot
                       happen once the first loop let the batch through (check_txs_none_conv)
     E_UNCAUGHT        impossible: the uint64 simulation and recordBatch agree on the input address rows
                       (needs: the signer is not the burn address; no wrap, from the room hypothesis; and no
                       PEG request deferred to the bank — the simulation credits those, recordBatch does not:
                       that is the recorded finding about mixed bank-era batches)
     E_BADCOLUMN       needs the input ticker to be a ticker (the decoder's guarantee); the conversion
                       target of a conversion is a ticker by [is_conversion]
     E_SQLARG,
     E_OVERFLOW_CELL   excluded by the room hypothesis [bal_room s (holding_credit ... + n)]
     E_DUP_TXID        only through recordPegnetRequests with requests: not reached without a PEG request
     E_BANKROW         UpdateBankEntry on a missing row: sync_block inserts the row of a rated bank-era block
                       before it calls apply_holding (hypothesis [bank_row_ready]) *)
From Model Require Import Block.
From Lemmas Require Import ArithLemmas DbLemmas LedgerLemmas BlockLemmas FrameLemmas ChainLemmas TotalityLemmas.
From Gen Require Import Consts.
From Coq Require Import Lia ZifyBool.
Open Scope Z_scope.
Open Scope list_scope.

(* rates and averages are uint64 in the code *)
Definition rates_nonneg (r : gmap ticker Z) : Prop := forall t, 0 <= rate_of r t.
Definition rates_nonnegb (r : gmap ticker Z) : bool := forallb (fun kv => 0 <=? snd kv) (map_to_list r).
Lemma rates_nonnegb_spec r : rates_nonnegb r = true -> rates_nonneg r.
Proof.
  unfold rates_nonnegb, rates_nonneg, rate_of. intros H t. rewrite forallb_forall in H.
  destruct (r !! t) as [v|] eqn:E; cbn [from_option id]; [|lia].
  apply elem_of_map_to_list in E. apply elem_of_list_In in E. specialize (H _ E). cbn [snd] in H. lia.
Qed.

Lemma conv_of_nonneg c h rates avgs :
  rates_nonneg rates -> rates_nonneg avgs -> forall t out, conv_of c h rates avgs t = Some out -> 0 <= out.
Proof.
  intros Hr Ha t out H. unfold conv_of, convert_h in H. eapply convert_range; [| | | |exact H]; auto.
Qed.

(* hypotheses about the held batches, as named definitions *)
Definition in_bank_era (c : cfg) (cur : Z) : bool :=
  (c_PegnetConversionLimitActivation c <=? cur) && (cur <? c_V20HeightActivation c).
(* the decoder's / signature check's guarantees, and: no PEG request while the bank exists *)
Definition held_wf (c : cfg) (cur : Z) (e : entry) (hh : Z) : bool :=
  batch_wf (burn_addr c cur) (entry_valid_at c e hh) &&
  match entry_valid_at c e hh with Some txs => negb (in_bank_era c cur && has_peg_request txs) | None => true end.
Definition held_credit (c : cfg) (cur : Z) (rates avgs : gmap ticker Z) (e : entry) (hh : Z) : Z :=
  match entry_valid_at c e hh with Some txs => txs_credit c cur rates avgs txs | None => 0 end.
Definition held_list_credit c cur rates avgs (hh : Z) (es : list entry) : Z :=
  fold_right (fun e acc => held_credit c cur rates avgs e hh + acc) 0 es.
(* the held batches are read through the pool: the committed database [cm] *)
Definition holding_credit c (cm : db) cur rates avgs (hs : list Z) : Z :=
  fold_right (fun hh acc => held_list_credit c cur rates avgs hh (holding_at cm hh) + acc) 0 hs.
Definition holding_wf c (cm : db) cur (hs : list Z) : bool :=
  forallb (fun hh => forallb (fun e => held_wf c cur e hh) (holding_at cm hh)) hs.
Definition holding_window (s : db) (cur : Z) : list Z :=
  zrange (last_rated_below s cur) (Z.to_nat (cur - last_rated_below s cur)).
(* from V4 to 2.0 the bank row of the block is written before the held batches are applied *)
Definition bank_row_ready (c : cfg) (cur : Z) (s : db) : Prop :=
  ((c_V4OPRUpdate c <=? cur) && (cur <? c_V20HeightActivation c)) = true -> bank s !! cur <> None.

(* the heights at which no PEG request is deferred to the bank: from 2.0 on (PEG conversions are refused),
   and before the conversion limit (they are ordinary conversions) *)
Definition outside_bank_era (c : cfg) (cur : Z) : Prop :=
  c_V20HeightActivation c <= cur \/
  (cur < c_PegnetConversionLimitActivation c /\ cur < c_V4OPRUpdate c).

Section WithCfg.
Variable c : cfg.
Variables (cur : Z) (rates avgs : gmap ticker Z).
Hypothesis Hne : is_empty_map rates = false.
Hypothesis Hrn : rates_nonneg rates.
Hypothesis Han : rates_nonneg avgs.

Lemma held_credit_nonneg e hh : 0 <= held_credit c cur rates avgs e hh.
Proof.
  unfold held_credit. destruct (entry_valid_at c e hh) as [txs|] eqn:E; [|lia].
  apply txs_credit_nonneg; [apply conv_of_nonneg; assumption|eapply entry_valid_at_ok; exact E].
Qed.
Lemma held_list_credit_nonneg hh es : 0 <= held_list_credit c cur rates avgs hh es.
Proof.
  induction es as [|e es IH]; cbn [held_list_credit fold_right]; [lia|].
  pose proof (held_credit_nonneg e hh). unfold held_list_credit in IH. lia.
Qed.
Lemma holding_credit_nonneg cm hs : 0 <= holding_credit c cm cur rates avgs hs.
Proof.
  induction hs as [|hh hs IH]; cbn [holding_credit fold_right]; [lia|].
  pose proof (held_list_credit_nonneg hh (holding_at cm hh)). unfold holding_credit in IH. lia.
Qed.

Lemma peg_request_in t txs : In t txs -> is_peg_request t = true -> has_peg_request txs = true.
Proof. intros Hin H. unfold has_peg_request. apply existsb_exists. exists t. auto. Qed.
Lemma peg_request_peg_conversion t txs : In t txs -> is_peg_request t = true -> has_peg_conversion txs = true.
Proof.
  intros Hin H. unfold has_peg_conversion. apply existsb_exists. exists t. split; [exact Hin|].
  unfold is_peg_request in H. destruct (tx_transfers t); [exact H|discriminate].
Qed.

Lemma no_peg_request_pre txs :
  ((c_V20HeightActivation c <=? cur) && has_peg_conversion txs) = false ->
  (in_bank_era c cur && has_peg_request txs) = false ->
  forallb (tx_wf (burn_addr c cur)) txs = true -> txs_ok txs ->
  Forall (tx_pre c cur) txs /\ ~ In (burn_addr c cur) (map tx_addr txs).
Proof.
  intros Hp Hb Hw Hok. rewrite forallb_forall in Hw. split.
  - apply Forall_forall. intros t Hin. unfold tx_pre. pose proof (Hw t Hin) as W. unfold tx_wf in W. apply andb_prop in W as [W1 _].
    split; [exact W1|]. split; [unfold txs_ok in Hok; rewrite Forall_forall in Hok; apply Hok; exact Hin|].
    destruct (c_PegnetConversionLimitActivation c <=? cur) eqn:El; [|reflexivity]. cbn [andb].
    destruct (is_peg_request t) eqn:K; [|reflexivity]. exfalso.
    pose proof (peg_request_in t txs Hin K) as K1. pose proof (peg_request_peg_conversion t txs Hin K) as K2.
    unfold in_bank_era in Hb. rewrite El, K1 in Hb. rewrite K2 in Hp. lia.
  - intros Hin. apply in_map_iff in Hin as (t & Ht & Hin). specialize (Hw t Hin). unfold tx_wf in Hw. apply andb_prop in Hw as [_ W]. lia.
Qed.

(* recordBatch never touches pn_bank *)
Lemma bank_apply_batch s hs txs s' : apply_batch c cur s hs txs rates avgs = BApplied s' -> bank s' = bank s.
Proof.
  intros H. symmetry. refine (pr_apply_batch bank eq _ _ _ _ c cur s hs txs rates avgs s' H); untouched.
Qed.

(* one held batch *)
Lemma apply_held_total s e hh n :
  held_wf c cur e hh = true -> 0 <= n -> bal_room s (held_credit c cur rates avgs e hh + n) ->
  exists s', apply_held c cur rates avgs s e hh = Ok (s', false) /\ keys s' = keys s /\ bal_room s' n /\ bank s' = bank s.
Proof.
  intros Hwf Hn Hr. pose proof (held_credit_nonneg e hh) as Hcr.
  assert (Hr0 : bal_room s n) by (eapply bal_room_weaken; [|exact Hr]; lia).
  unfold apply_held, held_wf, held_credit in *.
  destruct (entry_valid_at c e hh) as [txs|] eqn:Ev; [|exists s; auto].
  cbn [batch_wf] in *. apply andb_prop in Hwf as [Hwf Hnb]. apply negb_true_iff in Hnb.
  assert (Hisp : ((cur <? c_V20HeightActivation c) && (c_PegnetConversionLimitActivation c <=? cur) && has_peg_request txs) = false).
  { unfold in_bank_era in Hnb. destruct (has_peg_request txs); lia. }
  destruct ((c_V20HeightActivation c <=? cur) && has_peg_conversion txs) eqn:Hp.
  { eexists. split; [reflexivity|]. split; [apply keys_set_executed|]. split; [|reflexivity]. eapply bal_room_eq; [apply bal_set_executed|exact Hr0]. }
  destruct (entry_valid_at c e cur).
  2:{ eexists. split; [reflexivity|]. split; [apply keys_set_executed|]. split; [|reflexivity]. eapply bal_room_eq; [apply bal_set_executed|exact Hr0]. }
  destruct (is_replay s (e_hash e)); [exists s; auto|].
  destruct (no_peg_request_pre txs Hp Hnb Hwf (entry_valid_at_ok c e hh txs Ev)) as [Hpre Hburn].
  pose proof (apply_batch_total c cur s (e_hash e) txs rates avgs n Hpre Hburn (conv_of_nonneg c cur rates avgs Hrn Han)
                (or_introl Hne) Hn Hr) as T.
  destruct (apply_batch c cur s (e_hash e) txs rates avgs) as [s2|code| |code] eqn:Eb.
  - rewrite Hisp. exists s2. split; [reflexivity|]. destruct T as [T1 T2]. split; [exact T1|]. split; [exact T2|].
    eapply bank_apply_batch; exact Eb.
  - eexists. split; [reflexivity|]. split; [apply keys_set_executed|]. split; [|reflexivity]. eapply bal_room_eq; [apply bal_set_executed|exact Hr0].
  - rewrite Hisp. exists s. auto.
  - contradiction.
Qed.

Lemma record_peg_requests_nil h s bankamt bh :
  bh < c_V4OPRUpdate c -> record_peg_requests c h s [] rates avgs bankamt bh = Ok s.
Proof.
  intros Hb. unfold record_peg_requests, record_peg_requests_ord. cbn [flat_map map has_dup_txid payouts fold_left rbind].
  assert (E : (c_V4OPRUpdate c <=? bh) = false) by lia. rewrite E. reflexivity.
Qed.
Lemma record_peg_requests_nil_bank h s bankamt bh :
  c_V4OPRUpdate c <= bh -> bank s !! bh <> None ->
  exists s', record_peg_requests c h s [] rates avgs bankamt bh = Ok s' /\ keys s' = keys s /\ bal s' = bal s.
Proof.
  intros Hb Hrow. unfold record_peg_requests, record_peg_requests_ord. cbn [flat_map map has_dup_txid payouts fold_left rbind].
  assert (E : (c_V4OPRUpdate c <=? bh) = true) by lia. rewrite E. unfold update_bank.
  destruct (bank s !! bh) as [[[am u] r]|]; [|contradiction]. eexists. split; [reflexivity|]. split; reflexivity.
Qed.

(* the held batches of one height *)
Lemma held_fold_total hh : forall es s n,
  forallb (fun e => held_wf c cur e hh) es = true -> 0 <= n ->
  bal_room s (held_list_credit c cur rates avgs hh es + n) ->
  exists s', fold_left (fun r e =>
                 let? st := r in
                 let '(s, pegs) := st in
                 let? r1 := apply_held c cur rates avgs s e hh in
                 let '(s', isp) := r1 in
                 Ok (s', if isp then pegs ++ [(e_hash e, default [] (e_batch e))] else pegs))
              es (Ok (s, @nil (hash * list tx))) = Ok (s', []) /\ keys s' = keys s /\ bal_room s' n /\ bank s' = bank s.
Proof.
  induction es as [|e es IH]; intros s n Hwf Hn Hr; cbn [fold_left].
  - exists s. split; [reflexivity|]. split; [reflexivity|]. split; [|reflexivity].
    eapply bal_room_weaken; [|exact Hr]. cbn [held_list_credit fold_right]. lia.
  - cbn [forallb] in Hwf. apply andb_prop in Hwf as [Hw Hwf'].
    cbn [held_list_credit fold_right] in Hr. fold (held_list_credit c cur rates avgs hh es) in Hr.
    pose proof (held_list_credit_nonneg hh es) as Hb.
    destruct (apply_held_total s e hh (held_list_credit c cur rates avgs hh es + n) Hw) as (s1 & A1 & A2 & A3 & A4); [lia| |].
    { eapply bal_room_weaken; [|exact Hr]. lia. }
    cbn [rbind]. rewrite A1. cbn [rbind].
    destruct (IH s1 n Hwf' Hn A3) as (s' & B1 & B2 & B3 & B4).
    exists s'. split; [exact B1|]. split; [rewrite B2; exact A2|]. split; [exact B3|rewrite B4; exact A4].
Qed.

Lemma apply_held_height_total cm hh s n :
  forallb (fun e => held_wf c cur e hh) (holding_at cm hh) = true -> 0 <= n ->
  bal_room s (held_list_credit c cur rates avgs hh (holding_at cm hh) + n) ->
  exists s', apply_held_height c cm cur rates avgs hh (Ok (s, [])) = Ok (s', []) /\ keys s' = keys s /\ bal_room s' n /\ bank s' = bank s.
Proof.
  intros Hwf Hn Hr. unfold apply_held_height. cbn [rbind].
  destruct (held_fold_total hh (holding_at cm hh) s n Hwf Hn Hr) as (s1 & F1 & F2 & F3 & F4).
  rewrite F1. cbn [rbind].
  destruct ((c_PegnetConversionLimitActivation c <=? cur) && (cur <? c_V4OPRUpdate c)) eqn:E.
  - rewrite record_peg_requests_nil by lia. cbn [rbind]. exists s1. auto.
  - exists s1. auto.
Qed.

Lemma apply_holding_fold_total cm : forall hs s n,
  holding_wf c cm cur hs = true -> 0 <= n -> bal_room s (holding_credit c cm cur rates avgs hs + n) ->
  exists s', fold_left (fun acc hh => apply_held_height c cm cur rates avgs hh acc) hs (Ok (s, [])) = Ok (s', []) /\
             keys s' = keys s /\ bal_room s' n /\ bank s' = bank s.
Proof.
  induction hs as [|hh hs IH]; intros s n Hwf Hn Hr; cbn [fold_left].
  - exists s. split; [reflexivity|]. split; [reflexivity|]. split; [|reflexivity].
    eapply bal_room_weaken; [|exact Hr]. cbn [holding_credit fold_right]. lia.
  - unfold holding_wf in Hwf. cbn [forallb] in Hwf. apply andb_prop in Hwf as [Hw Hwf'].
    cbn [holding_credit fold_right] in Hr. fold (holding_credit c cm cur rates avgs hs) in Hr.
    pose proof (holding_credit_nonneg cm hs) as Hb.
    destruct (apply_held_height_total cm hh s (holding_credit c cm cur rates avgs hs + n) Hw) as (s1 & A1 & A2 & A3 & A4); [lia| |].
    { eapply bal_room_weaken; [|exact Hr]. lia. }
    rewrite A1. destruct (IH s1 n Hwf' Hn A3) as (s' & B1 & B2 & B3 & B4).
    exists s'. split; [exact B1|]. split; [rewrite B2; exact A2|]. split; [exact B3|rewrite B4; exact A4].
Qed.

(* ---- L4 ---------------------------------------------------------------------------------------------------- *)
Theorem apply_holding_total cm s n :
  holding_wf c cm cur (holding_window s cur) = true -> bank_row_ready c cur s -> 0 <= n ->
  bal_room s (holding_credit c cm cur rates avgs (holding_window s cur) + n) ->
  exists s', apply_holding c cm cur s rates avgs = Ok s' /\ keys s' = keys s /\ bal_room s' n.
Proof.
  intros Hwf Hbank Hn Hr. unfold apply_holding. cbv zeta.
  destruct (apply_holding_fold_total cm (holding_window s cur) s n Hwf Hn Hr) as (s1 & F1 & F2 & F3 & F4).
  unfold holding_window in F1. rewrite F1. cbn [rbind].
  destruct ((c_V4OPRUpdate c <=? cur) && (cur <? c_V20HeightActivation c)) eqn:E; [|exists s1; auto].
  specialize (Hbank E). rewrite <- F4 in Hbank.
  assert (G : forall amount, exists s', record_peg_requests c cur s1 [] rates avgs amount cur = Ok s' /\ keys s' = keys s /\ bal_room s' n).
  { intros amount. destruct (record_peg_requests_nil_bank cur s1 amount cur) as (s' & R1 & R2 & R3); [lia|exact Hbank|].
    exists s'. split; [exact R1|]. split; [rewrite R2; exact F2|eapply bal_room_eq; [exact R3|exact F3]]. }
  destruct (bank s1 !! cur) as [[[am u] r]|]; apply G.
Qed.

(* outside the bank era the restriction on PEG requests and the bank row are vacuous: in particular from 2.0 on *)
End WithCfg.

Definition held_wf_basic (c : cfg) (cur : Z) (e : entry) (hh : Z) : bool := batch_wf (burn_addr c cur) (entry_valid_at c e hh).
Definition holding_wf_basic c (cm : db) cur (hs : list Z) : bool :=
  forallb (fun hh => forallb (fun e => held_wf_basic c cur e hh) (holding_at cm hh)) hs.

Lemma outside_not_in_bank_era c cur : outside_bank_era c cur -> in_bank_era c cur = false.
Proof. unfold outside_bank_era, in_bank_era. intros [H|[H _]]; lia. Qed.

Lemma holding_wf_basic_outside c cm cur hs :
  outside_bank_era c cur -> holding_wf_basic c cm cur hs = true -> holding_wf c cm cur hs = true.
Proof.
  intros Ho H. unfold holding_wf, holding_wf_basic in *. rewrite forallb_forall in *. intros hh Hin. specialize (H hh Hin).
  rewrite forallb_forall in *. intros e He. specialize (H e He). unfold held_wf, held_wf_basic in *. rewrite H. cbn [andb].
  destruct (entry_valid_at c e hh); [|reflexivity]. rewrite (outside_not_in_bank_era c cur Ho). reflexivity.
Qed.

Theorem apply_holding_total_outside_bank_era c cur rates avgs cm s n :
  outside_bank_era c cur ->
  is_empty_map rates = false -> rates_nonneg rates -> rates_nonneg avgs ->
  holding_wf_basic c cm cur (holding_window s cur) = true -> 0 <= n ->
  bal_room s (holding_credit c cm cur rates avgs (holding_window s cur) + n) ->
  exists s', apply_holding c cm cur s rates avgs = Ok s' /\ keys s' = keys s /\ bal_room s' n.
Proof.
  intros Ho Hne Hrn Han Hwf Hn Hr. apply apply_holding_total; auto.
  - apply holding_wf_basic_outside; assumption.
  - intros E. exfalso. destruct Ho as [H|[_ H]]; lia.
Qed.

(* the transaction phase of a rated block: holding, then the block's own entries *)
Theorem holding_then_block_total c cur rates avgs cm s es :
  is_empty_map rates = false -> rates_nonneg rates -> rates_nonneg avgs ->
  hist_closed s ->
  holding_wf c cm cur (holding_window s cur) = true -> bank_row_ready c cur s ->
  Forall (fun e => entry_wf c cur e = true) es ->
  bal_room s (holding_credit c cm cur rates avgs (holding_window s cur) + block_credit c cur es) ->
  exists s1 s2, apply_holding c cm cur s rates avgs = Ok s1 /\ apply_tx_block c cur s1 es = Ok s2 /\
                hist_closed s2 /\ bal_room s2 0.
Proof.
  intros Hne Hrn Han Hcl Hwf Hbank Hes Hr.
  destruct (apply_holding_total c cur rates avgs Hne Hrn Han cm s (block_credit c cur es) Hwf Hbank (block_credit_nonneg c cur es) Hr)
    as (s1 & A1 & A2 & A3).
  destruct (apply_tx_block_total c cur s1 es 0) as (s2 & B1 & B2 & B3); auto.
  - eapply hist_closed_keys; eauto.
  - lia.
  - eapply bal_room_weaken; [|exact A3]. lia.
  - exists s1, s2. auto.
Qed.
