(* Lemmas/HistoryLemmas3.v — T3: whole-block and chain-level form of "the history tables account for
   the balances" (C17 second sentence / block-level C04), under explicit hypotheses:
     (H1) no entry hash occurs twice in pn_history_txbatch of the RESULTING state (checkable on a dump);
     (H2) no transaction of the chain converts into PEG (hence no PEG request, no bank-era payout);
     (H4) the oracle inputs are sane: winners' heights positive, payouts are uint64, reported asset
          values non-negative; block heights positive.
   The at-most-once property of held batches is PROVED here from the invariant (it is not a hypothesis). *)
From Model Require Import Obs Examples.
From Lemmas Require Import ArithLemmas DbLemmas LedgerLemmas BlockLemmas FrameLemmas ChainLemmas HoldingLemmas
     RewardLemmas StatusLemmas HistoryLemmas HistoryLemmas2.
From Gen Require Import Consts.
From Coq Require Import Lia ZifyBool RelationClasses.
Open Scope Z_scope.
Open Scope list_scope.

(* ---- three projections moved along preorders by every storage operation (FrameLemmas scheme) -------- *)
Definition hashes (s : db) : list hash := map hb_hash (hist s).
Definition pA (s : db) := (hashes s, rel s, holding s).
Definition RA (a b : list hash * gmap hash (list (addr * Z * bool * bool)) * list held) : Prop :=
  prefix (fst (fst a)) (fst (fst b)) /\ rel_ext (snd (fst a)) (snd (fst b)) /\ prefix (snd a) (snd b).
Global Instance RA_po : PreOrder RA.
Proof.
  split.
  - intros [[a b] d]. repeat split; reflexivity.
  - intros [[a1 b1] d1] [[a2 b2] d2] [[a3 b3] d3] (H1 & H2 & H3) (K1 & K2 & K3). cbn in *.
    repeat split; etransitivity; eassumption.
Qed.
Lemma RA_same s s' : hashes s' = hashes s -> rel s' = rel s -> holding s' = holding s -> RA (pA s) (pA s').
Proof. intros H1 H2 H3. unfold RA, pA. cbn. rewrite H1, H2, H3. repeat split; reflexivity. Qed.

Lemma obA_bal s v : RA (pA s) (pA (set_bal s v)).  Proof. apply RA_same; reflexivity. Qed.
Lemma obA_rel s a hs i t cv : RA (pA s) (pA (insert_relation s a hs i t cv)).
Proof.
  destruct (insert_relation_shape s a hs i t cv) as [-> | ->]; [reflexivity|]. unfold RA, pA. cbn.
  repeat split; try reflexivity.
  intros hs' Hr. unfold replayed in *. destruct (Z.eq_dec hs' hs) as [->|Hne].
  - rewrite lookup_insert. destruct (default [] (rel s !! hs)); exact I.
  - rewrite lookup_insert_ne by auto. exact Hr.
Qed.
Lemma obA_exec s hs code : RA (pA s) (pA (set_executed s hs code)).
Proof. apply RA_same; try reflexivity. unfold hashes. rewrite hist_set_executed. apply mark_exec_hashes. Qed.
Lemma obA_hb s r s' : insert_hbatch s r = Ok s' -> RA (pA s) (pA s').
Proof.
  intros H. apply insert_hbatch_ok in H as (H1 & _ & _ & H4 & H5). unfold RA, pA, hashes. cbn. rewrite H1, H4, H5, map_app.
  repeat split; try reflexivity. eexists; reflexivity.
Qed.
Lemma obA_amt s hs i amt : RA (pA s) (pA (set_to_amount s hs i amt)).  Proof. apply RA_same; reflexivity. Qed.
Lemma obA_peg s hs i amt o : RA (pA s) (pA (set_peg_request_amounts s hs i amt o)).  Proof. apply RA_same; reflexivity. Qed.
Lemma obA_htx s r lk s' : insert_htx s r lk = Ok s' -> RA (pA s) (pA s').
Proof. intros H. apply insert_htx_ok in H as (_ & _ & H2 & _ & H4 & H5). apply RA_same; unfold hashes; congruence. Qed.
Lemma obA_hold s e h s' : insert_holding s e h = Ok s' -> RA (pA s) (pA s').
Proof.
  unfold insert_holding. destruct (holding_has _ _); [discriminate|]. intros H; inversion H; subst.
  unfold RA, pA, hashes. cbn. repeat split; try reflexivity. eexists; reflexivity.
Qed.
Lemma obA_bank s h a s' : insert_bank s h a = Ok s' -> RA (pA s) (pA s').
Proof. intros H. apply insert_bank_shape in H as (? & ->). apply RA_same; reflexivity. Qed.
Lemma obA_ubank s h u r s' : update_bank s h u r = Ok s' -> RA (pA s) (pA s').
Proof. intros H. apply update_bank_shape in H as (? & ->). apply RA_same; reflexivity. Qed.
Lemma obA_snaps s cu pa : RA (pA s) (pA (set_snaps s cu pa)).  Proof. apply RA_same; reflexivity. Qed.

(* rates: untouched by everything but insert_rates; holding: untouched by everything but insert_holding *)
Definition pB (s : db) := rates s.
Definition pC (s : db) := holding s.

Section Frames.
Variable c : cfg.
Lemma frA_apply_entry h s order e s' : apply_entry c h s order e = Ok s' -> RA (pA s) (pA s').
Proof. exact (pr_apply_entry pA RA obA_bal obA_rel obA_exec obA_hb obA_amt obA_htx obA_hold c h s order e s'). Qed.
Lemma frA_apply_held cur rates avgs s e hh s' isp : apply_held c cur rates avgs s e hh = Ok (s', isp) -> RA (pA s) (pA s').
Proof. exact (pr_apply_held pA RA obA_bal obA_rel obA_exec obA_amt c cur rates avgs s e hh s' isp). Qed.
Lemma frA_pay_winners s ts ws s' : pay_winners s ts ws = Ok s' -> RA (pA s) (pA s').
Proof. exact (pr_pay_winners pA RA obA_bal obA_hb obA_htx s ts ws s'). Qed.
Lemma frA_factoid h s fs s' : apply_factoid_block h s fs = Ok s' -> RA (pA s) (pA s').
Proof. exact (pr_apply_factoid_block pA RA obA_bal obA_hb obA_htx h s fs s'). Qed.
Lemma frA_snapshot h ts rates s s' : snapshot_payouts c h ts rates s = Ok s' -> RA (pA s) (pA s').
Proof. exact (pr_snapshot_payouts pA RA obA_bal obA_hb obA_htx c obA_snaps h ts rates s s'). Qed.
Lemma frA_developers h ts s s' : fst (developers_payouts c h ts s) = Ok s' -> RA (pA s) (pA s').
Proof. exact (pr_developers_payouts pA RA obA_bal obA_hb obA_htx c h ts s s'). Qed.
Lemma frA_mint s s' : mint_tokens s = Ok s' -> RA (pA s) (pA s').
Proof. exact (pr_mint_tokens pA RA obA_bal s s'). Qed.
Lemma frA_nullify_minted cm s s' : nullify_minted cm s = Ok s' -> RA (pA s) (pA s').
Proof. exact (pr_nullify_minted pA RA obA_bal cm s s'). Qed.
Lemma frA_record_peg h s batches rates avgs bankamt bh s' :
  record_peg_requests c h s batches rates avgs bankamt bh = Ok s' -> RA (pA s) (pA s').
Proof. exact (pr_record_peg_requests pA RA obA_bal obA_peg obA_ubank c h s batches rates avgs bankamt bh s'). Qed.

(* rates *)
Lemma frB_apply_entry h s order e s' : apply_entry c h s order e = Ok s' -> rates s = rates s'.
Proof. refine (pr_apply_entry pB eq _ _ _ _ _ _ _ c h s order e s'); untouched. Qed.
Lemma frB_apply_held cur rates0 avgs s e hh s' isp : apply_held c cur rates0 avgs s e hh = Ok (s', isp) -> rates s = rates s'.
Proof. refine (pr_apply_held pB eq _ _ _ _ c cur rates0 avgs s e hh s' isp); untouched. Qed.
Lemma frB_pay_winners s ts ws s' : pay_winners s ts ws = Ok s' -> rates s = rates s'.
Proof. refine (pr_pay_winners pB eq _ _ _ s ts ws s'); untouched. Qed.
Lemma frB_factoid h s fs s' : apply_factoid_block h s fs = Ok s' -> rates s = rates s'.
Proof. refine (pr_apply_factoid_block pB eq _ _ _ h s fs s'); untouched. Qed.
Lemma frB_snapshot h ts rates0 s s' : snapshot_payouts c h ts rates0 s = Ok s' -> rates s = rates s'.
Proof. refine (pr_snapshot_payouts pB eq _ _ _ c _ h ts rates0 s s'); untouched. Qed.
Lemma frB_developers h ts s s' : fst (developers_payouts c h ts s) = Ok s' -> rates s = rates s'.
Proof. refine (pr_developers_payouts pB eq _ _ _ c h ts s s'); untouched. Qed.
Lemma frB_nullify_burn cm h ts s : pB s = pB (nullify_burn c cm h ts s).
Proof.
  apply (pr_nullify_burn pB eq); [intros; reflexivity| |].
  - intros s0 r s1 H. apply insert_hbatch_shape in H. subst. reflexivity.
  - intros s0 r lk s1 H. apply insert_htx_shape in H as (? & ? & ->). reflexivity.
Qed.

(* holding *)
Lemma frC_apply_held cur rates0 avgs s e hh s' isp : apply_held c cur rates0 avgs s e hh = Ok (s', isp) -> holding s = holding s'.
Proof. refine (pr_apply_held pC eq _ _ _ _ c cur rates0 avgs s e hh s' isp); untouched. Qed.
Lemma frC_apply_batch h s hs txs rates0 avgs s' : apply_batch c h s hs txs rates0 avgs = BApplied s' -> holding s = holding s'.
Proof. refine (pr_apply_batch pC eq _ _ _ _ c h s hs txs rates0 avgs s'); untouched. Qed.
Lemma frC_pay_winners s ts ws s' : pay_winners s ts ws = Ok s' -> holding s = holding s'.
Proof. refine (pr_pay_winners pC eq _ _ _ s ts ws s'); untouched. Qed.
Lemma frC_factoid h s fs s' : apply_factoid_block h s fs = Ok s' -> holding s = holding s'.
Proof. refine (pr_apply_factoid_block pC eq _ _ _ h s fs s'); untouched. Qed.
Lemma frC_snapshot h ts rates0 s s' : snapshot_payouts c h ts rates0 s = Ok s' -> holding s = holding s'.
Proof. refine (pr_snapshot_payouts pC eq _ _ _ c _ h ts rates0 s s'); untouched. Qed.
Lemma frC_developers h ts s s' : fst (developers_payouts c h ts s) = Ok s' -> holding s = holding s'.
Proof. refine (pr_developers_payouts pC eq _ _ _ c h ts s s'); untouched. Qed.
Lemma frC_nullify_burn cm h ts s : pC s = pC (nullify_burn c cm h ts s).
Proof.
  apply (pr_nullify_burn pC eq); [intros; reflexivity| |].
  - intros s0 r s1 H. apply insert_hbatch_shape in H. subst. reflexivity.
  - intros s0 r lk s1 H. apply insert_htx_shape in H as (? & ? & ->). reflexivity.
Qed.
Lemma frA_nullify_burn cm h ts s : RA (pA s) (pA (nullify_burn c cm h ts s)).
Proof. apply (pr_nullify_burn pA RA); [exact obA_bal|exact obA_hb|exact obA_htx]. Qed.
(* relation rows: untouched by the coinbase writers *)
Definition pD (s : db) := rel s.
Lemma frD_pay_winners s ts ws s' : pay_winners s ts ws = Ok s' -> rel s = rel s'.
Proof. refine (pr_pay_winners pD eq _ _ _ s ts ws s'); untouched. Qed.
Lemma frD_factoid h s fs s' : apply_factoid_block h s fs = Ok s' -> rel s = rel s'.
Proof. refine (pr_apply_factoid_block pD eq _ _ _ h s fs s'); untouched. Qed.
Lemma frD_snapshot h ts rates0 s s' : snapshot_payouts c h ts rates0 s = Ok s' -> rel s = rel s'.
Proof. refine (pr_snapshot_payouts pD eq _ _ _ c _ h ts rates0 s s'); untouched. Qed.
Lemma frD_developers h ts s s' : fst (developers_payouts c h ts s) = Ok s' -> rel s = rel s'.
Proof. refine (pr_developers_payouts pD eq _ _ _ c h ts s s'); untouched. Qed.
End Frames.

(* ---- static conditions on the inputs ------------------------------------------------------------------ *)
(* (H2) no transaction converts into PEG *)
Definition tx_clean (t : tx) : bool := negb (tx_conv t =? PTickerPEG).
Definition entry_clean (e : entry) : bool :=
  match e_batch e with Some txs => forallb tx_clean txs | None => true end.
(* (H4) a verdict of the graders: heights positive, payouts are uint64, reported values non-negative *)
Definition winner_okb (w : winner) : bool :=
  (0 <? w_height w) && match w_addr w with Some _ => wrap64 (w_payout w) =? w_payout w | None => true end.
Definition verdict_okb (v : verdict) : bool :=
  forallb winner_okb (v_winners v) && forallb (fun a => 0 <=? snd a) (v_assets v).
Definition block_okb (b : block) : bool :=
  (0 <? b_height b) &&
  match b_tx b with Some es => forallb entry_clean es | None => true end &&
  match b_opr b with Some oi => forallb (fun a => match snd a with Some v => verdict_okb v | None => true end) (oi_alts oi) | None => true end &&
  match b_spr b with Some si => forallb (fun a => match snd a with Some v => verdict_okb v | None => true end) (si_alts si) | None => true end.

Lemma nodup_app_disjoint {A} (l k : list A) x : NoDup (l ++ k) -> In x l -> In x k -> False.
Proof.
  induction l as [|y l IH]; intros Hnd Hl Hk; [contradiction|]. cbn [app] in Hnd. inversion Hnd as [|? ? Hn Hnd']; subst.
  destruct Hl as [->|Hl]; [apply Hn; apply in_or_app; right; exact Hk|eapply IH; eauto].
Qed.
Lemma nodup_app_l {A} (l k : list A) : NoDup (l ++ k) -> NoDup l.
Proof.
  induction l as [|y l IH]; intros Hnd; [constructor|]. cbn [app] in Hnd. inversion Hnd as [|? ? Hn Hnd']; subst.
  constructor; [intros Hin; apply Hn; apply in_or_app; left; exact Hin|apply IH; exact Hnd'].
Qed.

Lemma rows_of_via_not X X' l : X <> X' -> rows_of X (rows_not X' l) = rows_of X l.
Proof.
  intros N. unfold rows_of, rows_not. induction l as [|r l IH]; [reflexivity|]. cbn [filter].
  destruct (Z.eqb_spec (ht_hash r) X') as [E|E]; cbn [negb filter].
  - destruct (Z.eqb_spec (ht_hash r) X); [congruence|exact IH].
  - destruct (ht_hash r =? X); [f_equal|]; exact IH.
Qed.

Section Inv.
Variable c : cfg.

Lemma clean_facts e h txs :
  entry_clean e = true -> entry_valid_at c e h = Some txs ->
  has_peg_conversion txs = false /\ existsb is_peg_request txs = false /\ forall cur, no_deferred c cur txs = true.
Proof.
  unfold entry_clean, entry_valid_at. destruct (e_batch e) as [b|]; [|discriminate]. intros Hc Hv.
  destruct (_ && _); [discriminate|]. destruct (forallb tx_amounts_okb b); [|discriminate]. inversion Hv; subst.
  rewrite forallb_forall in Hc.
  assert (H1 : has_peg_conversion txs = false).
  { unfold has_peg_conversion. destruct (existsb _ txs) eqn:E; [|reflexivity]. apply existsb_exists in E as (t & Hin & Ht).
    specialize (Hc t Hin). unfold tx_clean in Hc. rewrite Ht in Hc. discriminate. }
  assert (H2 : existsb is_peg_request txs = false).
  { destruct (existsb is_peg_request txs) eqn:E; [|reflexivity]. apply existsb_exists in E as (t & Hin & Ht).
    specialize (Hc t Hin). unfold tx_clean in Hc. unfold is_peg_request in Ht. destruct (tx_transfers t); [|discriminate].
    rewrite Ht in Hc. discriminate. }
  split; [exact H1|]. split; [exact H2|]. intros cur. unfold no_deferred. rewrite H2, andb_false_r. reflexivity.
Qed.

Lemma entry_valid_at_mono e h h' txs : entry_valid_at c e h = Some txs -> h <= h' -> entry_valid_at c e h' = Some txs.
Proof.
  unfold entry_valid_at. destruct (e_batch e) as [b|]; [|discriminate]. intros H Hle.
  destruct (e_rcde e); cbn [andb] in *; [|exact H].
  destruct (Z.ltb_spec (c_Fat2RCDEActivation c) h); cbn [negb] in *; [|discriminate].
  destruct (Z.ltb_spec (c_Fat2RCDEActivation c) h'); cbn [negb]; [exact H|lia].
Qed.

(* ---- the invariant ------------------------------------------------------------------------------------------ *)
(* what is known about an entry waiting in (or left behind in) the holding table *)
Definition held_inv (s : db) (x : held) : Prop :=
  has_batch (hist s) (e_hash (h_entry x)) = true /\
  entry_clean (h_entry x) = true /\
  (0 < exec_of (hist s) (e_hash (h_entry x)) -> is_replay s (e_hash (h_entry x)) = true) /\
  (is_replay s (e_hash (h_entry x)) = false -> forall txs, entry_valid_at c (h_entry x) (h_height x) = Some txs ->
     rows_of (e_hash (h_entry x)) (htxs s) = pend_rows (e_hash (h_entry x)) 0 txs).
Definition held_ok (s : db) : Prop :=
  Forall (held_inv s) (holding s) /\ NoDup (map (fun x => e_hash (h_entry x)) (holding s)).
Definition rates_nonneg (s : db) : Prop := forall k m t, rates s !! k = Some m -> 0 <= rate_of m t.
Definition G (s : db) : Prop := hist_ok c s /\ held_ok s /\ rates_nonneg s.

Lemma is_replay_mono s s' X : rel_ext (rel s) (rel s') -> is_replay s X = true -> is_replay s' X = true.
Proof. intros H Hr. apply is_replay_replayed. apply H. apply is_replay_replayed. exact Hr. Qed.

Lemma held_inv_keep s s' x :
  held_inv s x ->
  has_batch (hist s') (e_hash (h_entry x)) = true ->
  (exec_of (hist s') (e_hash (h_entry x)) = exec_of (hist s) (e_hash (h_entry x)) \/ exec_of (hist s') (e_hash (h_entry x)) <= 0) ->
  rel_ext (rel s) (rel s') ->
  rows_of (e_hash (h_entry x)) (htxs s') = rows_of (e_hash (h_entry x)) (htxs s) ->
  held_inv s' x.
Proof.
  intros (I1 & I2 & I3 & I4) Hb He Hr Hrows. split; [exact Hb|]. split; [exact I2|]. split.
  - intros Hpos. destruct He as [He|He]; [|lia]. rewrite He in Hpos. eapply is_replay_mono; [exact Hr|]. apply I3; exact Hpos.
  - intros Hn txs Hv. rewrite Hrows. apply I4; [|exact Hv].
    destruct (is_replay s (e_hash (h_entry x))) eqn:E; [|reflexivity]. rewrite (is_replay_mono _ _ _ Hr E) in Hn. discriminate.
Qed.

(* (S) nothing but balances at special addresses moved *)
Lemma G_same s s' :
  hist s' = hist s -> htxs s' = htxs s -> rel s' = rel s -> holding s' = holding s -> rates s' = rates s ->
  (forall a t, special_addr a = false -> get_bal (bal s') a t = get_bal (bal s) a t) ->
  G s -> G s'.
Proof.
  intros H1 H2 H3 H4 H5 H6 (K1 & [K2 K2'] & K3). split; [exact (hist_ok_bal_special c s s' H1 H2 H6 K1)|]. split.
  - split; [|rewrite H4; exact K2']. rewrite H4. eapply Forall_impl; [|exact K2]. intros x Hx.
    apply (held_inv_keep s s' x Hx); rewrite ?H1, ?H2, ?H3; try reflexivity; [apply Hx|left; reflexivity].
  - unfold rates_nonneg. rewrite H5. exact K3.
Qed.

(* (A) batch rows and transaction rows are appended; the hash of every new row is the hash of a new batch row *)
Lemma held_ok_append s s' R B :
  hist s' = hist s ++ B -> htxs s' = htxs s ++ R -> rel s' = rel s -> holding s' = holding s ->
  NoDup (hashes s') ->
  Forall (fun r => In (ht_hash r) (map hb_hash B)) R ->
  held_ok s -> held_ok s'.
Proof.
  intros Hh Hx Hr Hho Hnd HR [K K']. split; [|rewrite Hho; exact K']. rewrite Hho. eapply Forall_impl; [|exact K].
  intros x Hxi. pose proof Hxi as (I1 & _).
  apply (held_inv_keep s s' x Hxi).
  - rewrite Hh, has_batch_app, I1. reflexivity.
  - left. rewrite Hh. apply exec_of_app_old; exact I1.
  - rewrite Hr. reflexivity.
  - rewrite Hx, rows_of_app. replace (rows_of (e_hash (h_entry x)) R) with (@nil htx); [rewrite app_nil_r; reflexivity|].
    symmetry. apply rows_of_none. eapply Forall_impl; [|exact HR]. cbn. intros r Hin E.
    unfold hashes in Hnd. rewrite Hh, map_app in Hnd.
    apply (nodup_app_disjoint _ _ (e_hash (h_entry x)) Hnd); [|rewrite <- E; exact Hin].
    unfold has_batch in I1. apply existsb_exists in I1 as (b & Hb & Eb). apply Z.eqb_eq in Eb. rewrite <- Eb. apply in_map; exact Hb.
Qed.

Lemma G_coinbase s s' R B :
  hist s' = hist s ++ B -> htxs s' = htxs s ++ R -> rel s' = rel s -> holding s' = holding s -> rates s' = rates s ->
  NoDup (hashes s') -> Forall (fun r => In (ht_hash r) (map hb_hash B)) R ->
  hist_ok c s' -> G s -> G s'.
Proof.
  intros H1 H2 H3 H4 H5 Hnd HR Hok (_ & K2 & K3). split; [exact Hok|]. split.
  - exact (held_ok_append s s' R B H1 H2 H3 H4 Hnd HR K2).
  - unfold rates_nonneg. rewrite H5. exact K3.
Qed.

(* ---- the coinbase-style writers ------------------------------------------------------------------------------- *)
Lemma winner_okb_facts ws : forallb winner_okb ws = true -> payouts_fit ws = true /\ Forall (fun w => 0 < w_height w) ws.
Proof.
  intros H. rewrite forallb_forall in H. split.
  - unfold payouts_fit. apply forallb_forall. intros w Hw. specialize (H w Hw). unfold winner_okb in H. apply andb_prop in H as [_ H]. exact H.
  - apply Forall_forall. intros w Hw. specialize (H w Hw). unfold winner_okb in H. apply andb_prop in H as [H _]. lia.
Qed.

Lemma G_pay_winners s ts ws s' :
  pay_winners s ts ws = Ok s' -> forallb winner_okb ws = true -> NoDup (hashes s') -> G s -> G s'.
Proof.
  intros H Hw Hnd HG. destruct (winner_okb_facts ws Hw) as [Hfit Hpos].
  destruct (pay_winners_history s ts ws s' H Hfit) as (R1 & R2 & _).
  refine (G_coinbase s s' _ _ R2 R1 (eq_sym (frD_pay_winners _ _ _ _ H)) (eq_sym (frC_pay_winners _ _ _ _ H))
            (eq_sym (frB_pay_winners _ _ _ _ H)) Hnd _ _ HG).
  - apply Forall_forall. intros r Hr. unfold winner_rows in Hr. apply in_flat_map in Hr as (w & Hin & Hr).
    destruct (w_addr w) as [a|] eqn:Ea; [|contradiction]. destruct Hr as [<-|[]].
    apply in_map_iff. eexists. split; [|unfold winner_batches; apply in_flat_map; exists w; split; [exact Hin|rewrite Ea; left; reflexivity]].
    reflexivity.
  - exact (hist_ok_pay_winners_nodup c s ts ws s' H Hfit Hnd Hpos (proj1 HG)).
Qed.

Lemma G_factoid h s fs s' :
  0 < h -> apply_factoid_block h s fs = Ok s' -> NoDup (hashes s') -> G s -> G s'.
Proof.
  intros Hh H Hnd HG. destruct (apply_factoid_block_history h s fs s' H) as (R1 & R2 & _).
  refine (G_coinbase s s' _ _ R2 R1 (eq_sym (frD_factoid _ _ _ _ H)) (eq_sym (frC_factoid _ _ _ _ H))
            (eq_sym (frB_factoid _ _ _ _ H)) Hnd _ _ HG).
  - apply Forall_forall. intros r Hr. unfold burn_rows in Hr. apply in_flat_map in Hr as (f & Hin & Hr).
    destruct (is_burn f) as [[a v]|] eqn:Eb; [|contradiction]. destruct Hr as [<-|[]].
    apply in_map_iff. eexists. split; [|unfold burn_batches; apply in_flat_map; exists f; split; [exact Hin|rewrite Eb; left; reflexivity]].
    reflexivity.
  - exact (hist_ok_apply_factoid_block_nodup c h s fs s' Hh H Hnd (proj1 HG)).
Qed.

Lemma G_developers h ts s s' :
  0 < h -> fst (developers_payouts c h ts s) = Ok s' -> NoDup (hashes s') -> G s -> G s'.
Proof.
  intros Hh H Hnd HG. destruct (developers_payouts_history c h ts s s' H) as (R1 & R2 & _).
  refine (G_coinbase s s' _ _ R2 R1 (eq_sym (frD_developers c _ _ _ _ H)) (eq_sym (frC_developers c _ _ _ _ H))
            (eq_sym (frB_developers c _ _ _ _ H)) Hnd _ _ HG).
  - apply Forall_forall. intros r Hr. unfold dev_rows in Hr. unfold dev_batches. revert Hr. generalize dev_rewards. intros l Hr.
    destruct (dev_rows_batches _ h ts l _ _ r Hr) as (b & Hb & E1 & _). rewrite <- E1. apply in_map; exact Hb.
  - exact (hist_ok_developers_payouts_nodup c h ts s s' Hh H Hnd (proj1 HG)).
Qed.

Lemma G_snapshot h ts rates0 s s' :
  0 < h -> snapshot_payouts c h ts rates0 s = Ok s' -> NoDup (hashes s') -> G s -> G s'.
Proof.
  intros Hh H Hnd HG. destruct (snapshot_payouts_history c h ts rates0 s s' H) as (rows & R1 & R2 & R3 & R4 & _).
  pose proof (hist_ok_snapshot_payouts_nodup c h ts rates0 s s' Hh H Hnd (proj1 HG)) as Hok.
  destruct rows as [|r0 rows0].
  - destruct R3 as [R3|R3].
    + refine (G_coinbase s s' [] [] _ R1 (eq_sym (frD_snapshot c _ _ _ _ _ H)) (eq_sym (frC_snapshot c _ _ _ _ _ H))
                (eq_sym (frB_snapshot c _ _ _ _ _ H)) Hnd (Forall_nil _) Hok HG). rewrite app_nil_r. exact R3.
    + exact (G_coinbase s s' [] _ R3 R1 (eq_sym (frD_snapshot c _ _ _ _ _ H)) (eq_sym (frC_snapshot c _ _ _ _ _ H))
                (eq_sym (frB_snapshot c _ _ _ _ _ H)) Hnd (Forall_nil _) Hok HG).
  - refine (G_coinbase s s' _ _ (R4 ltac:(discriminate)) R1 (eq_sym (frD_snapshot c _ _ _ _ _ H)) (eq_sym (frC_snapshot c _ _ _ _ _ H))
              (eq_sym (frB_snapshot c _ _ _ _ _ H)) Hnd _ Hok HG).
    eapply Forall_impl; [|exact R2]. cbn. intros r (-> & _). left; reflexivity.
Qed.

(* ---- the arrival path ---------------------------------------------------------------------------------------------- *)
Lemma apply_entry_holding_same h s order e s' txs :
  apply_entry c h s order e = Ok s' -> entry_valid_at c e h = Some txs ->
  is_replay s (e_hash e) = false -> hist_has s (e_hash e) = false -> has_conversions txs = false ->
  holding s' = holding s.
Proof.
  intros H Hv Hr Hh Hc. unfold apply_entry in H. rewrite Hv, Hr, Hh in H.
  apply rbind_ok in H as (s1 & H1 & H2). rewrite Hc in H2. apply insert_history_ok in H1 as (_ & _ & _ & _ & A5).
  destruct (apply_batch c h s1 (e_hash e) txs ∅ ∅) as [s2|code| |code] eqn:Eb.
  - inversion H2; subst. rewrite <- (frC_apply_batch c _ _ _ _ _ _ _ Eb). exact A5.
  - destruct (code =? -1); inversion H2; subst. exact A5.
  - inversion H2; subst. exact A5.
  - discriminate.
Qed.

Lemma nodup_snoc {A} (l : list A) x : NoDup l -> ~ In x l -> NoDup (l ++ [x]).
Proof.
  induction l as [|y l IH]; intros Hnd Hn; cbn [app]; [constructor; [intros []|constructor]|].
  inversion Hnd as [|? ? Hy Hnd']; subst. constructor.
  - intros Hin. apply in_app_or in Hin as [Hin|[->|[]]]; [contradiction|apply Hn; left; reflexivity].
  - apply IH; [exact Hnd'|intros Hin; apply Hn; right; exact Hin].
Qed.

Lemma G_apply_entry h s order e s' :
  0 < h -> entry_clean e = true -> apply_entry c h s order e = Ok s' -> G s -> G s'.
Proof.
  intros Hh Hclean H (K1 & [K2 K2'] & K3).
  split; [exact (hist_ok_apply_entry c h s order e s' Hh H K1)|]. split; [|unfold rates_nonneg; rewrite <- (frB_apply_entry c _ _ _ _ _ H); exact K3].
  pose proof (frA_apply_entry c _ _ _ _ _ H) as (_ & Hrel & _). cbn [pA fst snd] in Hrel.
  pose proof H as H0. unfold apply_entry in H.
  destruct (entry_valid_at c e h) as [txs|] eqn:Ev; [|inversion H; subst; split; assumption].
  destruct (is_replay s (e_hash e)) eqn:Er; [inversion H; subst; split; assumption|].
  destruct (hist_has s (e_hash e)) eqn:Eh; [inversion H; subst; split; assumption|].
  assert (Hfresh : has_batch (hist s) (e_hash e) = false) by exact Eh.
  assert (Hrows0 : rows_of (e_hash e) (htxs s) = []) by (apply rows_have_batch_none; [apply K1|exact Hfresh]).
  assert (Hne : forall x, held_inv s x -> e_hash (h_entry x) <> e_hash e).
  { intros x (I1 & _) E. rewrite E in I1. congruence. }
  destruct (has_conversions txs) eqn:Ec.
  - (* into holding *)
    apply rbind_ok in H as (s1 & H1 & H2). apply insert_history_ok in H1 as (A1 & A2 & A3 & A4 & A5).
    unfold insert_holding in H2. destruct (holding_has s1 (e_hash e)) eqn:Ehh; [discriminate|]. inversion H2; subst s'. clear H2.
    unfold held_ok. cbn [holding hist htxs rel set_holding] in *. rewrite A5.
    destruct (rows_of_all (e_hash e) _ (pend_rows_hash (e_hash e) txs 0)) as [P1 P2].
    split.
    + apply Forall_app. split.
      * eapply Forall_impl; [|exact K2]. intros x Hx. pose proof Hx as (I1 & _).
        apply (held_inv_keep s _ x Hx); cbn [hist htxs rel set_holding].
        -- rewrite A1, has_batch_app, I1. reflexivity.
        -- left. rewrite A1. apply exec_of_app_old; exact I1.
        -- rewrite A4. reflexivity.
        -- rewrite A2, rows_of_app. replace (rows_of (e_hash (h_entry x)) (pend_rows (e_hash e) 0 txs)) with (@nil htx); [apply app_nil_r|].
           symmetry. apply rows_of_none. eapply Forall_impl; [|apply pend_rows_hash]. cbn. intros r -> E. exact (Hne x Hx (eq_sym E)).
      * constructor; [|constructor]. unfold held_inv. cbn [h_entry h_height hist htxs set_holding].
        assert (Ex : exec_of (hist s1) (e_hash e) = 0).
        { rewrite A1, (exec_of_app_new _ _ _ Hfresh). unfold exec_of. cbn [find hb_hash]. rewrite Z.eqb_refl. reflexivity. }
        split; [rewrite A1, has_batch_app; unfold has_batch at 2; cbn [existsb hb_hash]; rewrite Z.eqb_refl; apply orb_true_r|].
        split; [exact Hclean|]. split; [rewrite Ex; lia|].
        intros _ txs' Hv'. rewrite Ev in Hv'. inversion Hv'; subst txs'. rewrite A2, rows_of_app, Hrows0, P1. reflexivity.
    + rewrite map_app. cbn [map h_entry]. apply nodup_snoc; [exact K2'|].
      intros Hin. apply in_map_iff in Hin as (x & Ex & Hin). unfold holding_has in Ehh. rewrite A5 in Ehh.
      assert (existsb (fun x0 => e_hash (h_entry x0) =? e_hash e) (holding s) = true); [|congruence].
      apply existsb_exists. exists x. split; [exact Hin|]. apply Z.eqb_eq. exact Ex.
  - (* applied directly *)
    unfold held_ok. rewrite (apply_entry_holding_same _ _ _ _ _ _ H0 Ev Er Eh Ec).
    destruct (apply_entry_history c h s order e txs s' H0 Ev Er Eh Ec Hrows0) as (N & Hcases).
    assert (Hhist : exists code, hist s' = hist s ++ [batch_row e h order code]).
    { destruct Hcases as [(_ & _ & R3 & _)|(_ & _ & [R3|R3])]; eauto. }
    destruct Hhist as (code & Hhist).
    split; [|exact K2']. eapply Forall_impl; [|exact K2]. intros x Hx. pose proof Hx as (I1 & _). pose proof (Hne x Hx) as Hd.
    apply (held_inv_keep s s' x Hx).
    + rewrite Hhist, has_batch_app, I1. reflexivity.
    + left. rewrite Hhist. apply exec_of_app_old; exact I1.
    + exact Hrel.
    + rewrite <- (rows_of_via_not _ (e_hash e) (htxs s') Hd), N. apply rows_of_via_not; exact Hd.
Qed.

Lemma G_apply_tx_block h s es s' :
  0 < h -> forallb entry_clean es = true -> apply_tx_block c h s es = Ok s' -> G s -> G s'.
Proof.
  intros Hh. unfold apply_tx_block. generalize 0 as i. revert s.
  induction es as [|e es IH]; intros s i Hcl H HG; cbn [fold_left snd] in H.
  - inversion H; subst; exact HG.
  - cbn [forallb] in Hcl. apply andb_prop in Hcl as [Hc1 Hc2]. cbn [rbind] in H.
    destruct (apply_entry c h s i e) as [s1|code|code] eqn:E.
    + eapply IH; [exact Hc2|exact H|]. eapply G_apply_entry; eauto.
    + exfalso. clear -H. revert H. generalize (i + 1). induction es as [|y l IHl]; intros j H; cbn in H; [discriminate|eauto].
    + exfalso. clear -H. revert H. generalize (i + 1). induction es as [|y l IHl]; intros j H; cbn in H; [discriminate|eauto].
Qed.

(* ---- the holding path ------------------------------------------------------------------------------------------------ *)
Lemma replay_after_insert (m : gmap Z (list (Z * Z * bool * bool))) (hs a : Z) (r : Z * Z * bool * bool) :
  match (if existsb (fun r0 : Z * Z * bool * bool => fst (fst (fst r0)) =? a) (default [] (m !! hs))
         then m else <[hs := default [] (m !! hs) ++ [r]]> m) !! hs
  with Some (_ :: _) => true | _ => false end = true.
Proof.
  destruct (m !! hs) as [rows|] eqn:E; cbn [from_option id].
  - destruct (existsb _ rows) eqn:Ex.
    + rewrite E. destruct rows; [discriminate|reflexivity].
    + rewrite lookup_insert. destruct rows; reflexivity.
  - cbn [existsb]. rewrite lookup_insert. reflexivity.
Qed.
Lemma insert_relation_replay s a hs i t cv : is_replay (insert_relation s a hs i t cv) hs = true.
Proof.
  unfold insert_relation, is_replay. cbv zeta.
  pose proof (replay_after_insert (rel s) hs a (a, i, t || cv, cv)) as P.
  match goal with |- context [rel (if ?b then s else set_rel s ?M)] =>
    replace (rel (if b then s else set_rel s M)) with (if b then rel s else M) by (destruct b; reflexivity) end.
  exact P.
Qed.

Lemma record_txs_replayed h hs rates0 avgs t txs idx s s' :
  record_txs c h hs rates0 avgs idx (t :: txs) s = Ok s' -> is_replay s' hs = true.
Proof.
  intros H. cbn [record_txs] in H.
  destruct (sub_from_balance s (tx_addr t) (tx_type t) (tx_amt t)) as [s1| |code] eqn:Es; try discriminate.
  set (s2 := insert_relation s1 (tx_addr t) hs idx false (is_conversion t)) in *.
  set (s3 := set_executed s2 hs h) in *.
  assert (R3 : is_replay s3 hs = true) by (unfold s3, s2, is_replay; cbn [rel set_executed set_hist]; apply insert_relation_replay).
  assert (Hk : forall sk, rel_ext (rel s3) (rel sk) -> record_txs c h hs rates0 avgs (idx + 1) txs sk = Ok s' -> is_replay s' hs = true).
  { intros sk Hr Hrest. pose proof (pr_record_txs pA RA obA_bal obA_rel obA_exec obA_amt c _ _ _ _ _ _ _ _ Hrest) as (_ & Hr2 & _).
    cbn [pA fst snd] in Hr2. eapply is_replay_mono; [exact Hr2|]. eapply is_replay_mono; [exact Hr|exact R3]. }
  destruct ((c_PegnetConversionLimitActivation c <=? h) && is_peg_request t).
  - destruct (conv_of c h rates0 avgs t); [|discriminate]. apply (Hk s3); [reflexivity|exact H].
  - destruct (is_conversion t).
    + destruct (conv_of c h rates0 avgs t) as [out|]; [|discriminate]. apply rbind_ok in H as (s5 & Hadd & Hrest).
      destruct (add_to_balance_tables _ _ _ _ _ Hadd) as (_ & _ & U3 & _). apply (Hk s5); [|exact Hrest].
      rewrite U3. reflexivity.
    + apply rbind_ok in H as (s4 & Hc & Hrest). apply (Hk s4); [|exact Hrest].
      pose proof (pr_credit_transfers pA RA obA_bal obA_rel c _ _ _ _ _ _ _ Hc) as (_ & Hr & _). exact Hr.
Qed.

Lemma nodup_map_inj_in {A B} (f : A -> B) (l : list A) x y : NoDup (map f l) -> In x l -> In y l -> f x = f y -> x = y.
Proof.
  induction l as [|z l IH]; intros Hnd Hx Hy E; [contradiction|]. cbn [map] in Hnd. inversion Hnd as [|? ? Hn Hnd']; subst.
  destruct Hx as [->|Hx], Hy as [->|Hy]; auto.
  - exfalso. apply Hn. rewrite E. apply in_map; exact Hy.
  - exfalso. apply Hn. rewrite <- E. apply in_map; exact Hx.
Qed.

Lemma G_apply_held cur rates0 avgs s x s' isp :
  0 < cur -> h_height x <= cur -> In x (holding s) ->
  (forall t, 0 <= rate_of rates0 t) -> (forall t, 0 <= rate_of avgs t) ->
  apply_held c cur rates0 avgs s (h_entry x) (h_height x) = Ok (s', isp) ->
  G s -> G s' /\ isp = false /\ holding s' = holding s.
Proof.
  intros Hcur Hle Hin Hr0 Ha0 H HG. pose proof HG as (K1 & [K2 K2'] & K3).
  pose proof (proj1 (Forall_forall _ _) K2 x Hin) as (I1 & I2 & I3 & I4).
  set (e := h_entry x) in *. set (hh := h_height x) in *. set (X := e_hash e) in *.
  destruct (entry_valid_at c e hh) as [txs|] eqn:Hv.
  2:{ unfold apply_held in H. rewrite Hv in H. inversion H; subst. auto. }
  destruct (clean_facts e hh txs I2 Hv) as (Hpc & Hpr & Hnd).
  pose proof (entry_valid_at_mono e hh cur txs Hv Hle) as Hvc.
  destruct (is_replay s X) eqn:Er.
  { unfold apply_held in H. rewrite Hv, Hpc, andb_false_r, Hvc in H. fold X in H. rewrite Er in H. inversion H; subst. auto. }
  assert (Hexec : exec_of (hist s) X <= 0).
  { destruct (Z.ltb_spec 0 (exec_of (hist s) X)) as [Hp|Hp]; [|exact Hp]. specialize (I3 Hp). discriminate. }
  pose proof (I4 eq_refl txs eq_refl) as Hrows. rewrite <- history_rows_of_pend in Hrows.
  pose proof (convs_fit_nonneg_rates c cur rates0 avgs txs Hr0 Ha0) as Hfit.
  pose proof (hist_ok_apply_held c cur rates0 avgs s e hh s' isp txs Hcur H Hv (Hnd cur) Hfit Hrows Hexec K1) as Hok'.
  pose proof (frA_apply_held c _ _ _ _ _ _ _ _ H) as (_ & Hrel & _). cbn [pA fst snd] in Hrel.
  pose proof (frC_apply_held c _ _ _ _ _ _ _ _ H) as Hhold. unfold pC in Hhold.
  pose proof (frB_apply_held c _ _ _ _ _ _ _ _ H) as Hrates. unfold pB in Hrates.
  destruct (apply_held_history c cur rates0 avgs s e hh s' isp txs H Hv (Hnd cur) Hfit Hrows) as (Hisp & D).
  assert (F1 : hist s' = hist s \/ exists code, hist s' = mark_exec X code (hist s)).
  { destruct D as [(_ & _ & _ & R3 & _)|(_ & _ & [R3|(code & _ & R3)])]; [destruct txs; [left|right; eexists]; exact R3|left; exact R3|right; eexists; exact R3]. }
  assert (F2 : rows_not X (htxs s') = rows_not X (htxs s)).
  { destruct D as [(_ & _ & R2 & _)|(R1 & _)]; [exact R2|rewrite R1; reflexivity]. }
  assert (Hb' : forall Y, has_batch (hist s) Y = true -> has_batch (hist s') Y = true).
  { intros Y HY. destruct F1 as [->|(code & ->)]; [exact HY|rewrite has_batch_mark; exact HY]. }
  split; [|split; [exact Hisp|symmetry; exact Hhold]].
  split; [exact Hok'|]. split; [|unfold rates_nonneg; rewrite <- Hrates; exact K3].
  unfold held_ok. rewrite <- Hhold. split; [|exact K2'].
  apply Forall_forall. intros y Hy. pose proof (proj1 (Forall_forall _ _) K2 y Hy) as Iy.
  destruct (Z.eq_dec (e_hash (h_entry y)) X) as [E|N].
  - (* the batch itself *)
    assert (y = x) by (eapply (nodup_map_inj_in (fun x0 => e_hash (h_entry x0))); eauto). subst y.
    destruct D as [(Eb & R1 & _ & R3 & _)|(R1 & _ & R3)].
    + fold e. fold X. split; [apply Hb'; exact I1|]. split; [exact I2|].
      destruct txs as [|t0 txs0].
      * cbv iota in R3. split; [rewrite R3; intros Hp; exfalso; unfold X, e in Hexec; lia|]. intros _ txs' Hv'. change (entry_valid_at c e hh = Some txs') in Hv'. rewrite Hv in Hv'. inversion Hv'; subst txs'.
        exact R1.
      * assert (Rp : is_replay s' X = true).
        { apply apply_batch_applied_is_record in Eb. unfold record_batch in Eb. eapply record_txs_replayed; exact Eb. }
        split; [intros _; exact Rp|]. intros Hn. change (is_replay s' X = false) in Hn. rewrite Rp in Hn. discriminate.
    + apply (held_inv_keep s s' x Iy); fold e; fold X.
      * apply Hb'; exact I1.
      * right. destruct R3 as [->|(code & Hc & ->)]; [exact Hexec|]. rewrite (exec_of_mark_same _ _ _ I1). lia.
      * exact Hrel.
      * rewrite R1. reflexivity.
  - apply (held_inv_keep s s' y Iy).
    + apply Hb'. apply Iy.
    + left. destruct F1 as [->|(code & ->)]; [reflexivity|apply exec_of_mark_other; exact N].
    + exact Hrel.
    + rewrite <- (rows_of_via_not _ X (htxs s') N), F2. apply rows_of_via_not; exact N.
Qed.

Lemma G_set_bank s v : G s -> G (set_bank s v).
Proof. apply G_same; reflexivity. Qed.

Lemma G_record_peg_none h s rates0 avgs bankamt bh s' :
  record_peg_requests c h s [] rates0 avgs bankamt bh = Ok s' -> G s -> G s' /\ holding s' = holding s.
Proof.
  unfold record_peg_requests, record_peg_requests_ord. cbn [flat_map map has_dup_txid payouts fold_left rbind].
  destruct (_ <=? bh).
  - intros H HG. apply update_bank_shape in H as (v & ->). split; [apply G_set_bank; exact HG|reflexivity].
  - intros H HG; inversion H; subst; auto.
Qed.

Lemma in_holding_at cm hh e : In e (holding_at cm hh) -> exists x, In x (holding cm) /\ h_entry x = e /\ h_height x = hh.
Proof.
  unfold holding_at. intros H. apply in_map_iff in H as (x & E & Hx). apply filter_In in Hx as [Hx Hh].
  exists x. split; [exact Hx|]. split; [exact E|]. lia.
Qed.

Lemma G_apply_held_height cm cur rates0 avgs hh s s' pegs' :
  0 < cur -> hh <= cur -> (forall x, In x (holding cm) -> In x (holding s)) ->
  (forall t, 0 <= rate_of rates0 t) -> (forall t, 0 <= rate_of avgs t) ->
  apply_held_height c cm cur rates0 avgs hh (Ok (s, [])) = Ok (s', pegs') ->
  G s -> G s' /\ pegs' = [] /\ holding s' = holding s.
Proof.
  intros Hcur Hle Hsub Hr0 Ha0 H HG. unfold apply_held_height in H. cbn [rbind] in H.
  apply rbind_ok in H as ([s1 pegs1] & H1 & H2).
  pose (f := fun (st : db * list (hash * list tx)) (e : entry) =>
               let '(s, pegs) := st in
               let? r1 := apply_held c cur rates0 avgs s e hh in
               let '(s', isp) := r1 in
               Ok (s', if isp then pegs ++ [(e_hash e, default [] (e_batch e))] else pegs)).
  pose (P := fun st : db * list (hash * list tx) => G (fst st) /\ snd st = [] /\ holding (fst st) = holding s).
  assert (Hstep : forall st e st', In e (holding_at cm hh) -> P st -> f st e = Ok st' -> P st').
  { intros [s0 p0] e [s2 p2] Hin (P1 & P2 & P3) Hs. cbn [fst snd] in *. unfold f in Hs.
    apply rbind_ok in Hs as ([s3 isp] & Ha & Hr). inversion Hr; subst s2 p2. clear Hr.
    apply in_holding_at in Hin as (x & Hx & <- & <-).
    assert (Hx0 : In x (holding s0)) by (rewrite P3; apply Hsub; exact Hx).
    destruct (G_apply_held cur rates0 avgs s0 x s3 isp Hcur Hle Hx0 Hr0 Ha0 Ha P1) as (Q1 & -> & Q3).
    split; [exact Q1|]. split; [exact P2|]. cbn [fst]. congruence. }
  assert (HP1 : P (s1, pegs1)).
  { refine (fold_res_inv_in P f _ Hstep (s, []) (s1, pegs1) _ H1). unfold P. cbn. auto. }
  destruct HP1 as (Q1 & Q2 & Q3). cbn [fst snd] in *. subst pegs1.
  destruct (_ && _).
  - apply rbind_ok in H2 as (s2 & Hr & Hk). inversion Hk; subst.
    destruct (G_record_peg_none _ _ _ _ _ _ _ Hr Q1) as [Q4 Q5]. split; [exact Q4|]. split; [reflexivity|congruence].
  - inversion H2; subst. auto.
Qed.

Lemma G_apply_holding cm cur s rates0 avgs s' :
  0 < cur -> (forall x, In x (holding cm) -> In x (holding s)) ->
  (forall t, 0 <= rate_of rates0 t) -> (forall t, 0 <= rate_of avgs t) ->
  apply_holding c cm cur s rates0 avgs = Ok s' -> G s -> G s'.
Proof.
  intros Hcur Hsub Hr0 Ha0 H HG. rewrite apply_holding_uses_window in H.
  apply rbind_ok in H as ([s1 pegs] & H1 & H2).
  assert (Q : G s1 /\ pegs = [] /\ holding s1 = holding s).
  { clear H2. assert (Hw : forall g, In g (window s cur) -> g <= cur) by (intros g Hg; apply window_spec in Hg; lia).
    revert Hw H1. generalize (window s cur) as hs. intros hs.
    assert (Gen : forall hs0 s0, (forall g, In g hs0 -> g <= cur) -> G s0 -> holding s0 = holding s ->
              fold_left (fun acc hh => apply_held_height c cm cur rates0 avgs hh acc) hs0 (Ok (s0, [])) = Ok (s1, pegs) ->
              G s1 /\ pegs = [] /\ holding s1 = holding s).
    { induction hs0 as [|hh l IH]; intros s0 Hw HG0 Hh0 HF; cbn [fold_left] in HF; [inversion HF; subst; auto|].
      destruct (apply_held_height c cm cur rates0 avgs hh (Ok (s0, []))) as [[s2 p2]|code|code] eqn:E.
      - assert (Hsub0 : forall x, In x (holding cm) -> In x (holding s0)) by (rewrite Hh0; exact Hsub).
        destruct (G_apply_held_height cm cur rates0 avgs hh s0 s2 p2 Hcur (Hw hh (or_introl eq_refl)) Hsub0 Hr0 Ha0 E HG0) as (Q1 & -> & Q3).
        apply (IH s2); [intros; apply Hw; right; assumption|exact Q1|congruence|exact HF].
      - exfalso. clear -HF. induction l as [|y l IHl]; cbn in HF; [discriminate|auto].
      - exfalso. clear -HF. induction l as [|y l IHl]; cbn in HF; [discriminate|auto]. }
    intros Hw H1. exact (Gen hs s Hw HG eq_refl H1). }
  destruct Q as (Q1 & -> & Q3).
  destruct (_ && _).
  - destruct (bank s1 !! cur) as [[[am ?] ?]|]; exact (proj1 (G_record_peg_none _ _ _ _ _ _ _ H2 Q1)).
  - inversion H2; subst; exact Q1.
Qed.

(* ---- rates and averages are non-negative ------------------------------------------------------------------------------ *)
Definition map_nonneg (m : gmap ticker Z) : Prop := forall t, 0 <= rate_of m t.
Lemma map_nonneg_empty : map_nonneg ∅.
Proof. intros t. unfold rate_of. rewrite lookup_empty. cbn. lia. Qed.
Lemma map_nonneg_insert m k v : map_nonneg m -> 0 <= v -> map_nonneg (<[k := v]> m).
Proof.
  intros Hm Hv t. unfold rate_of. destruct (Z.eq_dec k t) as [->|N]; [rewrite lookup_insert; cbn; exact Hv|].
  rewrite lookup_insert_ne by exact N. apply Hm.
Qed.

Lemma avg_of_nonneg P req l : 0 <= avg_of P req l.
Proof.
  unfold avg_of. destruct (_ <? req); [lia|]. destruct l as [|v l0]; [lia|].
  apply Z.div_pos; [apply wrap64_nonneg|]. cbn [length]. lia.
Qed.
Lemma compute_avgs_nonneg cm P h : map_nonneg (compute_avgs cm P h).
Proof.
  unfold compute_avgs. generalize all_tickers as l. induction l as [|t l IH]; cbn [fold_right]; [apply map_nonneg_empty|].
  cbv zeta. destruct (_ =? 0); [exact IH|]. apply map_nonneg_insert; [exact IH|apply avg_of_nonneg].
Qed.
Definition cache_nonneg (mem : avgcache) : Prop := map_nonneg (ac_avgs mem).
Lemma get_averages_nonneg cm P mem k avgs mem' :
  cache_nonneg mem -> get_averages cm P mem k = (avgs, mem') -> map_nonneg avgs /\ cache_nonneg mem'.
Proof.
  unfold get_averages. intros Hm. destruct (_ =? k); intros H; inversion H; subst; [auto|].
  split; [apply compute_avgs_nonneg|unfold cache_nonneg; cbn [ac_avgs]; apply compute_avgs_nonneg].
Qed.

Definition assets_nonneg (l : list (Z * Z)) : Prop := Forall (fun a => 0 <= snd a) l.

Lemma G_insert_rates cm h s assets ph s' :
  insert_rates cm h s assets ph = Ok s' -> assets_nonneg assets -> G s -> G s'.
Proof.
  intros H Ha (K1 & K2 & K3). unfold insert_rates in H. destruct (rates s !! h) eqn:Eh; [discriminate|].
  set (others := filter (fun a : Z * Z => negb (fst a =? PTickerPEG)) assets) in *.
  do 3 (match type of H with (if ?b then _ else _) = _ => destruct b; [discriminate|] end). cbv zeta in H.
  match type of H with (if two63 <=? ?p then _ else _) = _ => set (peg := p) in H end.
  destruct (two63 <=? peg); [discriminate|]. inversion H; subst s'. clear H.
  assert (Hpeg : 0 <= peg).
  { unfold peg. destruct (ph =? 1); [lia|]. destruct (ph =? 2).
    - destruct (_ =? 0); [lia|apply wrap64_nonneg].
    - clear -Ha. assert (Gen : forall l acc, assets_nonneg l -> 0 <= acc ->
                  0 <= fold_left (fun acc0 (a : Z * Z) => if fst a =? PTickerPEG then snd a else acc0) l acc).
      { induction l as [|a l IH]; intros acc Hl Hacc; cbn [fold_left]; [exact Hacc|]. inversion Hl; subst.
        apply IH; [assumption|]. destruct (_ =? PTickerPEG); assumption. }
      apply Gen; [exact Ha|lia]. }
  assert (Hoth : assets_nonneg others).
  { unfold others, assets_nonneg in *. rewrite Forall_forall in *. intros a Hin. apply filter_In in Hin as [Hin _]. apply Ha; exact Hin. }
  assert (Hm : forall l m0, assets_nonneg l -> map_nonneg m0 ->
             map_nonneg (fold_left (fun m (a : Z * Z) => if valid_ticker (fst a) then <[fst a := snd a]> m else m) l m0)).
  { induction l as [|a l IH]; intros m0 Hl Hm0; cbn [fold_left]; [exact Hm0|]. inversion Hl; subst.
    apply IH; [assumption|]. destruct (valid_ticker _); [apply map_nonneg_insert; assumption|exact Hm0]. }
  split; [|split].
  - revert K1. apply hist_ok_frame; reflexivity.
  - destruct K2 as [K2 K2']. split; [|exact K2']. cbn [holding set_rates]. eapply Forall_impl; [|exact K2].
    intros x Hx. apply (held_inv_keep s _ x Hx); try reflexivity; [apply Hx|left; reflexivity].
  - intros k m t Hk. cbn [rates set_rates] in Hk. destruct (Z.eq_dec k h) as [->|N].
    + rewrite lookup_insert in Hk. inversion Hk; subst m. apply map_nonneg_insert; [|exact Hpeg].
      apply Hm; [exact Hoth|apply map_nonneg_empty].
    + rewrite lookup_insert_ne in Hk by auto. eapply K3; exact Hk.
Qed.

Lemma band_filter_nonneg h v0 o : forall sp l,
  assets_nonneg o -> assets_nonneg sp -> band_filter c h v0 o sp = RSel l -> assets_nonneg l.
Proof.
  induction o as [|[on ov] o IH]; intros sp l Ho Hs H; cbn [band_filter] in H; [inversion H; constructor|].
  destruct sp as [|[sn sv] sp]; [inversion H; constructor|].
  inversion Ho as [|? ? Hov Ho']; subst. inversion Hs as [|? ? Hsv Hs']; subst. cbn [snd] in *.
  destruct (on =? sn); [|eapply IH; eauto].
  destruct (in_band _ ov sv).
  - destruct (band_filter c h v0 o sp) as [l0|] eqn:E; [|discriminate]. inversion H; subst.
    constructor; [exact Hov|eapply IH; eauto].
  - destruct (_ && _); [|discriminate].
    destruct (band_filter c h v0 o sp) as [l0|] eqn:E; [|discriminate]. inversion H; subst.
    constructor; [cbn; lia|eapply IH; eauto].
Qed.
Lemma select_rates_nonneg h o sp l :
  assets_nonneg o -> assets_nonneg sp -> select_rates c h o sp = RSel l -> assets_nonneg l.
Proof.
  intros Ho Hs H. unfold select_rates in H. destruct o as [|o0 o']; destruct sp as [|s0 s''].
  - discriminate.
  - inversion H; subst; exact Hs.
  - inversion H; subst; exact Ho.
  - destruct (Nat.eqb _ _); [|discriminate]. exact (band_filter_nonneg _ _ _ _ _ Ho Hs H).
Qed.

(* the verdicts the block hands to the model satisfy the static conditions *)
Lemma first_assets_nonneg v : match v with Some v' => verdict_okb v' = true | None => True end -> assets_nonneg (first_assets v).
Proof.
  destruct v as [v|]; [|intros _; constructor]. intros H. unfold first_assets. destruct (v_winners v); [constructor|].
  unfold verdict_okb in H. apply andb_prop in H as [_ H]. rewrite forallb_forall in H.
  apply Forall_forall. intros a Ha. specialize (H a Ha). lia.
Qed.
Lemma grade_opr_ok cm b v : block_okb b = true -> grade_opr c cm b = Done (Some v) -> verdict_okb v = true.
Proof.
  unfold block_okb, grade_opr. intros Hb H. destruct (b_opr b) as [oi|]; [|discriminate].
  apply andb_prop in Hb as [Hb _]. apply andb_prop in Hb as [_ Hb]. rewrite forallb_forall in Hb.
  destruct (find _ (oi_alts oi)) as [[k [v0|]]|] eqn:E; try discriminate. inversion H; subst.
  apply find_some in E as [E _]. exact (Hb _ E).
Qed.
Lemma grade_spr_ok cm b v : block_okb b = true -> grade_spr c cm b = Done (Some v) -> verdict_okb v = true.
Proof.
  unfold block_okb, grade_spr. intros Hb H. destruct (b_spr b) as [si|]; [|discriminate].
  apply andb_prop in Hb as [_ Hb]. rewrite forallb_forall in Hb. cbv zeta in H.
  destruct (find _ (si_alts si)) as [[k [v0|]]|] eqn:E; try discriminate. inversion H; subst.
  apply find_some in E as [E _]. exact (Hb _ E).
Qed.

(* ---- one-time adjustments ------------------------------------------------------------------------------------------------ *)
Lemma G_add_special s a t v s' : special_addr a = true -> add_to_balance s a t v = Ok s' -> G s -> G s'.
Proof.
  intros Ha H. pose proof (fun a' t' => get_bal_add _ _ _ _ _ a' t' H) as Hb. apply add_to_balance_ok in H as (_ & _ & ->).
  apply G_same; try reflexivity. intros a' t' Hsp. rewrite (Hb a' t').
  destruct (Z.eqb_spec a a') as [<-|N]; [rewrite Ha in Hsp; discriminate|]. cbn. lia.
Qed.
Lemma G_sub_ignoring_special s a t v s' : special_addr a = true -> sub_ignoring_txerr s a t v = Ok s' -> G s -> G s'.
Proof.
  intros Ha H HG. unfold sub_ignoring_txerr in H.
  destruct (sub_from_balance s a t v) as [s1| |code] eqn:E; inversion H; subst; [|exact HG].
  pose proof (fun a' t' => get_bal_sub _ _ _ _ _ a' t' E) as Hb. apply sub_from_balance_ok in E as (_ & _ & _ & ->).
  revert HG. apply G_same; try reflexivity. intros a' t' Hsp. rewrite (Hb a' t').
  destruct (Z.eqb_spec a a') as [<-|N]; [rewrite Ha in Hsp; discriminate|]. cbn. lia.
Qed.
Lemma G_mint_tokens s s' : mint_tokens s = Ok s' -> G s -> G s'.
Proof.
  unfold mint_tokens. generalize mint_list as l. intros l H HG.
  refine (fold_res_inv G (fun s0 m => add_to_balance s0 GlobalMintAddress (fst m) (snd m)) l _ s s' HG H).
  intros s0 m s1 HG0 Hs. exact (G_add_special _ _ _ _ _ special_mint Hs HG0).
Qed.
Lemma G_nullify_minted cm s s' : nullify_minted cm s = Ok s' -> G s -> G s'.
Proof.
  unfold nullify_minted. generalize mint_list as l. intros l H HG.
  refine (fold_res_inv G (fun s0 m => sub_ignoring_txerr s0 GlobalMintAddress (fst m) (get_bal (bal cm) GlobalMintAddress (fst m))) l _ s s' HG H).
  intros s0 m s1 HG0 Hs. exact (G_sub_ignoring_special _ _ _ _ _ special_mint Hs HG0).
Qed.

Lemma frA_apply_tx_block h s es s' : apply_tx_block c h s es = Ok s' -> RA (pA s) (pA s').
Proof. exact (pr_apply_tx_block pA RA obA_bal obA_rel obA_exec obA_hb obA_amt obA_htx obA_hold c h s es s'). Qed.
Lemma frA_apply_holding cm cur s rates0 avgs s' : apply_holding c cm cur s rates0 avgs = Ok s' -> RA (pA s) (pA s').
Proof. exact (pr_apply_holding pA RA obA_bal obA_rel obA_exec obA_amt obA_peg obA_ubank c cm cur s rates0 avgs s'). Qed.

(* ---- the block ------------------------------------------------------------------------------------------------------------ *)
Section Block.
Variable cm : db.
(* what is carried through the block's transaction: the held batches the pool shows are still in the pending
   holding table, and the invariant holds as soon as the batch-row hashes of the state are distinct *)
Definition Wst (s : db) : Prop :=
  (forall x, In x (holding cm) -> In x (holding s)) /\ (NoDup (hashes s) -> G s).

Lemma W_step s s' :
  RA (pA s) (pA s') ->
  (G s -> NoDup (hashes s') -> (forall x, In x (holding cm) -> In x (holding s)) -> G s') ->
  Wst s -> Wst s'.
Proof.
  intros (Hp & _ & Hh) Hg [W1 W2]. cbn [pA fst snd] in Hp, Hh. split.
  - intros x Hx. destruct Hh as [k ->]. apply in_or_app. left. apply W1; exact Hx.
  - intros Hnd. apply Hg; [|exact Hnd|exact W1]. apply W2. destruct Hp as [k Hk]. rewrite Hk in Hnd. exact (nodup_app_l _ _ Hnd).
Qed.
Lemma W_same s s' :
  hist s' = hist s -> htxs s' = htxs s -> rel s' = rel s -> holding s' = holding s -> rates s' = rates s -> bal s' = bal s ->
  Wst s -> Wst s'.
Proof.
  intros H1 H2 H3 H4 H5 H6. apply W_step; [apply RA_same; unfold hashes; congruence|].
  intros HG _ _. revert HG. apply G_same; try assumption. intros a t _. rewrite H6. reflexivity.
Qed.

Ltac done_step H x Hx := apply obind_done in H as (x & Hx & H).

Lemma block_okb_facts b :
  block_okb b = true ->
  0 < b_height b /\ (forall es, b_tx b = Some es -> forallb entry_clean es = true).
Proof.
  unfold block_okb. intros H. apply andb_prop in H as [H _]. apply andb_prop in H as [H _]. apply andb_prop in H as [H1 H2].
  split; [lia|]. intros es E. rewrite E in H2. exact H2.
Qed.
Lemma verdict_winners_ok v : verdict_okb v = true -> forallb winner_okb (v_winners v) = true.
Proof. unfold verdict_okb. intros H. apply andb_prop in H as [H _]. exact H. Qed.

Lemma sync_block_W mem b s s' mem' :
  block_okb b = true -> cache_nonneg mem -> Wst s ->
  sync_block c cm mem b s = Done (s', mem') -> Wst s' /\ cache_nonneg mem'.
Proof.
  intros Hb Hmem HW H. destruct (block_okb_facts b Hb) as [Hh Hes].
  unfold sync_block in H. cbv zeta in H.
  done_step H s1 H1. apply of_res_done in H1.
  assert (E1 : Wst s1).
  { destruct (_ =? c_V204EnhanceActivation c); [|inversion H1; subst; exact HW].
    revert HW. apply W_step; [exact (frA_mint _ _ H1)|]. intros HG _ _. exact (G_mint_tokens _ _ H1 HG). }
  clear H1 HW. done_step H s2 H2. apply of_res_done in H2.
  assert (E2 : Wst s2).
  { destruct (_ =? c_V204BurnMintedTokenActivation c); [|inversion H2; subst; exact E1].
    revert E1. apply W_step; [exact (frA_nullify_minted _ _ _ H2)|]. intros HG _ _. exact (G_nullify_minted _ _ _ H2 HG). }
  clear H2 E1 s1. done_step H graded Hg. done_step H gradedS HgS.
  assert (Vg : match graded with Some v => verdict_okb v = true | None => True end).
  { destruct graded as [v|]; [|exact I]. eapply grade_opr_ok; eauto. }
  assert (VgS : match gradedS with Some v => verdict_okb v = true | None => True end).
  { destruct gradedS as [v|]; [|exact I]. destruct (c_V20HeightActivation c <=? b_height b); [|discriminate]. eapply grade_spr_ok; eauto. }
  assert (Wgrade : forall h s0 v s4, insert_grade h s0 v = Ok s4 -> Wst s0 -> Wst s4).
  { intros h s0 v s4 Hi. apply insert_grade_shape in Hi as (? & ? & ->). apply W_same; reflexivity. }
  assert (Wrates : forall h s0 a ph s4, insert_rates cm h s0 a ph = Ok s4 -> assets_nonneg a -> Wst s0 -> Wst s4).
  { intros h s0 a ph s4 Hi Ha. pose proof Hi as Hi'. apply insert_rates_shape in Hi' as (_ & m & ->).
    apply W_step; [apply RA_same; reflexivity|]. intros HG _ _. exact (G_insert_rates _ _ _ _ _ _ Hi Ha HG). }
  done_step H st Hst. destruct st as [[s3 is_rates] ended].
  assert (E3 : Wst s3).
  { destruct (_ <? c_V20HeightActivation c).
    - destruct graded as [v|]; [|inversion Hst; subst; exact E2].
      done_step Hst s4 H4. apply of_res_done in H4. pose proof (Wgrade _ _ _ _ H4 E2) as E4.
      destruct (v_winners v) eqn:Ew; [inversion Hst; subst; exact E4|].
      done_step Hst s5 H5. apply of_res_done in H5. inversion Hst; subst.
      refine (Wrates _ _ _ _ _ H5 _ E4). pose proof (first_assets_nonneg (Some v) Vg) as F. unfold first_assets in F. rewrite Ew in F. exact F.
    - destruct (grade_spr_err c cm b); [discriminate|].
      done_step Hst s4 H4.
      assert (E4 : Wst s4).
      { destruct graded as [v|]; [apply of_res_done in H4; exact (Wgrade _ _ _ _ H4 E2)|inversion H4; subst; exact E2]. }
      pose proof (first_assets_nonneg graded Vg) as Fo. pose proof (first_assets_nonneg gradedS VgS) as Fs.
      destruct (first_assets graded) as [|o0 o]; destruct (first_assets gradedS) as [|p0 p];
        try (inversion Hst; subst; exact E4);
        (destruct (select_rates c _ _ _) as [l|] eqn:Esel; [|inversion Hst; subst; exact E4];
         done_step Hst s5 H5; apply of_res_done in H5; inversion Hst; subst;
         refine (Wrates _ _ _ _ _ H5 _ E4); exact (select_rates_nonneg _ _ _ _ Fo Fs Esel)). }
  clear Hst E2 s2. destruct ended; [inversion H; subst; auto|].
  done_step H st2 Hst2. destruct st2 as [s4 mem4].
  assert (E4 : Wst s4 /\ cache_nonneg mem4).
  { destruct (c_TransactionConversionActivation c <=? _); [|inversion Hst2; subst; auto].
    done_step Hst2 st Hs. destruct st as [s5 rates1].
    assert (E5 : Wst s5 /\ rates s5 = rates s3 /\ (rates1 = default ∅ (rates s3 !! b_height b) \/ rates1 = default ∅ (rates s3 !! last_rated_below s3 (b_height b)))).
    { destruct ((c_V20HeightActivation c <=? _) && _); [|inversion Hs; subst; auto].
      done_step Hs s6 H6. apply of_res_done in H6. inversion Hs; subst.
      split; [|split; [symmetry; exact (frB_snapshot c _ _ _ _ _ H6)|destruct (_ && _); auto]].
      revert E3. apply W_step; [exact (frA_snapshot c _ _ _ _ _ H6)|]. intros HG Hnd _. exact (G_snapshot _ _ _ _ _ Hh H6 Hnd HG). }
    destruct E5 as (E5 & Er5 & Hr1).
    done_step Hst2 st Hs2. destruct st as [s6 mem6].
    assert (E6 : Wst s6 /\ cache_nonneg mem6).
    { destruct is_rates; [|inversion Hs2; subst; auto].
      done_step Hs2 s7 H7. apply of_res_done in H7.
      assert (E7 : Wst s7 /\ rates s7 = rates s3).
      { destruct ((c_V4OPRUpdate c <=? _) && _); [|inversion H7; subst; auto].
        apply insert_bank_shape in H7 as (v & ->). split; [|exact Er5]. revert E5. apply W_same; reflexivity. }
      destruct E7 as [E7 Er7].
      destruct (get_averages cm _ mem _) as [avgs mem''] eqn:Eg. done_step Hs2 s8 H8. apply of_res_done in H8.
      inversion Hs2; subst. destruct (get_averages_nonneg _ _ _ _ _ _ Hmem Eg) as [Havg Hmem''].
      split; [|exact Hmem'']. revert E7. apply W_step; [exact (frA_apply_holding _ _ _ _ _ _ H8)|].
      intros HG _ Hsub. refine (G_apply_holding cm _ _ _ _ _ Hh Hsub _ Havg H8 HG).
      destruct HG as (_ & _ & K3). unfold rates_nonneg in K3. rewrite Er7 in K3.
      intros t. destruct Hr1 as [-> | ->].
      - destruct (rates s3 !! b_height b) eqn:Ek; cbn [default from_option id]; [eapply K3; exact Ek|apply map_nonneg_empty].
      - destruct (rates s3 !! last_rated_below s3 (b_height b)) eqn:Ek; cbn [default from_option id]; [eapply K3; exact Ek|apply map_nonneg_empty]. }
    destruct E6 as [E6 Hm6].
    done_step Hst2 s7 H7. inversion Hst2; subst. split; [|exact Hm6].
    destruct (b_tx b) as [es|] eqn:Etx; [|inversion H7; subst; exact E6].
    apply of_res_done in H7. revert E6. apply W_step; [exact (frA_apply_tx_block _ _ _ _ H7)|].
    intros HG _ _. exact (G_apply_tx_block _ _ _ _ Hh (Hes es eq_refl) H7 HG). }
  destruct E4 as [E4 Hm4]. clear Hst2 E3 s3. done_step H s5 H5.
  assert (E5 : Wst s5).
  { destruct (_ <? c_V20HeightActivation c); [|inversion H5; subst; exact E4]. apply of_res_done in H5.
    revert E4. apply W_step; [exact (frA_factoid _ _ _ _ H5)|]. intros HG Hnd _. exact (G_factoid _ _ _ _ Hh H5 Hnd HG). }
  done_step H s6 H6.
  assert (E6 : Wst s6).
  { destruct graded as [v|]; [|inversion H6; subst; exact E5]. apply of_res_done in H6.
    revert E5. apply W_step; [exact (frA_pay_winners _ _ _ _ H6)|]. intros HG Hnd _.
    exact (G_pay_winners _ _ _ _ H6 (verdict_winners_ok v Vg) Hnd HG). }
  done_step H s7 H7.
  assert (E7 : Wst s7).
  { destruct (c_V20HeightActivation c <=? _); [|inversion H7; subst; exact E6].
    destruct gradedS as [v|]; [|inversion H7; subst; exact E6]. apply of_res_done in H7.
    revert E6. apply W_step; [exact (frA_pay_winners _ _ _ _ H7)|]. intros HG Hnd _.
    exact (G_pay_winners _ _ _ _ H7 (verdict_winners_ok v VgS) Hnd HG). }
  done_step H s8 H8. inversion H; subst. split; [|exact Hm4].
  destruct ((c_V20DevRewardsHeightActivation c <=? _) && _); [|inversion H8; subst; exact E7]. apply of_res_done in H8.
  revert E7. apply W_step; [exact (frA_developers c _ _ _ _ H8)|]. intros HG Hnd _. exact (G_developers _ _ _ _ Hh H8 Hnd HG).
Qed.

Lemma W_sub_ignoring_special s a t v s' : special_addr a = true -> sub_ignoring_txerr s a t v = Ok s' -> Wst s -> Wst s'.
Proof.
  intros Ha H. apply W_step; [exact (pr_sub_ignoring pA RA obA_bal _ _ _ _ _ H)|].
  intros HG _ _. exact (G_sub_ignoring_special _ _ _ _ _ Ha H HG).
Qed.

Lemma W_batch_and_zero_row s1 s2 b r lk :
  insert_hbatch s1 b = Ok s2 -> ht_hash r = hb_hash b ->
  (forall burn a t, effect_on a t (row_effect burn r) = 0) ->
  Wst s1 -> Wst s2 /\ (forall s3, insert_htx s2 r lk = Ok s3 -> Wst s3).
Proof.
  intros E2 Hhash Hzero HW.
  pose proof E2 as E2'. apply insert_hbatch_ok in E2' as (B1 & B2 & B3 & B4 & B5).
  pose proof E2 as E2s. apply insert_hbatch_shape in E2s.
  assert (Hok2 : hist_ok c s1 -> hist_ok c s2).
  { intros Hp1. refine (hist_ok_append c s1 s2 [] _ B1 _ (Forall_nil _) _ Hp1); [rewrite app_nil_r; exact B2|].
    intros a' t' _. rewrite B3, sum_counted_nil. lia. }
  split.
  - revert HW. apply W_step; [exact (obA_hb _ _ _ E2)|]. intros HG Hnd _.
    refine (G_coinbase s1 s2 [] [b] B1 _ B4 B5 _ Hnd (Forall_nil _) (Hok2 (proj1 HG)) HG); [rewrite app_nil_r; exact B2|].
    rewrite E2s. reflexivity.
  - intros s3 E3. pose proof E3 as E3'. apply insert_htx_ok in E3' as (_ & C1 & C2 & C3 & C4 & C5).
    pose proof E3 as E3s. apply insert_htx_shape in E3s as (v & l & E3s).
    revert HW. apply W_step; [etransitivity; [exact (obA_hb _ _ _ E2)|exact (obA_htx _ _ _ _ E3)]|]. intros HG Hnd _.
    refine (G_coinbase s1 s3 [r] [b] _ _ _ _ _ Hnd _ _ HG).
    + rewrite C2; exact B1.
    + rewrite C1, B2; reflexivity.
    + rewrite C4; exact B4.
    + rewrite C5; exact B5.
    + rewrite E3s, E2s. reflexivity.
    + constructor; [left; symmetry; exact Hhash|constructor].
    + refine (hist_ok_append c s2 s3 [r] [] _ C1 _ _ (Hok2 (proj1 HG))); [rewrite app_nil_r; exact C2| |].
      * constructor; [|constructor]. rewrite C2, B1, has_batch_app, Hhash. unfold has_batch at 2. cbn [existsb]. rewrite Z.eqb_refl. apply orb_true_r.
      * intros a' t' _. rewrite C3, sum_counted_cons, sum_counted_nil. unfold counted. destruct (0 <? _); [rewrite Hzero|]; lia.
Qed.

Lemma W_nullify_burn h ts s : Wst s -> Wst (nullify_burn c cm h ts s).
Proof.
  unfold nullify_burn.
  set (step := fun (acc : Z * Z * (bool * db)) (t : Z) => _).
  generalize (0, (if c_V202EnhanceActivation c <=? h then 50 else 0)) as ij.
  generalize true as live. generalize all_tickers as l.
  assert (Gn : forall l live ij s0, Wst s0 -> Wst (snd (snd (fold_left step l (ij, (live, s0)))))).
  { induction l as [|t l IH]; intros live ij s0 Hp; cbn [fold_left]; [exact Hp|].
    destruct ij as [i j]. unfold step at 2. destruct live; cbn [negb]; [|apply IH; exact Hp].
    set (a := if c_V202EnhanceActivation c <=? h then GlobalBurnAddress else GlobalOldBurnAddress).
    assert (Ha : special_addr a = true) by (unfold a; destruct (_ <=? h); [apply special_burn|apply special_old_burn]).
    set (s1 := match sub_ignoring_txerr s0 a t (get_bal (bal cm) a t) with Ok s' => s' | _ => s0 end).
    assert (Hp1 : Wst s1).
    { unfold s1. destruct (sub_ignoring_txerr s0 a t (get_bal (bal cm) a t)) eqn:E; try exact Hp.
      exact (W_sub_ignoring_special _ _ _ _ _ Ha E Hp). }
    destruct (c_V202EnhanceActivation c <=? h); [apply IH; exact Hp1|].
    destruct (insert_hbatch s1 _) as [s2|?|?] eqn:E2; try (apply IH; exact Hp1).
    destruct (W_batch_and_zero_row s1 s2 _ (coinbase_row (mock_hash (h - j)) i a t 0) [a] E2 eq_refl) as [Hp2 Hp3]; [|exact Hp1|].
    { intros burn a' t'. rewrite row_effect_coinbase, effect_on_cons, effect_on_nil. cbn [fst snd]. destruct (_ && _); lia. }
    destruct (0 <? _); [apply IH; exact Hp2|].
    destruct (insert_htx s2 _ _) as [s3|?|?] eqn:E3; try (apply IH; exact Hp2).
    apply IH. exact (Hp3 s3 eq_refl). }
  intros l live ij. apply Gn.
Qed.
End Block.

(* ---- step_block and replay ------------------------------------------------------------------------------------------------ *)
Lemma nullify_burn_hashes_prefix cm h ts s : prefix (hashes s) (hashes (nullify_burn c cm h ts s)).
Proof.
  generalize (frA_nullify_burn c cm h ts s). generalize (nullify_burn c cm h ts s) as s1. intros s1 (Hp & _). exact Hp.
Qed.

Lemma W_maybe_nullify (cond : bool) cm h ts s :
  Wst cm s -> prefix (hashes cm) (hashes s) ->
  Wst cm (if cond then nullify_burn c cm h ts s else s) /\
  prefix (hashes cm) (hashes (if cond then nullify_burn c cm h ts s else s)).
Proof.
  intros HW Hp. destruct cond; [|auto]. split; [apply W_nullify_burn; exact HW|].
  etransitivity; [exact Hp|apply nullify_burn_hashes_prefix].
Qed.

Theorem step_block_G cm mem b s' mem' :
  block_okb b = true -> cache_nonneg mem ->
  (NoDup (hashes cm) -> G cm) ->
  step_block c cm mem b = Done (s', mem') ->
  (NoDup (hashes s') -> G s') /\ cache_nonneg mem' /\ prefix (hashes cm) (hashes s').
Proof.
  intros Hb Hmem HQ H. unfold step_block in H. cbv zeta in H.
  assert (W0 : Wst cm cm) by (split; [auto|exact HQ]).
  destruct (W_maybe_nullify (b_height b =? c_V20DevRewardsHeightActivation c) cm (b_height b) (b_ts b) cm W0 (reflexivity _)) as [Wa Pa].
  destruct (W_maybe_nullify (b_height b =? c_V202EnhanceActivation c) cm (b_height b) (b_ts b) _ Wa Pa) as [Wb Pb].
  match type of Wb with Wst cm ?x => generalize dependent x end. clear Wa Pa. intros sb H Wb Pb.
  apply obind_done in H as ([s1 mem1] & Hr & H). apply obind_done in H as (s2 & H2 & H). apply of_res_done in H2. inversion H; subst.
  destruct (sync_block_W cm mem b sb s1 mem' Hb Hmem Wb Hr) as [[_ W1] Hm1].
  assert (Hgr : forall h0 s0 v s4, insert_grade h0 s0 v = Ok s4 -> RA (pA s0) (pA s4)).
  { intros h0 s0 v s4 Hi. apply insert_grade_shape in Hi as (? & ? & ->). apply RA_same; reflexivity. }
  assert (Hrt : forall cm0 h0 s0 a ph s4, True -> insert_rates cm0 h0 s0 a ph = Ok s4 -> RA (pA s0) (pA s4)).
  { intros cm0 h0 s0 a ph s4 _ Hi. apply insert_rates_shape in Hi as (_ & m & ->). apply RA_same; reflexivity. }
  pose proof (pr_sync_block pA RA obA_bal obA_rel obA_exec obA_hb obA_amt obA_peg obA_htx obA_hold obA_bank obA_ubank c obA_snaps
                Hgr (fun _ => True) Hrt cm mem b sb s1 mem' I Hr) as (Hs1 & _).
  cbn [pA fst snd] in Hs1.
  apply insert_synced_shape in H2 as (_ & ->).
  split; [|split; [exact Hm1|]].
  - intros Hnd. revert W1. intros W1. specialize (W1 Hnd). revert W1. apply G_same; reflexivity.
  - etransitivity; [exact Pb|exact Hs1].
Qed.
End Inv.

(* ==== the block-level and chain-level theorems ================================================================= *)
Lemma G_genesis c : G c genesis.
Proof.
  split; [apply hist_ok_genesis|]. split; [split; constructor|].
  intros k m t H. unfold genesis, empty_db in H. cbn [rates] in H. rewrite lookup_empty in H. discriminate.
Qed.

(* one block: if the invariant holds for the committed database whenever its batch-row hashes are distinct, then
   after the block — when the batch-row hashes of the result are distinct (H1) — every cell outside the special
   addresses is the sum of what the executed history rows stand for *)
Theorem step_block_accounts c cm mem b s' mem' :
  block_okb b = true ->                        (* H2, H4: static conditions on the block's inputs *)
  cache_nonneg mem ->
  (NoDup (hashes cm) -> G c cm) ->
  step_block c cm mem b = Done (s', mem') ->
  NoDup (map hb_hash (hist s')) ->             (* H1, on the resulting state *)
  accounts c s' /\ G c s' /\ cache_nonneg mem'.
Proof.
  intros Hb Hmem HQ H Hnd. destruct (step_block_G c cm mem b s' mem' Hb Hmem HQ H) as (HG & Hm & _).
  specialize (HG Hnd). split; [apply HG|]. split; [exact HG|exact Hm].
Qed.

Lemma replay_G c bs : forall cm mem s m,
  forallb block_okb bs = true -> cache_nonneg mem -> (NoDup (hashes cm) -> G c cm) ->
  replay c cm mem bs = Done (s, m) -> (NoDup (hashes s) -> G c s).
Proof.
  induction bs as [|b bs IH]; intros cm mem s m Hok Hmem HQ H.
  - inversion H; subst. exact HQ.
  - cbn [forallb] in Hok. apply andb_prop in Hok as [Hb Hbs].
    apply replay_cons in H as (s1 & m1 & H1 & H2).
    destruct (step_block_G c cm mem b s1 m1 Hb Hmem HQ H1) as (HG1 & Hm1 & _).
    exact (IH s1 m1 s m Hbs Hm1 HG1 H2).
Qed.

(* every chain from the empty database *)
Theorem replay_accounts c bs s m :
  forallb block_okb bs = true ->               (* H2, H4 for every block (heights positive, no conversion into PEG,
                                                  sane grader verdicts) *)
  replay c genesis empty_cache bs = Done (s, m) ->
  NoDup (map hb_hash (hist s)) ->              (* H1: no entry hash twice in pn_history_txbatch of the final state *)
  accounts c s.
Proof.
  intros Hok H Hnd.
  refine (proj1 (proj1 (replay_G c bs genesis empty_cache s m Hok _ (fun _ => G_genesis c) H Hnd))).
  unfold cache_nonneg. cbn [ac_avgs empty_cache]. apply map_nonneg_empty.
Qed.

(* the hypotheses hold on the example chain *)
Example replay_accounts_hyps :
  match replay ex_cfg genesis empty_cache ex_chain with
  | Done (s, _) => forallb block_okb ex_chain = true /\ NoDup (map hb_hash (hist s)) /\ map hb_hash (hist s) = [501; 601; 602; 603; 9104]
  | _ => False
  end.
Proof.
  vm_compute. split; [reflexivity|]. split; [|reflexivity].
  repeat (constructor; [intros HH; cbn in HH; intuition discriminate|]). constructor.
Qed.
Example replay_accounts_example :
  exists s m, replay ex_cfg genesis empty_cache ex_chain = Done (s, m) /\ accounts ex_cfg s /\
              get_bal (bal s) alice PTickerUSD = 80 /\ hist_sum ex_cfg s alice PTickerUSD = 80.
Proof.
  pose proof replay_accounts_hyps as Hh.
  destruct (replay ex_cfg genesis empty_cache ex_chain) as [[s m]| | |] eqn:E; try contradiction.
  destruct Hh as (H1 & H2 & _). exists s, m. split; [reflexivity|].
  pose proof (replay_accounts ex_cfg ex_chain s m H1 E H2) as A. split; [exact A|].
  assert (B : get_bal (bal s) alice PTickerUSD = 80).
  { assert (Q : match replay ex_cfg genesis empty_cache ex_chain with Done (s0, _) => get_bal (bal s0) alice PTickerUSD = 80 | _ => False end)
      by (vm_compute; reflexivity). rewrite E in Q. exact Q. }
  split; [exact B|]. rewrite <- (A alice PTickerUSD eq_refl). exact B.
Qed.

Print Assumptions step_block_accounts.
Print Assumptions replay_accounts.
