(* Obligations over the regenerated tables of Gen/Sites.v, by [vm_compute] over the whole (finite) table.
   One file per property, so that a table that no longer matches breaks only the property it belongs to. *)
From Coq Require Import String List Bool Arith.
From Gen Require Import Sites.
From Model Require Import SitesSpec.
Import ListNotations.
Open Scope string_scope.
From Lemmas Require Export SitesRoots.

(* ------------------------------------------------------------------ C02 *)

(* every write reachable from the block application goes through the block's sql.Tx *)
Lemma sync_writes_on_tx :
  forallb (fun r => (eff_handle r =? "tx") && (eff_origin r =? "root")) (filter is_write effective_sql) = true.
Proof. vm_compute; reflexivity. Qed.

Lemma sync_writes_on_tx_forall :
  forall r, In r effective_sql -> is_write r = true -> eff_handle r = "tx" /\ eff_origin r = "root".
Proof.
  intros r Hin Hw.
  pose proof sync_writes_on_tx as H.
  rewrite forallb_forall in H.
  specialize (H r).
  assert (Hf : In r (filter is_write effective_sql)) by (apply filter_In; split; assumption).
  apply H in Hf. apply andb_true_iff in Hf. destruct Hf as [H1 H2].
  split; apply String.eqb_eq; assumption.
Qed.

Lemma sync_handles_known : check_sync_handles_known = true.
Proof. vm_compute; reflexivity. Qed.

Lemma sync_handles_known_forall :
  forall r, In r effective_sql -> on_tx r = true \/ on_pool r = true.
Proof.
  intros r Hin.
  pose proof sync_handles_known as H. unfold check_sync_handles_known in H.
  rewrite forallb_forall in H. apply H in Hin. apply orb_true_iff in Hin. exact Hin.
Qed.

(* the reads that see the committed database are exactly the expected ones *)
Lemma sync_pool_reads_expected :
  forallb (fun r => mem (eff_origin r) expected_pool_readers) (filter on_pool effective_sql) = true.
Proof. vm_compute; reflexivity. Qed.

Lemma sync_pool_reads_expected_forall :
  forall r, In r effective_sql -> eff_handle r = "pool" ->
            is_read r = true /\ In (eff_origin r) expected_pool_readers.
Proof.
  intros r Hin Hp.
  assert (Hpool : on_pool r = true) by (unfold on_pool; rewrite Hp; reflexivity).
  split.
  - destruct (is_read r) eqn:E; [reflexivity|].
    assert (Hw : is_write r = true) by (unfold is_write; rewrite E; reflexivity).
    destruct (sync_writes_on_tx_forall r Hin Hw) as [Ht _]. rewrite Hp in Ht. discriminate Ht.
  - pose proof sync_pool_reads_expected as H. rewrite forallb_forall in H.
    assert (Hf : In r (filter on_pool effective_sql)) by (apply filter_In; split; assumption).
    apply H in Hf. unfold mem in Hf. apply existsb_exists in Hf.
    destruct Hf as [x [Hx Heq]]. apply String.eqb_eq in Heq. rewrite Heq. exact Hx.
Qed.

(* ... and each of them is still there (a pool read that was moved to the transaction is noticed) *)
Lemma sync_pool_readers_present : check_sync_pool_readers_present = true.
Proof. vm_compute; reflexivity. Qed.

(* the callers of the pool readers inside the block application are exactly the expected ones *)
Lemma pool_reader_calls_expected : check_pool_reader_calls = true.
Proof. vm_compute; reflexivity. Qed.

(* ------------------------------------------------------------------ C02: durability settings *)
Lemma journal_on_disk : check_journal_on_disk = true.
Proof. vm_compute; reflexivity. Qed.
Lemma synchronous_on : check_synchronous_on = true.
Proof. vm_compute; reflexivity. Qed.

(* ------------------------------------------------------------------ C02: a height is recorded once *)
Lemma height_mark_plain_insert : check_height_mark_plain_insert = true.
Proof. vm_compute; reflexivity. Qed.
