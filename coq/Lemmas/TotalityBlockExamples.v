(* Lemmas/TotalityBlockExamples.v — the hypotheses of [step_block_total] hold on live-era blocks built on the
   example chain (a plain rated block with held batches and adversarial entries; a snapshot block with
   staking and developer payouts; an unrated block), and the model really is Stuck / OracleMiss in each
   excluded case.  Everything by vm_compute. *)
From Model Require Import Examples.
From Lemmas Require Import DbLemmas LedgerLemmas HistoryLemmas3 TotalityLemmas TotalityBlockParts TotalityHolding TotalityBlock TotalityChain.
From Gen Require Import Consts.
Open Scope Z_scope.
Open Scope list_scope.

Definition run (c : cfg) (bs : list block) : db * avgcache :=
  match replay c genesis empty_cache bs with Done r => r | _ => (empty_db, empty_cache) end.
Definition outcome_code {A} (o : outcome A) : Z :=
  match o with Done _ => 0 | Stuck code => code | Crashed code => -1000 - code | OracleMiss w => -w end.

(* ---- live-era blocks on top of the example chain (ex_cfg: 2.0 at 400, 2.0.2 at 600, snapshots every 144) ---------- *)
Definition lv_verdict (h : Z) (assets : list (Z * Z)) : verdict :=
  {| v_winners := [{| w_hash := 9000 + h; w_addr := Some bob; w_payout := 5; w_pos := 0; w_height := h |};
                   {| w_hash := 9500 + h; w_addr := None; w_payout := 7; w_pos := 1; w_height := h |}];
     v_graded := [{| w_hash := 9000 + h; w_addr := Some bob; w_payout := 5; w_pos := 0; w_height := h |}];
     v_short := [h];
     v_assets := assets |}.
Definition lv_assets : list (Z * Z) := [(PTickerPEG, 200000000); (PTickerUSD, 100000000); (PTickerFCT, 400000000)].
Definition lv_opr (h : Z) (prev : option (list Z)) (assets : list (Z * Z)) : option opr_in :=
  Some {| oi_alts := [(5, prev, Some (lv_verdict h assets))] |}.
Definition ex_garbage (hs : hash) : entry := {| e_hash := hs; e_ts := 0; e_batch := None; e_rcde := false |}.

(* 649: unrated; brings a conversion (held), a conversion into PEG (held, refused later) and garbage *)
Definition blk649 : block :=
  ex_block 649 None (Some [ex_conversion 800 8; ex_garbage 801; ex_conversion 800 8; ex_transfer 601 30]) [].
(* 650: rated by the OPR winners: the held conversion executes; entries: a repeat, an overdraft, a transfer *)
Definition blk650 : block :=
  ex_block 650 (lv_opr 650 (Some [104]) lv_assets) (Some [ex_transfer 810 5; ex_transfer 810 5; ex_transfer 811 100000; ex_garbage 812]) [].
(* 720: a snapshot height: staking payouts, miners, developers *)
Definition blk720 : block :=
  ex_block 720 (lv_opr 720 (Some [650]) lv_assets) (Some [ex_conversion 820 3; ex_transfer 821 1]) [].
(* 864: the next snapshot height: now the minimum of two snapshots is positive and the stakers are paid *)
Definition blk864 : block :=
  ex_block 864 (lv_opr 864 (Some [720]) lv_assets) (Some [ex_transfer 840 2; ex_garbage 841]) [].
Definition lv_chain : list block := ex_chain ++ [blk649; blk650; blk720; blk864].

Definition cm648 := run ex_cfg ex_chain.
Definition cm649 := run ex_cfg (ex_chain ++ [blk649]).
Definition cm650 := run ex_cfg (ex_chain ++ [blk649; blk650]).
Definition cm720 := run ex_cfg (ex_chain ++ [blk649; blk650; blk720]).

Example block_hyps_649 : block_hypsb ex_cfg (fst cm648) (snd cm648) blk649 = true.
Proof. vm_compute. reflexivity. Qed.
Example block_hyps_650 : block_hypsb ex_cfg (fst cm649) (snd cm649) blk650 = true.
Proof. vm_compute. reflexivity. Qed.
Example block_hyps_720 : block_hypsb ex_cfg (fst cm650) (snd cm650) blk720 = true.
Proof. vm_compute. reflexivity. Qed.
Example block_hyps_864 : block_hypsb ex_cfg (fst cm720) (snd cm720) blk864 = true.
Proof. vm_compute. reflexivity. Qed.

(* the theorem applied *)
Example step_block_total_650 :
  exists s' mem', step_block ex_cfg (fst cm649) (snd cm649) blk650 = Done (s', mem') /\ hist_closed s' /\ bal_room s' 0 /\ cache_nonneg mem'.
Proof.
  assert (Hc : hist_closed (fst cm649)) by (apply hist_closedb_spec; vm_compute; reflexivity).
  assert (Hr : bal_room (fst cm649) 0) by (apply bal_roomb_spec; vm_compute; reflexivity).
  destruct (step_block_total ex_cfg _ _ _ Hc Hr (block_hypsb_spec _ _ _ _ block_hyps_650)) as (s' & mem' & H1 & H2 & H3 & H4 & _).
  exists s', mem'. auto.
Qed.
Example step_block_total_720 :
  exists s' mem', step_block ex_cfg (fst cm650) (snd cm650) blk720 = Done (s', mem') /\ hist_closed s' /\ bal_room s' 0 /\ cache_nonneg mem'.
Proof.
  assert (Hc : hist_closed (fst cm650)) by (apply hist_closedb_spec; vm_compute; reflexivity).
  assert (Hr : bal_room (fst cm650) 0) by (apply bal_roomb_spec; vm_compute; reflexivity).
  destruct (step_block_total ex_cfg _ _ _ Hc Hr (block_hypsb_spec _ _ _ _ block_hyps_720)) as (s' & mem' & H1 & H2 & H3 & H4 & _).
  exists s', mem'. auto.
Qed.
Example step_block_total_864 :
  exists s' mem', step_block ex_cfg (fst cm720) (snd cm720) blk864 = Done (s', mem') /\ hist_closed s' /\ bal_room s' 0 /\ cache_nonneg mem'.
Proof.
  assert (Hc : hist_closed (fst cm720)) by (apply hist_closedb_spec; vm_compute; reflexivity).
  assert (Hr : bal_room (fst cm720) 0) by (apply bal_roomb_spec; vm_compute; reflexivity).
  destruct (step_block_total ex_cfg _ _ _ Hc Hr (block_hypsb_spec _ _ _ _ block_hyps_864)) as (s' & mem' & H1 & H2 & H3 & H4 & _).
  exists s', mem'. auto.
Qed.

(* the chain-level theorem applied to the four live-era blocks, from the state after the example chain *)
Example replay_total_live_chain :
  exists s m, replay ex_cfg (fst cm648) (snd cm648) [blk649; blk650; blk720; blk864] = Done (s, m) /\ hist_closed s /\ bal_room s 0.
Proof.
  apply (replay_total ex_cfg [blk649; blk650; blk720; blk864] (fst cm648) (snd cm648) 649).
  - apply hist_closedb_spec. vm_compute. reflexivity.
  - apply bal_roomb_spec. vm_compute. reflexivity.
  - apply tables_belowb_spec. vm_compute. reflexivity.
  - apply increasing_fromb_spec. vm_compute. reflexivity.
  - apply chain_hypsb_spec. vm_compute. reflexivity.
Qed.

(* what these blocks do: 800 held at 649 and executed at 650 (8 pFCT -> 32 pUSD), 810 executed once, 811 rejected, the
   miner paid; at 720 (first snapshot: no stake yet) a miner batch and one batch per developer; at 864 also the staking batch *)
Example lv_chain_effect :
  match replay ex_cfg genesis empty_cache lv_chain with
  | Done (s, _) =>
      map (fun r => (hb_hash r, hb_exec r)) (firstn 5 (skipn 5 (hist s))) = [(800, 650); (810, 650); (811, -1); (9650, 650); (820, 864)] /\
      hist_has s (mock_hash 720) = false /\ hist_has s (mock_hash 864) = true /\ hist_has s (mock_hash_dev 1 720) = true /\
      hist_has s (mock_hash_dev 14 864) = true /\ hist_has s 9864 = true /\
      get_bal (bal s) alice PTickerUSD = 80 + 32 + 12 /\ hist_closedb s = true /\ bal_roomb s 0 = true
  | _ => False
  end.
Proof. vm_compute. repeat split; reflexivity. Qed.

(* ---- the excluded cases: the model is Stuck there ------------------------------------------------------------------------- *)
(* (1) recorded finding: a bank-era held batch mixing a PEG request with spends of PEG: "uncaught: insufficient balance" *)
Definition ex_mixed : entry :=
  {| e_hash := 812; e_ts := 2000;
     e_batch := Some [{| tx_addr := bob; tx_type := PTickerFCT; tx_amt := 4; tx_transfers := []; tx_conv := PTickerPEG |};
                      {| tx_addr := bob; tx_type := PTickerPEG; tx_amt := 5; tx_transfers := [{| tr_addr := alice; tr_amt := 5 |}]; tx_conv := 0 |};
                      {| tx_addr := bob; tx_type := PTickerPEG; tx_amt := 5; tx_transfers := [{| tr_addr := alice; tr_amt := 5 |}]; tx_conv := 0 |}];
     e_rcde := false |}.
Definition opr_at (ver h : Z) (prev : option (list Z)) (assets : list (Z * Z)) : option opr_in :=
  Some {| oi_alts := [(ver, prev, Some (lv_verdict h assets))] |}.
Example excluded_bank_era_mixed_batch :
  outcome_code (replay ex_cfg genesis empty_cache
                  (ex_chain ++ [ex_block 349 None (Some [ex_mixed]) []; ex_block 350 (opr_at 4 350 (Some [104]) lv_assets) None []])) = E_UNCAUGHT.
Proof. vm_compute. reflexivity. Qed.

(* (2) closed era: a snapshot height without rates before 2.0.2: the stake conversion at rate 0 fails the block *)
Example excluded_snapshot_without_rates_before_202 :
  outcome_code (replay ex_cfg genesis empty_cache (ex_chain ++ [ex_block 432 None None []])) = 0 /\
  outcome_code (replay ex_cfg genesis empty_cache (ex_chain ++ [ex_block 432 None None []; ex_block 576 None None []])) = E_CONVERT.
Proof. vm_compute. split; reflexivity. Qed.
(* ... the same chain is fine once 2.0.2 skips zero rates (hypothetical configuration with 2.0.2 from 500 on) *)

(* (3) the band failure before 2.0.2 returns nil: the block is Done, and ends before its transactions *)
Definition spr_at (ver h : Z) (assets : list (Z * Z)) : option spr_in :=
  Some {| si_entries := []; si_alts := [(ver, [], Some (lv_verdict (h + 50000) assets))] |}.
Definition blk450 : block :=
  {| b_height := 450; b_ts := 1450; b_opr := opr_at 5 450 (Some [104]) lv_assets;
     b_spr := spr_at 5 450 [(PTickerPEG, 200000000); (PTickerUSD, 300000000); (PTickerFCT, 400000000)];
     b_tx := Some [ex_transfer 830 1]; b_factoid := [] |}.
Example band_failure_before_202_is_done :
  match replay ex_cfg genesis empty_cache (ex_chain ++ [blk450]) with
  | Done (s, _) => hist_has s 830 = false /\ is_rated s 450 = false /\ synced s = Some 450
  | _ => False
  end.
Proof. vm_compute. repeat split; reflexivity. Qed.

(* (4) closed era (PEG priced by the equation): the SUM over a balance column leaves int64 *)
Definition cm_big : db :=
  set_bal (fst cm648) (<[(alice, PTickerUSD) := 5000000000000000000]> (<[(bob, PTickerUSD) := 5000000000000000000]> (bal (fst cm648)))).
Example excluded_issuance_sum_overflow :
  bal_roomb cm_big 0 = true /\
  outcome_code (step_block ex_cfg cm_big empty_cache (ex_block 150 (opr_at 2 150 (Some [104]) lv_assets) None [])) = E_OVERFLOW_CELL.
Proof. vm_compute. split; reflexivity. Qed.

(* (5) [coinbase_fresh]: a synthetic hash that is already a batch row.
   (a) an entry of the transaction chain carrying the hash of a developer payout of its own block (needs a preimage) *)
Definition blk720_collide : block :=
  ex_block 720 (lv_opr 720 (Some [650]) lv_assets) (Some [ex_transfer (mock_hash_dev 1 720) 1]) [].
Example excluded_synthetic_hash_collision :
  coinbase_freshb ex_cfg (fst cm650) blk720_collide = false /\
  outcome_code (step_block ex_cfg (fst cm650) (snd cm650) blk720_collide) = E_UNIQUE_HIST.
Proof. vm_compute. split; reflexivity. Qed.
(* (b) before 2.0.2 ([live_era] fails): the zeroing coinbase of NullifyBurnAddress and the staking payout of the same block share
   the mock hash of the height: a configuration in which V20DevRewardsHeightActivation is a snapshot height (not the mainnet's) *)
Definition cfg_576 : cfg := {|
  c_PegnetActivation := 100; c_GradingV2Activation := 100; c_TransactionConversionActivation := 100;
  c_PEGPricingActivation := 100; c_OneWaypFCTConversions := 100; c_PegnetConversionLimitActivation := 200;
  c_PEGFreeFloatingPriceActivation := 200; c_V4OPRUpdate := 300; c_V20HeightActivation := 400;
  c_V20DevRewardsHeightActivation := 576; c_SprSignatureActivation := 576; c_OneWaySmallAssetsConversions := 600;
  c_V202EnhanceActivation := 600; c_V204EnhanceActivation := 700; c_V204BurnMintedTokenActivation := 800;
  c_PIP10AverageActivation := 900; c_Fat2RCDEActivation := 300; c_AveragePeriod := 4 |}.
Example excluded_nullify_vs_staking_collision :
  outcome_code (replay cfg_576 genesis empty_cache
                  (ex_chain ++ [ex_block 432 None None []; ex_block 576 (opr_at 5 576 (Some [104]) lv_assets) None []])) = E_UNIQUE_HIST.
Proof. vm_compute. reflexivity. Qed.

(* (6) [block_room]: a cell at max_int64 that the block credits (the miner's payout) *)
Definition cm_full : db := set_bal (fst cm649) (<[(bob, PTickerPEG) := max_int64]> (bal (fst cm649))).
Example excluded_cell_overflow :
  bal_roomb cm_full 0 = true /\ block_hypsb ex_cfg cm_full (snd cm649) blk650 = false /\
  outcome_code (step_block ex_cfg cm_full (snd cm649) blk650) = E_OVERFLOW_CELL.
Proof. vm_compute. repeat split; reflexivity. Qed.

(* [graders_answer]: the oracle table has no alternative for the key; NewGrader fails (OPR: code 20, SPR from 2.0 on: 21) *)
Example excluded_oracle_miss :
  outcome_code (step_block ex_cfg (fst cm649) (snd cm649) (ex_block 650 (lv_opr 650 None lv_assets) None [])) = -1.
Proof. vm_compute. reflexivity. Qed.
Example excluded_new_grader_error :
  outcome_code (step_block ex_cfg (fst cm649) (snd cm649) (ex_block 650 (Some {| oi_alts := [(5, Some [104], None)] |}) None [])) = 20 /\
  outcome_code (step_block ex_cfg (fst cm649) (snd cm649)
                  {| b_height := 650; b_ts := 1650; b_opr := None; b_spr := Some {| si_entries := []; si_alts := [(7, [], None)] |};
                     b_tx := None; b_factoid := [] |}) = 21.
Proof. vm_compute. split; reflexivity. Qed.

(* [sel_wf]: the winning record lists a name twice; a price does not fit a SQL argument *)
Example excluded_bad_assets :
  outcome_code (step_block ex_cfg (fst cm649) (snd cm649)
     (ex_block 650 (lv_opr 650 (Some [104]) [(PTickerPEG, 1); (PTickerUSD, 1); (PTickerUSD, 2)]) None [])) = E_UNIQUE_RATE /\
  outcome_code (step_block ex_cfg (fst cm649) (snd cm649)
     (ex_block 650 (lv_opr 650 (Some [104]) [(PTickerPEG, 1); (PTickerUSD, two63)]) None [])) = E_SQLARG.
Proof. vm_compute. split; reflexivity. Qed.

(* [fresh_at]: the same height twice *)
Example excluded_height_twice :
  fresh_atb 650 (fst cm650) = false /\
  outcome_code (step_block ex_cfg (fst cm650) (snd cm650) blk650) = E_UNIQUE_GRADE.
Proof. vm_compute. split; reflexivity. Qed.

(* [snapshot_ok]: a stake that is not a uint64 / whose conversion overflows (an address holding 2^62 pFCT at 4 USD) *)
Definition cm_whale : db := set_bal (fst cm650) (<[(alice, PTickerFCT) := 4611686018427387904]> (bal (fst cm650))).
Definition cm_whale2 : db := set_snaps cm_whale (bal cm_whale) (bal cm_whale).
Example excluded_stake_overflow :
  bal_roomb cm_whale2 0 = true /\ snapshot_ok ex_cfg cm_whale2 blk720 = false /\
  outcome_code (step_block ex_cfg cm_whale2 (snd cm650) blk720) = E_CONVERT.
Proof. vm_compute. repeat split; reflexivity. Qed.

(* [entries_ok], [held_batches_ok]: see TotalityExamples.v (no_ticker_fails, burn_signer_fails) *)

(* the one-time activation heights of the live era are covered too: NullifyBurnAddress at 600 (2.0.2: the 3 pFCT sent to
   the burn address at 550 disappear), the mint at 700, the burn of the minted tokens at 800 *)
Definition ex_to_burn (hs amount : Z) : entry :=
  {| e_hash := hs; e_ts := 2000;
     e_batch := Some [{| tx_addr := alice; tx_type := PTickerFCT; tx_amt := amount;
                         tx_transfers := [{| tr_addr := GlobalBurnAddress; tr_amt := amount |}]; tx_conv := 0 |}];
     e_rcde := false |}.
Definition cmA := run ex_cfg (ex_chain ++ [ex_block 550 None (Some [ex_to_burn 845 3]) []]).
Definition act_blocks : list block :=
  [ex_block 600 None None []; blk649; blk650; ex_block 700 None (Some [ex_transfer 851 1]) []; blk720; ex_block 800 None None []].
Example replay_total_activation_heights :
  plain_heightb ex_cfg 600 = false /\ plain_heightb ex_cfg 700 = false /\ plain_heightb ex_cfg 800 = false /\
  get_bal (bal (fst cmA)) GlobalBurnAddress PTickerFCT = 3 /\
  exists s m, replay ex_cfg (fst cmA) (snd cmA) act_blocks = Done (s, m) /\ hist_closed s /\ bal_room s 0.
Proof.
  split; [vm_compute; reflexivity|]. split; [vm_compute; reflexivity|]. split; [vm_compute; reflexivity|]. split; [vm_compute; reflexivity|].
  apply (replay_total ex_cfg act_blocks (fst cmA) (snd cmA) 600).
  - apply hist_closedb_spec. vm_compute. reflexivity.
  - apply bal_roomb_spec. vm_compute. reflexivity.
  - apply tables_belowb_spec. vm_compute. reflexivity.
  - apply increasing_fromb_spec. vm_compute. reflexivity.
  - apply chain_hypsb_spec. vm_compute. reflexivity.
Qed.
Example activation_heights_effect :
  match replay ex_cfg (fst cmA) (snd cmA) (firstn 4 act_blocks), replay ex_cfg (fst cmA) (snd cmA) act_blocks with
  | Done (s4, _), Done (s6, _) =>
      get_bal (bal s4) GlobalBurnAddress PTickerFCT = 0 /\ get_bal (bal s4) GlobalMintAddress PTickerPEG = 33450961300000000 /\
      get_bal (bal s6) GlobalMintAddress PTickerPEG = 0 /\ synced s6 = Some 800
  | _, _ => False
  end.
Proof. vm_compute. repeat split; reflexivity. Qed.
(* V20DevRewardsHeightActivation = 500 < 2.0.2 in ex_cfg: not a live-era height (the old burn address, zeroing coinbases) *)

(* [verdicts_wf] gives [sel_wf] *)
Example verdicts_wf_650 : verdicts_wf ex_cfg (fst cm649) blk650 = true.
Proof. vm_compute. reflexivity. Qed.

Print Assumptions step_block_total_864.
