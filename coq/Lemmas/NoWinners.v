(* Lemmas/NoWinners.v — C12: a block without winners records no rates.  For every block whose OPR verdict (and, from
   2.0 on, SPR verdict) has no winners, the whole body of the loop (step_block) leaves pn_rate exactly as it was: no
   row for the block's own height (and, by ChainLemmas, none for any other). *)
From Model Require Import Block.
From Lemmas Require Import DbLemmas LedgerLemmas BlockLemmas FrameLemmas ChainLemmas.
From Gen Require Import Consts.
From Coq Require Import RelationClasses Lia.
Open Scope Z_scope.

Definition no_winners (v : option verdict) : Prop :=
  match v with Some v' => v_winners v' = [] | None => True end.

Lemma no_winners_first_assets v : no_winners v -> first_assets v = [].
Proof. destruct v as [v|]; cbn; [intros ->; reflexivity|reflexivity]. Qed.

Section WithCfg.
Variable c : cfg.

(* the storage operations that do not touch pn_rate, through the preservation scheme with R := eq *)
Local Ltac fr L H := (eapply (L _ (fun s : db => rates s) (@eq _)); try (untouched; fail); exact H).

Ltac done_step H x Hx := apply obind_done in H as (x & Hx & H).

Lemma sync_block_no_winners_no_rates cm mem b s s' mem' :
  sync_block c cm mem b s = Done (s', mem') ->
  (forall g, grade_opr c cm b = Done g -> no_winners g) ->
  (c_V20HeightActivation c <= b_height b -> forall g, grade_spr c cm b = Done g -> no_winners g) ->
  rates s' = rates s.
Proof.
  intros H Ho Hs. unfold sync_block in H. cbv zeta in H.
  done_step H s1 H1. apply of_res_done in H1.
  assert (E1 : rates s = rates s1).
  { destruct (_ =? c_V204EnhanceActivation c); [|inversion H1; subst; reflexivity].
    eapply (pr_mint_tokens (fun s : db => rates s) (@eq _)); try (untouched; fail); exact H1. }
  clear H1. done_step H s2 H2. apply of_res_done in H2.
  assert (E2 : rates s = rates s2).
  { rewrite E1. destruct (_ =? c_V204BurnMintedTokenActivation c); [|inversion H2; subst; reflexivity].
    eapply (pr_nullify_minted (fun s : db => rates s) (@eq _)); try (untouched; fail); exact H2. }
  clear H2 E1 s1. done_step H graded Hg. done_step H gradedS HgS.
  pose proof (Ho _ Hg) as Nw.
  done_step H st Hst. destruct st as [[s3 is_rates] ended].
  assert (E3 : rates s = rates s3 /\ is_rates = false /\ ended = false).
  { destruct (Z.ltb_spec (b_height b) (c_V20HeightActivation c)) as [Hlt|Hge].
    - destruct graded as [v|]; [|inversion Hst; subst; auto].
      done_step Hst s4 H4. apply of_res_done in H4. apply insert_grade_shape in H4 as (g & w & ->).
      cbn in Nw. rewrite Nw in Hst. inversion Hst; subst. auto.
    - assert (NwS : no_winners gradedS).
      { destruct (Z.leb_spec (c_V20HeightActivation c) (b_height b)) as [Hle|Hgt]; [|lia].
        exact (Hs Hle _ HgS). }
      destruct (grade_spr_err c cm b); [discriminate|].
      done_step Hst s4 H4.
      assert (E4 : rates s2 = rates s4).
      { destruct graded as [v|]; [apply of_res_done in H4; apply insert_grade_shape in H4 as (g & w & ->); reflexivity|inversion H4; subst; reflexivity]. }
      rewrite (no_winners_first_assets _ Nw), (no_winners_first_assets _ NwS) in Hst.
      inversion Hst; subst. split; [congruence|auto]. }
  destruct E3 as (E3 & -> & ->). clear Hst E2 s2.
  done_step H st2 Hst2. destruct st2 as [s4 mem4].
  assert (E4 : rates s = rates s4).
  { rewrite E3. destruct (c_TransactionConversionActivation c <=? _); [|inversion Hst2; subst; reflexivity].
    done_step Hst2 st Hs1. destruct st as [s5 rates1].
    assert (E5 : rates s3 = rates s5).
    { destruct ((c_V20HeightActivation c <=? _) && _); [|inversion Hs1; subst; reflexivity].
      done_step Hs1 s6 H6. apply of_res_done in H6. inversion Hs1; subst.
      eapply (pr_snapshot_payouts (fun s : db => rates s) (@eq _)); try (untouched; fail); exact H6. }
    done_step Hst2 st Hs2. destruct st as [s6 mem6]. inversion Hs2; subst s6 mem6.
    done_step Hst2 s7 H7. inversion Hst2; subst. rewrite E5.
    destruct (b_tx b); [apply of_res_done in H7|inversion H7; subst; reflexivity].
    eapply (pr_apply_tx_block (fun s : db => rates s) (@eq _)); try (untouched; fail); exact H7. }
  clear Hst2 E3 s3. done_step H s5 H5.
  assert (E5 : rates s = rates s5).
  { rewrite E4. destruct (_ <? c_V20HeightActivation c); [apply of_res_done in H5|inversion H5; subst; reflexivity].
    eapply (pr_apply_factoid_block (fun s : db => rates s) (@eq _)); try (untouched; fail); exact H5. }
  done_step H s6 H6.
  assert (E6 : rates s = rates s6).
  { rewrite E5. destruct graded; [apply of_res_done in H6|inversion H6; subst; reflexivity].
    eapply (pr_pay_winners (fun s : db => rates s) (@eq _)); try (untouched; fail); exact H6. }
  done_step H s7 H7.
  assert (E7 : rates s = rates s7).
  { rewrite E6. destruct (c_V20HeightActivation c <=? _); [|inversion H7; subst; reflexivity].
    destruct gradedS; [apply of_res_done in H7|inversion H7; subst; reflexivity].
    eapply (pr_pay_winners (fun s : db => rates s) (@eq _)); try (untouched; fail); exact H7. }
  done_step H s8 H8. inversion H; subst. rewrite E7.
  destruct ((c_V20DevRewardsHeightActivation c <=? _) && _); [apply of_res_done in H8|inversion H8; subst; reflexivity].
  symmetry. eapply (pr_developers_payouts (fun s : db => rates s) (@eq _)); try (untouched; fail); exact H8.
Qed.

Theorem no_winners_no_rates cm mem b s' mem' :
  step_block c cm mem b = Done (s', mem') ->
  (forall g, grade_opr c cm b = Done g -> no_winners g) ->
  (c_V20HeightActivation c <= b_height b -> forall g, grade_spr c cm b = Done g -> no_winners g) ->
  rates s' = rates cm.
Proof.
  intros H Ho Hs. unfold step_block in H. cbv zeta in H.
  done_step H r Hr. destruct r as [s1 mem1]. done_step H s2 H2. apply of_res_done in H2. inversion H; subst.
  apply insert_synced_shape in H2 as (v & ->). cbn [rates set_synced].
  rewrite (sync_block_no_winners_no_rates _ _ _ _ _ _ Hr Ho Hs).
  assert (Hn : forall h ts s, rates (nullify_burn c cm h ts s) = rates s).
  { intros h ts s. symmetry. eapply (pr_nullify_burn (fun s : db => rates s) (@eq _)); try (untouched; fail). }
  destruct (_ =? c_V202EnhanceActivation c); destruct (_ =? c_V20DevRewardsHeightActivation c); rewrite ?Hn; reflexivity.
Qed.

End WithCfg.

(* non-vacuity: block 103 of the example chain has no OPR entries; it applies, and pn_rate is as before; block 104
   (one winner) does record rates, so the statement is not true of every block *)
From Model Require Import Examples.
Example no_winners_no_rates_example :
  match replay ex_cfg genesis empty_cache (firstn 2 ex_chain) with
  | Done (s2, m2) =>
    let b := nth 2 ex_chain (ex_block 0 None None []) in
    grade_opr ex_cfg s2 b = Done None /\ no_winners None /\
    match step_block ex_cfg s2 m2 b with
    | Done (s3, m3) => rates s3 = rates s2 /\
        match step_block ex_cfg s3 m3 (nth 3 ex_chain (ex_block 0 None None [])) with
        | Done (s4, _) => rates s4 <> rates s3
        | _ => False
        end
    | _ => False
    end
  | _ => False
  end.
Proof. vm_compute. split; [reflexivity|]. split; [exact I|]. split; [reflexivity|]. discriminate. Qed.
