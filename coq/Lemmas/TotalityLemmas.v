(* Lemmas/TotalityLemmas.v — C08 (sync liveness), totality half: the transaction machinery of the
   ledger model cannot return [Fail]/[Panic] whatever the entries of the transaction chain are,
   under an explicit invariant that is itself preserved.

     hist_closed s      every hash of pn_history_transaction and of the holding table also has a
                        pn_history_txbatch row            (uniqueness constraints cannot fire)
     bal_room s n       every balance cell is in [0, max_int64 - n]     (no REAL cell, no SQL
                        argument with the high bit set)
     batch_wf           what the decoder + signature check guarantee about a decoded batch and
                        [entry_valid_at] does not re-state: input tickers are tickers, and the
                        signer is not the burn address

   L1  insert_history_total, insert_holding_total
   L2  apply_entry_total
   L3  apply_tx_block_total
   (L4, the holding path from 2.0 on, is in TotalityHolding.v) *)
From Model Require Import Block.
From Lemmas Require Import ArithLemmas DbLemmas LedgerLemmas.
From Gen Require Import Consts.
From Coq Require Import Lia ZifyBool.
Open Scope Z_scope.
Open Scope list_scope.

(* ---- keys of the three tables with uniqueness constraints ---------------------------------------- *)
Definition hist_keys (s : db) : list Z := map hb_hash (hist s).
Definition htx_keys (s : db) : list Z := map ht_hash (htxs s).
Definition hold_keys (s : db) : list Z := map (fun x => e_hash (h_entry x)) (holding s).
Definition keys (s : db) : list Z * list Z * list Z := (hist_keys s, htx_keys s, hold_keys s).

(* the invariant: transaction rows and held batches only for recorded hashes *)
Definition hist_closed (s : db) : Prop :=
  incl (htx_keys s) (hist_keys s) /\ incl (hold_keys s) (hist_keys s).
Definition hist_closedb (s : db) : bool :=
  forallb (fun r => hist_has s (ht_hash r)) (htxs s) &&
  forallb (fun x => hist_has s (e_hash (h_entry x))) (holding s).

Lemma hist_has_in s x : hist_has s x = true <-> In x (hist_keys s).
Proof.
  unfold hist_has, hist_keys. rewrite existsb_exists, in_map_iff. split.
  - intros (r & Hin & He). exists r. split; [lia|exact Hin].
  - intros (r & He & Hin). exists r. split; [exact Hin|lia].
Qed.
Lemma hist_has_false s x : hist_has s x = false <-> ~ In x (hist_keys s).
Proof. rewrite <- hist_has_in. destruct (hist_has s x); split; intros H; try reflexivity; try discriminate; try (intros K; discriminate). exfalso; apply H; reflexivity. Qed.

Lemma hist_closedb_spec s : hist_closedb s = true <-> hist_closed s.
Proof.
  unfold hist_closedb, hist_closed, incl, htx_keys, hold_keys. rewrite andb_true_iff, !forallb_forall. split.
  - intros [H1 H2]. split; intros x Hx; apply in_map_iff in Hx as (r & <- & Hr); apply hist_has_in; auto.
  - intros [H1 H2]. split; intros r Hr; apply hist_has_in; [apply H1|apply H2]; apply in_map_iff; exists r; auto.
Qed.

Lemma hist_closed_keys s s' : keys s' = keys s -> hist_closed s -> hist_closed s'.
Proof. unfold keys, hist_closed. intros E. inversion E as [[E1 E2 E3]]. rewrite E1, E2, E3. auto. Qed.

Lemma hist_has_at_has s x h : hist_has_at s x h = true -> hist_has s x = true.
Proof.
  unfold hist_has_at, hist_has. rewrite !existsb_exists. intros (r & Hin & He). exists r. split; [exact Hin|lia].
Qed.
Lemma htx_has_in s x i : htx_has s x i = true -> In x (htx_keys s).
Proof.
  unfold htx_has, htx_keys. rewrite existsb_exists, in_map_iff. intros (r & Hin & He). exists r. split; [lia|exact Hin].
Qed.
Lemma holding_has_in s x : holding_has s x = true -> In x (hold_keys s).
Proof.
  unfold holding_has, hold_keys. rewrite existsb_exists, in_map_iff. intros (r & Hin & He). exists r. split; [lia|exact Hin].
Qed.

(* setters and the keys *)
Lemma keys_set_bal s v : keys (set_bal s v) = keys s.  Proof. reflexivity. Qed.
Lemma keys_insert_relation s a hs i t cv : keys (insert_relation s a hs i t cv) = keys s.
Proof. unfold insert_relation. destruct (existsb _ _); reflexivity. Qed.
Lemma keys_set_executed s hs code : keys (set_executed s hs code) = keys s.
Proof.
  unfold keys, set_executed, hist_keys, htx_keys, hold_keys. cbn [hist htxs holding set_hist].
  f_equal. f_equal. rewrite map_map. apply map_ext. intros r. destruct (hb_hash r =? hs); reflexivity.
Qed.
Lemma keys_set_to_amount s hs i amt : keys (set_to_amount s hs i amt) = keys s.
Proof.
  unfold keys, set_to_amount, upd_htx, hist_keys, htx_keys, hold_keys. cbn [hist htxs holding set_htxs].
  f_equal. f_equal. rewrite map_map. apply map_ext. intros r. destruct (_ && _); reflexivity.
Qed.
Lemma keys_set_peg_request_amounts s hs i amt o : keys (set_peg_request_amounts s hs i amt o) = keys s.
Proof.
  unfold keys, set_peg_request_amounts, upd_htx, hist_keys, htx_keys, hold_keys. cbn [hist htxs holding set_htxs].
  f_equal. f_equal. rewrite map_map. apply map_ext. intros r. destruct (_ && _); reflexivity.
Qed.

(* ---- L1: the history and holding inserts cannot hit their uniqueness constraints ------------------- *)
Section Rows.
Variable hs : hash.
Fixpoint rows_from (idx : Z) (txs : list tx) : list (htx * list addr) :=
  match txs with
  | [] => []
  | t :: rest =>
    (if is_conversion t
     then ({| ht_hash := hs; ht_index := idx; ht_action := 2; ht_from := tx_addr t; ht_from_asset := tx_type t;
              ht_from_amount := tx_amt t; ht_to_asset := tx_conv t; ht_to_amount := 0; ht_outputs := [] |},
           [tx_addr t])
     else ({| ht_hash := hs; ht_index := idx; ht_action := 1; ht_from := tx_addr t; ht_from_asset := tx_type t;
              ht_from_amount := tx_amt t; ht_to_asset := 0; ht_to_amount := 0;
              ht_outputs := map (fun tr => (tr_addr tr, tr_amt tr)) (tx_transfers t) |},
           tx_addr t :: map tr_addr (tx_transfers t)))
    :: rows_from (idx + 1) rest
  end.
End Rows.
Lemma history_rows_of_from hs txs : history_rows_of hs txs = rows_from hs 0 txs.
Proof. reflexivity. Qed.

(* the rows of one entry are numbered idx, idx+1, ...: they are inserted without a primary-key
   conflict into a table that has no row of that hash with an index >= idx *)
Lemma insert_rows_total hs : forall txs idx s,
  (forall r, In r (htxs s) -> ht_hash r = hs -> ht_index r < idx) ->
  exists s', fold_left (fun r row => let? s0 := r in insert_htx s0 (fst row) (snd row)) (rows_from hs idx txs) (Ok s) = Ok s' /\
             hist s' = hist s /\ holding s' = holding s /\ bal s' = bal s /\ rel s' = rel s /\
             (forall x, In x (htx_keys s') -> In x (htx_keys s) \/ x = hs).
Proof.
  induction txs as [|t txs IH]; intros idx s Hlt; cbn [rows_from fold_left].
  - exists s. repeat split; auto.
  - set (row := if is_conversion t then _ else _).
    assert (Hrow : ht_hash (fst row) = hs /\ ht_index (fst row) = idx) by (unfold row; destruct (is_conversion t); split; reflexivity).
    destruct Hrow as [Hh Hi]. cbn [rbind]. unfold insert_htx at 2. rewrite Hh, Hi.
    assert (Hno : htx_has s hs idx = false).
    { unfold htx_has. apply not_true_is_false. intros K. apply existsb_exists in K as (r & Hin & He).
      specialize (Hlt r Hin). lia. }
    rewrite Hno.
    set (s1 := set_htxs s (htxs s ++ [fst row]) _).
    destruct (IH (idx + 1) s1) as (s' & HF & H1 & H2 & H3 & H4 & H5).
    { intros r Hin Hr. unfold s1 in Hin. cbn [htxs set_htxs] in Hin. apply in_app_or in Hin as [Hin|[<-|[]]].
      - specialize (Hlt r Hin Hr). lia.
      - lia. }
    exists s'. split; [exact HF|]. repeat split; auto.
    intros x Hx. apply H5 in Hx as [Hx|Hx]; [|right; exact Hx].
    unfold s1, htx_keys in Hx. cbn [htxs set_htxs] in Hx. rewrite map_app in Hx. apply in_app_or in Hx as [Hx|[<-|[]]].
    + left; exact Hx.
    + right; exact Hh.
Qed.

Definition entry_hbatch (e : entry) (order h : Z) : hbatch :=
  {| hb_hash := e_hash e; hb_height := h; hb_order := order; hb_ts := e_ts e; hb_exec := 0 |}.

Theorem insert_history_total s e order h txs :
  hist_closed s -> hist_has s (e_hash e) = false ->
  exists s', insert_history s e order h txs = Ok s' /\
             hist_keys s' = hist_keys s ++ [e_hash e] /\
             (forall x, In x (htx_keys s') -> In x (htx_keys s) \/ x = e_hash e) /\
             holding s' = holding s /\ bal s' = bal s /\ rel s' = rel s.
Proof.
  intros [Hc1 Hc2] Hno. unfold insert_history, insert_hbatch. cbn [hb_hash hb_height].
  assert (Hat : hist_has_at s (e_hash e) h = false).
  { destruct (hist_has_at s (e_hash e) h) eqn:E; [|reflexivity]. apply hist_has_at_has in E. congruence. }
  rewrite Hat. cbn [rbind]. rewrite history_rows_of_from.
  set (s1 := set_hist s _).
  destruct (insert_rows_total (e_hash e) txs 0 s1) as (s' & HF & H1 & H2 & H3 & H4 & H5).
  { intros r Hin Hr. exfalso. apply hist_has_false in Hno. apply Hno. apply Hc1.
    unfold htx_keys. apply in_map_iff. exists r. split; [exact Hr|exact Hin]. }
  exists s'. split; [exact HF|]. repeat split.
  - unfold hist_keys. rewrite H1. unfold s1. cbn [hist set_hist]. rewrite map_app. reflexivity.
  - exact H5.
  - rewrite H2. reflexivity.
  - rewrite H3. reflexivity.
  - rewrite H4. reflexivity.
Qed.

Theorem insert_holding_total s e h :
  ~ In (e_hash e) (hold_keys s) ->
  exists s', insert_holding s e h = Ok s' /\ hist s' = hist s /\ htxs s' = htxs s /\ bal s' = bal s /\
             hold_keys s' = hold_keys s ++ [e_hash e].
Proof.
  intros Hno. unfold insert_holding.
  destruct (holding_has s (e_hash e)) eqn:E; [exfalso; apply Hno; apply holding_has_in; exact E|].
  eexists. split; [reflexivity|]. repeat split.
  unfold hold_keys. cbn [holding set_holding]. rewrite map_app. reflexivity.
Qed.

(* in the form asked for: from a closed state a hash that is not recorded is not held either *)
Corollary insert_holding_total_closed s e h :
  hist_closed s -> hist_has s (e_hash e) = false -> exists s', insert_holding s e h = Ok s'.
Proof.
  intros [_ Hc] Hno. destruct (insert_holding_total s e h) as (s' & H & _); [|eauto].
  intros K. apply hist_has_false in Hno. apply Hno, Hc, K.
Qed.

(* ---- balances: room below max_int64 ------------------------------------------------------------------ *)
Definition bal_room (s : db) (n : Z) : Prop :=
  forall a t, 0 <= get_bal (bal s) a t /\ get_bal (bal s) a t + n <= max_int64.
Definition bal_roomb (s : db) (n : Z) : bool :=
  (n <=? max_int64) && forallb (fun kv => (0 <=? snd kv) && (snd kv + n <=? max_int64)) (map_to_list (bal s)).

Ltac zl := unfold max_int64, two63, two64 in *; lia.

Lemma bal_roomb_spec s n : bal_roomb s n = true -> bal_room s n.
Proof.
  unfold bal_roomb, bal_room. intros H a t. apply andb_prop in H as [Hn H]. rewrite forallb_forall in H.
  unfold get_bal. destruct (bal s !! (a, t)) as [v|] eqn:E; cbn [from_option id].
  - apply elem_of_map_to_list in E. apply elem_of_list_In in E. specialize (H _ E). cbn [snd] in H. zl.
  - zl.
Qed.
Lemma bal_room_weaken s n m : m <= n -> bal_room s n -> bal_room s m.
Proof. intros Hm H a t. specialize (H a t). zl. Qed.
Lemma bal_room_eq s s' n : bal s' = bal s -> bal_room s n -> bal_room s' n.
Proof. unfold bal_room. intros ->. auto. Qed.
Lemma bal_room_nonneg s n : bal_room s n -> nonneg s.
Proof. intros H a t. apply H. Qed.

Lemma add_to_balance_total s a t v n :
  valid_ticker t = true -> 0 <= v -> 0 <= n -> bal_room s (v + n) ->
  exists s', add_to_balance s a t v = Ok s' /\ keys s' = keys s /\ bal_room s' n /\
             bal s' = <[(a, t) := get_bal (bal s) a t + v]> (bal s).
Proof.
  intros Ht Hv Hn Hr. unfold add_to_balance. rewrite Ht. cbn [negb].
  pose proof (Hr a t) as Hat. unfold two63. unfold max_int64 in *.
  destruct (Z.leb_spec 9223372036854775808 v) as [K|_]; [zl|].
  destruct (Z.ltb_spec 9223372036854775807 (get_bal (bal s) a t + v)) as [K|_]; [zl|].
  eexists. split; [reflexivity|]. split; [reflexivity|]. split; [|reflexivity].
  intros a' t'. cbn [bal set_bal]. rewrite get_bal_insert. destruct (decide _); [zl|].
  specialize (Hr a' t'). zl.
Qed.

Lemma sub_from_balance_total s a t v n :
  valid_ticker t = true -> 0 <= v <= get_bal (bal s) a t -> 0 <= n -> bal_room s n ->
  exists s', sub_from_balance s a t v = SubOk s' /\ keys s' = keys s /\ bal_room s' n /\
             bal s' = <[(a, t) := get_bal (bal s) a t - v]> (bal s).
Proof.
  intros Ht Hv Hn Hr. unfold sub_from_balance. destruct (Z.eqb_spec v 0) as [->|Hv0].
  - destruct (add_to_balance_total s a t 0 n Ht) as (s' & H1 & H2 & H3 & H4); [zl|zl|exact Hr|].
    rewrite H1. exists s'. split; [reflexivity|]. split; [exact H2|]. split; [exact H3|].
    rewrite H4. f_equal; zl.
  - rewrite Ht. cbn [negb]. pose proof (Hr a t) as Hat. unfold two63. unfold max_int64 in *.
    destruct (Z.ltb_spec (get_bal (bal s) a t) v) as [K|_]; [zl|].
    destruct (Z.leb_spec 9223372036854775808 v) as [K|_]; [zl|].
    eexists. split; [reflexivity|]. split; [reflexivity|]. split; [|reflexivity].
    intros a' t'. cbn [bal set_bal]. rewrite get_bal_insert. destruct (decide _); [zl|].
    specialize (Hr a' t'). zl.
Qed.

(* ---- what a batch can credit ---------------------------------------------------------------------------- *)
Definition transfers_sum (trs : list transfer) : Z := fold_right (fun tr acc => tr_amt tr + acc) 0 trs.
Definition transfers_total (txs : list tx) : Z := fold_right (fun t acc => transfers_sum (tx_transfers t) + acc) 0 txs.

Lemma transfers_sum_nonneg trs : Forall (fun tr => 0 <= tr_amt tr) trs -> 0 <= transfers_sum trs.
Proof. induction 1; cbn [transfers_sum fold_right]; [zl|]. unfold transfers_sum in IHForall. zl. Qed.

Lemma existsb_eqb_in x l : existsb (Z.eqb x) l = true <-> In x l.
Proof.
  rewrite existsb_exists. split; [intros (y & Hin & He); apply Z.eqb_eq in He; subst; exact Hin|].
  intros Hin. exists x. split; [exact Hin|apply Z.eqb_refl].
Qed.

Lemma is_peg_request_conversion t : is_peg_request t = true -> is_conversion t = true.
Proof.
  unfold is_peg_request, is_conversion. destruct (tx_transfers t); [|discriminate].
  intros H. apply Z.eqb_eq in H. rewrite H. reflexivity.
Qed.

Section WithCfg.
Variable c : cfg.

Definition tx_credit (h : Z) (rates avgs : gmap ticker Z) (t : tx) : Z :=
  if is_conversion t then default 0 (conv_of c h rates avgs t) else transfers_sum (tx_transfers t).
Definition txs_credit (h : Z) (rates avgs : gmap ticker Z) (txs : list tx) : Z :=
  fold_right (fun t acc => tx_credit h rates avgs t + acc) 0 txs.

(* [m] is the uint64 simulation's copy of the balances, [s] the database: they agree on the rows of
   the input addresses *)
Definition agree (present : list addr) (m : gmap (addr * ticker) Z) (s : db) : Prop :=
  forall a t, In a present -> get_bal m a t = get_bal (bal s) a t.

Definition sim_credit (present : list addr) (ty : ticker) (m' : gmap (addr * ticker) Z) (tr : transfer) :=
  if existsb (Z.eqb (tr_addr tr)) present
  then <[(tr_addr tr, ty) := wrap64 (sim_get m' (tr_addr tr) ty + tr_amt tr)]> m'
  else m'.

Lemma credit_transfers_total h hs idx ty present :
  valid_ticker ty = true -> ~ In (burn_addr c h) present ->
  forall trs s m n,
  Forall (fun tr => 0 <= tr_amt tr) trs -> 0 <= n -> bal_room s (transfers_sum trs + n) -> agree present m s ->
  exists s', credit_transfers c h hs idx ty trs s = Ok s' /\ keys s' = keys s /\ bal_room s' n /\
             agree present (fold_left (sim_credit present ty) trs m) s'.
Proof.
  intros Hty Hburn. unfold credit_transfers.
  induction trs as [|tr trs IH]; intros s m n Hf Hn Hr Ha; cbn [fold_left].
  - exists s. split; [reflexivity|]. split; [reflexivity|]. split; [|exact Ha].
    intros a t. cbn [transfers_sum fold_right] in Hr. specialize (Hr a t). zl.
  - inversion Hf as [|? ? Hamt Hf']; subst. cbn [rbind].
    pose proof (transfers_sum_nonneg trs Hf') as Hrest.
    cbn [transfers_sum fold_right] in Hr. fold (transfers_sum trs) in Hr.
    destruct (Z.eqb_spec (tr_addr tr) (burn_addr c h)) as [Eb|Nb].
    + (* to the burn address: nothing is credited; the address is no input, the simulation skips it too *)
      assert (Hs : sim_credit present ty m tr = m).
      { unfold sim_credit. destruct (existsb (Z.eqb (tr_addr tr)) present) eqn:E; [|reflexivity].
        apply existsb_eqb_in in E. rewrite Eb in E. contradiction. }
      rewrite Hs. apply IH; auto. eapply bal_room_weaken; [|exact Hr]. zl.
    + destruct (add_to_balance_total s (tr_addr tr) ty (tr_amt tr) (transfers_sum trs + n) Hty Hamt)
        as (s1 & H1 & H2 & H3 & H4); [zl|eapply bal_room_weaken; [|exact Hr]; zl|].
      rewrite H1. cbn [rbind].
      set (s2 := insert_relation s1 (tr_addr tr) hs idx true false).
      destruct (IH s2 (sim_credit present ty m tr) n Hf' Hn) as (s' & G1 & G2 & G3 & G4).
      * eapply bal_room_eq; [apply bal_insert_relation|exact H3].
      * intros a t Hin. unfold s2. rewrite bal_insert_relation, H4, get_bal_insert. unfold sim_credit.
        destruct (existsb (Z.eqb (tr_addr tr)) present) eqn:E.
        -- rewrite get_bal_insert. destruct (decide _) as [D|D]; [|apply Ha; exact Hin].
           injection D as D1 D2; subst a t. change (sim_get m (tr_addr tr) ty) with (get_bal m (tr_addr tr) ty).
           rewrite (Ha _ ty Hin). apply wrap64_small. pose proof (Hr (tr_addr tr) ty). unfold two64, max_int64 in *. zl.
        -- destruct (decide _) as [D|D]; [|apply Ha; exact Hin].
           injection D as D1 D2; subst a t. exfalso. apply not_true_iff_false in E. apply E. apply existsb_eqb_in. exact Hin.
      * exists s'. split; [exact G1|]. split; [|split; [exact G3|exact G4]].
        rewrite G2. unfold s2. rewrite keys_insert_relation. exact H2.
Qed.

Definition tx_pre (h : Z) (t : tx) : Prop :=
  valid_ticker (tx_type t) = true /\ tx_amounts_ok t /\
  ((c_PegnetConversionLimitActivation c <=? h) && is_peg_request t) = false.

Lemma tx_credit_nonneg h rates avgs t :
  (forall t out, conv_of c h rates avgs t = Some out -> 0 <= out) -> tx_amounts_ok t -> 0 <= tx_credit h rates avgs t.
Proof.
  intros Hc [_ Hf]. unfold tx_credit. destruct (is_conversion t).
  - destruct (conv_of c h rates avgs t) as [out|] eqn:E; cbn [from_option id]; [eapply Hc; exact E|zl].
  - apply transfers_sum_nonneg; exact Hf.
Qed.
Lemma txs_credit_nonneg h rates avgs txs :
  (forall t out, conv_of c h rates avgs t = Some out -> 0 <= out) -> txs_ok txs -> 0 <= txs_credit h rates avgs txs.
Proof.
  intros Hc. induction 1 as [|t txs Ht _ IH]; cbn [txs_credit fold_right]; [zl|].
  pose proof (tx_credit_nonneg h rates avgs t Hc Ht). unfold txs_credit in IH. zl.
Qed.

(* the heart of the matter: when the simulation accepts the batch, recordBatch runs to its end *)
Lemma record_txs_total h hs rates avgs present :
  ~ In (burn_addr c h) present ->
  (forall t out, conv_of c h rates avgs t = Some out -> 0 <= out) ->
  forall txs idx m s n,
  Forall (tx_pre h) txs -> Forall (fun t => In (tx_addr t) present) txs -> 0 <= n ->
  bal_room s (txs_credit h rates avgs txs + n) -> agree present m s ->
  sim_txs c h present rates avgs m txs = None ->
  exists s', record_txs c h hs rates avgs idx txs s = Ok s' /\ keys s' = keys s /\ bal_room s' n.
Proof.
  intros Hburn Hconv.
  induction txs as [|t txs IH]; intros idx m s n Hpre Hin Hn Hr Ha Hsim; cbn [record_txs].
  - exists s. split; [reflexivity|]. split; [reflexivity|].
    intros a ty. cbn [txs_credit fold_right] in Hr. specialize (Hr a ty). zl.
  - inversion Hpre as [|? ? (Hty & Hok & Hpeg) Hpre']; subst. inversion Hin as [|? ? Hint Hin']; subst.
    assert (Hoks : txs_ok txs) by (eapply Forall_impl; [|exact Hpre']; intros ? (_ & K & _); exact K).
    pose proof (txs_credit_nonneg h rates avgs txs Hconv Hoks) as Hrest.
    pose proof (tx_credit_nonneg h rates avgs t Hconv Hok) as Hcur.
    cbn [txs_credit fold_right] in Hr. fold (txs_credit h rates avgs txs) in Hr.
    cbn [sim_txs] in Hsim. change (sim_get m (tx_addr t) (tx_type t)) with (get_bal m (tx_addr t) (tx_type t)) in Hsim.
    rewrite (Ha _ (tx_type t) Hint) in Hsim.
    destruct (Z.ltb_spec (get_bal (bal s) (tx_addr t) (tx_type t)) (tx_amt t)) as [K|Hcov]; [discriminate|].
    destruct Hok as [Hamt Htrs].
    destruct (sub_from_balance_total s (tx_addr t) (tx_type t) (tx_amt t)
                (tx_credit h rates avgs t + txs_credit h rates avgs txs + n) Hty) as (s1 & S1 & S2 & S3 & S4);
      [zl|zl|exact Hr|].
    rewrite S1. rewrite Hpeg.
    set (s3 := set_executed (insert_relation s1 (tx_addr t) hs idx false (is_conversion t)) hs h).
    assert (K3 : keys s3 = keys s) by (unfold s3; rewrite keys_set_executed, keys_insert_relation; exact S2).
    assert (B3 : bal s3 = bal s1) by (unfold s3; rewrite bal_set_executed, bal_insert_relation; reflexivity).
    set (m1 := <[(tx_addr t, tx_type t) := wrap64 (get_bal (bal s) (tx_addr t) (tx_type t) - tx_amt t)]> m) in Hsim.
    assert (A1 : agree present m1 s3).
    { intros a ty Ha'. rewrite B3, S4. unfold m1. rewrite !get_bal_insert. destruct (decide _); [|apply Ha; exact Ha'].
      apply wrap64_small. pose proof (Hr (tx_addr t) (tx_type t)). unfold two64, max_int64 in *. zl. }
    unfold tx_credit in Hr, Hcur, S3. destruct (is_conversion t) eqn:Ec.
    + (* a conversion *)
      destruct (conv_of c h rates avgs t) as [out|] eqn:Eo; [|discriminate]. cbn [from_option id] in Hr, Hcur, S3.
      assert (Hcv : valid_ticker (tx_conv t) = true).
      { unfold is_conversion in Ec. destruct (tx_transfers t); [exact Ec|discriminate]. }
      assert (Hw : wrap64 out = out).
      { apply wrap64_small. pose proof (Hr (tx_addr t) (tx_type t)). unfold two64, max_int64 in *. zl. }
      rewrite Hw in *.
      destruct (add_to_balance_total (set_to_amount s3 hs idx out) (tx_addr t) (tx_conv t) out
                  (txs_credit h rates avgs txs + n) Hcv Hcur) as (s5 & T1 & T2 & T3 & T4); [zl| |].
      { eapply bal_room_eq; [rewrite bal_set_to_amount; exact B3|].
        eapply bal_room_weaken; [|exact S3]. zl. }
      rewrite T1. cbn [rbind].
      eapply IH in Hsim as (s' & R1 & R2 & R3); [| exact Hpre' | exact Hin' | exact Hn | exact T3 |].
      * exists s'. split; [exact R1|]. split; [|exact R3]. rewrite R2, T2, keys_set_to_amount. exact K3.
      * intros a ty Ha'. rewrite T4, bal_set_to_amount. rewrite !get_bal_insert.
        change (sim_get m1 (tx_addr t) (tx_conv t)) with (get_bal m1 (tx_addr t) (tx_conv t)).
        rewrite (A1 _ (tx_conv t) Hint).
        destruct (decide _); [|apply A1; exact Ha'].
        apply wrap64_small. pose proof (S3 (tx_addr t) (tx_conv t)) as P. rewrite <- B3 in P.
        unfold two64, max_int64 in *. zl.
    + (* transfers *)
      destruct (credit_transfers_total h hs idx (tx_type t) present Hty Hburn (tx_transfers t) s3 m1
                  (txs_credit h rates avgs txs + n) Htrs) as (s4 & C1 & C2 & C3 & C4); [zl| |exact A1|].
      { eapply bal_room_eq; [exact B3|]. eapply bal_room_weaken; [|exact S3]. zl. }
      rewrite C1. cbn [rbind].
      eapply IH in Hsim as (s' & R1 & R2 & R3); [| exact Hpre' | exact Hin' | exact Hn | exact C3 | exact C4].
      exists s'. split; [exact R1|]. split; [|exact R3]. rewrite R2, C2. exact K3.
Qed.
End WithCfg.

(* ---- what the two checking loops can answer ---------------------------------------------------------------- *)
Section Loops.
Variable c : cfg.

Lemma has_conversions_cons t txs : has_conversions (t :: txs) = false -> is_conversion t = false /\ has_conversions txs = false.
Proof. unfold has_conversions. cbn [existsb]. intros H. apply orb_false_elim in H. exact H. Qed.

(* the first loop fails the block only through "rates must exist" *)
Lemma check_txs_no_fail h s rates avgs txs code :
  is_empty_map rates = false \/ has_conversions txs = false ->
  check_txs c h s rates avgs txs <> Some (BFail code).
Proof.
  induction txs as [|t txs IH]; intros Hor; cbn [check_txs]; [discriminate|].
  assert (Hor' : is_empty_map rates = false \/ has_conversions txs = false).
  { destruct Hor as [H|H]; [left; exact H|right; apply has_conversions_cons in H; apply H]. }
  destruct (_ <? tx_amt t); [discriminate|].
  destruct (is_conversion t) eqn:Ec; [|apply IH; exact Hor'].
  destruct (is_empty_map rates) eqn:Ee.
  { destruct Hor as [H|H]; [discriminate|]. apply has_conversions_cons in H as [H _]. congruence. }
  destruct (_ || _); [discriminate|]. destruct (_ && _); [discriminate|]. destruct (_ && _); [discriminate|].
  destruct (conv_of c h rates avgs t); [apply IH; exact Hor'|discriminate].
Qed.

(* without conversions its only answer is "insufficient balance" *)
Lemma check_txs_arrival h s rates avgs txs code :
  has_conversions txs = false -> check_txs c h s rates avgs txs = Some (BRejected code) -> code = -1.
Proof.
  induction txs as [|t txs IH]; intros Hc; cbn [check_txs]; [discriminate|].
  apply has_conversions_cons in Hc as [Hc1 Hc2]. rewrite Hc1.
  destruct (_ <? tx_amt t); [intros H; inversion H; reflexivity|apply IH; exact Hc2].
Qed.
Lemma check_txs_arrival_not_dropped h s rates avgs txs :
  has_conversions txs = false -> check_txs c h s rates avgs txs <> Some BDropped.
Proof.
  induction txs as [|t txs IH]; intros Hc; cbn [check_txs]; [discriminate|].
  apply has_conversions_cons in Hc as [Hc1 Hc2]. rewrite Hc1.
  destruct (_ <? tx_amt t); [discriminate|apply IH; exact Hc2].
Qed.

(* once it lets a batch through, every conversion of the batch converts *)
Lemma check_txs_none_conv h s rates avgs txs :
  check_txs c h s rates avgs txs = None ->
  Forall (fun t => is_conversion t = true -> conv_of c h rates avgs t <> None) txs.
Proof.
  induction txs as [|t txs IH]; cbn [check_txs]; intros H; [constructor|].
  destruct (_ <? tx_amt t); [discriminate|].
  destruct (is_conversion t) eqn:Ec.
  - destruct (is_empty_map rates); [discriminate|].
    destruct (_ || _); [discriminate|]. destruct (_ && _); [discriminate|]. destruct (_ && _); [discriminate|].
    destruct (conv_of c h rates avgs t) eqn:Eo; [|discriminate]. constructor; [intros _; rewrite Eo; discriminate|apply IH; exact H].
  - constructor; [intros K; congruence|apply IH; exact H].
Qed.

(* ... so that the second loop can only answer "insufficient balance" *)
Lemma sim_txs_cases h present rates avgs txs :
  Forall (fun t => is_conversion t = true -> conv_of c h rates avgs t <> None) txs ->
  forall m, sim_txs c h present rates avgs m txs = None \/ sim_txs c h present rates avgs m txs = Some (BRejected (-1)).
Proof.
  induction 1 as [|t txs Ht _ IH]; intros m; cbn [sim_txs]; [left; reflexivity|].
  destruct (_ <? tx_amt t); [right; reflexivity|].
  destruct (is_conversion t).
  - destruct (conv_of c h rates avgs t); [apply IH|exfalso; apply Ht; reflexivity].
  - apply IH.
Qed.

(* applyTransactionBatch never fails the block *)
Lemma apply_batch_total h s hs txs rates avgs n :
  Forall (tx_pre c h) txs -> ~ In (burn_addr c h) (map tx_addr txs) ->
  (forall t out, conv_of c h rates avgs t = Some out -> 0 <= out) ->
  is_empty_map rates = false \/ has_conversions txs = false ->
  0 <= n -> bal_room s (txs_credit c h rates avgs txs + n) ->
  match apply_batch c h s hs txs rates avgs with
  | BApplied s' => keys s' = keys s /\ bal_room s' n
  | BRejected code => has_conversions txs = false -> code = -1
  | BDropped => has_conversions txs = true
  | BFail _ => False
  end.
Proof.
  intros Hpre Hburn Hconv Hor Hn Hr. unfold apply_batch.
  destruct (check_txs c h s rates avgs txs) as [r|] eqn:E1.
  { destruct r as [s'|code| |code].
    - exfalso. eapply check_txs_not_applied; exact E1.
    - intros Hc. eapply check_txs_arrival; eauto.
    - destruct (has_conversions txs) eqn:Hc; [reflexivity|]. exfalso. eapply check_txs_arrival_not_dropped; eauto.
    - eapply check_txs_no_fail; eauto. }
  pose proof (check_txs_none_conv _ _ _ _ _ E1) as Hcv.
  destruct (sim_txs_cases h (map tx_addr txs) rates avgs txs Hcv (bal s)) as [E2|E2]; rewrite E2; [|intros _; reflexivity].
  unfold record_batch.
  destruct (record_txs_total c h hs rates avgs (map tx_addr txs) Hburn Hconv txs 0 (bal s) s n Hpre) as (s' & R1 & R2 & R3);
    [|exact Hn|exact Hr|intros a t _; reflexivity|exact E2|].
  { apply Forall_forall. intros t Hin. apply in_map. exact Hin. }
  rewrite R1. split; assumption.
Qed.
End Loops.

(* ---- hypotheses about the entries, as named definitions -------------------------------------------------------- *)
(* What [entry_valid_at] does not re-state about a decoded, signature-checked batch (Model/Codec.v:
   tx_validate has the ticker range; valid_extids needs a signature whose RCD hashes to the input
   address, and nobody has one for the burn address). *)
Definition tx_wf (burn : addr) (t : tx) : bool := valid_ticker (tx_type t) && negb (tx_addr t =? burn).
Definition batch_wf (burn : addr) (o : option (list tx)) : bool :=
  match o with Some txs => forallb (tx_wf burn) txs | None => true end.
Definition entry_wf (c : cfg) (h : Z) (e : entry) : bool := batch_wf (burn_addr c h) (entry_valid_at c e h).

(* what an arriving entry can add to any one balance cell: the transfers of a batch without
   conversions (a batch with conversions goes to the holding table, an invalid entry is skipped) *)
Definition arrival_credit (c : cfg) (h : Z) (e : entry) : Z :=
  match entry_valid_at c e h with
  | Some txs => if has_conversions txs then 0 else transfers_total txs
  | None => 0
  end.
Definition block_credit (c : cfg) (h : Z) (es : list entry) : Z := fold_right (fun e acc => arrival_credit c h e + acc) 0 es.

Lemma transfers_total_nonneg txs : txs_ok txs -> 0 <= transfers_total txs.
Proof.
  induction 1 as [|t txs [_ Ht] _ IH]; cbn [transfers_total fold_right]; [lia|].
  pose proof (transfers_sum_nonneg _ Ht). unfold transfers_total in IH. lia.
Qed.
Lemma txs_credit_transfers c h rates avgs txs : has_conversions txs = false -> txs_credit c h rates avgs txs = transfers_total txs.
Proof.
  induction txs as [|t txs IH]; intros Hc; [reflexivity|]. apply has_conversions_cons in Hc as [Hc1 Hc2].
  cbn [txs_credit transfers_total fold_right]. unfold tx_credit at 1. rewrite Hc1.
  fold (txs_credit c h rates avgs txs). fold (transfers_total txs). rewrite (IH Hc2). reflexivity.
Qed.
Lemma arrival_credit_nonneg c h e : 0 <= arrival_credit c h e.
Proof.
  unfold arrival_credit. destruct (entry_valid_at c e h) as [txs|] eqn:E; [|lia].
  destruct (has_conversions txs); [lia|]. apply transfers_total_nonneg. eapply entry_valid_at_ok; exact E.
Qed.
Lemma block_credit_nonneg c h es : 0 <= block_credit c h es.
Proof.
  induction es as [|e es IH]; cbn [block_credit fold_right]; [lia|].
  pose proof (arrival_credit_nonneg c h e). unfold block_credit in IH. lia.
Qed.

Lemma batch_wf_pre c h txs :
  forallb (tx_wf (burn_addr c h)) txs = true -> txs_ok txs -> has_conversions txs = false ->
  Forall (tx_pre c h) txs /\ ~ In (burn_addr c h) (map tx_addr txs).
Proof.
  intros Hw Hok Hc. rewrite forallb_forall in Hw. split.
  - apply Forall_forall. intros t Hin. unfold tx_pre. pose proof (Hw t Hin) as W. unfold tx_wf in W. apply andb_prop in W as [W1 _].
    split; [exact W1|]. split; [unfold txs_ok in Hok; rewrite Forall_forall in Hok; apply Hok; exact Hin|].
    destruct (is_peg_request t) eqn:Ep; [|apply andb_false_r].
    exfalso. apply is_peg_request_conversion in Ep. unfold has_conversions in Hc.
    assert (K : existsb is_conversion txs = true) by (apply existsb_exists; exists t; auto). congruence.
  - intros Hin. apply in_map_iff in Hin as (t & Ht & Hin). specialize (Hw t Hin). unfold tx_wf in Hw. apply andb_prop in Hw as [_ W]. lia.
Qed.

Lemma conv_of_empty_none c h t out : conv_of c h ∅ ∅ t = Some out -> 0 <= out.
Proof.
  unfold conv_of, convert_h. intros H. eapply convert_range; [| | | |exact H]; unfold rate_of; rewrite lookup_empty; cbn; lia.
Qed.

(* ---- L2: one arriving entry ------------------------------------------------------------------------------------------ *)
Lemma hist_closed_after_history s s1 hs :
  hist_closed s -> hist_keys s1 = hist_keys s ++ [hs] ->
  (forall x, In x (htx_keys s1) -> In x (htx_keys s) \/ x = hs) -> holding s1 = holding s ->
  hist_closed s1.
Proof.
  intros [H1 H2] E1 E2 E3. unfold hist_closed, incl. rewrite E1. unfold hold_keys. rewrite E3. split.
  - intros x Hx. apply in_or_app. apply E2 in Hx as [Hx| ->]; [left; apply H1; exact Hx|right; left; reflexivity].
  - intros x Hx. apply in_or_app. left. apply H2. exact Hx.
Qed.

Theorem apply_entry_total c h s order e n :
  hist_closed s -> entry_wf c h e = true -> 0 <= n -> bal_room s (arrival_credit c h e + n) ->
  exists s', apply_entry c h s order e = Ok s' /\ hist_closed s' /\ bal_room s' n.
Proof.
  intros Hcl Hwf Hn Hr. pose proof (arrival_credit_nonneg c h e) as Hcr.
  assert (Hr0 : bal_room s n) by (eapply bal_room_weaken; [|exact Hr]; lia).
  unfold apply_entry, entry_wf, arrival_credit in *.
  destruct (entry_valid_at c e h) as [txs|] eqn:Ev; [|exists s; auto].
  destruct (is_replay s (e_hash e)); [exists s; auto|].
  destruct (hist_has s (e_hash e)) eqn:Eh; [exists s; auto|].
  destruct (insert_history_total s e order h txs Hcl Eh) as (s1 & I1 & I2 & I3 & I4 & I5 & I6).
  rewrite I1. cbn [rbind].
  assert (Hcl1 : hist_closed s1) by (eapply hist_closed_after_history; eauto).
  pose proof (entry_valid_at_ok c e h txs Ev) as Hok. cbn [batch_wf] in Hwf.
  destruct (has_conversions txs) eqn:Hc.
  - (* to the holding table *)
    destruct (insert_holding_total s1 e h) as (s2 & J1 & J2 & J3 & J4 & J5).
    { unfold hold_keys. rewrite I4. intros K. apply hist_has_false in Eh. apply Eh. apply Hcl. exact K. }
    exists s2. split; [exact J1|]. split.
    + destruct Hcl1 as [C1 C2]. unfold hist_closed, incl, hist_keys, htx_keys. rewrite J2, J3, J5. split; [exact C1|].
      intros x Hx. apply in_app_or in Hx as [Hx|[<-|[]]]; [apply C2; exact Hx|].
      fold (hist_keys s1). rewrite I2. apply in_or_app. right. left. reflexivity.
    + eapply bal_room_eq; [rewrite J4; exact I5|exact Hr0].
  - destruct (batch_wf_pre c h txs Hwf Hok Hc) as [Hpre Hburn].
    pose proof (apply_batch_total c h s1 (e_hash e) txs ∅ ∅ n Hpre Hburn (conv_of_empty_none c h) (or_intror Hc) Hn) as T.
    rewrite (txs_credit_transfers c h ∅ ∅ txs Hc) in T.
    specialize (T (bal_room_eq _ _ _ I5 Hr)).
    destruct (apply_batch c h s1 (e_hash e) txs ∅ ∅) as [s2|code| |code].
    + exists s2. split; [reflexivity|]. destruct T as [T1 T2]. split; [eapply hist_closed_keys; eauto|exact T2].
    + rewrite (T Hc). cbn [Z.eqb Pos.eqb]. eexists. split; [reflexivity|]. split.
      * eapply hist_closed_keys; [apply keys_set_executed|exact Hcl1].
      * eapply bal_room_eq; [rewrite bal_set_executed; exact I5|exact Hr0].
    + congruence.
    + contradiction.
Qed.

(* ---- L3: a whole transaction block ------------------------------------------------------------------------------------ *)
Lemma apply_tx_block_total_from c h es : forall s i n,
  hist_closed s -> Forall (fun e => entry_wf c h e = true) es -> 0 <= n -> bal_room s (block_credit c h es + n) ->
  exists s', snd (fold_left (fun acc e => let '(i, r) := acc in (i + 1, let? s' := r in apply_entry c h s' i e)) es (i, Ok s)) = Ok s' /\
             hist_closed s' /\ bal_room s' n.
Proof.
  induction es as [|e es IH]; intros s i n Hcl Hwf Hn Hr; cbn [fold_left snd].
  - exists s. split; [reflexivity|]. split; [exact Hcl|]. eapply bal_room_weaken; [|exact Hr]. cbn [block_credit fold_right]. lia.
  - inversion Hwf as [|? ? Hw Hwf']; subst. cbn [block_credit fold_right] in Hr. fold (block_credit c h es) in Hr.
    pose proof (block_credit_nonneg c h es) as Hb.
    destruct (apply_entry_total c h s i e (block_credit c h es + n) Hcl Hw) as (s1 & A1 & A2 & A3); [lia| |].
    { eapply bal_room_weaken; [|exact Hr]. lia. }
    cbn [rbind]. rewrite A1. apply IH; assumption.
Qed.

Theorem apply_tx_block_total c h s es n :
  hist_closed s -> Forall (fun e => entry_wf c h e = true) es -> 0 <= n -> bal_room s (block_credit c h es + n) ->
  exists s', apply_tx_block c h s es = Ok s' /\ hist_closed s' /\ bal_room s' n.
Proof. unfold apply_tx_block. apply apply_tx_block_total_from. Qed.
