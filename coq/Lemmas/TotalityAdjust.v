(* Lemmas/TotalityAdjust.v — C08 (sync liveness): the one-time adjustments of the live era cannot fail and only move
   balances: NullifyBurnAddress from 2.0.2 on (no zeroing coinbase any more), the mint of V204EnhanceActivation and the
   burn of the minted tokens of V204BurnMintedTokenActivation.  [only_bal s s']: s' is s with other balances. *)
From Model Require Import Block.
From Lemmas Require Import ArithLemmas DbLemmas LedgerLemmas BlockLemmas IssuanceLemmas TotalityLemmas.
From Gen Require Import Consts.
From Coq Require Import Lia ZifyBool.
Open Scope Z_scope.
Open Scope list_scope.

Definition only_bal (s s' : db) : Prop := s' = set_bal s (bal s').
Lemma only_bal_refl s : only_bal s s.
Proof. unfold only_bal. destruct s; reflexivity. Qed.
Lemma only_bal_trans s1 s2 s3 : only_bal s1 s2 -> only_bal s2 s3 -> only_bal s1 s3.
Proof. unfold only_bal. intros H1 H2. rewrite H2 at 1. rewrite H1. reflexivity. Qed.
Lemma only_bal_set s m : only_bal s (set_bal s m).
Proof. reflexivity. Qed.
Lemma only_bal_keys s s' : only_bal s s' -> keys s' = keys s.
Proof. intros ->. reflexivity. Qed.

(* every cell of s' is between 0 and the cell of s *)
Definition shrunk (s s' : db) : Prop :=
  only_bal s s' /\ forall a t, 0 <= get_bal (bal s) a t -> 0 <= get_bal (bal s') a t <= get_bal (bal s) a t.
Lemma shrunk_refl s : shrunk s s.
Proof. split; [apply only_bal_refl|intros; lia]. Qed.
Lemma shrunk_trans s1 s2 s3 : shrunk s1 s2 -> shrunk s2 s3 -> shrunk s1 s3.
Proof.
  intros [A1 B1] [A2 B2]. split; [eapply only_bal_trans; eauto|]. intros a t H. specialize (B1 a t H). specialize (B2 a t ltac:(lia)). lia.
Qed.
Lemma shrunk_room s s' n : shrunk s s' -> bal_room s n -> bal_room s' n.
Proof. intros [_ B] H a t. specialize (H a t). specialize (B a t ltac:(lia)). lia. Qed.

Lemma sub_ignoring_total s a t v :
  valid_ticker t = true -> 0 <= v -> bal_room s 0 ->
  exists s', sub_ignoring_txerr s a t v = Ok s' /\ shrunk s s'.
Proof.
  intros Ht Hv Hr. unfold sub_ignoring_txerr.
  destruct (Z.ltb_spec (get_bal (bal s) a t) v) as [Hlt|Hge].
  - assert (E : sub_from_balance s a t v = SubInsufficient).
    { unfold sub_from_balance. assert (E0 : (v =? 0) = false) by (specialize (Hr a t); lia). rewrite E0, Ht. cbn [negb].
      assert (E1 : (get_bal (bal s) a t <? v) = true) by lia. rewrite E1. reflexivity. }
    rewrite E. exists s. split; [reflexivity|apply shrunk_refl].
  - destruct (sub_from_balance_total s a t v 0 Ht) as (s' & S1 & _ & S3 & S4); [lia|lia|exact Hr|].
    rewrite S1. exists s'. split; [reflexivity|].
    assert (Es : s' = set_bal s (bal s')).
    { unfold sub_from_balance in S1. destruct (v =? 0).
      - unfold add_to_balance in S1. rewrite Ht in S1. cbn [negb] in S1. destruct (two63 <=? 0); [discriminate|].
        destruct (max_int64 <? _); [discriminate|]. inversion S1; reflexivity.
      - rewrite Ht in S1. cbn [negb] in S1. destruct (_ <? v); [discriminate|]. destruct (two63 <=? v); [discriminate|]. inversion S1; reflexivity. }
    split; [exact Es|]. intros a' t' H0. rewrite S4, get_bal_insert. destruct (decide _) as [D|D]; [inversion D; subst; lia|lia].
Qed.

Lemma all_tickers_valid : forallb valid_ticker all_tickers = true.
Proof. vm_compute. reflexivity. Qed.

Lemma sum_snd_nonneg (l : list (Z * Z)) : (forall m, In m l -> 0 <= snd m) -> 0 <= fold_right (fun m acc => snd m + acc) 0 l.
Proof.
  induction l as [|x l IH]; intros H; cbn [fold_right]; [lia|].
  pose proof (H x (or_introl eq_refl)). set (r := fold_right _ 0 l) in *. assert (0 <= r) by (apply IH; intros; apply H; right; assumption). lia.
Qed.

Section WithCfg.
Variable c : cfg.

(* NullifyBurnAddress from 2.0.2 on *)
Lemma nullify_burn_new_era cm h ts s :
  c_V202EnhanceActivation c <= h -> nonneg cm -> bal_room s 0 -> shrunk s (nullify_burn c cm h ts s).
Proof.
  intros H202 Hcm. unfold nullify_burn.
  assert (E : (c_V202EnhanceActivation c <=? h) = true) by lia. rewrite E.
  set (step := fun (acc : Z * Z * (bool * db)) (t : Z) => _).
  pose proof all_tickers_valid as V. rewrite forallb_forall in V. revert V.
  generalize (0, 50) as ij. generalize true as live. revert s. generalize all_tickers as l.
  induction l as [|t l IH]; intros s live ij V Hr; cbn [fold_left snd]; [apply shrunk_refl|].
  destruct ij as [i j]. unfold step at 2. destruct live; cbn [negb]; [|apply IH; [intros; apply V; right; assumption|exact Hr]].
  destruct (sub_ignoring_total s GlobalBurnAddress t (get_bal (bal cm) GlobalBurnAddress t)) as (s1 & S1 & S2);
    [apply V; left; reflexivity|apply Hcm|exact Hr|].
  rewrite S1. eapply shrunk_trans; [exact S2|]. apply IH; [intros; apply V; right; assumption|]. eapply shrunk_room; eauto.
Qed.

(* the mint *)
Definition mint_total : Z := fold_right (fun m acc => snd m + acc) 0 mint_list.
Lemma mint_tokens_total s n :
  0 <= n -> bal_room s (mint_total + n) ->
  exists s', mint_tokens s = Ok s' /\ only_bal s s' /\ bal_room s' n.
Proof.
  unfold mint_tokens, mint_total. unfold ticker in *. destruct mint_list_wellformed as [W _]. rewrite forallb_forall in W. revert W.
  generalize mint_list as l. intros l W Hn. revert s.
  induction l as [|m l IH]; intros s Hr; cbn [fold_left fold_right] in *.
  - exists s. split; [reflexivity|]. split; [apply only_bal_refl|]. eapply bal_room_weaken; [|exact Hr]. lia.
  - cbn [rbind]. pose proof (W m (or_introl eq_refl)) as Wm. cbv beta in Wm. apply andb_prop in Wm as [Wm Wm3]. apply andb_prop in Wm as [Wm1 Wm2].
    assert (Hl : 0 <= fold_right (fun m0 acc => snd m0 + acc) 0 l).
    { apply sum_snd_nonneg. intros y Hy. pose proof (W y (or_intror Hy)) as Wy. cbv beta in Wy. apply andb_prop in Wy as [Wy _]. apply andb_prop in Wy as [Wy _]. apply Z.ltb_lt in Wy. apply Z.lt_le_incl. exact Wy. }
    destruct (add_to_balance_total s GlobalMintAddress (fst m) (snd m) (fold_right (fun m0 acc => snd m0 + acc) 0 l + n)) as (s1 & A1 & _ & A3 & A4);
      [exact Wm2|apply Z.ltb_lt in Wm1; apply Z.lt_le_incl; exact Wm1|lia|eapply bal_room_weaken; [|exact Hr]; lia|].
    rewrite A1. destruct (IH (fun y Hy => W y (or_intror Hy)) s1 A3) as (s' & B1 & B2 & B3).
    exists s'. split; [exact B1|]. split; [|exact B3]. eapply only_bal_trans; [|exact B2].
    apply add_to_balance_ok in A1 as (_ & _ & ->). apply only_bal_set.
Qed.

(* the burn of the minted tokens: what the committed database shows at the mint address is taken off *)
Lemma nullify_minted_total cm s :
  nonneg cm -> bal_room s 0 -> exists s', nullify_minted cm s = Ok s' /\ shrunk s s'.
Proof.
  intros Hcm. unfold nullify_minted. unfold ticker in *. destruct mint_list_wellformed as [W _]. rewrite forallb_forall in W. revert W.
  generalize mint_list as l. intros l W. revert s.
  induction l as [|m l IH]; intros s Hr; cbn [fold_left].
  - exists s. split; [reflexivity|apply shrunk_refl].
  - cbn [rbind]. pose proof (W m (or_introl eq_refl)) as Wm. cbv beta in Wm. apply andb_prop in Wm as [Wm Wm3]. apply andb_prop in Wm as [Wm1 Wm2].
    destruct (sub_ignoring_total s GlobalMintAddress (fst m) (get_bal (bal cm) GlobalMintAddress (fst m))) as (s1 & S1 & S2);
      [exact Wm2|apply Hcm|exact Hr|].
    rewrite S1. destruct (IH (fun y Hy => W y (or_intror Hy)) s1 (shrunk_room _ _ _ S2 Hr)) as (s' & B1 & B2).
    exists s'. split; [exact B1|eapply shrunk_trans; eauto].
Qed.
End WithCfg.
