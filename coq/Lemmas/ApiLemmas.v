(* Lemmas/ApiLemmas.v — C17: "each recorded action is returned exactly once by hash, address and height
   queries across pages" for the history queries of Model/Api.v (node/pegnet/txhistory_util.go
   historyQueryBuilder, txhistory.go historySelectHelper, SelectTransactionHistoryStatus). *)
From Model Require Import Api.
From Coq Require Import Lia Permutation.
Open Scope Z_scope.

(* ---- generic list facts ------------------------------------------------------------------------------- *)

Lemma flat_map_nil_all {A B} (g : A -> list B) l : (forall y, In y l -> g y = []) -> flat_map g l = [].
Proof.
  induction l as [|y l IH]; intros Hg; cbn [flat_map]; [reflexivity|].
  rewrite (Hg y (or_introl eq_refl)), IH; [reflexivity|]. intros z Hz. apply Hg. right. exact Hz.
Qed.

Lemma flat_map_ext_In {A B} (f g : A -> list B) l : (forall y, In y l -> f y = g y) -> flat_map f l = flat_map g l.
Proof.
  induction l as [|y l IH]; intros Hg; cbn [flat_map]; [reflexivity|].
  rewrite (Hg y (or_introl eq_refl)), IH; [reflexivity|]. intros z Hz. apply Hg. right. exact Hz.
Qed.

Lemma flat_map_app_perm {A B} (f g : A -> list B) l :
  Permutation (flat_map (fun x => f x ++ g x) l) (flat_map f l ++ flat_map g l).
Proof.
  induction l as [|x l IH]; cbn [flat_map]; [constructor|].
  rewrite IH. rewrite <- !app_assoc. apply Permutation_app_head.
  rewrite !app_assoc. apply Permutation_app_tail. apply Permutation_app_comm.
Qed.

Lemma flat_map_swap {A B C} (F : A -> B -> list C) (la : list A) (lb : list B) :
  Permutation (flat_map (fun a => flat_map (fun b => F a b) lb) la)
              (flat_map (fun b => flat_map (fun a => F a b) la) lb).
Proof.
  induction la as [|a la IH]; cbn [flat_map].
  - rewrite flat_map_nil_all; [constructor|reflexivity].
  - rewrite IH. symmetry. apply flat_map_app_perm.
Qed.

(* a guarded flat_map over a list with a key: at most one element passes *)
Lemma flat_map_unique_gen {A B K} (f : A -> K) (p : A -> bool) (G : A -> list B) l b :
  NoDup (map f l) -> In b l -> (forall y, In y l -> p y = true -> f y = f b) ->
  flat_map (fun y => if p y then G y else []) l = if p b then G b else [].
Proof.
  induction l as [|y l IH]; intros Hnd Hin Hp; [destruct Hin|].
  cbn [map] in Hnd. inversion Hnd as [|k r Hnotin Hnd']; subst k r.
  cbn [flat_map]. destruct Hin as [->|Hin].
  - rewrite flat_map_nil_all; [apply app_nil_r|].
    intros z Hz. destruct (p z) eqn:E; [|reflexivity]. exfalso. apply Hnotin.
    rewrite <- (Hp z (or_intror Hz) E). apply in_map. exact Hz.
  - destruct (p y) eqn:E.
    + exfalso. apply Hnotin. rewrite (Hp y (or_introl eq_refl) E). apply in_map. exact Hin.
    + cbn [app]. apply IH; [exact Hnd'|exact Hin|]. intros z Hz. apply Hp. right. exact Hz.
Qed.
Lemma flat_map_unique {A B K} (f : A -> K) (p : A -> bool) (G : A -> list B) l b :
  NoDup (map f l) -> In b l -> p b = true -> (forall y, In y l -> p y = true -> f y = f b) ->
  flat_map (fun y => if p y then G y else []) l = G b.
Proof. intros Hnd Hin Hpb Hp. rewrite (flat_map_unique_gen f p G l b Hnd Hin Hp), Hpb. reflexivity. Qed.
Lemma existsb_unique {A K} (f : A -> K) (p : A -> bool) l b :
  NoDup (map f l) -> In b l -> (forall y, In y l -> p y = true -> f y = f b) -> existsb p l = p b.
Proof.
  induction l as [|y l IH]; intros Hnd Hin Hp; [destruct Hin|].
  cbn [map] in Hnd. inversion Hnd as [|k r Hnotin Hnd']; subst k r.
  cbn [existsb]. destruct Hin as [->|Hin].
  - destruct (p b) eqn:Eb; [reflexivity|]. cbn [orb].
    destruct (existsb p l) eqn:E; [|reflexivity]. exfalso. apply existsb_exists in E. destruct E as [z [Hz Hpz]].
    apply Hnotin. rewrite <- (Hp z (or_intror Hz) Hpz). apply in_map. exact Hz.
  - destruct (p y) eqn:E.
    + exfalso. apply Hnotin. rewrite (Hp y (or_introl eq_refl) E). apply in_map. exact Hin.
    + cbn [orb]. apply IH; [exact Hnd'|exact Hin|]. intros z Hz. apply Hp. right. exact Hz.
Qed.

Lemma flat_map_length_sum {A B} (g : A -> list B) l :
  length (flat_map g l) = fold_right (fun x acc => (length (g x) + acc)%nat) O l.
Proof. induction l as [|x l IH]; cbn [flat_map fold_right]; [reflexivity|]. rewrite app_length, IH. reflexivity. Qed.

Lemma omap_In {A B} (f : A -> option B) l y : In y (omap f l) -> exists x, In x l /\ f x = Some y.
Proof.
  induction l as [|x l IH]; cbn [omap list_omap]; [intros []|].
  destruct (f x) as [z|] eqn:E.
  - intros [->|Hin]; [exists x; split; [left; reflexivity|exact E]|].
    destruct (IH Hin) as [x' [H1 H2]]. exists x'. split; [right; exact H1|exact H2].
  - intros Hin. destruct (IH Hin) as [x' [H1 H2]]. exists x'. split; [right; exact H1|exact H2].
Qed.

(* ---- (1) paging ------------------------------------------------------------------------------------------- *)
Lemma walk_pages_skipn s q : query_count s q = length (query_all s q) ->
  forall fuel off, (length (query_all s q) - off <= fuel * QueryLimit)%nat ->
  walk_pages fuel s q off = skipn off (query_all s q).
Proof.
  intros Hc. induction fuel as [|k IH]; intros off Hf.
  - cbn [walk_pages]. symmetry. apply skipn_all2. lia.
  - cbn [walk_pages]. unfold query_page. rewrite Hc.
    destruct (Nat.eqb (length (query_all s q)) 0) eqn:E0.
    + apply Nat.eqb_eq in E0. destruct (Nat.ltb (off + QueryLimit) 0) eqn:El; [apply Nat.ltb_lt in El; lia|].
      cbn [app]. symmetry. apply skipn_all2. lia.
    + destruct (Nat.ltb (length (query_all s q)) off) eqn:E1.
      * apply Nat.ltb_lt in E1. symmetry. apply skipn_all2. lia.
      * destruct (Nat.ltb (off + QueryLimit) (length (query_all s q))) eqn:E2.
        -- apply Nat.ltb_lt in E2. rewrite IH.
           ++ rewrite <- (firstn_skipn QueryLimit (skipn off (query_all s q))) at 2. f_equal.
              rewrite drop_drop. reflexivity.
           ++ unfold QueryLimit in *. lia.
        -- apply Nat.ltb_ge in E2. rewrite app_nil_r. apply firstn_all2. rewrite skipn_length. lia.
Qed.

Theorem walk_pages_all s q fuel :
  query_count s q = length (query_all s q) -> (S (length (query_all s q)) <= fuel)%nat ->
  walk_pages fuel s q 0 = query_all s q.
Proof.
  intros Hc Hf. rewrite (walk_pages_skipn s q Hc); [reflexivity|]. unfold QueryLimit. lia.
Qed.
Print Assumptions walk_pages_all.

(* ---- (2) count = number of rows of the data query: entry-hash and height fields ------------------------- *)
Lemma count_is_length_hash s q h : q_field q = ByHash h -> query_count s q = length (query_all s q).
Proof. intros Hf. unfold query_count. rewrite Hf. reflexivity. Qed.
Lemma count_is_length_height s q h : q_field q = ByHeight h -> query_count s q = length (query_all s q).
Proof. intros Hf. unfold query_count. rewrite Hf. reflexivity. Qed.

(* ---- (5) get-transaction-status --------------------------------------------------------------------------- *)
Lemma find_nodup L b : NoDup (map hb_hash L) -> In b L -> find (fun b' => hb_hash b' =? hb_hash b) L = Some b.
Proof.
  induction L as [|y L IH]; intros Hnd Hin; [destruct Hin|].
  cbn [map] in Hnd. inversion Hnd as [|k r Hnotin Hnd']; subst k r.
  cbn [find]. destruct Hin as [->|Hin].
  - rewrite Z.eqb_refl. reflexivity.
  - destruct (hb_hash y =? hb_hash b) eqn:E.
    + exfalso. apply Z.eqb_eq in E. apply Hnotin. rewrite E. apply in_map. exact Hin.
    + apply IH; assumption.
Qed.
Lemma find_absent L hs : ~ In hs (map hb_hash L) -> find (fun b' => hb_hash b' =? hs) L = None.
Proof.
  induction L as [|y L IH]; intros Hn; cbn [find]; [reflexivity|].
  destruct (hb_hash y =? hs) eqn:E.
  - exfalso. apply Z.eqb_eq in E. apply Hn. left. exact E.
  - apply IH. intros Hin. apply Hn. right. exact Hin.
Qed.

Theorem query_status_spec s b : hist_wf s -> In b (hist s) -> query_status s (hb_hash b) = (hb_height b, hb_exec b).
Proof. intros Hwf Hin. unfold query_status. rewrite (find_nodup _ _ (wf_batch_once s Hwf) Hin). reflexivity. Qed.
Print Assumptions query_status_spec.
Theorem query_status_absent s hs : ~ In hs (map hb_hash (hist s)) -> query_status s hs = (0, 0).
Proof. intros Hn. unfold query_status. rewrite (find_absent _ _ Hn). reflexivity. Qed.
Print Assumptions query_status_absent.

(* ---- (3) a query by entry hash returns exactly the recorded actions of that entry, each once ------------- *)
Definition order_of (s : db) (q : hq) : list hbatch := if q_desc q then rev (hist s) else hist s.
Lemma order_of_nodup s q : hist_wf s -> NoDup (map hb_hash (order_of s q)).
Proof.
  intros Hwf. unfold order_of. destruct (q_desc q); [|exact (wf_batch_once s Hwf)].
  rewrite map_rev. apply NoDup_rev. exact (wf_batch_once s Hwf).
Qed.
Lemma order_of_In s q b : In b (order_of s q) <-> In b (hist s).
Proof. unfold order_of. destruct (q_desc q); [symmetry; apply in_rev|reflexivity]. Qed.
Lemma order_of_perm s q : Permutation (order_of s q) (hist s).
Proof. unfold order_of. destruct (q_desc q); [symmetry; apply Permutation_rev|reflexivity]. Qed.

Lemma candidates_hash_nofilter s q h :
  q_field q = ByHash h -> q_actions q = [] -> q_asset q = None -> q_txindex q = None ->
  candidates s q = map (fun t => (t, 1%nat)) (filter (fun t => ht_hash t =? h) (htxs s)).
Proof.
  intros Hf Hac Has Hti. unfold candidates. rewrite Hf.
  induction (htxs s) as [|t l IH]; [reflexivity|].
  cbn [omap list_omap filter]. unfold tx_filter at 1. rewrite Hf, Hti, Has, Hac. cbn [andb]. rewrite andb_true_r.
  destruct (ht_hash t =? h); cbn [map]; rewrite <- IH; reflexivity.
Qed.

Lemma batch_actions_ones (l : list htx) b :
  batch_actions (map (fun t => (t, 1%nat)) l) b = map htx_key (filter (fun t => ht_hash t =? hb_hash b) l).
Proof.
  unfold batch_actions. induction l as [|t l IH]; [reflexivity|].
  cbn [map flat_map filter fst snd]. rewrite IH.
  destruct (ht_hash t =? hb_hash b); [|reflexivity]. reflexivity.
Qed.

Lemma filter_idem_Z (l : list htx) h :
  filter (fun t => ht_hash t =? h) (filter (fun t => ht_hash t =? h) l) = filter (fun t => ht_hash t =? h) l.
Proof.
  induction l as [|t l IH]; [reflexivity|]. cbn [filter]. destruct (ht_hash t =? h) eqn:E; [|exact IH].
  cbn [filter]. rewrite E, IH. reflexivity.
Qed.

Theorem hash_query_complete s q h :
  hist_wf s -> q_field q = ByHash h -> q_actions q = [] -> q_asset q = None -> q_txindex q = None ->
  In h (map hb_hash (hist s)) ->
  query_all s q = map htx_key (filter (fun t => ht_hash t =? h) (htxs s)).
Proof.
  intros Hwf Hf Hac Has Hti Hin. apply in_map_iff in Hin. destruct Hin as [b0 [Hb0 Hin]].
  unfold query_all. fold (order_of s q). rewrite (candidates_hash_nofilter s q h Hf Hac Has Hti).
  rewrite (flat_map_unique hb_hash (batch_selected q) _ (order_of s q) b0).
  - rewrite batch_actions_ones, Hb0. apply f_equal. apply filter_idem_Z.
  - apply order_of_nodup. exact Hwf.
  - apply order_of_In. exact Hin.
  - unfold batch_selected. rewrite Hf. apply Z.eqb_eq. exact Hb0.
  - intros y _. unfold batch_selected. rewrite Hf. intros E. apply Z.eqb_eq in E. rewrite E, Hb0. reflexivity.
Qed.
Print Assumptions hash_query_complete.

(* ---- (4) the order flag only permutes the result -------------------------------------------------------- *)
Definition flip_desc (q : hq) : hq :=
  {| q_field := q_field q; q_desc := negb (q_desc q); q_actions := q_actions q; q_asset := q_asset q;
     q_txindex := q_txindex q |}.

Lemma query_all_order s q :
  query_all s q = flat_map (fun b => if batch_selected q b then batch_actions (candidates s q) b else []) (order_of s q).
Proof. reflexivity. Qed.

Lemma query_all_perm_asc s q :
  Permutation (query_all s q)
              (flat_map (fun b => if batch_selected q b then batch_actions (candidates s q) b else []) (hist s)).
Proof. rewrite query_all_order. apply Permutation_flat_map. apply order_of_perm. Qed.

Theorem desc_is_permutation s q : Permutation (query_all s (flip_desc q)) (query_all s q).
Proof.
  rewrite (query_all_perm_asc s (flip_desc q)), (query_all_perm_asc s q).
  assert (Hc : candidates s (flip_desc q) = candidates s q) by (destruct q; reflexivity).
  rewrite Hc. erewrite flat_map_ext; [reflexivity|]. intros b. destruct q; reflexivity.
Qed.
Print Assumptions desc_is_permutation.

(* more generally: two queries that differ in the order flag only *)
Theorem desc_is_permutation_gen s q q' :
  q_field q' = q_field q -> q_actions q' = q_actions q -> q_asset q' = q_asset q -> q_txindex q' = q_txindex q ->
  Permutation (query_all s q') (query_all s q).
Proof.
  intros H1 H2 H3 H4. destruct q as [f d ac ast ti], q' as [f' d' ac' ast' ti']. cbn in H1, H2, H3, H4. subst f' ac' ast' ti'.
  destruct d, d'; try reflexivity.
  - symmetry. exact (desc_is_permutation s {| q_field := f; q_desc := false; q_actions := ac; q_asset := ast; q_txindex := ti |}).
  - exact (desc_is_permutation s {| q_field := f; q_desc := false; q_actions := ac; q_asset := ast; q_txindex := ti |}).
Qed.

(* ---- the join, transaction row by transaction row ----------------------------------------------------------- *)
Lemma query_all_swap s q :
  Permutation (query_all s q)
    (flat_map (fun tn => flat_map (fun b => if batch_selected q b && (ht_hash (fst tn) =? hb_hash b)
                                           then repeat (htx_key (fst tn)) (snd tn) else []) (hist s))
              (candidates s q)).
Proof.
  rewrite query_all_perm_asc.
  rewrite <- (flat_map_swap (fun b tn => if batch_selected q b && (ht_hash (fst tn) =? hb_hash b)
                                         then repeat (htx_key (fst tn)) (snd tn) else []) (hist s) (candidates s q)).
  erewrite flat_map_ext; [reflexivity|]. intros b. cbv beta.
  destruct (batch_selected q b); cbn [andb].
  - reflexivity.
  - symmetry. apply flat_map_nil_all. reflexivity.
Qed.

Lemma candidates_In s q t n : In (t, n) (candidates s q) -> In t (htxs s).
Proof.
  unfold candidates. intros Hin.
  destruct (q_field q) as [h|a|h]; apply omap_In in Hin; destruct Hin as [x [Hx Hfx]].
  - destruct ((ht_hash x =? h) && tx_filter q x); [|discriminate]. injection Hfx as <- _. exact Hx.
  - destruct (tx_filter q x); [|discriminate].
    destruct (key_count (addr_keys s a) (ht_hash x) (ht_index x)); [discriminate|]. injection Hfx as <- _. exact Hx.
  - destruct (tx_filter q x); [|discriminate]. injection Hfx as <- _. exact Hx.
Qed.

(* the batch row of a transaction row *)
Lemma batch_of_tx s t : hist_wf s -> In t (htxs s) -> exists b, In b (hist s) /\ hb_hash b = ht_hash t.
Proof.
  intros Hwf Hin. pose proof (wf_tx_fk s Hwf t Hin) as H. apply in_map_iff in H. destruct H as [b [H1 H2]].
  exists b. split; assumption.
Qed.

(* the address field: every selected transaction row comes out with its lookup multiplicity *)
Lemma address_query_perm s q a : hist_wf s -> q_field q = ByAddress a ->
  Permutation (query_all s q) (flat_map (fun tn => repeat (htx_key (fst tn)) (snd tn)) (candidates s q)).
Proof.
  intros Hwf Hf. rewrite query_all_swap. erewrite flat_map_ext_In; [reflexivity|].
  intros [t n] Hin. cbn [fst snd]. apply candidates_In in Hin.
  destruct (batch_of_tx s t Hwf Hin) as [b0 [Hb0 Hh]].
  rewrite (flat_map_unique hb_hash (fun b => batch_selected q b && (ht_hash t =? hb_hash b)) (fun _ => repeat (htx_key t) n) (hist s) b0).
  - reflexivity.
  - exact (wf_batch_once s Hwf).
  - exact Hb0.
  - unfold batch_selected. rewrite Hf, Hh, Z.eqb_refl. reflexivity.
  - intros y _ E. apply andb_true_iff in E. destruct E as [_ E]. apply Z.eqb_eq in E. rewrite Hh. symmetry. exact E.
Qed.

Lemma length_flat_repeat (l : list (htx * nat)) :
  length (flat_map (fun tn => repeat (htx_key (fst tn)) (snd tn)) l) = fold_right (fun tn acc => (snd tn + acc)%nat) O l.
Proof. induction l as [|x l IH]; [reflexivity|]. cbn [flat_map fold_right]. rewrite app_length, repeat_length, IH. reflexivity. Qed.

(* the unfiltered address query *)
Lemma candidates_addr_nofilter s q a : q_field q = ByAddress a -> q_actions q = [] -> q_asset q = None ->
  flat_map (fun tn => repeat (htx_key (fst tn)) (snd tn)) (candidates s q)
  = flat_map (fun t => repeat (htx_key t) (key_count (addr_keys s a) (ht_hash t) (ht_index t))) (htxs s).
Proof.
  intros Hf Hac Has. unfold candidates. rewrite Hf. cbv zeta.
  induction (htxs s) as [|t l IH]; [reflexivity|].
  cbn [omap list_omap flat_map]. unfold tx_filter at 1. rewrite Hf, Has, Hac. cbn [andb].
  destruct (key_count (addr_keys s a) (ht_hash t) (ht_index t)) as [|n] eqn:E.
  - cbn [repeat app]. exact IH.
  - cbn [flat_map fst snd]. rewrite IH. reflexivity.
Qed.

Lemma keys_perm (keys : list (hash * Z)) (T : list htx) :
  NoDup (map htx_key T) -> (forall k, In k keys -> In k (map htx_key T)) ->
  Permutation keys (flat_map (fun t => repeat (htx_key t) (key_count keys (ht_hash t) (ht_index t))) T).
Proof.
  intros Hnd. induction keys as [|k keys IH]; intros Hin.
  - rewrite flat_map_nil_all; [constructor|reflexivity].
  - assert (Hk : In k (map htx_key T)) by (apply Hin; left; reflexivity).
    apply in_map_iff in Hk. destruct Hk as [t0 [Hk Ht0]].
    erewrite (flat_map_ext _ (fun t => (if (fst k =? ht_hash t) && (snd k =? ht_index t) then [htx_key t] else [])
                                       ++ repeat (htx_key t) (key_count keys (ht_hash t) (ht_index t)))).
    + rewrite flat_map_app_perm.
      rewrite (flat_map_unique htx_key (fun t => (fst k =? ht_hash t) && (snd k =? ht_index t)) (fun t => [htx_key t]) T t0).
      * rewrite Hk. cbn [app]. constructor. apply IH. intros k' Hk'. apply Hin. right. exact Hk'.
      * exact Hnd.
      * exact Ht0.
      * rewrite <- Hk. unfold htx_key. cbn [fst snd]. rewrite !Z.eqb_refl. reflexivity.
      * intros y _ E. apply andb_true_iff in E. destruct E as [E1 E2]. apply Z.eqb_eq in E1, E2.
        rewrite Hk. unfold htx_key. rewrite <- E1, <- E2. destruct k; reflexivity.
    + intros t. unfold key_count. cbn [filter]. clear Hk Hin IH. destruct k as [k1 k2]. cbn [fst snd].
      destruct ((k1 =? ht_hash t) && (k2 =? ht_index t)); reflexivity.
Qed.

Lemma addr_keys_fk s a : hist_wf s -> forall k, In k (addr_keys s a) -> In k (map htx_key (htxs s)).
Proof.
  intros Hwf k Hin. unfold addr_keys in Hin. apply in_map_iff in Hin. destruct Hin as [l [Hl Hin]].
  apply filter_In in Hin. destruct Hin as [Hin _]. rewrite <- Hl. exact (wf_lookup_fk s Hwf l Hin).
Qed.

(* (3) each action that involves the address (has a lookup row) is returned exactly once *)
Theorem address_query_complete s q a :
  hist_wf s -> q_field q = ByAddress a -> q_actions q = [] -> q_asset q = None ->
  Permutation (query_all s q) (addr_keys s a).
Proof.
  intros Hwf Hf Hac Has. rewrite (address_query_perm s q a Hwf Hf), (candidates_addr_nofilter s q a Hf Hac Has).
  symmetry. apply keys_perm; [exact (wf_tx_pk s Hwf)|apply addr_keys_fk; exact Hwf].
Qed.
Print Assumptions address_query_complete.

(* ---- (2) the count query agrees with the data query, every field and every filter ---------------------- *)
Theorem count_is_length s q : hist_wf s -> query_count s q = length (query_all s q).
Proof.
  intros Hwf. destruct (q_field q) as [h|a|h] eqn:Hf.
  - exact (count_is_length_hash s q h Hf).
  - assert (Hgen : fold_right (fun tn acc => (snd tn + acc)%nat) O (candidates s q) = length (query_all s q)).
    { rewrite (Permutation_length (address_query_perm s q a Hwf Hf)). symmetry. apply length_flat_repeat. }
    unfold query_count. rewrite Hf.
    destruct (q_actions q) as [|x acts] eqn:Hac; [|exact Hgen].
    destruct (q_asset q) as [x|] eqn:Has; [exact Hgen|].
    symmetry. apply Permutation_length. apply address_query_complete; assumption.
  - exact (count_is_length_height s q h Hf).
Qed.
Print Assumptions count_is_length.

(* (1)+(2): under hist_wf the walk over the pages returns the whole result, in order *)
Theorem walk_pages_all_wf s q fuel : hist_wf s -> (S (length (query_all s q)) <= fuel)%nat ->
  walk_pages fuel s q 0 = query_all s q.
Proof. intros Hwf. apply walk_pages_all. apply count_is_length. exact Hwf. Qed.
Print Assumptions walk_pages_all_wf.

(* ---- (3) more: "exactly once" as NoDup + membership -------------------------------------------------------- *)
Lemma addr_keys_In s a k : In k (addr_keys s a) <-> In (k, a) (lookups s).
Proof.
  unfold addr_keys. rewrite in_map_iff. split.
  - intros [l [Hl Hin]]. apply filter_In in Hin. destruct Hin as [Hin E]. apply Z.eqb_eq in E.
    destruct l as [k' a']. cbn [fst snd] in Hl, E. subst k' a'. exact Hin.
  - intros Hin. exists (k, a). split; [reflexivity|]. apply filter_In. split; [exact Hin|]. cbn [snd]. apply Z.eqb_refl.
Qed.
Lemma addr_keys_nodup s a : NoDup (lookups s) -> NoDup (addr_keys s a).
Proof.
  unfold addr_keys. induction (lookups s) as [|l L IH]; intros Hnd; [constructor|].
  inversion Hnd as [|x r Hnotin Hnd']; subst x r. destruct l as [k x]. cbn [filter snd].
  destruct (x =? a) eqn:E; [|exact (IH Hnd')].
  cbn [map fst]. constructor; [|exact (IH Hnd')].
  intros Hin. apply in_map_iff in Hin. destruct Hin as [l' [Hl' Hin]]. apply filter_In in Hin. destruct Hin as [Hin E'].
  apply Z.eqb_eq in E, E'. apply Hnotin. destruct l' as [k' x']. cbn [fst snd] in *. subst. exact Hin.
Qed.

(* the unfiltered address query returns exactly the (hash, index) pairs that have a lookup row for the address,
   and no pair twice *)
Theorem address_query_exactly_once s q a :
  hist_wf s -> q_field q = ByAddress a -> q_actions q = [] -> q_asset q = None ->
  NoDup (query_all s q) /\ forall k, In k (query_all s q) <-> In (k, a) (lookups s).
Proof.
  intros Hwf Hf Hac Has. pose proof (address_query_complete s q a Hwf Hf Hac Has) as HP. split.
  - apply (Permutation_NoDup (Permutation_sym HP)). apply addr_keys_nodup. exact (wf_lookup_pk s Hwf).
  - intros k. rewrite <- addr_keys_In. split; apply Permutation_in; [exact HP|symmetry; exact HP].
Qed.
Print Assumptions address_query_exactly_once.

Lemma nodup_map_filter {A B} (f : A -> B) (p : A -> bool) l : NoDup (map f l) -> NoDup (map f (filter p l)).
Proof.
  induction l as [|x l IH]; intros Hnd; [constructor|].
  cbn [map] in Hnd. inversion Hnd as [|k r Hnotin Hnd']; subst k r. cbn [filter].
  destruct (p x); [|exact (IH Hnd')]. cbn [map]. constructor; [|exact (IH Hnd')].
  intros Hin. apply Hnotin. apply in_map_iff in Hin. destruct Hin as [y [Hy Hin]]. apply filter_In in Hin.
  rewrite <- Hy. apply in_map. apply Hin.
Qed.

(* ---- (3) entry-hash field with any filter; an unknown hash ------------------------------------------------ *)
Lemma filter_filter_sub {A} (p r : A -> bool) l : (forall x, r x = true -> p x = true) -> filter p (filter r l) = filter r l.
Proof.
  intros Hs. induction l as [|x l IH]; [reflexivity|]. cbn [filter]. destruct (r x) eqn:E; [|exact IH].
  cbn [filter]. rewrite (Hs x E), IH. reflexivity.
Qed.
Lemma candidates_hash s q h : q_field q = ByHash h ->
  candidates s q = map (fun t => (t, 1%nat)) (filter (fun t => (ht_hash t =? h) && tx_filter q t) (htxs s)).
Proof.
  intros Hf. unfold candidates. rewrite Hf. induction (htxs s) as [|t l IH]; [reflexivity|].
  cbn [omap list_omap filter]. destruct ((ht_hash t =? h) && tx_filter q t); cbn [map]; rewrite <- IH; reflexivity.
Qed.
Theorem hash_query_filtered s q h :
  hist_wf s -> q_field q = ByHash h -> In h (map hb_hash (hist s)) ->
  query_all s q = map htx_key (filter (fun t => (ht_hash t =? h) && tx_filter q t) (htxs s)).
Proof.
  intros Hwf Hf Hin. apply in_map_iff in Hin. destruct Hin as [b0 [Hb0 Hin]].
  rewrite query_all_order, (candidates_hash s q h Hf).
  rewrite (flat_map_unique hb_hash (batch_selected q) _ (order_of s q) b0).
  - rewrite batch_actions_ones, Hb0. apply f_equal. apply filter_filter_sub.
    intros x E. apply andb_true_iff in E. apply E.
  - apply order_of_nodup. exact Hwf.
  - apply order_of_In. exact Hin.
  - unfold batch_selected. rewrite Hf. apply Z.eqb_eq. exact Hb0.
  - intros y _. unfold batch_selected. rewrite Hf. intros E. apply Z.eqb_eq in E. rewrite E, Hb0. reflexivity.
Qed.
Print Assumptions hash_query_filtered.
Theorem hash_query_nodup s q h : hist_wf s -> q_field q = ByHash h -> NoDup (query_all s q).
Proof.
  intros Hwf Hf. destruct (in_dec Z.eq_dec h (map hb_hash (hist s))) as [Hin|Hn].
  - rewrite (hash_query_filtered s q h Hwf Hf Hin). apply nodup_map_filter. exact (wf_tx_pk s Hwf).
  - rewrite query_all_order, flat_map_nil_all; [constructor|].
    intros b Hb. unfold batch_selected. rewrite Hf. destruct (hb_hash b =? h) eqn:E; [|reflexivity].
    exfalso. apply Hn. apply Z.eqb_eq in E. rewrite <- E. apply in_map. apply order_of_In in Hb. exact Hb.
Qed.
Theorem hash_query_absent s q h : q_field q = ByHash h -> ~ In h (map hb_hash (hist s)) -> query_all s q = [].
Proof.
  intros Hf Hn. rewrite query_all_order, flat_map_nil_all; [reflexivity|].
  intros b Hb. unfold batch_selected. rewrite Hf. destruct (hb_hash b =? h) eqn:E; [|reflexivity].
  exfalso. apply Hn. apply Z.eqb_eq in E. rewrite <- E. apply in_map. apply order_of_In in Hb. exact Hb.
Qed.

(* ---- (3) height field ---------------------------------------------------------------------------------------- *)
Lemma candidates_height s q hh : q_field q = ByHeight hh ->
  candidates s q = map (fun t => (t, 1%nat)) (filter (tx_filter q) (htxs s)).
Proof.
  intros Hf. unfold candidates. rewrite Hf. induction (htxs s) as [|t l IH]; [reflexivity|].
  cbn [omap list_omap filter]. destruct (tx_filter q t); cbn [map]; rewrite <- IH; reflexivity.
Qed.
Lemma tx_filter_height_nofilter q hh t : q_field q = ByHeight hh -> q_actions q = [] -> q_asset q = None -> tx_filter q t = true.
Proof. intros Hf Hac Has. unfold tx_filter. rewrite Hf, Hac, Has. reflexivity. Qed.
Lemma filter_all_true {A} (p : A -> bool) l : (forall x, p x = true) -> filter p l = l.
Proof. intros Hp. induction l as [|x l IH]; [reflexivity|]. cbn [filter]. rewrite Hp, IH. reflexivity. Qed.

(* exact list, no well-formedness needed: the batches of that height in history_id order (or reversed), each with
   its actions *)
Theorem height_query_exact s q hh : q_field q = ByHeight hh ->
  query_all s q = flat_map (fun b => map htx_key (filter (fun t => ht_hash t =? hb_hash b) (filter (tx_filter q) (htxs s))))
                           (filter (fun b => hb_height b =? hh) (order_of s q)).
Proof.
  intros Hf. rewrite query_all_order, (candidates_height s q hh Hf).
  induction (order_of s q) as [|b L IH]; [reflexivity|].
  cbn [flat_map filter]. unfold batch_selected at 1. rewrite Hf.
  destruct (hb_height b =? hh); [|exact IH]. cbn [flat_map]. rewrite IH, batch_actions_ones. reflexivity.
Qed.
Print Assumptions height_query_exact.

(* under hist_wf: the recorded actions whose batch has that height, each once *)
Definition at_height (s : db) (hh : Z) (t : htx) : bool :=
  existsb (fun b => (hb_hash b =? ht_hash t) && (hb_height b =? hh)) (hist s).
Theorem height_query_complete s q hh :
  hist_wf s -> q_field q = ByHeight hh -> q_actions q = [] -> q_asset q = None ->
  Permutation (query_all s q) (map htx_key (filter (at_height s hh) (htxs s))).
Proof.
  intros Hwf Hf Hac Has. rewrite query_all_swap, (candidates_height s q hh Hf).
  rewrite (filter_all_true (tx_filter q)); [|intros t; exact (tx_filter_height_nofilter q hh t Hf Hac Has)].
  assert (Hfk : forall t, In t (htxs s) -> In t (htxs s)) by (intros t Ht; exact Ht).
  revert Hfk. generalize (htxs s) at 1 3 4. intros T. induction T as [|t T IH]; intros Hfk; [constructor|].
  cbn [map flat_map filter fst snd].
  destruct (batch_of_tx s t Hwf (Hfk t (or_introl eq_refl))) as [b0 [Hb0 Hh]].
  rewrite (flat_map_unique_gen hb_hash (fun b => batch_selected q b && (ht_hash t =? hb_hash b)) (fun _ => repeat (htx_key t) 1) (hist s) b0);
    [|exact (wf_batch_once s Hwf)|exact Hb0|].
  2:{ intros y _ E. apply andb_true_iff in E. destruct E as [_ E]. apply Z.eqb_eq in E. rewrite Hh. symmetry. exact E. }
  change (at_height s hh t) with (existsb (fun b => (hb_hash b =? ht_hash t) && (hb_height b =? hh)) (hist s)).
  rewrite (existsb_unique hb_hash (fun b => (hb_hash b =? ht_hash t) && (hb_height b =? hh)) (hist s) b0);
    [|exact (wf_batch_once s Hwf)|exact Hb0|].
  2:{ intros y _ E. apply andb_true_iff in E. destruct E as [E _]. apply Z.eqb_eq in E. rewrite Hh. exact E. }
  assert (Hsel : batch_selected q b0 = (hb_height b0 =? hh)) by (unfold batch_selected; rewrite Hf; reflexivity).
  rewrite Hsel, Hh, !Z.eqb_refl, andb_true_r. cbn [andb].
  destruct (hb_height b0 =? hh).
  - cbn [repeat map app]. constructor. apply IH. intros t' Ht'. apply Hfk. right. exact Ht'.
  - cbn [app]. apply IH. intros t' Ht'. apply Hfk. right. exact Ht'.
Qed.
Print Assumptions height_query_complete.
Theorem height_query_nodup s q hh :
  hist_wf s -> q_field q = ByHeight hh -> q_actions q = [] -> q_asset q = None -> NoDup (query_all s q).
Proof.
  intros Hwf Hf Hac Has. apply (Permutation_NoDup (Permutation_sym (height_query_complete s q hh Hwf Hf Hac Has))).
  apply nodup_map_filter. exact (wf_tx_pk s Hwf).
Qed.

(* ---- (6) non-vacuity ----------------------------------------------------------------------------------------- *)
Definition ex_b (hs hh ex : Z) : hbatch := {| hb_hash := hs; hb_height := hh; hb_order := 0; hb_ts := 0; hb_exec := ex |}.
Definition ex_t (hs i act : Z) (from : addr) (fa ta : Z) : htx :=
  {| ht_hash := hs; ht_index := i; ht_action := act; ht_from := from; ht_from_asset := fa; ht_from_amount := 1;
     ht_to_asset := ta; ht_to_amount := 0; ht_outputs := [] |}.
Definition ex_api_db : db :=
  set_htxs (set_hist empty_db [ex_b 11 100 100; ex_b 12 100 0; ex_b 13 101 (-1)])
           [ex_t 11 0 1 5 1 0; ex_t 11 1 2 5 1 2; ex_t 12 0 1 6 2 0; ex_t 13 0 2 5 2 1]
           [(11, 0, 5); (11, 0, 6); (11, 1, 5); (12, 0, 6); (13, 0, 5); (13, 0, 6)].
Definition ex_q (f : hq_field) (d : bool) : hq := {| q_field := f; q_desc := d; q_actions := []; q_asset := None; q_txindex := None |}.

Ltac nodup_Z := repeat (constructor; [cbn [In]; intros Hx; repeat (destruct Hx as [Hx|Hx]; [discriminate Hx|]); exact Hx|]); constructor.
Lemma ex_api_db_wf : hist_wf ex_api_db.
Proof.
  constructor.
  - vm_compute. nodup_Z.
  - vm_compute. nodup_Z.
  - vm_compute. nodup_Z.
  - intros l Hin. vm_compute in Hin. repeat (destruct Hin as [Hin|Hin]; [subst l; vm_compute; tauto|]). destruct Hin.
  - intros t Hin. vm_compute in Hin. repeat (destruct Hin as [Hin|Hin]; [subst t; vm_compute; tauto|]). destruct Hin.
Qed.

Example ex_address_walk :
  walk_pages 5 ex_api_db (ex_q (ByAddress 5) false) 0 = [(11, 0); (11, 1); (13, 0)] /\
  walk_pages 5 ex_api_db (ex_q (ByAddress 5) true) 0 = [(13, 0); (11, 0); (11, 1)] /\
  query_count ex_api_db (ex_q (ByAddress 5) false) = 3%nat /\
  walk_pages 5 ex_api_db (ex_q (ByHash 11) false) 0 = [(11, 0); (11, 1)] /\
  walk_pages 5 ex_api_db (ex_q (ByHeight 100) false) 0 = [(11, 0); (11, 1); (12, 0)] /\
  walk_pages 5 ex_api_db {| q_field := ByAddress 6; q_desc := false; q_actions := [1]; q_asset := Some 2; q_txindex := None |} 0 = [(12, 0)] /\
  query_status ex_api_db 13 = (101, -1) /\ query_status ex_api_db 99 = (0, 0).
Proof. vm_compute. repeat split; reflexivity. Qed.

(* the theorems applied to the example *)
Example ex_address_walk_by_theorem :
  walk_pages 4 ex_api_db (ex_q (ByAddress 5) false) 0 = query_all ex_api_db (ex_q (ByAddress 5) false) /\
  Permutation (query_all ex_api_db (ex_q (ByAddress 5) false)) [(11, 0); (11, 1); (13, 0)].
Proof.
  split.
  - apply walk_pages_all_wf; [exact ex_api_db_wf|]. vm_compute. lia.
  - exact (address_query_complete ex_api_db (ex_q (ByAddress 5) false) 5 ex_api_db_wf eq_refl eq_refl eq_refl).
Qed.

(* more than one page: one entry with 120 actions is walked in three pages of 50, 50 and 20 rows *)
Definition ex_big_db : db :=
  set_htxs (set_hist empty_db [ex_b 7 100 100])
           (map (fun i => ex_t 7 (Z.of_nat i) 1 5 1 0) (seq 0 120)) [].
Example ex_three_pages :
  let q := ex_q (ByHash 7) false in
  walk_pages 3 ex_big_db q 0 = query_all ex_big_db q /\
  length (query_all ex_big_db q) = 120%nat /\
  walk_pages 2 ex_big_db q 0 = firstn 100 (query_all ex_big_db q) /\
  (exists rows, query_page ex_big_db q 100 = Page 120 rows /\ length rows = 20%nat) /\
  query_page ex_big_db q 121 = PageErr /\
  query_page ex_big_db q 120 = Page 120 [].
Proof. vm_compute. repeat split; try reflexivity. eexists. split; reflexivity. Qed.

(* ---- what hist_wf is needed for: counter-examples ------------------------------------------------------------
   (a) wf_batch_once is NOT implied by the schema: pn_history_txbatch has UNIQUE(entry_hash, height) only, and
       [insert_hbatch] accepts a second batch row with the same hash at another height.  Every action of the hash
       is then joined to both batch rows: the data query has twice the rows, the lookup count does not, and
       the walk over the pages of the address query stops before the end (rows are omitted).
   (b) without wf_tx_fk (a transaction row without batch row) the unfiltered address count exceeds the data. *)
Definition ex_dup_db : db :=
  set_htxs (set_hist empty_db [ex_b 7 100 100])
           (map (fun i => ex_t 7 (Z.of_nat i) 1 5 1 0) (seq 0 60))
           (map (fun i => (7, Z.of_nat i, 5)) (seq 0 60)).
Example dup_hash_breaks_count :
  exists s', insert_hbatch ex_dup_db (ex_b 7 101 0) = Ok s' /\
    let q := ex_q (ByAddress 5) false in
    query_count s' q = 60%nat /\ length (query_all s' q) = 120%nat /\
    length (walk_pages 10 s' q 0) = 100%nat /\
    query_all s' (ex_q (ByHash 7) false) = query_all ex_dup_db (ex_q (ByHash 7) false) ++ query_all ex_dup_db (ex_q (ByHash 7) false) /\
    query_count ex_dup_db q = 60%nat /\ length (query_all ex_dup_db q) = 60%nat.
Proof. eexists. split; [vm_compute; reflexivity|]. vm_compute. repeat split; reflexivity. Qed.

Example orphan_tx_breaks_count :
  let s := set_htxs empty_db [ex_t 7 0 1 5 1 0] [(7, 0, 5)] in
  let q := ex_q (ByAddress 5) false in
  NoDup (map hb_hash (hist s)) /\ NoDup (map htx_key (htxs s)) /\ NoDup (lookups s) /\
  (forall l, In l (lookups s) -> In (fst l) (map htx_key (htxs s))) /\
  query_count s q = 1%nat /\ query_all s q = [] /\ query_page s q 0 = Page 1 [].
Proof.
  vm_compute. split; [nodup_Z|]. split; [nodup_Z|]. split; [nodup_Z|]. split; [|repeat split; reflexivity].
  intros l [<-|[]]. left. reflexivity.
Qed.

(* ---- hist_wf and the writers ---------------------------------------------------------------------------------
   The empty database is well-formed; [insert_htx] keeps hist_wf when the batch row of the hash exists (the
   writers insert the batch row first); [insert_hbatch] keeps it when the hash is new -- which the UNIQUE
   constraint alone does not ensure (see dup_hash_breaks_count). *)
Lemma hist_wf_empty : hist_wf empty_db.
Proof. constructor; cbn; try constructor; intros x []. Qed.

Lemma nodup_snoc {A} (l : list A) x : NoDup l -> ~ In x l -> NoDup (l ++ [x]).
Proof. intros Hnd Hn. apply (Permutation_NoDup (Permutation_cons_append l x)). constructor; assumption. Qed.

Lemma hist_wf_insert_hbatch s r s' :
  hist_wf s -> hist_has s (hb_hash r) = false -> insert_hbatch s r = Ok s' -> hist_wf s'.
Proof.
  intros Hwf Hnew Hins. unfold insert_hbatch in Hins. destruct (hist_has_at s (hb_hash r) (hb_height r)); [discriminate|].
  injection Hins as <-. destruct Hwf as [W1 W2 W3 W4 W5]. constructor; cbn [hist htxs lookups set_hist].
  - rewrite map_app. cbn [map]. apply nodup_snoc; [exact W1|].
    intros Hin. apply in_map_iff in Hin. destruct Hin as [b [Hb Hin]].
    unfold hist_has in Hnew. assert (E : existsb (fun r0 => hb_hash r0 =? hb_hash r) (hist s) = true); [|congruence].
    apply existsb_exists. exists b. split; [exact Hin|]. apply Z.eqb_eq. exact Hb.
  - exact W2.
  - exact W3.
  - exact W4.
  - intros t Ht. rewrite map_app. apply in_or_app. left. exact (W5 t Ht).
Qed.

Lemma add_lookup_nodup l k : NoDup l -> NoDup (add_lookup l k).
Proof.
  intros Hnd. unfold add_lookup.
  match goal with |- context [existsb ?f l] => destruct (existsb f l) eqn:E end; [exact Hnd|]. apply nodup_snoc; [exact Hnd|].
  intros Hin. rewrite <- not_true_iff_false in E. apply E.
  apply existsb_exists. exists k. split; [exact Hin|]. rewrite !Z.eqb_refl. reflexivity.
Qed.
Lemma add_lookup_In l k x : In x (add_lookup l k) -> In x l \/ x = k.
Proof.
  unfold add_lookup. match goal with |- context [existsb ?f l] => destruct (existsb f l) end; [left; assumption|].
  intros Hin. apply in_app_or in Hin. destruct Hin as [Hin|[<-|[]]]; [left; exact Hin|right; reflexivity].
Qed.
Lemma fold_add_lookup hs i lk : forall L,
  NoDup L -> NoDup (fold_left (fun l a => add_lookup l (hs, i, a)) lk L) /\
  forall x, In x (fold_left (fun l a => add_lookup l (hs, i, a)) lk L) -> In x L \/ fst x = (hs, i).
Proof.
  induction lk as [|a lk IH]; intros L Hnd; cbn [fold_left]; [split; [exact Hnd|intros x Hx; left; exact Hx]|].
  destruct (IH (add_lookup L (hs, i, a)) (add_lookup_nodup L _ Hnd)) as [H1 H2]. split; [exact H1|].
  intros x Hx. destruct (H2 x Hx) as [Hin|Hk]; [|right; exact Hk].
  apply add_lookup_In in Hin. destruct Hin as [Hin| ->]; [left; exact Hin|right; reflexivity].
Qed.

Lemma hist_wf_insert_htx s r lk s' :
  hist_wf s -> hist_has s (ht_hash r) = true -> insert_htx s r lk = Ok s' -> hist_wf s'.
Proof.
  intros Hwf Hb Hins. unfold insert_htx in Hins. destruct (htx_has s (ht_hash r) (ht_index r)) eqn:Hnew; [discriminate|].
  injection Hins as <-. destruct Hwf as [W1 W2 W3 W4 W5].
  destruct (fold_add_lookup (ht_hash r) (ht_index r) lk (lookups s) W3) as [L1 L2].
  constructor; cbn [hist htxs lookups set_htxs].
  - exact W1.
  - rewrite map_app. cbn [map]. apply nodup_snoc; [exact W2|].
    intros Hin. apply in_map_iff in Hin. destruct Hin as [t [Ht Hin]].
    unfold htx_has in Hnew. assert (E : existsb (fun r0 => (ht_hash r0 =? ht_hash r) && (ht_index r0 =? ht_index r)) (htxs s) = true); [|congruence].
    apply existsb_exists. exists t. split; [exact Hin|]. unfold htx_key in Ht. injection Ht as -> ->. rewrite !Z.eqb_refl. reflexivity.
  - exact L1.
  - intros l Hl. rewrite map_app. apply in_or_app. destruct (L2 l Hl) as [Hin|Hk].
    + left. exact (W4 l Hin).
    + right. left. rewrite Hk. reflexivity.
  - intros t Ht. apply in_app_or in Ht. destruct Ht as [Ht|[<-|[]]]; [exact (W5 t Ht)|].
    unfold hist_has in Hb. apply existsb_exists in Hb. destruct Hb as [b [Hin E]]. apply Z.eqb_eq in E.
    rewrite <- E. apply in_map. exact Hin.
Qed.

(* the status / amount updates do not touch the keys *)
Lemma hist_wf_set_executed s hs code : hist_wf s -> hist_wf (set_executed s hs code).
Proof.
  intros [W1 W2 W3 W4 W5].
  assert (Hm : map hb_hash (hist (set_executed s hs code)) = map hb_hash (hist s)).
  { unfold set_executed. cbn [hist set_hist]. rewrite map_map. apply map_ext. intros b. destruct (hb_hash b =? hs); reflexivity. }
  constructor; [rewrite Hm; exact W1|exact W2|exact W3|exact W4|].
  intros t Ht. rewrite Hm. exact (W5 t Ht).
Qed.
Print Assumptions hist_wf_insert_htx.
Print Assumptions hist_wf_insert_hbatch.
