(* Lemmas/ForksLemmas.v — the version lock refuses exactly the databases it should (C19). *)
From Coq Require Import ZArith List Bool Lia.
From Model Require Import Base Forks.
From Gen Require Consts.
Import ListNotations.
Open Scope Z_scope.

(* ---------------------------------------------------------------- aggregates *)
Lemma coalesce_min_le l d x : In x l -> coalesce (list_min l) d <= x.
Proof.
  induction l as [|y t IH]; cbn; [tauto|].
  intros [->|H].
  - destruct (list_min t); lia.
  - specialize (IH H). destruct (list_min t) eqn:E; cbn in IH; [lia|].
    destruct t; [destruct H | cbn in E; discriminate].
Qed.

Lemma coalesce_max_ge l d x : In x l -> x <= coalesce (list_max l) d.
Proof.
  induction l as [|y t IH]; cbn; [tauto|].
  intros [->|H].
  - destruct (list_max t); lia.
  - specialize (IH H). destruct (list_max t) eqn:E; cbn in IH; [lia|].
    destruct t; [destruct H | cbn in E; discriminate].
Qed.

Lemma coalesce_min_cases l d :
  (l = [] /\ coalesce (list_min l) d = d) \/ In (coalesce (list_min l) d) l.
Proof.
  induction l as [|y t IH]; [left; split; reflexivity|]. right. cbn.
  destruct (list_min t) as [z|] eqn:E; cbn; [|left; reflexivity].
  destruct IH as [[-> _]|IH]; [cbn in E; discriminate|]. cbn in IH.
  destruct (Z.min_spec y z) as [[_ ->]|[_ ->]]; [left; reflexivity | right; exact IH].
Qed.

Lemma coalesce_max_cases l d :
  (l = [] /\ coalesce (list_max l) d = d) \/ In (coalesce (list_max l) d) l.
Proof.
  induction l as [|y t IH]; [left; split; reflexivity|]. right. cbn.
  destruct (list_max t) as [z|] eqn:E; cbn; [|left; reflexivity].
  destruct IH as [[-> _]|IH]; [cbn in E; discriminate|]. cbn in IH.
  destruct (Z.max_spec y z) as [[_ ->]|[_ ->]]; [right; exact IH | left; reflexivity].
Qed.

Lemma highest_ge r h v : In (h, v) r -> h <= highest_synced r.
Proof.
  intros H. unfold highest_synced. apply coalesce_max_ge.
  apply (in_map fst) in H. exact H.
Qed.

Lemma highest_cases r : (r = [] /\ highest_synced r = 0) \/ exists v, In (highest_synced r, v) r.
Proof.
  unfold highest_synced.
  destruct (coalesce_max_cases (map fst r) 0) as [[E1 E2]|H].
  - left. split; [|exact E2]. destruct r; [reflexivity|discriminate].
  - right. apply in_map_iff in H as [[h v] [E Hin]]. cbn in E. subst h. exists v. exact Hin.
Qed.

Lemma rows_from_In A r h v : In (h, v) (rows_from A r) <-> In (h, v) r /\ A <= h.
Proof.
  unfold rows_from. rewrite filter_In. cbn. rewrite Z.leb_le. tauto.
Qed.

Lemma fetch_min_le A r h v : In (h, v) r -> A <= h -> fetch_min_version A r <= v.
Proof.
  intros H Hle. unfold fetch_min_version. apply coalesce_min_le.
  apply in_map_iff. exists (h, v). split; [reflexivity|]. apply rows_from_In. tauto.
Qed.

Lemma fetch_max_ge A r h v : In (h, v) r -> A <= h -> v <= fetch_max_version A r.
Proof.
  intros H Hle. unfold fetch_max_version. apply coalesce_max_ge.
  apply in_map_iff. exists (h, v). split; [reflexivity|]. apply rows_from_In. tauto.
Qed.

Lemma fetch_min_cases A r :
  ((forall h v, In (h, v) r -> h < A) /\ fetch_min_version A r = -1) \/
  (exists h, In (h, fetch_min_version A r) r /\ A <= h).
Proof.
  unfold fetch_min_version.
  destruct (coalesce_min_cases (map snd (rows_from A r)) (-1)) as [[E1 E2]|H].
  - left. split; [|exact E2]. intros h v Hin.
    destruct (Z.lt_ge_cases h A) as [|Hge]; [assumption|].
    assert (Hf : In (h, v) (rows_from A r)) by (apply rows_from_In; tauto).
    apply (in_map snd) in Hf. rewrite E1 in Hf. destruct Hf.
  - right. apply in_map_iff in H as [[h v] [E Hin]]. cbn in E. rewrite <- E.
    apply rows_from_In in Hin. exists h. exact Hin.
Qed.

Lemma fetch_max_cases A r :
  fetch_max_version A r = -1 \/ (exists h, In (h, fetch_max_version A r) r /\ A <= h).
Proof.
  unfold fetch_max_version.
  destruct (coalesce_max_cases (map snd (rows_from A r)) (-1)) as [[E1 E2]|H].
  - left. exact E2.
  - right. apply in_map_iff in H as [[h v] [E Hin]]. cbn in E. rewrite <- E.
    apply rows_from_In in Hin. exists h. exact Hin.
Qed.

(* ---------------------------------------------------------------- pn_sync_version inserts *)
Lemma has_row_In h r : has_row h r = true <-> exists v, In (h, v) r.
Proof.
  unfold has_row. rewrite existsb_exists. split.
  - intros [[a b] [Hin E]]. cbn in E. apply Z.eqb_eq in E. subst a. exists b. exact Hin.
  - intros [v Hin]. exists (h, v). split; [exact Hin|]. cbn. apply Z.eqb_refl.
Qed.

Lemma insert_ignore_incl h v r x : In x r -> In x (insert_ignore h v r).
Proof. unfold insert_ignore, insert_row. destruct (has_row h r); cbn; auto. Qed.

Lemma insert_ignore_inv h v r x :
  In x (insert_ignore h v r) -> In x r \/ (x = (h, v) /\ has_row h r = false).
Proof.
  unfold insert_ignore, insert_row. destruct (has_row h r); cbn; [auto|].
  intros [<-|H]; auto.
Qed.

Lemma insert_ignore_new h v r : has_row h r = false -> In (h, v) (insert_ignore h v r).
Proof. unfold insert_ignore, insert_row. intros ->. left. reflexivity. Qed.

Lemma has_row_false_incl h a b r : has_row h (insert_ignore a b r) = false -> has_row h r = false.
Proof.
  intros H. destruct (has_row h r) eqn:E; [|reflexivity].
  apply has_row_In in E as [v Hin].
  assert (has_row h (insert_ignore a b r) = true)
    by (apply has_row_In; exists v; apply insert_ignore_incl; exact Hin).
  congruence.
Qed.

Section Backfill.
Variable reached : Z -> Z -> bool.

Lemma backfill_incl forks s r x : In x r -> In x (backfill reached forks s r).
Proof.
  revert r. induction forks as [|f t IH]; cbn; intros r H; [exact H|].
  apply IH. destruct (reached (fst f) s); [apply insert_ignore_incl|]; exact H.
Qed.

(* a row the back-fill adds is (A, -1) for a fork height A the database has reached and for
   which no row existed *)
Lemma backfill_inv forks s r h v :
  In (h, v) (backfill reached forks s r) ->
  In (h, v) r \/ (v = -1 /\ reached h s = true /\ has_row h r = false /\ exists m, In (h, m) forks).
Proof.
  revert r. induction forks as [|[A m] t IH]; cbn; intros r H; [auto|].
  apply IH in H. destruct H as [H|(Hv & Hr & Hn & m' & Hm)].
  - destruct (reached A s) eqn:E; [|auto].
    apply insert_ignore_inv in H as [H|[H1 H2]]; [auto|].
    inversion H1; subst. right. repeat split; auto. exists m. left. reflexivity.
  - right. repeat split; auto.
    + destruct (reached A s); [|exact Hn]. eapply has_row_false_incl. exact Hn.
    + exists m'. right. exact Hm.
Qed.

(* every fork height the database has reached and that had no row gets (A, -1) *)
Lemma backfill_new forks s r A m :
  In (A, m) forks -> reached A s = true -> has_row A r = false ->
  In (A, -1) (backfill reached forks s r).
Proof.
  revert r. induction forks as [|[A' m'] t IH]; cbn; intros r Hin Hr Hn; [destruct Hin|].
  destruct Hin as [E|Hin].
  - inversion E; subst. rewrite Hr. apply backfill_incl. apply insert_ignore_new. exact Hn.
  - set (r1 := if reached A' s then insert_ignore A' (-1) r else r).
    destruct (has_row A r1) eqn:E1.
    + apply backfill_incl. apply has_row_In in E1 as [v Hv]. unfold r1 in Hv.
      destruct (reached A' s).
      * apply insert_ignore_inv in Hv as [Hv|[Hv _]].
        -- assert (has_row A r = true) by (apply has_row_In; exists v; exact Hv). congruence.
        -- inversion Hv; subst. apply insert_ignore_new. exact Hn.
      * assert (has_row A r = true) by (apply has_row_In; exists v; exact Hv). congruence.
    + apply IH; assumption.
Qed.
End Backfill.

Lemma backfilled_incl reached forks d x : In x (versions d) -> In x (backfilled reached forks d).
Proof.
  unfold backfilled. intros H. destruct (synced d); [|exact H].
  destruct (_ <? _); [apply backfill_incl|]; exact H.
Qed.

(* ---------------------------------------------------------------- the characterisation *)
(* compact form: an untracked build counts as sync version -1, which is what the back-fill
   records for it *)
Definition below_fork (forks : list (Z * Z)) (lg : synclog) : Prop :=
  exists A m b bld, In (A, m) forks /\ In (b, bld) lg /\ A <= b /\ bver bld < m.
Definition newer_build (cur : Z) (lg : synclog) : Prop :=
  exists b bld, In (b, bld) lg /\ cur < bver bld.

Lemma below_forkb_spec forks lg : below_forkb forks lg = true <-> below_fork forks lg.
Proof.
  unfold below_forkb, below_fork. rewrite existsb_exists. split.
  - intros [[A m] [Hf H]]. apply existsb_exists in H as [[b bld] [Hl H]]. cbn in H.
    apply andb_true_iff in H as [H1 H2]. apply Z.leb_le in H1. apply Z.ltb_lt in H2.
    exists A, m, b, bld. tauto.
  - intros (A & m & b & bld & Hf & Hl & H1 & H2). exists (A, m). split; [exact Hf|].
    apply existsb_exists. exists (b, bld). split; [exact Hl|]. cbn.
    apply andb_true_iff. split; [apply Z.leb_le|apply Z.ltb_lt]; assumption.
Qed.

Lemma newer_buildb_spec cur lg : newer_buildb cur lg = true <-> newer_build cur lg.
Proof.
  unfold newer_buildb, newer_build. rewrite existsb_exists. split.
  - intros [[b bld] [Hl H]]. cbn in H. apply Z.ltb_lt in H. exists b, bld. tauto.
  - intros (b & bld & Hl & H). exists (b, bld). split; [exact Hl|]. cbn. apply Z.ltb_lt. exact H.
Qed.

Lemma charb_spec forks cur lg : charb forks cur lg = true <-> below_fork forks lg \/ newer_build cur lg.
Proof. unfold charb. rewrite orb_true_iff, below_forkb_spec, newer_buildb_spec. tauto. Qed.

Definition forks_wf (base : Z) (forks : list (Z * Z)) : Prop :=
  forall A m, In (A, m) forks -> base < A \/ m <= -1.

Lemma forks_wfb_spec base forks : forks_wfb base forks = true <-> forks_wf base forks.
Proof.
  unfold forks_wfb, forks_wf. rewrite forallb_forall. split.
  - intros H A m Hin. specialize (H _ Hin). cbn in H. apply orb_true_iff in H as [H|H];
      [left; apply Z.ltb_lt|right; apply Z.leb_le]; exact H.
  - intros H [A m] Hin. cbn. apply orb_true_iff. destruct (H _ _ Hin);
      [left; apply Z.ltb_lt|right; apply Z.leb_le]; assumption.
Qed.

(* ---------------------------------------------------------------- the verdict, on a table *)
(* what the rows of a table may be: written by a tracked build that synced the height, or a
   back-fill -1 at a height an untracked build synced or at/below the base height *)
Definition rows_explained (base : Z) (r : rows) (lg : synclog) : Prop :=
  forall h v, In (h, v) r ->
    In (h, Tracked v) lg \/ (v = -1 /\ (In (h, Untracked) lg \/ h <= base)).

Lemma forallb_false {A} (f : A -> bool) l : forallb f l = false -> exists x, In x l /\ f x = false.
Proof.
  induction l as [|x t IH]; cbn; [discriminate|].
  destruct (f x) eqn:E; cbn.
  - intros H. destruct (IH H) as [y [Hy Hf]]. exists y. auto.
  - intros _. exists x. auto.
Qed.

Lemma verdict_false_sound base forks cur r lg :
  0 <= base -> forks_wf base forks -> -1 <= cur -> rows_explained base r lg ->
  verdict forks cur r = false -> below_fork forks lg \/ newer_build cur lg.
Proof.
  intros Hb Hwf Hcur Hex Hv. unfold verdict, forks_ok, no_downgrade in Hv. apply andb_false_iff in Hv as [Hv|Hv].
  - left. apply forallb_false in Hv as [[A m] [Hin Hf]]. cbn in Hf.
    destruct (Z.leb_spec A (highest_synced r)) as [Htop|]; [|discriminate].
    apply negb_false_iff in Hf. apply Z.ltb_lt in Hf.
    destruct (fetch_min_cases A r) as [[Hnone Hm1]|[h [Hrow Hle]]].
    + (* no row at or above A although A <= top: the table is empty and A <= 0 <= base *)
      rewrite Hm1 in Hf.
      destruct (highest_cases r) as [[-> Htop0]|[v Hrow]].
      * rewrite Htop0 in Htop. destruct (Hwf _ _ Hin); lia.
      * specialize (Hnone _ _ Hrow). lia.
    + destruct (Hex _ _ Hrow) as [Ht|[Hm1 [Hu|Hlow]]].
      * exists A, m, h, (Tracked (fetch_min_version A r)). cbn. tauto.
      * exists A, m, h, Untracked. cbn. repeat split; auto. lia.
      * destruct (Hwf _ _ Hin); lia.
  - right. apply negb_false_iff in Hv. apply Z.ltb_lt in Hv.
    destruct (fetch_max_cases 0 r) as [Hm1|[h [Hrow Hle]]]; [lia|].
    destruct (Hex _ _ Hrow) as [Ht|[Hm1 _]]; [|lia].
    exists h, (Tracked (fetch_max_version 0 r)). cbn. tauto.
Qed.

Lemma verdict_fork_row forks cur r A m h v :
  In (A, m) forks -> In (h, v) r -> A <= h -> v < m -> verdict forks cur r = false.
Proof.
  intros Hin Hrow Hle Hlt. unfold verdict, forks_ok. apply andb_false_iff. left.
  destruct (forallb _ forks) eqn:E; [|reflexivity].
  rewrite forallb_forall in E. specialize (E _ Hin). cbn in E.
  pose proof (highest_ge _ _ _ Hrow) as Htop.
  destruct (Z.leb_spec A (highest_synced r)); [|lia].
  apply negb_true_iff in E. apply Z.ltb_ge in E.
  pose proof (fetch_min_le A _ _ _ Hrow Hle). lia.
Qed.

Lemma verdict_newer_row forks cur r h v :
  In (h, v) r -> 0 <= h -> cur < v -> verdict forks cur r = false.
Proof.
  intros Hrow Hle Hlt. unfold verdict, no_downgrade. apply andb_false_iff. right.
  apply negb_false_iff. apply Z.ltb_lt.
  pose proof (fetch_max_ge 0 _ _ _ Hrow Hle). lia.
Qed.

(* ---------------------------------------------------------------- invariants of every history *)
Definition inv (base : Z) (st : state) : Prop :=
  (match synced (fst st) with
   | None => snd st = []
   | Some s => base < s /\ forall h, (exists b, In (h, b) (snd st)) <-> base < h <= s
   end) /\
  (forall h v, In (h, Tracked v) (snd st) -> In (h, v) (versions (fst st))) /\
  rows_explained base (versions (fst st)) (snd st).

Lemma inv_fresh base : inv base (fresh, []).
Proof.
  split; [reflexivity|]. split; [intros h v []|intros h v []].
Qed.

Lemma sync_block_inv base b st st' : inv base st -> sync_block base b st = Some st' -> inv base st'.
Proof.
  destruct st as [d lg]. intros (I1 & I3 & I4). unfold sync_block, next_height. cbn in *.
  assert (Hlog : forall bld, match synced d with
                 | Some s => base < s + 1 /\ forall h, (exists b0, In (h, b0) ((s + 1, bld) :: lg)) <-> base < h <= s + 1
                 | None => base < base + 1 /\ forall h, (exists b0, In (h, b0) ((base + 1, bld) :: lg)) <-> base < h <= base + 1
                 end).
  { intros bld. destruct (synced d) as [s|].
    - destruct I1 as [Hs Hh]. split; [lia|]. intros h. split.
      + intros [b0 [E|Hin]]; [inversion E; lia|]. assert (base < h <= s) by (apply Hh; eauto). lia.
      + intros Hr. destruct (Z.eq_dec h (s + 1)) as [->|Hne]; [exists bld; left; reflexivity|].
        assert (Hr' : base < h <= s) by lia. apply Hh in Hr' as [b0 Hb0]. exists b0. right. exact Hb0.
    - subst lg. split; [lia|]. intros h. split.
      + intros [b0 [E|[]]]. inversion E. lia.
      + intros Hr. assert (h = base + 1) by lia. subst h. exists bld. left. reflexivity. }
  destruct b as [|v].
  - intros E. inversion E; subst; clear E. unfold inv; cbn. split; [|split].
    + specialize (Hlog Untracked). destruct (synced d); exact Hlog.
    + intros h v [E|Hin]; [discriminate|auto].
    + intros h v Hin. destruct (I4 _ _ Hin) as [H|[H1 [H|H]]];
        [left; right; exact H | right; split; [exact H1|left; right; exact H] | right; split; [exact H1|right; exact H]].
  - unfold insert_row. destruct (has_row _ _); [discriminate|].
    intros E. inversion E; subst; clear E. unfold inv; cbn. split; [|split].
    + specialize (Hlog (Tracked v)). destruct (synced d); exact Hlog.
    + intros h v' [E|Hin]; [inversion E; subst; left; reflexivity|right; auto].
    + intros h v' [E|Hin].
      * inversion E; subst. left. left. reflexivity.
      * destruct (I4 _ _ Hin) as [H|[H1 [H|H]]];
        [left; right; exact H | right; split; [exact H1|left; right; exact H] | right; split; [exact H1|right; exact H]].
Qed.

Lemma sync_blocks_inv base b n st : inv base st -> inv base (sync_blocks base b n st).
Proof.
  revert st. induction n as [|n IH]; cbn; intros st H; [exact H|].
  destruct (sync_block base b st) as [st'|] eqn:E; [|exact H].
  apply IH. eapply sync_block_inv; eassumption.
Qed.

Lemma check_inv reached base forks cur d lg :
  (forall A s, reached A s = true -> A <= s) ->
  inv base (d, lg) -> inv base (snd (check_gen reached forks cur d), lg).
Proof.
  intros Hr (I1 & I3 & I4). cbn in *. unfold inv; cbn. split; [exact I1|]. split.
  - intros h v Hin. apply backfilled_incl. auto.
  - unfold backfilled. destruct (synced d) as [s|]; [|exact I4].
    destruct (_ <? s); [|exact I4].
    intros h v Hin. apply backfill_inv in Hin as [Hin|(Hv & Hre & Hn & _)]; [auto|].
    right. split; [exact Hv|]. apply Hr in Hre.
    destruct (Z.le_gt_cases h base) as [|Hgt]; [right; assumption|left].
    destruct I1 as [_ Hh]. assert (Hrange : base < h <= s) by lia.
    apply Hh in Hrange as [[|v'] Hb]; [exact Hb|].
    apply I3 in Hb. assert (has_row h (versions d) = true) by (apply has_row_In; eauto). congruence.
Qed.

Lemma leb_reached_le A s : leb_reached A s = true -> A <= s.
Proof. apply Z.leb_le. Qed.

Lemma run_session_inv forks base st s : inv base st -> inv base (run_session forks base st s).
Proof.
  destruct st as [d lg], s as [[|v] n]; unfold run_session, run_session_gen; cbn; intros H.
  - apply sync_blocks_inv. exact H.
  - pose proof (check_inv leb_reached base forks v d lg leb_reached_le H) as H1. cbn in H1.
    destruct (verdict _ _ _); [apply sync_blocks_inv|]; exact H1.
Qed.

Lemma fold_run_inv forks base h st : inv base st -> inv base (fold_left (run_session forks base) h st).
Proof.
  revert st. induction h as [|s t IH]; cbn; intros st H; [exact H|].
  apply IH. apply run_session_inv. exact H.
Qed.

Lemma run_history_inv forks base h : inv base (run_history forks base h).
Proof. apply fold_run_inv. apply inv_fresh. Qed.

(* ---------------------------------------------------------------- refusal is always justified *)
Theorem refuses_sound forks base h cur :
  0 <= base -> forks_wf base forks -> -1 <= cur ->
  refuses forks base h cur = true ->
  below_fork forks (synced_log forks base h) \/ newer_build cur (synced_log forks base h).
Proof.
  intros Hb Hwf Hcur Href. unfold refuses, accepts, synced_log in *.
  pose proof (run_history_inv forks base h) as Hinv.
  destruct (run_history forks base h) as [d lg]. cbn in *.
  pose proof (check_inv leb_reached base forks cur d lg leb_reached_le Hinv) as (_ & _ & I4). cbn in I4.
  apply negb_true_iff in Href.
  eapply verdict_false_sound; eassumption.
Qed.

(* ---------------------------------------------------------------- nothing slips through, when
   untracked builds ran only before tracked ones *)
(* once a tracked build has started on the database, every fork height at or below a height
   that an untracked build synced carries a -1 row *)
Definition legacy_marked (forks : list (Z * Z)) (st : state) : Prop :=
  forall h A m, In (h, Untracked) (snd st) -> In (A, m) forks -> A <= h ->
    In (A, -1) (versions (fst st)).

Lemma check_marks forks base cur d lg :
  0 <= base -> inv base (d, lg) ->
  versions d = [] \/ legacy_marked forks (d, lg) ->
  legacy_marked forks (snd (check_hard_forks forks cur d), lg).
Proof.
  intros Hb (I1 & _ & _) [Hnil|HJ]; unfold legacy_marked; cbn in *.
  - intros h A m Hu Hf Hle. unfold backfilled. rewrite Hnil.
    destruct (synced d) as [s|]; [|subst lg; destruct Hu].
    destruct I1 as [Hs Hh]. assert (base < h <= s) by (apply Hh; eauto).
    change (lowest_synced []) with 0. destruct (Z.ltb_spec 0 s); [|lia].
    eapply backfill_new; [exact Hf| |reflexivity]. apply Z.leb_le. lia.
  - intros h A m Hu Hf Hle. apply backfilled_incl. eapply HJ; eassumption.
Qed.

Lemma sync_blocks_tracked_marked forks base v n st :
  legacy_marked forks st -> legacy_marked forks (sync_blocks base (Tracked v) n st).
Proof.
  revert st. induction n as [|n IH]; cbn; intros st H; [exact H|].
  unfold insert_row. destruct (has_row _ _); [exact H|]. apply IH.
  unfold legacy_marked in *. cbn. intros h A m [E|Hu] Hf Hle; [discriminate|].
  right. eapply H; eassumption.
Qed.

Lemma sync_blocks_untracked_nil base n st :
  versions (fst st) = [] -> versions (fst (sync_blocks base Untracked n st)) = [].
Proof.
  revert st. induction n as [|n IH]; cbn; intros st H; [exact H|]. apply IH. exact H.
Qed.

Lemma run_session_tracked_marked forks base st v n :
  0 <= base -> inv base st ->
  versions (fst st) = [] \/ legacy_marked forks st ->
  legacy_marked forks (run_session forks base st (Tracked v, n)).
Proof.
  destruct st as [d lg]. intros Hb Hinv H.
  pose proof (check_marks forks base v d lg Hb Hinv H) as H1.
  unfold run_session, run_session_gen. cbn in *.
  destruct (verdict _ _ _); [apply sync_blocks_tracked_marked|]; exact H1.
Qed.

Lemma phase2 forks base t st :
  0 <= base -> no_untracked_sync t = true -> inv base st -> legacy_marked forks st ->
  legacy_marked forks (fold_left (run_session forks base) t st).
Proof.
  intros Hb. revert st. induction t as [|s t IH]; intros st Hn Hinv HJ; [exact HJ|].
  cbn [fold_left]. unfold no_untracked_sync in Hn. cbn [forallb] in Hn.
  apply andb_true_iff in Hn as [Hs Ht].
  apply IH; [exact Ht|apply run_session_inv; exact Hinv|].
  destruct s as [[|v] n].
  - destruct n; [exact HJ|discriminate].
  - apply run_session_tracked_marked; auto.
Qed.

Lemma phase1 forks base h st :
  0 <= base -> untracked_first h = true -> inv base st -> versions (fst st) = [] ->
  versions (fst (fold_left (run_session forks base) h st)) = [] \/
  legacy_marked forks (fold_left (run_session forks base) h st).
Proof.
  intros Hb. revert st. induction h as [|s t IH]; intros st Hu Hinv Hnil; [left; exact Hnil|].
  cbn [fold_left]. destruct s as [[|v] n]; cbn [untracked_first] in Hu.
  - apply IH; [exact Hu|apply run_session_inv; exact Hinv|].
    unfold run_session, run_session_gen. cbn [fst snd].
    apply sync_blocks_untracked_nil. exact Hnil.
  - right. apply phase2; [exact Hb|exact Hu|apply run_session_inv; exact Hinv|].
    apply run_session_tracked_marked; auto.
Qed.

Theorem refuses_complete forks base h cur :
  0 <= base -> -1 <= cur -> untracked_first h = true ->
  below_fork forks (synced_log forks base h) \/ newer_build cur (synced_log forks base h) ->
  refuses forks base h cur = true.
Proof.
  intros Hb Hcur Hu Hchar. unfold refuses, accepts, synced_log in *.
  pose proof (run_history_inv forks base h) as Hinv.
  pose proof (phase1 forks base h (fresh, []) Hb Hu (inv_fresh base) eq_refl) as Hph.
  unfold run_history, run_history_gen in *. fold (run_session forks base) in *.
  cbn in Hph.
  destruct (fold_left (run_session forks base) h (fresh, [])) as [d lg]. cbn in *.
  pose proof (check_marks forks base cur d lg Hb Hinv Hph) as HJ. cbn in HJ.
  destruct Hinv as (I1 & I3 & _). cbn in *.
  apply negb_true_iff.
  destruct Hchar as [(A & m & b & bld & Hf & Hl & Hle & Hlt)|(b & bld & Hl & Hlt)].
  - destruct bld as [|v]; cbn in Hlt.
    + eapply verdict_fork_row with (h := A) (v := -1); [exact Hf| |lia|exact Hlt].
      eapply HJ; eassumption.
    + eapply verdict_fork_row; [exact Hf| |exact Hle|exact Hlt].
      apply backfilled_incl. apply I3. exact Hl.
  - destruct bld as [|v]; cbn in Hlt.
    + lia.
    + eapply verdict_newer_row; [apply backfilled_incl; apply I3; exact Hl| |exact Hlt].
      destruct (synced d) as [s|]; [|subst lg; destruct Hl].
      destruct I1 as [Hs Hh]. assert (base < b <= s) by (apply Hh; eauto). lia.
Qed.

(* ---------------------------------------------------------------- the statement of C19 *)
(* literal form: "synced by an untracked build, or by Tracked v with v < m".  The conjunct
   0 <= m is what the table entry {0, -1} ("any version >= -1 is sufficient") means for an
   untracked build, which the code records as -1: see Refuted/C19.v for the statement
   without it. *)
Definition below_fork_lit (forks : list (Z * Z)) (lg : synclog) : Prop :=
  exists A m b, In (A, m) forks /\ A <= b /\
    ((In (b, Untracked) lg /\ 0 <= m) \/ (exists v, In (b, Tracked v) lg /\ v < m)).
Definition newer_build_lit (cur : Z) (lg : synclog) : Prop :=
  exists b v, In (b, Tracked v) lg /\ cur < v.

Lemma below_fork_lit_iff forks lg : below_fork forks lg <-> below_fork_lit forks lg.
Proof.
  unfold below_fork, below_fork_lit. split.
  - intros (A & m & b & [|v] & Hf & Hl & Hle & Hlt); cbn in Hlt; exists A, m, b; repeat split; auto.
    + left. split; [exact Hl|lia].
    + right. exists v. auto.
  - intros (A & m & b & Hf & Hle & [[Hl Hm]|[v [Hl Hlt]]]).
    + exists A, m, b, Untracked. cbn. repeat split; auto. lia.
    + exists A, m, b, (Tracked v). cbn. auto.
Qed.

Lemma newer_build_lit_iff cur lg : -1 <= cur -> (newer_build cur lg <-> newer_build_lit cur lg).
Proof.
  intros Hc. unfold newer_build, newer_build_lit. split.
  - intros (b & [|v] & Hl & Hlt); cbn in Hlt; [lia|]. exists b, v. auto.
  - intros (b & v & Hl & Hlt). exists b, (Tracked v). auto.
Qed.

Theorem version_lock_iff forks base h cur :
  0 <= base ->
  (forall A m, In (A, m) forks -> base < A \/ m <= -1) ->
  -1 <= cur ->
  untracked_first h = true ->
  (refuses forks base h cur = true <->
   (exists A m b, In (A, m) forks /\ A <= b /\
      ((In (b, Untracked) (synced_log forks base h) /\ 0 <= m) \/
       (exists v, In (b, Tracked v) (synced_log forks base h) /\ v < m)))
   \/ (exists b v, In (b, Tracked v) (synced_log forks base h) /\ cur < v)).
Proof.
  intros Hb Hwf Hcur Hu.
  change (refuses forks base h cur = true <->
          below_fork_lit forks (synced_log forks base h) \/ newer_build_lit cur (synced_log forks base h)).
  rewrite <- below_fork_lit_iff, <- (newer_build_lit_iff _ _ Hcur). split.
  - apply refuses_sound; assumption.
  - apply refuses_complete; assumption.
Qed.

(* the "only if" half needs no hypothesis on the order of the sessions *)
Theorem version_lock_refusal_justified forks base h cur :
  0 <= base ->
  (forall A m, In (A, m) forks -> base < A \/ m <= -1) ->
  -1 <= cur ->
  refuses forks base h cur = true ->
  (exists A m b, In (A, m) forks /\ A <= b /\
      ((In (b, Untracked) (synced_log forks base h) /\ 0 <= m) \/
       (exists v, In (b, Tracked v) (synced_log forks base h) /\ v < m)))
  \/ (exists b v, In (b, Tracked v) (synced_log forks base h) /\ cur < v).
Proof.
  intros Hb Hwf Hcur Hr.
  change (below_fork_lit forks (synced_log forks base h) \/ newer_build_lit cur (synced_log forks base h)).
  rewrite <- below_fork_lit_iff, <- (newer_build_lit_iff _ _ Hcur).
  apply refuses_sound; assumption.
Qed.

(* "Databases synced entirely with adequate builds are always accepted": every history *)
Theorem adequate_always_accepted forks base h cur :
  0 <= base ->
  (forall A m, In (A, m) forks -> base < A \/ m <= -1) ->
  -1 <= cur ->
  (forall b bld, In (b, bld) (synced_log forks base h) ->
     bver bld <= cur /\ forall A m, In (A, m) forks -> A <= b -> m <= bver bld) ->
  accepts forks base h cur = true.
Proof.
  intros Hb Hwf Hcur Had.
  destruct (accepts forks base h cur) eqn:E; [reflexivity|exfalso].
  assert (Hr : refuses forks base h cur = true) by (unfold refuses; rewrite E; reflexivity).
  destruct (refuses_sound forks base h cur Hb Hwf Hcur Hr)
    as [(A & m & b & bld & Hf & Hl & Hle & Hlt)|(b & bld & Hl & Hlt)].
  - destruct (Had _ _ Hl) as [_ H]. specialize (H _ _ Hf Hle). lia.
  - destruct (Had _ _ Hl) as [H _]. lia.
Qed.

(* ---------------------------------------------------------------- what the ghost log is *)
(* a block commit never hits the PRIMARY KEY of pn_sync_version from a reachable state: the
   None branch of sync_block is dead, a session of n blocks syncs n blocks *)
Lemma sync_block_total base b st : inv base st -> exists st', sync_block base b st = Some st'.
Proof.
  destruct st as [d lg]. intros (I1 & I3 & I4). unfold sync_block, next_height. cbn in *.
  destruct b as [|v]; [eauto|].
  unfold insert_row.
  destruct (has_row _ (versions d)) eqn:E; [exfalso|eauto].
  apply has_row_In in E as [v' Hin].
  assert (Hlogged : forall h b0, In (h, b0) lg ->
            match synced d with Some s => base < h <= s | None => False end).
  { intros h b0 Hl. destruct (synced d) as [s|]; [|subst lg; destruct Hl].
    destruct I1 as [_ Hh]. apply Hh. eauto. }
  destruct (I4 _ _ Hin) as [H|[_ [H|H]]].
  - apply Hlogged in H. destruct (synced d); [lia|exact H].
  - apply Hlogged in H. destruct (synced d); [lia|exact H].
  - destruct (synced d) as [s|]; [destruct I1|]; lia.
Qed.

Lemma sync_blocks_log base b n st : inv base st ->
  length (snd (sync_blocks base b n st)) = (n + length (snd st))%nat /\
  (forall e, In e (snd (sync_blocks base b n st)) -> In e (snd st) \/ snd e = b).
Proof.
  revert st. induction n as [|n IH]; intros st Hinv; cbn [sync_blocks]; [split; auto|].
  destruct (sync_block_total base b st Hinv) as [st' E]. rewrite E.
  pose proof (sync_block_inv _ _ _ _ Hinv E) as Hinv'.
  destruct (IH st' Hinv') as [Hlen Hin].
  assert (Hs : snd st' = (next_height base (fst st), b) :: snd st).
  { unfold sync_block in E. destruct b; [inversion E; reflexivity|].
    destruct (insert_row _ _ _); inversion E; reflexivity. }
  split.
  - rewrite Hlen, Hs. cbn. lia.
  - intros e He. apply Hin in He as [He|He]; [|auto]. rewrite Hs in He.
    destruct He as [<-|He]; [right; reflexivity|left; exact He].
Qed.

(* ---------------------------------------------------------------- before the repair *)
(* with `bs.Synced > event.ActivationHeight` a legacy database synced exactly to a fork
   height — the fork block itself applied by the untracked build — was accepted *)
Definition legacy_witness_forks : list (Z * Z) := [(0, -1); (12, 1)].
Definition legacy_witness_history : list session := [(Untracked, 2%nat)].   (* blocks 11, 12 *)

Lemma legacy_check_accepted_fork_height :
  exists forks base h cur,
    0 <= base /\ forks_wf base forks /\ -1 <= cur /\ untracked_first h = true /\
    below_fork_lit forks (snd (run_history_legacy forks base h)) /\
    accepts_legacy forks base h cur = true /\
    accepts forks base h cur = false.
Proof.
  exists legacy_witness_forks, 10, legacy_witness_history, 1.
  split; [lia|]. split; [apply forks_wfb_spec; vm_compute; reflexivity|].
  split; [lia|]. split; [reflexivity|]. split.
  - exists 12, 1, 12. split; [right; left; reflexivity|]. split; [lia|].
    left. split; [vm_compute; left; reflexivity|lia].
  - split; vm_compute; reflexivity.
Qed.

(* ---------------------------------------------------------------- the table the code carries *)
(* the hypotheses hold of the constants regenerated from the repository on every run
   (Gen/Consts.v: pegnet.Hardforks, config.PegnetActivation, pegnet.PegnetdSyncVersion) *)
Lemma repo_table_wellformed :
  0 <= Consts.PegnetActivation /\
  forks_wfb Consts.PegnetActivation Consts.hardforks = true /\
  -1 <= Consts.PegnetdSyncVersion.
Proof. split; [|split]; vm_compute; first [reflexivity | discriminate]. Qed.

Theorem version_lock_iff_repo_table h :
  untracked_first h = true ->
  let lg := synced_log Consts.hardforks Consts.PegnetActivation h in
  (refuses Consts.hardforks Consts.PegnetActivation h Consts.PegnetdSyncVersion = true <->
   (exists A m b, In (A, m) Consts.hardforks /\ A <= b /\
      ((In (b, Untracked) lg /\ 0 <= m) \/ (exists v, In (b, Tracked v) lg /\ v < m)))
   \/ (exists b v, In (b, Tracked v) lg /\ Consts.PegnetdSyncVersion < v)).
Proof.
  intros Hu lg. destruct repo_table_wellformed as (Hb & Hwf & Hc).
  apply version_lock_iff; [exact Hb|apply forks_wfb_spec; exact Hwf|exact Hc|exact Hu].
Qed.
