(* Lemmas/ApiInvariant.v — C17: the well-formedness [hist_wf] of the history tables (Model/Api.v), under which
   the API query theorems of ApiLemmas.v hold, is not an assumption about the state as far as the two primary
   keys and the two foreign keys go: they hold in EVERY state reached by replay from the fresh database.

     wf_tx_pk      PRIMARY KEY(entry_hash, tx_index) of pn_history_transaction : insert_htx refuses an existing key,
                   the amount updates (set_to_amount / set_peg_request_amounts) keep the keys
     wf_lookup_pk  PRIMARY KEY(entry_hash, tx_index, address) of pn_history_lookup : add_lookup is ON CONFLICT DO NOTHING
     wf_lookup_fk  every lookup row is written together with its transaction row
     wf_tx_fk      every writer inserts the batch row before its transaction rows and stops when the batch row is
                   refused (this is [hist_closed], TotalityInvariant.replay_closed)

   The remaining field, wf_batch_once (one batch row per entry hash), is NOT enforced by the schema
   (UNIQUE(entry_hash, height) only) and stays a hypothesis: see ApiLemmas.dup_hash_breaks_count. *)
From Model Require Import Api Block Obs Examples.
From Lemmas Require Import DbLemmas LedgerLemmas BlockLemmas FrameLemmas ChainLemmas TotalityLemmas TotalityInvariant ApiLemmas.
From Gen Require Import Consts.
From Coq Require Import Lia RelationClasses.
Open Scope Z_scope.
Open Scope list_scope.

(* ---- the weak form: hist_wf without wf_batch_once ---------------------------------------------------------------- *)
Record hist_wf_weak (s : db) : Prop := {
  ww_tx_pk : NoDup (map htx_key (htxs s));
  ww_lookup_pk : NoDup (lookups s);
  ww_lookup_fk : forall l, In l (lookups s) -> In (fst l) (map htx_key (htxs s));
  ww_tx_fk : forall t, In t (htxs s) -> In (ht_hash t) (map hb_hash (hist s))
}.

Lemma hist_wf_iff_weak s : hist_wf s <-> hist_wf_weak s /\ NoDup (map hb_hash (hist s)).
Proof.
  split.
  - intros [W1 W2 W3 W4 W5]. split; [constructor; assumption|exact W1].
  - intros [[W2 W3 W4 W5] W1]. constructor; assumption.
Qed.
Lemma hist_wf_weaken s : hist_wf s -> hist_wf_weak s.
Proof. intros H. exact (proj1 (proj1 (hist_wf_iff_weak s) H)). Qed.

(* ---- the three key facts about (pn_history_transaction, pn_history_lookup) alone ------------------------------------ *)
Definition tx_tables : Type := (list htx * list (hash * Z * addr))%type.
Definition tx_tables_of (s : db) : tx_tables := (htxs s, lookups s).
Definition keys_ok (p : tx_tables) : Prop :=
  NoDup (map htx_key (fst p)) /\ NoDup (snd p) /\ forall l, In l (snd p) -> In (fst l) (map htx_key (fst p)).
(* the order along which every storage operation moves the two tables *)
Definition keys_pres (p q : tx_tables) : Prop := keys_ok p -> keys_ok q.
Global Instance keys_pres_po : PreOrder keys_pres.
Proof. split; [intros p H; exact H|intros p q r H1 H2 H; apply H2, H1, H]. Qed.

(* (1) per storage operation *)
Lemma htx_has_false_key s hs i : htx_has s hs i = false -> ~ In (hs, i) (map htx_key (htxs s)).
Proof.
  intros Hnew Hin. apply in_map_iff in Hin as (t & Ht & Hin).
  unfold htx_has in Hnew. rewrite <- not_true_iff_false in Hnew. apply Hnew.
  apply existsb_exists. exists t. split; [exact Hin|]. unfold htx_key in Ht. injection Ht as -> ->. rewrite !Z.eqb_refl. reflexivity.
Qed.

Lemma keys_ok_insert_htx s r lk s' : insert_htx s r lk = Ok s' -> keys_ok (tx_tables_of s) -> keys_ok (tx_tables_of s').
Proof.
  unfold insert_htx. destruct (htx_has s (ht_hash r) (ht_index r)) eqn:Hnew; [discriminate|].
  intros H; injection H as <-. intros (K1 & K2 & K3). unfold keys_ok, tx_tables_of in *. cbn [fst snd htxs lookups set_htxs] in *.
  destruct (fold_add_lookup (ht_hash r) (ht_index r) lk (lookups s) K2) as [L1 L2].
  split; [|split; [exact L1|]].
  - rewrite map_app. cbn [map]. apply nodup_snoc; [exact K1|]. apply htx_has_false_key. exact Hnew.
  - intros l Hl. rewrite map_app. apply in_or_app. destruct (L2 l Hl) as [Hin|Hk].
    + left. exact (K3 l Hin).
    + right. left. rewrite Hk. reflexivity.
Qed.

Lemma htx_keys_upd s hs i (f : htx -> htx) :
  (forall r, htx_key (f r) = htx_key r) -> map htx_key (htxs (upd_htx s hs i f)) = map htx_key (htxs s).
Proof.
  intros Hf. unfold upd_htx. cbn [htxs set_htxs]. rewrite map_map. apply map_ext. intros r.
  destruct ((ht_hash r =? hs) && (ht_index r =? i)); [apply Hf|reflexivity].
Qed.
Lemma keys_ok_upd s hs i (f : htx -> htx) :
  (forall r, htx_key (f r) = htx_key r) -> keys_ok (tx_tables_of s) -> keys_ok (tx_tables_of (upd_htx s hs i f)).
Proof.
  intros Hf (K1 & K2 & K3). unfold keys_ok, tx_tables_of in *. cbn [fst snd] in *.
  rewrite (htx_keys_upd s hs i f Hf). unfold upd_htx at 1 2. cbn [lookups set_htxs]. auto.
Qed.
Lemma keys_ok_set_to_amount s hs i amt : keys_ok (tx_tables_of s) -> keys_ok (tx_tables_of (set_to_amount s hs i amt)).
Proof. unfold set_to_amount. apply keys_ok_upd. intros r. reflexivity. Qed.
Lemma keys_ok_set_peg_request_amounts s hs i amt o :
  keys_ok (tx_tables_of s) -> keys_ok (tx_tables_of (set_peg_request_amounts s hs i amt o)).
Proof. unfold set_peg_request_amounts. apply keys_ok_upd. intros r. reflexivity. Qed.

Section WithCfg.
Variable c : cfg.

(* (2)+(3) every writer, SyncBlock and the loop body: the preservation scheme of FrameLemmas.v with
   pi := the two tables and R := "keys_ok is kept" *)
Theorem step_block_keys_ok cm mem b s' mem' :
  step_block c cm mem b = Done (s', mem') -> keys_ok (tx_tables_of cm) -> keys_ok (tx_tables_of s').
Proof.
  intros H.
  refine (pr_step_block tx_tables_of keys_pres _ _ _ _ _ _ _ _ _ _ c _ _ (fun _ => True) _ _ cm mem b s' mem' I H);
    try (untouched; fail).
  - intros s hs i amt. exact (keys_ok_set_to_amount s hs i amt).
  - intros s hs i amt o. exact (keys_ok_set_peg_request_amounts s hs i amt o).
  - intros s r lk s0 Hi. exact (keys_ok_insert_htx s r lk s0 Hi).
Qed.

(* the same for the parts of a block, for use elsewhere *)
Lemma sync_block_keys_ok cm mem b s s' mem' :
  sync_block c cm mem b s = Done (s', mem') -> keys_ok (tx_tables_of s) -> keys_ok (tx_tables_of s').
Proof.
  intros H.
  refine (pr_sync_block tx_tables_of keys_pres _ _ _ _ _ _ _ _ _ _ c _ _ (fun _ => True) _ cm mem b s s' mem' I H);
    try (untouched; fail).
  - intros s0 hs i amt. exact (keys_ok_set_to_amount s0 hs i amt).
  - intros s0 hs i amt o. exact (keys_ok_set_peg_request_amounts s0 hs i amt o).
  - intros s0 r lk s1 Hi. exact (keys_ok_insert_htx s0 r lk s1 Hi).
Qed.
Lemma nullify_burn_keys_ok cm h ts s : keys_ok (tx_tables_of s) -> keys_ok (tx_tables_of (nullify_burn c cm h ts s)).
Proof.
  refine (pr_nullify_burn tx_tables_of keys_pres _ _ _ c cm h ts s); try (untouched; fail).
  intros s0 r lk s1 Hi. exact (keys_ok_insert_htx s0 r lk s1 Hi).
Qed.

(* ---- hist_wf_weak = keys_ok + the transaction-row half of hist_closed --------------------------------------------- *)
Lemma hist_wf_weak_of s : keys_ok (tx_tables_of s) -> hist_closed s -> hist_wf_weak s.
Proof.
  intros (K1 & K2 & K3) [C1 _]. constructor; [exact K1|exact K2|exact K3|].
  intros t Ht. apply (C1 (ht_hash t)). unfold htx_keys. apply in_map. exact Ht.
Qed.
Lemma hist_wf_weak_keys_ok s : hist_wf_weak s -> keys_ok (tx_tables_of s).
Proof. intros [W2 W3 W4 _]. split; [exact W2|split; [exact W3|exact W4]]. Qed.

(* one block: the weak form is kept (the holding half of hist_closed is needed for the foreign key, because a
   held batch is recorded by hash and its history rows are looked for by that hash) *)
Theorem step_block_hist_wf_weak cm mem b s' mem' :
  hist_closed cm -> hist_wf_weak cm -> step_block c cm mem b = Done (s', mem') -> hist_wf_weak s'.
Proof.
  intros Hc Hw H. apply hist_wf_weak_of.
  - eapply step_block_keys_ok; [exact H|apply hist_wf_weak_keys_ok; exact Hw].
  - eapply step_block_closed; eauto.
Qed.

Lemma keys_ok_genesis : keys_ok (tx_tables_of genesis).
Proof. split; [constructor|split; [constructor|intros l []]]. Qed.

(* (4) chains *)
Theorem replay_keys_ok bs s m : replay c genesis empty_cache bs = Done (s, m) -> keys_ok (tx_tables_of s).
Proof.
  apply (replay_inv c (fun s => keys_ok (tx_tables_of s))); [|apply keys_ok_genesis].
  intros cm mem b s' mem' Hk Hs. eapply step_block_keys_ok; eauto.
Qed.
End WithCfg.

Theorem replay_hist_wf_weak : forall c bs s m, replay c genesis empty_cache bs = Done (s, m) -> hist_wf_weak s.
Proof.
  intros c bs s m H. apply hist_wf_weak_of; [eapply replay_keys_ok; exact H|eapply replay_closed; exact H].
Qed.

Corollary replay_hist_wf : forall c bs s m,
  replay c genesis empty_cache bs = Done (s, m) -> NoDup (map hb_hash (hist s)) -> hist_wf s.
Proof.
  intros c bs s m H Hnd. apply hist_wf_iff_weak. split; [eapply replay_hist_wf_weak; exact H|exact Hnd].
Qed.

(* from any committed database that satisfies the invariants (e.g. after a restart) *)
Theorem replay_from_hist_wf_weak : forall c bs cm mem s m,
  hist_closed cm -> hist_wf_weak cm -> replay c cm mem bs = Done (s, m) -> hist_wf_weak s.
Proof.
  intros c bs cm mem s m Hc Hw H.
  assert (G : hist_closed s /\ hist_wf_weak s); [|exact (proj2 G)].
  refine (replay_inv c (fun x => hist_closed x /\ hist_wf_weak x) _ bs cm mem s m (conj Hc Hw) H).
  intros cm0 mem0 b s' mem' [Hc0 Hw0] Hs. split; [eapply step_block_closed; eauto|eapply step_block_hist_wf_weak; eauto].
Qed.

(* ---- the hypothesis of replay_hist_wf cannot be dropped: a REACHABLE state with two batch rows of one hash -----------
   ex_cfg; block 101: a factoid burn whose txid is mock_hash 499 (= 0x499, the mock id "%064d" of height 499 read as
   hex); block 500 = V20DevRewardsHeightActivation: NullifyBurnAddress (old era) writes one zero coinbase per ticker
   under the mock ids of heights 500, 499, 498, ... all at height 500.  UNIQUE(entry_hash, height) accepts the second
   batch row of 0x499 (other height), PRIMARY KEY(entry_hash, tx_index) accepts its row (index 1, the burn has index
   0), and had it refused it the error would have been swallowed with the batch row already written.  Both blocks
   succeed; the weak form holds (by the theorem), hist_wf does not, and the hash query returns every action of the
   hash twice. *)
Definition dup_chain : list block :=
  [ ex_block 101 None None [ex_burn (mock_hash 499) 100]; ex_block 500 None None [] ].
Definition dup_final : db :=
  match replay ex_cfg genesis empty_cache dup_chain with Done (s, _) => s | _ => genesis end.

Example reachable_duplicate_batch_hash :
  (exists m, replay ex_cfg genesis empty_cache dup_chain = Done (dup_final, m)) /\
  hist_wf_weak dup_final /\
  map (fun b => (hb_hash b, hb_height b)) (firstn 3 (hist dup_final)) = [(1177, 101); (1280, 500); (1177, 500)] /\
  ~ NoDup (map hb_hash (hist dup_final)) /\ ~ hist_wf dup_final /\
  query_all dup_final (ex_q (ByHash 1177) false) = [(1177, 0); (1177, 1); (1177, 0); (1177, 1)].
Proof.
  assert (E : exists m, replay ex_cfg genesis empty_cache dup_chain = Done (dup_final, m)).
  { assert (R : match replay ex_cfg genesis empty_cache dup_chain with Done _ => True | _ => False end) by (vm_compute; exact I).
    unfold dup_final. destruct (replay ex_cfg genesis empty_cache dup_chain) as [[s m]|?|?|?]; try contradiction.
    exists m. reflexivity. }
  assert (ND : ~ NoDup (map hb_hash (hist dup_final))).
  { intros Hnd.
    assert (Hs : exists l, map hb_hash (hist dup_final) = 1177 :: 1280 :: 1177 :: l) by (eexists; vm_compute; reflexivity).
    destruct Hs as [l Hl]. rewrite Hl in Hnd. inversion Hnd as [|x l0 Hn _]. apply Hn. right. left. reflexivity. }
  split; [exact E|]. split; [destruct E as [m E]; exact (replay_hist_wf_weak _ _ _ _ E)|].
  split; [vm_compute; reflexivity|]. split; [exact ND|]. split; [intros [W1 _ _ _ _]; exact (ND W1)|].
  vm_compute. reflexivity.
Qed.

Print Assumptions replay_hist_wf_weak.
Print Assumptions replay_hist_wf.
Print Assumptions replay_from_hist_wf_weak.
Print Assumptions step_block_hist_wf_weak.
Print Assumptions reachable_duplicate_batch_hash.
