(* Lemmas/RestartLemmas.v — C09: the rolling-average cache never changes what a block does.
   Whatever the in-memory cache holds (as long as it was produced by earlier calls on this chain,
   or is empty as after a restart), the block is applied identically. *)
From Model Require Import Obs.
From Lemmas Require Import DbLemmas LedgerLemmas BlockLemmas FrameLemmas ChainLemmas.
From Gen Require Import Consts.
From Coq Require Import Lia.
Open Scope Z_scope.

Lemma in_zrange k : forall n lo, In k (zrange lo n) -> lo <= k < lo + Z.of_nat n.
Proof.
  induction n as [|n IH]; intros lo H; cbn [zrange] in H; [contradiction|].
  destruct H as [<-|H]; [lia|]. apply IH in H. lia.
Qed.
Lemma window_heights_le P h k : In k (window_heights P h) -> k <= h.
Proof. unfold window_heights. intros H. apply in_zrange in H. lia. Qed.

Lemma omap_ext_in {X Y} (f g : X -> option Y) l : (forall x, In x l -> f x = g x) -> omap f l = omap g l.
Proof.
  induction l as [|x l IH]; intros H; cbn; [reflexivity|].
  rewrite (H x (or_introl eq_refl)). rewrite IH; [reflexivity|]. intros y Hy. apply H. right; exact Hy.
Qed.

(* the averages for height h only depend on the rate rows at heights <= h *)
Lemma compute_avgs_ext cm cm' P h :
  (forall k, k <= h -> rates cm' !! k = rates cm !! k) -> compute_avgs cm' P h = compute_avgs cm P h.
Proof.
  intros H. unfold compute_avgs.
  assert (E : forall t, samples cm' P h t = samples cm P h t).
  { intros t. unfold samples. apply omap_ext_in. intros k Hk. rewrite H; [reflexivity|]. eapply window_heights_le; exact Hk. }
  induction all_tickers as [|t l IH]; cbn [fold_right]; [reflexivity|]. rewrite IH, E. reflexivity.
Qed.

Lemma compute_avgs_0 cm P : compute_avgs cm P 0 = ∅.
Proof.
  unfold compute_avgs.
  assert (E : forall t, avg_of P (P / 2) (samples cm P 0 t) = 0).
  { intros t. unfold samples, window_heights.
    replace (Z.to_nat (0 - Z.max 1 (0 - P + 1) + 1)) with O by lia. cbn [zrange omap].
    unfold avg_of. destruct (_ <? _); reflexivity. }
  induction all_tickers as [|t l IH]; cbn [fold_right]; [reflexivity|]. rewrite IH, E. reflexivity.
Qed.

Lemma last_rated_below_lt s h : 0 < h -> 0 <= last_rated_below s h < h.
Proof.
  intros Hh. unfold last_rated_below.
  apply (map_fold_ind (fun r (_ : gmap Z (gmap ticker Z)) => 0 <= r < h)); [lia|].
  intros k x m r _ IH. destruct (Z.ltb_spec k h); cbn [andb]; [|exact IH].
  destruct (Z.ltb_spec r k); lia.
Qed.

Section WithCfg.
Variable c : cfg.
Notation P := (c_AveragePeriod c).

(* a cache that earlier calls on this chain may have left behind: its averages are those of its
   height, and that height is below every block still to come *)
Definition cache_ok (cm : db) (mem : avgcache) (hnext : Z) : Prop :=
  ac_avgs mem = compute_avgs cm P (ac_height mem) /\ ac_height mem < hnext.

Lemma empty_cache_ok cm hnext : 0 < hnext -> cache_ok cm empty_cache hnext.
Proof. intros H. split; cbn [ac_avgs ac_height empty_cache]; [symmetry; apply compute_avgs_0|exact H]. Qed.

Lemma get_averages_ok cm mem hn hq :
  cache_ok cm mem hn -> fst (get_averages cm P mem hq) = compute_avgs cm P hq.
Proof.
  intros [Ha _]. unfold get_averages. destruct (Z.eqb_spec (ac_height mem) hq) as [<-|]; cbn [fst]; [exact Ha|reflexivity].
Qed.

Lemma get_averages_cache cm mem hq :
  snd (get_averages cm P mem hq) = mem \/ snd (get_averages cm P mem hq) = {| ac_height := hq; ac_avgs := compute_avgs cm P hq |}.
Proof. unfold get_averages. destruct (_ =? hq); cbn [snd]; auto. Qed.

Ltac done_step H x Hx := apply obind_done in H as (x & Hx & H).

(* what a block can do to the cache: leave it, or replace it by the averages of a height below
   the block's *)
Lemma sync_block_cache cm mem b s s' mem' :
  0 < b_height b -> sync_block c cm mem b s = Done (s', mem') ->
  mem' = mem \/ exists h0, h0 < b_height b /\ mem' = {| ac_height := h0; ac_avgs := compute_avgs cm P h0 |}.
Proof.
  intros Hh H. unfold sync_block in H. cbv zeta in H.
  done_step H s1 H1. done_step H s2 H2. done_step H graded Hg. done_step H gradedS HgS.
  done_step H st Hst. destruct st as [[s3 is_rates] ended].
  destruct ended; [inversion H; auto|].
  done_step H st2 Hst2. destruct st2 as [s4 mem4].
  done_step H s5 H5. done_step H s6 H6. done_step H s7 H7. done_step H s8 H8. inversion H; subst. clear H.
  destruct (c_TransactionConversionActivation c <=? _); [|inversion Hst2; auto].
  done_step Hst2 st Hs. destruct st as [s9 rates1].
  done_step Hst2 st Hs2. destruct st as [s10 mem10].
  done_step Hst2 s11 H11. inversion Hst2; subst. clear Hst2.
  destruct is_rates; [|inversion Hs2; auto].
  done_step Hs2 s12 H12.
  destruct (get_averages cm P mem (last_rated_below s12 (b_height b))) as [avgs mem''] eqn:Eg.
  done_step Hs2 s13 H13. inversion Hs2; subst.
  pose proof (get_averages_cache cm mem (last_rated_below s12 (b_height b))) as G. rewrite Eg in G. cbn [snd] in G.
  destruct G as [->| ->]; [auto|]. right. eexists; split; [|reflexivity].
  apply last_rated_below_lt; exact Hh.
Qed.

(* both sides are the same program except for the cache: walk through it in lockstep *)
Ltac lockstep :=
    repeat first
      [ reflexivity
      | match goal with |- context [let '(_, _) := ?p in _] => is_var p; destruct p end
      | match goal with |- odb (obind ?x _) = odb (obind ?x _) => destruct x; cbn [obind odb] end
      | match goal with |- odb (obind (obind ?x _) _) = odb (obind (obind ?x _) _) => destruct x; cbn [obind odb] end
      | match goal with |- odb (obind (obind (obind ?x _) _) _) = odb (obind (obind (obind ?x _) _) _) => destruct x; cbn [obind odb] end
      | match goal with |- odb (if ?b then _ else _) = odb (if ?b then _ else _) => destruct b; cbn [obind odb] end
      | match goal with |- odb (obind (if ?b then _ else _) _) = odb (obind (if ?b then _ else _) _) => destruct b; cbn [obind odb] end
      | match goal with |- odb (obind (obind (if ?b then _ else _) _) _) = odb (obind (obind (if ?b then _ else _) _) _) => destruct b; cbn [obind odb] end ].

(* the database a block produces does not depend on the cache, as long as the cache is sound *)
Lemma sync_block_mem_irrelevant cm mem1 mem2 hn b s :
  cache_ok cm mem1 hn -> cache_ok cm mem2 hn ->
  odb (sync_block c cm mem1 b s) = odb (sync_block c cm mem2 b s).
Proof.
  intros C1 C2. unfold sync_block. cbv zeta.
  lockstep.
  (* the one place where the cache is consulted *)
  match goal with |- context [get_averages cm P mem1 ?hq] =>
         pose proof (get_averages_ok cm mem1 hn hq C1) as G1;
         pose proof (get_averages_ok cm mem2 hn hq C2) as G2;
         destruct (get_averages cm P mem1 hq) as [av1 mm1];
         destruct (get_averages cm P mem2 hq) as [av2 mm2];
         cbn [fst] in G1, G2; subst av1 av2 end.
  lockstep.
Qed.

Lemma step_block_mem_irrelevant cm mem1 mem2 hn b :
  cache_ok cm mem1 hn -> cache_ok cm mem2 hn -> odb (step_block c cm mem1 b) = odb (step_block c cm mem2 b).
Proof.
  intros C1 C2. unfold step_block. cbv zeta.
  match goal with |- odb (obind (sync_block c cm mem1 b ?s) _) = _ =>
    pose proof (sync_block_mem_irrelevant cm mem1 mem2 hn b s C1 C2) as E;
    destruct (sync_block c cm mem1 b s) as [[s1 m1]| | |]; destruct (sync_block c cm mem2 b s) as [[s2 m2]| | |];
    cbn [odb fst] in E; try discriminate; inversion E; subst; cbn [obind odb]; try reflexivity end.
  destruct (of_res (insert_synced s2 (b_height b))); reflexivity.
Qed.

Lemma step_block_cache_ok cm mem hn b s' mem' :
  cache_ok cm mem hn -> hn <= b_height b -> 0 < b_height b ->
  step_block c cm mem b = Done (s', mem') -> cache_ok s' mem' (b_height b + 1).
Proof.
  intros [Ca Ch] Hle Hpos H.
  assert (Hext : forall hc, hc < b_height b -> compute_avgs s' P hc = compute_avgs cm P hc).
  { intros hc Hc. apply compute_avgs_ext. intros k Hk.
    eapply step_block_rates_only_own_height; [|exact H]. lia. }
  pose proof H as H0. unfold step_block in H0. cbv zeta in H0.
  apply obind_done in H0 as ([s1 m1] & Hr & H0). apply obind_done in H0 as (s2 & H2 & H0). inversion H0; subst.
  apply sync_block_cache in Hr; [|exact Hpos]. destruct Hr as [->|(h0 & Hh0 & ->)].
  - split; [rewrite Hext by lia; exact Ca|lia].
  - split; cbn [ac_avgs ac_height]; [rewrite Hext by lia; reflexivity|lia].
Qed.

Fixpoint heights_from (hn : Z) (bs : list block) : Prop :=
  match bs with [] => True | b :: bs' => hn <= b_height b /\ heights_from (b_height b + 1) bs' end.

(* C09: however often and wherever the daemon is restarted (the cache dropped), the chain is
   replayed to the same database; pricing never depends on memory accumulated since start *)
Theorem restart_independent : forall bs hn cm mem1 mem2 R1 R2,
  0 < hn -> cache_ok cm mem1 hn -> cache_ok cm mem2 hn -> heights_from hn bs ->
  run_chain_restarts c R1 cm mem1 bs = run_chain_restarts c R2 cm mem2 bs.
Proof.
  induction bs as [|b bs IH]; intros hn cm mem1 mem2 R1 R2 Hpos C1 C2 Hh; cbn [run_chain_restarts]; [reflexivity|].
  destruct Hh as [Hle Hrest].
  set (m1 := if existsb (Z.eqb (b_height b)) R1 then empty_cache else mem1).
  set (m2 := if existsb (Z.eqb (b_height b)) R2 then empty_cache else mem2).
  assert (C1' : cache_ok cm m1 hn) by (unfold m1; destruct (existsb _ R1); [apply empty_cache_ok; exact Hpos|exact C1]).
  assert (C2' : cache_ok cm m2 hn) by (unfold m2; destruct (existsb _ R2); [apply empty_cache_ok; exact Hpos|exact C2]).
  pose proof (step_block_mem_irrelevant cm m1 m2 hn b C1' C2') as E.
  destruct (step_block c cm m1 b) as [[s1 n1]| | |] eqn:E1; destruct (step_block c cm m2 b) as [[s2 n2]| | |] eqn:E2;
    cbn [odb fst] in E; try discriminate; inversion E; subst; try reflexivity.
  apply (IH (b_height b + 1)); [lia| | |exact Hrest].
  - eapply step_block_cache_ok; [exact C1'|exact Hle|lia|exact E1].
  - eapply step_block_cache_ok; [exact C2'|exact Hle|lia|exact E2].
Qed.

Corollary restarts_do_not_matter bs hn cm R :
  0 < hn -> heights_from hn bs ->
  run_chain_restarts c R cm empty_cache bs = run_chain_restarts c [] cm empty_cache bs.
Proof. intros Hpos Hh. apply (restart_independent bs hn); auto using empty_cache_ok. Qed.
End WithCfg.
