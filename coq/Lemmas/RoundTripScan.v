(* Lemmas/RoundTripScan.v — replaying the scanners: whatever scan_string / scan_number cut off the
   front of an input is cut off again, unchanged, from the front of any other input in which it is
   followed by a closing quote / by a byte that cannot continue a number.  Nothing is assumed. *)
From Coq Require Import ZArith List Bool Lia ZifyBool.
From Model Require Import Codec Db.
From Lemmas Require Import CodecLemmas.
Import ListNotations.
Open Scope list_scope.
Open Scope Z_scope.

(* ---- strings ------------------------------------------------------------------------ *)
Lemma scan_string_replay_n : forall n s, (length s <= n)%nat -> forall b rest,
  scan_string s = Some (b, rest) ->
  s = b ++ 34 :: rest /\ forall rest', scan_string (b ++ 34 :: rest') = Some (b, rest').
Proof.
  induction n as [|n IH]; intros s Hn b rest.
  - destruct s; [discriminate|cbn in Hn; lia].
  - destruct s as [|c r]; [discriminate|]. cbn [length] in Hn. cbn [scan_string].
    destruct (c =? 34) eqn:E34.
    { intros [= <- <-]. apply Z.eqb_eq in E34. subst c. split; [reflexivity|]. intros rest'. reflexivity. }
    destruct (c =? 92) eqn:E92.
    + destruct r as [|e r1]; [discriminate|]. cbn [length] in Hn.
      destruct (is_simple_escape e) eqn:Ese.
      * destruct (scan_string r1) as [[b' rest0]|] eqn:S1; [|discriminate]. intros [= <- <-].
        destruct (IH r1 ltac:(lia) _ _ S1) as [Es Rp]. split; [cbn [app]; rewrite Es at 1; reflexivity|].
        intros rest'. cbn [app scan_string]. rewrite E34, E92, Ese, (Rp rest'). reflexivity.
      * destruct (e =? 117) eqn:E117; [|discriminate].
        destruct r1 as [|h1 [|h2 [|h3 [|h4 r2]]]]; try discriminate. cbn [length] in Hn.
        destruct (is_hex h1 && is_hex h2 && is_hex h3 && is_hex h4) eqn:X; [|discriminate].
        destruct (scan_string r2) as [[b' rest0]|] eqn:S2; [|discriminate]. intros [= <- <-].
        destruct (IH r2 ltac:(lia) _ _ S2) as [Es Rp]. split; [cbn [app]; rewrite Es at 1; reflexivity|].
        intros rest'. cbn [app scan_string]. rewrite E34, E92, Ese, E117, X, (Rp rest'). reflexivity.
    + destruct (c <? 32) eqn:E32; [discriminate|].
      destruct (scan_string r) as [[b' rest0]|] eqn:S1; [|discriminate]. intros [= <- <-].
      destruct (IH r ltac:(lia) _ _ S1) as [Es Rp]. split; [cbn [app]; rewrite Es at 1; reflexivity|].
      intros rest'. cbn [app scan_string]. rewrite E34, E92, E32, (Rp rest'). reflexivity.
Qed.

Lemma scan_string_replay s b rest : scan_string s = Some (b, rest) ->
  s = b ++ 34 :: rest /\ forall rest', scan_string (b ++ 34 :: rest') = Some (b, rest').
Proof. apply (scan_string_replay_n (length s)). lia. Qed.

(* ---- digits -------------------------------------------------------------------------- *)
Definition nd (rest : bytes) : bool := match rest with [] => true | c :: _ => negb (is_digit c) end.
Definition nodot (rest : bytes) : bool := match rest with [] => true | c :: _ => negb (c =? 46) end.
Definition noexp (rest : bytes) : bool :=
  match rest with [] => true | c :: _ => negb ((c =? 101) || (c =? 69)) end.

Lemma span_digits_nd d : all_digits d = true -> forall rest, nd rest = true ->
  span_digits (d ++ rest) = (d, rest).
Proof.
  induction d as [|c d IH]; intros D rest S.
  - cbn [app]. destruct rest as [|x r]; [reflexivity|]. cbn [span_digits]. cbn [nd] in S.
    destruct (is_digit x); [discriminate|reflexivity].
  - unfold all_digits in D. cbn [forallb] in D. apply andb_true_iff in D as [Dc Dd].
    cbn [app span_digits]. rewrite Dc. rewrite (IH Dd rest S). reflexivity.
Qed.

Lemma span_digits_split s : forall d rest, span_digits s = (d, rest) -> s = d ++ rest /\ all_digits d = true.
Proof.
  induction s as [|c r IH]; intros d rest; cbn [span_digits]; [intros [= <- <-]; split; reflexivity|].
  destruct (is_digit c) eqn:D; [|intros [= <- <-]; split; reflexivity].
  destruct (span_digits r) as [d' rest'] eqn:S. intros [= <- <-].
  destruct (IH d' rest' eq_refl) as [E A]. split; [cbn [app]; rewrite E at 1; reflexivity|].
  unfold all_digits. cbn [forallb]. rewrite D. exact A.
Qed.

(* ---- the three parts of an unsigned number --------------------------------------------- *)
Definition int_shape (i : bytes) : Prop :=
  i = [48] \/ exists c d, i = c :: d /\ is_digit19 c = true /\ all_digits d = true.
Definition frac_shape (f : bytes) : Prop :=
  f = [] \/ exists c d, f = 46 :: c :: d /\ all_digits (c :: d) = true.
Definition exp_shape (e : bytes) : Prop :=
  e = [] \/ exists x sg c d, e = x :: sg ++ c :: d /\ ((x =? 101) || (x =? 69)) = true /\
                             (sg = [] \/ sg = [43] \/ sg = [45]) /\ all_digits (c :: d) = true.

Lemma scan_int_inv s i r : scan_int s = Some (i, r) -> s = i ++ r /\ int_shape i.
Proof.
  unfold scan_int. destruct s as [|c s']; [discriminate|].
  destruct (Z.eqb_spec c 48) as [->|N]; [intros [= <- <-]; split; [reflexivity|left; reflexivity]|].
  destruct (is_digit19 c) eqn:D; [|discriminate].
  destruct (span_digits s') as [d rest] eqn:S. intros [= <- <-].
  destruct (span_digits_split _ _ _ S) as [E A]. split; [cbn [app]; rewrite E at 1; reflexivity|].
  right. exists c, d. repeat split; assumption.
Qed.

Lemma scan_int_replay i X : int_shape i -> nd X = true -> scan_int (i ++ X) = Some (i, X).
Proof.
  intros [->|(c & d & -> & D & A)] N; [reflexivity|].
  cbn [app scan_int]. unfold is_digit19 in D. destruct (Z.eqb_spec c 48); [lia|].
  unfold is_digit19. destruct ((49 <=? c) && (c <=? 57)) eqn:E; [|lia].
  rewrite (span_digits_nd d A X N). reflexivity.
Qed.

Lemma scan_frac_inv s f r : scan_frac s = Some (f, r) -> s = f ++ r /\ frac_shape f.
Proof.
  unfold scan_frac. destruct s as [|c s']; [intros [= <- <-]; split; [reflexivity|left; reflexivity]|].
  destruct (Z.eqb_spec c 46) as [->|N]; [|intros [= <- <-]; split; [reflexivity|left; reflexivity]].
  destruct (span_digits s') as [[|d0 d] rest] eqn:S; [discriminate|]. intros [= <- <-].
  destruct (span_digits_split _ _ _ S) as [E A]. split; [cbn [app]; rewrite E at 1; reflexivity|].
  right. exists d0, d. split; [reflexivity|exact A].
Qed.

Lemma scan_frac_replay f X : frac_shape f -> nd X = true -> (f = [] -> nodot X = true) ->
  scan_frac (f ++ X) = Some (f, X).
Proof.
  intros [->|(c & d & -> & A)] N Hd.
  - specialize (Hd eq_refl). cbn [app]. destruct X as [|x X']; [reflexivity|]. cbn [nodot] in Hd.
    cbn [scan_frac]. destruct (x =? 46); [discriminate|reflexivity].
  - change ((46 :: c :: d) ++ X) with (46 :: (c :: d) ++ X). cbn [scan_frac Z.eqb Pos.eqb].
    rewrite (span_digits_nd (c :: d) A X N). reflexivity.
Qed.

Lemma scan_exp_inv s e r : scan_exp s = Some (e, r) -> s = e ++ r /\ exp_shape e.
Proof.
  unfold scan_exp. destruct s as [|x s']; [intros [= <- <-]; split; [reflexivity|left; reflexivity]|].
  destruct ((x =? 101) || (x =? 69)) eqn:Ex; [|intros [= <- <-]; split; [reflexivity|left; reflexivity]].
  set (sp := match s' with g :: r' => if (g =? 43) || (g =? 45) then ([g], r') else ([], s') | [] => ([], s') end).
  assert (Hsp : s' = fst sp ++ snd sp /\ (fst sp = [] \/ fst sp = [43] \/ fst sp = [45])).
  { unfold sp. destruct s' as [|g r']; [split; [reflexivity|left; reflexivity]|].
    destruct (Z.eqb_spec g 43) as [->|N43]; [split; [reflexivity|right; left; reflexivity]|].
    destruct (Z.eqb_spec g 45) as [->|N45]; [split; [reflexivity|right; right; reflexivity]|].
    split; [reflexivity|left; reflexivity]. }
  destruct sp as [sg r1]. cbn [fst snd] in Hsp. destruct Hsp as [Es Hsg].
  destruct (span_digits r1) as [[|d0 d] rest] eqn:S; [discriminate|]. intros [= <- <-].
  destruct (span_digits_split _ _ _ S) as [E A]. split.
  - cbn [app]. rewrite Es, E. rewrite <- app_assoc. reflexivity.
  - right. exists x, sg, d0, d. repeat split; assumption.
Qed.

Lemma all_digits_head c d : all_digits (c :: d) = true -> is_digit c = true.
Proof. unfold all_digits. cbn [forallb]. intros H. apply andb_true_iff in H as [H _]. exact H. Qed.

Lemma scan_exp_replay e X : exp_shape e -> nd X = true -> (e = [] -> noexp X = true) ->
  scan_exp (e ++ X) = Some (e, X).
Proof.
  intros [->|(x & sg & c & d & -> & Ex & Hsg & A)] N He.
  - specialize (He eq_refl). cbn [app]. destruct X as [|y X']; [reflexivity|]. cbn [noexp] in He.
    cbn [scan_exp]. destruct ((y =? 101) || (y =? 69)); [discriminate|reflexivity].
  - change ((x :: sg ++ c :: d) ++ X) with (x :: (sg ++ c :: d) ++ X). cbn [scan_exp]. rewrite Ex.
    rewrite <- app_assoc. pose proof (all_digits_head c d A) as Dc. unfold is_digit in Dc.
    destruct Hsg as [->|[->| ->]]; cbn [app].
    + destruct (Z.eqb_spec c 43); [lia|]. destruct (Z.eqb_spec c 45); [lia|]. cbn [orb].
      change (c :: d ++ X) with ((c :: d) ++ X). rewrite (span_digits_nd (c :: d) A X N). reflexivity.
    + cbn [Z.eqb Pos.eqb orb]. change (c :: d ++ X) with ((c :: d) ++ X).
      rewrite (span_digits_nd (c :: d) A X N). reflexivity.
    + cbn [Z.eqb Pos.eqb orb]. change (c :: d ++ X) with ((c :: d) ++ X).
      rewrite (span_digits_nd (c :: d) A X N). reflexivity.
Qed.

(* ---- unsigned numbers -------------------------------------------------------------------- *)
Definition scan_uns (s1 : bytes) : option (bytes * bytes) :=
  match scan_int s1 with
  | None => None
  | Some (i, s2) =>
    match scan_frac s2 with
    | None => None
    | Some (f, s3) =>
      match scan_exp s3 with
      | None => None
      | Some (e, s4) => Some (i ++ f ++ e, s4)
      end
    end
  end.

(* what may follow a number literal without being swallowed by it *)
Definition stop (rest : bytes) : bool :=
  match rest with
  | [] => true
  | c :: _ => negb (is_digit c || (c =? 46) || (c =? 101) || (c =? 69))
  end.

Lemma stop_parts rest : stop rest = true -> nd rest = true /\ nodot rest = true /\ noexp rest = true.
Proof.
  destruct rest as [|c r]; [repeat split|]. cbn [stop nd nodot noexp]. intros H.
  destruct (is_digit c); [discriminate|]. destruct (c =? 46); [discriminate|].
  destruct (c =? 101); [discriminate|]. destruct (c =? 69); [discriminate|]. repeat split.
Qed.

Lemma nd_app_nonempty a X : nd (a ++ X) = match a with [] => nd X | c :: _ => negb (is_digit c) end.
Proof. destruct a; reflexivity. Qed.

Lemma scan_uns_replay s u rest : scan_uns s = Some (u, rest) ->
  s = u ++ rest /\ (exists c t, u = c :: t /\ is_digit c = true) /\
  forall rest', stop rest' = true -> scan_uns (u ++ rest') = Some (u, rest').
Proof.
  unfold scan_uns.
  destruct (scan_int s) as [[i s2]|] eqn:Si; [|discriminate].
  destruct (scan_frac s2) as [[f s3]|] eqn:Sf; [|discriminate].
  destruct (scan_exp s3) as [[e s4]|] eqn:Se; [|discriminate]. intros [= <- <-].
  destruct (scan_int_inv _ _ _ Si) as [E1 Hi].
  destruct (scan_frac_inv _ _ _ Sf) as [E2 Hf].
  destruct (scan_exp_inv _ _ _ Se) as [E3 He].
  split; [rewrite E1, E2, E3, <- !app_assoc; reflexivity|]. split.
  { destruct Hi as [->|(c & d & -> & D & _)].
    - exists 48, (f ++ e). split; reflexivity.
    - exists c, (d ++ f ++ e). split; [reflexivity|]. unfold is_digit19 in D. unfold is_digit. lia. }
  intros rest' St. destruct (stop_parts rest' St) as (Nd & Ndot & Nexp).
  (* heads of the tails *)
  assert (Ne : nd (e ++ rest') = true).
  { destruct He as [->|(x & sg & c & d & -> & Ex & _)]; [exact Nd|]. cbn [app nd]. unfold is_digit. lia. }
  assert (Nf : nd (f ++ e ++ rest') = true).
  { destruct Hf as [->|(c & d & -> & _)]; [exact Ne|]. reflexivity. }
  assert (Dote : nodot (e ++ rest') = true).
  { destruct He as [->|(x & sg & c & d & -> & Ex & _)]; [exact Ndot|]. cbn [app nodot]. lia. }
  rewrite <- !app_assoc.
  rewrite (scan_int_replay i _ Hi Nf).
  rewrite (scan_frac_replay f _ Hf Ne (fun _ => Dote)).
  rewrite (scan_exp_replay e _ He Nd (fun _ => Nexp)). reflexivity.
Qed.

(* ---- numbers ---------------------------------------------------------------------------- *)
Lemma scan_number_uns s : scan_number s =
  match s with
  | c :: r => if c =? 45 then match scan_uns r with Some (u, r') => Some (45 :: u, r') | None => None end
              else scan_uns s
  | [] => None
  end.
Proof.
  unfold scan_number, scan_uns. destruct s as [|c r]; [reflexivity|].
  destruct (Z.eqb_spec c 45) as [->|N].
  - destruct (scan_int r) as [[i s2]|]; [|reflexivity].
    destruct (scan_frac s2) as [[f s3]|]; [|reflexivity].
    destruct (scan_exp s3) as [[e s4]|]; reflexivity.
  - destruct (scan_int (c :: r)) as [[i s2]|]; [|reflexivity].
    destruct (scan_frac s2) as [[f s3]|]; [|reflexivity].
    destruct (scan_exp s3) as [[e s4]|]; reflexivity.
Qed.

Theorem scan_number_replay s n rest : scan_number s = Some (n, rest) ->
  s = n ++ rest /\ (exists c t, n = c :: t /\ ((c =? 45) || is_digit c) = true) /\
  forall rest', stop rest' = true -> scan_number (n ++ rest') = Some (n, rest').
Proof.
  rewrite scan_number_uns. destruct s as [|c r]; [discriminate|].
  destruct (Z.eqb_spec c 45) as [->|N].
  - destruct (scan_uns r) as [[u r']|] eqn:Su; [|discriminate]. intros [= <- <-].
    destruct (scan_uns_replay _ _ _ Su) as (E & _ & Rp). split; [cbn [app]; rewrite E at 1; reflexivity|].
    split; [exists 45, u; split; reflexivity|].
    intros rest' St. rewrite scan_number_uns. cbn [app Z.eqb Pos.eqb]. rewrite (Rp rest' St). reflexivity.
  - intros Su. destruct (scan_uns_replay _ _ _ Su) as (E & (c' & t & -> & Dc) & Rp). split; [exact E|].
    split; [exists c', t; split; [reflexivity|rewrite Dc; apply orb_true_r]|].
    intros rest' St. rewrite scan_number_uns. cbn [app].
    unfold is_digit in Dc. destruct (Z.eqb_spec c' 45); [lia|]. exact (Rp rest' St).
Qed.
