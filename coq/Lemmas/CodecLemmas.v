(* Lemmas/CodecLemmas.v — proofs about Model/Json.v and Model/Codec.v (C20 JSON part). *)
From Coq Require Import ZArith List Bool Lia.
From Model Require Import Codec Db.
From Gen Require Import Consts.
Import ListNotations.
Open Scope list_scope.
Open Scope Z_scope.

(* ---- byte strings ---------------------------------------------------------- *)
Lemma beq_true_eq a : forall b, beq a b = true -> a = b.
Proof.
  induction a as [|x a IH]; intros [|y b] H; cbn [beq] in H; try discriminate; [reflexivity|].
  apply andb_true_iff in H as [H1 H2]. apply Z.eqb_eq in H1. subst. f_equal. apply IH; exact H2.
Qed.
Lemma beq_refl a : beq a a = true.
Proof. induction a as [|x a IH]; cbn [beq]; [reflexivity|]. rewrite Z.eqb_refl, IH. reflexivity. Qed.
Lemma beq_false_neq a b : beq a b = false -> a <> b.
Proof. intros H E. subst. rewrite beq_refl in H. discriminate. Qed.

(* ---- Transaction.Validate / ValidData --------------------------------------- *)
Definition sum_transfers (trs : list transfer) : Z := fold_right (fun tr acc => tr_amt tr + acc) 0 trs.

Lemma remaining_after_sum trs : forall rem r,
  remaining_after rem trs = Some r -> r = rem - sum_transfers trs.
Proof.
  induction trs as [|tr trs IH]; intros rem r H; cbn [remaining_after sum_transfers fold_right] in *.
  - injection H as <-. lia.
  - destruct (rem <? tr_amt tr); [discriminate|]. apply IH in H. fold (sum_transfers trs) in *. lia.
Qed.

Lemma remaining_after_each_le trs : forall rem r,
  remaining_after rem trs = Some r -> Forall (fun tr => 0 <= tr_amt tr) trs ->
  Forall (fun tr => tr_amt tr <= rem) trs.
Proof.
  induction trs as [|tr trs IH]; intros rem r H Hpos; [constructor|].
  cbn [remaining_after] in H. destruct (Z.ltb_spec rem (tr_amt tr)); [discriminate|].
  inversion Hpos as [|? ? Hp Hps]; subst. constructor; [assumption|].
  specialize (IH (rem - tr_amt tr) r H Hps).
  eapply Forall_impl; [|exact IH]. cbn. intros. lia.
Qed.

(* what Validate establishes for one transaction *)
Theorem tx_validate_spec t : tx_validate t = true ->
  tx_addr t <> Fat2CoinbaseAddress /\
  0 < tx_type t < PTickerMax /\
  ( (tx_transfers t <> [] /\ tx_conv t <= 0 /\ sum_transfers (tx_transfers t) = tx_amt t)
    \/ (tx_transfers t = [] /\ tx_conv t <> 0 /\ tx_conv t <> tx_type t /\
        (0 < tx_conv t < PTickerMax \/ tx_amt t = 0)) ).
Proof.
  unfold tx_validate, is_conversion.
  destruct (Z.eqb_spec (tx_addr t) Fat2CoinbaseAddress) as [|Hcb]; [discriminate|].
  destruct ((tx_addr t =? 0) && (tx_amt t =? 0) && (tx_type t =? 0)); [discriminate|].
  destruct (Z.leb_spec (tx_type t) 0) as [|Hty0]; cbn [orb]; [discriminate|].
  destruct (Z.leb_spec PTickerMax (tx_type t)) as [|Hty1]; [discriminate|].
  destruct (tx_transfers t) as [|tr trs] eqn:Htr.
  - destruct (Z.eqb_spec (tx_conv t) 0) as [|Hc0]; [discriminate|].
    cbn [remaining_after].
    destruct (Z.ltb_spec 0 (tx_conv t)) as [Hc1|Hc1]; cbn [andb].
    + destruct (Z.ltb_spec (tx_conv t) PTickerMax) as [Hc2|Hc2]; cbn [negb andb].
      * destruct (Z.eqb_spec (tx_type t) (tx_conv t)) as [|Hne]; [discriminate|].
        intros _. repeat split; try lia. right. repeat split; try lia; auto.
      * destruct (Z.eqb_spec (tx_amt t) 0) as [Ha|Ha]; cbn [negb]; [|discriminate].
        intros _. repeat split; try lia. right. repeat split; try lia. 
    + cbn [negb andb]. destruct (Z.eqb_spec (tx_amt t) 0) as [Ha|Ha]; cbn [negb]; [|discriminate].
      intros _. repeat split; try lia. right. repeat split; try lia.
  - destruct (Z.ltb_spec 0 (tx_conv t)) as [|Hc]; [discriminate|].
    destruct (remaining_after (tx_amt t) (tr :: trs)) as [rem|] eqn:Hrem; [|discriminate].
    cbn [negb andb]. destruct (Z.eqb_spec rem 0) as [Hr|Hr]; cbn [negb]; [|discriminate].
    intros _. apply remaining_after_sum in Hrem. repeat split; try lia.
    left. repeat split; try lia. discriminate.
Qed.

Theorem valid_data_spec b : valid_data b = true ->
  b_version b = 1 /\ b_txs b <> [] /\
  Forall (fun t => tx_validate t = true) (b_txs b) /\
  exists a, Forall (fun t => tx_addr t = a) (b_txs b).
Proof.
  unfold valid_data. intros H. apply andb_true_iff in H as [Hv H]. apply Z.eqb_eq in Hv.
  destruct (b_txs b) as [|t0 txs] eqn:E; [discriminate|].
  apply andb_true_iff in H as [H1 H2].
  split; [exact Hv|]. split; [discriminate|]. split.
  - apply Forall_forall. intros t Ht. rewrite forallb_forall in H1. apply H1. exact Ht.
  - exists (tx_addr t0). apply Forall_forall. intros t Ht. rewrite forallb_forall in H2.
    apply Z.eqb_eq. apply H2. exact Ht.
Qed.

Theorem inputs_within_int64_spec b : inputs_within_int64 b = true ->
  Forall (fun t => tx_amt t <= max_int64) (b_txs b).
Proof.
  unfold inputs_within_int64. intros H. apply Forall_forall. intros t Ht.
  rewrite forallb_forall in H. apply Z.leb_le. apply H. exact Ht.
Qed.

Theorem validate_peg_tx_spec b : validate_peg_tx b = true ->
  valid_data b = true /\ Forall (fun t => tx_conv t <> PTickerPEG) (b_txs b).
Proof.
  unfold validate_peg_tx. intros H. apply andb_true_iff in H as [H1 H2]. split; [exact H1|].
  apply Forall_forall. intros t Ht. rewrite forallb_forall in H2. specialize (H2 t Ht).
  apply negb_true_iff in H2. apply Z.eqb_neq. exact H2.
Qed.

(* ---- unquoting never lengthens; equal length means no escapes --------------- *)
Definition urel (cp b : Z) : Prop := (cp = b /\ b < 128) \/ cp = 65533.

Ltac uq_short IH Hn r :=
  cbn [length] in *; destruct (IH r) as [?L _]; [cbn [length] in Hn; lia|]; split; [lia|intros; lia].
Ltac uq_tail IH Hn r :=
  cbn [length] in *; destruct (IH r) as [?L ?F]; [cbn [length] in Hn; cbn [length]; lia|];
  cbn [length] in *;
  split; [lia|]; intros ?H; constructor; [right; reflexivity|apply F; lia].

Lemma unquote_shape_n : forall n s, (length s <= n)%nat ->
  (length (unquote s) <= length s)%nat /\
  (length (unquote s) = length s -> Forall2 urel (unquote s) s).
Proof.
  induction n as [|n IH]; intros s Hn.
  - destruct s; [|cbn in Hn; lia]. cbn. split; [lia|constructor].
  - destruct s as [|c r]; [cbn; split; [lia|constructor]|].
    cbn [unquote].
    destruct (c =? 92) eqn:E92.
    + destruct r as [|e r1]; [cbn; split; [lia|intros; lia]|].
      cbv beta iota.
      destruct (e =? 117).
      * destruct r1 as [|h1 [|h2 [|h3 [|h4 r2]]]]; cbv beta iota;
          try (cbn [length]; split; [lia|intros; lia]).
        uq_short IH Hn r2.
      * uq_short IH Hn r1.
    + destruct (c <? 128) eqn:E128.
      * cbn [length] in *. destruct (IH r) as [L F]; [lia|]. split; [lia|]. intros H.
        constructor; [left; split; [reflexivity|apply Z.ltb_lt; exact E128]|apply F; lia].
      * destruct r as [|c2 r1];
          [cbn; split; [lia|intros _; constructor; [right; reflexivity|constructor]]|].
        cbv beta iota.
        destruct ((c =? 197) && (c2 =? 191)); [uq_short IH Hn r1|].
        destruct ((c =? 226) && (c2 =? 132)); [|uq_tail IH Hn (c2 :: r1)].
        destruct r1 as [|c3 r2]; cbv beta iota; [uq_tail IH Hn [c2]|].
        destruct (c3 =? 170); [uq_short IH Hn r2|uq_tail IH Hn (c2 :: c3 :: r2)].
Qed.

Lemma unquote_shape s :
  (length (unquote s) <= length s)%nat /\
  (length (unquote s) = length s -> Forall2 urel (unquote s) s).
Proof. apply (unquote_shape_n (length s)). lia. Qed.

(* a field name of the structs in scope: lower-case ASCII letters only *)
Definition plain_name (n : bytes) : Prop := Forall (fun c => 97 <= c <= 122) n.

Lemma fold_cp_lower_ascii b : b < 128 -> fold_cp b = ascii_lower b.
Proof.
  intros H. unfold fold_cp, ascii_lower.
  destruct ((65 <=? b) && (b <=? 90)); [reflexivity|].
  destruct (Z.eqb_spec b 383); [lia|]. destruct (Z.eqb_spec b 8490); [lia|]. reflexivity.
Qed.

Lemma fold_urel_lower cps : forall raw,
  Forall2 urel cps raw -> plain_name (map fold_cp cps) -> map ascii_lower raw = map fold_cp cps.
Proof.
  induction cps as [|cp cps IH]; intros raw F P; inversion F as [|? b ? raw' R F']; subst; [reflexivity|].
  cbn [map] in *. inversion P as [|? ? Pc Pr]; subst.
  f_equal; [|apply IH; assumption].
  destruct R as [[E Hb]|E]; subst cp.
  - symmetry. apply fold_cp_lower_ascii. exact Hb.
  - exfalso. assert (Hf : fold_cp 65533 = 65533) by reflexivity. rewrite Hf in Pc. lia.
Qed.

(* the key lemma of the length argument: a raw key that Go matches to a field name is at least
   as long as the name, and of equal length only if it is an ASCII-case variant of the name *)
Lemma key_is_length name raw : plain_name name -> key_is name raw = true ->
  (length name <= length raw)%nat /\ (length name = length raw -> lower_key raw = name).
Proof.
  intros P H. unfold key_is in H. apply beq_true_eq in H. unfold fold_key in H.
  destruct (unquote_shape raw) as [L F]. subst name. rewrite map_length in *.
  split; [exact L|]. intros E. unfold lower_key. apply fold_urel_lower; [apply F; exact E|exact P].
Qed.

(* conversely a key made of ASCII letters only is matched exactly when its lower-case form is the name *)
Definition ascii_letters (k : bytes) : Prop :=
  Forall (fun c => (65 <= c <= 90) \/ (97 <= c <= 122)) k.

Lemma unquote_letters k : ascii_letters k -> unquote k = k.
Proof.
  induction 1 as [|c k Hc Hk IH]; [reflexivity|]. cbn [unquote].
  destruct (Z.eqb_spec c 92); [lia|]. destruct (Z.ltb_spec c 128); [|lia]. f_equal. exact IH.
Qed.

Lemma fold_key_letters k : ascii_letters k -> fold_key k = lower_key k.
Proof.
  intros H. unfold fold_key, lower_key. rewrite (unquote_letters k H).
  induction H as [|c k Hc Hk IH]; [reflexivity|]. cbn [map]. f_equal; [|exact IH].
  apply fold_cp_lower_ascii. lia.
Qed.

Lemma lower_plain_letters k n : lower_key k = n -> plain_name n -> ascii_letters k.
Proof.
  intros <- P. unfold lower_key, plain_name in P. rewrite Forall_map in P.
  eapply Forall_impl; [|exact P]. cbn. intros c Hc. unfold ascii_lower in Hc.
  destruct (Z.leb_spec 65 c); destruct (Z.leb_spec c 90); cbn [andb] in Hc; lia.
Qed.

Lemma key_is_of_lower name k : plain_name name -> lower_key k = name -> key_is name k = true.
Proof.
  intros P E. unfold key_is. rewrite (fold_key_letters k (lower_plain_letters k name E P)), E. apply beq_refl.
Qed.

(* ---- the length accounting --------------------------------------------------- *)
Definition mweight (m : bytes * jv) : nat := (length (fst m) + 4 + plen (snd m))%nat.
Definition wsum (ms : list (bytes * jv)) : nat := list_sum (map mweight ms).
Definition contrib (n : bytes) (ms : list (bytes * jv)) : nat :=
  match jlookup n ms with Some v => (length n + 4 + plen v)%nat | None => 0%nat end.
Definition asum (names : list bytes) (ms : list (bytes * jv)) : nat :=
  list_sum (map (fun n => contrib n ms) names).

Lemma join_length l : l <> [] ->
  (length (Json.join l) + 1 = list_sum (map (fun x => length x + 1) l))%nat.
Proof.
  induction l as [|x r IH]; [congruence|]. intros _.
  destruct r as [|y r'].
  - cbn. lia.
  - change (Json.join (x :: y :: r')) with (x ++ 44 :: Json.join (y :: r')).
    cbn [map list_sum fold_right]. rewrite app_length. cbn [length].
    assert (H : y :: r' <> []) by discriminate.
    specialize (IH H). cbn [map list_sum fold_right] in IH. lia.
Qed.

Lemma plen_obj ms : plen (JObj ms) = match ms with [] => 2%nat | _ => (1 + wsum ms)%nat end.
Proof.
  unfold plen. cbn [print]. cbn [length]. rewrite app_length. cbn [length].
  destruct ms as [|m r]; [reflexivity|].
  set (pm := fun m : bytes * jv => let '(k, v) := m in 34 :: k ++ 34 :: 58 :: print v).
  assert (H : map pm (m :: r) <> []) by discriminate.
  pose proof (join_length _ H) as J. rewrite map_map in J.
  assert (E : map (fun x => (length (pm x) + 1)%nat) (m :: r) = map mweight (m :: r)).
  { apply map_ext. intros [k v]. unfold pm, mweight, plen. cbn [fst snd length].
    rewrite app_length. cbn [length]. lia. }
  rewrite E in J. unfold wsum. transitivity (S (length (Json.join (map pm (m :: r))) + 1)); [reflexivity|lia].
Qed.

Lemma contrib_cons n k v r :
  contrib n ((k, v) :: r) =
  (contrib n r + (if match jlookup n r with None => key_is n k | Some _ => false end
                  then length n + 4 + plen v else 0))%nat.
Proof.
  unfold contrib. cbn [jlookup]. destruct (jlookup n r); [lia|]. destruct (key_is n k); lia.
Qed.

Lemma key_is_iff n k : key_is n k = true <-> fold_key k = n.
Proof.
  unfold key_is. split; [apply beq_true_eq|intros <-; apply beq_refl].
Qed.

Lemma asum_names_cons n names ms : asum (n :: names) ms = (contrib n ms + asum names ms)%nat.
Proof. reflexivity. Qed.

Lemma asum_cons names : NoDup names -> forall k v r,
  (~ In (fold_key k) names -> asum names ((k, v) :: r) = asum names r) /\
  (In (fold_key k) names ->
   asum names ((k, v) :: r) =
   (asum names r + match jlookup (fold_key k) r with
                   | Some _ => 0 | None => length (fold_key k) + 4 + plen v end)%nat).
Proof.
  induction 1 as [|n names Hn Hnd IH]; intros k v r.
  - split; [reflexivity|intros []].
  - rewrite !asum_names_cons. rewrite contrib_cons.
    destruct (IH k v r) as [IH1 IH2].
    destruct (key_is n k) eqn:Ek.
    + apply key_is_iff in Ek. subst n. split; [intros C; exfalso; apply C; left; reflexivity|].
      intros _. rewrite (IH1 Hn). destruct (jlookup (fold_key k) r); lia.
    + assert (Hne : fold_key k <> n).
      { intros E. apply key_is_iff in E. congruence. }
      assert (E0 : (if match jlookup n r with None => false | Some _ => false end
                    then length n + 4 + plen v else 0)%nat = 0%nat) by (destruct (jlookup n r); reflexivity).
      rewrite E0. split.
      * intros C. rewrite IH1; [lia|]. intros I. apply C. right. exact I.
      * intros [E|I]; [congruence|]. rewrite (IH2 I). lia.
Qed.

Lemma jlookup_none n ms : jlookup n ms = None <-> forall m, In m ms -> key_is n (fst m) = false.
Proof.
  induction ms as [|[k v] r IH]; cbn [jlookup]; [split; [intros _ m []|reflexivity]|].
  split.
  - destruct (jlookup n r) eqn:E; [discriminate|]. destruct (key_is n k) eqn:Ek; [discriminate|].
    intros _ m [<-|I]; [exact Ek|]. apply IH; [reflexivity|exact I].
  - intros H. assert (E : jlookup n r = None) by (apply IH; intros m I; apply H; right; exact I).
    rewrite E. pose proof (H (k, v) (or_introl eq_refl)) as Hk. cbn [fst] in Hk. rewrite Hk. reflexivity.
Qed.

Lemma has_key_false n ms : has_key n ms = false <-> forall m, In m ms -> lower_key (fst m) <> n.
Proof.
  unfold has_key. induction ms as [|m r IH]; cbn [existsb]; [split; [intros _ ? []|reflexivity]|].
  rewrite orb_false_iff, IH. split.
  - intros [H1 H2] m' [<-|I]; [apply beq_false_neq; exact H1|apply H2; exact I].
  - intros H. split; [|intros m' I; apply H; right; exact I].
    destruct (beq (lower_key (fst m)) n) eqn:E; [|reflexivity].
    apply beq_true_eq in E. exfalso. apply (H m); [left; reflexivity|exact E].
Qed.

Lemma wsum_cons k v r : wsum ((k, v) :: r) = (length k + 4 + plen v + wsum r)%nat.
Proof. reflexivity. Qed.

Lemma asum_nil names : asum names [] = 0%nat.
Proof. induction names as [|n names IH]; [reflexivity|]. rewrite asum_names_cons, IH. reflexivity. Qed.

Section Accounting.
  Variable names : list bytes.
  Hypothesis names_nodup : NoDup names.
  Hypothesis names_plain : Forall plain_name names.

  Lemma in_names_plain n : In n names -> plain_name n.
  Proof using names_plain. intros I. rewrite Forall_forall in names_plain. apply names_plain. exact I. Qed.

  (* what the struct decoder accounts for never exceeds what is there ... *)
  Lemma asum_le_wsum ms : (asum names ms <= wsum ms)%nat.
  Proof using names_nodup names_plain.
    induction ms as [|[k v] r IH]; [rewrite asum_nil; unfold wsum; cbn; lia|].
    destruct (asum_cons names names_nodup k v r) as [H1 H2].
    rewrite wsum_cons.
    destruct (in_dec (list_eq_dec Z.eq_dec) (fold_key k) names) as [I|I].
    - rewrite (H2 I). pose proof (in_names_plain _ I) as P.
      assert (Hk : key_is (fold_key k) k = true) by (apply key_is_iff; reflexivity).
      destruct (key_is_length _ _ P Hk) as [L _].
      destruct (jlookup (fold_key k) r); lia.
    - rewrite (H1 I). lia.
  Qed.

  (* ... and equality means: every member addresses a field, by a key that is an ASCII-case
     variant of the field name, and no field is addressed twice *)
  Lemma asum_eq_canon ms : asum names ms = wsum ms -> canon_members names ms = true.
  Proof using names_nodup names_plain.
    induction ms as [|[k v] r IH]; [reflexivity|]. intros E.
    destruct (asum_cons names names_nodup k v r) as [H1 H2].
    pose proof (asum_le_wsum r) as Lr.
    rewrite wsum_cons in E.
    destruct (in_dec (list_eq_dec Z.eq_dec) (fold_key k) names) as [I|I]; [|rewrite (H1 I) in E; lia].
    rewrite (H2 I) in E. pose proof (in_names_plain _ I) as P.
    assert (Hk : key_is (fold_key k) k = true) by (apply key_is_iff; reflexivity).
    destruct (key_is_length _ _ P Hk) as [L Heq].
    destruct (jlookup (fold_key k) r) eqn:Ej; [lia|].
    assert (El : length (fold_key k) = length k) by lia.
    specialize (Heq El).
    cbn [canon_members]. rewrite IH by lia. rewrite andb_true_r. apply andb_true_iff. split.
    - apply existsb_exists. exists (fold_key k). split; [exact I|]. rewrite Heq. apply beq_refl.
    - apply negb_true_iff. apply has_key_false. intros m Im Em.
      rewrite jlookup_none in Ej. specialize (Ej m Im).
      rewrite (key_is_of_lower (fold_key k) (fst m) P) in Ej; [discriminate|].
      rewrite Em. exact Heq.
  Qed.

  (* under the canonical member shape the decoder's field lookup is the plain lookup *)
  Lemma canon_key_letters ms : canon_members names ms = true ->
    forall m, In m ms -> ascii_letters (fst m) /\ In (lower_key (fst m)) names.
  Proof using names_plain.
    induction ms as [|[k v] r IH]; [intros _ ? []|]. cbn [canon_members]. intros H.
    apply andb_true_iff in H as [H H3]. apply andb_true_iff in H as [H1 H2].
    apply existsb_exists in H1 as [n [In_ En]]. apply beq_true_eq in En.
    intros m [<-|I]; [|apply IH; assumption]. cbn [fst]. split.
    - apply (lower_plain_letters k n En). apply in_names_plain. exact In_.
    - rewrite En. exact In_.
  Qed.

  Lemma jmember_none n ms : has_key n ms = false -> jmember n ms = None.
  Proof.
    induction ms as [|[k v] r IH]; [reflexivity|]. unfold has_key. cbn [existsb jmember fst].
    intros H. apply orb_false_iff in H as [H1 H2]. rewrite H1. apply IH. exact H2.
  Qed.

  Lemma jlookup_jmember n ms : plain_name n -> canon_members names ms = true ->
    jlookup n ms = jmember n ms.
  Proof using names_plain.
    intros P. induction ms as [|[k v] r IH]; [reflexivity|]. intros H.
    pose proof (canon_key_letters _ H (k, v) (or_introl eq_refl)) as [Lk _]. cbn [fst] in Lk.
    cbn [canon_members] in H.
    apply andb_true_iff in H as [H H3]. apply andb_true_iff in H as [H1 H2].
    apply negb_true_iff in H2.
    cbn [jlookup jmember]. rewrite (IH H3).
    assert (Ek : key_is n k = beq (lower_key k) n).
    { unfold key_is. rewrite (fold_key_letters k Lk). reflexivity. }
    rewrite Ek. destruct (beq (lower_key k) n) eqn:E.
    - apply beq_true_eq in E. subst n. rewrite (jmember_none _ _ H2). reflexivity.
    - destruct (jmember n r); reflexivity.
  Qed.
End Accounting.

(* ---- field-name lists of the four structs ------------------------------------ *)
Ltac names_nodup := repeat constructor; cbn [In]; intuition discriminate.
Ltac names_plain := repeat constructor; lia.

Definition names_tuple := [k_address; k_amount].
Definition names_input := [k_address; k_amount; k_type].
Definition names_tx := [k_input; k_transfers; k_conversion; k_metadata].
Definition names_batch := [k_version; k_transactions].
Lemma nd_tuple : NoDup names_tuple. Proof. names_nodup. Qed.
Lemma nd_input : NoDup names_input. Proof. names_nodup. Qed.
Lemma nd_tx : NoDup names_tx. Proof. names_nodup. Qed.
Lemma nd_batch : NoDup names_batch. Proof. names_nodup. Qed.
Lemma pl_tuple : Forall plain_name names_tuple. Proof. names_plain. Qed.
Lemma pl_input : Forall plain_name names_input. Proof. names_plain. Qed.
Lemma pl_tx : Forall plain_name names_tx. Proof. names_plain. Qed.
Lemma pl_batch : Forall plain_name names_batch. Proof. names_plain. Qed.

(* ---- leaves --------------------------------------------------------------------- *)
Lemma wf_member n ms v : forallb (fun m => wf_jv (snd m)) ms = true -> jmember n ms = Some v -> wf_jv v = true.
Proof.
  induction ms as [|[k w] r IH]; [discriminate|]. cbn [forallb jmember snd]. intros H.
  apply andb_true_iff in H as [H1 H2]. destruct (beq (lower_key k) n); [intros [= <-]; exact H1|apply IH; exact H2].
Qed.

Lemma decode_u64_canon v n : wf_jv v = true -> decode_u64 v = Some n ->
  canon_amount v = true /\ 0 <= n <= max_uint64.
Proof.
  destruct v; try discriminate; cbn [decode_u64 canon_amount wf_jv].
  - intros _ [= <-]. split; [reflexivity|unfold max_uint64; lia].
  - intros W. destruct (all_digits raw) eqn:D; [|discriminate].
    destruct (Z.leb_spec (dec_value raw) max_uint64) as [L|]; [|discriminate]. intros [= <-].
    unfold num_ok in W. rewrite D in W. apply andb_true_iff in W as [_ W]. rewrite W. split; [reflexivity|].
    split; [|exact L].
    unfold dec_value. unfold all_digits in D.
    assert (G : forall s acc, forallb is_digit s = true -> 0 <= acc ->
                0 <= fold_left (fun a c => a * 10 + (c - 48)) s acc).
    { induction s as [|c s IH]; cbn [fold_left forallb]; intros acc Hd Ha; [exact Ha|].
      apply andb_true_iff in Hd as [Hc Hs]. apply IH; [exact Hs|].
      unfold is_digit in Hc. apply andb_true_iff in Hc as [H1 H2]. apply Z.leb_le in H1, H2. lia. }
    apply G; [exact D|lia].
Qed.

Section Levels.
  Variable addr_of_text : bytes -> option Z.

  Lemma decode_addr_canon v a : decode_addr addr_of_text v = Some a -> canon_address v = true.
  Proof. destruct v; try discriminate; reflexivity. Qed.

  (* level 1: AddressAmountTuple *)
  Theorem decode_tuple_canonical j tr : wf_jv j = true ->
    decode_tuple addr_of_text j = Some tr -> canon_tuple j = true.
  Proof.
    destruct j as [| | | | | |ms]; try discriminate. cbn [wf_jv]. intros W.
    unfold decode_tuple.
    destruct (jlookup k_address ms) as [va|] eqn:Ea; [|discriminate].
    destruct (jlookup k_amount ms) as [vm|] eqn:Em; [|discriminate].
    destruct (decode_addr addr_of_text va) as [a|] eqn:Da; [|discriminate].
    destruct (decode_u64 vm) as [n|] eqn:Dn; [|discriminate].
    destruct (Nat.eqb_spec (plen (JObj ms)) (22 + plen va + plen vm)) as [L|]; [|discriminate].
    intros _. rewrite plen_obj in L.
    destruct ms as [|m0 ms0] eqn:Ems; [discriminate|]. rewrite <- Ems in *. clear Ems m0 ms0.
    assert (A : asum names_tuple ms = wsum ms).
    { unfold names_tuple. rewrite !asum_names_cons. unfold contrib. rewrite Ea, Em.
      unfold asum. cbn [map list_sum fold_right]. cbn [k_address k_amount length]. lia. }
    pose proof (asum_eq_canon _ nd_tuple pl_tuple _ A) as C.
    assert (Pa : plain_name k_address) by names_plain.
    assert (Pm : plain_name k_amount) by names_plain.
    rewrite (jlookup_jmember _ pl_tuple _ _ Pa C) in Ea.
    rewrite (jlookup_jmember _ pl_tuple _ _ Pm C) in Em.
    cbn [canon_tuple]. fold names_tuple. rewrite C, Ea, Em. cbn [opt_test andb].
    rewrite (decode_addr_canon _ _ Da).
    destruct (decode_u64_canon vm n (wf_member _ _ _ W Em) Dn) as [Cm _]. rewrite Cm. reflexivity.
  Qed.
End Levels.

(* ---- tickers ------------------------------------------------------------------------ *)
Lemma ticker_lookup_in tbl x t : ticker_lookup tbl x = Some t -> In (t, x) tbl.
Proof.
  induction tbl as [|[i n] r IH]; [discriminate|]. cbn [ticker_lookup].
  destruct (beq n x) eqn:E; [|intros H; right; apply IH; exact H].
  apply beq_true_eq in E. subst n. intros [= <-]. left. reflexivity.
Qed.

Definition clean_char (c : Z) : bool := (c <? 128) && negb (c =? 34) && negb (c =? 92).
Lemma ticker_table_ok :
  forallb (fun p => beq (ticker_string (fst p)) (snd p) && (0 <? fst p) && (fst p <? PTickerMax)
                    && forallb clean_char (snd p) && (3 <=? length (snd p))%nat) ticker_table = true.
Proof. vm_compute. reflexivity. Qed.

Lemma ticker_lookup_spec x t : ticker_lookup ticker_table x = Some t ->
  x = ticker_string t /\ 0 < t < PTickerMax /\ forallb clean_char x = true /\ (3 <= length x)%nat.
Proof.
  intros H. apply ticker_lookup_in in H. pose proof ticker_table_ok as T.
  rewrite forallb_forall in T. specialize (T _ H). cbn [fst snd] in T.
  apply andb_true_iff in T as [T T5]. apply andb_true_iff in T as [T T4].
  apply andb_true_iff in T as [T T3]. apply andb_true_iff in T as [T1 T2].
  apply beq_true_eq in T1. apply Z.ltb_lt in T2. apply Z.ltb_lt in T3. apply Nat.leb_le in T5.
  repeat split; auto.
Qed.

Lemma trim_left_length s : (length (trim_left s) <= length s)%nat.
Proof.
  induction s as [|c r IH]; [cbn; lia|]. cbn [trim_left]. destruct (c =? 34); cbn [length]; lia.
Qed.

Lemma trim_quotes_shorter (r : bytes) : (length (trim_quotes (34%Z :: r)) <= length r)%nat.
Proof.
  unfold trim_quotes. change (trim_left (34%Z :: r)) with (trim_left r).
  rewrite rev_length. pose proof (trim_left_length (rev (trim_left r))) as H1.
  rewrite rev_length in H1. pose proof (trim_left_length r). lia.
Qed.

Lemma urel_clean u : forall raw, Forall2 urel u raw -> forallb clean_char u = true -> u = raw.
Proof.
  induction u as [|c u IH]; intros raw F C; inversion F as [|? b ? raw' R F']; subst; [reflexivity|].
  cbn [forallb] in C. apply andb_true_iff in C as [Cc Cu]. f_equal; [|apply IH; assumption].
  destruct R as [[E _]|E]; [exact E|]. subst c. discriminate.
Qed.

(* a type field value: the raw string is at least as long as the ticker name it denotes, and of
   equal length only if it IS the name (no escapes, no embedded quotes) *)
Lemma quoted_ticker_length raw t : decode_quoted_ticker (JStr raw) = Some t ->
  0 < t < PTickerMax /\ (length (ticker_string t) <= length raw)%nat /\
  (length (ticker_string t) = length raw -> raw = ticker_string t) /\
  (raw = ticker_string t -> ticker_lookup ticker_table raw = Some t).
Proof.
  cbn [decode_quoted_ticker]. destruct (unquote raw) as [|c u] eqn:U; [discriminate|].
  unfold pticker_unmarshal. destruct (unquote_shape raw) as [Lr Fr]. rewrite U in Lr, Fr.
  destruct (c =? 34) eqn:E34.
  - destruct (length (trim_quotes (c :: u)) <? 3)%nat; [discriminate|]. intros L.
    apply Z.eqb_eq in E34. subst c.
    pose proof (trim_quotes_shorter u) as S. cbn [length] in Lr.
    apply ticker_lookup_spec in L as (Ex & R & _ & _). rewrite <- Ex.
    split; [exact R|]. split; [lia|]. split; [intros; lia|].
    intros Hr. apply (f_equal (@length Z)) in Hr. lia.
  - destruct (length (c :: u) <? 3)%nat; [discriminate|]. intros L.
    pose proof L as L0. apply ticker_lookup_spec in L as (Ex & R & Cl & _). rewrite <- Ex.
    split; [exact R|]. split; [exact Lr|]. split.
    + intros El. symmetry. apply urel_clean; [apply Fr; exact El|exact Cl].
    + intros Er. rewrite Er. exact L0.
Qed.

Lemma quoted_ticker_is_string v t : decode_quoted_ticker v = Some t -> exists raw, v = JStr raw.
Proof.
  destruct v; cbn [decode_quoted_ticker]; try discriminate.
  intros _. eexists. reflexivity.
Qed.

Lemma existsb_key_jlookup n r :
  existsb (fun m : bytes * jv => key_is n (fst m)) r = false <-> jlookup n r = None.
Proof.
  rewrite jlookup_none. split.
  - intros H m I. destruct (key_is n (fst m)) eqn:E; [|reflexivity].
    assert (X : existsb (fun m : bytes * jv => key_is n (fst m)) r = true)
      by (apply existsb_exists; exists m; split; assumption). congruence.
  - intros H. destruct (existsb _ r) eqn:E; [|reflexivity].
    apply existsb_exists in E as (m & I & K). rewrite (H m I) in K. discriminate.
Qed.

Lemma decode_type_members_lookup ms : forall t, decode_type_members ms = Some t ->
  match jlookup k_type ms with Some vt => decode_quoted_ticker vt = Some t | None => t = 0 end.
Proof.
  induction ms as [|[k v] r IH]; intros t; cbn [decode_type_members jlookup].
  - intros [= <-]. reflexivity.
  - destruct (decode_type_members r) as [later|]; [|discriminate]. specialize (IH later eq_refl).
    destruct (key_is k_type k) eqn:Ek.
    + destruct (decode_quoted_ticker v) as [t0|] eqn:Dv; [|discriminate].
      destruct (existsb (fun m : bytes * jv => key_is k_type (fst m)) r) eqn:Ex.
      * intros [= <-]. destruct (jlookup k_type r) eqn:J; [exact IH|].
        apply existsb_key_jlookup in J. congruence.
      * intros [= <-]. apply existsb_key_jlookup in Ex. rewrite Ex. exact Dv.
    + intros [= <-]. destruct (jlookup k_type r); exact IH.
Qed.

Section Levels2.
  Variable addr_of_text : bytes -> option Z.

  (* level 2: TypedAddressAmountTuple, for a known input type (which Validate demands) *)
  Theorem decode_typed_tuple_canonical j a n t : wf_jv j = true ->
    decode_typed_tuple addr_of_text j = Some (a, n, t) -> 0 < t ->
    canon_input j = true /\ t < PTickerMax /\ 0 <= n <= max_uint64.
  Proof.
    destruct j as [| | | | | |ms]; try discriminate. cbn [wf_jv]. intros W.
    unfold decode_typed_tuple.
    destruct (decode_type_members ms) as [t'|] eqn:Dt; [|discriminate].
    destruct (jlookup k_address ms) as [va|] eqn:Ea; [|discriminate].
    destruct (jlookup k_amount ms) as [vm|] eqn:Em; [|discriminate].
    destruct (decode_addr addr_of_text va) as [a'|] eqn:Da; [|discriminate].
    destruct (decode_u64 vm) as [n'|] eqn:Dn; [|discriminate].
    destruct (Nat.eqb_spec (plen (JObj ms)) (32 + plen va + plen vm + length (ticker_string t'))) as [L|]; [|discriminate].
    intros [= -> -> ->] Ht. rewrite plen_obj in L.
    destruct ms as [|m0 ms0] eqn:Ems; [discriminate|]. rewrite <- Ems in *. clear Ems m0 ms0.
    pose proof (decode_type_members_lookup _ _ Dt) as Lt.
    destruct (jlookup k_type ms) as [vt|] eqn:Et; [|lia].
    destruct (quoted_ticker_is_string _ _ Lt) as [raw ->].
    destruct (quoted_ticker_length _ _ Lt) as (Rt & Lr & Eqr & Lk).
    assert (Al : asum names_input ms = (29 + plen va + plen vm + (length raw + 2))%nat).
    { unfold names_input. rewrite !asum_names_cons. unfold contrib. rewrite Ea, Em, Et.
      unfold asum. cbn [map list_sum fold_right]. unfold plen at 3. cbn [print length].
      rewrite app_length. cbn [k_address k_amount k_type length]. lia. }
    pose proof (asum_le_wsum _ nd_input pl_input ms) as Le.
    assert (Er : length (ticker_string t) = length raw) by lia.
    assert (A : asum names_input ms = wsum ms) by lia.
    specialize (Eqr Er). specialize (Lk Eqr).
    pose proof (asum_eq_canon _ nd_input pl_input _ A) as C.
    assert (Pa : plain_name k_address) by names_plain.
    assert (Pm : plain_name k_amount) by names_plain.
    assert (Pt : plain_name k_type) by names_plain.
    rewrite (jlookup_jmember _ pl_input _ _ Pa C) in Ea.
    rewrite (jlookup_jmember _ pl_input _ _ Pm C) in Em.
    rewrite (jlookup_jmember _ pl_input _ _ Pt C) in Et.
    destruct (decode_u64_canon vm n (wf_member _ _ _ W Em) Dn) as [Cm Rn].
    split; [|split; [lia|exact Rn]].
    cbn [canon_input]. fold names_input. rewrite C, Ea, Em, Et. cbn [opt_test andb].
    rewrite (decode_addr_canon _ _ _ Da), Cm. cbn [canon_ticker andb]. rewrite Lk. reflexivity.
  Qed.
End Levels2.

(* ---- strings.Trim on a quoted raw string ------------------------------------------------ *)
Lemma trim_left_spec s : exists i, s = repeat 34 i ++ trim_left s.
Proof.
  induction s as [|c r [i IH]]; [exists 0%nat; reflexivity|]. cbn [trim_left].
  destruct (Z.eqb_spec c 34) as [->|N]; [exists (S i); cbn [repeat app]; f_equal; exact IH|exists 0%nat; reflexivity].
Qed.

Lemma rev_repeat34 n : rev (repeat 34 n) = repeat 34 n.
Proof.
  induction n as [|n IH]; [reflexivity|]. cbn [repeat rev]. rewrite IH. symmetry. apply repeat_cons.
Qed.

Lemma trim_quotes_spec s : exists i j, s = repeat 34 i ++ trim_quotes s ++ repeat 34 j.
Proof.
  destruct (trim_left_spec s) as [i Hi]. destruct (trim_left_spec (rev (trim_left s))) as [j Hj].
  exists i, j. unfold trim_quotes. rewrite Hi at 1. f_equal.
  apply (f_equal (@rev Z)) in Hj. rewrite rev_involutive, rev_app_distr, rev_repeat34 in Hj. exact Hj.
Qed.

Lemma nbq_clean_app name : forall x, forallb clean_char name = true ->
  no_bare_quote (name ++ x) = no_bare_quote x.
Proof.
  induction name as [|c name IH]; intros x C; [reflexivity|]. cbn [forallb] in C.
  apply andb_true_iff in C as [Cc Cn]. unfold clean_char in Cc.
  apply andb_true_iff in Cc as [Cc C92]. apply andb_true_iff in Cc as [_ C34].
  apply negb_true_iff in C34, C92. cbn [app no_bare_quote]. rewrite C34, C92. apply IH. exact Cn.
Qed.

Lemma quoted_trim_is_raw raw name : no_bare_quote raw = true -> forallb clean_char name = true ->
  name <> [] -> trim_quotes (34 :: raw ++ [34]) = name -> raw = name.
Proof.
  intros W C NE T. destruct (trim_quotes_spec (34 :: raw ++ [34])) as (i & j & E). rewrite T in E.
  destruct name as [|c0 name0] eqn:En; [congruence|]. rewrite <- En in *.
  assert (C0 : c0 <> 34).
  { rewrite En in C. cbn [forallb] in C. apply andb_true_iff in C as [Cc _]. unfold clean_char in Cc.
    apply andb_true_iff in Cc as [Cc _]. apply andb_true_iff in Cc as [_ C34]. apply negb_true_iff in C34.
    apply Z.eqb_neq. exact C34. }
  destruct i as [|[|i]].
  - exfalso. rewrite En in E. cbn [repeat app] in E. injection E as E _. congruence.
  - cbn [repeat app] in E. injection E as E.
    (* raw ++ [34] = name ++ repeat 34 j *)
    destruct j as [|j].
    + exfalso. cbn [repeat] in E. rewrite app_nil_r in E.
      apply (f_equal (@rev Z)) in E. rewrite rev_app_distr in E. cbn [rev app] in E.
      assert (Cr : forallb clean_char (rev name) = true).
      { rewrite forallb_forall in *. intros x Ix. apply C. apply in_rev. exact Ix. }
      rewrite <- E in Cr. cbn [forallb] in Cr. apply andb_true_iff in Cr as [Cc _]. vm_compute in Cc. discriminate.
    + assert (E2 : raw ++ [34] = (name ++ repeat 34 j) ++ [34]).
      { rewrite E. rewrite <- app_assoc. f_equal. cbn [repeat]. apply repeat_cons. }
      apply app_inj_tail in E2 as [E2 _]. subst raw.
      rewrite (nbq_clean_app name _ C) in W. destruct j as [|j]; [apply app_nil_r|].
      cbn [repeat no_bare_quote] in W. discriminate.
  - exfalso. cbn [repeat app] in E. injection E as E. destruct raw as [|r0 raw0]; cbn [app] in E.
    + injection E as E. destruct i; cbn [repeat app] in E; rewrite En in E; cbn [app] in E; discriminate.
    + injection E as E _. subst r0. cbn [no_bare_quote] in W. discriminate.
Qed.

Lemma ticker_head_ok :
  forallb (fun p => match snd p with
                    | c :: _ => negb ((c =? 45) || is_digit c || (c =? 91) || (c =? 123) || (c =? 34) || (c =? 110) || (c =? 116) || (c =? 102))
                    | [] => false end) ticker_table = true.
Proof. vm_compute. reflexivity. Qed.

Lemma ticker_lookup_head x t : ticker_lookup ticker_table x = Some t ->
  exists c r, x = c :: r /\ c <> 45 /\ is_digit c = false /\ c <> 91 /\ c <> 123 /\ c <> 34 /\ c <> 110 /\ c <> 116 /\ c <> 102.
Proof.
  intros H. apply ticker_lookup_in in H. pose proof ticker_head_ok as T.
  rewrite forallb_forall in T. specialize (T _ H). cbn [snd] in T.
  destruct x as [|c r]; [discriminate|]. exists c, r. split; [reflexivity|].
  apply negb_true_iff in T. repeat (apply orb_false_iff in T as [T ?]).
  repeat split; try (apply Z.eqb_neq; assumption); assumption.
Qed.

(* the conversion field: only the exact quoted ticker name is accepted *)
Lemma raw_ticker_canon v t : wf_jv v = true -> decode_raw_ticker v = Some t ->
  canon_ticker v = true /\ 0 < t < PTickerMax.
Proof.
  unfold decode_raw_ticker, pticker_unmarshal. intros W.
  destruct (print v) as [|c p] eqn:P; [cbn; discriminate|].
  destruct (c =? 34) eqn:E34.
  - destruct (length (trim_quotes (c :: p)) <? 3)%nat; [discriminate|]. intros L.
    pose proof L as L0. apply ticker_lookup_spec in L as (Ex & R & Cl & L3).
    apply Z.eqb_eq in E34. subst c.
    destruct v; cbn [print] in P; try discriminate.
    + (* a number cannot start with a quote *)
      exfalso. cbn [wf_jv] in W. unfold num_ok in W. rewrite P in W. vm_compute in W. discriminate.
    + injection P as <-. cbn [wf_jv] in W.
      assert (NE : trim_quotes (34 :: raw ++ [34]) <> []) by (intros Z0; rewrite Z0 in L3; cbn in L3; lia).
      pose proof (quoted_trim_is_raw raw _ W Cl NE eq_refl) as Er.
      split; [|exact R]. cbn [canon_ticker]. rewrite Er. rewrite L0. reflexivity.
  - destruct (length (c :: p) <? 3)%nat; [discriminate|]. intros L.
    exfalso. apply ticker_lookup_head in L as (c' & r' & [= <- <-] & H45 & Hd & H91 & H123 & H34 & Hn & Ht & Hf).
    destruct v; cbn [print] in P; try (injection P as Pc _; congruence).
    cbn [wf_jv] in W. unfold num_ok in W. rewrite P in W. apply andb_true_iff in W as [W _].
    apply orb_true_iff in W as [W|W]; [apply Z.eqb_eq in W; congruence|congruence].
Qed.

Lemma plen_obj_lookup ms n v : jlookup n ms = Some v -> plen (JObj ms) = (1 + wsum ms)%nat.
Proof. intros H. rewrite plen_obj. destruct ms; [discriminate|reflexivity]. Qed.

Lemma tx_validate_basic t : tx_validate t = true ->
  0 < tx_type t /\ (tx_transfers t = [] -> tx_conv t <> 0) /\ (tx_transfers t <> [] -> tx_conv t <= 0).
Proof.
  intros H. destruct (tx_validate_spec t H) as (_ & Ht & [(N & C & _)|(E & C & _)]).
  - split; [lia|]. split; [congruence|intros _; exact C].
  - split; [lia|]. split; [intros _; exact C|congruence].
Qed.

Lemma forallb_wf_in l x : forallb wf_jv l = true -> In x l -> wf_jv x = true.
Proof. intros H I. rewrite forallb_forall in H. apply H. exact I. Qed.

Section Levels3.
  Variable addr_of_text : bytes -> option Z.

  Lemma decode_all_canon {A} (f : jv -> option A) (P : jv -> bool) items : forall l,
    (forall x a, In x items -> f x = Some a -> P x = true) ->
    decode_all f items = Some l -> forallb P items = true /\ length l = length items.
  Proof.
    induction items as [|x r IH]; intros l HP; cbn [decode_all].
    - intros [= <-]. split; reflexivity.
    - destruct (f x) as [a|] eqn:Fx; [|discriminate]. destruct (decode_all f r) as [ar|] eqn:Dr; [|discriminate].
      intros [= <-]. destruct (IH ar) as [H1 H2]; [intros y b I; apply HP; right; exact I|reflexivity|].
      cbn [forallb length]. rewrite H1, (HP x a (or_introl eq_refl) Fx), H2. split; reflexivity.
  Qed.

  (* level 3: Transaction, for a transaction that Validate accepts *)
  Theorem decode_transaction_canonical j t : wf_jv j = true ->
    decode_transaction addr_of_text j = Some t -> tx_validate t = true -> canon_tx j = true.
  Proof.
    destruct j as [| | | | | |ms]; try discriminate. cbn [wf_jv]. intros W.
    unfold decode_transaction.
    destruct (jlookup k_input ms) as [vi|] eqn:Ei; [|discriminate].
    destruct (decode_typed_tuple addr_of_text vi) as [[[a n] ty]|] eqn:Di; [|discriminate].
    destruct (match jlookup k_transfers ms with Some v => decode_array (decode_tuple addr_of_text) v | None => Some [] end)
      as [trs|] eqn:Dt; [|discriminate].
    destruct (match jlookup k_conversion ms with Some v => decode_raw_ticker v | None => Some 0 end)
      as [cv|] eqn:Dc; [|discriminate].
    set (meta := match jlookup k_metadata ms with Some v => (12 + plen v)%nat | None => 0%nat end).
    match goal with |- (if (_ =? ?e)%nat then _ else _) = _ -> _ => set (expected := e) end.
    destruct (Nat.eqb_spec (plen (JObj ms)) expected) as [L|]; [|discriminate].
    intros [= <-] V. apply tx_validate_basic in V. cbn [tx_type tx_transfers tx_conv] in V.
    destruct V as (Hty & Hc0 & Hc1).
    rewrite (plen_obj_lookup _ _ _ Ei) in L.
    assert (Pi : plain_name k_input) by names_plain.
    assert (Pt : plain_name k_transfers) by names_plain.
    assert (Pc : plain_name k_conversion) by names_plain.
    assert (Am : asum names_tx ms = (contrib k_input ms + (contrib k_transfers ms + (contrib k_conversion ms + meta)))%nat).
    { unfold names_tx. rewrite !asum_names_cons. unfold asum. cbn [map list_sum fold_right].
      unfold meta, contrib at 4. destruct (jlookup k_metadata ms); cbn [k_metadata length]; lia. }
    pose proof (asum_le_wsum _ nd_tx pl_tx ms) as Le.
    unfold contrib in Am. rewrite Ei in Am. cbn [k_input length] in Am.
    assert (Wi : forall v, jmember k_input ms = Some v -> wf_jv v = true) by (intros v; apply wf_member; exact W).
    destruct trs as [|tr0 trs0] eqn:Etrs.
    - (* conversion *)
      specialize (Hc0 eq_refl).
      destruct (jlookup k_conversion ms) as [vc|] eqn:Ec; [|injection Dc as <-; congruence].
      assert (Wm : forall n v, jlookup n ms = Some v -> wf_jv v = true).
      { intros n0 v0. clear -W. induction ms as [|[k w] r IH]; [discriminate|]. cbn [jlookup forallb snd] in *.
        apply andb_true_iff in W as [W1 W2]. destruct (jlookup n0 r) eqn:J.
        - intros [= <-]. apply IH; [exact W2|reflexivity].
        - destruct (key_is n0 k); [intros [= <-]; exact W1|discriminate]. }
      destruct (raw_ticker_canon vc cv (Wm _ _ Ec) Dc) as [Cc Rc].
      assert (Eexp : expected = (meta + 24 + plen vi + plen vc)%nat).
      { unfold expected. destruct (Z.ltb_spec 0 cv); [|lia]. destruct (Z.ltb_spec cv PTickerMax); [|lia]. reflexivity. }
      cbn [k_conversion length] in Am.
      destruct (jlookup k_transfers ms) as [vt|] eqn:Et; [cbn [k_transfers length] in Am; lia|].
      assert (A : asum names_tx ms = wsum ms) by lia.
      pose proof (asum_eq_canon _ nd_tx pl_tx _ A) as C.
      rewrite (jlookup_jmember _ pl_tx _ _ Pi C) in Ei.
      rewrite (jlookup_jmember _ pl_tx _ _ Pt C) in Et.
      rewrite (jlookup_jmember _ pl_tx _ _ Pc C) in Ec.
      destruct (decode_typed_tuple_canonical addr_of_text vi a n ty (Wi _ Ei) Di Hty) as [Ci _].
      cbn [canon_tx]. fold names_tx. rewrite C, Ei, Et, Ec. cbn [opt_test andb]. rewrite Ci, Cc. reflexivity.
    - (* transfers *)
      assert (Hcv : cv <= 0) by (apply Hc1; discriminate).
      destruct (jlookup k_transfers ms) as [vt|] eqn:Et; [|discriminate].
      assert (Ec : jlookup k_conversion ms = None).
      { destruct (jlookup k_conversion ms) as [vc|] eqn:Ec; [|reflexivity]. exfalso.
        assert (Wc : wf_jv vc = true).
        { clear -W Ec. induction ms as [|[k w] r IH]; [discriminate|]. cbn [jlookup forallb snd] in *.
          apply andb_true_iff in W as [W1 W2]. destruct (jlookup k_conversion r) eqn:J.
          - injection Ec as <-. apply IH; [exact W2|reflexivity].
          - destruct (key_is k_conversion k); [injection Ec as <-; exact W1|discriminate]. }
        destruct (raw_ticker_canon vc cv Wc Dc) as [_ Rc]. lia. }
      rewrite Ec in Am. cbn [k_transfers length] in Am.
      assert (Eexp : expected = (meta + 23 + plen vi + plen vt)%nat) by reflexivity.
      assert (A : asum names_tx ms = wsum ms) by lia.
      pose proof (asum_eq_canon _ nd_tx pl_tx _ A) as C.
      rewrite (jlookup_jmember _ pl_tx _ _ Pi C) in Ei.
      rewrite (jlookup_jmember _ pl_tx _ _ Pt C) in Et.
      rewrite (jlookup_jmember _ pl_tx _ _ Pc C) in Ec.
      destruct (decode_typed_tuple_canonical addr_of_text vi a n ty (Wi _ Ei) Di Hty) as [Ci _].
      pose proof (wf_member _ _ _ W Et) as Wt.
      destruct vt as [| | | | |items|]; try discriminate.
      cbn [decode_array] in Dt. cbn [wf_jv] in Wt.
      destruct (decode_all_canon (decode_tuple addr_of_text) canon_tuple items _
                  (fun x a I D => decode_tuple_canonical addr_of_text x a (forallb_wf_in _ _ Wt I) D) Dt) as [Ca Ln].
      destruct items as [|x xs]; [cbn in Ln; discriminate|].
      cbn [canon_tx]. fold names_tx. rewrite C, Ei, Et, Ec. cbn [opt_test andb]. rewrite Ci, Ca. reflexivity.
  Qed.
End Levels3.

Lemma dec_fold_mono s : forall acc, forallb is_digit s = true -> 0 <= acc ->
  acc <= fold_left (fun a c => a * 10 + (c - 48)) s acc.
Proof.
  induction s as [|c s IH]; intros acc D A; cbn [fold_left forallb] in *; [lia|].
  apply andb_true_iff in D as [Dc Ds]. unfold is_digit in Dc. apply andb_true_iff in Dc as [H1 H2].
  apply Z.leb_le in H1, H2. specialize (IH (acc * 10 + (c - 48)) Ds ltac:(lia)). lia.
Qed.

Lemma canon_number_one raw : canon_number raw = true -> dec_value raw = 1 -> raw = [49].
Proof.
  unfold canon_number, dec_value, all_digits. intros C V. apply andb_true_iff in C as [D C].
  destruct raw as [|c [|c2 r]]; [discriminate| |].
  - cbn [fold_left] in V. f_equal. lia.
  - exfalso. apply negb_true_iff in C. apply Z.eqb_neq in C.
    cbn [forallb] in D. apply andb_true_iff in D as [Dc D]. apply andb_true_iff in D as [Dc2 Dr].
    unfold is_digit in Dc, Dc2. apply andb_true_iff in Dc as [H1 H2]. apply andb_true_iff in Dc2 as [H3 H4].
    apply Z.leb_le in H1, H2, H3, H4. cbn [fold_left] in V.
    pose proof (dec_fold_mono r ((0 * 10 + (c - 48)) * 10 + (c2 - 48)) Dr ltac:(lia)). lia.
Qed.

Section Levels4.
  Variable addr_of_text : bytes -> option Z.

  Lemma decode_all_canon2 {A} (f : jv -> option A) (Q : A -> Prop) (P : jv -> bool) items : forall l,
    (forall x a, In x items -> f x = Some a -> Q a -> P x = true) ->
    decode_all f items = Some l -> Forall Q l -> forallb P items = true /\ length l = length items.
  Proof.
    induction items as [|x r IH]; intros l HP; cbn [decode_all].
    - intros [= <-] _. split; reflexivity.
    - destruct (f x) as [a|] eqn:Fx; [|discriminate]. destruct (decode_all f r) as [ar|] eqn:Dr; [|discriminate].
      intros [= <-] F. inversion F as [|? ? Qa Qr]; subst.
      destruct (IH ar) as [H1 H2]; [intros y b I; apply HP; right; exact I|reflexivity|exact Qr|].
      cbn [forallb length]. rewrite H1, (HP x a (or_introl eq_refl) Fx Qa), H2. split; reflexivity.
  Qed.

  (* level 4: TransactionBatch, for a batch that ValidData accepts *)
  Theorem decode_batch_canonical j b : wf_jv j = true ->
    decode_batch_j addr_of_text j = Some b -> valid_data b = true -> canon_batch j = true.
  Proof.
    destruct j as [| | | | | |ms]; try discriminate. cbn [wf_jv]. intros W.
    unfold decode_batch_j.
    destruct (jlookup k_version ms) as [vv|] eqn:Ev; [|discriminate].
    destruct (jlookup k_transactions ms) as [vt|] eqn:Et; [|discriminate].
    destruct (decode_u64 vv) as [ver|] eqn:Dv; [|discriminate].
    destruct (decode_array (decode_transaction addr_of_text) vt) as [txs|] eqn:Dt; [|discriminate].
    destruct (Nat.eqb_spec (plen (JObj ms)) (28 + plen vv + plen vt)) as [L|]; [|discriminate].
    intros [= <-] V. apply valid_data_spec in V. cbn [b_version b_txs] in V.
    destruct V as (Hver & Hne & Hval & _).
    rewrite (plen_obj_lookup _ _ _ Ev) in L.
    assert (A : asum names_batch ms = wsum ms).
    { unfold names_batch. rewrite !asum_names_cons. unfold contrib. rewrite Ev, Et.
      unfold asum. cbn [map list_sum fold_right]. cbn [k_version k_transactions length]. lia. }
    pose proof (asum_eq_canon _ nd_batch pl_batch _ A) as C.
    assert (Pv : plain_name k_version) by names_plain.
    assert (Pt : plain_name k_transactions) by names_plain.
    rewrite (jlookup_jmember _ pl_batch _ _ Pv C) in Ev.
    rewrite (jlookup_jmember _ pl_batch _ _ Pt C) in Et.
    pose proof (wf_member _ _ _ W Ev) as Wv. pose proof (wf_member _ _ _ W Et) as Wt.
    cbn [canon_batch]. fold names_batch. rewrite C, Ev, Et. cbn [andb].
    (* version is the literal 1 *)
    destruct vv as [| | |raw| | |]; try discriminate; [cbn [decode_u64] in Dv; injection Dv as <-; lia|].
    destruct (decode_u64_canon _ _ Wv Dv) as [Cn _]. cbn [canon_amount] in Cn.
    apply andb_true_iff in Cn as [Cn _].
    cbn [decode_u64] in Dv. destruct (all_digits raw); [|discriminate].
    destruct (dec_value raw <=? max_uint64); [|discriminate]. injection Dv as Dv.
    rewrite (canon_number_one raw Cn ltac:(lia)).
    (* transactions is a non-empty array of canonical transactions *)
    destruct vt as [| | | | |items|]; try discriminate; [cbn [decode_array] in Dt; injection Dt as <-; congruence|].
    cbn [decode_array] in Dt. cbn [wf_jv] in Wt.
    destruct (decode_all_canon2 (decode_transaction addr_of_text) (fun t => tx_validate t = true) canon_tx items _
                (fun x a I D Q => decode_transaction_canonical addr_of_text x a (forallb_wf_in _ _ Wt I) D Q) Dt Hval)
      as [Ca Ln].
    destruct items as [|x xs]; [destruct txs; [congruence|cbn in Ln; discriminate]|].
    exact Ca.
  Qed.

  (* bytes level; the premise on parse_json (the parser keeps only well-formed raw texts) is the
     one missing lemma *)
  Theorem accepted_is_canonical_partial bytes b :
    (forall j, parse_json bytes = Some j -> wf_jv j = true) ->
    decode_batch addr_of_text bytes = Some b -> valid_data b = true -> canonical_bytes bytes = true.
  Proof.
    intros Wf. unfold decode_batch, canonical_bytes. destruct (parse_json bytes) as [j|] eqn:P; [|discriminate].
    intros D V. exact (decode_batch_canonical j b (Wf j eq_refl) D V).
  Qed.
End Levels4.

(* ---- the parser keeps only well-formed raw texts ----------------------------------------- *)
Lemma is_hex_not_quote h : is_hex h = true -> (h =? 34) = false /\ (h =? 92) = false.
Proof.
  unfold is_hex, is_digit. intros H.
  assert (R : (48 <= h <= 57) \/ (97 <= h <= 102) \/ (65 <= h <= 70)).
  { apply orb_true_iff in H as [H|H]; [apply orb_true_iff in H as [H|H]|];
      apply andb_true_iff in H as [H1 H2]; apply Z.leb_le in H1, H2; lia. }
  split; apply Z.eqb_neq; lia.
Qed.

Lemma scan_string_nbq_n : forall n s, (length s <= n)%nat -> forall b rest,
  scan_string s = Some (b, rest) -> no_bare_quote b = true.
Proof.
  induction n as [|n IH]; intros s Hn b rest.
  - destruct s; [discriminate|cbn in Hn; lia].
  - destruct s as [|c r]; [discriminate|]. cbn [length] in Hn. cbn [scan_string].
    destruct (c =? 34) eqn:E34; [intros [= <- _]; reflexivity|].
    destruct (c =? 92) eqn:E92.
    + destruct r as [|e r1]; [discriminate|]. cbn [length] in Hn.
      destruct (is_simple_escape e).
      * destruct (scan_string r1) as [[b' rest']|] eqn:S1; [|discriminate]. intros [= <- _].
        cbn [no_bare_quote]. rewrite E34, E92. apply (IH r1 ltac:(lia) _ _ S1).
      * destruct (e =? 117); [|discriminate].
        destruct r1 as [|h1 [|h2 [|h3 [|h4 r2]]]]; try discriminate. cbn [length] in Hn.
        destruct (is_hex h1) eqn:X1; [|discriminate]. destruct (is_hex h2) eqn:X2; [|discriminate].
        destruct (is_hex h3) eqn:X3; [|discriminate]. destruct (is_hex h4) eqn:X4; [|discriminate]. cbn [andb].
        destruct (scan_string r2) as [[b' rest']|] eqn:S2; [|discriminate]. intros [= <- _].
        destruct (is_hex_not_quote _ X1) as [A1 B1]. destruct (is_hex_not_quote _ X2) as [A2 B2].
        destruct (is_hex_not_quote _ X3) as [A3 B3]. destruct (is_hex_not_quote _ X4) as [A4 B4].
        cbn [no_bare_quote]. rewrite E34, E92, A1, B1, A2, B2, A3, B3, A4, B4. apply (IH r2 ltac:(lia) _ _ S2).
    + destruct (c <? 32); [discriminate|].
      destruct (scan_string r) as [[b' rest']|] eqn:S1; [|discriminate]. intros [= <- _].
      cbn [no_bare_quote]. rewrite E34, E92. apply (IH r ltac:(lia) _ _ S1).
Qed.

Lemma scan_string_nbq s b rest : scan_string s = Some (b, rest) -> no_bare_quote b = true.
Proof. apply (scan_string_nbq_n (length s)). lia. Qed.

Lemma span_digits_digits s : forall d rest, span_digits s = (d, rest) -> all_digits d = true.
Proof.
  induction s as [|c r IH]; intros d rest; cbn [span_digits]; [intros [= <- _]; reflexivity|].
  destruct (is_digit c) eqn:D; [|intros [= <- _]; reflexivity].
  destruct (span_digits r) as [d' rest']. intros [= <- _]. unfold all_digits. cbn [forallb]. rewrite D.
  apply (IH d' rest' eq_refl).
Qed.

Lemma all_digits_app_nondigit a x y : is_digit x = false -> all_digits (a ++ x :: y) = false.
Proof. intros H. unfold all_digits. rewrite forallb_app. cbn [forallb]. rewrite H. apply andb_false_r. Qed.

Lemma scan_number_ok s n rest : scan_number s = Some (n, rest) -> num_ok n = true.
Proof.
  unfold scan_number.
  set (sp := match s with c :: r => if c =? 45 then ([c], r) else ([], s) | [] => ([], s) end).
  assert (Hsg : fst sp = [] \/ fst sp = [45]).
  { unfold sp. destruct s as [|c r]; [left; reflexivity|]. destruct (Z.eqb_spec c 45) as [->|]; [right|left]; reflexivity. }
  destruct sp as [sg s1]. cbn [fst] in Hsg.
  destruct (scan_int s1) as [[i s2]|] eqn:Si; [|discriminate].
  destruct (scan_frac s2) as [[f s3]|] eqn:Sf; [|discriminate].
  destruct (scan_exp s3) as [[e s4]|] eqn:Se; [|discriminate]. intros [= <- _].
  (* shapes *)
  assert (Hi : i = [48] \/ exists c d, i = c :: d /\ is_digit19 c = true /\ all_digits d = true).
  { unfold scan_int in Si. destruct s1 as [|c r]; [discriminate|]. destruct (c =? 48); [injection Si as <- _; left; reflexivity|].
    destruct (is_digit19 c) eqn:D19; [|discriminate]. destruct (span_digits r) as [d rest'] eqn:Sd.
    injection Si as <- _. right. exists c, d. repeat split; auto. apply (span_digits_digits _ _ _ Sd). }
  assert (Hf : f = [] \/ exists d, f = 46 :: d).
  { unfold scan_frac in Sf. destruct s2 as [|c r]; [injection Sf as <- _; left; reflexivity|].
    destruct (Z.eqb_spec c 46) as [->|]; [|injection Sf as <- _; left; reflexivity].
    destruct (span_digits r) as [[|d0 d] rest']; [discriminate|]. injection Sf as <- _. right. eexists. reflexivity. }
  assert (He : e = [] \/ exists c d, e = c :: d /\ is_digit c = false).
  { unfold scan_exp in Se. destruct s3 as [|c r]; [injection Se as <- _; left; reflexivity|].
    destruct ((c =? 101) || (c =? 69)) eqn:Ee; [|injection Se as <- _; left; reflexivity].
    destruct (match r with g :: r' => if (g =? 43) || (g =? 45) then ([g], r') else ([], r) | [] => ([], r) end) as [sg' r1].
    destruct (span_digits r1) as [[|d0 d] rest']; [discriminate|]. injection Se as <- _. right. exists c, (sg' ++ d0 :: d).
    split; [reflexivity|]. apply orb_true_iff in Ee as [Ee|Ee]; apply Z.eqb_eq in Ee; subst c; reflexivity. }
  unfold num_ok. destruct Hsg as [->| ->].
  - cbn [app]. apply andb_true_iff. split.
    + destruct Hi as [->|(c & d & -> & D19 & _)]; [reflexivity|]. cbn [app].
      unfold is_digit19 in D19. unfold is_digit. apply andb_true_iff in D19 as [H1 H2]. apply Z.leb_le in H1, H2.
      apply orb_true_iff. right. apply andb_true_iff. split; apply Z.leb_le; lia.
    + destruct He as [->|(ce & de & -> & Nd)]; [|rewrite app_assoc, (all_digits_app_nondigit _ _ _ Nd); reflexivity].
      rewrite app_nil_r. destruct Hf as [->|(df & ->)]; [|rewrite (all_digits_app_nondigit i 46 df eq_refl); reflexivity].
      rewrite app_nil_r. destruct Hi as [->|(c & d & -> & D19 & Dd)]; [reflexivity|].
      unfold is_digit19 in D19. apply andb_true_iff in D19 as [H1 H2]. apply Z.leb_le in H1, H2.
      destruct (all_digits (c :: d)) eqn:Da; [|reflexivity]. unfold canon_number. rewrite Da. cbn [andb].
      destruct d; [reflexivity|]. apply negb_true_iff. apply Z.eqb_neq. lia.
  - cbn [app]. reflexivity.
Qed.

Lemma parse_wf_fuel : forall f,
  (forall s v rest, parse_value f s = Some (v, rest) -> wf_jv v = true) /\
  (forall s ms rest, parse_members f s = Some (ms, rest) -> forallb (fun m => wf_jv (snd m)) ms = true) /\
  (forall s vs rest, parse_elems f s = Some (vs, rest) -> forallb wf_jv vs = true).
Proof.
  induction f as [|f (IHv & IHm & IHe)]; [repeat split; intros; discriminate|].
  repeat split.
  - intros s v rest. cbn [parse_value]. destruct (skip_ws s) as [|c r]; [discriminate|].
    destruct (c =? 123).
    { destruct (skip_ws r) as [|c' r']; [discriminate|]. destruct (c' =? 125); [intros [= <- _]; reflexivity|].
      destruct (parse_members f (c' :: r')) as [[ms rest']|] eqn:Pm; [|discriminate]. intros [= <- _].
      cbn [wf_jv]. apply (IHm _ _ _ Pm). }
    destruct (c =? 91).
    { destruct (skip_ws r) as [|c' r']; [discriminate|]. destruct (c' =? 93); [intros [= <- _]; reflexivity|].
      destruct (parse_elems f (c' :: r')) as [[vs rest']|] eqn:Pe; [|discriminate]. intros [= <- _].
      cbn [wf_jv]. apply (IHe _ _ _ Pe). }
    destruct (c =? 34).
    { destruct (scan_string r) as [[b rest']|] eqn:Ss; [|discriminate]. intros [= <- _].
      cbn [wf_jv]. apply (scan_string_nbq _ _ _ Ss). }
    destruct (c =? 116); [match goal with |- context [Json.strip_prefix ?l r] => destruct (Json.strip_prefix l r) end; [intros [= <- _]; reflexivity|discriminate]|].
    destruct (c =? 102); [match goal with |- context [Json.strip_prefix ?l r] => destruct (Json.strip_prefix l r) end; [intros [= <- _]; reflexivity|discriminate]|].
    destruct (c =? 110); [match goal with |- context [Json.strip_prefix ?l r] => destruct (Json.strip_prefix l r) end; [intros [= <- _]; reflexivity|discriminate]|].
    destruct ((c =? 45) || is_digit c); [|discriminate].
    destruct (scan_number (c :: r)) as [[n rest']|] eqn:Sn; [|discriminate]. intros [= <- _].
    cbn [wf_jv]. apply (scan_number_ok _ _ _ Sn).
  - intros s ms rest. cbn [parse_members]. destruct s as [|c r]; [discriminate|].
    destruct (c =? 34); [|discriminate].
    destruct (scan_string r) as [[k r1]|]; [|discriminate].
    destruct (skip_ws r1) as [|c1 r2]; [discriminate|]. destruct (c1 =? 58); [|discriminate].
    destruct (parse_value f r2) as [[v r3]|] eqn:Pv; [|discriminate].
    destruct (skip_ws r3) as [|c3 r4]; [discriminate|].
    destruct (c3 =? 125).
    { intros [= <- _]. cbn [forallb snd]. rewrite (IHv _ _ _ Pv). reflexivity. }
    destruct (c3 =? 44); [|discriminate].
    destruct (parse_members f (skip_ws r4)) as [[ms' rest']|] eqn:Pm; [|discriminate]. intros [= <- _].
    cbn [forallb snd]. rewrite (IHv _ _ _ Pv), (IHm _ _ _ Pm). reflexivity.
  - intros s vs rest. cbn [parse_elems].
    destruct (parse_value f s) as [[v r1]|] eqn:Pv; [|discriminate].
    destruct (skip_ws r1) as [|c r2]; [discriminate|].
    destruct (c =? 93).
    { intros [= <- _]. cbn [forallb]. rewrite (IHv _ _ _ Pv). reflexivity. }
    destruct (c =? 44); [|discriminate].
    destruct (parse_elems f r2) as [[vs' rest']|] eqn:Pe; [|discriminate]. intros [= <- _].
    cbn [forallb]. rewrite (IHv _ _ _ Pv), (IHe _ _ _ Pe). reflexivity.
Qed.

Theorem parse_json_wf s j : parse_json s = Some j -> wf_jv j = true.
Proof.
  unfold parse_json. destruct (parse_value (S (S (length s))) s) as [[v rest]|] eqn:P; [|discriminate].
  destruct (skip_ws rest); [|discriminate]. intros [= <-].
  destruct (parse_wf_fuel (S (S (length s)))) as [H _]. apply (H _ _ _ P).
Qed.

(* C20 (a), for ALL byte strings: what UnmarshalJSON + ValidData accept is canonical *)
Theorem accepted_is_canonical addr_of_text bytes b :
  decode_batch addr_of_text bytes = Some b -> valid_data b = true -> canonical_bytes bytes = true.
Proof. apply accepted_is_canonical_partial. intros j. apply parse_json_wf. Qed.
