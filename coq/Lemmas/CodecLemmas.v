(* Lemmas/CodecLemmas.v — proofs about Model/Json.v and Model/Codec.v (C20 JSON part). *)
From Coq Require Import ZArith List Bool Lia.
From Model Require Import Codec Db.
From Gen Require Import Consts.
Import ListNotations.
Open Scope list_scope.
Open Scope Z_scope.

(* ---- byte strings ---------------------------------------------------------- *)
Lemma beq_true_eq a : forall b, beq a b = true -> a = b.
Proof.
  induction a as [|x a IH]; intros [|y b] H; cbn [beq] in H; try discriminate; [reflexivity|].
  apply andb_true_iff in H as [H1 H2]. apply Z.eqb_eq in H1. subst. f_equal. apply IH; exact H2.
Qed.
Lemma beq_refl a : beq a a = true.
Proof. induction a as [|x a IH]; cbn [beq]; [reflexivity|]. rewrite Z.eqb_refl, IH. reflexivity. Qed.
Lemma beq_false_neq a b : beq a b = false -> a <> b.
Proof. intros H E. subst. rewrite beq_refl in H. discriminate. Qed.

(* ---- Transaction.Validate / ValidData --------------------------------------- *)
Definition sum_transfers (trs : list transfer) : Z := fold_right (fun tr acc => tr_amt tr + acc) 0 trs.

Lemma remaining_after_sum trs : forall rem r,
  remaining_after rem trs = Some r -> r = rem - sum_transfers trs.
Proof.
  induction trs as [|tr trs IH]; intros rem r H; cbn [remaining_after sum_transfers fold_right] in *.
  - injection H as <-. lia.
  - destruct (rem <? tr_amt tr); [discriminate|]. apply IH in H. fold (sum_transfers trs) in *. lia.
Qed.

Lemma remaining_after_each_le trs : forall rem r,
  remaining_after rem trs = Some r -> Forall (fun tr => 0 <= tr_amt tr) trs ->
  Forall (fun tr => tr_amt tr <= rem) trs.
Proof.
  induction trs as [|tr trs IH]; intros rem r H Hpos; [constructor|].
  cbn [remaining_after] in H. destruct (Z.ltb_spec rem (tr_amt tr)); [discriminate|].
  inversion Hpos as [|? ? Hp Hps]; subst. constructor; [assumption|].
  specialize (IH (rem - tr_amt tr) r H Hps).
  eapply Forall_impl; [|exact IH]. cbn. intros. lia.
Qed.

(* what Validate establishes for one transaction *)
Theorem tx_validate_spec t : tx_validate t = true ->
  tx_addr t <> Fat2CoinbaseAddress /\
  0 < tx_type t < PTickerMax /\
  ( (tx_transfers t <> [] /\ tx_conv t <= 0 /\ sum_transfers (tx_transfers t) = tx_amt t)
    \/ (tx_transfers t = [] /\ tx_conv t <> 0 /\ tx_conv t <> tx_type t /\
        (0 < tx_conv t < PTickerMax \/ tx_amt t = 0)) ).
Proof.
  unfold tx_validate, is_conversion.
  destruct (Z.eqb_spec (tx_addr t) Fat2CoinbaseAddress) as [|Hcb]; [discriminate|].
  destruct ((tx_addr t =? 0) && (tx_amt t =? 0) && (tx_type t =? 0)); [discriminate|].
  destruct (Z.leb_spec (tx_type t) 0) as [|Hty0]; cbn [orb]; [discriminate|].
  destruct (Z.leb_spec PTickerMax (tx_type t)) as [|Hty1]; [discriminate|].
  destruct (tx_transfers t) as [|tr trs] eqn:Htr.
  - destruct (Z.eqb_spec (tx_conv t) 0) as [|Hc0]; [discriminate|].
    cbn [remaining_after].
    destruct (Z.ltb_spec 0 (tx_conv t)) as [Hc1|Hc1]; cbn [andb].
    + destruct (Z.ltb_spec (tx_conv t) PTickerMax) as [Hc2|Hc2]; cbn [negb andb].
      * destruct (Z.eqb_spec (tx_type t) (tx_conv t)) as [|Hne]; [discriminate|].
        intros _. repeat split; try lia. right. repeat split; try lia; auto.
      * destruct (Z.eqb_spec (tx_amt t) 0) as [Ha|Ha]; cbn [negb]; [|discriminate].
        intros _. repeat split; try lia. right. repeat split; try lia. 
    + cbn [negb andb]. destruct (Z.eqb_spec (tx_amt t) 0) as [Ha|Ha]; cbn [negb]; [|discriminate].
      intros _. repeat split; try lia. right. repeat split; try lia.
  - destruct (Z.ltb_spec 0 (tx_conv t)) as [|Hc]; [discriminate|].
    destruct (remaining_after (tx_amt t) (tr :: trs)) as [rem|] eqn:Hrem; [|discriminate].
    cbn [negb andb]. destruct (Z.eqb_spec rem 0) as [Hr|Hr]; cbn [negb]; [|discriminate].
    intros _. apply remaining_after_sum in Hrem. repeat split; try lia.
    left. repeat split; try lia. discriminate.
Qed.

Theorem valid_data_spec b : valid_data b = true ->
  b_version b = 1 /\ b_txs b <> [] /\
  Forall (fun t => tx_validate t = true) (b_txs b) /\
  exists a, Forall (fun t => tx_addr t = a) (b_txs b).
Proof.
  unfold valid_data. intros H. apply andb_true_iff in H as [Hv H]. apply Z.eqb_eq in Hv.
  destruct (b_txs b) as [|t0 txs] eqn:E; [discriminate|].
  apply andb_true_iff in H as [H1 H2].
  split; [exact Hv|]. split; [discriminate|]. split.
  - apply Forall_forall. intros t Ht. rewrite forallb_forall in H1. apply H1. exact Ht.
  - exists (tx_addr t0). apply Forall_forall. intros t Ht. rewrite forallb_forall in H2.
    apply Z.eqb_eq. apply H2. exact Ht.
Qed.

Theorem inputs_within_int64_spec b : inputs_within_int64 b = true ->
  Forall (fun t => tx_amt t <= max_int64) (b_txs b).
Proof.
  unfold inputs_within_int64. intros H. apply Forall_forall. intros t Ht.
  rewrite forallb_forall in H. apply Z.leb_le. apply H. exact Ht.
Qed.

Theorem validate_peg_tx_spec b : validate_peg_tx b = true ->
  valid_data b = true /\ Forall (fun t => tx_conv t <> PTickerPEG) (b_txs b).
Proof.
  unfold validate_peg_tx. intros H. apply andb_true_iff in H as [H1 H2]. split; [exact H1|].
  apply Forall_forall. intros t Ht. rewrite forallb_forall in H2. specialize (H2 t Ht).
  apply negb_true_iff in H2. apply Z.eqb_neq. exact H2.
Qed.

(* ---- unquoting never lengthens; equal length means no escapes --------------- *)
Definition urel (cp b : Z) : Prop := (cp = b /\ b < 128) \/ cp = 65533.

Ltac uq_short IH Hn r :=
  cbn [length] in *; destruct (IH r) as [?L _]; [cbn [length] in Hn; lia|]; split; [lia|intros; lia].
Ltac uq_tail IH Hn r :=
  cbn [length] in *; destruct (IH r) as [?L ?F]; [cbn [length] in Hn; cbn [length]; lia|];
  cbn [length] in *;
  split; [lia|]; intros ?H; constructor; [right; reflexivity|apply F; lia].

Lemma unquote_shape_n : forall n s, (length s <= n)%nat ->
  (length (unquote s) <= length s)%nat /\
  (length (unquote s) = length s -> Forall2 urel (unquote s) s).
Proof.
  induction n as [|n IH]; intros s Hn.
  - destruct s; [|cbn in Hn; lia]. cbn. split; [lia|constructor].
  - destruct s as [|c r]; [cbn; split; [lia|constructor]|].
    cbn [unquote].
    destruct (c =? 92) eqn:E92.
    + destruct r as [|e r1]; [cbn; split; [lia|intros; lia]|].
      cbv beta iota.
      destruct (e =? 117).
      * destruct r1 as [|h1 [|h2 [|h3 [|h4 r2]]]]; cbv beta iota;
          try (cbn [length]; split; [lia|intros; lia]).
        uq_short IH Hn r2.
      * uq_short IH Hn r1.
    + destruct (c <? 128) eqn:E128.
      * cbn [length] in *. destruct (IH r) as [L F]; [lia|]. split; [lia|]. intros H.
        constructor; [left; split; [reflexivity|apply Z.ltb_lt; exact E128]|apply F; lia].
      * destruct r as [|c2 r1];
          [cbn; split; [lia|intros _; constructor; [right; reflexivity|constructor]]|].
        cbv beta iota.
        destruct ((c =? 197) && (c2 =? 191)); [uq_short IH Hn r1|].
        destruct ((c =? 226) && (c2 =? 132)); [|uq_tail IH Hn (c2 :: r1)].
        destruct r1 as [|c3 r2]; cbv beta iota; [uq_tail IH Hn [c2]|].
        destruct (c3 =? 170); [uq_short IH Hn r2|uq_tail IH Hn (c2 :: c3 :: r2)].
Qed.

Lemma unquote_shape s :
  (length (unquote s) <= length s)%nat /\
  (length (unquote s) = length s -> Forall2 urel (unquote s) s).
Proof. apply (unquote_shape_n (length s)). lia. Qed.

(* a field name of the structs in scope: lower-case ASCII letters only *)
Definition plain_name (n : bytes) : Prop := Forall (fun c => 97 <= c <= 122) n.

Lemma fold_cp_lower_ascii b : b < 128 -> fold_cp b = ascii_lower b.
Proof.
  intros H. unfold fold_cp, ascii_lower.
  destruct ((65 <=? b) && (b <=? 90)); [reflexivity|].
  destruct (Z.eqb_spec b 383); [lia|]. destruct (Z.eqb_spec b 8490); [lia|]. reflexivity.
Qed.

Lemma fold_urel_lower cps : forall raw,
  Forall2 urel cps raw -> plain_name (map fold_cp cps) -> map ascii_lower raw = map fold_cp cps.
Proof.
  induction cps as [|cp cps IH]; intros raw F P; inversion F as [|? b ? raw' R F']; subst; [reflexivity|].
  cbn [map] in *. inversion P as [|? ? Pc Pr]; subst.
  f_equal; [|apply IH; assumption].
  destruct R as [[E Hb]|E]; subst cp.
  - symmetry. apply fold_cp_lower_ascii. exact Hb.
  - exfalso. assert (Hf : fold_cp 65533 = 65533) by reflexivity. rewrite Hf in Pc. lia.
Qed.

(* the key lemma of the length argument: a raw key that Go matches to a field name is at least
   as long as the name, and of equal length only if it is an ASCII-case variant of the name *)
Lemma key_is_length name raw : plain_name name -> key_is name raw = true ->
  (length name <= length raw)%nat /\ (length name = length raw -> lower_key raw = name).
Proof.
  intros P H. unfold key_is in H. apply beq_true_eq in H. unfold fold_key in H.
  destruct (unquote_shape raw) as [L F]. subst name. rewrite map_length in *.
  split; [exact L|]. intros E. unfold lower_key. apply fold_urel_lower; [apply F; exact E|exact P].
Qed.

(* conversely a key made of ASCII letters only is matched exactly when its lower-case form is the name *)
Definition ascii_letters (k : bytes) : Prop :=
  Forall (fun c => (65 <= c <= 90) \/ (97 <= c <= 122)) k.

Lemma unquote_letters k : ascii_letters k -> unquote k = k.
Proof.
  induction 1 as [|c k Hc Hk IH]; [reflexivity|]. cbn [unquote].
  destruct (Z.eqb_spec c 92); [lia|]. destruct (Z.ltb_spec c 128); [|lia]. f_equal. exact IH.
Qed.

Lemma fold_key_letters k : ascii_letters k -> fold_key k = lower_key k.
Proof.
  intros H. unfold fold_key, lower_key. rewrite (unquote_letters k H).
  induction H as [|c k Hc Hk IH]; [reflexivity|]. cbn [map]. f_equal; [|exact IH].
  apply fold_cp_lower_ascii. lia.
Qed.

Lemma lower_plain_letters k n : lower_key k = n -> plain_name n -> ascii_letters k.
Proof.
  intros <- P. unfold lower_key, plain_name in P. rewrite Forall_map in P.
  eapply Forall_impl; [|exact P]. cbn. intros c Hc. unfold ascii_lower in Hc.
  destruct (Z.leb_spec 65 c); destruct (Z.leb_spec c 90); cbn [andb] in Hc; lia.
Qed.

Lemma key_is_of_lower name k : plain_name name -> lower_key k = name -> key_is name k = true.
Proof.
  intros P E. unfold key_is. rewrite (fold_key_letters k (lower_plain_letters k name E P)), E. apply beq_refl.
Qed.

(* ---- the length accounting --------------------------------------------------- *)
Definition mweight (m : bytes * jv) : nat := (length (fst m) + 4 + plen (snd m))%nat.
Definition wsum (ms : list (bytes * jv)) : nat := list_sum (map mweight ms).
Definition contrib (n : bytes) (ms : list (bytes * jv)) : nat :=
  match jlookup n ms with Some v => (length n + 4 + plen v)%nat | None => 0%nat end.
Definition asum (names : list bytes) (ms : list (bytes * jv)) : nat :=
  list_sum (map (fun n => contrib n ms) names).

Lemma join_length l : l <> [] ->
  (length (Json.join l) + 1 = list_sum (map (fun x => length x + 1) l))%nat.
Proof.
  induction l as [|x r IH]; [congruence|]. intros _.
  destruct r as [|y r'].
  - cbn. lia.
  - change (Json.join (x :: y :: r')) with (x ++ 44 :: Json.join (y :: r')).
    cbn [map list_sum fold_right]. rewrite app_length. cbn [length].
    assert (H : y :: r' <> []) by discriminate.
    specialize (IH H). cbn [map list_sum fold_right] in IH. lia.
Qed.

Lemma plen_obj ms : plen (JObj ms) = match ms with [] => 2%nat | _ => (1 + wsum ms)%nat end.
Proof.
  unfold plen. cbn [print]. cbn [length]. rewrite app_length. cbn [length].
  destruct ms as [|m r]; [reflexivity|].
  set (pm := fun m : bytes * jv => let '(k, v) := m in 34 :: k ++ 34 :: 58 :: print v).
  assert (H : map pm (m :: r) <> []) by discriminate.
  pose proof (join_length _ H) as J. rewrite map_map in J.
  assert (E : map (fun x => (length (pm x) + 1)%nat) (m :: r) = map mweight (m :: r)).
  { apply map_ext. intros [k v]. unfold pm, mweight, plen. cbn [fst snd length].
    rewrite app_length. cbn [length]. lia. }
  rewrite E in J. unfold wsum. transitivity (S (length (Json.join (map pm (m :: r))) + 1)); [reflexivity|lia].
Qed.

Lemma contrib_cons n k v r :
  contrib n ((k, v) :: r) =
  (contrib n r + (if match jlookup n r with None => key_is n k | Some _ => false end
                  then length n + 4 + plen v else 0))%nat.
Proof.
  unfold contrib. cbn [jlookup]. destruct (jlookup n r); [lia|]. destruct (key_is n k); lia.
Qed.

Lemma key_is_iff n k : key_is n k = true <-> fold_key k = n.
Proof.
  unfold key_is. split; [apply beq_true_eq|intros <-; apply beq_refl].
Qed.

Lemma asum_names_cons n names ms : asum (n :: names) ms = (contrib n ms + asum names ms)%nat.
Proof. reflexivity. Qed.

Lemma asum_cons names : NoDup names -> forall k v r,
  (~ In (fold_key k) names -> asum names ((k, v) :: r) = asum names r) /\
  (In (fold_key k) names ->
   asum names ((k, v) :: r) =
   (asum names r + match jlookup (fold_key k) r with
                   | Some _ => 0 | None => length (fold_key k) + 4 + plen v end)%nat).
Proof.
  induction 1 as [|n names Hn Hnd IH]; intros k v r.
  - split; [reflexivity|intros []].
  - rewrite !asum_names_cons. rewrite contrib_cons.
    destruct (IH k v r) as [IH1 IH2].
    destruct (key_is n k) eqn:Ek.
    + apply key_is_iff in Ek. subst n. split; [intros C; exfalso; apply C; left; reflexivity|].
      intros _. rewrite (IH1 Hn). destruct (jlookup (fold_key k) r); lia.
    + assert (Hne : fold_key k <> n).
      { intros E. apply key_is_iff in E. congruence. }
      assert (E0 : (if match jlookup n r with None => false | Some _ => false end
                    then length n + 4 + plen v else 0)%nat = 0%nat) by (destruct (jlookup n r); reflexivity).
      rewrite E0. split.
      * intros C. rewrite IH1; [lia|]. intros I. apply C. right. exact I.
      * intros [E|I]; [congruence|]. rewrite (IH2 I). lia.
Qed.

Lemma jlookup_none n ms : jlookup n ms = None <-> forall m, In m ms -> key_is n (fst m) = false.
Proof.
  induction ms as [|[k v] r IH]; cbn [jlookup]; [split; [intros _ m []|reflexivity]|].
  split.
  - destruct (jlookup n r) eqn:E; [discriminate|]. destruct (key_is n k) eqn:Ek; [discriminate|].
    intros _ m [<-|I]; [exact Ek|]. apply IH; [reflexivity|exact I].
  - intros H. assert (E : jlookup n r = None) by (apply IH; intros m I; apply H; right; exact I).
    rewrite E. pose proof (H (k, v) (or_introl eq_refl)) as Hk. cbn [fst] in Hk. rewrite Hk. reflexivity.
Qed.

Lemma has_key_false n ms : has_key n ms = false <-> forall m, In m ms -> lower_key (fst m) <> n.
Proof.
  unfold has_key. induction ms as [|m r IH]; cbn [existsb]; [split; [intros _ ? []|reflexivity]|].
  rewrite orb_false_iff, IH. split.
  - intros [H1 H2] m' [<-|I]; [apply beq_false_neq; exact H1|apply H2; exact I].
  - intros H. split; [|intros m' I; apply H; right; exact I].
    destruct (beq (lower_key (fst m)) n) eqn:E; [|reflexivity].
    apply beq_true_eq in E. exfalso. apply (H m); [left; reflexivity|exact E].
Qed.

Lemma wsum_cons k v r : wsum ((k, v) :: r) = (length k + 4 + plen v + wsum r)%nat.
Proof. reflexivity. Qed.

Lemma asum_nil names : asum names [] = 0%nat.
Proof. induction names as [|n names IH]; [reflexivity|]. rewrite asum_names_cons, IH. reflexivity. Qed.

Section Accounting.
  Variable names : list bytes.
  Hypothesis names_nodup : NoDup names.
  Hypothesis names_plain : Forall plain_name names.

  Lemma in_names_plain n : In n names -> plain_name n.
  Proof using names_plain. intros I. rewrite Forall_forall in names_plain. apply names_plain. exact I. Qed.

  (* what the struct decoder accounts for never exceeds what is there ... *)
  Lemma asum_le_wsum ms : (asum names ms <= wsum ms)%nat.
  Proof using names_nodup names_plain.
    induction ms as [|[k v] r IH]; [rewrite asum_nil; unfold wsum; cbn; lia|].
    destruct (asum_cons names names_nodup k v r) as [H1 H2].
    rewrite wsum_cons.
    destruct (in_dec (list_eq_dec Z.eq_dec) (fold_key k) names) as [I|I].
    - rewrite (H2 I). pose proof (in_names_plain _ I) as P.
      assert (Hk : key_is (fold_key k) k = true) by (apply key_is_iff; reflexivity).
      destruct (key_is_length _ _ P Hk) as [L _].
      destruct (jlookup (fold_key k) r); lia.
    - rewrite (H1 I). lia.
  Qed.

  (* ... and equality means: every member addresses a field, by a key that is an ASCII-case
     variant of the field name, and no field is addressed twice *)
  Lemma asum_eq_canon ms : asum names ms = wsum ms -> canon_members names ms = true.
  Proof using names_nodup names_plain.
    induction ms as [|[k v] r IH]; [reflexivity|]. intros E.
    destruct (asum_cons names names_nodup k v r) as [H1 H2].
    pose proof (asum_le_wsum r) as Lr.
    rewrite wsum_cons in E.
    destruct (in_dec (list_eq_dec Z.eq_dec) (fold_key k) names) as [I|I]; [|rewrite (H1 I) in E; lia].
    rewrite (H2 I) in E. pose proof (in_names_plain _ I) as P.
    assert (Hk : key_is (fold_key k) k = true) by (apply key_is_iff; reflexivity).
    destruct (key_is_length _ _ P Hk) as [L Heq].
    destruct (jlookup (fold_key k) r) eqn:Ej; [lia|].
    assert (El : length (fold_key k) = length k) by lia.
    specialize (Heq El).
    cbn [canon_members]. rewrite IH by lia. rewrite andb_true_r. apply andb_true_iff. split.
    - apply existsb_exists. exists (fold_key k). split; [exact I|]. rewrite Heq. apply beq_refl.
    - apply negb_true_iff. apply has_key_false. intros m Im Em.
      rewrite jlookup_none in Ej. specialize (Ej m Im).
      rewrite (key_is_of_lower (fold_key k) (fst m) P) in Ej; [discriminate|].
      rewrite Em. exact Heq.
  Qed.

  (* under the canonical member shape the decoder's field lookup is the plain lookup *)
  Lemma canon_key_letters ms : canon_members names ms = true ->
    forall m, In m ms -> ascii_letters (fst m) /\ In (lower_key (fst m)) names.
  Proof using names_plain.
    induction ms as [|[k v] r IH]; [intros _ ? []|]. cbn [canon_members]. intros H.
    apply andb_true_iff in H as [H H3]. apply andb_true_iff in H as [H1 H2].
    apply existsb_exists in H1 as [n [In_ En]]. apply beq_true_eq in En.
    intros m [<-|I]; [|apply IH; assumption]. cbn [fst]. split.
    - apply (lower_plain_letters k n En). apply in_names_plain. exact In_.
    - rewrite En. exact In_.
  Qed.

  Lemma jmember_none n ms : has_key n ms = false -> jmember n ms = None.
  Proof.
    induction ms as [|[k v] r IH]; [reflexivity|]. unfold has_key. cbn [existsb jmember fst].
    intros H. apply orb_false_iff in H as [H1 H2]. rewrite H1. apply IH. exact H2.
  Qed.

  Lemma jlookup_jmember n ms : plain_name n -> canon_members names ms = true ->
    jlookup n ms = jmember n ms.
  Proof using names_plain.
    intros P. induction ms as [|[k v] r IH]; [reflexivity|]. intros H.
    pose proof (canon_key_letters _ H (k, v) (or_introl eq_refl)) as [Lk _]. cbn [fst] in Lk.
    cbn [canon_members] in H.
    apply andb_true_iff in H as [H H3]. apply andb_true_iff in H as [H1 H2].
    apply negb_true_iff in H2.
    cbn [jlookup jmember]. rewrite (IH H3).
    assert (Ek : key_is n k = beq (lower_key k) n).
    { unfold key_is. rewrite (fold_key_letters k Lk). reflexivity. }
    rewrite Ek. destruct (beq (lower_key k) n) eqn:E.
    - apply beq_true_eq in E. subst n. rewrite (jmember_none _ _ H2). reflexivity.
    - destruct (jmember n r); reflexivity.
  Qed.
End Accounting.

(* ---- field-name lists of the four structs ------------------------------------ *)
Ltac names_nodup := repeat constructor; cbn [In]; intuition discriminate.
Ltac names_plain := repeat constructor; lia.

Definition names_tuple := [k_address; k_amount].
Definition names_input := [k_address; k_amount; k_type].
Definition names_tx := [k_input; k_transfers; k_conversion; k_metadata].
Definition names_batch := [k_version; k_transactions].
Lemma nd_tuple : NoDup names_tuple. Proof. names_nodup. Qed.
Lemma nd_input : NoDup names_input. Proof. names_nodup. Qed.
Lemma nd_tx : NoDup names_tx. Proof. names_nodup. Qed.
Lemma nd_batch : NoDup names_batch. Proof. names_nodup. Qed.
Lemma pl_tuple : Forall plain_name names_tuple. Proof. names_plain. Qed.
Lemma pl_input : Forall plain_name names_input. Proof. names_plain. Qed.
Lemma pl_tx : Forall plain_name names_tx. Proof. names_plain. Qed.
Lemma pl_batch : Forall plain_name names_batch. Proof. names_plain. Qed.

(* ---- leaves --------------------------------------------------------------------- *)
Lemma wf_member n ms v : forallb (fun m => wf_jv (snd m)) ms = true -> jmember n ms = Some v -> wf_jv v = true.
Proof.
  induction ms as [|[k w] r IH]; [discriminate|]. cbn [forallb jmember snd]. intros H.
  apply andb_true_iff in H as [H1 H2]. destruct (beq (lower_key k) n); [intros [= <-]; exact H1|apply IH; exact H2].
Qed.

Lemma decode_u64_canon v n : wf_jv v = true -> decode_u64 v = Some n ->
  canon_amount v = true /\ 0 <= n <= max_uint64.
Proof.
  destruct v; try discriminate; cbn [decode_u64 canon_amount wf_jv].
  - intros _ [= <-]. split; [reflexivity|unfold max_uint64; lia].
  - intros W. destruct (all_digits raw) eqn:D; [|discriminate].
    destruct (Z.leb_spec (dec_value raw) max_uint64) as [L|]; [|discriminate]. intros [= <-].
    unfold num_ok in W. rewrite D in W. apply andb_true_iff in W as [_ W]. rewrite W. split; [reflexivity|].
    split; [|exact L].
    unfold dec_value. unfold all_digits in D.
    assert (G : forall s acc, forallb is_digit s = true -> 0 <= acc ->
                0 <= fold_left (fun a c => a * 10 + (c - 48)) s acc).
    { induction s as [|c s IH]; cbn [fold_left forallb]; intros acc Hd Ha; [exact Ha|].
      apply andb_true_iff in Hd as [Hc Hs]. apply IH; [exact Hs|].
      unfold is_digit in Hc. apply andb_true_iff in Hc as [H1 H2]. apply Z.leb_le in H1, H2. lia. }
    apply G; [exact D|lia].
Qed.

Section Levels.
  Variable addr_of_text : bytes -> option Z.

  Lemma decode_addr_canon v a : decode_addr addr_of_text v = Some a -> canon_address v = true.
  Proof. destruct v; try discriminate; reflexivity. Qed.

  (* level 1: AddressAmountTuple *)
  Theorem decode_tuple_canonical j tr : wf_jv j = true ->
    decode_tuple addr_of_text j = Some tr -> canon_tuple j = true.
  Proof.
    destruct j as [| | | | | |ms]; try discriminate. cbn [wf_jv]. intros W.
    unfold decode_tuple.
    destruct (jlookup k_address ms) as [va|] eqn:Ea; [|discriminate].
    destruct (jlookup k_amount ms) as [vm|] eqn:Em; [|discriminate].
    destruct (decode_addr addr_of_text va) as [a|] eqn:Da; [|discriminate].
    destruct (decode_u64 vm) as [n|] eqn:Dn; [|discriminate].
    destruct (Nat.eqb_spec (plen (JObj ms)) (22 + plen va + plen vm)) as [L|]; [|discriminate].
    intros _. rewrite plen_obj in L.
    destruct ms as [|m0 ms0] eqn:Ems; [discriminate|]. rewrite <- Ems in *. clear Ems m0 ms0.
    assert (A : asum names_tuple ms = wsum ms).
    { unfold names_tuple. rewrite !asum_names_cons. unfold contrib. rewrite Ea, Em.
      unfold asum. cbn [map list_sum fold_right]. cbn [k_address k_amount length]. lia. }
    pose proof (asum_eq_canon _ nd_tuple pl_tuple _ A) as C.
    assert (Pa : plain_name k_address) by names_plain.
    assert (Pm : plain_name k_amount) by names_plain.
    rewrite (jlookup_jmember _ pl_tuple _ _ Pa C) in Ea.
    rewrite (jlookup_jmember _ pl_tuple _ _ Pm C) in Em.
    cbn [canon_tuple]. fold names_tuple. rewrite C, Ea, Em. cbn [opt_test andb].
    rewrite (decode_addr_canon _ _ Da).
    destruct (decode_u64_canon vm n (wf_member _ _ _ W Em) Dn) as [Cm _]. rewrite Cm. reflexivity.
  Qed.
End Levels.

(* ---- tickers ------------------------------------------------------------------------ *)
Lemma ticker_lookup_in tbl x t : ticker_lookup tbl x = Some t -> In (t, x) tbl.
Proof.
  induction tbl as [|[i n] r IH]; [discriminate|]. cbn [ticker_lookup].
  destruct (beq n x) eqn:E; [|intros H; right; apply IH; exact H].
  apply beq_true_eq in E. subst n. intros [= <-]. left. reflexivity.
Qed.

Definition clean_char (c : Z) : bool := (c <? 128) && negb (c =? 34) && negb (c =? 92).
Lemma ticker_table_ok :
  forallb (fun p => beq (ticker_string (fst p)) (snd p) && (0 <? fst p) && (fst p <? PTickerMax)
                    && forallb clean_char (snd p) && (3 <=? length (snd p))%nat) ticker_table = true.
Proof. vm_compute. reflexivity. Qed.

Lemma ticker_lookup_spec x t : ticker_lookup ticker_table x = Some t ->
  x = ticker_string t /\ 0 < t < PTickerMax /\ forallb clean_char x = true /\ (3 <= length x)%nat.
Proof.
  intros H. apply ticker_lookup_in in H. pose proof ticker_table_ok as T.
  rewrite forallb_forall in T. specialize (T _ H). cbn [fst snd] in T.
  apply andb_true_iff in T as [T T5]. apply andb_true_iff in T as [T T4].
  apply andb_true_iff in T as [T T3]. apply andb_true_iff in T as [T1 T2].
  apply beq_true_eq in T1. apply Z.ltb_lt in T2. apply Z.ltb_lt in T3. apply Nat.leb_le in T5.
  repeat split; auto.
Qed.

Lemma trim_left_length s : (length (trim_left s) <= length s)%nat.
Proof.
  induction s as [|c r IH]; [cbn; lia|]. cbn [trim_left]. destruct (c =? 34); cbn [length]; lia.
Qed.

Lemma trim_quotes_shorter (r : bytes) : (length (trim_quotes (34%Z :: r)) <= length r)%nat.
Proof.
  unfold trim_quotes. change (trim_left (34%Z :: r)) with (trim_left r).
  rewrite rev_length. pose proof (trim_left_length (rev (trim_left r))) as H1.
  rewrite rev_length in H1. pose proof (trim_left_length r). lia.
Qed.

Lemma urel_clean u : forall raw, Forall2 urel u raw -> forallb clean_char u = true -> u = raw.
Proof.
  induction u as [|c u IH]; intros raw F C; inversion F as [|? b ? raw' R F']; subst; [reflexivity|].
  cbn [forallb] in C. apply andb_true_iff in C as [Cc Cu]. f_equal; [|apply IH; assumption].
  destruct R as [[E _]|E]; [exact E|]. subst c. discriminate.
Qed.

(* a type field value: the raw string is at least as long as the ticker name it denotes, and of
   equal length only if it IS the name (no escapes, no embedded quotes) *)
Lemma quoted_ticker_length raw t : decode_quoted_ticker (JStr raw) = Some t ->
  0 < t < PTickerMax /\ (length (ticker_string t) <= length raw)%nat /\
  (length (ticker_string t) = length raw -> raw = ticker_string t) /\
  (raw = ticker_string t -> ticker_lookup ticker_table raw = Some t).
Proof.
  cbn [decode_quoted_ticker]. destruct (unquote raw) as [|c u] eqn:U; [discriminate|].
  unfold pticker_unmarshal. destruct (unquote_shape raw) as [Lr Fr]. rewrite U in Lr, Fr.
  destruct (c =? 34) eqn:E34.
  - destruct (length (trim_quotes (c :: u)) <? 3)%nat; [discriminate|]. intros L.
    apply Z.eqb_eq in E34. subst c.
    pose proof (trim_quotes_shorter u) as S. cbn [length] in Lr.
    apply ticker_lookup_spec in L as (Ex & R & _ & _). rewrite <- Ex.
    split; [exact R|]. split; [lia|]. split; [intros; lia|].
    intros Hr. apply (f_equal (@length Z)) in Hr. lia.
  - destruct (length (c :: u) <? 3)%nat; [discriminate|]. intros L.
    pose proof L as L0. apply ticker_lookup_spec in L as (Ex & R & Cl & _). rewrite <- Ex.
    split; [exact R|]. split; [exact Lr|]. split.
    + intros El. symmetry. apply urel_clean; [apply Fr; exact El|exact Cl].
    + intros Er. rewrite Er. exact L0.
Qed.

Lemma quoted_ticker_is_string v t : decode_quoted_ticker v = Some t -> exists raw, v = JStr raw.
Proof.
  destruct v; cbn [decode_quoted_ticker]; try discriminate.
  intros _. eexists. reflexivity.
Qed.

Lemma existsb_key_jlookup n r :
  existsb (fun m : bytes * jv => key_is n (fst m)) r = false <-> jlookup n r = None.
Proof.
  rewrite jlookup_none. split.
  - intros H m I. destruct (key_is n (fst m)) eqn:E; [|reflexivity].
    assert (X : existsb (fun m : bytes * jv => key_is n (fst m)) r = true)
      by (apply existsb_exists; exists m; split; assumption). congruence.
  - intros H. destruct (existsb _ r) eqn:E; [|reflexivity].
    apply existsb_exists in E as (m & I & K). rewrite (H m I) in K. discriminate.
Qed.

Lemma decode_type_members_lookup ms : forall t, decode_type_members ms = Some t ->
  match jlookup k_type ms with Some vt => decode_quoted_ticker vt = Some t | None => t = 0 end.
Proof.
  induction ms as [|[k v] r IH]; intros t; cbn [decode_type_members jlookup].
  - intros [= <-]. reflexivity.
  - destruct (decode_type_members r) as [later|]; [|discriminate]. specialize (IH later eq_refl).
    destruct (key_is k_type k) eqn:Ek.
    + destruct (decode_quoted_ticker v) as [t0|] eqn:Dv; [|discriminate].
      destruct (existsb (fun m : bytes * jv => key_is k_type (fst m)) r) eqn:Ex.
      * intros [= <-]. destruct (jlookup k_type r) eqn:J; [exact IH|].
        apply existsb_key_jlookup in J. congruence.
      * intros [= <-]. apply existsb_key_jlookup in Ex. rewrite Ex. exact Dv.
    + intros [= <-]. destruct (jlookup k_type r); exact IH.
Qed.

Section Levels2.
  Variable addr_of_text : bytes -> option Z.

  (* level 2: TypedAddressAmountTuple, for a known input type (which Validate demands) *)
  Theorem decode_typed_tuple_canonical j a n t : wf_jv j = true ->
    decode_typed_tuple addr_of_text j = Some (a, n, t) -> 0 < t ->
    canon_input j = true /\ t < PTickerMax /\ 0 <= n <= max_uint64.
  Proof.
    destruct j as [| | | | | |ms]; try discriminate. cbn [wf_jv]. intros W.
    unfold decode_typed_tuple.
    destruct (decode_type_members ms) as [t'|] eqn:Dt; [|discriminate].
    destruct (jlookup k_address ms) as [va|] eqn:Ea; [|discriminate].
    destruct (jlookup k_amount ms) as [vm|] eqn:Em; [|discriminate].
    destruct (decode_addr addr_of_text va) as [a'|] eqn:Da; [|discriminate].
    destruct (decode_u64 vm) as [n'|] eqn:Dn; [|discriminate].
    destruct (Nat.eqb_spec (plen (JObj ms)) (32 + plen va + plen vm + length (ticker_string t'))) as [L|]; [|discriminate].
    intros [= -> -> ->] Ht. rewrite plen_obj in L.
    destruct ms as [|m0 ms0] eqn:Ems; [discriminate|]. rewrite <- Ems in *. clear Ems m0 ms0.
    pose proof (decode_type_members_lookup _ _ Dt) as Lt.
    destruct (jlookup k_type ms) as [vt|] eqn:Et; [|lia].
    destruct (quoted_ticker_is_string _ _ Lt) as [raw ->].
    destruct (quoted_ticker_length _ _ Lt) as (Rt & Lr & Eqr & Lk).
    assert (Al : asum names_input ms = (29 + plen va + plen vm + (length raw + 2))%nat).
    { unfold names_input. rewrite !asum_names_cons. unfold contrib. rewrite Ea, Em, Et.
      unfold asum. cbn [map list_sum fold_right]. unfold plen at 3. cbn [print length].
      rewrite app_length. cbn [k_address k_amount k_type length]. lia. }
    pose proof (asum_le_wsum _ nd_input pl_input ms) as Le.
    assert (Er : length (ticker_string t) = length raw) by lia.
    assert (A : asum names_input ms = wsum ms) by lia.
    specialize (Eqr Er). specialize (Lk Eqr).
    pose proof (asum_eq_canon _ nd_input pl_input _ A) as C.
    assert (Pa : plain_name k_address) by names_plain.
    assert (Pm : plain_name k_amount) by names_plain.
    assert (Pt : plain_name k_type) by names_plain.
    rewrite (jlookup_jmember _ pl_input _ _ Pa C) in Ea.
    rewrite (jlookup_jmember _ pl_input _ _ Pm C) in Em.
    rewrite (jlookup_jmember _ pl_input _ _ Pt C) in Et.
    destruct (decode_u64_canon vm n (wf_member _ _ _ W Em) Dn) as [Cm Rn].
    split; [|split; [lia|exact Rn]].
    cbn [canon_input]. fold names_input. rewrite C, Ea, Em, Et. cbn [opt_test andb].
    rewrite (decode_addr_canon _ _ _ Da), Cm. cbn [canon_ticker andb]. rewrite Lk. reflexivity.
  Qed.
End Levels2.
