(* Obligations over the regenerated tables of Gen/Sites.v, by [vm_compute] over the whole (finite) table.
   One file per property, so that a table that no longer matches breaks only the property it belongs to. *)
From Coq Require Import String List Bool Arith.
From Gen Require Import Sites.
From Model Require Import SitesSpec.
Import ListNotations.
Open Scope string_scope.
From Lemmas Require Export SitesRoots.

(* ------------------------------------------------------------------ C10 *)

(* by (function, callee, how), not by hash: no dropped error result that is not expected *)
Lemma discarded_errors_expected :
  forallb (fun k => mem3 k expected_discarded_keys) discarded_keys = true.
Proof. vm_compute; reflexivity. Qed.

Lemma discarded_errors_expected_forall :
  forall f c h x, In (f, c, h, x) discarded_errors ->
                  exists n, In (f, c, h, n) expected_discarded.
Proof.
  intros f c h x Hin.
  pose proof discarded_errors_expected as H. rewrite forallb_forall in H.
  assert (Hk : In (f, c, h) discarded_keys).
  { unfold discarded_keys. change (f, c, h) with (disc_key (f, c, h, x)). apply in_map. exact Hin. }
  apply H in Hk. unfold mem3 in Hk. apply existsb_exists in Hk.
  destruct Hk as [[[f' c'] h'] [Hx Heq]].
  unfold eqb3 in Heq. apply andb_true_iff in Heq. destruct Heq as [Heq H3].
  apply andb_true_iff in Heq. destruct Heq as [H1 H2].
  apply String.eqb_eq in H1. apply String.eqb_eq in H2. apply String.eqb_eq in H3. subst.
  unfold expected_discarded_keys in Hx. apply in_map_iff in Hx.
  destruct Hx as [[[[f0 c0] h0] n] [Hk Hin']]. simpl in Hk. inversion Hk; subst.
  exists n. exact Hin'.
Qed.

(* the converse inclusion, separately: a site that went away is noticed, without making the first
   lemma fail *)
Lemma discarded_errors_present :
  forallb (fun k => mem3 k discarded_keys) expected_discarded_keys = true.
Proof. vm_compute; reflexivity. Qed.

(* and no further site of a kind already expected *)
Lemma discarded_errors_counts : check_discarded_counts = true.
Proof. vm_compute; reflexivity. Qed.

