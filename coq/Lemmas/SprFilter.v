(* Lemmas/SprFilter.v — C11, the staking side: "staking records not signed by the key of one of the top PEG
   holders pay nothing".  The model mirrors node/spr.go GradeS (an entry is handed to the grader only when it has
   at least two ExtIDs and ExtIDs[1] is the address of one of the top 100 PEG holders of the committed database)
   and pegnet.IsIncludedTopPEGAddress.

   (a) [spr_incl]: the indices GradeS hands to the grader, as a function; [grade_spr] / [grade_spr_err] are a
       [find] keyed by (spr_version, spr_incl); [spr_incl_spec], [spr_incl_sorted].
   (b) [top100_spec]: what the list of top holders is.
   (c) [grade_spr_uses_filtered_entries]: a verdict that pays is the grader's verdict on exactly those entries.
   (d) [sync_block_ignores_spr_before_v20].
   (e) [spr_pay_step_identity], [sync_block_spr_no_winners_is_no_spr]: a SPR verdict without winners leaves no
       trace in the block at all. *)
From Model Require Import Block.
From Lemmas Require Import BlockLemmas NoWinners.
From Gen Require Import Consts.
From Coq Require Import Lia ZifyBool Sorting.Sorted Permutation.
Open Scope Z_scope.

(* ---- (a) the filter ------------------------------------------------------------------------------------ *)
(* whether GradeS hands the entry to the grader *)
Definition spr_keep (top : list addr) (e : spr_entry) : bool :=
  (2 <=? se_nexts e) && match se_staker e with Some a => existsb (Z.eqb a) top | None => false end.

(* exactly the fold written inline in grade_spr / grade_spr_err *)
Definition spr_incl (cm : db) (si : spr_in) : list Z :=
  let top := top100 cm in
  snd (fold_left (fun acc e =>
         let '(i, l) := acc in
         (i + 1, if (2 <=? se_nexts e) &&
                    match se_staker e with Some a => existsb (Z.eqb a) top | None => false end
                 then l ++ [i] else l)) (si_entries si) (0, [])).

Lemma grade_spr_unfold c cm b :
  grade_spr c cm b =
  match b_spr b with
  | None => Done None
  | Some si =>
    match find (fun a => (fst (fst a) =? spr_version c (b_height b)) && list_Z_eqb (snd (fst a)) (spr_incl cm si)) (si_alts si) with
    | None => OracleMiss 2
    | Some (_, None) => Done None
    | Some (_, Some v) => Done (Some v)
    end
  end.
Proof. reflexivity. Qed.

Lemma grade_spr_err_unfold c cm b :
  grade_spr_err c cm b =
  match b_spr b with
  | None => false
  | Some si =>
    match find (fun a => (fst (fst a) =? spr_version c (b_height b)) && list_Z_eqb (snd (fst a)) (spr_incl cm si)) (si_alts si) with
    | Some (_, None) => true
    | _ => false
    end
  end.
Proof. reflexivity. Qed.

(* the same list, by recursion on the entries *)
Fixpoint incl_from (top : list addr) (i : Z) (es : list spr_entry) : list Z :=
  match es with
  | [] => []
  | e :: es' => (if spr_keep top e then [i] else []) ++ incl_from top (i + 1) es'
  end.

Lemma incl_fold top es : forall i l,
  fold_left (fun acc e =>
         let '(i, l) := acc in
         (i + 1, if (2 <=? se_nexts e) &&
                    match se_staker e with Some a => existsb (Z.eqb a) top | None => false end
                 then l ++ [i] else l)) es (i, l)
  = (i + Z.of_nat (length es), l ++ incl_from top i es).
Proof.
  induction es as [|e es IH]; intros i l.
  - cbn [fold_left length incl_from]. rewrite app_nil_r. f_equal. lia.
  - cbn [fold_left length incl_from]. rewrite IH. unfold spr_keep.
    destruct ((2 <=? se_nexts e) && _); cbn [app]; rewrite <- ?app_assoc; cbn [app]; f_equal; lia.
Qed.

Lemma spr_incl_from cm si : spr_incl cm si = incl_from (top100 cm) 0 (si_entries si).
Proof. unfold spr_incl. cbv zeta. rewrite incl_fold. reflexivity. Qed.

Lemma existsb_eqb_In (a : Z) l : existsb (Z.eqb a) l = true <-> In a l.
Proof.
  rewrite existsb_exists. split.
  - intros (x & Hx & E). apply Z.eqb_eq in E. subst. exact Hx.
  - intros H. exists a. split; [exact H|apply Z.eqb_refl].
Qed.

Lemma spr_keep_spec top e :
  spr_keep top e = true <-> 2 <= se_nexts e /\ exists a, se_staker e = Some a /\ In a top.
Proof.
  unfold spr_keep. rewrite andb_true_iff, Z.leb_le. destruct (se_staker e) as [a|].
  - rewrite existsb_eqb_In. split.
    + intros (H1 & H2). split; [exact H1|]. exists a. auto.
    + intros (H1 & a' & E & H2). inversion E; subst. auto.
  - split; [intros (_ & H); discriminate|intros (_ & a & E & _); discriminate].
Qed.

Lemma incl_from_spec top es : forall i j,
  In j (incl_from top i es) <->
  exists e, nth_error es (Z.to_nat (j - i)) = Some e /\ i <= j /\ spr_keep top e = true.
Proof.
  induction es as [|e es IH]; intros i j; cbn [incl_from].
  - split; [intros []|]. intros (e & H & _). destruct (Z.to_nat (j - i)); discriminate.
  - rewrite in_app_iff, IH. split.
    + intros [H|(e' & Hn & Hle & Hk)].
      * destruct (spr_keep top e) eqn:K; [|destruct H]. destruct H as [<-|[]].
        exists e. replace (i - i) with 0 by lia. cbn. auto with zarith.
      * exists e'. replace (Z.to_nat (j - i)) with (S (Z.to_nat (j - (i + 1)))) by lia.
        cbn [nth_error]. split; [exact Hn|]. split; [lia|exact Hk].
    + intros (e' & Hn & Hle & Hk). destruct (Z.eq_dec j i) as [->|Hne].
      * left. replace (i - i) with 0 in Hn by lia. cbn in Hn. inversion Hn; subst. rewrite Hk. left; reflexivity.
      * right. exists e'. replace (Z.to_nat (j - i)) with (S (Z.to_nat (j - (i + 1)))) in Hn by lia.
        cbn [nth_error] in Hn. split; [exact Hn|]. split; [lia|exact Hk].
Qed.

Lemma incl_from_lb top es : forall i j, In j (incl_from top i es) -> i <= j.
Proof. intros i j H. apply incl_from_spec in H as (_ & _ & H & _). exact H. Qed.

Lemma incl_from_sorted top es : forall i, StronglySorted Z.lt (incl_from top i es).
Proof.
  induction es as [|e es IH]; intros i; cbn [incl_from]; [constructor|].
  destruct (spr_keep top e); cbn [app]; [|apply IH].
  constructor; [apply IH|]. apply Forall_forall. intros j Hj. apply incl_from_lb in Hj. lia.
Qed.

(* an index is handed to the grader iff the entry at that place has at least two ExtIDs and names, as its
   staker, one of the top 100 PEG holders of the committed database *)
Theorem spr_incl_spec cm si i :
  In i (spr_incl cm si) <->
  exists e, nth_error (si_entries si) (Z.to_nat i) = Some e /\ 0 <= i /\ 2 <= se_nexts e /\
            exists a, se_staker e = Some a /\ In a (top100 cm).
Proof.
  rewrite spr_incl_from, incl_from_spec. replace (i - 0) with i by lia.
  split; intros (e & H1 & H2 & H3); exists e; (split; [exact H1|]); (split; [exact H2|]);
    [apply spr_keep_spec in H3|apply spr_keep_spec]; exact H3.
Qed.
Print Assumptions spr_incl_spec.

(* the indices are in chain order, each at most once *)
Theorem spr_incl_sorted cm si : StronglySorted Z.lt (spr_incl cm si).
Proof. rewrite spr_incl_from. apply incl_from_sorted. Qed.
Print Assumptions spr_incl_sorted.

Lemma strongly_sorted_lt_nodup (l : list Z) : StronglySorted Z.lt l -> List.NoDup l.
Proof.
  induction 1 as [|x l Hs IH Hf]; constructor; [|exact IH].
  intros Hin. rewrite Forall_forall in Hf. specialize (Hf _ Hin). lia.
Qed.

Theorem spr_incl_nodup cm si : List.NoDup (spr_incl cm si).
Proof. apply strongly_sorted_lt_nodup, spr_incl_sorted. Qed.
Print Assumptions spr_incl_nodup.

Theorem spr_incl_range cm si i : In i (spr_incl cm si) -> 0 <= i < Z.of_nat (length (si_entries si)).
Proof.
  intros H. apply spr_incl_spec in H as (e & Hn & Hi & _). split; [exact Hi|].
  assert (Hl : (Z.to_nat i < length (si_entries si))%nat) by (apply nth_error_Some; congruence). lia.
Qed.
Print Assumptions spr_incl_range.

(* ---- (b) the top 100 PEG holders ------------------------------------------------------------------------- *)
Lemma peg_holders_In cm a v : In (a, v) (peg_holders cm) <-> bal cm !! ((a, PTickerPEG) : addr * ticker) = Some v /\ 0 < v.
Proof.
  unfold peg_holders. rewrite <- elem_of_list_In, elem_of_list_omap. split.
  - intros ([[a' t] v'] & Hin & Hf). apply elem_of_map_to_list in Hin.
    destruct ((t =? PTickerPEG) && (0 <? v')) eqn:E; [|discriminate]. inversion Hf; subst.
    apply andb_true_iff in E as (E1 & E2). apply Z.eqb_eq in E1. subst t. split; [exact Hin|lia].
  - intros (H1 & H2). exists ((a, PTickerPEG), v). split; [apply elem_of_map_to_list; exact H1|].
    rewrite Z.eqb_refl. replace (0 <? v) with true by lia. reflexivity.
Qed.

Lemma peg_holders_bal cm a v : In (a, v) (peg_holders cm) -> get_bal (bal cm) a PTickerPEG = v /\ 0 < v.
Proof. intros H. apply peg_holders_In in H as (H1 & H2). split; [exact (f_equal (default 0) H1)|exact H2]. Qed.

Lemma default_pos (o : option Z) : 0 < default 0 o -> o = Some (default 0 o).
Proof. destruct o; cbn; [reflexivity|lia]. Qed.
Lemma peg_holders_of_bal cm a : 0 < get_bal (bal cm) a PTickerPEG -> In (a, get_bal (bal cm) a PTickerPEG) (peg_holders cm).
Proof. intros H. apply peg_holders_In. split; [exact (default_pos _ H)|exact H]. Qed.

(* each address at most once: pn_addresses has one row per address *)
Lemma peg_pick_nodup (l : list (addr * ticker * Z)) :
  base.NoDup l ->
  base.NoDup (omap (fun kv : addr * ticker * Z => let '((a, t), v) := kv in if (t =? PTickerPEG) && (0 <? v) then Some (a, v) else None) l).
Proof.
  induction 1 as [|[[a t] v] l Hni Hn IH]; [constructor|].
  cbn [omap list_omap]. destruct ((t =? PTickerPEG) && (0 <? v)) eqn:E; [|exact IH].
  constructor; [|exact IH]. intros Hin. apply elem_of_list_omap in Hin as ([[a' t'] v'] & Hin & Hf).
  destruct ((t' =? PTickerPEG) && (0 <? v')) eqn:E'; [|discriminate]. inversion Hf; subst.
  apply andb_true_iff in E as (E1 & _). apply andb_true_iff in E' as (E1' & _).
  apply Z.eqb_eq in E1, E1'. subst. contradiction.
Qed.
Lemma peg_holders_nodup cm : List.NoDup (map fst (peg_holders cm)).
Proof.
  assert (G : forall l : list (addr * Z), (forall a v v', In (a, v) l -> In (a, v') l -> v = v') -> List.NoDup l -> List.NoDup (map fst l)).
  { induction l as [|[a v] l IH]; intros Hf Hn; cbn [map fst]; [constructor|].
    inversion Hn as [|x l' Hni Hn']; subst. constructor.
    - intros Hin. apply in_map_iff in Hin as ([a' v'] & E & Hin). cbn in E. subst a'.
      assert (v = v') by (eapply Hf; [left; reflexivity|right; exact Hin]). subst. contradiction.
    - apply IH; [|exact Hn']. intros a0 v0 v0' H1 H2. eapply Hf; right; eassumption. }
  apply G.
  - intros a v v' H1 H2. apply peg_holders_In in H1 as (H1 & _). apply peg_holders_In in H2 as (H2 & _). congruence.
  - apply NoDup_ListNoDup. unfold peg_holders. apply peg_pick_nodup, NoDup_map_to_list.
Qed.

(* the order: larger balance first, equal balances by address *)
Definition hb_le (x y : addr * Z) : Prop := holder_before x y = true \/ x = y.

Lemma holder_before_iff x y : holder_before x y = true <-> snd y < snd x \/ (snd x = snd y /\ fst x < fst y).
Proof. unfold holder_before. lia. Qed.
Lemma holder_before_irrefl x : holder_before x x = false.
Proof. unfold holder_before. lia. Qed.
Lemma holder_before_trans x y z : holder_before x y = true -> holder_before y z = true -> holder_before x z = true.
Proof. rewrite !holder_before_iff. lia. Qed.
Lemma holder_before_asym x y : holder_before x y = true -> holder_before y x = true -> False.
Proof. rewrite !holder_before_iff. lia. Qed.
Lemma holder_before_total x y : holder_before x y = false -> hb_le y x.
Proof.
  destruct x as [a v], y as [a' v']. unfold hb_le, holder_before. cbn [fst snd]. intros H.
  destruct (Z.eq_dec a a'), (Z.eq_dec v v'); [right; congruence|left; lia..].
Qed.
Lemma hb_le_trans x y z : hb_le x y -> hb_le y z -> hb_le x z.
Proof.
  intros [H1| ->] [H2| ->]; [left; eapply holder_before_trans; eassumption|left; assumption|left; assumption|right; reflexivity].
Qed.
Lemma hb_le_bal x y : hb_le x y -> snd x >= snd y.
Proof. intros [H| ->]; [apply holder_before_iff in H|]; lia. Qed.

Lemma insert_holder_perm x l : Permutation (x :: l) (insert_holder x l).
Proof.
  induction l as [|y l IH]; cbn [insert_holder]; [reflexivity|].
  destruct (holder_before x y); [reflexivity|]. rewrite perm_swap. constructor. exact IH.
Qed.
Definition sorted_holders (cm : db) : list (addr * Z) := fold_right insert_holder [] (peg_holders cm).
Lemma sorted_holders_perm cm : Permutation (peg_holders cm) (sorted_holders cm).
Proof.
  unfold sorted_holders. induction (peg_holders cm) as [|x l IH]; cbn [fold_right]; [reflexivity|].
  rewrite <- insert_holder_perm. constructor. exact IH.
Qed.
Lemma insert_holder_sorted x l : StronglySorted hb_le l -> StronglySorted hb_le (insert_holder x l).
Proof.
  induction 1 as [|y l Hs IH Hf]; cbn [insert_holder]; [repeat constructor|].
  destruct (holder_before x y) eqn:E.
  - constructor; [constructor; assumption|]. constructor; [left; exact E|].
    rewrite Forall_forall in *. intros z Hz. eapply hb_le_trans; [left; exact E|apply Hf, Hz].
  - constructor; [exact IH|]. rewrite Forall_forall in *. intros z Hz.
    apply (Permutation_in _ (Permutation_sym (insert_holder_perm x l))) in Hz as [<-|Hz]; [apply holder_before_total, E|apply Hf, Hz].
Qed.
Lemma sorted_holders_sorted cm : StronglySorted hb_le (sorted_holders cm).
Proof.
  unfold sorted_holders. induction (peg_holders cm) as [|x l IH]; cbn [fold_right]; [constructor|].
  apply insert_holder_sorted, IH.
Qed.
Lemma strongly_sorted_app {A} (R : A -> A -> Prop) l1 : forall l2,
  StronglySorted R (l1 ++ l2) -> forall x y, In x l1 -> In y l2 -> R x y.
Proof.
  induction l1 as [|z l1 IH]; intros l2 Hs x y Hx Hy; [destruct Hx|].
  cbn [app] in Hs. inversion Hs as [|z' l' Hs' Hf]; subst. destruct Hx as [<-|Hx].
  - rewrite Forall_forall in Hf. apply Hf, in_or_app. right. exact Hy.
  - eapply IH; eassumption.
Qed.

Lemma nodup_app_l {A} (l1 l2 : list A) : List.NoDup (l1 ++ l2) -> List.NoDup l1.
Proof.
  induction l1 as [|x l1 IH]; cbn [app]; intros H; [constructor|].
  inversion H as [|x' l' Hni Hn]; subst. constructor; [|apply IH, Hn].
  intros Hin. apply Hni, in_or_app. left. exact Hin.
Qed.

Lemma top100_unfold cm : top100 cm = map fst (firstn 100 (sorted_holders cm)).
Proof. reflexivity. Qed.

Lemma sorted_holders_In cm a v : In (a, v) (sorted_holders cm) <-> In (a, v) (peg_holders cm).
Proof.
  split; apply Permutation_in; [apply Permutation_sym|]; apply sorted_holders_perm.
Qed.
Lemma sorted_holders_nodup cm : List.NoDup (map fst (sorted_holders cm)).
Proof.
  eapply Permutation_NoDup; [apply Permutation_map, sorted_holders_perm|]. apply peg_holders_nodup.
Qed.

Lemma top100_In cm a :
  In a (top100 cm) <-> In (a, get_bal (bal cm) a PTickerPEG) (firstn 100 (sorted_holders cm)).
Proof.
  rewrite top100_unfold, in_map_iff. split.
  - intros ([a' v] & E & Hin). cbn in E. subst a'.
    assert (Hs : In (a, v) (sorted_holders cm)).
    { rewrite <- (firstn_skipn 100 (sorted_holders cm)). apply in_or_app. left. exact Hin. }
    apply sorted_holders_In, peg_holders_bal in Hs as (-> & _). exact Hin.
  - intros H. eexists. split; [|exact H]. reflexivity.
Qed.

Theorem top100_spec cm :
  (length (top100 cm) <= 100)%nat /\
  List.NoDup (top100 cm) /\
  (forall a, In a (top100 cm) -> 0 < get_bal (bal cm) a PTickerPEG) /\
  (forall a, 0 < get_bal (bal cm) a PTickerPEG -> ~ In a (top100 cm) ->
     length (top100 cm) = 100%nat /\
     forall a', In a' (top100 cm) -> get_bal (bal cm) a' PTickerPEG >= get_bal (bal cm) a PTickerPEG).
Proof.
  split; [|split; [|split]].
  - rewrite top100_unfold, map_length. apply firstn_le_length.
  - rewrite top100_unfold. pose proof (sorted_holders_nodup cm) as Hn.
    rewrite <- (firstn_skipn 100 (sorted_holders cm)), map_app in Hn. eapply nodup_app_l. exact Hn.
  - intros a Ha. apply top100_In in Ha.
    assert (Hs : In (a, get_bal (bal cm) a PTickerPEG) (sorted_holders cm)).
    { rewrite <- (firstn_skipn 100 (sorted_holders cm)). apply in_or_app. left. exact Ha. }
    apply sorted_holders_In, peg_holders_bal in Hs as (_ & Hs). exact Hs.
  - intros a Hpos Hni.
    assert (Hs : In (a, get_bal (bal cm) a PTickerPEG) (sorted_holders cm)) by apply sorted_holders_In, peg_holders_of_bal, Hpos.
    rewrite top100_In in Hni.
    rewrite <- (firstn_skipn 100 (sorted_holders cm)) in Hs. apply in_app_or in Hs as [Hs|Hs]; [contradiction|].
    split.
    + rewrite top100_unfold, map_length, firstn_length.
      destruct (le_lt_dec (length (sorted_holders cm)) 100) as [Hle|Hlt]; [|lia].
      rewrite skipn_all2 in Hs by exact Hle. destruct Hs.
    + intros a' Ha'. apply top100_In in Ha'.
      pose proof (sorted_holders_sorted cm) as Hsorted. rewrite <- (firstn_skipn 100 (sorted_holders cm)) in Hsorted.
      apply hb_le_bal with (x := (a', _)) (y := (a, _)). eapply strongly_sorted_app; eassumption.
Qed.
Print Assumptions top100_spec.

(* the tie at the last place goes to the smaller address (the model's stand-in for SQLite's row order) *)
Theorem top100_tie_break cm a a' :
  0 < get_bal (bal cm) a PTickerPEG -> ~ In a (top100 cm) -> In a' (top100 cm) ->
  get_bal (bal cm) a' PTickerPEG > get_bal (bal cm) a PTickerPEG \/
  (get_bal (bal cm) a' PTickerPEG = get_bal (bal cm) a PTickerPEG /\ a' < a).
Proof.
  intros Hpos Hni Ha'.
  assert (Hne : a' <> a) by (intros ->; contradiction).
  assert (Hs : In (a, get_bal (bal cm) a PTickerPEG) (sorted_holders cm)) by apply sorted_holders_In, peg_holders_of_bal, Hpos.
  rewrite top100_In in Hni, Ha'.
  rewrite <- (firstn_skipn 100 (sorted_holders cm)) in Hs. apply in_app_or in Hs as [Hs|Hs]; [contradiction|].
  pose proof (sorted_holders_sorted cm) as Hsorted. rewrite <- (firstn_skipn 100 (sorted_holders cm)) in Hsorted.
  destruct (strongly_sorted_app _ _ _ Hsorted _ _ Ha' Hs) as [H|H]; [|congruence].
  apply holder_before_iff in H. cbn [fst snd] in H. lia.
Qed.
Print Assumptions top100_tie_break.

(* with at most 100 holders, everyone who holds PEG is in *)
Corollary top100_all_when_few cm a :
  (length (top100 cm) < 100)%nat -> (In a (top100 cm) <-> 0 < get_bal (bal cm) a PTickerPEG).
Proof.
  intros Hl. split; [apply top100_spec|]. intros Hpos.
  destruct (in_dec Z.eq_dec a (top100 cm)) as [Hin|Hni]; [exact Hin|].
  destruct (proj2 (proj2 (proj2 (top100_spec cm))) a Hpos Hni) as (E & _). lia.
Qed.

(* ---- (c) the verdict that pays is the grader's verdict on the filtered entries -------------------------------- *)
Lemma list_Z_eqb_eq a : forall b, list_Z_eqb a b = true -> a = b.
Proof.
  induction a as [|x a IH]; intros [|y b] H; cbn [list_Z_eqb] in H; try discriminate; [reflexivity|].
  apply andb_true_iff in H as (H1 & H2). apply Z.eqb_eq in H1. apply IH in H2. congruence.
Qed.

Theorem spr_incl_excludes cm si i e :
  0 <= i -> nth_error (si_entries si) (Z.to_nat i) = Some e ->
  (forall a, se_staker e = Some a -> ~ In a (top100 cm)) ->
  ~ In i (spr_incl cm si).
Proof.
  intros Hi Hn Hex Hin. apply spr_incl_spec in Hin as (e' & Hn' & _ & _ & a & Hs & Ha).
  rewrite Hn in Hn'. inversion Hn'; subst e'. exact (Hex a Hs Ha).
Qed.
Print Assumptions spr_incl_excludes.

(* no entry names a top holder: the grader is handed nothing *)
Theorem spr_incl_none cm si :
  (forall e a, In e (si_entries si) -> se_staker e = Some a -> ~ In a (top100 cm)) -> spr_incl cm si = [].
Proof.
  intros H. destruct (spr_incl cm si) as [|i l] eqn:E; [reflexivity|exfalso].
  assert (Hin : In i (spr_incl cm si)) by (rewrite E; left; reflexivity).
  apply spr_incl_spec in Hin as (e & Hn & _ & _ & a & Hs & Ha). apply nth_error_In in Hn. exact (H e a Hn Hs Ha).
Qed.
Print Assumptions spr_incl_none.

Theorem grade_spr_uses_filtered_entries c cm b v :
  grade_spr c cm b = Done (Some v) ->
  exists si, b_spr b = Some si /\
    find (fun a => (fst (fst a) =? spr_version c (b_height b)) && list_Z_eqb (snd (fst a)) (spr_incl cm si)) (si_alts si)
      = Some (spr_version c (b_height b), spr_incl cm si, Some v) /\
    In (spr_version c (b_height b), spr_incl cm si, Some v) (si_alts si) /\
    (forall i e, 0 <= i -> nth_error (si_entries si) (Z.to_nat i) = Some e ->
       (forall a, se_staker e = Some a -> ~ In a (top100 cm)) -> ~ In i (spr_incl cm si)).
Proof.
  rewrite grade_spr_unfold. intros H. destruct (b_spr b) as [si|]; [|discriminate]. exists si. split; [reflexivity|].
  destruct (find _ (si_alts si)) as [[[k l] [v0|]]|] eqn:E; try discriminate. inversion H; subst v0.
  pose proof (find_some _ _ E) as (Hin & Hk). cbn [fst snd] in Hk. apply andb_true_iff in Hk as (Hk1 & Hk2).
  apply Z.eqb_eq in Hk1. apply list_Z_eqb_eq in Hk2. subst k l.
  split; [reflexivity|]. split; [exact Hin|]. intros i e. apply spr_incl_excludes.
Qed.
Print Assumptions grade_spr_uses_filtered_entries.

(* ---- (d) before 2.0 the SPR chain is not looked at -------------------------------------------------------- *)
Definition without_spr (b : block) : block :=
  {| b_height := b_height b; b_ts := b_ts b; b_opr := b_opr b; b_spr := None; b_tx := b_tx b; b_factoid := b_factoid b |}.

Theorem sync_block_ignores_spr_before_v20 c cm mem b s :
  b_height b < c_V20HeightActivation c ->
  sync_block c cm mem b s =
  sync_block c cm mem {| b_height := b_height b; b_ts := b_ts b; b_opr := b_opr b; b_spr := None;
                         b_tx := b_tx b; b_factoid := b_factoid b |} s.
Proof.
  intros Hlt. unfold sync_block. cbv zeta.
  match goal with |- context [grade_opr c cm ?b'] =>
    lazymatch b' with b => fail | _ => change (grade_opr c cm b') with (grade_opr c cm b) end end.
  cbn [b_height b_ts b_opr b_spr b_tx b_factoid].
  assert (E1 : (c_V20HeightActivation c <=? b_height b) = false) by lia.
  assert (E2 : (b_height b <? c_V20HeightActivation c) = true) by lia.
  rewrite E1, E2. reflexivity.
Qed.
Print Assumptions sync_block_ignores_spr_before_v20.

(* ---- (e) a SPR verdict without winners pays nothing, and leaves no trace in the block ----------------------- *)
Lemma pay_winners_nil s ts : pay_winners s ts [] = Ok s.
Proof. reflexivity. Qed.

(* the SPR reward step of sync_block, as a sub-expression *)
Theorem spr_pay_step_identity c h ts (gS : option verdict) s :
  no_winners gS ->
  (if c_V20HeightActivation c <=? h
   then match gS with Some v => of_res (pay_winners s ts (v_winners v)) | None => Done s end
   else Done s) = Done s.
Proof.
  intros Hn. destruct (c_V20HeightActivation c <=? h); [|reflexivity].
  destruct gS as [v|]; [|reflexivity]. cbn in Hn. rewrite Hn. reflexivity.
Qed.
Print Assumptions spr_pay_step_identity.

(* block level: when GradeS answers (no error) with nothing, or with a verdict that has no winners, the block
   is processed exactly as if the SPR chain had no entries for it: no rates from it, nobody paid *)
Theorem sync_block_spr_no_winners_is_no_spr c cm mem b s g :
  grade_spr c cm b = Done g -> no_winners g -> grade_spr_err c cm b = false ->
  sync_block c cm mem b s = sync_block c cm mem (without_spr b) s.
Proof.
  intros Hg Hn Herr.
  destruct (Z.ltb_spec (b_height b) (c_V20HeightActivation c)) as [Hlt|Hge].
  { apply sync_block_ignores_spr_before_v20. exact Hlt. }
  unfold sync_block. cbv zeta.
  change (grade_opr c cm (without_spr b)) with (grade_opr c cm b).
  change (grade_spr c cm (without_spr b)) with (@Done (option verdict) None).
  change (grade_spr_err c cm (without_spr b)) with false.
  cbn [without_spr b_height b_ts b_opr b_spr b_tx b_factoid].
  rewrite Hg, Herr.
  assert (E1 : (c_V20HeightActivation c <=? b_height b) = true) by lia.
  rewrite E1.
  destruct g as [v|]; [|reflexivity]. cbn in Hn.
  cbn [obind first_assets]. rewrite Hn. reflexivity.
Qed.
Print Assumptions sync_block_spr_no_winners_is_no_spr.

(* ---- non-vacuity -------------------------------------------------------------------------------------------- *)
From Model Require Import Examples.

(* three PEG holders (12, 10, 11 by balance); 13 holds only pUSD, 14 has an empty PEG cell *)
Definition ex_cm3 : db :=
  set_bal empty_db (list_to_map [((10, PTickerPEG), 500); ((11, PTickerPEG), 300); ((12, PTickerPEG), 700);
                                 ((13, PTickerUSD), 900); ((14, PTickerPEG), 0)]).
Example ex_top100 : top100 ex_cm3 = [12; 10; 11].
Proof. vm_compute. reflexivity. Qed.

(* equal balances: the smaller address first *)
Example ex_top100_tie :
  top100 (set_bal empty_db (list_to_map [((21, PTickerPEG), 5); ((20, PTickerPEG), 5); ((22, PTickerPEG), 6)])) = [22; 20; 21].
Proof. vm_compute. reflexivity. Qed.

(* the 100-cut: of 101 holders with balances 1..101 (address k holds k), address 1 is the one left out *)
Definition ex_cm101 : db :=
  set_bal empty_db (list_to_map (map (fun k => ((Z.of_nat k, PTickerPEG), Z.of_nat k)) (seq 1 101))).
Example ex_top100_cut :
  length (top100 ex_cm101) = 100%nat /\ existsb (Z.eqb 1) (top100 ex_cm101) = false /\
  existsb (Z.eqb 2) (top100 ex_cm101) = true /\ hd 0 (top100 ex_cm101) = 101.
Proof. vm_compute. repeat split; reflexivity. Qed.

Definition ex_winner (h : Z) (a : addr) (p : Z) : winner :=
  {| w_hash := 7000 + a; w_addr := Some a; w_payout := p; w_pos := 0; w_height := h |}.
Definition ex_assets : list (Z * Z) := [(PTickerPEG, 200000000); (PTickerUSD, 100000000); (PTickerFCT, 400000000)].
(* what the grader would say had it been handed both records / only the first / none *)
Definition ex_v_both (h : Z) : verdict :=
  {| v_winners := [ex_winner h 10 7; ex_winner h 13 7]; v_graded := [ex_winner h 10 7; ex_winner h 13 7]; v_short := [h]; v_assets := ex_assets |}.
Definition ex_v_first (h : Z) : verdict :=
  {| v_winners := [ex_winner h 10 7]; v_graded := [ex_winner h 10 7]; v_short := [h]; v_assets := ex_assets |}.
Definition ex_v_none : verdict := {| v_winners := []; v_graded := []; v_short := []; v_assets := [] |}.

(* entry 0: staker 10 (a top holder): included; entry 1: staker 13 (holds no PEG): excluded;
   entry 2: a top holder but a single ExtID: excluded; entry 3: staker 11: included; entry 4: ExtIDs[1] is no address *)
Definition ex_si (h : Z) : spr_in :=
  {| si_entries := [ {| se_nexts := 3; se_staker := Some 10 |}; {| se_nexts := 3; se_staker := Some 13 |};
                     {| se_nexts := 1; se_staker := Some 11 |}; {| se_nexts := 2; se_staker := Some 11 |};
                     {| se_nexts := 5; se_staker := None |} ];
     si_alts := [ (5, [0; 1; 3], Some (ex_v_both h)); (5, [0; 3], Some (ex_v_first h)); (5, [], Some ex_v_none) ] |}.
Definition ex_spr_block (h : Z) (si : spr_in) : block :=
  {| b_height := h; b_ts := 1000 + h; b_opr := None; b_spr := Some si; b_tx := None; b_factoid := [] |}.

Example ex_spr_incl : spr_incl ex_cm3 (ex_si 450) = [0; 3].
Proof. vm_compute. reflexivity. Qed.
Example ex_grade_spr :
  grade_spr ex_cfg ex_cm3 (ex_spr_block 450 (ex_si 450)) = Done (Some (ex_v_first 450)) /\
  grade_spr_err ex_cfg ex_cm3 (ex_spr_block 450 (ex_si 450)) = false.
Proof. vm_compute. split; reflexivity. Qed.

(* the block pays the staker who is a top holder and not the other one, although the grader would have paid
   both had it been handed both records; with an empty committed database nobody is handed to the grader *)
Example ex_spr_block_pays_filtered :
  match step_block ex_cfg ex_cm3 empty_cache (ex_spr_block 450 (ex_si 450)) with
  | Done (s, _) => get_bal (bal s) 10 PTickerPEG = 507 /\ get_bal (bal s) 13 PTickerPEG = 0 /\ is_rated s 450 = true
  | _ => False
  end /\
  match step_block ex_cfg empty_db empty_cache (ex_spr_block 450 (ex_si 450)) with
  | Done (s, _) => bal s = ∅ /\ is_rated s 450 = false /\ synced s = Some 450
  | _ => False
  end.
Proof. vm_compute. repeat split; reflexivity. Qed.

(* (d) is not true from 2.0 on, and (e) needs its hypotheses: the same block without its SPR entries records no rates *)
Example ex_spr_matters_from_v20 :
  sync_block ex_cfg ex_cm3 empty_cache (ex_spr_block 450 (ex_si 450)) ex_cm3 <>
  sync_block ex_cfg ex_cm3 empty_cache (without_spr (ex_spr_block 450 (ex_si 450))) ex_cm3 /\
  sync_block ex_cfg ex_cm3 empty_cache (ex_spr_block 350 (ex_si 350)) ex_cm3 =
  sync_block ex_cfg ex_cm3 empty_cache (without_spr (ex_spr_block 350 (ex_si 350))) ex_cm3 /\
  (* (e): with an empty committed database the verdict is the one without winners *)
  grade_spr ex_cfg empty_db (ex_spr_block 450 (ex_si 450)) = Done (Some ex_v_none) /\ no_winners (Some ex_v_none) /\
  sync_block ex_cfg empty_db empty_cache (ex_spr_block 450 (ex_si 450)) empty_db =
  sync_block ex_cfg empty_db empty_cache (without_spr (ex_spr_block 450 (ex_si 450))) empty_db.
Proof.
  split; [vm_compute; discriminate|]. split; [apply sync_block_ignores_spr_before_v20; vm_compute; reflexivity|].
  split; [vm_compute; reflexivity|]. split; [reflexivity|].
  eapply sync_block_spr_no_winners_is_no_spr; [vm_compute; reflexivity|reflexivity|vm_compute; reflexivity].
Qed.
