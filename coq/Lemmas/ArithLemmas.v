(* Lemmas/ArithLemmas.v — facts about Convert, Refund, PayoutBig, Payouts. *)
From Coq Require Import ZArith List Bool Lia Permutation.
From Model Require Import Base Arith.
Import ListNotations.
Open Scope Z_scope.

Ltac bdestr :=
  repeat match goal with
  | H : context [ ?a <? ?b ] |- _ => destruct (Z.ltb_spec a b)
  | H : context [ ?a <=? ?b ] |- _ => destruct (Z.leb_spec a b)
  | H : context [ ?a =? ?b ] |- _ => destruct (Z.eqb_spec a b)
  | |- context [ ?a <? ?b ] => destruct (Z.ltb_spec a b)
  | |- context [ ?a <=? ?b ] => destruct (Z.leb_spec a b)
  | |- context [ ?a =? ?b ] => destruct (Z.eqb_spec a b)
  end.

(* ------------------------------------------------------------------------ *)
(* Convert                                                                    *)

Definition rate_src (pip10 : bool) (fr fa : Z) : Z := if pip10 then Z.min fr fa else fr.
Definition rate_dst (pip10 : bool) (tr ta : Z) : Z := if pip10 then Z.max tr ta else tr.

(* the error condition, as the property states it *)
Definition convert_defined (pip10 : bool) (amt fr fa tr ta : Z) : Prop :=
  0 <= amt /\ fr <> 0 /\ tr <> 0 /\ (pip10 = true -> fa <> 0 /\ ta <> 0) /\
  (amt * rate_src pip10 fr fa) / rate_dst pip10 tr ta <= max_int64.

Lemma convert_spec pip10 amt fr fa tr ta :
  0 <= fr -> 0 <= fa -> 0 <= tr -> 0 <= ta ->
  (convert_defined pip10 amt fr fa tr ta /\
   convert pip10 amt fr fa tr ta =
     Some ((amt * rate_src pip10 fr fa) / rate_dst pip10 tr ta))
  \/ (~ convert_defined pip10 amt fr fa tr ta /\ convert pip10 amt fr fa tr ta = None).
Proof.
  intros Hfr Hfa Htr Hta.
  unfold convert, convert_defined, rate_src, rate_dst.
  destruct pip10; cbn [andb orb].
  - destruct (Z.ltb_spec amt 0); [right; split; [lia|reflexivity]|].
    destruct (Z.eqb_spec fr 0); cbn [orb]; [right; split; [tauto|reflexivity]|].
    destruct (Z.eqb_spec tr 0); cbn [orb]; [right; split; [tauto|reflexivity]|].
    destruct (Z.eqb_spec fa 0); cbn [orb]; [right; split; [intros (_&_&_&K&_); destruct (K eq_refl); tauto|reflexivity]|].
    destruct (Z.eqb_spec ta 0); cbn [orb]; [right; split; [intros (_&_&_&K&_); destruct (K eq_refl); tauto|reflexivity]|].
    assert (Hs : (if fa <? fr then fa else fr) = Z.min fr fa) by (destruct (Z.ltb_spec fa fr); lia).
    assert (Hd : (if tr <? ta then ta else tr) = Z.max tr ta) by (destruct (Z.ltb_spec tr ta); lia).
    rewrite Hs, Hd.
    destruct (Z.leb_spec (amt * Z.min fr fa / Z.max tr ta) max_int64).
    + left; split; [repeat split; auto; lia | reflexivity].
    + right; split; [intros (_&_&_&_&K); lia | reflexivity].
  - destruct (Z.ltb_spec amt 0); [right; split; [lia|reflexivity]|].
    destruct (Z.eqb_spec fr 0); cbn [orb]; [right; split; [tauto|reflexivity]|].
    destruct (Z.eqb_spec tr 0); cbn [orb]; [right; split; [tauto|reflexivity]|].
    destruct (Z.leb_spec (amt * fr / tr) max_int64).
    + left; split; [repeat split; auto; try lia; discriminate | reflexivity].
    + right; split; [intros (_&_&_&_&K); lia | reflexivity].
Qed.

Lemma convert_some_inv pip10 amt fr fa tr ta out :
  0 <= fr -> 0 <= fa -> 0 <= tr -> 0 <= ta ->
  convert pip10 amt fr fa tr ta = Some out ->
  convert_defined pip10 amt fr fa tr ta /\
  out = (amt * rate_src pip10 fr fa) / rate_dst pip10 tr ta.
Proof.
  intros Hfr Hfa Htr Hta H.
  destruct (convert_spec pip10 amt fr fa tr ta Hfr Hfa Htr Hta) as [[D E]|[D E]];
    rewrite E in H; [injection H as <-; auto | discriminate].
Qed.

Lemma convert_range pip10 amt fr fa tr ta out :
  0 <= fr -> 0 <= fa -> 0 <= tr -> 0 <= ta ->
  convert pip10 amt fr fa tr ta = Some out -> 0 <= out <= max_int64.
Proof.
  intros Hfr Hfa Htr Hta H.
  destruct (convert_some_inv _ _ _ _ _ _ _ Hfr Hfa Htr Hta H) as [(Ha&Hf&Ht&Hp&Hq) ->].
  split; [|exact Hq].
  apply Z.div_pos.
  - apply Z.mul_nonneg_nonneg; [lia|]. unfold rate_src; destruct pip10; lia.
  - unfold rate_dst; destruct pip10; lia.
Qed.

(* A conversion never yields more USD value (at spot rates) than was put in. *)
Lemma convert_value_nonincreasing pip10 amt fr fa tr ta out :
  0 <= fr -> 0 <= fa -> 0 <= tr -> 0 <= ta ->
  convert pip10 amt fr fa tr ta = Some out ->
  out * tr <= amt * fr.
Proof.
  intros Hfr Hfa Htr Hta H.
  pose proof (convert_range _ _ _ _ _ _ _ Hfr Hfa Htr Hta H) as [Ho _].
  destruct (convert_some_inv _ _ _ _ _ _ _ Hfr Hfa Htr Hta H) as [(Ha&Hf&Ht&Hp&Hq) E].
  set (rs := rate_src pip10 fr fa) in *. set (rd := rate_dst pip10 tr ta) in *.
  assert (Hrs : 0 <= rs <= fr) by (unfold rs, rate_src; destruct pip10; lia).
  assert (Hrd : tr <= rd /\ 0 < rd) by (unfold rd, rate_dst; destruct pip10; lia).
  assert (Hm : out * rd <= amt * rs).
  { subst out. rewrite Z.mul_comm. apply Z.mul_div_le. lia. }
  assert (out * tr <= out * rd) by (apply Z.mul_le_mono_nonneg_l; lia).
  assert (amt * rs <= amt * fr) by (apply Z.mul_le_mono_nonneg_l; lia).
  lia.
Qed.

(* floor characterisation *)
Lemma convert_floor pip10 amt fr fa tr ta out :
  0 <= fr -> 0 <= fa -> 0 <= tr -> 0 <= ta ->
  convert pip10 amt fr fa tr ta = Some out ->
  let rs := rate_src pip10 fr fa in let rd := rate_dst pip10 tr ta in
  out * rd <= amt * rs < (out + 1) * rd.
Proof.
  intros Hfr Hfa Htr Hta H rs rd.
  destruct (convert_some_inv _ _ _ _ _ _ _ Hfr Hfa Htr Hta H) as [(Ha&Hf&Ht&Hp&Hq) E].
  fold rs rd in E, Hq.
  assert (Hrd : 0 < rd) by (unfold rd, rate_dst; destruct pip10; lia).
  subst out.
  pose proof (Z.mul_div_le (amt * rs) rd Hrd).
  pose proof (Z.mul_succ_div_gt (amt * rs) rd Hrd).
  lia.
Qed.

(* ------------------------------------------------------------------------ *)
(* Refund                                                                    *)

Lemma refund_nonneg pip10 inp y ir pr : 0 <= ir -> 0 <= pr -> 0 <= refund pip10 inp y ir pr.
Proof.
  intros Hi Hp. unfold refund.
  destruct (convert pip10 _ pr pr ir ir) eqn:E; [|lia].
  apply (convert_range _ _ _ _ _ _ _ Hp Hp Hi Hi E).
Qed.

(* yield (in PEG) valued at the PEG rate plus refund valued at the input rate never
   exceeds the value of the input *)
Lemma refund_bound pip10 inp y ir pr :
  0 <= ir -> 0 <= pr -> 0 <= y ->
  forall maxy, convert pip10 inp ir ir pr pr = Some maxy -> y <= maxy ->
  y * pr + refund pip10 inp y ir pr * ir <= inp * ir.
Proof.
  intros Hi Hp Hy maxy Hm Hle. unfold refund. rewrite Hm.
  pose proof (convert_value_nonincreasing _ _ _ _ _ _ _ Hi Hi Hp Hp Hm) as V1.
  destruct (convert pip10 (maxy - y) pr pr ir ir) eqn:E.
  - pose proof (convert_value_nonincreasing _ _ _ _ _ _ _ Hp Hp Hi Hi E) as V2. nia.
  - nia.
Qed.

(* ------------------------------------------------------------------------ *)
(* PayoutBig / Payouts                                                       *)

Lemma wrap64_small x : 0 <= x < two64 -> wrap64 x = x.
Proof. intros; unfold wrap64; apply Z.mod_small; assumption. Qed.

Definition reqs_ok (rs : requests) : Prop := Forall (fun r => 0 <= snd r < two64) rs.

Lemma total_nonneg rs : reqs_ok rs -> 0 <= total_requested_big rs.
Proof. induction 1 as [|r rs Hr _ IH]; unfold total_requested_big in *; cbn [fold_right] in *; lia. Qed.

Lemma total_cons r rs : total_requested_big (r :: rs) = snd r + total_requested_big rs.
Proof. reflexivity. Qed.

Lemma total_ge_each rs r : reqs_ok rs -> In r rs -> snd r <= total_requested_big rs.
Proof.
  intros H; induction H as [|r0 rs Hr H IH]; [cbn; tauto|].
  rewrite total_cons. pose proof (total_nonneg rs H).
  intros [->|Hin]; [lia|]. specialize (IH Hin). lia.
Qed.

Lemma payout_big_bounds req bank total :
  0 <= req <= total -> 0 <= bank < two64 ->
  payout_big req bank total = (if (req =? 0) || (bank =? 0) || (total =? 0) then 0 else req * bank / total)
  /\ 0 <= payout_big req bank total <= bank.
Proof.
  intros Hr Hb. unfold payout_big.
  destruct ((req =? 0) || (bank =? 0) || (total =? 0)) eqn:E; [split; [reflexivity|lia]|].
  apply orb_false_iff in E as [E E3]. apply orb_false_iff in E as [E1 E2].
  apply Z.eqb_neq in E1, E2, E3.
  assert (0 <= req * bank / total <= bank).
  { split; [apply Z.div_pos; nia|].
    apply Z.div_le_upper_bound; [lia|]. nia. }
  rewrite wrap64_small by lia. split; [reflexivity|lia].
Qed.

Lemma sum_snd_cons {A} (r : A * Z) l : sum_snd (r :: l) = snd r + sum_snd l.
Proof. reflexivity. Qed.

Lemma sum_snd_map_le (rs : requests) bank total :
  reqs_ok rs -> 0 < total -> 0 <= bank < two64 -> (forall r, In r rs -> snd r <= total) ->
  sum_snd (map (fun r => (fst r, payout_big (snd r) bank total)) rs) * total
    <= total_requested_big rs * bank.
Proof.
  intros H Ht Hb. induction H as [|r rs Hr H IH]; intros Hle; [cbn; lia|].
  assert (Hrt : snd r <= total) by (apply Hle; left; reflexivity).
  specialize (IH (fun r' Hin => Hle r' (or_intror Hin))).
  destruct (payout_big_bounds (snd r) bank total ltac:(lia) Hb) as [E _].
  cbn [map]. rewrite sum_snd_cons, total_cons. cbn [snd fst].
  rewrite E.
  set (S := sum_snd _) in *. set (T := total_requested_big rs) in *.
  destruct ((snd r =? 0) || (bank =? 0) || (total =? 0)).
  - assert (0 <= snd r * bank) by nia. lia.
  - pose proof (Z.mul_div_le (snd r * bank) total Ht). lia.
Qed.

Lemma sum_snd_map_nonneg (rs : requests) bank total :
  reqs_ok rs -> 0 <= bank < two64 -> (forall r, In r rs -> snd r <= total) ->
  0 <= sum_snd (map (fun r => (fst r, payout_big (snd r) bank total)) rs).
Proof.
  intros H Hb. induction H as [|r rs Hr H IH]; intros Hle; [cbn; lia|].
  specialize (IH (fun r' Hin => Hle r' (or_intror Hin))).
  destruct (payout_big_bounds (snd r) bank total ltac:(split; [lia| apply Hle; left; reflexivity]) Hb) as [_ B].
  cbn [map]. rewrite sum_snd_cons. cbn [snd]. lia.
Qed.

(* dust_winner picks an element of the list *)
Lemma dust_winner_in rs w : dust_winner rs = Some w -> In w rs.
Proof.
  revert w; induction rs as [|r rs IH]; cbn; [discriminate|].
  intros w. destruct (dust_winner rs) as [w0|].
  - destruct (better r w0); intros [= <-]; [left; reflexivity | right; apply IH; reflexivity].
  - intros [= <-]; left; reflexivity.
Qed.

Lemma dust_winner_some rs : rs <> [] -> exists w, dust_winner rs = Some w.
Proof.
  destruct rs as [|r rs]; [congruence|]. intros _. cbn.
  destruct (dust_winner rs) as [w0|]; [destruct (better r w0)|]; eauto.
Qed.

Definition txids_nodup (rs : requests) : Prop := NoDup (map fst rs).

Lemma txid_eqb_eq a b : txid_eqb a b = true <-> a = b.
Proof.
  unfold txid_eqb. destruct a, b; cbn. rewrite andb_true_iff, !Z.eqb_eq.
  split; [intros [-> ->]; reflexivity | intros [= -> ->]; auto].
Qed.

Lemma txid_eqb_refl a : txid_eqb a a = true.
Proof. apply txid_eqb_eq; reflexivity. Qed.

(* adding [d] to exactly one (present, unique) key raises the sum by [d] *)
Lemma sum_snd_bump (l : list (txid * Z)) (w : txid) d (f : Z -> Z) :
  NoDup (map fst l) -> In w (map fst l) ->
  (forall r, In r l -> fst r = w -> f (snd r) = snd r + d) ->
  sum_snd (map (fun r => if txid_eqb (fst r) w then (fst r, f (snd r)) else r) l) = sum_snd l + d.
Proof.
  intros ND Hin Hf. induction l as [|r l IH]; cbn in *; [tauto|].
  inversion ND as [|? ? Hnotin ND']; subst.
  destruct (txid_eqb (fst r) w) eqn:E.
  - apply txid_eqb_eq in E. subst w. cbn [snd].
    assert (Hid : map (fun r0 => if txid_eqb (fst r0) (fst r) then (fst r0, f (snd r0)) else r0) l = l).
    { clear -Hnotin. induction l as [|x l IH]; cbn; [reflexivity|].
      destruct (txid_eqb (fst x) (fst r)) eqn:E.
      - apply txid_eqb_eq in E. exfalso. apply Hnotin. left; auto.
      - f_equal. apply IH. intro; apply Hnotin; right; assumption. }
    unfold sum_snd in *. rewrite Hid. rewrite (Hf r) by auto. lia.
  - destruct Hin as [Hin|Hin]; [subst w; rewrite txid_eqb_refl in E; discriminate|].
    specialize (IH ND' Hin (fun r' Hr' => Hf r' (or_intror Hr'))).
    unfold sum_snd in *. cbn [fold_right]. lia.
Qed.

Lemma sum_snd_ge_each (l : list (txid * Z)) r :
  Forall (fun x => 0 <= snd x) l -> In r l -> snd r <= sum_snd l.
Proof.
  intros H; induction H as [|x l Hx H IH]; cbn; [tauto|].
  assert (0 <= sum_snd l) by (clear -H; induction H; cbn; unfold sum_snd in *; cbn; lia).
  unfold sum_snd in *. cbn. intros [->|Hin]; [lia|]. specialize (IH Hin). lia.
Qed.

Lemma map_fst_payout (rs : requests) bank total :
  map fst (map (fun r => (fst r, payout_big (snd r) bank total)) rs) = map fst rs.
Proof. rewrite map_map; cbn; reflexivity. Qed.

(* Main arithmetic fact about Payouts: every unit of the bank is handed out when the
   total requested reaches the bank, never more; below the bank everybody gets his request. *)
Theorem payouts_total (bank : Z) (rs : requests) :
  reqs_ok rs -> txids_nodup rs -> 0 <= bank < two64 -> rs <> [] ->
  sum_snd (payouts bank rs) =
    if total_requested_big rs <? bank then total_requested_big rs else bank.
Proof.
  intros Hok ND Hb Hne.
  unfold payouts. destruct rs as [|r0 rs0] eqn:Ers; [congruence|]. rewrite <- Ers in *.
  set (total := total_requested_big rs).
  pose proof (total_nonneg rs Hok) as Ht0. fold total in Ht0.
  destruct (Z.ltb_spec total bank) as [Hlt|Hge].
  - assert (total <? two64 = true) as -> by (apply Z.ltb_lt; lia). cbn [andb].
    reflexivity.
  - rewrite andb_false_r.
    set (base := map (fun r => (fst r, payout_big (snd r) bank total)) rs).
    assert (Hle : forall r, In r rs -> snd r <= total) by (intros; apply total_ge_each; auto).
    assert (Hsum0 : 0 <= sum_snd base) by (apply sum_snd_map_nonneg; auto).
    assert (Hsum : sum_snd base <= bank).
    { destruct (Z.eq_dec total 0) as [Hz|Hnz].
      - (* all requests are 0, bank is 0 *)
        assert (sum_snd base = 0); [|lia].
        unfold base. rewrite Hz. clear. induction rs as [|r rs IH]; [reflexivity|].
        cbn [map]. rewrite sum_snd_cons, IH. cbn [snd]. unfold payout_big.
        rewrite orb_true_r. reflexivity.
      - pose proof (sum_snd_map_le rs bank total Hok ltac:(lia) Hb Hle) as K.
        fold base in K. fold total in K. nia. }
    fold (sum_snd base).
    rewrite (wrap64_small (sum_snd base)) by lia.
    rewrite (wrap64_small (bank - sum_snd base)) by lia.
    destruct (dust_winner_some rs Hne) as [w Hw]. rewrite Hw.
    pose proof (sum_snd_bump base (fst w) (bank - sum_snd base)
                  (fun x => wrap64 (x + (bank - sum_snd base)))) as B.
    cbv beta in B. rewrite B.
    + lia.
    + unfold base. rewrite map_fst_payout. exact ND.
    + unfold base. rewrite map_fst_payout. apply in_map. apply dust_winner_in; assumption.
    + intros r Hr _. apply wrap64_small.
      assert (Hnn : Forall (fun x : txid * Z => 0 <= snd x) base).
      { unfold base. apply Forall_forall. intros x Hx. apply in_map_iff in Hx as (y & <- & Hy). cbn.
        destruct (payout_big_bounds (snd y) bank total) as [_ B2]; [|exact Hb|lia].
        unfold reqs_ok in Hok. rewrite Forall_forall in Hok. specialize (Hok y Hy). cbn in Hok. split; [lia|apply Hle; exact Hy]. }
      pose proof (sum_snd_ge_each base r Hnn Hr).
      rewrite Forall_forall in Hnn. specialize (Hnn r Hr). cbn in Hnn. lia.
Qed.
