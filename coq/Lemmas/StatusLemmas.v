(* Lemmas/StatusLemmas.v — C08 (bad entries are skipped) and C17 (history status tells the truth,
   paging enumerates every action exactly once). *)
From Model Require Import Block.
From Lemmas Require Import DbLemmas LedgerLemmas.
From Gen Require Import Consts.
From Coq Require Import Lia.
Open Scope Z_scope.

Section WithCfg.
Variable c : cfg.

(* ---- C08: what is skipped ------------------------------------------------------------------- *)
(* an entry that does not decode / validate at this height has no effect at all *)
Lemma invalid_entry_inert h s order e : entry_valid_at c e h = None -> apply_entry c h s order e = Ok s.
Proof. intros H. unfold apply_entry. rewrite H. reflexivity. Qed.
(* an entry whose hash was executed before, or is already recorded (pending or rejected), has no effect *)
Lemma replayed_entry_inert h s order e : is_replay s (e_hash e) = true -> apply_entry c h s order e = Ok s.
Proof. intros H. unfold apply_entry. destruct (entry_valid_at c e h); [rewrite H|]; reflexivity. Qed.
Lemma recorded_entry_inert h s order e : hist_has s (e_hash e) = true -> apply_entry c h s order e = Ok s.
Proof. intros H. unfold apply_entry. destruct (entry_valid_at c e h); [|reflexivity]. destruct (is_replay s (e_hash e)); [reflexivity|]. rewrite H. reflexivity. Qed.
(* the same on the holding path *)
Lemma replayed_held_inert cur rates avgs s e hh txs :
  entry_valid_at c e hh = Some txs -> ((c_V20HeightActivation c <=? cur) && has_peg_conversion txs) = false ->
  (exists t, entry_valid_at c e cur = Some t) -> is_replay s (e_hash e) = true ->
  apply_held c cur rates avgs s e hh = Ok (s, false).
Proof. intros H1 H2 [t H3] H4. unfold apply_held. rewrite H1, H2, H3, H4. reflexivity. Qed.

(* a block of entries none of which decodes is skipped entirely *)
Lemma all_invalid_block_inert h s es :
  Forall (fun e => entry_valid_at c e h = None) es -> apply_tx_block c h s es = Ok s.
Proof.
  unfold apply_tx_block. generalize 0 as i. induction es as [|e es IH]; intros i H; cbn [fold_left snd]; [reflexivity|].
  inversion H as [|? ? He Hes]; subst. cbn [rbind]. rewrite (invalid_entry_inert h s i e He). apply IH; exact Hes.
Qed.

(* ---- C17: status --------------------------------------------------------------------------------- *)
Definition status_of (s : db) (hs : hash) : list Z := map hb_exec (filter (fun r => hb_hash r =? hs) (hist s)).

Lemma status_set_executed s hs code : Forall (fun e => e = code) (status_of (set_executed s hs code) hs).
Proof.
  unfold status_of, set_executed. cbn. induction (hist s) as [|r l IH]; cbn; [constructor|].
  destruct (hb_hash r =? hs) eqn:E; cbn; [rewrite E; constructor; [reflexivity|exact IH]|rewrite E; exact IH].
Qed.

(* a rejected held batch: status = the (negative) reject code, every balance untouched *)
Lemma rejected_held_status cur rates avgs s e hh txs code :
  entry_valid_at c e hh = Some txs -> ((c_V20HeightActivation c <=? cur) && has_peg_conversion txs) = false ->
  (exists t, entry_valid_at c e cur = Some t) -> is_replay s (e_hash e) = false ->
  apply_batch c cur s (e_hash e) txs rates avgs = BRejected code ->
  exists s', apply_held c cur rates avgs s e hh = Ok (s', false) /\ bal s' = bal s /\
             Forall (fun x => x = code) (status_of s' (e_hash e)).
Proof.
  intros H1 H2 [t H3] H4 H5. unfold apply_held. rewrite H1, H2, H3, H4, H5.
  eexists. split; [reflexivity|]. split; [reflexivity|apply status_set_executed].
Qed.

(* ---- C17: paging ---------------------------------------------------------------------------------- *)
(* the data query is the count query's predicate with LIMIT lim OFFSET off over a fixed order *)
Definition page {A} (l : list A) (off lim : nat) : list A := firstn lim (skipn off l).
Fixpoint pages {A} (fuel : nat) (l : list A) (off lim : nat) : list A :=
  match fuel with
  | O => []
  | S k => match page l off lim with
           | [] => []
           | p => p ++ pages k l (off + lim) lim
           end
  end.

Lemma page_all {A} (l : list A) lim : (0 < lim)%nat -> forall fuel off,
  (length l - off <= fuel * lim)%nat -> pages fuel l off lim = skipn off l.
Proof.
  intros Hl. induction fuel as [|k IH]; intros off Hf.
  - cbn in Hf. cbn. symmetry. apply skipn_all2. lia.
  - cbn [pages]. unfold page at 1.
    destruct (firstn lim (skipn off l)) as [|x p] eqn:E.
    + (* an empty page: nothing is left *)
      destruct (skipn off l) as [|y r] eqn:Es; [reflexivity|]. destruct lim; [lia|discriminate].
    + rewrite <- E. rewrite IH.
      * rewrite <- (firstn_skipn lim (skipn off l)) at 2. f_equal. rewrite drop_drop. reflexivity.
      * assert (length (firstn lim (skipn off l)) = Nat.min lim (length l - off)) by (rewrite firstn_length, skipn_length; reflexivity).
        destruct (Nat.le_gt_cases (length l) (off + lim)); lia.
Qed.

(* following nextoffset page by page returns every action exactly once, in order; the count is their number *)
Theorem paging_exact {A} (l : list A) lim : (0 < lim)%nat -> pages (S (length l)) l 0 lim = l.
Proof. intros Hl. rewrite (page_all l lim Hl); [reflexivity|]. cbn. nia. Qed.
End WithCfg.
