(* Lemmas/RewardLemmas.v — C11: grading rewards and FCT burns are credited exactly as decided,
   to the named address, once; nothing else in those steps touches a balance. *)
From Model Require Import Block.
From Lemmas Require Import DbLemmas LedgerLemmas SupplyLemmas.
From Gen Require Import Consts.
From Coq Require Import Lia.
Open Scope Z_scope.

(* what the winners of a verdict are owed at address a *)
Definition owed (ws : list winner) (a : addr) : Z :=
  fold_right (fun w acc => (match w_addr w with Some a' => if a' =? a then wrap64 (w_payout w) else 0 | None => 0 end) + acc) 0 ws.

Lemma get_bal_add s a t v s' a' t' :
  add_to_balance s a t v = Ok s' ->
  get_bal (bal s') a' t' = get_bal (bal s) a' t' + (if (a =? a') && (t =? t') then v else 0).
Proof.
  intros H. apply add_to_balance_ok in H as (_ & _ & ->). cbn. rewrite get_bal_insert.
  destruct (decide ((a, t) = (a', t'))) as [E|N].
  - inversion E; subst. rewrite !Z.eqb_refl. cbn. lia.
  - destruct (Z.eqb_spec a a'), (Z.eqb_spec t t'); cbn; try lia. subst. contradiction.
Qed.

Theorem pay_winners_exact ts ws : forall s s' a t,
  pay_winners s ts ws = Ok s' ->
  get_bal (bal s') a t = get_bal (bal s) a t + (if t =? PTickerPEG then owed ws a else 0).
Proof.
  unfold pay_winners. induction ws as [|w ws IH]; intros s s' a t H; cbn [fold_left] in H.
  - inversion H; subst. cbn. destruct (t =? PTickerPEG); lia.
  - cbn [rbind] in H. cbn [owed fold_right]. fold (owed ws a).
    destruct (w_addr w) as [a'|].
    + destruct (add_to_balance s a' PTickerPEG (wrap64 (w_payout w))) as [s1|e|e] eqn:Ea; cbn [rbind] in H;
        [|exfalso; eapply fold_res_fail; exact H|exfalso; eapply fold_res_panic; exact H].
      destruct (insert_hbatch s1 _) as [s2|e|e] eqn:Eb; cbn [rbind] in H;
        [|exfalso; eapply fold_res_fail; exact H|exfalso; eapply fold_res_panic; exact H].
      destruct (insert_htx s2 _ _) as [s3|e|e] eqn:Ec;
        [|exfalso; eapply fold_res_fail; exact H|exfalso; eapply fold_res_panic; exact H].
      rewrite (IH _ _ _ _ H), (bal_insert_htx _ _ _ _ Ec), (bal_insert_hbatch _ _ _ Eb), (get_bal_add _ _ _ _ _ a t Ea).
      rewrite (Z.eqb_sym PTickerPEG t). destruct (a' =? a), (t =? PTickerPEG); cbn; lia.
    + rewrite (IH _ _ _ _ H). destruct (t =? PTickerPEG); lia.
Qed.

(* FCT burns: what the factoid block credits at address a *)
Definition burned_by (fs : list ftx) (a : addr) : Z :=
  fold_right (fun f acc => (match is_burn f with Some (a', v) => if a' =? a then v else 0 | None => 0 end) + acc) 0 fs.

Theorem factoid_block_exact h fs : forall s s' a t,
  apply_factoid_block h s fs = Ok s' ->
  get_bal (bal s') a t = get_bal (bal s) a t + (if t =? PTickerFCT then burned_by fs a else 0).
Proof.
  unfold apply_factoid_block. induction fs as [|f fs IH]; intros s s' a t H; cbn [fold_left] in H.
  - inversion H; subst. cbn. destruct (t =? PTickerFCT); lia.
  - cbn [rbind] in H. cbn [burned_by fold_right]. fold (burned_by fs a).
    destruct (is_burn f) as [[a' v]|].
    + destruct (add_to_balance s a' PTickerFCT v) as [s1|e|e] eqn:Ea; cbn [rbind] in H;
        [|exfalso; eapply fold_res_fail; exact H|exfalso; eapply fold_res_panic; exact H].
      destruct (insert_hbatch s1 _) as [s2|e|e] eqn:Eb; cbn [rbind] in H;
        [|exfalso; eapply fold_res_fail; exact H|exfalso; eapply fold_res_panic; exact H].
      destruct (insert_htx s2 _ _) as [s3|e|e] eqn:Ec;
        [|exfalso; eapply fold_res_fail; exact H|exfalso; eapply fold_res_panic; exact H].
      rewrite (IH _ _ _ _ H), (bal_insert_htx _ _ _ _ Ec), (bal_insert_hbatch _ _ _ Eb), (get_bal_add _ _ _ _ _ a t Ea).
      rewrite (Z.eqb_sym PTickerFCT t). destruct (a' =? a), (t =? PTickerFCT); cbn; lia.
    + rewrite (IH _ _ _ _ H). destruct (t =? PTickerFCT); lia.
Qed.

(* a factoid transaction that is not exactly "one FCT input, no FCT output, one EC output of 0 to
   the burn RCD" is not a burn *)
Lemma is_burn_shape f a v :
  is_burn f = Some (a, v) ->
  f_inputs f = [(a, v)] /\ f_outputs f = [] /\ f_ecoutputs f = [(BurnRCD, 0)] /\ 0 <= v.
Proof.
  unfold is_burn. destruct (f_ecoutputs f) as [|[ec amt] [|? ?]]; try discriminate.
  destruct (f_inputs f) as [|[a' v'] [|? ?]]; try discriminate.
  destruct (f_outputs f); try discriminate.
  destruct ((ec =? BurnRCD) && (amt =? 0) && (0 <=? v')) eqn:E; [|discriminate].
  intros H; inversion H; subst. apply andb_prop in E as [E E3]. apply andb_prop in E as [E1 E2].
  apply Z.eqb_eq in E1, E2. apply Z.leb_le in E3. subst. auto.
Qed.

(* the grader version by height: the ladder read off the source equals the protocol's table
   whenever the activations are in mainnet order *)
Lemma opr_version_table c h :
  c_GradingV2Activation c <= c_PEGFreeFloatingPriceActivation c <= c_V4OPRUpdate c ->
  c_V4OPRUpdate c <= c_V20HeightActivation c ->
  opr_version c h =
    if c_V20HeightActivation c <=? h then 5 else if c_V4OPRUpdate c <=? h then 4
    else if c_PEGFreeFloatingPriceActivation c <=? h then 3 else if c_GradingV2Activation c <=? h then 2 else opr_version_ladder_init.
Proof.
  intros [H1 H2] H3. unfold opr_version, ladder_version, opr_ladder. cbn [fold_left fst snd].
  destruct (Z.leb_spec (c_V20HeightActivation c) h), (Z.leb_spec (c_V4OPRUpdate c) h),
           (Z.leb_spec (c_PEGFreeFloatingPriceActivation c) h), (Z.leb_spec (c_GradingV2Activation c) h); try reflexivity; lia.
Qed.
Lemma spr_version_table c h :
  c_V20HeightActivation c <= c_SprSignatureActivation c <= c_V202EnhanceActivation c ->
  spr_version c h =
    if c_V202EnhanceActivation c <=? h then 7 else if c_SprSignatureActivation c <=? h then 6 else 5.
Proof.
  intros [H1 H2]. unfold spr_version, ladder_version, spr_ladder. cbn [fold_left fst snd].
  assert (spr_version_ladder_init = 5) as -> by reflexivity.
  destruct (Z.leb_spec (c_V202EnhanceActivation c) h), (Z.leb_spec (c_SprSignatureActivation c) h),
           (Z.leb_spec (c_V20HeightActivation c) h); try reflexivity; lia.
Qed.
