(* Obligations over the regenerated tables of Gen/Sites.v. Each one is a closed boolean
   computation over the whole (finite) table, discharged by [vm_compute]; the ones that other
   proofs consume are lifted to statements about the members of the table with forallb_forall.
   When the source changes in a way these tables see, the table changes and the computation is
   redone against it: the lemma then either still holds or this file no longer compiles. *)
From Coq Require Import String List Bool Arith.
From Gen Require Import Sites.
From Model Require Import SitesSpec.
Import ListNotations.
Open Scope string_scope.

(* ------------------------------------------------------------------ roots *)

Lemma sync_roots_expected : check_sync_roots = true.
Proof. vm_compute; reflexivity. Qed.

Lemma api_roots_expected : check_api_roots = true.
Proof. vm_compute; reflexivity. Qed.

(* ------------------------------------------------------------------ C02 *)

(* every write reachable from the block application goes through the block's sql.Tx *)
Lemma sync_writes_on_tx :
  forallb (fun r => (eff_handle r =? "tx") && (eff_origin r =? "root")) (filter is_write effective_sql) = true.
Proof. vm_compute; reflexivity. Qed.

Lemma sync_writes_on_tx_forall :
  forall r, In r effective_sql -> is_write r = true -> eff_handle r = "tx" /\ eff_origin r = "root".
Proof.
  intros r Hin Hw.
  pose proof sync_writes_on_tx as H.
  rewrite forallb_forall in H.
  specialize (H r).
  assert (Hf : In r (filter is_write effective_sql)) by (apply filter_In; split; assumption).
  apply H in Hf. apply andb_true_iff in Hf. destruct Hf as [H1 H2].
  split; apply String.eqb_eq; assumption.
Qed.

Lemma sync_handles_known : check_sync_handles_known = true.
Proof. vm_compute; reflexivity. Qed.

Lemma sync_handles_known_forall :
  forall r, In r effective_sql -> on_tx r = true \/ on_pool r = true.
Proof.
  intros r Hin.
  pose proof sync_handles_known as H. unfold check_sync_handles_known in H.
  rewrite forallb_forall in H. apply H in Hin. apply orb_true_iff in Hin. exact Hin.
Qed.

(* the reads that see the committed database are exactly the expected ones *)
Lemma sync_pool_reads_expected :
  forallb (fun r => mem (eff_origin r) expected_pool_readers) (filter on_pool effective_sql) = true.
Proof. vm_compute; reflexivity. Qed.

Lemma sync_pool_reads_expected_forall :
  forall r, In r effective_sql -> eff_handle r = "pool" ->
            is_read r = true /\ In (eff_origin r) expected_pool_readers.
Proof.
  intros r Hin Hp.
  assert (Hpool : on_pool r = true) by (unfold on_pool; rewrite Hp; reflexivity).
  split.
  - destruct (is_read r) eqn:E; [reflexivity|].
    assert (Hw : is_write r = true) by (unfold is_write; rewrite E; reflexivity).
    destruct (sync_writes_on_tx_forall r Hin Hw) as [Ht _]. rewrite Hp in Ht. discriminate Ht.
  - pose proof sync_pool_reads_expected as H. rewrite forallb_forall in H.
    assert (Hf : In r (filter on_pool effective_sql)) by (apply filter_In; split; assumption).
    apply H in Hf. unfold mem in Hf. apply existsb_exists in Hf.
    destruct Hf as [x [Hx Heq]]. apply String.eqb_eq in Heq. rewrite Heq. exact Hx.
Qed.

(* ... and each of them is still there (a pool read that was moved to the transaction is noticed) *)
Lemma sync_pool_readers_present : check_sync_pool_readers_present = true.
Proof. vm_compute; reflexivity. Qed.

(* the callers of the pool readers inside the block application are exactly the expected ones *)
Lemma pool_reader_calls_expected : check_pool_reader_calls = true.
Proof. vm_compute; reflexivity. Qed.

(* ------------------------------------------------------------------ C18 *)

Lemma api_never_writes : forallb is_read api_effective_sql = true.
Proof. vm_compute; reflexivity. Qed.

Lemma api_never_writes_forall : forall r, In r api_effective_sql -> eff_rw r = "R".
Proof.
  intros r Hin. pose proof api_never_writes as H. rewrite forallb_forall in H.
  apply H in Hin. apply String.eqb_eq. exact Hin.
Qed.

Lemma api_reads_pool_only : forallb on_pool api_effective_sql = true.
Proof. vm_compute; reflexivity. Qed.

Lemma api_reads_pool_only_forall : forall r, In r api_effective_sql -> eff_handle r = "pool".
Proof.
  intros r Hin. pose proof api_reads_pool_only as H. rewrite forallb_forall in H.
  apply H in Hin. apply String.eqb_eq. exact Hin.
Qed.

Lemma api_nil_calls_expected : check_api_nil_calls = true.
Proof. vm_compute; reflexivity. Qed.

(* ------------------------------------------------------------------ C10 *)

(* by (function, callee, how), not by hash: no dropped error result that is not expected *)
Lemma discarded_errors_expected :
  forallb (fun k => mem3 k expected_discarded_keys) discarded_keys = true.
Proof. vm_compute; reflexivity. Qed.

Lemma discarded_errors_expected_forall :
  forall f c h x, In (f, c, h, x) discarded_errors ->
                  exists n, In (f, c, h, n) expected_discarded.
Proof.
  intros f c h x Hin.
  pose proof discarded_errors_expected as H. rewrite forallb_forall in H.
  assert (Hk : In (f, c, h) discarded_keys).
  { unfold discarded_keys. change (f, c, h) with (disc_key (f, c, h, x)). apply in_map. exact Hin. }
  apply H in Hk. unfold mem3 in Hk. apply existsb_exists in Hk.
  destruct Hk as [[[f' c'] h'] [Hx Heq]].
  unfold eqb3 in Heq. apply andb_true_iff in Heq. destruct Heq as [Heq H3].
  apply andb_true_iff in Heq. destruct Heq as [H1 H2].
  apply String.eqb_eq in H1. apply String.eqb_eq in H2. apply String.eqb_eq in H3. subst.
  unfold expected_discarded_keys in Hx. apply in_map_iff in Hx.
  destruct Hx as [[[[f0 c0] h0] n] [Hk Hin']]. simpl in Hk. inversion Hk; subst.
  exists n. exact Hin'.
Qed.

(* the converse inclusion, separately: a site that went away is noticed, without making the first
   lemma fail *)
Lemma discarded_errors_present :
  forallb (fun k => mem3 k discarded_keys) expected_discarded_keys = true.
Proof. vm_compute; reflexivity. Qed.

(* and no further site of a kind already expected *)
Lemma discarded_errors_counts : check_discarded_counts = true.
Proof. vm_compute; reflexivity. Qed.

(* ------------------------------------------------------------------ C01 *)

Lemma map_ranges_expected :
  forallb (fun k => mem2 k expected_map_ranges) map_range_keys = true.
Proof. vm_compute; reflexivity. Qed.

Lemma map_ranges_expected_forall :
  forall f t c x, In (f, t, c, x) map_ranges -> In (f, c) expected_map_ranges.
Proof.
  intros f t c x Hin.
  pose proof map_ranges_expected as H. rewrite forallb_forall in H.
  assert (Hk : In (f, c) map_range_keys).
  { unfold map_range_keys.
    change (f, c) with ((fun r : string * string * string * string => match r with (f, _, c, _) => (f, c) end) (f, t, c, x)).
    apply in_map. exact Hin. }
  apply H in Hk. unfold mem2 in Hk. apply existsb_exists in Hk.
  destruct Hk as [[f' c'] [Hx Heq]]. unfold eqb2 in Heq. simpl in Heq.
  apply andb_true_iff in Heq. destruct Heq as [H1 H2].
  apply String.eqb_eq in H1. apply String.eqb_eq in H2. subst. exact Hx.
Qed.

Lemma map_ranges_present :
  forallb (fun k => mem2 k map_range_keys) expected_map_ranges = true.
Proof. vm_compute; reflexivity. Qed.

Lemma sort_calls_expected :
  forallb (fun k => mem2 k expected_sort_calls) sort_call_keys = true.
Proof. vm_compute; reflexivity. Qed.

Lemma sort_calls_present :
  forallb (fun k => mem2 k sort_call_keys) expected_sort_calls = true.
Proof. vm_compute; reflexivity. Qed.

(* ------------------------------------------------------------------ C18: shared fields *)

(* the fields of Pegnetd / BlockSync written from the sync loop are exactly
   { Sync.Synced, LastAverages, LastAveragesData, LastAveragesHeight } *)
Lemma shared_fields_expected : check_sync_written_fields = true.
Proof. vm_compute; reflexivity. Qed.

Lemma shared_fields_no_other_writes : check_no_other_shared_writes = true.
Proof. vm_compute; reflexivity. Qed.

(* which of them the API also writes (the average cache, through get-rich-list / get-global-rich-list) *)
Lemma shared_fields_api_writes : check_api_written_fields = true.
Proof. vm_compute; reflexivity. Qed.

(* ... and reads (all four) *)
Lemma shared_fields_api_reads : check_api_read_sync_written = true.
Proof. vm_compute; reflexivity. Qed.

(* the locking discipline: no field is in an unprotected conflict between the sync loop and the API *)
Lemma shared_fields_conflicts : check_conflicting_fields = true.
Proof. vm_compute; reflexivity. Qed.

(* ------------------------------------------------------------------ C02: durability settings *)
Lemma journal_on_disk : check_journal_on_disk = true.
Proof. vm_compute; reflexivity. Qed.
Lemma synchronous_on : check_synchronous_on = true.
Proof. vm_compute; reflexivity. Qed.
