(* Obligations over the regenerated tables of Gen/Sites.v, by [vm_compute] over the whole (finite) table.
   One file per property, so that a table that no longer matches breaks only the property it belongs to. *)
(* everything together; the Props files import only their own part *)
From Lemmas Require Export SitesRoots SitesC01 SitesC02 SitesC10 SitesC18.
